/-
C03 — period limit: lemmas about `periodScript` over the store model and the running-life lemma.
-/
import GoZero.C03.ProofsStore
namespace GoZero.C03
open GoZero.C03 Spec

theorem takeResult_code (q c : Nat) :
    takeResult (.int ((if c < q then 1 else if c = q then 2 else 0 : Nat) : Int)) = (codeOf q c, .nil) := by
  unfold codeOf
  by_cases h1 : c < q
  · simp [h1, takeResult]
  · by_cases h2 : c = q
    · simp [h2, takeResult]
    · simp [h1, h2, takeResult]

/-- a take on another key leaves the raw entry of `k` alone -/
theorem periodScript_other (s : Store) (k k' : String) (q p : Nat) (h : k ≠ k') :
    (periodScript s k' q p).1.find k = s.find k ∧ (periodScript s k' q p).1.clock = s.clock := by
  unfold periodScript Store.incrby Store.expire
  cases hg : s.get k' with
  | none =>
    simp only []
    split
    · rw [get_eq, find_put]; simp only [if_true]
      split
      · split <;> simp [find_put, find_del, h]
      · simp [find_put, h]
    · simp [find_put, h]
  | some e =>
    simp only []
    split
    · rw [get_eq, find_put]; simp only [if_true]
      split
      · split <;> simp [find_put, find_del, h]
      · simp [find_put, h]
    · simp [find_put, h]

/-- a take on `k` during a running life: the counter moves, the deadline does not -/
theorem periodScript_running (s : Store) (k : String) (q p j D : Nat)
    (hf : s.find k = some ⟨j, some D⟩) (hj : 1 ≤ j) (hl : s.clock < D) :
    (periodScript s k q p).1.find k = some ⟨j + 1, some D⟩ ∧ (periodScript s k q p).1.clock = s.clock ∧
    (periodScript s k q p).2 = (if j + 1 < q then 1 else if j + 1 = q then 2 else 0) := by
  have hg : s.get k = some ⟨j, some D⟩ := by
    rw [get_eq, hf]; simp [Entry.live, hl]
  unfold periodScript Store.incrby
  rw [hg]
  have : ¬ (j = 0) := by omega
  simp [this, find_put]

/-- the take that starts a life -/
theorem periodScript_fresh (s : Store) (k : String) (q p : Nat) (hp : 1 ≤ p) (hg : s.get k = none) :
    (periodScript s k q p).1.find k = some ⟨1, some (s.clock + p * 1000)⟩ ∧ (periodScript s k q p).1.clock = s.clock ∧
    (periodScript s k q p).2 = (if 1 < q then 1 else if 1 = q then 2 else 0) := by
  unfold periodScript Store.incrby
  rw [hg]
  simp only [if_true]
  unfold Store.expire
  rw [get_eq, find_put]
  have : ¬ (p = 0) := by omega
  simp [Entry.live, this, find_put]


theorem range_map_shift (f : Nat → α) (m : Nat) :
    (List.range (m + 1)).map f = f 0 :: (List.range m).map (fun i => f (i + 1)) := by
  rw [List.range_succ_eq_map]
  simp [List.map_map, Function.comp_def]

/-- Lemma A: during a running life (counter `j ≥ 1`, deadline `D` not reached by the end of `ops`, store
reachable throughout) the takes on `k` are answered `codeOf (j+1), codeOf (j+2), …`, whatever else happens
on other keys, and the deadline never moves. -/
theorem running_life (quota period : Nat) (k : String) (D : Nat) :
    ∀ (ops : List POp) (s : PSys) (j : Nat), s.up = true → s.store.find k = some ⟨j, some D⟩ → 1 ≤ j →
      s.store.clock + totalAdv ops < D → noDown ops →
      PSys.repliesOn quota period k s ops
          = (List.range (takesOn k ops)).map (fun i => (codeOf quota (j + 1 + i), PErr.nil)) ∧
      (PSys.exec quota period s ops).store.find k = some ⟨j + takesOn k ops, some D⟩ ∧
      (PSys.exec quota period s ops).store.clock = s.store.clock + totalAdv ops ∧
      (PSys.exec quota period s ops).up = true := by
  intro ops
  induction ops with
  | nil => intro s j hu hf hj hc hn; simp [PSys.repliesOn, PSys.exec, takesOn, totalAdv, hf, hu]
  | cons op ops ih =>
    intro s j hu hf hj hc hn
    have hn' : noDown ops := fun o ho => hn o (List.mem_cons_of_mem _ ho)
    cases op with
    | ft ms =>
      have hadv : totalAdv (POp.ft ms :: ops) = ms + totalAdv ops := by simp [totalAdv, POp.adv]
      have := ih ({ s with store := s.store.advance ms }) j hu (by simpa using hf) hj
        (by simp only [clock_advance]; omega) hn'
      simp only [PSys.repliesOn, PSys.exec, PSys.step, takesOn, hadv] at *
      simp only [clock_advance] at this
      have hne : ¬ (POp.ft ms = POp.take k) := by simp
      simp [hne, this]; omega
    | down => exact absurd rfl (hn POp.down (List.mem_cons_self))
    | up =>
      have hadv : totalAdv (POp.up :: ops) = totalAdv ops := by simp [totalAdv, POp.adv]
      have := ih ({ s with up := true }) j rfl hf hj (by simpa [hadv] using hc) hn'
      simp only [PSys.repliesOn, PSys.exec, PSys.step, takesOn, hadv] at *
      have hne : ¬ (POp.up = POp.take k) := by simp
      simp [hne, this]
    | take k' =>
      have hadv : totalAdv (POp.take k' :: ops) = totalAdv ops := by simp [totalAdv, POp.adv]
      rw [hadv] at hc ⊢
      by_cases hk : k' = k
      · subst hk
        have hl : s.store.clock < D := by omega
        obtain ⟨h1, h2, h3⟩ := periodScript_running s.store k' quota period j D hf hj hl
        have := ih (s.take quota period k').1 (j + 1) (by simp [PSys.take, hu])
          (by simp [PSys.take, hu, h1]) (by omega) (by simp [PSys.take, hu, h2]; omega) hn'
        have hcount : takesOn k' (POp.take k' :: ops) = takesOn k' ops + 1 := by simp [takesOn]
        rw [hcount, range_map_shift]
        simp only [PSys.repliesOn, PSys.exec, PSys.step, if_true, Option.toList]
        obtain ⟨t1, t2, t3, t4⟩ := this
        refine ⟨?_, ?_, ?_, t4⟩
        · rw [t1]
          have : (s.take quota period k').2 = (codeOf quota (j + 1), PErr.nil) := by
            simp only [PSys.take, hu, if_true, h3]
            exact takeResult_code quota (j + 1)
          simp [this]
          intro a _; congr 1; omega
        · rw [t2]; congr 2; omega
        · rw [t3]; simp [PSys.take, hu, h2]
      · have hk' : k ≠ k' := fun h => hk h.symm
        obtain ⟨h1, h2⟩ := periodScript_other s.store k k' quota period hk'
        have := ih (s.take quota period k').1 j (by simp [PSys.take, hu])
          (by simp [PSys.take, hu, h1, hf]) hj (by simp [PSys.take, hu, h2]; omega) hn'
        have hne : ¬ (POp.take k' = POp.take k) := by simp [hk]
        have hcount : takesOn k (POp.take k' :: ops) = takesOn k ops := by simp [takesOn, hk]
        rw [hcount]
        simp only [PSys.repliesOn, PSys.exec, PSys.step, hne, if_false, List.nil_append]
        obtain ⟨t1, t2, t3, t4⟩ := this
        refine ⟨t1, t2, ?_, t4⟩
        rw [t3]; simp [PSys.take, hu, h2]


theorem count_lt_range (m q : Nat) : ((List.range m).filter (fun i => decide (i < q))).length = min m q := by
  induction m with
  | zero => simp
  | succ m ih =>
    rw [List.range_succ, List.filter_append, List.length_append, ih]
    by_cases h : m < q
    · simp [h]; omega
    · simp [h]; omega

theorem granted_codeOf (quota i : Nat) :
    granted (codeOf quota (i + 1), PErr.nil) = decide (i < quota) := by
  unfold granted codeOf
  by_cases h1 : i + 1 < quota
  · have : i < quota := by omega
    simp [h1, this]
  · by_cases h2 : i + 1 = quota
    · have : i < quota := by omega
      simp [h2, this]
    · have : ¬ i < quota := by omega
      simp [h1, h2, this]

end GoZero.C03
