/-
C03 — round 5: the Lua subset of tokenscript.lua: token list → AST → meaning over the store model.

The extractor only *lexes* the current file (Extracted.C03.tokenLuaToks); parsing and interpretation happen here, so
that TieSem can prove — for every store, both keys and all integer arguments — that the script as it is written now
means `tokenScriptI` (the script on integers), which is the model's `tokenScript true` on naturals.

Subset:  `local x = e` · `x = e` (assignment to a local of the chunk) · `if c then … end` · `return e` ·
`redis.call("setex", KEYS[i], e, e)`;
e = integer literal · `nil` · local · `tonumber(ARGV[i])` · `tonumber(redis.call("get", KEYS[i]))` · `(e)` ·
`e*e` `e/e` `e+e` `e-e` (usual precedence, left associative) · `math.max(e,e)` `math.min(e,e)` `math.floor(e)` · `e >= e`;
c = `e == nil` · `e` (truthiness of a boolean).  Anything else does not parse or does not evaluate (`none`): the Tie
obligation then fails rather than guessing.

Numbers: Lua numbers are doubles; all values of the script are integers except `capacity/rate`, which is only ever
multiplied by an integer and floored.  The value domain is therefore: integers, ONE kind of exact fraction `p/q`
(closed under multiplication by an integer; `math.floor` gives `Int.fdiv p q`), nil, booleans; any other use of a
fraction is outside the subset.  Exact below 2^53 (props/C03.json, assumptions).
`redis.call("get", k)` of a missing key is `false`, `tonumber(false)` is nil; a stored value is the decimal text of a
natural, `tonumber` gives it back.  `SETEX k ttl v`: error when `ttl ≤ 0` (the script aborts, nothing more is written).
A boolean result becomes the reply the model calls `allowed` (true ⇒ integer 1, false ⇒ nil bulk: `luaBoolReply`).
-/
import GoZero.C03.LuaSem
namespace GoZero.C03

/-- `tonumber(redis.call("get", k))` with the default the script substitutes for nil -/
def getNumOr (s : Store) (k : String) (dflt : Int) : Int :=
  match s.get k with
  | some e => (e.val : Int)
  | none => dflt

/-- tokenscript.lua on integer arguments, statement by statement; `none` = the script raises an error
(`rate = 0`: division by zero gives inf/nan and `math.floor` of it is not a TTL; a value that is not a natural is
outside the store model) -/
def tokenScriptI (s : Store) (k1 k2 : String) (rate cap now req : Int) : Option (Store × Bool) :=
  if rate = 0 then none else
  let ttl := max 1 (Int.fdiv (cap * 2) rate)
  let lastTokens : Int := getNumOr s k1 cap
  let lastRefreshed : Int := getNumOr s k2 0
  let delta := max 0 (now - lastRefreshed)
  let filled := min cap (lastTokens + delta * rate)
  let allowed := decide (req ≤ filled)
  let newTokens := if allowed then filled - req else filled
  if newTokens < 0 ∨ now < 0 then none else
  match s.setex k1 ttl.toNat newTokens.toNat with
  | none => none
  | some s1 =>
    match s1.setex k2 ttl.toNat now.toNat with
    | none => none
    | some s2 => some (s2, allowed)

namespace LuaT
open Lua (Tok)

inductive Val where
  | num (v : Int)
  | frac (p q : Int)
  | nil
  | bool (b : Bool)
  deriving Repr, DecidableEq

inductive Expr where
  | num (n : Int)
  | nilLit
  | var (x : String)
  | argvNum (i : Nat)            -- tonumber(ARGV[i])
  | getNum (i : Nat)             -- tonumber(redis.call("get", KEYS[i]))
  | add (a b : Expr) | sub (a b : Expr) | mul (a b : Expr) | div (a b : Expr)
  | max (a b : Expr) | min (a b : Expr) | floor (a : Expr)
  | ge (a b : Expr)
  deriving Repr, DecidableEq

inductive Cond where
  | eqNil (e : Expr)
  | truthy (e : Expr)
  deriving Repr, DecidableEq

inductive Stmt where
  | localE (x : String) (e : Expr)
  | assign (x : String) (e : Expr)
  | ifThen (c : Cond) (t : List Stmt)
  | setex (key : Nat) (ttl v : Expr)
  | ret (e : Expr)
  deriving Repr

def reserved : List String :=
  ["if", "then", "else", "elseif", "end", "return", "local", "redis", "KEYS", "ARGV", "tonumber", "math", "nil",
   "(", ")", "[", "]", ",", ".", "=", "==", "<", ">", "<=", ">=", "~=", "+", "-", "*", "/", "and", "or", "not", "true", "false"]

mutual
  def parseAtom : Nat → List Tok → Option (Expr × List Tok)
    | 0, _ => none
    | fuel + 1, toks =>
      match toks with
      | .w "tonumber" :: .w "(" :: .w "ARGV" :: .w "[" :: .n i :: .w "]" :: .w ")" :: rest => some (.argvNum i, rest)
      | .w "tonumber" :: .w "(" :: .w "redis" :: .w "." :: .w "call" :: .w "(" :: .s cmd :: .w "," :: .w "KEYS" :: .w "[" ::
          .n i :: .w "]" :: .w ")" :: .w ")" :: rest =>
        if cmd = "get" ∨ cmd = "GET" then some (.getNum i, rest) else none
      | .w "math" :: .w "." :: .w "floor" :: .w "(" :: rest =>
        match parseCmp fuel rest with
        | some (a, .w ")" :: rest) => some (.floor a, rest)
        | _ => none
      | .w "math" :: .w "." :: .w f :: .w "(" :: rest =>
        match parseCmp fuel rest with
        | some (a, .w "," :: rest) =>
          match parseCmp fuel rest with
          | some (b, .w ")" :: rest) =>
            if f = "max" then some (.max a b, rest) else if f = "min" then some (.min a b, rest) else none
          | _ => none
        | _ => none
      | .w "(" :: rest =>
        match parseCmp fuel rest with
        | some (a, .w ")" :: rest) => some (a, rest)
        | _ => none
      | .w "nil" :: rest => some (.nilLit, rest)
      | .n v :: rest => some (.num v, rest)
      | .w x :: rest => if x ∈ reserved then none else some (.var x, rest)
      | _ => none

  def parseMulRest : Nat → Expr → List Tok → Option (Expr × List Tok)
    | 0, _, _ => none
    | fuel + 1, lhs, toks =>
      match toks with
      | .w "*" :: rest =>
        match parseAtom fuel rest with
        | some (b, rest) => parseMulRest fuel (.mul lhs b) rest
        | none => none
      | .w "/" :: rest =>
        match parseAtom fuel rest with
        | some (b, rest) => parseMulRest fuel (.div lhs b) rest
        | none => none
      | _ => some (lhs, toks)

  def parseMul : Nat → List Tok → Option (Expr × List Tok)
    | 0, _ => none
    | fuel + 1, toks =>
      match parseAtom fuel toks with
      | some (a, rest) => parseMulRest fuel a rest
      | none => none

  def parseAddRest : Nat → Expr → List Tok → Option (Expr × List Tok)
    | 0, _, _ => none
    | fuel + 1, lhs, toks =>
      match toks with
      | .w "+" :: rest =>
        match parseMul fuel rest with
        | some (b, rest) => parseAddRest fuel (.add lhs b) rest
        | none => none
      | .w "-" :: rest =>
        match parseMul fuel rest with
        | some (b, rest) => parseAddRest fuel (.sub lhs b) rest
        | none => none
      | _ => some (lhs, toks)

  def parseAdd : Nat → List Tok → Option (Expr × List Tok)
    | 0, _ => none
    | fuel + 1, toks =>
      match parseMul fuel toks with
      | some (a, rest) => parseAddRest fuel a rest
      | none => none

  def parseCmp : Nat → List Tok → Option (Expr × List Tok)
    | 0, _ => none
    | fuel + 1, toks =>
      match parseAdd fuel toks with
      | some (a, .w ">=" :: rest) =>
        match parseAdd fuel rest with
        | some (b, rest) => some (.ge a b, rest)
        | none => none
      | r => r
end

def parseCond (fuel : Nat) (toks : List Tok) : Option (Cond × List Tok) :=
  match parseCmp fuel toks with
  | some (a, .w "==" :: .w "nil" :: rest) => some (.eqNil a, rest)
  | some (a, rest) => some (.truthy a, rest)
  | none => none

mutual
  /-- statements up to (not including) `end` / end of input -/
  def parseBlock : Nat → List Tok → Option (List Stmt × List Tok)
    | 0, _ => none
    | fuel + 1, toks =>
      match toks with
      | [] => some ([], [])
      | .w "end" :: _ => some ([], toks)
      | _ =>
        match parseStmt fuel toks with
        | some (s, rest) =>
          match parseBlock fuel rest with
          | some (ss, rest) => some (s :: ss, rest)
          | none => none
        | none => none

  def parseStmt : Nat → List Tok → Option (Stmt × List Tok)
    | 0, _ => none
    | fuel + 1, toks =>
      match toks with
      | .w "if" :: rest =>
        match parseCond fuel rest with
        | some (c, .w "then" :: rest) =>
          match parseBlock fuel rest with
          | some (t, .w "end" :: rest) => some (.ifThen c t, rest)
          | _ => none
        | _ => none
      | .w "return" :: rest =>
        match parseCmp fuel rest with
        | some (e, rest) =>
          match rest with
          | [] => some (.ret e, rest)
          | .w "end" :: _ => some (.ret e, rest)
          | _ => none
        | none => none
      | .w "local" :: .w x :: .w "=" :: rest =>
        if x ∈ reserved then none else
        match parseCmp fuel rest with
        | some (e, rest) => some (.localE x e, rest)
        | none => none
      | .w "redis" :: .w "." :: .w "call" :: .w "(" :: .s cmd :: .w "," :: .w "KEYS" :: .w "[" :: .n i :: .w "]" :: .w "," :: rest =>
        if cmd = "setex" ∨ cmd = "SETEX" then
          match parseCmp fuel rest with
          | some (t, .w "," :: rest) =>
            match parseCmp fuel rest with
            | some (v, .w ")" :: rest) => some (.setex i t v, rest)
            | _ => none
          | _ => none
        else none
      | .w x :: .w "=" :: rest =>
        if x ∈ reserved then none else
        match parseCmp fuel rest with
        | some (e, rest) => some (.assign x e, rest)
        | none => none
      | _ => none
end

def parse (toks : List Tok) : Option (List Stmt) :=
  match parseBlock (2 * toks.length + 2) toks with
  | some (ss, []) => some ss
  | _ => none

/-! ### meaning -/

structure Env where
  keys   : List String
  argv   : List Int
  locals : List (String × Val) := []

def arith2 (f : Int → Int → Int) : Val → Val → Option Val
  | .num a, .num b => some (.num (f a b))
  | _, _ => none

def mulV : Val → Val → Option Val
  | .num a, .num b => some (.num (a * b))
  | .frac p q, .num k => some (.frac (p * k) q)
  | .num k, .frac p q => some (.frac (k * p) q)
  | _, _ => none

def divV : Val → Val → Option Val
  | .num a, .num b => if b = 0 then none else some (.frac a b)
  | _, _ => none

def floorV : Val → Option Val
  | .num a => some (.num a)
  | .frac p q => if q = 0 then none else some (.num (Int.fdiv p q))
  | _ => none

def geV : Val → Val → Option Val
  | .num a, .num b => some (.bool (decide (b ≤ a)))
  | _, _ => none

def bind2 (f : Val → Val → Option Val) : Option Val → Option Val → Option Val
  | some a, some b => f a b
  | _, _ => none

def evalExpr (env : Env) (s : Store) : Expr → Option Val
  | .num n => some (.num n)
  | .nilLit => some .nil
  | .var x => env.locals.lookup x
  | .argvNum i => if i = 0 then none else (env.argv[i - 1]?).map Val.num
  | .getNum i =>
    if i = 0 then none else
    match env.keys[i - 1]? with
    | some k => (match s.get k with | some e => some (.num (e.val : Int)) | none => some .nil)
    | none => none
  | .add a b => bind2 (arith2 (· + ·)) (evalExpr env s a) (evalExpr env s b)
  | .sub a b => bind2 (arith2 (· - ·)) (evalExpr env s a) (evalExpr env s b)
  | .mul a b => bind2 mulV (evalExpr env s a) (evalExpr env s b)
  | .div a b => bind2 divV (evalExpr env s a) (evalExpr env s b)
  | .max a b => bind2 (arith2 Max.max) (evalExpr env s a) (evalExpr env s b)
  | .min a b => bind2 (arith2 Min.min) (evalExpr env s a) (evalExpr env s b)
  | .floor a => (evalExpr env s a).bind floorV
  | .ge a b => bind2 geV (evalExpr env s a) (evalExpr env s b)

def evalCond (env : Env) (s : Store) : Cond → Option Bool
  | .eqNil e => (evalExpr env s e).map fun v => decide (v = .nil)
  | .truthy e => match evalExpr env s e with
    | some (.bool b) => some b
    | _ => none

def setLocal (env : Env) (x : String) (v : Val) : Env := { env with locals := (x, v) :: env.locals }

def replaceVar (x : String) (v : Val) : List (String × Val) → Option (List (String × Val))
  | [] => none
  | (y, w) :: rest => if x = y then some ((y, v) :: rest) else (replaceVar x v rest).map ((y, w) :: ·)

/-- executes a block; `inner` = inside an `if` (a `local` there would go out of scope at its `end`: outside the subset) -/
def execBlock : Nat → Bool → Env → Store → List Stmt → Option (Env × Store × Option Val)
  | 0, _, _, _, _ => none
  | fuel + 1, inner, env, s, ss =>
    match ss with
    | [] => some (env, s, none)
    | .ret e :: _ =>
      match evalExpr env s e with
      | some v => some (env, s, some v)
      | none => none
    | .localE x e :: rest =>
      if inner then none else
      match evalExpr env s e with
      | some v => execBlock fuel inner (setLocal env x v) s rest
      | none => none
    | .assign x e :: rest =>
      match evalExpr env s e with
      | some v =>
        match replaceVar x v env.locals with
        | some ls => execBlock fuel inner { env with locals := ls } s rest
        | none => none
      | none => none
    | .setex i t v :: rest =>
      if i = 0 then none else
      match env.keys[i - 1]?, evalExpr env s t, evalExpr env s v with
      | some k, some (.num t), some (.num v) =>
        if v < 0 then none else
        match s.setex k t.toNat v.toNat with
        | some s' => execBlock fuel inner env s' rest
        | none => none
      | _, _, _ => none
    | .ifThen c t :: rest =>
      match evalCond env s c with
      | some true =>
        match execBlock fuel true env s t with
        | some (env', s', some r) => some (env', s', some r)
        | some (env', s', none) => execBlock fuel inner env' s' rest
        | none => none
      | some false => execBlock fuel inner env s rest
      | none => none

/-! step equations of `execBlock` -/

theorem exec_localE (f : Nat) (env : Env) (s : Store) (x : String) (e : Expr) (rest : List Stmt) :
    execBlock (f+1) false env s (.localE x e :: rest) = (match evalExpr env s e with
      | some v => execBlock f false (setLocal env x v) s rest
      | none => none) := rfl
theorem exec_assign (f : Nat) (i : Bool) (env : Env) (s : Store) (x : String) (e : Expr) (rest : List Stmt) :
    execBlock (f+1) i env s (.assign x e :: rest) = (match evalExpr env s e with
      | some v =>
        match replaceVar x v env.locals with
        | some ls => execBlock f i { env with locals := ls } s rest
        | none => none
      | none => none) := rfl
theorem exec_ret (f : Nat) (i : Bool) (env : Env) (s : Store) (e : Expr) (rest : List Stmt) :
    execBlock (f+1) i env s (.ret e :: rest) = (match evalExpr env s e with
      | some v => some (env, s, some v)
      | none => none) := rfl
theorem exec_nil (f : Nat) (i : Bool) (env : Env) (s : Store) :
    execBlock (f+1) i env s [] = some (env, s, none) := rfl
theorem exec_setex (f : Nat) (i : Bool) (env : Env) (s : Store) (k : Nat) (t v : Expr) (rest : List Stmt) :
    execBlock (f+1) i env s (.setex k t v :: rest) = (if k = 0 then none else
      match env.keys[k - 1]?, evalExpr env s t, evalExpr env s v with
      | some key, some (.num t), some (.num v) =>
        if v < 0 then none else
        match s.setex key t.toNat v.toNat with
        | some s' => execBlock f i env s' rest
        | none => none
      | _, _, _ => none) := rfl
theorem exec_ifThen (f : Nat) (i : Bool) (env : Env) (s : Store) (c : Cond) (t rest : List Stmt) :
    execBlock (f+1) i env s (.ifThen c t :: rest) = (match evalCond env s c with
      | some true =>
        match execBlock f true env s t with
        | some (env', s', some r) => some (env', s', some r)
        | some (env', s', none) => execBlock f i env' s' rest
        | none => none
      | some false => execBlock f i env s rest
      | none => none) := rfl

/-- run a script given as raw tokens: `none` = does not parse, raises an error, or does not end with `return <boolean>` -/
def runScript (raw : List (Nat × String × Nat)) (keys : List String) (argv : List Int) (s : Store) : Option (Store × Bool) :=
  match (raw.mapM Tok.ofRaw).bind parse with
  | some prog =>
    match execBlock 40 false { keys := keys, argv := argv } s prog with
    | some (_, s, some (.bool b)) => some (s, b)
    | _ => none
  | none => none

end LuaT
end GoZero.C03
