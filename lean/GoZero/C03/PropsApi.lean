/-
C03 — round 5: property theorems about the PUBLIC API as a whole — constructors (every argument, every option list),
delegating entry points (what reaches `reserveN` / the script call), every kind of caller context, every kind of reply
of the remote party (also replies no script produces), several limiters on one store (key prefixes, token keys).

  forged_reply_never_grants_period, reserve_outcome_grants_only_on_one, ctx_error_never_rescues,
  ctx_error_touches_nothing, rescue_mode_ignores_context, forged_reply_token, rescue_grant_needs_n_le_burst
  allow_entry_points_forward
  new_period_limit_fields, period_api_window, period_api_take_is_script, period_api_exact_quota,
  period_refines_spec_windows, period_api_refines_spec (a window PER TAKE: `Align()` over a whole run),
  period_api_never_limits_or_grants, period_limiters_with_other_prefix_independent
  new_token_keys_distinct, new_token_keys_injective, token_api_refines_bucket, token_api_rate_bound,
  token_keys_independent, new_token_keys_disjoint, token_keys_refine_own_bucket, token_api_keys_refine_own_bucket
-/
import GoZero.C03.ScriptRun
import GoZero.C03.Props
import GoZero.C03.ProofsPeriodW
import GoZero.C03.ProofsTokenKeys
import GoZero.C03.RescueIval
namespace GoZero.C03.PropsApi
open GoZero.C03 Spec

/-! ## every kind of reply × every kind of context -/

/-- **PeriodLimit: only the script's integer replies 1 and 2 grant, under every context and every reply kind**
(a string, any other integer, a nil reply, an error; context cancelled / past its deadline: nothing is sent). -/
theorem forged_reply_never_grants_period (k : CtxKind) (r : Resp) :
    granted (takeOutcome k r) = true ↔ k.sends = true ∧ (r = .int 1 ∨ r = .int 2) := by
  unfold takeOutcome
  cases hk : k.sends
  · simp [takeResult, granted]
  · cases r with
    | err => simp [takeResult, granted]
    | other => simp [takeResult, granted]
    | int v =>
      by_cases h0 : v = 0
      · subst h0; simp [takeResult, granted]
      · by_cases h1 : v = 1
        · subst h1; simp [takeResult, granted]
        · by_cases h2 : v = 2
          · subst h2; simp [takeResult, granted]
          · have : takeResult (.int v) = (.unknown, .unknownCode) := by
              unfold takeResult; split <;> simp_all
            simp [this, granted, h1, h2]

example : takeOutcome .expired (.int 1) = (.unknown, .store) ∧ takeOutcome .future (.int 2) = (.hitQuota, .nil) ∧
    takeOutcome .background (Forged.resp .nil) = (.unknown, .store) ∧
    takeOutcome .background (Forged.resp (.int 3)) = (.unknown, .unknownCode) := by decide

/-- **TokenLimiter: a request is granted by the store path iff the context lets the call out and the reply is the
integer 1** -/
theorem reserve_outcome_grants_only_on_one (k : CtxKind) (r : TReply) :
    reserveOutcome k r = .grant ↔ k.sends = true ∧ r = .int 1 := by
  unfold reserveOutcome
  cases hk : k.sends
  · simp [reserveDecide]
  · cases r with
    | int v => by_cases h : v = 1 <;> simp [reserveDecide, h]
    | _ => simp [reserveDecide]

/-- **A caller-side context error is never taken for a store failure**: cancelled or past its deadline, the request is
refused and the instance does NOT go to its local limiter (seeded change C03-5 breaks the code's side of this). -/
theorem ctx_error_never_rescues (k : CtxKind) (r : TReply) (h : k.sends = false) : reserveOutcome k r = .deny := by
  simp [reserveOutcome, h, reserveDecide]

/-- … and touches nothing: store, flags and local limiter of an instance on the store path are unchanged -/
theorem ctx_error_touches_nothing (fixed : Bool) (c : TCfg) (s : Sys) (i : Nat) (a : ReserveArgs)
    (ha : (s.insts i).alive = true) (hc : a.ctx.sends = false) :
    (s.reserveArgs fixed c i a).1 = s ∧ (s.reserveArgs fixed c i a).2.ok = false := by
  simp [Sys.reserveArgs, ha, hc]

/-- an instance in rescue mode never looks at the context; a context that sends is the background context -/
theorem rescue_mode_ignores_context (fixed : Bool) (c : TCfg) (s : Sys) (i : Nat) (a : ReserveArgs)
    (h : (s.insts i).alive = false ∨ a.ctx.sends = true) :
    s.reserveArgs fixed c i a = s.reserveN fixed c i a.ns a.n := by
  rcases h with h | h <;> simp [Sys.reserveArgs, h]

/-- **A forged reply**: a reply that is neither the integer 1 nor a non-integer refuses and touches nothing; a
non-integer reply is a store failure: `startMonitor` and the local limiter decides THIS request — with its size `n` at
its time `ns` (seeded change C03-8 drops `n` there). -/
theorem forged_reply_token (c : TCfg) (s : Sys) (i ns n : Nat) (f : Forged) (ha : (s.insts i).alive = true) :
    (f = .str → s.reserveForged c i ns n f = s.rescuePath c i (s.insts i).startMonitor ns n) ∧
    (f = .nil → s.reserveForged c i ns n f = (s, ⟨i, .store, ns, n, false⟩)) ∧
    (∀ v, f = .int v → s.reserveForged c i ns n f = (s, ⟨i, .store, ns, n, decide (v = 1)⟩)) := by
  refine ⟨?_, ?_, ?_⟩
  · intro h; subst h; simp [Sys.reserveForged, ha, Forged.treply, reserveDecide]
  · intro h; subst h; simp [Sys.reserveForged, ha, Forged.treply, reserveDecide]
  · intro v h; subst h
    by_cases h1 : v = 1 <;> simp [Sys.reserveForged, ha, Forged.treply, reserveDecide, h1]

/-- **The local limiter never grants more than the bucket's size at once**, and a grant of `n` takes `n` tokens:
whatever path led to it (rescue mode, a failed script call, a non-integer reply) -/
theorem rescue_grant_needs_n_le_burst (c : TCfg) (hi : c.ival ≠ 0) (r : Rescue) (t n : Nat)
    (h : (r.allowN c t n).2 = true) :
    n ≤ c.burst ∧ (r.allowN c t n).1.T = r.advanced c t - ((n * c.ival : Nat) : Int) := by
  unfold Rescue.allowN at *
  simp only [hi, if_false] at *
  by_cases hc : n ≤ c.burst ∧ 0 ≤ r.after c t n
  · rw [if_pos hc]; exact ⟨hc.1, rfl⟩
  · rw [if_neg hc] at h; simp at h

example : ((Rescue.init ⟨2, 3, "a", "b"⟩).allowN ⟨2, 3, "a", "b"⟩ 5 4).2 = false ∧
    ((Rescue.init ⟨2, 3, "a", "b"⟩).allowN ⟨2, 3, "a", "b"⟩ 5 3).2 = true := by decide

/-! ## the delegating entry points -/

/-- **What the four entry points hand to `reserveN`**: `Allow()` asks for ONE token at the wall-clock reading with
the background context, `AllowCtx(ctx)` the same with the caller's context; `AllowN` / `AllowNCtx` forward `now`
and `n` unchanged.  Hence `Allow()` at reading `w` IS `AllowN(w, 1)` on every state. -/
theorem allow_entry_points_forward (fixed : Bool) (c : TCfg) (s : Sys) (i w ns n : Nat) (k : CtxKind) :
    s.reserveArgs fixed c i (allowArgs w) = s.reserveN fixed c i w 1 ∧
    s.reserveArgs fixed c i (allowNArgs ns n) = s.reserveN fixed c i ns n ∧
    (k.sends = true → s.reserveArgs fixed c i (allowCtxArgs k w) = s.reserveN fixed c i w 1) ∧
    (k.sends = true → s.reserveArgs fixed c i (allowNCtxArgs k ns n) = s.reserveN fixed c i ns n) ∧
    (allowCtxArgs k w).n = 1 ∧ (allowNCtxArgs k ns n).n = n ∧ (allowNCtxArgs k ns n).ns = ns := by
  refine ⟨?_, ?_, ?_, ?_, rfl, rfl, rfl⟩
  · simp [Sys.reserveArgs, allowArgs, CtxKind.sends]
  · simp [Sys.reserveArgs, allowNArgs, CtxKind.sends]
  · intro h; simp [Sys.reserveArgs, allowCtxArgs, h]
  · intro h; simp [Sys.reserveArgs, allowNCtxArgs, h]

/-! ## NewPeriodLimit: every argument, every option list -/

theorem foldl_apply_fields (opts : List POpt) (l : PLim) :
    (opts.foldl POpt.apply l).period = l.period ∧ (opts.foldl POpt.apply l).quota = l.quota ∧
    (opts.foldl POpt.apply l).pre = l.pre ∧ (opts.foldl POpt.apply l).align = (l.align || !opts.isEmpty) := by
  induction opts generalizing l with
  | nil => simp
  | cons o os ih =>
    cases o
    have := ih (POpt.apply l .align)
    simp only [POpt.apply] at this
    simp only [List.foldl_cons, POpt.apply]
    obtain ⟨a, b, c, d⟩ := this
    exact ⟨a, b, c, by simp [d]⟩

/-- **The constructor stores its arguments unchanged; the limiter is aligned iff at least one option was given**
(options are applied to the limiter that is returned; the only option is `Align()`, repeating it changes nothing). -/
theorem new_period_limit_fields (period quota : Int) (pre : String) (opts : List POpt) :
    (newPeriodLimit period quota pre opts).period = period ∧ (newPeriodLimit period quota pre opts).quota = quota ∧
    (newPeriodLimit period quota pre opts).pre = pre ∧
    (newPeriodLimit period quota pre opts).align = !opts.isEmpty := by
  have := foldl_apply_fields opts ⟨period, quota, pre, false⟩
  simpa [newPeriodLimit] using this

/-- **The window of every constructed limiter with `period ≥ 1`** at every non-negative local clock reading:
`1 … period` seconds; exactly `period` without options; with `Align()` (any number of times) it ends on a multiple of
`period` of the local clock. -/
theorem period_api_window (period quota : Int) (pre : String) (opts : List POpt) (unix : Int)
    (hp : 1 ≤ period) (hu : 0 ≤ unix) :
    ∃ w, calcExpireZ (newPeriodLimit period quota pre opts).align (newPeriodLimit period quota pre opts).period unix = some w ∧
      1 ≤ w ∧ w ≤ period ∧ (opts = [] → w = period) ∧ (opts ≠ [] → (unix + w) % period = 0) := by
  obtain ⟨h1, _, _, h4⟩ := new_period_limit_fields period quota pre opts
  rw [h1, h4]
  cases opts with
  | nil => exact ⟨period, by simp [calcExpireZ], hp, Int.le_refl _, fun _ => rfl, fun h => absurd rfl h⟩
  | cons o os =>
    have hp0 : period ≠ 0 := by omega
    refine ⟨period - Int.tmod unix period, by simp [calcExpireZ, hp0], ?_, ?_, fun h => by simp at h, fun _ => ?_⟩
    · have := Int.tmod_lt_of_pos unix (by omega : 0 < period); omega
    · have := Int.tmod_nonneg period hu; omega
    · rw [Int.tmod_eq_emod_of_nonneg hu]
      have h1 := Int.emod_add_mul_ediv unix period
      have : unix + (period - unix % period) = period * (unix / period + 1) := by
        rw [Int.mul_add]; omega
      rw [this]; exact Int.mul_emod_right _ _

/-- **`TakeCtx` of a constructed limiter is one script call** on the Redis key `keyPrefix + key` with limit `quota` and
the window above (arguments forwarded in this order); it panics exactly for `Align()` with period 0 -/
theorem period_api_take_is_script (period quota : Int) (pre : String) (opts : List POpt) (unix : Int) (v : PVSys) (key : String) :
    (newPeriodLimit period quota pre opts).take unix v key =
      (calcExpireZ (!opts.isEmpty) period unix).map fun w => v.take quota.toNat w.toNat true (pre ++ key) := by
  obtain ⟨h1, h2, h3, h4⟩ := new_period_limit_fields period quota pre opts
  unfold PLim.take
  rw [h1, h2, h3, h4]
  cases calcExpireZ (!opts.isEmpty) period unix <;> rfl

example : ((newPeriodLimit 86400 5 "sms:" [.align, .align]).take 1790689016 PVSys.init "u1").map (·.2.1)
      = some (Code.allowed, PErr.nil) ∧
    (newPeriodLimit 0 5 "sms:" [.align]).take 1790689016 PVSys.init "u1" = none ∧
    ((newPeriodLimit 0 5 "sms:" []).take 1790689016 PVSys.init "u1").isSome = true := by decide

/-- a take on a live counter ignores the window argument (the EXPIRE is only armed by the take that creates the
counter): with `Align()` every take computes its own window, only the first of a life matters -/
theorem periodScript_window_irrelevant (s : Store) (k : String) (q w w' : Nat) (e : Entry) (h : s.get k = some e)
    (he : 1 ≤ e.val) : periodScript s k q w = periodScript s k q w' := by
  unfold periodScript Store.incrby
  simp only [h]
  have h0 : ¬ (e.val = 0) := by omega
  simp [h0]

/-- **Exact quota through the public API**: for EVERY constructor argument list with `period ≥ 1` (any quota, any
prefix, any option list) and every local clock reading `unix ≥ 0` of the take that starts the life, there is a window
`w` in `1 … period` such that the take that starts a life on `keyPrefix + key` and all later takes on it — interleaved
with anything `period_exact_quota` allows, for less than `w` seconds in total — are answered `Allowed ×(quota−1), HitQuota,
OverQuota …`.  (For the later takes of an aligned limiter the window they compute is irrelevant:
`periodScript_window_irrelevant`.) -/
theorem period_api_exact_quota (period quota : Int) (pre : String) (opts : List POpt) (unix : Int)
    (hp : 1 ≤ period) (hu : 0 ≤ unix) (key : String) (s : PSys) (rest : List POp)
    (hup : s.up = true) (hfresh : s.store.get (pre ++ key) = none) (hnd : noDown rest) :
    ∃ w : Nat, calcExpireZ (newPeriodLimit period quota pre opts).align period unix = some (w : Int) ∧ 1 ≤ w ∧ (w : Int) ≤ period ∧
      (totalAdv rest < w * 1000 →
        PSys.repliesOn quota.toNat w (pre ++ key) s (.take (pre ++ key) :: rest)
          = (List.range (1 + takesOn (pre ++ key) rest)).map fun i => (codeOf quota.toNat (i + 1), PErr.nil)) := by
  obtain ⟨w, hw, h1, h2, _, _⟩ := period_api_window period quota pre opts unix hp hu
  have hfield := (new_period_limit_fields period quota pre opts).1
  rw [hfield] at hw
  refine ⟨w.toNat, ?_, by omega, by omega, ?_⟩
  · rw [hw]; congr 1; omega
  · intro hadv
    exact Props.period_exact_quota quota.toNat w.toNat (by omega) (pre ++ key) s rest hup hfresh hadv hnd

/-- **Limiters with another prefix are another limit**: a take of a limiter with prefix `pre'` on key `key'` leaves the
counter `pre ++ key` of every other Redis key alone (raw entry and store clock), whatever quota and window. -/
theorem period_limiters_with_other_prefix_independent (s : Store) (pre pre' key key' : String) (q w : Nat)
    (h : pre ++ key ≠ pre' ++ key') :
    (periodScript s (pre' ++ key') q w).1.find (pre ++ key) = s.find (pre ++ key) ∧
    (periodScript s (pre' ++ key') q w).1.clock = s.clock :=
  periodScript_other s (pre ++ key) (pre' ++ key') q w h

/-! ## a window (and a limit) per take: `Align()` and several limiters over a whole run -/

/-- **Refinement with a window and a limit per take.** For EVERY sequence of takes — each carrying the limit of ITS
limiter and the window (≥ 1 s) that ITS `calcExpireSeconds()` computed —, clock advances, outages and recoveries from the
empty store, the replies of the model are those of the specification by lives: a life per Redis key starts at the take
that finds no running life and ends exactly `w` seconds later, `w` being the window of THAT take (the windows later takes
of the life compute are irrelevant); its i-th take is answered `codeOf quota i` with the quota of the limiter that takes;
takes during an outage are `(Unknown, err)` and do not count.  This is the specification the driver's monitor evaluates
on aligned sections and on sections with several limiters. -/
theorem period_refines_spec_windows (ops : List POpW) (hw : WinOk ops) :
    PSys.runW PSys.init ops = SpecSysW.run SpecSysW.init ops :=
  period_refines_spec_windows_from ops PSys.init SpecSysW.init hw ⟨rfl, rfl, fun _ => rfl⟩

example : PSys.runW PSys.init [.take "a" 2 3, .take "a" 2 1, .ft 1000, .take "a" 2 1, .ft 2000, .take "a" 2 2, .ft 1999, .take "a" 2 9,
      .take "b" 1 5]
    = [some (.allowed, .nil), some (.hitQuota, .nil), none, some (.overQuota, .nil), none, some (.allowed, .nil), none,
       some (.hitQuota, .nil), some (.hitQuota, .nil)] := by decide

/-- what callers do with constructed limiters on ONE store: takes (each through some limiter `l`, which reads the local
clock: `unix`), and the environment: clock advances of the store, outages, recoveries -/
inductive PApiOp where
  | ft (ms : Nat)
  | take (l : PLim) (key : String) (unix : Int)
  | down
  | up
  deriving Repr, DecidableEq

/-- the operation on the store a take through limiter `l` is (`none`: the take panics) -/
def PApiOp.toW : PApiOp → Option POpW
  | .ft ms => some (.ft ms)
  | .take l key unix => (calcExpireZ l.align l.period unix).map fun w => .take (l.pre ++ key) l.quota.toNat w.toNat
  | .down => some .down
  | .up => some .up

/-- every limiter was built by the constructor with a period ≥ 1, every clock reading is non-negative -/
def apiOk (ops : List PApiOp) : Prop :=
  ∀ l k u, PApiOp.take l k u ∈ ops → 0 ≤ u ∧ ∃ period quota pre opts, 1 ≤ period ∧ l = newPeriodLimit period quota pre opts

/-- **The whole public API of PeriodLimit refines the specification by lives**: ANY number of limiters on one store,
each built with ANY constructor argument list with `period ≥ 1` (any quota, prefix, any option list — aligned or not),
and every sequence of takes through them at arbitrary non-negative local clock readings, store clock advances, outages
and recoveries: no take panics, every window is at least one second and at most its limiter's period, and the replies
are those of the specification by lives on the Redis keys `keyPrefix + key` with the limit `quota` of the limiter that
takes. -/
theorem period_api_refines_spec (ops : List PApiOp) (hc : apiOk ops) :
    ∃ opsW, ops.mapM PApiOp.toW = some opsW ∧ WinOk opsW ∧
      PSys.runW PSys.init opsW = SpecSysW.run SpecSysW.init opsW := by
  have key : ∃ opsW, ops.mapM PApiOp.toW = some opsW ∧ WinOk opsW := by
    induction ops with
    | nil => exact ⟨[], rfl, fun _ _ _ h => by simp at h⟩
    | cons op rest ih =>
      obtain ⟨restW, hr, hwr⟩ := ih (fun l k u hm => hc l k u (List.mem_cons_of_mem _ hm))
      have hop : ∃ o, op.toW = some o ∧ (∀ k q w, o = POpW.take k q w → 1 ≤ w) := by
        cases op with
        | ft ms => exact ⟨.ft ms, rfl, fun _ _ _ h => by simp at h⟩
        | down => exact ⟨.down, rfl, fun _ _ _ h => by simp at h⟩
        | up => exact ⟨.up, rfl, fun _ _ _ h => by simp at h⟩
        | take l k u =>
          obtain ⟨hu, period, quota, pre, opts, hp, hl⟩ := hc l k u List.mem_cons_self
          subst hl
          obtain ⟨w, hw, h1, h2, _, _⟩ := period_api_window period quota pre opts u hp hu
          refine ⟨.take ((newPeriodLimit period quota pre opts).pre ++ k) (newPeriodLimit period quota pre opts).quota.toNat w.toNat,
            by simp [PApiOp.toW, hw], ?_⟩
          intro k' q' w' h
          simp at h
          obtain ⟨_, _, h⟩ := h
          subst h
          omega
      obtain ⟨o, ho, hwo⟩ := hop
      refine ⟨o :: restW, by simp [List.mapM_cons, ho, hr], ?_⟩
      intro k q w hm
      rcases List.mem_cons.mp hm with h | h
      · exact hwo k q w h.symm
      · exact hwr k q w h
  obtain ⟨opsW, h1, h2⟩ := key
  exact ⟨opsW, h1, h2, period_refines_spec_windows opsW h2⟩

example : ([PApiOp.take (newPeriodLimit 86400 2 "sms:" [.align]) "u" 1790689016, .take (newPeriodLimit 86400 2 "sms:" [.align]) "u" 1790689017,
      .take (newPeriodLimit 60 1 "mail:" []) "u" 1790689017, .ft 37383000, .take (newPeriodLimit 86400 2 "sms:" [.align]) "u" 1790726399,
      .ft 1000, .take (newPeriodLimit 86400 2 "sms:" [.align]) "u" 1790726400].mapM PApiOp.toW).map (PSys.runW PSys.init)
    = some [some (.allowed, .nil), some (.hitQuota, .nil), some (.hitQuota, .nil), none, some (.overQuota, .nil), none,
            some (.allowed, .nil)] := by decide

/-! ## NewTokenLimiter: every rate, burst and key -/

/-- the two Redis keys of one limiter always differ (so `token_refines_bucket` applies to EVERY key string) -/
theorem new_token_keys_distinct (rate burst : Nat) (key : String) :
    (newTokenCfg rate burst key).k1 ≠ (newTokenCfg rate burst key).k2 := by
  intro h
  have := congrArg String.length h
  simp [newTokenCfg] at this
  exact absurd this (by decide)

/-- different caller keys give different token keys and different timestamp keys -/
theorem new_token_keys_injective (rate burst rate' burst' : Nat) (a b : String)
    (h : (newTokenCfg rate burst a).k1 = (newTokenCfg rate' burst' b).k1 ∨
         (newTokenCfg rate burst a).k2 = (newTokenCfg rate' burst' b).k2) : a = b := by
  rcases h with h | h
  · have := congrArg String.toList h
    simp [newTokenCfg] at this
    exact String.ext (by simpa using this)
  · have := congrArg String.toList h
    simp [newTokenCfg] at this
    exact String.ext (by simpa using this)

/-- **One bucket per key, for the whole configuration space of the constructor**: every `rate ≥ 1`, every `burst`,
EVERY key string, any number of instances, every well-timed op sequence — the requests that reach the store are decided
by ONE abstract bucket (`token_refines_bucket` without a hypothesis on the keys). -/
theorem token_api_refines_bucket (rate burst : Nat) (key : String) (hr : 0 < rate) (ops : List TOp)
    (ht : Timed (newTokenCfg rate burst key) ops) :
    (storeEvs (Sys.run true (newTokenCfg rate burst key) (Sys.init (newTokenCfg rate burst key)) ops)).map (·.ok)
      = Bucket.run rate burst (Bucket.init burst)
          ((storeEvs (Sys.run true (newTokenCfg rate burst key) (Sys.init (newTokenCfg rate burst key)) ops)).map callOf) :=
  (sys_refines_bucket (newTokenCfg rate burst key) hr (new_token_keys_distinct rate burst key) ops
    (Sys.init _) (Bucket.init burst) [] (tinv_init _) ht).1

/-- … and the joint bound over any interval, for every constructor argument list -/
theorem token_api_rate_bound (rate burst : Nat) (key : String) (hr : 0 < rate) (ops : List TOp)
    (ht : Timed (newTokenCfg rate burst key) ops) (pre mid post : List Ev) (e1 : Ev)
    (hsplit : storeEvs (Sys.run true (newTokenCfg rate burst key) (Sys.init (newTokenCfg rate burst key)) ops)
      = pre ++ (e1 :: mid) ++ post) :
    grantedOf (e1 :: mid) ≤ burst + rate * (((e1 :: mid).getLast (by simp)).ns / nsPerSec - e1.ns / nsPerSec) := by
  obtain ⟨h1, h2⟩ := sys_refines_bucket (newTokenCfg rate burst key) hr (new_token_keys_distinct rate burst key) ops
    (Sys.init _) (Bucket.init burst) [] (tinv_init _) ht
  exact interval_of_refinement rate burst (Bucket.init burst) _ pre post mid e1 h1 h2 hsplit

/-- **Every key is its own bucket**: one execution of the token script for the limiter configuration `c` leaves the
raw entries of every Redis key that is not one of `c`'s two keys alone — in particular both keys of every limiter
built with another caller key (`new_token_keys_injective`) — so what that limiter's next call computes
(`filledTokens`) is unchanged. -/
theorem token_keys_independent (c c' : TCfg) (s : Store) (now n t : Nat)
    (h1 : c'.k1 ≠ c.k1) (h2 : c'.k1 ≠ c.k2) (h3 : c'.k2 ≠ c.k1) (h4 : c'.k2 ≠ c.k2) :
    ∃ s' ok, tokenScript true c s now n = some (s', ok) ∧ filledTokens c' s' t = filledTokens c' s t := by
  have hp := ttlFixed_pos c.rate c.burst
  have hne : ¬ (ttlFixed c.rate c.burst = 0) := by omega
  have hget : ∀ (k : String) (e1 e2 : Entry), k ≠ c.k1 → k ≠ c.k2 →
      ((s.put c.k1 e1).put c.k2 e2).get k = s.get k := by
    intro k e1 e2 hk1 hk2
    rw [get_eq, get_eq, find_put, if_neg hk2, find_put, if_neg hk1]
    rfl
  refine ⟨_, _, by simp [tokenScript, Store.setex, ttlOf, hne]; exact ⟨rfl, rfl⟩, ?_⟩
  unfold filledTokens lastTokens lastRefreshed
  rw [hget _ _ _ h1 h2, hget _ _ _ h3 h4]

example : ∃ s1 s2 ok1 ok2,
    tokenScript true (newTokenCfg 1 2 "a") Store.empty 100 2 = some (s1, ok1) ∧ ok1 = true ∧
    tokenScript true (newTokenCfg 5 3 "ab") s1 100 3 = some (s2, ok2) ∧ ok2 = true ∧
    filledTokens (newTokenCfg 1 2 "a") s2 100 = 0 := by
  refine ⟨_, _, _, _, rfl, ?_, rfl, ?_, ?_⟩ <;> decide

/-- a token key is never a timestamp key, whatever the two caller keys are (the formats end differently) -/
theorem token_key_ne_timestamp_key (r b r' b' : Nat) (a a' : String) :
    (newTokenCfg r b a).k1 ≠ (newTokenCfg r' b' a').k2 := by
  intro h
  have h2 := congrArg (fun s : String => (s.toList.reverse.take 2)) h
  simp [newTokenCfg] at h2

/-- limiters built with different caller keys use four pairwise different Redis keys -/
theorem new_token_keys_disjoint (r b r' b' : Nat) (a a' : String) (h : a ≠ a') :
    KeysDisjoint (newTokenCfg r b a) (newTokenCfg r' b' a') := by
  refine ⟨?_, token_key_ne_timestamp_key r b r' b' a a', ?_, ?_⟩
  · intro e; exact h (new_token_keys_injective r b r' b' a a' (Or.inl e))
  · intro e; exact token_key_ne_timestamp_key r' b' r b a' a e.symm
  · intro e; exact h (new_token_keys_injective r b r' b' a a' (Or.inr e))

/-- **Several keys on one store: every key is its own bucket, over whole runs.**  The operations of the limiters of
configuration `c` (requests of any instance, clock advances, outages, recoveries, monitor events) are interleaved in ANY
way with store-decided requests of limiters whose Redis keys are different (any rate, burst, size, time); if `c`'s own
operations are well-timed, the requests of `c`'s limiters that reach the store are decided by ONE bucket of size
`c.burst` refilled at `c.rate` — exactly as if the other limiters did not exist (`runK_eq_run`). -/
theorem token_keys_refine_own_bucket (c : TCfg) (hr : 0 < c.rate) (hk : c.k1 ≠ c.k2) (ops : List KOp)
    (hf : Foreign c ops) (ht : Timed c (ownOps ops)) :
    Sys.runK c (Sys.init c) ops = Sys.run true c (Sys.init c) (ownOps ops) ∧
    (storeEvs (Sys.runK c (Sys.init c) ops)).map (·.ok)
      = Bucket.run c.rate c.burst (Bucket.init c.burst) ((storeEvs (Sys.runK c (Sys.init c) ops)).map callOf) := by
  have h := runK_eq_run c hk ops (Sys.init c) (Sys.init c) hf ⟨rfl, rfl, rfl, rfl, rfl⟩
  refine ⟨h, ?_⟩
  rw [h]
  exact Props.token_refines_bucket c hr hk (ownOps ops) ht

/-- … for the whole configuration space of the constructor: any rate ≥ 1, burst and caller key, next to limiters built
with ANY other caller keys (any rates and bursts) -/
theorem token_api_keys_refine_own_bucket (rate burst : Nat) (key : String) (hr : 0 < rate) (ops : List KOp)
    (hf : ∀ c' now n, KOp.other c' now n ∈ ops → ∃ r' b' key', key' ≠ key ∧ c' = newTokenCfg r' b' key')
    (ht : Timed (newTokenCfg rate burst key) (ownOps ops)) :
    (storeEvs (Sys.runK (newTokenCfg rate burst key) (Sys.init (newTokenCfg rate burst key)) ops)).map (·.ok)
      = Bucket.run rate burst (Bucket.init burst)
          ((storeEvs (Sys.runK (newTokenCfg rate burst key) (Sys.init (newTokenCfg rate burst key)) ops)).map callOf) := by
  have hf' : Foreign (newTokenCfg rate burst key) ops := by
    intro c' now n hm
    obtain ⟨r', b', key', hne, hc⟩ := hf c' now n hm
    subst hc
    exact new_token_keys_disjoint rate burst r' b' key key' (Ne.symm hne)
  exact (token_keys_refine_own_bucket (newTokenCfg rate burst key) hr (new_token_keys_distinct rate burst key) ops hf' ht).2

example : (Sys.runK (newTokenCfg 1 2 "a") (Sys.init (newTokenCfg 1 2 "a"))
      [.own (.allow 0 100000000000 2), .other (newTokenCfg 5 3 "ab") 100 3, .own (.allow 1 100000000000 1),
       .other (newTokenCfg 5 3 "") 100 1, .own (.allow 0 101000000000 1)]).map (·.ok) = [true, false, true] := by decide

/-! ## round 5c: a reply lost after the script ran (deadline / timeout during the call) -/

/-- operations of a period run in which some takes lose their reply after the script ran -/
inductive POpL where
  | op (o : POp)
  | lost (key : String)
  deriving Repr, DecidableEq

/-- the same run with every reply delivered -/
def POpL.abs : POpL → POp
  | .op o => o
  | .lost k => .take k

def _root_.GoZero.C03.PSys.stepL (quota period : Nat) (s : PSys) : POpL → PSys × Option (Code × PErr)
  | .op o => s.step quota period o
  | .lost k => let r := s.takeLost quota period k; (r.1, some r.2)

def _root_.GoZero.C03.PSys.runL (quota period : Nat) : PSys → List POpL → List (Option (Code × PErr))
  | _, [] => []
  | s, o :: ops => (s.stepL quota period o).2 :: PSys.runL quota period (s.stepL quota period o).1 ops

/-- what the caller of a lost take sees instead of the reply -/
def hideLost : List POpL → List (Option (Code × PErr)) → List (Option (Code × PErr))
  | .lost _ :: ops, _ :: rs => some (Code.unknown, PErr.store) :: hideLost ops rs
  | _ :: ops, r :: rs => r :: hideLost ops rs
  | _, _ => []

theorem takeLost_state (quota period : Nat) (s : PSys) (k : String) :
    (s.takeLost quota period k).1 = (s.take quota period k).1 ∧
    (s.takeLost quota period k).2 = (Code.unknown, PErr.store) := by
  unfold PSys.takeLost PSys.take
  cases s.up <;> simp [takeResult]

/-- **PeriodLimit, reply lost after the script ran: a permit may be consumed without a grant, never a grant without
consumption.**  For every quota, period and EVERY operation sequence in which any takes lose their reply: the caller of a
lost take gets `(Unknown, err)` — never a grant —, and every other reply is exactly the reply of the run in which all
replies were delivered (the lost take counted as a take: `period_refines_spec` applies to that run, so the answered takes
of a life are granted at most `quota − lost` times). -/
theorem lost_takes_count_and_never_grant (quota period : Nat) : ∀ (ops : List POpL) (s : PSys),
    PSys.runL quota period s ops = hideLost ops (PSys.run quota period s (ops.map POpL.abs)) := by
  intro ops
  induction ops with
  | nil => intro s; rfl
  | cons o rest ih =>
    intro s
    cases o with
    | op o =>
      simp only [PSys.runL, PSys.stepL, List.map_cons, POpL.abs, PSys.run, hideLost]
      rw [ih]
    | lost k =>
      obtain ⟨h1, h2⟩ := takeLost_state quota period s k
      simp only [PSys.runL, PSys.stepL, List.map_cons, POpL.abs, PSys.run, PSys.step, hideLost, h1, h2]
      rw [ih]

example : PSys.runL 2 5 PSys.init [.op (.take "a"), .lost "a", .op (.take "a"), .op (.ft 5000), .op (.take "a")]
    = [some (.allowed, .nil), some (.unknown, .store), some (.overQuota, .nil), none, some (.allowed, .nil)] := by decide

/-- **TokenLimiter: never a grant without consumption** — a request the store path grants has taken its `n` tokens out
of the shared bucket (what the script stored is `filled − n`, and `n ≤ filled`). -/
theorem store_grant_consumes (c : TCfg) (hk : c.k1 ≠ c.k2) (s : Sys) (i ns n : Nat)
    (hr : (s.reserveN true c i ns n).2.route = .store) (ho : (s.reserveN true c i ns n).2.ok = true) :
    n ≤ filledTokens c s.store (ns / nsPerSec) ∧
    ((s.reserveN true c i ns n).1.store.find c.k1).map (·.val) = some (filledTokens c s.store (ns / nsPerSec) - n) := by
  rcases reserveN_cases c hk s i ns n with ⟨h, _⟩ | ⟨_, hok, _, _, _, hf1, _⟩
  · rw [h] at hr; cases hr
  · rw [hok] at ho
    have hle : n ≤ filledTokens c s.store (ns / nsPerSec) := by simpa using ho
    refine ⟨hle, ?_⟩
    rw [hf1]; simp [hle]

/-- **TokenLimiter, reply lost after the script ran: a token may be consumed without a grant.**  Instance on the store
path, store reachable: the shared bucket is charged exactly as by the answered request (so the ONE-bucket refinement goes
on with the lost request counted); with a context error (`deadline`) the caller is refused and nothing else changes; with
any other error (`timeout`) the request is handed — with its size `n` at its time — to the local limiter after
`startMonitor`, like every store failure. -/
theorem lost_reply_charges_bucket (c : TCfg) (s : Sys) (i ns n : Nat) (k : LostKind)
    (ha : (s.insts i).alive = true) (hu : s.up = true) :
    (s.reserveLost c i ns n k).1.store = (s.reserveN true c i ns n).1.store ∧
    (k = .deadline → (s.reserveLost c i ns n k).2.ok = false ∧ (s.reserveLost c i ns n k).1.insts = s.insts) ∧
    (k = .timeout → s.reserveLost c i ns n k =
      ({ s with store := (s.reserveN true c i ns n).1.store }).rescuePath c i (s.insts i).startMonitor ns n) := by
  have hp := ttlFixed_pos c.rate c.burst
  have hne : ¬ (ttlFixed c.rate c.burst = 0) := by omega
  unfold Sys.reserveLost Sys.reserveN
  simp only [ha, hu, Bool.not_true, Bool.or_self, Bool.false_eq_true, if_false, tokenScript, Store.setex, ttlOf,
    if_true, hne]
  cases k with
  | deadline => exact ⟨rfl, fun _ => ⟨rfl, rfl⟩, fun h => LostKind.noConfusion h⟩
  | timeout => exact ⟨by simp [Sys.rescuePath], fun h => LostKind.noConfusion h, fun _ => rfl⟩

/-! ### lost replies over whole runs (TokenLimiter, the caller's deadline) -/

/-- operations of a token run in which some requests lose their reply to the caller's deadline after the script ran -/
inductive TOpL where
  | op (o : TOp)
  | lostDeadline (i ns n : Nat)

/-- the same run with every reply delivered -/
def TOpL.abs : TOpL → TOp
  | .op o => o
  | .lostDeadline i ns n => .allow i ns n

def _root_.GoZero.C03.Sys.stepL (c : TCfg) (s : Sys) : TOpL → Sys × Option Ev
  | .op o => s.step true c o
  | .lostDeadline i ns n => let r := s.reserveLost c i ns n .deadline; (r.1, some r.2)

def _root_.GoZero.C03.Sys.runL (c : TCfg) : Sys → List TOpL → List Ev
  | _, [] => []
  | s, o :: ops =>
    match (s.stepL c o).2 with
    | some e => e :: Sys.runL c (s.stepL c o).1 ops
    | none => Sys.runL c (s.stepL c o).1 ops

/-- two event lists of the same length, related position by position -/
inductive Pointwise (R : Ev → Ev → Prop) : List Ev → List Ev → Prop where
  | nil : Pointwise R [] []
  | cons {a b : Ev} {l1 l2 : List Ev} : R a b → Pointwise R l1 l2 → Pointwise R (a :: l1) (b :: l2)

/-- same request, and the caller is granted only if the delivered run grants -/
def sameButMaybeRefused (eL e : Ev) : Prop :=
  eL.inst = e.inst ∧ eL.route = e.route ∧ eL.ns = e.ns ∧ eL.n = e.n ∧ (eL.ok = true → e.ok = true)

theorem reserveLost_deadline_state (c : TCfg) (s : Sys) (i ns n : Nat) :
    (s.reserveLost c i ns n .deadline).1 = (s.reserveN true c i ns n).1 ∧
    sameButMaybeRefused (s.reserveLost c i ns n .deadline).2 (s.reserveN true c i ns n).2 := by
  have hp := ttlFixed_pos c.rate c.burst
  have hne : ¬ (ttlFixed c.rate c.burst = 0) := by omega
  unfold Sys.reserveLost
  by_cases h : (!(s.insts i).alive || !s.up) = true
  · rw [if_pos h]; exact ⟨rfl, rfl, rfl, rfl, rfl, id⟩
  · rw [if_neg h]
    have ha : (s.insts i).alive = true := by
      cases hh : (s.insts i).alive <;> simp [hh] at h ⊢
    have hu : s.up = true := by
      cases hh : s.up <;> simp [hh, ha] at h ⊢
    unfold Sys.reserveN
    simp only [ha, hu, Bool.not_true, Bool.false_eq_true, if_false, tokenScript, Store.setex, ttlOf, if_true, hne]
    refine ⟨?_, ?_⟩
    · first | trivial | rfl
    · simp [sameButMaybeRefused]

/-- **TokenLimiter, replies lost to the caller's deadline, over whole runs: tokens may be consumed without a grant, never
a grant without consumption.**  For EVERY operation sequence (any instances, outages, recoveries) in which any requests
lose their reply after the script ran: the system goes through exactly the states of the run in which every reply was
delivered — so the shared store stays ONE bucket (`token_refines_bucket` applies to that run, the lost requests counted
as requests) — and request by request the caller is granted only if that run grants. -/
theorem lost_replies_never_grant_more (c : TCfg) : ∀ (ops : List TOpL) (s : Sys),
    Pointwise sameButMaybeRefused (Sys.runL c s ops) (Sys.run true c s (ops.map TOpL.abs)) := by
  intro ops
  induction ops with
  | nil => intro s; exact Pointwise.nil
  | cons o rest ih =>
    intro s
    cases o with
    | op o =>
      simp only [Sys.runL, Sys.stepL, List.map_cons, TOpL.abs, Sys.run]
      cases (s.step true c o).2 with
      | none => exact ih _
      | some e => exact Pointwise.cons ⟨rfl, rfl, rfl, rfl, id⟩ (ih _)
    | lostDeadline i ns n =>
      obtain ⟨h1, h2⟩ := reserveLost_deadline_state c s i ns n
      simp only [Sys.runL, Sys.stepL, List.map_cons, TOpL.abs, Sys.run, Sys.step, h1]
      exact Pointwise.cons h2 (ih _)

/-- … hence the tokens granted to callers never exceed those the ONE bucket handed out -/
theorem lost_replies_granted_le (c : TCfg) (ops : List TOpL) (s : Sys) :
    grantedOf (Sys.runL c s ops) ≤ grantedOf (Sys.run true c s (ops.map TOpL.abs)) := by
  have h := lost_replies_never_grant_more c ops s
  generalize Sys.runL c s ops = l1 at h
  generalize Sys.run true c s (ops.map TOpL.abs) = l2 at h
  induction h with
  | nil => exact Nat.le_refl _
  | @cons ea eb t1 t2 hab _ ih =>
    obtain ⟨_, _, _, hn, hok⟩ := hab
    simp only [grantedOf, List.map_cons, List.sum_cons] at ih ⊢
    cases ha : ea.ok
    · simp; omega
    · have := hok ha
      simp [this, hn]; omega

/-- **The breaker's and the limiter's view of errors agree where it matters**: the token script's `false` (`redis.Nil`) is
neither a failure for the client's breaker nor a reason to leave the shared bucket — it refuses; and whatever the
breaker counts as a failure never grants on the store path. -/
theorem script_false_is_no_failure :
    breakerAccepts .redisNil = true ∧ reserveDecide .nilReply = .deny ∧
    (∀ e : ErrClass, breakerAccepts e = false → ∃ r, e.treply = some r ∧ reserveDecide r ≠ .grant) := by
  refine ⟨rfl, rfl, ?_⟩
  intro e h
  cases e <;> simp [breakerAccepts] at h
  · exact ⟨.ctxErr, rfl, by simp [reserveDecide]⟩
  · exact ⟨.err, rfl, by simp [reserveDecide]⟩

/-! ## round 5e: a flapping store — the local bucket survives between outages -/

/-- **The local bucket of an instance survives between outages**: no operation other than a request of instance `i`
itself touches `i`'s local limiter — not the outage, not the recovery, not `startMonitor`, not the monitor goroutine's
`redisAlive = 1` / `monitorStarted = false`, not the requests of other instances (the limiter is built ONCE, by the
constructor: `TieClient.tie_rescueLimiter_allocation_sem`). -/
theorem local_bucket_survives_outages (fixed : Bool) (c : TCfg) (s : Sys) (i : Nat) (op : TOp)
    (h : ∀ ns n, op ≠ .allow i ns n) :
    ((s.step fixed c op).1.insts i).rescue = (s.insts i).rescue ∧
    (s.insts i).startMonitor.rescue = (s.insts i).rescue := by
  refine ⟨?_, by unfold Inst.startMonitor; split <;> rfl⟩
  cases op with
  | ft ms => rfl
  | down => rfl
  | up => rfl
  | cancelledAlive j ns n => rfl
  | pingOk j =>
    simp only [Sys.step]; split
    · by_cases hj : i = j
      · subst hj; simp [upd]
      · simp [upd, hj]
    · rfl
  | monExit j =>
    simp only [Sys.step]; split
    · by_cases hj : i = j
      · subst hj; simp [upd]
      · simp [upd, hj]
    · rfl
  | lateFail j =>
    simp only [Sys.step]
    by_cases hj : i = j
    · subst hj; simp only [upd, if_true]; unfold Inst.startMonitor; split <;> rfl
    · simp [upd, hj]
  | allow j ns n =>
    have hj : i ≠ j := fun e => h ns n (by rw [e])
    simp only [Sys.step, Sys.reserveN, Sys.rescuePath]
    split
    · simp [upd, hj]
    · split
      · simp [upd, hj]
      · split <;> simp [upd, hj]

/-- a flapping store: `k` outages in a row; during each, instance `i` makes the listed requests `(now ns, n)`; in between
the store is reachable just long enough for the monitor goroutine to bring the instance back and exit -/
def flapping (i : Nat) : List (List (Nat × Nat)) → List TOp
  | [] => []
  | reqs :: rest =>
    [TOp.down] ++ reqs.map (fun r => TOp.allow i r.1 r.2) ++ [TOp.up, TOp.pingOk i, TOp.monExit i] ++ flapping i rest

/-- **One local bucket across any number of outages.** For every rate in 1…10⁹, burst, instance and EVERY flapping
schedule (any number of outages, any requests in each): over any interval of the requests the instance decided locally —
also intervals that span several outages — `ival × granted ≤ ival × burst + elapsed ns`: the instance does NOT get a
fresh bucket per outage (seeded change C03-10 gives it one). -/
theorem flapping_store_local_bound (c : TCfg) (hi : c.ival ≠ 0) (i : Nat) (outages : List (List (Nat × Nat)))
    (pre mid post : List Ev) (e1 : Ev)
    (hmono : Mono 0 ((rescueEvs i (Sys.run true c (Sys.init c) (flapping i outages))).map rcallOf))
    (hsplit : rescueEvs i (Sys.run true c (Sys.init c) (flapping i outages)) = pre ++ (e1 :: mid) ++ post) :
    grantedOf (e1 :: mid) * c.ival ≤ c.burst * c.ival + (((e1 :: mid).getLast (by simp)).ns - e1.ns) :=
  Props.rescue_local_bound true c hi i (flapping i outages) pre mid post e1 hmono hsplit

/-- three outages at one instant, burst 2: two requests are granted in the first outage, none in the later ones -/
example : (Sys.run true ⟨5, 2, "a", "b"⟩ (Sys.init ⟨5, 2, "a", "b"⟩)
      (flapping 0 [[(7, 1), (7, 1), (7, 1)], [(7, 1), (7, 1)], [(8, 1)]])).map (·.ok)
    = [true, true, false, false, false, false] := by decide

end GoZero.C03.PropsApi
