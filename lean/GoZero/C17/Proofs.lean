/-
C17 — helper lemmas for Props.lean.
-/
import GoZero.C17.Spec
import GoZero.C17.Std
namespace GoZero.C17

/-- evaluate the unmarshaller on a concrete (type, document) pair (the mutual block is defined by well-founded
recursion, so `decide` cannot unfold it; `simp` with the equation lemmas can). -/
macro "c17_eval" : tactic => `(tactic|
  simp [unmarshalWith, unmarshalJson, unmarshalStruct, withValue, withoutValue, fillSlice, sliceElems, genMap,
    JM.get?, FMeta.tagKey, Except.map, lower, lowerC, fillPrim, fromStrPrim, primField, convFromString, parseInt?,
    parseNat?, digitsVal, digit?, intInRange, uintInRange, confOpts, getValue, splitDots, splitDotsAux, JL.isNil,
    fromArrayAdj, Ty.isSlice, FMeta.hasExt, FMeta.hasOpts, Ty.prim?, envLookup, loadJsonDet, loadJson, loadJsonO, loadTree, loadTreeO, loadTreeWith, loadTreeWithO, parseFloat, chainLookup, chainKeys, structRequired, zeroOf, zeroFields, sliceElemPrim, mapElemPrim])

/-! ### lower-casing -/

theorem lowerC_toNat (c : Char) (h : 65 ≤ c.toNat ∧ c.toNat ≤ 90) : (lowerC c).toNat = c.toNat + 32 := by
  unfold lowerC
  rw [dif_pos h]
  show (UInt32.ofNatLT (c.toNat + 32) _).toNat = _
  rw [UInt32.toNat_ofNatLT]

theorem lowerC_of_not (c : Char) (h : ¬ (65 ≤ c.toNat ∧ c.toNat ≤ 90)) : lowerC c = c := by
  unfold lowerC; rw [dif_neg h]

theorem lowerC_idem (c : Char) : lowerC (lowerC c) = lowerC c := by
  by_cases h : 65 ≤ c.toNat ∧ c.toNat ≤ 90
  · have := lowerC_toNat c h
    exact lowerC_of_not _ (by omega)
  · rw [lowerC_of_not c h, lowerC_of_not c h]

theorem lower_idem (s : Str) : lower (lower s) = lower s := by
  unfold lower
  induction s with
  | nil => rfl
  | cons c cs ih => simp only [List.map_cons, lowerC_idem, ih] at *

/-! ### front ends: the generic tree is the document -/


theorem glue_num_yaml (lit : Str) : yamlGlue (embY (.num lit)) = .num lit := by
  unfold embY
  split
  · split
    · rename_i h; simp only [yamlGlue, h]
    · rfl
  · rfl

mutual
theorem yaml_normal_form : ∀ (d : J), plainDoc d = true → yamlGlue (embY d) = d
  | .null, h => by simp [plainDoc] at h
  | .nilArr, h => by simp [plainDoc] at h
  | .bool b, _ => rfl
  | .num lit, _ => glue_num_yaml lit
  | .str s, _ => rfl
  | .arr l, h => by
    have := yaml_normal_form_list l (by simpa [plainDoc] using h)
    simp only [embY, yamlGlue, this]
  | .obj m, h => by
    have := yaml_normal_form_map m (by simpa [plainDoc] using h)
    simp only [embY, yamlGlue, this]
theorem yaml_normal_form_list : ∀ (l : JL), plainDocList l = true → yamlGlueList (embYList l) = l
  | .nil, _ => rfl
  | .cons h t, hp => by
    simp only [plainDocList, Bool.and_eq_true] at hp
    simp only [embYList, yamlGlueList, yaml_normal_form h hp.1, yaml_normal_form_list t hp.2]
theorem yaml_normal_form_map : ∀ (m : JM), plainDocMap m = true → yamlGlueMap (embYMap m) = m
  | .nil, _ => rfl
  | .cons k v t, hp => by
    simp only [plainDocMap, Bool.and_eq_true] at hp
    simp only [embYMap, yamlGlueMap, yRepr, yaml_normal_form v hp.1, yaml_normal_form_map t hp.2]
end

theorem glue_num_toml (lit : Str) (t : T) (h : embT (.num lit) = some t) : tomlGlue t = .num lit := by
  unfold embT at h
  split at h
  · split at h
    · rename_i hh; injection h with h; subst h; simp only [tomlGlue, hh]
    · injection h with h; subst h; rfl
  · injection h with h; subst h; rfl

mutual
theorem toml_normal_form : ∀ (d : J) (t : T), plainDoc d = true → embT d = some t → tomlGlue t = d
  | .null, _, h, _ => by simp [plainDoc] at h
  | .nilArr, _, h, _ => by simp [plainDoc] at h
  | .bool b, t, _, he => by simp only [embT, Option.some.injEq] at he; subst he; rfl
  | .num lit, t, _, he => glue_num_toml lit t he
  | .str s, t, _, he => by simp only [embT, Option.some.injEq] at he; subst he; rfl
  | .arr l, t, h, he => by
    simp only [embT, Option.map_eq_some_iff] at he
    obtain ⟨tl, h1, h2⟩ := he
    subst h2
    simp only [tomlGlue, toml_normal_form_list l tl (by simpa [plainDoc] using h) h1]
  | .obj m, t, h, he => by
    simp only [embT, Option.map_eq_some_iff] at he
    obtain ⟨tm, h1, h2⟩ := he
    subst h2
    simp only [tomlGlue, toml_normal_form_map m tm (by simpa [plainDoc] using h) h1]
theorem toml_normal_form_list : ∀ (l : JL) (tl : TL), plainDocList l = true → embTList l = some tl → tomlGlueList tl = l
  | .nil, tl, _, he => by simp only [embTList, Option.some.injEq] at he; subst he; rfl
  | .cons h r, tl, hp, he => by
    simp only [plainDocList, Bool.and_eq_true] at hp
    unfold embTList at he
    split at he
    · rename_i a b ha hb
      injection he with he; subst he
      simp only [tomlGlueList, toml_normal_form h a hp.1 ha, toml_normal_form_list r b hp.2 hb]
    · cases he
theorem toml_normal_form_map : ∀ (m : JM) (tm : TM), plainDocMap m = true → embTMap m = some tm → tomlGlueMap tm = m
  | .nil, tm, _, he => by simp only [embTMap, Option.some.injEq] at he; subst he; rfl
  | .cons k v r, tm, hp, he => by
    simp only [plainDocMap, Bool.and_eq_true] at hp
    unfold embTMap at he
    split at he
    · rename_i a b ha hb
      injection he with he; subst he
      simp only [tomlGlueMap, toml_normal_form v a hp.1 ha, toml_normal_form_map r b hp.2 hb]
    · cases he
end

end GoZero.C17
