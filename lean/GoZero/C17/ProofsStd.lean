/-
C17 — agreement of `mapping.UnmarshalJsonBytes` (`unmarshalJson` = `unmarshalWith {}`, exact keys) with
`encoding/json.Unmarshal` (`stdDecode`) on the plain fragment: full induction through structs, slices and maps.

Layout
* §0  definitions used by the statement (`Val.normNil`, `tyKeysDistinct`, `tyKeysPlain`, `f32Stable`, `PlainOpts`)
      and the `R` monad helpers;
* §1  CHARACTERISATION LEMMAS of the go-zero side for the plain case (default options, no tag options, no embedding).
      This is the only place where `unmarshalWith`, `unmarshalJson`, `unmarshalStruct`, `getValue`, `withValue`,
      `withoutValue`, `primField`, `fillSlice`, `sliceElems`, `genMap`, `fillPrim`, `sliceElemPrim`, `mapElemPrim` are
      unfolded;
* §2  the encoding/json side and the specification side (unfolding of `std*`, `keysExact*`, … only);
* §3  the layers (scalars, slices, maps, struct fields) from §1 + §2, and the mutual induction over `Ty` / `Fields`;
* §4  the theorems, witnesses of necessity, non-vacuity.
-/
import GoZero.C17.ProofsCase
namespace GoZero.C17

/-! ## §0 definitions of the statement -/

mutual
/-- identify the nil map with the empty map (go-zero allocates the map of an absent map field, encoding/json leaves
it nil: `std_differs_missing_map_nil_vs_empty`).  Nothing else is normalised. -/
def Val.normNil : Val → Val
  | .nilMap => .map .nil
  | .ptr v => .ptr v.normNil
  | .slice l => .slice l.normNil
  | .map m => .map m.normNil
  | .struct m => .struct m.normNil
  | .bool b => .bool b
  | .int i => .int i
  | .flt n d => .flt n d
  | .str s => .str s
  | .nil => .nil
  | .nilSlice => .nilSlice
def VL.normNil : VL → VL
  | .nil => .nil
  | .cons h t => .cons h.normNil t.normNil
def VM.normNil : VM → VM
  | .nil => .nil
  | .cons k v t => .cons k v.normNil t.normNil
end




/-- the two roundings of a literal into a float of width `bits` agree whenever both succeed
(`bits = 64`: always; `bits = 32`: the pinned code rounds to float64 first, `float32_double_rounding`). -/
def f32Agree (bits : Nat) (lit : Str) : Bool :=
  match parseFloat bits true lit, parseFloat bits false lit with
  | .ok a, .ok b => decide (a = b)
  | _, _ => true

/-- kinds whose slice / map elements are converted from the literal text by both decoders. -/
def Ty.primish : Ty → Bool
  | .prim _ => true
  | .ptr (.prim _) => true
  | _ => false

mutual
/-- type directed (needed for the pinned code, `Opts.f32Pinned`, only): at every *struct field* of float kind (or
pointer to it) holding a number literal, the literal rounds to the same float directly and via float64.
Elements of slices and maps are not constrained (both decoders use `strconv.ParseFloat(lit, 32)` there). -/
def f32Stable : Ty → J → Bool
  | .prim (.float bits), .num lit => f32Agree bits lit
  | .ptr (.prim (.float bits)), .num lit => f32Agree bits lit
  | .ptr (.struct fs), .obj m => f32StableStruct fs m
  | .struct fs, .obj m => f32StableStruct fs m
  | .slice t, .arr l => f32StableElems t l
  | .map t, .obj m => f32StableMapVals t m
  | _, _ => true
def f32StableElems (t : Ty) : JL → Bool
  | .nil => true
  | .cons h r => (t.primish || f32Stable t h) && f32StableElems t r
def f32StableMapVals (t : Ty) : JM → Bool
  | .nil => true
  | .cons _ v r => (t.primish || f32Stable t v) && f32StableMapVals t r
def f32StableStruct (fs : Fields) : JM → Bool
  | .nil => true
  | .cons k v r =>
    (match fs.findTy? k with
     | some t => f32Stable t v
     | none => true) && f32StableStruct fs r
end

/-- the options under which the unmarshaller is compared with encoding/json: the defaults; the model-only switch
`f32Pinned` (behaviour before fixes/C17-float32-single-rounding.patch) and the environment are arbitrary. -/
structure PlainOpts (o : Opts) : Prop where
  canon : o.canon = false
  fromString : o.fromString = false
  fromArray : o.fromArray = false
  opaqueKeys : o.opaqueKeys = false

theorem PlainOpts.default : PlainOpts {} := ⟨rfl, rfl, rfl, rfl⟩
theorem PlainOpts.pinned : PlainOpts { f32Pinned := true } := ⟨rfl, rfl, rfl, rfl⟩

/-! ### the `R` monad -/

theorem R.bind_ok {α β : Type} (x : R α) (f : α → R β) (b : β) :
    (x >>= f) = .ok b ↔ ∃ a, x = .ok a ∧ f a = .ok b := by
  cases x with
  | error e => simp [bind, Except.bind]
  | ok a => simp [bind, Except.bind]

theorem R.map_ok {α β : Type} (x : R α) (f : α → β) (b : β) :
    Except.map f x = .ok b ↔ ∃ a, x = .ok a ∧ b = f a := by
  cases x with
  | error e => simp [Except.map]
  | ok a => simp [Except.map, eq_comm]

theorem R.pure_ok {α : Type} (a b : α) : (pure a : R α) = .ok b ↔ a = b := by
  simp [pure, Except.pure]

/-! ## §1 characterisation of the go-zero side on the plain fragment

Everything below this line and above §2 unfolds the go-zero model; nothing from §2 on does (the examples of §4 compute
with the lemmas of this section and with the three helper definitions `gzField`, `gzSliceElem`, `gzMapElem`).
To port the proof to a changed model, re-prove exactly these statements:

* root:      `unmarshalWith_eq`, `unmarshalJson_eq`
* key:       `splitDots_plain`, `getValue_plain`
* struct:    `unmarshalStruct_plain_nil`, `unmarshalStruct_plain_cons` (+ `gzField`, `gzField_none`, `gzField_some`;
             `unmarshalStruct_plain_cons_none` / `_some` are corollaries)
* absent:    `withoutValue_prim`, `_ptr_prim`, `_slice`, `_map`, `_struct_required`, `_ptr_struct_required`,
             `_ptr_ptr`, `_ptr_slice`, `_ptr_map`
* present:   `withValue_prim`, `_ptr_prim`, `_struct_obj`, `_ptr_struct_obj`, `_slice_arr`, `_map_obj`
             (the remaining shapes are rejected by encoding/json, so nothing is needed about them)
* slices:    `fillSlice_nil`, `fillSlice_cons`, `sliceElems_nil`, `sliceElems_cons`
             (+ `gzSliceElem`, `gzSliceElem_prim`, `_ptr_prim`, `_other`)
* maps:      `genMap_nil`, `genMap_cons` (+ `gzMapElem`, `gzMapElem_prim`, `_ptr_prim`, `_other`)
* scalars:   `fillPrim_num_int`, `_num_uint`, `_num_float`, `_bool`, `_str`; `sliceElemPrim_num`, `_str`, `_bool`;
             `mapElemPrim_num`, `_str`, `_bool` -/

section GoZeroSide

/-- `mapping.Unmarshal*` is the struct-field decoder at the root. -/
theorem unmarshalWith_eq (o : Opts) (fs : Fields) (j : J) :
    unmarshalWith o fs j = withValue o [] (.struct fs) j := by
  cases j <;> simp [unmarshalWith, withValue]

theorem unmarshalJson_eq (fs : Fields) (j : J) : unmarshalJson fs j = unmarshalWith {} fs j := rfl

/-! #### key lookup -/

theorem splitDotsAux_no_dot : ∀ (s cur : List Char), '.' ∉ s →
    splitDotsAux s cur = if cur.reverse ++ s = [] then [] else [cur.reverse ++ s]
  | [], cur, _ => by simp [splitDotsAux]
  | c :: cs, cur, h => by
    simp only [List.mem_cons, not_or] at h
    have hc : ¬ c = '.' := fun e => h.1 e.symm
    rw [splitDotsAux, if_neg hc, splitDotsAux_no_dot cs (c :: cur) h.2]
    simp

/-- a plain key is one path segment. -/
theorem splitDots_plain (k : Str) (h : keyPlain k = true) : splitDots k = [k] := by
  simp only [keyPlain, Bool.and_eq_true, decide_eq_true_eq, Bool.not_eq_true', List.contains_eq_mem,
    decide_eq_false_iff_not] at h
  rw [splitDots, splitDotsAux_no_dot k [] h.2]
  simp [h.1]

/-- with the default options, without `,inherit`, a plain key is looked up in the object of the struct itself. -/
theorem getValue_plain (o : Opts) (ho : PlainOpts o) (ps : List JM) (m : JM) (k : Str) (h : keyPlain k = true) :
    getValue o false ps m k = m.get? k := by
  simp [getValue, ho.opaqueKeys, splitDots_plain k h]

/-! #### `unmarshalStruct` -/

theorem unmarshalStruct_plain_nil (o : Opts) (ps : List JM) (m : JM) : unmarshalStruct o ps .nil m = .ok .nil := by
  rw [unmarshalStruct]

/-- what `processField` does for a plain (required, named, no tag options) field of type `t`, given the lookup of
its key; `ps` = the objects of the enclosing structs including the current one. -/
def gzField (o : Opts) (ps : List JM) (t : Ty) : Option J → R Val
  | none => withoutValue o t false
  | some .null => .error .err
  | some v => withValue o ps t v

theorem gzField_none (o : Opts) (ps : List JM) (t : Ty) : gzField o ps t none = withoutValue o t false := rfl
theorem gzField_some (o : Opts) (ps : List JM) (t : Ty) (v : J) (hv : v ≠ .null) :
    gzField o ps t (some v) = withValue o ps t v := by
  cases v <;> first | exact absurd rfl hv | rfl

/-- a plain field: look the key up (exactly), decode, go on with the same object. -/
theorem unmarshalStruct_plain_cons (o : Opts) (ho : PlainOpts o) (ps : List JM) (f : FMeta) (t : Ty) (rest : Fields)
    (m : JM) (hopt : f.optional = false) (he : f.embedded = false) (hx : f.hasExt = false)
    (hk : keyPlain f.tagKey = true) :
    unmarshalStruct o ps (.cons f t rest) m =
      gzField o (m :: ps) t (m.get? f.tagKey) >>= fun x =>
      unmarshalStruct o ps rest m >>= fun r => pure (.cons f.name x r) := by
  have fin : ∀ (E : R Val), (match E with
      | Except.error e => Except.error e
      | Except.ok x =>
        match unmarshalStruct o ps rest m with
        | Except.error e => Except.error e
        | Except.ok r => Except.ok (VM.cons f.name x r)) =
      (E >>= fun x => unmarshalStruct o ps rest m >>= fun r => pure (.cons f.name x r)) := by
    intro E
    cases E with
    | error e => rfl
    | ok x => cases unmarshalStruct o ps rest m <;> rfl
  have hx' := hx
  simp only [FMeta.hasExt, Bool.or_eq_false_iff, decide_eq_false_iff_not, ne_eq, Decidable.not_not] at hx'
  obtain ⟨⟨⟨⟨⟨hdflt, _⟩, _⟩, henv⟩, hinh⟩, _⟩ := hx'
  rw [unmarshalStruct.eq_def]
  simp only [he, hopt, hx, hdflt, henv, hinh, ho.canon, ho.fromArray, getValue_plain o ho ps m f.tagKey hk,
    Bool.false_eq_true, if_false, ne_eq, not_true_eq_false, false_and]
  cases m.get? f.tagKey with
  | none => exact fin _
  | some v => cases v <;> first | exact fin _ | exact fin (.error .err)

/-- a plain field whose key is absent from the object. -/
theorem unmarshalStruct_plain_cons_none (o : Opts) (ho : PlainOpts o) (ps : List JM) (f : FMeta) (t : Ty)
    (rest : Fields) (m : JM) (hopt : f.optional = false) (he : f.embedded = false) (hx : f.hasExt = false)
    (hk : keyPlain f.tagKey = true) (hg : m.get? f.tagKey = none) :
    unmarshalStruct o ps (.cons f t rest) m =
      withoutValue o t false >>= fun x =>
      unmarshalStruct o ps rest m >>= fun r => pure (.cons f.name x r) := by
  rw [unmarshalStruct_plain_cons o ho ps f t rest m hopt he hx hk, hg, gzField_none]

/-- a plain field whose key is present with a non-null value. -/
theorem unmarshalStruct_plain_cons_some (o : Opts) (ho : PlainOpts o) (ps : List JM) (f : FMeta) (t : Ty)
    (rest : Fields) (m : JM) (v : J) (hopt : f.optional = false) (he : f.embedded = false) (hx : f.hasExt = false)
    (hk : keyPlain f.tagKey = true) (hg : m.get? f.tagKey = some v) (hv : v ≠ .null) :
    unmarshalStruct o ps (.cons f t rest) m =
      withValue o (m :: ps) t v >>= fun x =>
      unmarshalStruct o ps rest m >>= fun r => pure (.cons f.name x r) := by
  rw [unmarshalStruct_plain_cons o ho ps f t rest m hopt he hx hk, hg, gzField_some o _ t v hv]

/-! #### `withoutValue` (required field, key absent) -/

theorem withoutValue_prim (o : Opts) (p : Prim) : withoutValue o (.prim p) false = .error .err := by
  rw [withoutValue]
theorem withoutValue_ptr_prim (o : Opts) (p : Prim) : withoutValue o (.ptr (.prim p)) false = .error .err := by
  rw [withoutValue]
theorem withoutValue_slice (o : Opts) (t : Ty) : withoutValue o (.slice t) false = .error .err := by
  rw [withoutValue]
theorem withoutValue_map (o : Opts) (t : Ty) : withoutValue o (.map t) false = .ok (.map .nil) := by
  rw [withoutValue]
theorem withoutValue_struct_required (o : Opts) (fs : Fields) (h : structRequired fs = true) :
    withoutValue o (.struct fs) false = .error .err := by
  rw [withoutValue]; simp only [h, if_true]
theorem withoutValue_ptr_struct_required (o : Opts) (fs : Fields) (h : structRequired fs = true) :
    withoutValue o (.ptr (.struct fs)) false = .error .err := by
  rw [withoutValue]; simp only [h, if_true]
theorem withoutValue_ptr_ptr (o : Opts) (t : Ty) : withoutValue o (.ptr (.ptr t)) false = .error .unmodelled := by
  rw [withoutValue]; all_goals simp
theorem withoutValue_ptr_slice (o : Opts) (t : Ty) : withoutValue o (.ptr (.slice t)) false = .error .unmodelled := by
  rw [withoutValue]; all_goals simp
theorem withoutValue_ptr_map (o : Opts) (t : Ty) : withoutValue o (.ptr (.map t)) false = .error .unmodelled := by
  rw [withoutValue]; all_goals simp

/-! #### `withValue` (non-null value) -/

theorem withValue_prim (o : Opts) (ho : PlainOpts o) (ps : List JM) (p : Prim) (v : J) :
    withValue o ps (.prim p) v = fillPrim o.f32Pinned p v := by
  rw [withValue]; simp [primField, ho.fromString]
theorem withValue_ptr_prim (o : Opts) (ho : PlainOpts o) (ps : List JM) (p : Prim) (v : J) :
    withValue o ps (.ptr (.prim p)) v = (fillPrim o.f32Pinned p v).map .ptr := by
  rw [withValue]; simp [primField, ho.fromString]
theorem withValue_struct_obj (o : Opts) (ps : List JM) (fs : Fields) (m : JM) :
    withValue o ps (.struct fs) (.obj m) = (unmarshalStruct o ps fs m).map .struct := by
  rw [withValue]
theorem withValue_ptr_struct_obj (o : Opts) (ps : List JM) (fs : Fields) (m : JM) :
    withValue o ps (.ptr (.struct fs)) (.obj m) = (unmarshalStruct o ps fs m).map fun x => .ptr (.struct x) := by
  rw [withValue]
theorem withValue_slice_arr (o : Opts) (ps : List JM) (t : Ty) (l : JL) :
    withValue o ps (.slice t) (.arr l) = fillSlice o t l := by
  rw [withValue]
theorem withValue_map_obj (o : Opts) (ps : List JM) (t : Ty) (m : JM) :
    withValue o ps (.map t) (.obj m) = (genMap o t m).map .map := by
  rw [withValue]

/-! #### `fillSlice` / `sliceElems` -/

theorem fillSlice_nil (o : Opts) (t : Ty) : fillSlice o t .nil = .ok (.slice .nil) := by
  rw [fillSlice]; simp [JL.isNil]

theorem fillSlice_cons (o : Opts) (t : Ty) (x : J) (r : JL) :
    fillSlice o t (.cons x r) =
      sliceElems o t (.cons x r) >>= fun p => pure (if p.2 then .slice p.1 else .nilSlice) := by
  rw [fillSlice.eq_def]
  simp only [JL.isNil, Bool.false_eq_true, if_false]
  cases sliceElems o t (.cons x r) with
  | error e => rfl
  | ok p => obtain ⟨vs, b⟩ := p; cases b <;> rfl

/-- what `fillSliceValue` does with one non-null element of a slice of `t` (a struct element starts a fresh chain of
enclosing objects). -/
def gzSliceElem (o : Opts) (t : Ty) (x : J) : R Val :=
  match t with
  | .prim p => sliceElemPrim p x
  | .ptr (.prim p) => (sliceElemPrim p x).map .ptr
  | t => withValue o [] t x

theorem gzSliceElem_prim (o : Opts) (p : Prim) (x : J) : gzSliceElem o (.prim p) x = sliceElemPrim p x := rfl
theorem gzSliceElem_ptr_prim (o : Opts) (p : Prim) (x : J) :
    gzSliceElem o (.ptr (.prim p)) x = (sliceElemPrim p x).map .ptr := rfl
theorem gzSliceElem_other (o : Opts) (t : Ty) (x : J) (h : t.primish = false) :
    gzSliceElem o t x = withValue o [] t x := by
  unfold gzSliceElem
  split
  · simp [Ty.primish] at h
  · simp [Ty.primish] at h
  · rfl

theorem sliceElems_nil (o : Opts) (t : Ty) : sliceElems o t .nil = .ok (.nil, false) := by
  rw [sliceElems]

theorem sliceElems_cons (o : Opts) (t : Ty) (x : J) (rest : JL) (hx : x ≠ .null) :
    sliceElems o t (.cons x rest) =
      gzSliceElem o t x >>= fun v =>
      sliceElems o t rest >>= fun p => pure (.cons v p.1, true) := by
  have fin : ∀ {α : Type} (E : R α) (g : α → Val), (match Except.map (fun s => (g s, true)) E with
      | Except.error e => Except.error e
      | Except.ok (v, valid) =>
        match sliceElems o t rest with
        | Except.error e => Except.error e
        | Except.ok (vs, anyValid) => Except.ok (VL.cons v vs, valid || anyValid)) =
      (Except.map g E >>= fun v => sliceElems o t rest >>= fun p => pure (.cons v p.1, true)) := by
    intro α E g
    cases E with
    | error e => rfl
    | ok v => cases sliceElems o t rest with
      | error e => rfl
      | ok p => obtain ⟨_, _⟩ := p; rfl
  have fin0 : ∀ (E : R Val), (match Except.map (fun s => (s, true)) E with
      | Except.error e => Except.error e
      | Except.ok (v, valid) =>
        match sliceElems o t rest with
        | Except.error e => Except.error e
        | Except.ok (vs, anyValid) => Except.ok (VL.cons v vs, valid || anyValid)) =
      (E >>= fun v => sliceElems o t rest >>= fun p => pure (.cons v p.1, true)) := by
    intro E
    cases E with
    | error e => rfl
    | ok v => cases sliceElems o t rest with
      | error e => rfl
      | ok p => obtain ⟨_, _⟩ := p; rfl
  rw [sliceElems.eq_def]
  cases x with
  | null => exact absurd rfl hx
  | _ =>
    cases t with
    | ptr t' =>
      cases t' <;> simp only [gzSliceElem, withValue] <;>
        first | rfl | exact fin _ _ | exact fin0 _ | exact fin0 (.ok .nilSlice)
    | _ =>
      simp only [gzSliceElem, withValue] <;>
        first | rfl | exact fin _ _ | exact fin0 _ | exact fin0 (.ok .nilSlice)

/-! #### `genMap` -/

/-- what `generateMap` does with one non-null value of a map of `t`. -/
def gzMapElem (o : Opts) (t : Ty) (x : J) : R Val :=
  match t with
  | .prim p => mapElemPrim p x
  | .ptr (.prim p) => (mapElemPrim p x).map .ptr
  | t => withValue o [] t x

theorem gzMapElem_prim (o : Opts) (p : Prim) (x : J) : gzMapElem o (.prim p) x = mapElemPrim p x := rfl
theorem gzMapElem_ptr_prim (o : Opts) (p : Prim) (x : J) :
    gzMapElem o (.ptr (.prim p)) x = (mapElemPrim p x).map .ptr := rfl
theorem gzMapElem_other (o : Opts) (t : Ty) (x : J) (h : t.primish = false) :
    gzMapElem o t x = withValue o [] t x := by
  unfold gzMapElem
  split
  · simp [Ty.primish] at h
  · simp [Ty.primish] at h
  · rfl

theorem genMap_nil (o : Opts) (t : Ty) : genMap o t .nil = .ok .nil := by
  rw [genMap]

theorem genMap_cons (o : Opts) (t : Ty) (k : Str) (x : J) (rest : JM) (hx : x ≠ .null) :
    genMap o t (.cons k x rest) =
      gzMapElem o t x >>= fun v =>
      genMap o t rest >>= fun vs => pure (.cons k v vs) := by
  have fin : ∀ (E : R Val), (match E with
      | Except.error e => Except.error e
      | Except.ok v =>
        match genMap o t rest with
        | Except.error e => Except.error e
        | Except.ok vs => Except.ok (VM.cons k v vs)) =
      (E >>= fun v => genMap o t rest >>= fun vs => pure (.cons k v vs)) := by
    intro E
    cases E with
    | error e => rfl
    | ok v => cases genMap o t rest <;> rfl
  rw [genMap.eq_def]
  cases x with
  | null => exact absurd rfl hx
  | _ =>
    cases t with
    | ptr t' =>
      cases t' <;> simp only [gzMapElem, withValue] <;> first | rfl | exact fin _ | exact fin (.ok .nilSlice)
    | _ =>
      simp only [gzMapElem, withValue] <;> first | rfl | exact fin _ | exact fin (.ok .nilSlice)

/-! #### scalars -/

theorem fillPrim_num_int (two : Bool) (n : Nat) (lit : Str) :
    fillPrim two (.int n) (.num lit) = convFromString (.int n) lit := rfl
theorem fillPrim_num_uint (two : Bool) (n : Nat) (lit : Str) :
    fillPrim two (.uint n) (.num lit) = convFromString (.uint n) lit := rfl
theorem fillPrim_num_float (two : Bool) (n : Nat) (lit : Str) :
    fillPrim two (.float n) (.num lit) = parseFloat n two lit := rfl
theorem fillPrim_bool (two : Bool) (p : Prim) (b : Bool) :
    fillPrim two p (.bool b) = if p = .bool then .ok (.bool b) else .error .err := rfl
theorem fillPrim_str (two : Bool) (p : Prim) (s : Str) :
    fillPrim two p (.str s) = if p = .string then .ok (.str s) else .error .err := rfl

theorem sliceElemPrim_num (p : Prim) (lit : Str) : sliceElemPrim p (.num lit) = convFromString p lit := rfl
theorem sliceElemPrim_str (p : Prim) (s : Str) : sliceElemPrim p (.str s) = convFromString p s := rfl
theorem sliceElemPrim_bool (p : Prim) (b : Bool) :
    sliceElemPrim p (.bool b) = if p = .bool then .ok (.bool b) else .error .err := rfl

theorem mapElemPrim_num (p : Prim) (lit : Str) : mapElemPrim p (.num lit) = convFromString p lit := rfl
theorem mapElemPrim_str (p : Prim) (s : Str) :
    mapElemPrim p (.str s) = if p = .string then .ok (.str s) else .error .err := rfl
theorem mapElemPrim_bool (p : Prim) (b : Bool) :
    mapElemPrim p (.bool b) = if p = .bool then .ok (.bool b) else .error .err := rfl

/-! #### why `keyPlain` is needed (computed on the model itself, the lemmas above do not apply) -/

/-- `struct { M map[string]int64 `json:"a.b"` }` -/
def dotTy : Fields :=
  .cons { name := "M".toList, key := "a.b".toList, optional := false, embedded := false } (.map (.prim (.int 64))) .nil
/-- `{"a.b":{"x":1}}` -/
def dotDoc : J := .obj (.cons "a.b".toList (.obj (.cons "x".toList (.num "1".toList) .nil)) .nil)

/-- go-zero reads the key `a.b` as the path `a` → `b`, does not find `a`, and leaves the map field empty. -/
theorem unmarshalJson_dotDoc : unmarshalJson dotTy dotDoc = .ok (.struct (.cons "M".toList (.map .nil) .nil)) := by
  simp only [dotTy, dotDoc]
  c17_eval

end GoZeroSide

/-! ## §2 the encoding/json side and the specification side -/

section StdSide

/-! #### `stdVal` by shape -/

theorem stdVal_prim (p : Prim) (v : J) (hv : v ≠ .null) : stdVal (.prim p) v = stdPrim p v := by
  cases v <;> first | exact absurd rfl hv | simp [stdVal]
theorem stdVal_ptr_prim (p : Prim) (v : J) (hv : v ≠ .null) :
    stdVal (.ptr (.prim p)) v = (stdPrim p v).map .ptr := by
  cases v <;> first | exact absurd rfl hv | simp [stdVal]
theorem stdVal_struct_obj (fs : Fields) (m : JM) : stdVal (.struct fs) (.obj m) = stdFinish fs (stdAssign fs m) := by
  simp [stdVal]
theorem stdVal_ptr_struct_obj (fs : Fields) (m : JM) :
    stdVal (.ptr (.struct fs)) (.obj m) = (stdFinish fs (stdAssign fs m)).map .ptr := by
  simp [stdVal]
theorem stdVal_slice_arr (t : Ty) (l : JL) : stdVal (.slice t) (.arr l) = (stdList t l).map .slice := by
  simp [stdVal]
theorem stdVal_map_obj (t : Ty) (m : JM) : stdVal (.map t) (.obj m) = (stdMapEntries t m).map .map := by
  simp [stdVal]

theorem stdVal_struct_ok (fs : Fields) (v : J) (b : Val) (hv : v ≠ .null) (h : stdVal (.struct fs) v = .ok b) :
    ∃ m, v = .obj m := by
  cases v <;> first | exact absurd rfl hv | exact ⟨_, rfl⟩ | simp [stdVal] at h
theorem stdVal_ptr_struct_ok (fs : Fields) (v : J) (b : Val) (hv : v ≠ .null)
    (h : stdVal (.ptr (.struct fs)) v = .ok b) : ∃ m, v = .obj m := by
  cases v <;> first | exact absurd rfl hv | exact ⟨_, rfl⟩ | simp [stdVal] at h
theorem stdVal_slice_ok (t : Ty) (v : J) (b : Val) (hv : v ≠ .null) (h : stdVal (.slice t) v = .ok b) :
    ∃ l, v = .arr l := by
  cases v <;> first | exact absurd rfl hv | exact ⟨_, rfl⟩ | simp [stdVal] at h
theorem stdVal_map_ok (t : Ty) (v : J) (b : Val) (hv : v ≠ .null) (h : stdVal (.map t) v = .ok b) :
    ∃ m, v = .obj m := by
  cases v <;> first | exact absurd rfl hv | exact ⟨_, rfl⟩ | simp [stdVal] at h
theorem stdVal_ptr_ptr_ok (t : Ty) (v : J) (b : Val) (hv : v ≠ .null) (h : stdVal (.ptr (.ptr t)) v = .ok b) : False := by
  cases v <;> first | exact absurd rfl hv | simp [stdVal] at h
theorem stdVal_ptr_slice_ok (t : Ty) (v : J) (b : Val) (hv : v ≠ .null) (h : stdVal (.ptr (.slice t)) v = .ok b) :
    False := by
  cases v <;> first | exact absurd rfl hv | simp [stdVal] at h
theorem stdVal_ptr_map_ok (t : Ty) (v : J) (b : Val) (hv : v ≠ .null) (h : stdVal (.ptr (.map t)) v = .ok b) :
    False := by
  cases v <;> first | exact absurd rfl hv | simp [stdVal] at h

/-! #### `stdList`, `stdMapEntries`, `stdAssign`, `stdAssembleFields`, `stdFinish` in bind form -/

theorem stdList_nil (t : Ty) : stdList t .nil = .ok .nil := by rw [stdList]
theorem stdList_cons (t : Ty) (h : J) (r : JL) :
    stdList t (.cons h r) = stdVal t h >>= fun x => stdList t r >>= fun xs => pure (.cons x xs) := by
  rw [stdList]
  cases stdVal t h with
  | error e => rfl
  | ok x => cases stdList t r <;> rfl

theorem stdMapEntries_nil (t : Ty) : stdMapEntries t .nil = .ok .nil := by rw [stdMapEntries]
theorem stdMapEntries_cons (t : Ty) (k : Str) (v : J) (r : JM) :
    stdMapEntries t (.cons k v r) =
      stdVal t v >>= fun x => stdMapEntries t r >>= fun xs => pure (.cons k x xs) := by
  rw [stdMapEntries]
  cases stdVal t v with
  | error e => rfl
  | ok x => cases stdMapEntries t r <;> rfl

theorem stdAssign_nil (fs : Fields) : stdAssign fs .nil = .ok [] := by rw [stdAssign]
theorem stdAssign_cons_skip (fs : Fields) (k : Str) (v : J) (r : JM) (h : fs.resolve? k = none) :
    stdAssign fs (.cons k v r) = stdAssign fs r := by
  rw [stdAssign]; simp only [h]
theorem stdAssign_cons_hit (fs : Fields) (k fk : Str) (ft : Ty) (v : J) (r : JM)
    (h : fs.resolve? k = some fk) (hf : fs.findTy? fk = some ft) (hv : v ≠ .null) :
    stdAssign fs (.cons k v r) =
      stdVal ft v >>= fun x => stdAssign fs r >>= fun xs => pure ((fk, some x) :: xs) := by
  rw [stdAssign]
  simp only [h, hf]
  cases v with
  | null => exact absurd rfl hv
  | _ =>
    cases stdVal ft _ with
    | error e => rfl
    | ok x => cases stdAssign fs r <;> rfl

theorem stdAssembleFields_nil (as : List (Str × Option Val)) : stdAssembleFields .nil as = .ok .nil := by
  rw [stdAssembleFields]
/-- no entry of the object names the field: it keeps its zero value. -/
theorem stdAssembleFields_cons_none (f : FMeta) (t : Ty) (rest : Fields) (as : List (Str × Option Val))
    (h : (as.filter fun a => a.1 = f.tagKey).map (·.2) = []) :
    stdAssembleFields (.cons f t rest) as =
      stdAssembleFields rest as >>= fun xs => pure (.cons f.name (zeroOf t) xs) := by
  rw [stdAssembleFields.eq_def]
  simp only [h]
  cases stdAssembleFields rest as <;> rfl
/-- exactly one entry names the field. -/
theorem stdAssembleFields_cons_one (f : FMeta) (t : Ty) (rest : Fields) (as : List (Str × Option Val)) (x : Val)
    (h : (as.filter fun a => a.1 = f.tagKey).map (·.2) = [some x]) :
    stdAssembleFields (.cons f t rest) as =
      stdAssembleFields rest as >>= fun xs => pure (.cons f.name x xs) := by
  rw [stdAssembleFields.eq_def]
  simp only [h]
  cases stdAssembleFields rest as <;> rfl

theorem stdFinish_ok (fs : Fields) (r : R (List (Str × Option Val))) (b : Val) (h : stdFinish fs r = .ok b) :
    ∃ as y, r = .ok as ∧ stdAssembleFields fs as = .ok y ∧ b = .struct y := by
  unfold stdFinish at h
  split at h
  · cases h
  · cases r with
    | error e => cases h
    | ok as =>
      simp only [stdAssemble, R.map_ok] at h
      obtain ⟨y, h1, h2⟩ := h
      exact ⟨as, y, rfl, h1, h2⟩

/-! #### field lookup -/

theorem Fields.find?_eq_findTy? : ∀ (fs : Fields) (k : Str), fs.find? k = fs.findTy? k
  | .nil, _ => rfl
  | .cons f t rest, k => by
    simp only [Fields.find?, Fields.findTy?, Fields.find?_eq_findTy? rest k]

theorem Fields.findTy?_none_iff : ∀ (fs : Fields) (k : Str), fs.findTy? k = none ↔ k ∉ fs.keys
  | .nil, _ => by simp [Fields.findTy?, Fields.keys]
  | .cons f t rest, k => by
    simp only [Fields.findTy?, Fields.keys, List.mem_cons, not_or]
    by_cases h : f.tagKey = k
    · simp [h]
    · have h' : ¬ k = f.tagKey := fun e => h e.symm
      simp [h, h', Fields.findTy?_none_iff rest k]

theorem Fields.findTy?_mem (fs : Fields) (k : Str) (t : Ty) (h : fs.findTy? k = some t) : k ∈ fs.keys := by
  apply Classical.byContradiction
  intro hn
  rw [(Fields.findTy?_none_iff fs k).mpr hn] at h
  cases h

theorem Fields.foldKey?_none : ∀ (fs : Fields) (k : Str), lower k ∉ fs.keys.map lower → fs.foldKey? k = none
  | .nil, _, _ => rfl
  | .cons f t rest, k, h => by
    simp only [Fields.keys, List.map_cons, List.mem_cons, not_or] at h
    have h1 : ¬ lower f.tagKey = lower k := fun e => h.1 e.symm
    simp only [Fields.foldKey?, h1, if_false]
    exact Fields.foldKey?_none rest k h.2

/-- a key that is a field key resolves to itself. -/
theorem Fields.resolve?_of_mem (fs : Fields) (k : Str) (t : Ty) (h : fs.findTy? k = some t) :
    fs.resolve? k = some k := by
  simp only [Fields.resolve?, h]

/-- a key that is no field key, and not one up to case, resolves to nothing. -/
theorem Fields.resolve?_of_not_mem (fs : Fields) (k : Str) (h : k ∉ fs.keys) (hl : lower k ∉ fs.keys.map lower) :
    fs.resolve? k = none := by
  simp only [Fields.resolve?, (Fields.findTy?_none_iff fs k).mpr h, Fields.foldKey?_none fs k hl]

/-! #### `hasDup` -/

theorem hasDup_cons_false (k : Str) (ks : List Str) : hasDup (k :: ks) = false ↔ k ∉ ks ∧ hasDup ks = false := by
  simp [hasDup]

theorem hasDup_map_false (f : Str → Str) : ∀ (l : List Str), hasDup (l.map f) = false → hasDup l = false
  | [], _ => rfl
  | k :: ks, h => by
    rw [List.map_cons, hasDup_cons_false] at h
    rw [hasDup_cons_false]
    exact ⟨fun hm => h.1 (List.mem_map_of_mem hm), hasDup_map_false f ks h.2⟩

theorem JM.get?_none_of_not_mem : ∀ (m : JM) (k : Str), k ∉ m.keys → m.get? k = none
  | .nil, _, _ => rfl
  | .cons k' v r, k, h => by
    simp only [JM.keys, List.mem_cons, not_or] at h
    have h1 : ¬ k' = k := fun e => h.1 e.symm
    simp only [JM.get?, h1, if_false]
    exact JM.get?_none_of_not_mem r k h.2

/-! #### `keysExactStruct` -/

theorem keysExactStruct_cons (fs : Fields) (ks : List Str) (k : Str) (v : J) (r : JM)
    (h : keysExactStruct fs ks (.cons k v r) = true) :
    keysExactStruct fs ks r = true ∧
    (k ∈ ks → ∀ t, fs.findTy? k = some t → keysExact t v = true) ∧
    (k ∉ ks → lower k ∉ ks.map lower) := by
  simp only [keysExactStruct, Bool.and_eq_true] at h
  obtain ⟨h1, h2⟩ := h
  refine ⟨h2, ?_, ?_⟩
  · intro hk t ht
    have hc : ks.contains k = true := by simpa using hk
    rw [if_pos hc, Fields.find?_eq_findTy?, ht] at h1
    exact h1
  · intro hk
    have hc : ¬ ks.contains k = true := by simpa using hk
    rw [if_neg hc] at h1
    simpa using h1

/-! #### the key lemma: assignments of `encoding/json` per field = lookup of the field key in the object -/

theorem std_key_lemma (fs : Fields) : ∀ (m : JM) (as : List (Str × Option Val)),
    plainDocMap m = true → hasDup m.keys = false → keysExactStruct fs fs.keys m = true →
    stdAssign fs m = .ok as → ∀ (K : Str) (t : Ty), fs.findTy? K = some t →
    (m.get? K = none → (as.filter fun a => a.1 = K).map (·.2) = []) ∧
    (∀ v, m.get? K = some v →
      ∃ x, stdVal t v = .ok x ∧ (as.filter fun a => a.1 = K).map (·.2) = [some x])
  | .nil, as, _, _, _, hs, K, t, ht => by
    rw [stdAssign_nil] at hs
    cases hs
    simp [JM.get?]
  | .cons k v r, as, hd, hdup, hk, hs, K, t, ht => by
    simp only [plainDocMap, Bool.and_eq_true] at hd
    have hv : v ≠ .null := by intro e; rw [e] at hd; simp [plainDoc] at hd
    simp only [JM.keys] at hdup
    rw [hasDup_cons_false] at hdup
    obtain ⟨hk_r, hk_in, hk_out⟩ := keysExactStruct_cons fs fs.keys k v r hk
    have IH := fun as' hs' => std_key_lemma fs r as' hd.2 hdup.2 hk_r hs' K t ht
    have hKmem := Fields.findTy?_mem fs K t ht
    by_cases hmem : k ∈ fs.keys
    · cases hft : fs.findTy? k with
      | none => exact absurd hmem ((Fields.findTy?_none_iff fs k).mp hft)
      | some ft =>
        rw [stdAssign_cons_hit fs k k ft v r (Fields.resolve?_of_mem fs k ft hft) hft hv] at hs
        simp only [R.bind_ok, R.pure_ok] at hs
        obtain ⟨x, hx, xs, hxs, has⟩ := hs
        subst has
        by_cases hkK : k = K
        · subst hkK
          have : ft = t := by rw [hft] at ht; injection ht
          subst this
          have hrn : r.get? k = none := JM.get?_none_of_not_mem r k hdup.1
          have := (IH xs hxs).1 hrn
          simp [JM.get?, this, hx]
        · have := IH xs hxs
          simpa [JM.get?, hkK, List.filter_cons] using this
    · have hne : ¬ k = K := fun e => hmem (e ▸ hKmem)
      rw [stdAssign_cons_skip fs k v r (Fields.resolve?_of_not_mem fs k hmem (hk_out hmem))] at hs
      simp only [JM.get?, hne, if_false]
      exact IH as hs

/-! #### the hypotheses on the document, bundled per position, and how they decompose

`two` = `Opts.f32Pinned`: the float32 hypothesis is needed for the pinned code only. -/

/-- hypotheses on a value at a struct-field position of type `t`. -/
structure DocOK (two : Bool) (t : Ty) (v : J) : Prop where
  hd : plainDoc v = true
  hc : noCaseCollision v = true
  hk : keysExact t v = true
  hf : two = true → f32Stable t v = true

/-- hypotheses on an element of a slice / a value of a map of element type `t`. -/
structure ElemOK (two : Bool) (t : Ty) (v : J) : Prop where
  hd : plainDoc v = true
  hc : noCaseCollision v = true
  hk : keysExact t v = true
  hf : two = true → (t.primish || f32Stable t v) = true

/-- hypotheses on an object decoded into the struct `fs`. -/
structure ObjOK (two : Bool) (fs : Fields) (m : JM) : Prop where
  hd : plainDocMap m = true
  hdup : hasDup m.keys = false
  hc : noCaseCollisionMap m = true
  hk : keysExactStruct fs fs.keys m = true
  hf : two = true → f32StableStruct fs m = true

structure ListOK (two : Bool) (t : Ty) (l : JL) : Prop where
  hd : plainDocList l = true
  hc : noCaseCollisionList l = true
  hk : keysExactList t l = true
  hf : two = true → f32StableElems t l = true

structure MapValsOK (two : Bool) (t : Ty) (m : JM) : Prop where
  hd : plainDocMap m = true
  hc : noCaseCollisionMap m = true
  hk : keysExactMapVals t m = true
  hf : two = true → f32StableMapVals t m = true

theorem plainDoc_ne_null (v : J) (h : plainDoc v = true) : v ≠ .null := by
  intro e; rw [e] at h; simp [plainDoc] at h

theorem DocOK.ne_null {two : Bool} {t : Ty} {v : J} (h : DocOK two t v) : v ≠ .null := plainDoc_ne_null v h.hd
theorem ElemOK.ne_null {two : Bool} {t : Ty} {v : J} (h : ElemOK two t v) : v ≠ .null := plainDoc_ne_null v h.hd

theorem ElemOK.toDoc {two : Bool} {t : Ty} {v : J} (h : ElemOK two t v) (hp : t.primish = false) : DocOK two t v :=
  ⟨h.hd, h.hc, h.hk, fun h2 => by have := h.hf h2; rw [hp] at this; simpa using this⟩

theorem noCaseCollision_obj (m : JM) (h : noCaseCollision (.obj m) = true) :
    hasDup m.keys = false ∧ noCaseCollisionMap m = true := by
  simp only [noCaseCollision, Bool.and_eq_true, Bool.not_eq_true'] at h
  exact ⟨hasDup_map_false lower _ h.1, h.2⟩

theorem DocOK.struct_obj {two : Bool} {fs : Fields} {m : JM} (h : DocOK two (.struct fs) (.obj m)) :
    ObjOK two fs m := by
  obtain ⟨hd, hc, hk, hf⟩ := h
  have := noCaseCollision_obj m hc
  rw [keysExact] at hk
  simp only [f32Stable] at hf
  simp only [plainDoc] at hd
  exact ⟨hd, this.1, this.2, hk, hf⟩

theorem DocOK.ptr_struct_obj {two : Bool} {fs : Fields} {m : JM} (h : DocOK two (.ptr (.struct fs)) (.obj m)) :
    ObjOK two fs m := by
  obtain ⟨hd, hc, hk, hf⟩ := h
  have := noCaseCollision_obj m hc
  rw [keysExact, keysExact] at hk
  simp only [f32Stable] at hf
  simp only [plainDoc] at hd
  exact ⟨hd, this.1, this.2, hk, hf⟩

theorem DocOK.slice_arr {two : Bool} {t : Ty} {l : JL} (h : DocOK two (.slice t) (.arr l)) : ListOK two t l := by
  obtain ⟨hd, hc, hk, hf⟩ := h
  rw [keysExact] at hk
  simp only [f32Stable] at hf
  simp only [plainDoc] at hd
  simp only [noCaseCollision] at hc
  exact ⟨hd, hc, hk, hf⟩

theorem DocOK.map_obj {two : Bool} {t : Ty} {m : JM} (h : DocOK two (.map t) (.obj m)) : MapValsOK two t m := by
  obtain ⟨hd, hc, hk, hf⟩ := h
  rw [keysExact] at hk
  simp only [f32Stable] at hf
  simp only [plainDoc] at hd
  exact ⟨hd, (noCaseCollision_obj m hc).2, hk, hf⟩

theorem ListOK.cons {two : Bool} {t : Ty} {x : J} {r : JL} (h : ListOK two t (.cons x r)) :
    ElemOK two t x ∧ ListOK two t r := by
  obtain ⟨hd, hc, hk, hf⟩ := h
  simp only [plainDocList, Bool.and_eq_true] at hd
  simp only [noCaseCollisionList, Bool.and_eq_true] at hc
  simp only [keysExactList, Bool.and_eq_true] at hk
  simp only [f32StableElems, Bool.and_eq_true] at hf
  exact ⟨⟨hd.1, hc.1, hk.1, fun h2 => (hf h2).1⟩, ⟨hd.2, hc.2, hk.2, fun h2 => (hf h2).2⟩⟩

theorem MapValsOK.cons {two : Bool} {t : Ty} {k : Str} {x : J} {r : JM} (h : MapValsOK two t (.cons k x r)) :
    ElemOK two t x ∧ MapValsOK two t r := by
  obtain ⟨hd, hc, hk, hf⟩ := h
  simp only [plainDocMap, Bool.and_eq_true] at hd
  simp only [noCaseCollisionMap, Bool.and_eq_true] at hc
  simp only [keysExactMapVals, Bool.and_eq_true] at hk
  simp only [f32StableMapVals, Bool.and_eq_true] at hf
  exact ⟨⟨hd.1, hc.1, hk.1, fun h2 => (hf h2).1⟩, ⟨hd.2, hc.2, hk.2, fun h2 => (hf h2).2⟩⟩

/-- the value found under a field key satisfies the hypotheses at the field's type. -/
theorem ObjOK.get (two : Bool) (fs : Fields) (K : Str) (t : Ty) (ht : fs.findTy? K = some t) :
    ∀ (m : JM) (v : J), ObjOK two fs m → m.get? K = some v → DocOK two t v
  | .nil, _, _, hg => by simp [JM.get?] at hg
  | .cons k x r, v, h, hg => by
    obtain ⟨hd, hdup, hc, hk, hf⟩ := h
    simp only [plainDocMap, Bool.and_eq_true] at hd
    simp only [noCaseCollisionMap, Bool.and_eq_true] at hc
    simp only [f32StableStruct, Bool.and_eq_true] at hf
    simp only [JM.keys] at hdup
    rw [hasDup_cons_false] at hdup
    obtain ⟨hk_r, hk_in, _⟩ := keysExactStruct_cons fs fs.keys k x r hk
    simp only [JM.get?] at hg
    by_cases hkK : k = K
    · subst hkK
      rw [if_pos rfl] at hg
      injection hg with hg
      subst hg
      refine ⟨hd.1, hc.1, hk_in (Fields.findTy?_mem fs k t ht) t ht, fun h2 => ?_⟩
      have hf1 := (hf h2).1
      rw [ht] at hf1
      exact hf1
    · rw [if_neg hkK] at hg
      exact ObjOK.get two fs K t ht r v ⟨hd.2, hdup.2, hc.2, hk_r, fun h2 => (hf h2).2⟩ hg

end StdSide


/-! ## §3 the layers, from §1 and §2 only -/

section Layers

/-! #### scalars -/

theorem f32Stable_prim_float (n : Nat) (lit : Str) : f32Stable (.prim (.float n)) (.num lit) = f32Agree n lit := by
  simp only [f32Stable]
theorem f32Stable_ptr_prim_float (n : Nat) (lit : Str) :
    f32Stable (.ptr (.prim (.float n))) (.num lit) = f32Agree n lit := by
  simp only [f32Stable]

/-- a struct field of primitive kind: both decoders accept ⇒ same value (`two`: the pinned double rounding). -/
theorem field_prim_agree (two : Bool) (p : Prim) (v : J) (a b : Val)
    (hf : two = true → ∀ n lit, p = .float n → v = .num lit → f32Agree n lit = true)
    (hu : fillPrim two p v = .ok a) (hs : stdPrim p v = .ok b) : a = b := by
  cases v with
  | num lit =>
    cases p with
    | int n =>
      rw [fillPrim_num_int] at hu; simp only [stdPrim] at hs
      rw [hu] at hs; injection hs
    | uint n =>
      rw [fillPrim_num_uint] at hu; simp only [stdPrim] at hs
      rw [hu] at hs; injection hs
    | float n =>
      rw [fillPrim_num_float] at hu; simp only [stdPrim, convFromString] at hs
      cases two with
      | false => rw [hu] at hs; injection hs
      | true =>
        have := hf rfl n lit rfl rfl
        unfold f32Agree at this
        rw [hu, hs] at this
        simpa using this
    | bool => simp [stdPrim] at hs
    | string => simp [stdPrim] at hs
  | bool x => rw [fillPrim_bool] at hu; simp only [stdPrim] at hs; rw [hu] at hs; injection hs
  | str x => rw [fillPrim_str] at hu; simp only [stdPrim] at hs; rw [hu] at hs; injection hs
  | null => simp [stdPrim] at hs
  | nilArr => simp [stdPrim] at hs
  | arr l => simp [stdPrim] at hs
  | obj m => simp [stdPrim] at hs

/-- an element of a slice of primitive kind. -/
theorem sliceElem_prim_agree (p : Prim) (x : J) (a b : Val)
    (hu : sliceElemPrim p x = .ok a) (hs : stdPrim p x = .ok b) : a = b := by
  cases x with
  | num lit =>
    rw [sliceElemPrim_num] at hu
    cases p <;> simp only [stdPrim] at hs <;> first | (rw [hu] at hs; injection hs) | cases hs
  | str s =>
    rw [sliceElemPrim_str] at hu
    simp only [stdPrim] at hs
    split at hs
    · rename_i hp; subst hp
      simp only [convFromString] at hu
      rw [hu] at hs; injection hs
    · cases hs
  | bool x => rw [sliceElemPrim_bool] at hu; simp only [stdPrim] at hs; rw [hu] at hs; injection hs
  | null => simp [stdPrim] at hs
  | nilArr => simp [stdPrim] at hs
  | arr l => simp [stdPrim] at hs
  | obj m => simp [stdPrim] at hs

/-- a value of a map of primitive kind. -/
theorem mapElem_prim_agree (p : Prim) (x : J) (a b : Val)
    (hu : mapElemPrim p x = .ok a) (hs : stdPrim p x = .ok b) : a = b := by
  cases x with
  | num lit =>
    rw [mapElemPrim_num] at hu
    cases p <;> simp only [stdPrim] at hs <;> first | (rw [hu] at hs; injection hs) | cases hs
  | str s => rw [mapElemPrim_str] at hu; simp only [stdPrim] at hs; rw [hu] at hs; injection hs
  | bool x => rw [mapElemPrim_bool] at hu; simp only [stdPrim] at hs; rw [hu] at hs; injection hs
  | null => simp [stdPrim] at hs
  | nilArr => simp [stdPrim] at hs
  | arr l => simp [stdPrim] at hs
  | obj m => simp [stdPrim] at hs

/-! #### what is proven by the induction -/

/-- agreement at a struct-field position of type `t` (whatever the enclosing objects `ps`). -/
def AgreeTy (o : Opts) (t : Ty) : Prop :=
  ∀ ps v, DocOK o.f32Pinned t v → ∀ a b, withValue o ps t v = .ok a → stdVal t v = .ok b → a.normNil = b.normNil

/-- every field of `fs'` is a field of `fs` (found under its key). -/
def Fields.subOf : Fields → Fields → Prop
  | .nil, _ => True
  | .cons f t rest, fs => fs.findTy? f.tagKey = some t ∧ rest.subOf fs

/-- agreement on the fields `fs'` of a struct `fs`: go-zero looks each field up in the object, encoding/json has
distributed the object's entries (`as`) over the fields. -/
def AgreeFields (o : Opts) (fs' : Fields) : Prop :=
  ∀ (ps : List JM) (fs : Fields) (m : JM) (as : List (Str × Option Val)), fs'.subOf fs → ObjOK o.f32Pinned fs m →
    stdAssign fs m = .ok as →
    ∀ a b, unmarshalStruct o ps fs' m = .ok a → stdAssembleFields fs' as = .ok b → a.normNil = b.normNil

theorem Fields.subOf_cons_right (g : FMeta) (u : Ty) (fs : Fields) :
    ∀ (fs' : Fields), fs'.subOf fs → g.tagKey ∉ fs'.keys → fs'.subOf (.cons g u fs)
  | .nil, _, _ => trivial
  | .cons f t rest, h, hn => by
    simp only [Fields.keys, List.mem_cons, not_or] at hn
    refine ⟨?_, Fields.subOf_cons_right g u fs rest h.2 hn.2⟩
    simp only [Fields.findTy?, hn.1, if_false]
    exact h.1

theorem Fields.subOf_self : ∀ (fs : Fields), hasDup fs.keys = false → fs.subOf fs
  | .nil, _ => trivial
  | .cons f t rest, h => by
    simp only [Fields.keys] at h
    rw [hasDup_cons_false] at h
    refine ⟨?_, Fields.subOf_cons_right f t rest rest (Fields.subOf_self rest h.2) h.1⟩
    simp only [Fields.findTy?, if_true]

/-! #### scalar fields, pointers to scalars -/

theorem agree_prim (o : Opts) (ho : PlainOpts o) (p : Prim) : AgreeTy o (.prim p) := by
  intro ps v h a b hu hs
  rw [withValue_prim o ho] at hu
  rw [stdVal_prim p v h.ne_null] at hs
  have hf : o.f32Pinned = true → ∀ n lit, p = .float n → v = .num lit → f32Agree n lit = true := by
    intro h2 n lit hp hv
    have := h.hf h2
    rw [hp, hv, f32Stable_prim_float] at this
    exact this
  rw [field_prim_agree o.f32Pinned p v a b hf hu hs]

theorem agree_ptr_prim (o : Opts) (ho : PlainOpts o) (p : Prim) : AgreeTy o (.ptr (.prim p)) := by
  intro ps v h a b hu hs
  rw [withValue_ptr_prim o ho, R.map_ok] at hu
  rw [stdVal_ptr_prim p v h.ne_null, R.map_ok] at hs
  obtain ⟨a', hu', rfl⟩ := hu
  obtain ⟨b', hs', rfl⟩ := hs
  have hf : o.f32Pinned = true → ∀ n lit, p = .float n → v = .num lit → f32Agree n lit = true := by
    intro h2 n lit hp hv
    have := h.hf h2
    rw [hp, hv, f32Stable_ptr_prim_float] at this
    exact this
  rw [field_prim_agree o.f32Pinned p v a' b' hf hu' hs']

theorem agree_ptr_ptr (o : Opts) (t : Ty) : AgreeTy o (.ptr (.ptr t)) :=
  fun _ v h _ b _ hs => (stdVal_ptr_ptr_ok t v b h.ne_null hs).elim
theorem agree_ptr_slice (o : Opts) (t : Ty) : AgreeTy o (.ptr (.slice t)) :=
  fun _ v h _ b _ hs => (stdVal_ptr_slice_ok t v b h.ne_null hs).elim
theorem agree_ptr_map (o : Opts) (t : Ty) : AgreeTy o (.ptr (.map t)) :=
  fun _ v h _ b _ hs => (stdVal_ptr_map_ok t v b h.ne_null hs).elim

/-! #### structs -/

theorem agree_struct (o : Opts) (fs : Fields) (hdist : hasDup fs.keys = false) (IH : AgreeFields o fs) :
    AgreeTy o (.struct fs) := by
  intro ps v h a b hu hs
  obtain ⟨m, rfl⟩ := stdVal_struct_ok fs v b h.ne_null hs
  rw [withValue_struct_obj, R.map_ok] at hu
  obtain ⟨x, hx, rfl⟩ := hu
  rw [stdVal_struct_obj] at hs
  obtain ⟨as, y, has, hy, rfl⟩ := stdFinish_ok _ _ _ hs
  have := IH ps fs m as (Fields.subOf_self fs hdist) h.struct_obj has x y hx hy
  simp only [Val.normNil, this]

theorem agree_ptr_struct (o : Opts) (fs : Fields) (hdist : hasDup fs.keys = false) (IH : AgreeFields o fs) :
    AgreeTy o (.ptr (.struct fs)) := by
  intro ps v h a b hu hs
  obtain ⟨m, rfl⟩ := stdVal_ptr_struct_ok fs v b h.ne_null hs
  rw [withValue_ptr_struct_obj, R.map_ok] at hu
  obtain ⟨x, hx, rfl⟩ := hu
  rw [stdVal_ptr_struct_obj, R.map_ok] at hs
  obtain ⟨b', hs, rfl⟩ := hs
  obtain ⟨as, y, has, hy, rfl⟩ := stdFinish_ok _ _ _ hs
  have := IH ps fs m as (Fields.subOf_self fs hdist) h.ptr_struct_obj has x y hx hy
  simp only [Val.normNil, this]

/-- an absent key: go-zero accepts only for a map field (the plain fragment has no optional struct), and gives the
empty map where encoding/json leaves nil. -/
theorem withoutValue_plain_agree (o : Opts) (t : Ty) (hp : plainTy t = true) (x : Val)
    (h : withoutValue o t false = .ok x) : x.normNil = (zeroOf t).normNil := by
  cases t with
  | prim p => rw [withoutValue_prim] at h; cases h
  | slice t => rw [withoutValue_slice] at h; cases h
  | map t =>
    rw [withoutValue_map] at h
    injection h with h
    subst h
    simp only [zeroOf, Val.normNil, VM.normNil]
  | struct fs =>
    simp only [plainTy, Bool.and_eq_true] at hp
    rw [withoutValue_struct_required o fs hp.2] at h; cases h
  | ptr t' =>
    cases t' with
    | prim p => rw [withoutValue_ptr_prim] at h; cases h
    | ptr t => rw [withoutValue_ptr_ptr] at h; cases h
    | slice t => rw [withoutValue_ptr_slice] at h; cases h
    | map t => rw [withoutValue_ptr_map] at h; cases h
    | struct fs =>
      simp only [plainTy, Bool.and_eq_true] at hp
      rw [withoutValue_ptr_struct_required o fs hp.2] at h; cases h

theorem agree_fields_nil (o : Opts) : AgreeFields o .nil := by
  intro ps fs m as _ _ _ a b hu hs
  rw [unmarshalStruct_plain_nil] at hu
  rw [stdAssembleFields_nil] at hs
  cases hu; cases hs; rfl

theorem agree_fields_cons (o : Opts) (ho : PlainOpts o) (f : FMeta) (t : Ty) (rest : Fields)
    (hopt : f.optional = false) (he : f.embedded = false) (hx : f.hasExt = false) (hkp : keyPlain f.tagKey = true)
    (hpt : plainTy t = true) (IHt : AgreeTy o t) (IHr : AgreeFields o rest) : AgreeFields o (.cons f t rest) := by
  intro ps fs m as hsub hobj has a b hu hs
  obtain ⟨hft, hsub'⟩ := hsub
  obtain ⟨hnone, hsome⟩ := std_key_lemma fs m as hobj.hd hobj.hdup hobj.hk has f.tagKey t hft
  cases hg : m.get? f.tagKey with
  | none =>
    rw [unmarshalStruct_plain_cons_none o ho ps f t rest m hopt he hx hkp hg] at hu
    rw [stdAssembleFields_cons_none f t rest as (hnone hg)] at hs
    simp only [R.bind_ok, R.pure_ok] at hu hs
    obtain ⟨x, hx, r, hr, rfl⟩ := hu
    obtain ⟨ys, hys, rfl⟩ := hs
    have h1 := withoutValue_plain_agree o t hpt x hx
    have h2 := IHr ps fs m as hsub' hobj has r ys hr hys
    simp only [VM.normNil, h1, h2]
  | some v =>
    have hdoc := ObjOK.get o.f32Pinned fs f.tagKey t hft m v hobj hg
    obtain ⟨y, hy, hmine⟩ := hsome v hg
    rw [unmarshalStruct_plain_cons_some o ho ps f t rest m v hopt he hx hkp hg hdoc.ne_null] at hu
    rw [stdAssembleFields_cons_one f t rest as y hmine] at hs
    simp only [R.bind_ok, R.pure_ok] at hu hs
    obtain ⟨x, hx, r, hr, rfl⟩ := hu
    obtain ⟨ys, hys, rfl⟩ := hs
    have h1 := IHt (m :: ps) v hdoc x y hx hy
    have h2 := IHr ps fs m as hsub' hobj has r ys hr hys
    simp only [VM.normNil, h1, h2]

/-! #### slices -/

theorem sliceElem_agree (o : Opts) (t : Ty) (IH : AgreeTy o t) (x : J) (h : ElemOK o.f32Pinned t x) (a b : Val)
    (hu : gzSliceElem o t x = .ok a) (hs : stdVal t x = .ok b) : a.normNil = b.normNil := by
  cases hp : t.primish with
  | false => rw [gzSliceElem_other o t x hp] at hu; exact IH [] x (h.toDoc hp) a b hu hs
  | true =>
    cases t with
    | prim p =>
      rw [gzSliceElem_prim] at hu
      rw [stdVal_prim p x h.ne_null] at hs
      rw [sliceElem_prim_agree p x a b hu hs]
    | ptr t' =>
      cases t' with
      | prim p =>
        rw [gzSliceElem_ptr_prim, R.map_ok] at hu
        rw [stdVal_ptr_prim p x h.ne_null, R.map_ok] at hs
        obtain ⟨a', hu', rfl⟩ := hu
        obtain ⟨b', hs', rfl⟩ := hs
        rw [sliceElem_prim_agree p x a' b' hu' hs']
      | _ => simp [Ty.primish] at hp
    | _ => simp [Ty.primish] at hp

theorem slice_list_agree (o : Opts) (t : Ty) (IH : AgreeTy o t) : ∀ (l : JL), ListOK o.f32Pinned t l →
    ∀ (p : VL × Bool) (ws : VL),
    sliceElems o t l = .ok p → stdList t l = .ok ws → p.1.normNil = ws.normNil ∧ (l ≠ .nil → p.2 = true)
  | .nil, _, p, ws, hu, hs => by
    rw [sliceElems_nil] at hu
    rw [stdList_nil] at hs
    cases hu; cases hs
    exact ⟨rfl, fun h => absurd rfl h⟩
  | .cons x r, h, p, ws, hu, hs => by
    obtain ⟨hx, hr⟩ := h.cons
    rw [sliceElems_cons o t x r hx.ne_null] at hu
    rw [stdList_cons] at hs
    simp only [R.bind_ok, R.pure_ok] at hu hs
    obtain ⟨a, ha, q, hq, rfl⟩ := hu
    obtain ⟨b, hb, ws', hws, rfl⟩ := hs
    have h1 := sliceElem_agree o t IH x hx a b ha hb
    have h2 := (slice_list_agree o t IH r hr q ws' hq hws).1
    exact ⟨by simp only [VL.normNil, h1, h2], fun _ => rfl⟩

theorem agree_slice (o : Opts) (t : Ty) (IH : AgreeTy o t) : AgreeTy o (.slice t) := by
  intro ps v h a b hu hs
  obtain ⟨l, rfl⟩ := stdVal_slice_ok t v b h.ne_null hs
  rw [withValue_slice_arr] at hu
  rw [stdVal_slice_arr, R.map_ok] at hs
  obtain ⟨ws, hws, rfl⟩ := hs
  cases l with
  | nil =>
    rw [fillSlice_nil] at hu
    rw [stdList_nil] at hws
    cases hu; cases hws; rfl
  | cons x r =>
    rw [fillSlice_cons, R.bind_ok] at hu
    obtain ⟨p, hp, hpa⟩ := hu
    rw [R.pure_ok] at hpa
    subst hpa
    obtain ⟨h1, h2⟩ := slice_list_agree o t IH _ h.slice_arr p ws hp hws
    rw [h2 (by simp)]
    simp only [if_true, Val.normNil, h1]

/-! #### maps -/

theorem mapElem_agree (o : Opts) (t : Ty) (IH : AgreeTy o t) (x : J) (h : ElemOK o.f32Pinned t x) (a b : Val)
    (hu : gzMapElem o t x = .ok a) (hs : stdVal t x = .ok b) : a.normNil = b.normNil := by
  cases hp : t.primish with
  | false => rw [gzMapElem_other o t x hp] at hu; exact IH [] x (h.toDoc hp) a b hu hs
  | true =>
    cases t with
    | prim p =>
      rw [gzMapElem_prim] at hu
      rw [stdVal_prim p x h.ne_null] at hs
      rw [mapElem_prim_agree p x a b hu hs]
    | ptr t' =>
      cases t' with
      | prim p =>
        rw [gzMapElem_ptr_prim, R.map_ok] at hu
        rw [stdVal_ptr_prim p x h.ne_null, R.map_ok] at hs
        obtain ⟨a', hu', rfl⟩ := hu
        obtain ⟨b', hs', rfl⟩ := hs
        rw [mapElem_prim_agree p x a' b' hu' hs']
      | _ => simp [Ty.primish] at hp
    | _ => simp [Ty.primish] at hp

theorem map_entries_agree (o : Opts) (t : Ty) (IH : AgreeTy o t) : ∀ (m : JM), MapValsOK o.f32Pinned t m →
    ∀ (a b : VM), genMap o t m = .ok a → stdMapEntries t m = .ok b → a.normNil = b.normNil
  | .nil, _, a, b, hu, hs => by
    rw [genMap_nil] at hu
    rw [stdMapEntries_nil] at hs
    cases hu; cases hs; rfl
  | .cons k x r, h, a, b, hu, hs => by
    obtain ⟨hx, hr⟩ := h.cons
    rw [genMap_cons o t k x r hx.ne_null] at hu
    rw [stdMapEntries_cons] at hs
    simp only [R.bind_ok, R.pure_ok] at hu hs
    obtain ⟨a', ha, q, hq, rfl⟩ := hu
    obtain ⟨b', hb, ws', hws, rfl⟩ := hs
    have h1 := mapElem_agree o t IH x hx a' b' ha hb
    have h2 := map_entries_agree o t IH r hr q ws' hq hws
    simp only [VM.normNil, h1, h2]

theorem agree_map (o : Opts) (t : Ty) (IH : AgreeTy o t) : AgreeTy o (.map t) := by
  intro ps v h a b hu hs
  obtain ⟨m, rfl⟩ := stdVal_map_ok t v b h.ne_null hs
  rw [withValue_map_obj, R.map_ok] at hu
  rw [stdVal_map_obj, R.map_ok] at hs
  obtain ⟨x, hx, rfl⟩ := hu
  obtain ⟨y, hy, rfl⟩ := hs
  have := map_entries_agree o t IH m h.map_obj x y hx hy
  simp only [Val.normNil, this]

/-! #### the induction over the type -/

mutual
theorem agreeTy (o : Opts) (ho : PlainOpts o) : ∀ (t : Ty), plainTy t = true → tyKeysDistinct t = true →
    tyKeysPlain t = true → AgreeTy o t
  | .prim p, _, _, _ => agree_prim o ho p
  | .ptr (.prim p), _, _, _ => agree_ptr_prim o ho p
  | .ptr (.ptr t), _, _, _ => agree_ptr_ptr o t
  | .ptr (.slice t), _, _, _ => agree_ptr_slice o t
  | .ptr (.map t), _, _, _ => agree_ptr_map o t
  | .ptr (.struct fs), hp, hd, hk => by
    simp only [plainTy, Bool.and_eq_true] at hp
    simp only [tyKeysDistinct, Bool.and_eq_true, Bool.not_eq_true'] at hd
    simp only [tyKeysPlain] at hk
    exact agree_ptr_struct o fs hd.1 (agreeFields o ho fs hp.1 hd.2 hk)
  | .slice t, hp, hd, hk => by
    simp only [plainTy] at hp
    simp only [tyKeysDistinct] at hd
    simp only [tyKeysPlain] at hk
    exact agree_slice o t (agreeTy o ho t hp hd hk)
  | .map t, hp, hd, hk => by
    simp only [plainTy] at hp
    simp only [tyKeysDistinct] at hd
    simp only [tyKeysPlain] at hk
    exact agree_map o t (agreeTy o ho t hp hd hk)
  | .struct fs, hp, hd, hk => by
    simp only [plainTy, Bool.and_eq_true] at hp
    simp only [tyKeysDistinct, Bool.and_eq_true, Bool.not_eq_true'] at hd
    simp only [tyKeysPlain] at hk
    exact agree_struct o fs hd.1 (agreeFields o ho fs hp.1 hd.2 hk)
theorem agreeFields (o : Opts) (ho : PlainOpts o) : ∀ (fs : Fields), plainFields fs = true →
    fieldsKeysDistinct fs = true → fieldsKeysPlain fs = true → AgreeFields o fs
  | .nil, _, _, _ => agree_fields_nil o
  | .cons f t rest, hp, hd, hk => by
    simp only [plainFields, Bool.and_eq_true, Bool.not_eq_true'] at hp
    simp only [fieldsKeysDistinct, Bool.and_eq_true] at hd
    simp only [fieldsKeysPlain, Bool.and_eq_true] at hk
    exact agree_fields_cons o ho f t rest hp.1.1.1.1 hp.1.1.1.2 hp.1.1.2 hk.1.1 hp.1.2
      (agreeTy o ho t hp.1.2 hd.1 hk.1.2) (agreeFields o ho rest hp.2 hd.2 hk.2)
end

end Layers

/-! ## §4 the theorems -/

/-- general form: any options that differ from the defaults only in the model switch `f32Pinned` and the environment;
the float32 hypothesis is needed for the pinned code only. -/
theorem agrees_with_std_json_opts (o : Opts) (ho : PlainOpts o) (fs : Fields) (j : J) (a b : Val)
    (hp : plainTy (.struct fs) = true)
    (hty : tyKeysDistinct (.struct fs) = true)
    (hkp : tyKeysPlain (.struct fs) = true)
    (hd : plainDoc j = true)
    (hc : noCaseCollision j = true)
    (hk : keysExact (.struct fs) j = true)
    (hf : o.f32Pinned = true → f32Stable (.struct fs) j = true)
    (hu : unmarshalWith o fs j = .ok a) (hs : stdDecode fs j = .ok b) :
    a.normNil = b.normNil := by
  rw [unmarshalWith_eq] at hu
  have hs' : stdVal (.struct fs) j = .ok b := by
    cases j with
    | obj m => exact hs
    | null => simp [plainDoc] at hd
    | _ => simp [stdDecode] at hs
  exact agreeTy o ho (.struct fs) hp hty hkp [] j ⟨hd, hc, hk, hf⟩ a b hu hs'

/-- **Agreement with encoding/json.**  On a plain struct type (name tags only: no tag options, no embedding, every
struct required) without repeated keys and without `.` in a key, and a document without null, without keys equal up
to case in one object, whose keys spell the field names exactly:
if `mapping.UnmarshalJsonBytes` and `encoding/json.Unmarshal` both accept, they produce the same value, up to
nil-vs-empty maps. -/
theorem agrees_with_std_json (fs : Fields) (j : J) (a b : Val)
    (hp : plainTy (.struct fs) = true)
    (hty : tyKeysDistinct (.struct fs) = true)
    (hkp : tyKeysPlain (.struct fs) = true)
    (hd : plainDoc j = true)
    (hc : noCaseCollision j = true)
    (hk : keysExact (.struct fs) j = true)
    (hu : unmarshalJson fs j = .ok a) (hs : stdDecode fs j = .ok b) :
    a.normNil = b.normNil := by
  rw [unmarshalJson_eq] at hu
  exact agrees_with_std_json_opts {} PlainOpts.default fs j a b hp hty hkp hd hc hk (fun h => by cases h) hu hs

/-- the same for the code before fixes/C17-float32-single-rounding.patch: additionally every float32 struct field
must survive the double rounding. -/
theorem agrees_with_std_json_pinned (fs : Fields) (j : J) (a b : Val)
    (hp : plainTy (.struct fs) = true)
    (hty : tyKeysDistinct (.struct fs) = true)
    (hkp : tyKeysPlain (.struct fs) = true)
    (hd : plainDoc j = true)
    (hc : noCaseCollision j = true)
    (hk : keysExact (.struct fs) j = true)
    (hf : f32Stable (.struct fs) j = true)
    (hu : unmarshalWith { f32Pinned := true } fs j = .ok a) (hs : stdDecode fs j = .ok b) :
    a.normNil = b.normNil :=
  agrees_with_std_json_opts { f32Pinned := true } PlainOpts.pinned fs j a b hp hty hkp hd hc hk (fun _ => hf) hu hs


/-! ### the well-formedness hypothesis follows from `buildFieldsInfo` reporting no conflict -/

theorem infoFields_keys_plain : ∀ (fs : Fields), plainFields fs = true → (infoFields fs).keys = fs.keys.map lower
  | .nil, _ => rfl
  | .cons f t rest, hp => by
    simp only [plainFields, Bool.and_eq_true, Bool.not_eq_true'] at hp
    have he : f.embedded = false := hp.1.1.1.2
    rw [infoFields.eq_def]
    simp only [he, Bool.false_eq_true, if_false, IM.keys, Fields.keys, List.map_cons,
      infoFields_keys_plain rest hp.2]

mutual
theorem tyKeysDistinct_of_noInfoConflict : ∀ (t : Ty), plainTy t = true → infoConflict t = false →
    tyKeysDistinct t = true
  | .prim _, _, _ => rfl
  | .ptr t, hp, hc => by
    simp only [plainTy] at hp; simp only [infoConflict] at hc
    simp only [tyKeysDistinct, tyKeysDistinct_of_noInfoConflict t hp hc]
  | .slice t, hp, hc => by
    simp only [plainTy] at hp; simp only [infoConflict] at hc
    simp only [tyKeysDistinct, tyKeysDistinct_of_noInfoConflict t hp hc]
  | .map t, hp, hc => by
    simp only [plainTy] at hp; simp only [infoConflict] at hc
    simp only [tyKeysDistinct, tyKeysDistinct_of_noInfoConflict t hp hc]
  | .struct fs, hp, hc => by
    simp only [plainTy, Bool.and_eq_true] at hp
    simp only [infoConflict, Bool.or_eq_false_iff] at hc
    have h1 : hasDup fs.keys = false := by
      have := hc.1
      rw [infoFields_keys_plain fs hp.1] at this
      exact hasDup_map_false lower _ this
    simp only [tyKeysDistinct, h1, fieldsKeysDistinct_of_noInfoConflict fs hp.1 hc.2, Bool.not_false, Bool.and_self]
theorem fieldsKeysDistinct_of_noInfoConflict : ∀ (fs : Fields), plainFields fs = true → fieldsConflict fs = false →
    fieldsKeysDistinct fs = true
  | .nil, _, _ => rfl
  | .cons f t rest, hp, hc => by
    simp only [plainFields, Bool.and_eq_true] at hp
    simp only [fieldsConflict, Bool.or_eq_false_iff] at hc
    simp only [fieldsKeysDistinct, tyKeysDistinct_of_noInfoConflict t hp.1.2 hc.1,
      fieldsKeysDistinct_of_noInfoConflict rest hp.2 hc.2, Bool.and_self]
end

/-- the same theorem under the precondition of `conf.Load*` (`buildFieldsInfo` finds no key conflict, which is
stronger than `tyKeysDistinct`: no two keys of one struct equal up to case). -/
theorem agrees_with_std_json_noConflict (fs : Fields) (j : J) (a b : Val)
    (hp : plainTy (.struct fs) = true) (hty : infoConflict (.struct fs) = false)
    (hkp : tyKeysPlain (.struct fs) = true)
    (hd : plainDoc j = true) (hc : noCaseCollision j = true) (hk : keysExact (.struct fs) j = true)
    (hu : unmarshalJson fs j = .ok a) (hs : stdDecode fs j = .ok b) : a.normNil = b.normNil :=
  agrees_with_std_json fs j a b hp (tyKeysDistinct_of_noInfoConflict _ hp hty) hkp hd hc hk hu hs

/-! ### the new hypotheses are necessary -/

/-- a plain field `Name T `json:"key"``. -/
def fld (name key : String) : FMeta := { name := name.toList, key := key.toList, optional := false, embedded := false }

/-- `struct { A []string `json:"x"`; B []int64 `json:"x"` }` -/
def dupTy : Fields :=
  .cons (fld "A" "x") (.slice (.prim .string)) (.cons (fld "B" "x") (.slice (.prim (.int 64))) .nil)
/-- `{"x":["1"]}` -/
def dupDoc : J := .obj (.cons "x".toList (.arr (.cons (.str "1".toList) .nil)) .nil)

/-- `tyKeysDistinct` is necessary: with a repeated key go-zero fills every field from the entry (converting the
string `"1"` for the `[]int64`), the model of encoding/json decodes the entry once, at the type of the first field.
Every other hypothesis of `agrees_with_std_json` holds. -/
theorem std_differs_repeated_field_key :
    plainTy (.struct dupTy) = true ∧ tyKeysDistinct (.struct dupTy) = false ∧ tyKeysPlain (.struct dupTy) = true ∧
    plainDoc dupDoc = true ∧ noCaseCollision dupDoc = true ∧ keysExact (.struct dupTy) dupDoc = true ∧
    unmarshalJson dupTy dupDoc = .ok (.struct (.cons "A".toList (.slice (.cons (.str "1".toList) .nil))
      (.cons "B".toList (.slice (.cons (.int 1) .nil)) .nil))) ∧
    stdDecode dupTy dupDoc = .ok (.struct (.cons "A".toList (.slice (.cons (.str "1".toList) .nil))
      (.cons "B".toList (.slice (.cons (.str "1".toList) .nil)) .nil))) := by
  refine ⟨by decide, by decide, by decide, by decide, by decide, ?_, ?_, by decide⟩
  · simp [keysExact, keysExactStruct, keysExactList, dupTy, dupDoc, fld, Fields.keys, Fields.find?, FMeta.tagKey]
  · have h1 : convFromString (.int 64) ['1'] = .ok (.int 1) := by decide
    have h2 : convFromString .string ['1'] = .ok (.str ['1']) := by decide
    have ho := PlainOpts.default
    simp [h1, h2, ho, unmarshalJson_eq, unmarshalWith_eq, withValue_struct_obj, unmarshalStruct_plain_cons,
      unmarshalStruct_plain_nil, gzField, withValue_slice_arr, fillSlice_cons, sliceElems_cons, sliceElems_nil,
      gzSliceElem, sliceElemPrim_str, dupTy, dupDoc, fld, keyPlain, FMeta.hasExt, JM.get?, FMeta.tagKey, Except.map,
      bind, Except.bind, pure, Except.pure]

/-- `tyKeysPlain` is necessary: go-zero reads the key `a.b` as a path, encoding/json literally.
Every other hypothesis of `agrees_with_std_json` holds. -/
theorem std_differs_dotted_key :
    plainTy (.struct dotTy) = true ∧ tyKeysDistinct (.struct dotTy) = true ∧ tyKeysPlain (.struct dotTy) = false ∧
    plainDoc dotDoc = true ∧ noCaseCollision dotDoc = true ∧ keysExact (.struct dotTy) dotDoc = true ∧
    unmarshalJson dotTy dotDoc = .ok (.struct (.cons "M".toList (.map .nil) .nil)) ∧
    stdDecode dotTy dotDoc = .ok (.struct (.cons "M".toList (.map (.cons "x".toList (.int 1) .nil)) .nil)) := by
  refine ⟨by decide, by decide, by decide, by decide, by decide, ?_, unmarshalJson_dotDoc, by decide⟩
  simp [keysExact, keysExactStruct, keysExactMapVals, dotTy, dotDoc, Fields.keys, Fields.find?, FMeta.tagKey]

/-- `struct { F float32 `json:"f"` }` -/
def f32Ty : Fields := .cons (fld "F" "f") (.prim (.float 32)) .nil
/-- `{"f":16777217.0000000005}` -/
def f32Doc : J := .obj (.cons "f".toList (.num "16777217.0000000005".toList) .nil)

/-- for the pinned code `f32Stable` is necessary (`float32_double_rounding` at the level of the theorem): every other
hypothesis holds, the pinned go-zero yields 16777216, encoding/json (and the fixed go-zero) 16777218. -/
theorem std_differs_float32_field_pinned :
    plainTy (.struct f32Ty) = true ∧ tyKeysDistinct (.struct f32Ty) = true ∧ tyKeysPlain (.struct f32Ty) = true ∧
    plainDoc f32Doc = true ∧ noCaseCollision f32Doc = true ∧ keysExact (.struct f32Ty) f32Doc = true ∧
    f32Stable (.struct f32Ty) f32Doc = false ∧
    unmarshalWith { f32Pinned := true } f32Ty f32Doc = .ok (.struct (.cons "F".toList (.flt 16777216 1) .nil)) ∧
    unmarshalJson f32Ty f32Doc = .ok (.struct (.cons "F".toList (.flt 16777218 1) .nil)) ∧
    stdDecode f32Ty f32Doc = .ok (.struct (.cons "F".toList (.flt 16777218 1) .nil)) := by
  have h1 : parseFloat 32 true
      ['1', '6', '7', '7', '7', '2', '1', '7', '.', '0', '0', '0', '0', '0', '0', '0', '0', '0', '5']
      = .ok (.flt 16777216 1) := by decide
  have h2 : parseFloat 32 false
      ['1', '6', '7', '7', '7', '2', '1', '7', '.', '0', '0', '0', '0', '0', '0', '0', '0', '0', '5']
      = .ok (.flt 16777218 1) := by decide
  refine ⟨by decide, by decide, by decide, by decide, by decide, ?_, by decide, ?_, ?_, by decide⟩
  · simp [keysExact, keysExactStruct, f32Ty, f32Doc, fld, Fields.keys, Fields.find?, FMeta.tagKey]
  · have ho := PlainOpts.pinned
    simp [h1, ho, unmarshalWith_eq, withValue_struct_obj, unmarshalStruct_plain_cons, unmarshalStruct_plain_nil,
      gzField, withValue_prim, fillPrim_num_float, f32Ty, f32Doc, fld, keyPlain, FMeta.hasExt, JM.get?, FMeta.tagKey,
      Except.map, bind, Except.bind, pure, Except.pure]
  · have ho := PlainOpts.default
    simp [h2, ho, unmarshalJson_eq, unmarshalWith_eq, withValue_struct_obj, unmarshalStruct_plain_cons,
      unmarshalStruct_plain_nil, gzField, withValue_prim, fillPrim_num_float, f32Ty, f32Doc, fld, keyPlain,
      FMeta.hasExt, JM.get?, FMeta.tagKey, Except.map, bind, Except.bind, pure, Except.pure]

/-- the slice element of float32 kind is *not* constrained: both decoders call `strconv.ParseFloat(lit, 32)`. -/
example : f32Stable (.struct (.cons (fld "F" "f") (.slice (.prim (.float 32))) .nil))
    (.obj (.cons "f".toList (.arr (.cons (.num "16777217.0000000005".toList) .nil)) .nil)) = true := by decide

/-! ### non-vacuity: struct + slice + map, nested -/

def nvInner : Fields :=
  .cons (fld "ID" "id") (.prim (.int 64)) (.cons (fld "Tags" "tags") (.map (.slice (.prim (.int 32)))) .nil)
def nvElem : Fields :=
  .cons (fld "F" "f") (.prim (.float 32)) (.cons (fld "P" "p") (.ptr (.prim (.int 8))) .nil)
/-- ```
struct {
  Name  string                                `json:"name"`
  Items []struct{ ID int64 `json:"id"`; Tags map[string][]int32 `json:"tags"` } `json:"items"`
  M     map[string]struct{ F float32 `json:"f"`; P *int8 `json:"p"` }            `json:"m"`
  Extra map[string]string                     `json:"extra"`
}``` -/
def nvTy : Fields :=
  .cons (fld "Name" "name") (.prim .string)
  (.cons (fld "Items" "items") (.slice (.struct nvInner))
  (.cons (fld "M" "m") (.map (.struct nvElem))
  (.cons (fld "Extra" "extra") (.map (.prim .string)) .nil)))
/-- `{"name":"x","items":[{"id":1,"tags":{"a":[1,2]}}],"m":{"k":{"f":1.5,"p":-3}},"unknown":true}` -/
def nvDoc : J :=
  .obj (.cons "name".toList (.str "x".toList)
       (.cons "items".toList (.arr (.cons (.obj (.cons "id".toList (.num "1".toList)
            (.cons "tags".toList (.obj (.cons "a".toList
              (.arr (.cons (.num "1".toList) (.cons (.num "2".toList) .nil))) .nil)) .nil))) .nil))
       (.cons "m".toList (.obj (.cons "k".toList (.obj (.cons "f".toList (.num "1.5".toList)
            (.cons "p".toList (.num "-3".toList) .nil))) .nil))
       (.cons "unknown".toList (.bool true) .nil))))
/-- the decoded value, up to the absent map field `Extra`. -/
def nvVal (extra : Val) : Val :=
  .struct (.cons "Name".toList (.str "x".toList)
    (.cons "Items".toList (.slice (.cons (.struct (.cons "ID".toList (.int 1)
        (.cons "Tags".toList (.map (.cons "a".toList (.slice (.cons (.int 1) (.cons (.int 2) .nil))) .nil)) .nil)))
        .nil))
    (.cons "M".toList (.map (.cons "k".toList (.struct (.cons "F".toList (.flt 3 2)
        (.cons "P".toList (.ptr (.int (-3))) .nil))) .nil))
    (.cons "Extra".toList extra .nil))))

/-- every hypothesis of `agrees_with_std_json` (and of its pinned form) holds for (`nvTy`, `nvDoc`) and both decoders
accept. -/
theorem agrees_with_std_json_nonvacuous :
    plainTy (.struct nvTy) = true ∧ tyKeysDistinct (.struct nvTy) = true ∧ infoConflict (.struct nvTy) = false ∧
    tyKeysPlain (.struct nvTy) = true ∧
    plainDoc nvDoc = true ∧ noCaseCollision nvDoc = true ∧ keysExact (.struct nvTy) nvDoc = true ∧
    f32Stable (.struct nvTy) nvDoc = true ∧
    unmarshalJson nvTy nvDoc = .ok (nvVal (.map .nil)) ∧ stdDecode nvTy nvDoc = .ok (nvVal .nilMap) := by
  refine ⟨by decide, by decide, by decide, by decide, by decide, by decide, ?_, by decide, ?_, by decide⟩
  · simp [keysExact, keysExactStruct, keysExactList, keysExactMapVals, nvTy, nvDoc, nvInner, nvElem, fld, Fields.keys,
      Fields.find?, FMeta.tagKey, lower, lowerC]
  · have h1 : convFromString (.int 64) ['1'] = .ok (.int 1) := by decide
    have h2 : convFromString (.int 32) ['1'] = .ok (.int 1) := by decide
    have h3 : convFromString (.int 32) ['2'] = .ok (.int 2) := by decide
    have h4 : convFromString (.int 8) ['-', '3'] = .ok (.int (-3)) := by decide
    have h5 : parseFloat 32 false ['1', '.', '5'] = .ok (.flt 3 2) := by decide
    have ho := PlainOpts.default
    simp [h1, h2, h3, h4, h5, ho, unmarshalJson_eq, unmarshalWith_eq, withValue_struct_obj,
      unmarshalStruct_plain_cons, unmarshalStruct_plain_nil, gzField, withValue_prim, withValue_ptr_prim,
      withValue_slice_arr, withValue_map_obj, withoutValue_map, fillSlice_cons, sliceElems_cons, sliceElems_nil,
      genMap_cons, genMap_nil, gzSliceElem, gzMapElem, fillPrim_num_int, fillPrim_num_float, fillPrim_str,
      sliceElemPrim_num, nvTy, nvDoc, nvInner, nvElem, nvVal, fld, keyPlain, FMeta.hasExt, JM.get?, FMeta.tagKey,
      Except.map, bind, Except.bind, pure, Except.pure]

/-- the theorem applied to the example: the two results differ (nil vs empty `Extra`) and agree after `normNil`. -/
example : nvVal (.map .nil) ≠ nvVal .nilMap ∧ (nvVal (.map .nil)).normNil = (nvVal .nilMap).normNil := by
  obtain ⟨hp, hty, _, hkp, hd, hc, hk, _, hu, hs⟩ := agrees_with_std_json_nonvacuous
  exact ⟨by decide, agrees_with_std_json nvTy nvDoc _ _ hp hty hkp hd hc hk hu hs⟩

end GoZero.C17
