/-
C17 — who owns the bytes between a front end and its consumer, and what a delegating entry point forwards.

Part 1 (buffers).  `internal/encoding.encodeToJSON` is the last step of `YamlToJson` / `TomlToJson`; its result is handed
to `conf.LoadFromJsonBytes` / `mapping.UnmarshalJsonBytes`, which parse it LATER (and, with several goroutines, while
other conversions run).  `Model.lean` treats a load as a pure function of the document; that is only right when the bytes
a conversion returned are still the same bytes when they are read.  This file models the heap of buffers, conversions and
reads as events of ANY schedule (sequential sequences and interleavings of concurrent loads alike), for the code that
exists (`encodeSite = .freshLocal`: `var buf bytes.Buffer` inside the call) and for a pooled buffer (seeded C17-8).

Part 2 (forwarding).  The small entry points (`mapping.UnmarshalYamlBytes(content, v, opts...)` …) only pass arguments on.
`FCall` / `runFwd` give the data flow of such a function a meaning for ALL arguments and ALL callee behaviours; the
extractor emits the same structure from the source and `Tie.lean` proves the two equal.

Core Lean only.
-/
namespace GoZero.C17

/-! ### Part 1: buffers -/

abbrev Bytes := List Char

/-- where `encodeToJSON` takes the buffer it renders into. -/
inductive BufSite where
  /-- `var buf bytes.Buffer` inside the call: a new buffer per conversion (the code that exists) -/
  | freshLocal
  /-- a buffer from a package-level pool that is put back (deferred `Put`) before the caller reads the result -/
  | pooled
  deriving DecidableEq, Repr

/-- the site of the code that exists (Tie `tie_encodeBufSite`). -/
def encodeSite : BufSite := .freshLocal

structure BufSt where
  /-- the heap: content of buffer `id` -/
  bufs : List Bytes := []
  /-- the buffer lying in the pool, if any -/
  pool : Option Nat := none
  /-- caller ↦ the buffer whose bytes it was handed by its latest conversion -/
  held : Nat → Option Nat := fun _ => none

inductive BufEv where
  /-- caller `who` runs a conversion that renders `content`, and keeps the returned slice -/
  | conv (who : Nat) (content : Bytes)
  /-- caller `who` reads (parses) the slice it holds -/
  | read (who : Nat)
  deriving DecidableEq, Repr

def updFn {β : Type} (f : Nat → Option β) (k : Nat) (v : β) : Nat → Option β := fun x => if x = k then some v else f x

/-- one event; a `read` also yields what the caller sees. -/
def bufStep (site : BufSite) (s : BufSt) : BufEv → BufSt × Option (Option Bytes)
  | .conv who c =>
    match site, s.pool with
    | .pooled, some id => ({ s with bufs := s.bufs.set id c, held := updFn s.held who id }, none)
    | .pooled, none => ({ bufs := s.bufs ++ [c], pool := some s.bufs.length, held := updFn s.held who s.bufs.length }, none)
    | .freshLocal, _ => ({ s with bufs := s.bufs ++ [c], held := updFn s.held who s.bufs.length }, none)
  | .read who => (s, some ((s.held who).bind (fun id => s.bufs[id]?)))

/-- what the reads of a schedule see, in order. -/
def bufRun (site : BufSite) (s : BufSt) : List BufEv → List (Option Bytes)
  | [] => []
  | e :: es =>
    match (bufStep site s e).2 with
    | some o => o :: bufRun site (bufStep site s e).1 es
    | none => bufRun site (bufStep site s e).1 es

/-- what the property demands: a read sees the bytes of the caller's OWN latest conversion, whatever else ran. -/
def specRun (m : Nat → Option Bytes) : List BufEv → List (Option Bytes)
  | [] => []
  | .conv who c :: es => specRun (updFn m who c) es
  | .read who :: es => m who :: specRun m es

/-- a load in two steps (convert, then parse what is read) under a schedule: the decoded results, in the order of the reads. -/
def loadsUnder {β : Type} (site : BufSite) (decode : Bytes → β) (evs : List BufEv) : List (Option β) :=
  (bufRun site {} evs).map (Option.map decode)

/-- the typed flow record the extractor emits for the function that returns the bytes (`c17ByteFlow`): the site it means. -/
def siteOfFlow (fl : List (String × String)) : Option BufSite :=
  if fl.lookup "decl" = some "var" ∧ fl.lookup "defers" = some "0" ∧ fl.lookup "root-scope" = some "local" then some .freshLocal
  else if fl.lookup "init-root-scope" = some "package" ∨ fl.lookup "root-scope" = some "package" then some .pooled
  else none

/-- the same record for `conf.buildStructFieldsInfo`: the `*fieldInfo` it returns is built by THIS call (a composite literal
assigned to a local, the only thing ever returned) - `addOrMergeFields` / `mergeFields` then write into objects of the same
call only, and the info is a pure function of the type (`loadTreeM`).  A cached object returned early (seeded C17-10) or
package-level state gives `false`. -/
def infoFreshOfFlow (fl : List (String × String)) : Bool :=
  fl.lookup "decl" = some "assign" && fl.lookup "root-scope" = some "local" && fl.lookup "init-root-scope" = some "fresh" &&
    fl.lookup "other-returns" = some "0" && fl.lookup "defers" = some "0"

/-! ### Part 2: what a delegating entry point forwards -/

/-- one argument of a call inside a delegating function -/
inductive FArg where
  /-- the caller's own fixed parameter number `i` -/
  | param (i : Nat)
  /-- the caller's variadic parameter passed on with `...` -/
  | spread (i : Nat)
  /-- the (first) result of the function's call number `k` -/
  | result (k : Nat)
  /-- anything else (a literal, a composite expression): the argument carries none of the caller's data -/
  | other
  deriving DecidableEq, Repr

structure FCall where
  callee : String
  args : List FArg
  deriving DecidableEq, Repr

/-- the arguments a call receives: fixed parameters by position, the variadic parameter spread, earlier results. -/
def evalArgs {α : Type} (params variadic : List α) (results : List α) (dflt : α) : List FArg → List α
  | [] => []
  | .param i :: r => (params[i]?).getD dflt :: evalArgs params variadic results dflt r
  | .spread _ :: r => variadic ++ evalArgs params variadic results dflt r
  | .result k :: r => (results[k]?).getD dflt :: evalArgs params variadic results dflt r
  | .other :: r => dflt :: evalArgs params variadic results dflt r

/-- run the calls in order (`sem callee args` = the callee's result); the value of the LAST call is what the function returns
on its success path. -/
def runFwdAux {α : Type} (sem : String → List α → α) (params variadic : List α) (dflt : α) : List α → List FCall → List α
  | results, [] => results
  | results, c :: cs => runFwdAux sem params variadic dflt (results ++ [sem c.callee (evalArgs params variadic results dflt c.args)]) cs

def runFwd {α : Type} (sem : String → List α → α) (params variadic : List α) (dflt : α) (calls : List FCall) : α :=
  ((runFwdAux sem params variadic dflt [] calls).getLast?).getD dflt

/-- decoding of the extractor's encoding `(callee, [(kind, index)])`. -/
def fargOf : String × Nat → FArg
  | ("param", i) => .param i
  | ("spread", i) => .spread i
  | ("result", k) => .result k
  | _ => .other

def fcallsOf (l : List (String × List (String × Nat))) : List FCall := l.map fun c => { callee := c.1, args := c.2.map fargOf }

/-- the flows the model was written against (the six mapping entry points and conf's two converting loaders). -/
def fwdYamlBytes : List FCall := [⟨"encoding.YamlToJson", [.param 0]⟩, ⟨"UnmarshalJsonBytes", [.result 0, .param 1, .spread 2]⟩]
def fwdTomlBytes : List FCall := [⟨"encoding.TomlToJson", [.param 0]⟩, ⟨"UnmarshalJsonBytes", [.result 0, .param 1, .spread 2]⟩]
def fwdYamlReader : List FCall := [⟨"io.ReadAll", [.param 0]⟩, ⟨"UnmarshalYamlBytes", [.result 0, .param 1, .spread 2]⟩]
def fwdTomlReader : List FCall := [⟨"io.ReadAll", [.param 0]⟩, ⟨"UnmarshalTomlBytes", [.result 0, .param 1, .spread 2]⟩]
def fwdConfYaml : List FCall := [⟨"encoding.YamlToJson", [.param 0]⟩, ⟨"LoadFromJsonBytes", [.result 0, .param 1]⟩]
def fwdConfToml : List FCall := [⟨"encoding.TomlToJson", [.param 0]⟩, ⟨"LoadFromJsonBytes", [.result 0, .param 1]⟩]

end GoZero.C17
