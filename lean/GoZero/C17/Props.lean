/-
C17 — property theorems (statements, short proofs from the lemmas in Proofs*.lean, non-vacuity examples).

Reading guide.  `loadJson / loadYaml / loadToml` model `conf.LoadFromJsonBytes / LoadFromYamlBytes / LoadFromTomlBytes`
on the value the respective third-party decoder produced (`J`, `Y`, `T`); `embY d` / `embT d` are what yaml.v2 / go-toml
produce for the rendering of document `d` (tested by the correspondence run, trusted); `unmarshalJson` models
`mapping.UnmarshalJsonBytes`, `stdDecode` models `encoding/json.Unmarshal` (validated by the correspondence run).
Go maps are modelled as association lists: faithful for documents without keys that collide up to case
(`noCaseCollision`, checked by the monitor on every generated document).
-/
import GoZero.C17.ProofsStd
import GoZero.C17.Buf
namespace GoZero.C17

/-! ### format independence -/

/-- **The three loaders differ only in the front end that produces the generic tree.** -/
theorem load_is_function_of_tree (fs : Fields) (y : Y) (t : T) :
    loadYaml fs y = loadJson fs (yamlGlue y) ∧ loadToml fs t = loadJson fs (tomlGlue t) := ⟨rfl, rfl⟩

/-- … also with a process environment (fields tagged `,env=`): `o` is `confOpts` plus the environment. -/
theorem load_is_function_of_tree_env (o : Opts) (fs : Fields) (y : Y) (t : T) :
    loadYamlO o fs y = loadJsonO o fs (yamlGlue y) ∧ loadTomlO o fs t = loadJsonO o fs (tomlGlue t) := ⟨rfl, rfl⟩

/-- **Generic-tree normal form.**  For every document without null (representable in all three formats) the
YAML glue (`toStringKeyMap`: `map[any]any` keys through `lang.Repr`, numbers to `json.Number`) and the TOML glue
(`encodeToJSON` + `UseNumber`) give back exactly the document's tree. -/
theorem front_ends_normal_form (d : J) (t : T) (hd : plainDoc d = true) (ht : embT d = some t) :
    yamlGlue (embY d) = d ∧ tomlGlue t = d :=
  ⟨yaml_normal_form d hd, toml_normal_form d t hd ht⟩

/-- **Format independence**: the same document loaded through the JSON, YAML and TOML loaders into the same type
gives the same verdict and, on success, the same value — for every type of the family and every document without null. -/
theorem formats_agree (fs : Fields) (d : J) (t : T) (hd : plainDoc d = true) (ht : embT d = some t) :
    loadYaml fs (embY d) = loadJson fs d ∧ loadToml fs t = loadJson fs d := by
  unfold loadYaml loadToml loadJson
  rw [yaml_normal_form d hd, toml_normal_form d t hd ht]
  exact ⟨rfl, rfl⟩

/-- format independence for every option set / environment of the conf loaders (tag options `default=`, `options=`,
`range=`, `env=`, `,string`, `,inherit`, dotted keys included: they act after the generic tree). -/
theorem formats_agree_env (o : Opts) (fs : Fields) (d : J) (t : T) (hd : plainDoc d = true) (ht : embT d = some t) :
    loadYamlO o fs (embY d) = loadJsonO o fs d ∧ loadTomlO o fs t = loadJsonO o fs d := by
  unfold loadYamlO loadTomlO loadJsonO
  rw [yaml_normal_form d hd, toml_normal_form d t hd ht]
  exact ⟨rfl, rfl⟩

/-- **Format independence of the mapping-level entry points** `mapping.Unmarshal{Json,Yaml,Toml}{Bytes,Reader}`:
for EVERY option set (`WithCanonicalKeyFunc`, `WithStringValues`, `WithFromArray`, `WithOpaqueKeys`), every type of the
family and every document without null, the YAML and TOML entry points give exactly what the JSON entry point gives
with the same options (the options are forwarded: Tie `tie_mYamlBytes`, `tie_mTomlBytes`, …). -/
theorem mapping_formats_agree (o : Opts) (fs : Fields) (d : J) (t : T) (hd : plainDoc d = true) (ht : embT d = some t) :
    unmarshalYaml o fs (embY d) = unmarshalWith o fs d ∧ unmarshalToml o fs t = unmarshalWith o fs d := by
  unfold unmarshalYaml unmarshalToml
  rw [yaml_normal_form d hd, toml_normal_form d t hd ht]
  exact ⟨rfl, rfl⟩

/-- the documents sorted for the deterministic walk (`loadJsonDet`, keys colliding up to case) agree as well. -/
theorem formats_agree_det (o : Opts) (fs : Fields) (d : J) (t : T) (hd : plainDoc d = true) (ht : embT d = some t) :
    loadYamlDet o fs (embY d) = loadJsonDet o fs d ∧ loadTomlDet o fs t = loadJsonDet o fs d := by
  unfold loadYamlDet loadTomlDet loadJsonDet
  rw [yaml_normal_form d hd, toml_normal_form d t hd ht]
  exact ⟨rfl, rfl⟩

/-- YAML's null is *not* format independent: the glue turns it into the empty string (why null is outside "representable
in all three formats"). -/
theorem yaml_null_becomes_empty_string : yamlGlue (embY .null) = .str [] := rfl

/-! ### keys are matched case-insensitively -/

/-- **Key case-insensitivity**: for every type of the family (nested structs, embedded structs, pointers, slices, maps
of maps, maps in slices …) and every re-casing of the document's struct-field keys (`recasedTy`: map keys are data and
stay), `conf.LoadFromJsonBytes` gives the same verdict and value.  Holds for the code with
fixes/C17-map-keys-are-data.patch; for the pinned code see `pinned_info_not_case_insensitive`. -/
theorem key_case_insensitive_env (o : Opts) (fs : Fields) (j j' : J) (h : recasedTy (.struct fs) j j' = true) :
    loadJsonO o fs j = loadJsonO o fs j' := by
  have hl := lower_recased (.struct fs) j j' h
  cases j with
  | obj m =>
    cases j' with
    | obj m' =>
      simp only [infoOf, lowerVal, J.obj.injEq] at hl
      simp only [loadJsonO, loadTreeO, loadTreeWithO, infoOf, hl]
    | null => simp [recasedTy] at h
    | bool _ => simp [recasedTy] at h
    | num _ => simp [recasedTy] at h
    | str _ => simp [recasedTy] at h
    | nilArr => simp [recasedTy] at h
    | arr _ => simp [recasedTy] at h
  | null => have e : J.null = j' := by simpa [recasedTy] using h
            rw [← e]
  | bool x => have e : J.bool x = j' := by simpa [recasedTy] using h
              rw [← e]
  | num x => have e : J.num x = j' := by simpa [recasedTy] using h
             rw [← e]
  | str x => have e : J.str x = j' := by simpa [recasedTy] using h
             rw [← e]
  | nilArr => have e : J.nilArr = j' := by simpa [recasedTy] using h
              rw [← e]
  | arr x => have e : J.arr x = j' := by simpa [recasedTy] using h
             rw [← e]

theorem key_case_insensitive (fs : Fields) (j j' : J) (h : recasedTy (.struct fs) j j' = true) :
    loadJson fs j = loadJson fs j' := key_case_insensitive_env confOpts fs j j' h

/-- … and therefore through all three front ends. -/
theorem key_case_insensitive_all_formats (fs : Fields) (d d' : J) (t t' : T)
    (h : recasedTy (.struct fs) d d' = true)
    (hd : plainDoc d = true) (hd' : plainDoc d' = true) (ht : embT d = some t) (ht' : embT d' = some t') :
    loadYaml fs (embY d') = loadJson fs d ∧ loadToml fs t' = loadJson fs d ∧ loadJson fs d' = loadJson fs d := by
  have k := key_case_insensitive fs d d' h
  have a := formats_agree fs d' t' hd' ht'
  exact ⟨by rw [a.1, k], by rw [a.2, k], k.symm⟩

def exInner : Fields := .cons { name := "ID".toList, key := "id".toList, optional := false, embedded := false } (.prim (.int 64)) .nil
/-- `struct { Items []map[string]struct{ ID int `json:"id"` } `json:"items"` }` -/
def exTy : Fields := .cons { name := "Items".toList, key := "items".toList, optional := false, embedded := false } (.slice (.map (.struct exInner))) .nil
/-- `{"items":[{"id":{"ID":1}}]}` — the map key `id` spells a field name of the element struct. -/
def exDoc : J := .obj (.cons "items".toList (.arr (.cons (.obj (.cons "id".toList
  (.obj (.cons "ID".toList (.num "1".toList) .nil)) .nil)) .nil)) .nil)
/-- `{"ITEMS":[{"id":{"id":1}}]}` -/
def exDoc' : J := .obj (.cons "ITEMS".toList (.arr (.cons (.obj (.cons "id".toList
  (.obj (.cons "id".toList (.num "1".toList) .nil)) .nil)) .nil)) .nil)

example : recasedTy (.struct exTy) exDoc exDoc' = true := by decide

/-- what `toLowerCaseKeyMap` makes of the two documents, with the fixed and with the pinned `buildFieldsInfo`. -/
def exLowered : J := .obj (.cons "items".toList (.arr (.cons (.obj (.cons "id".toList
  (.obj (.cons "id".toList (.num "1".toList) .nil)) .nil)) .nil)) .nil)

example : lowerVal (infoOf (.struct exTy)) exDoc = exLowered ∧ lowerVal (infoOf (.struct exTy)) exDoc' = exLowered := by
  decide

/-- **Witness of the defect in the pinned code** (`buildFieldsInfo` looked through a map that is an element of a slice
or of a map, so the map key `id` was taken for the field `id` and the entry below it was not lower-cased): the two
documents are re-casings of each other, the second is lowered correctly, the first keeps its key `ID`, which the
unmarshaller (canonical key `id`) then does not find — `conf.LoadFromJsonBytes` accepts one and rejects the other
(replayed on the real code by the harness: MONITOR `class=case`). -/
theorem pinned_info_not_case_insensitive :
    recasedTy (.struct exTy) exDoc exDoc' = true ∧
    lowerVal (infoOfPinned (.struct exTy)) exDoc' = exLowered ∧
    lowerVal (infoOfPinned (.struct exTy)) exDoc = exDoc ∧
    lowerVal (infoOfPinned (.struct exTy)) exDoc ≠ lowerVal (infoOfPinned (.struct exTy)) exDoc' := by decide

/-- the loader on the pinned info: rejected / accepted. -/
theorem pinned_loader_verdicts_differ :
    loadTreeWith (infoOfPinned (.struct exTy)) exTy exDoc = .error .err ∧
    loadTreeWith (infoOfPinned (.struct exTy)) exTy exDoc'
      = .ok (.struct (.cons "Items".toList (.slice (.cons (.map (.cons "id".toList
          (.struct (.cons "ID".toList (.int 1) .nil)) .nil)) .nil)) .nil)) := by
  have h1 : lowerVal (infoOfPinned (.struct exTy)) exDoc = exDoc := by decide
  have h2 : lowerVal (infoOfPinned (.struct exTy)) exDoc' = exLowered := by decide
  have c : infoConflict (.struct exTy) = false := by decide
  simp only [exDoc, exDoc', exLowered, lowerVal, J.obj.injEq] at h1 h2
  constructor
  · simp only [loadTreeWith, loadTreeWithO, c, exDoc, h1]
    simp only [exTy, exInner]; c17_eval
  · simp only [loadTreeWith, loadTreeWithO, c, exDoc', h2]
    simp only [exTy, exInner]; c17_eval

/-! ### keys that collide up to case: the load must still be a function of the document -/

def portTy : Fields := .cons { name := "Port".toList, key := "port".toList, optional := false, embedded := false } (.prim (.int 64)) .nil
/-- `{"port":1,"PORT":"x"}` in the two orders a Go map can be walked in. -/
def portDocA : J := .obj (.cons "port".toList (.num "1".toList) (.cons "PORT".toList (.str "x".toList) .nil))
def portDocB : J := .obj (.cons "PORT".toList (.str "x".toList) (.cons "port".toList (.num "1".toList) .nil))

/-- **Witness of the defect in the pinned code** (`toLowerCaseKeyMap` ranged over the Go map, so the entry written
last under the lower-cased key won): the same document, walked in its two possible orders, is accepted with Port = 1
or rejected — `conf.LoadFromJsonBytes` was not a function of the document (replayed on the real code: MONITOR
`nondeterministic-load class=case-collision`).  With fixes/C17-case-collision-deterministic.patch the keys are walked
in ascending order (`sortDoc`), both orders give the same result. -/
theorem pinned_collision_order_dependent :
    loadJson portTy portDocA = .ok (.struct (.cons "Port".toList (.int 1) .nil)) ∧
    loadJson portTy portDocB = .error .err ∧
    sortDoc portDocA = sortDoc portDocB ∧
    loadJsonDet confOpts portTy portDocA = loadJsonDet confOpts portTy portDocB := by
  have hs : sortDoc portDocA = sortDoc portDocB := by decide
  refine ⟨?_, ?_, hs, ?_⟩
  · have c : infoConflict (.struct portTy) = false := by decide
    have hl : lowerMap (infoOf (.struct portTy)) (.cons "port".toList (.num "1".toList) (.cons "PORT".toList (.str "x".toList) .nil))
        = .cons "port".toList (.num "1".toList) (.cons "port".toList (.str "x".toList) .nil) := by decide
    simp only [loadJson, loadTree, loadTreeO, loadTreeWithO, c, portDocA, hl]
    simp only [portTy]; c17_eval
  · have c : infoConflict (.struct portTy) = false := by decide
    have hl : lowerMap (infoOf (.struct portTy)) (.cons "PORT".toList (.str "x".toList) (.cons "port".toList (.num "1".toList) .nil))
        = .cons "port".toList (.str "x".toList) (.cons "port".toList (.num "1".toList) .nil) := by decide
    simp only [loadJson, loadTree, loadTreeO, loadTreeWithO, c, portDocB, hl]
    simp only [portTy]; c17_eval
  · simp only [loadJsonDet, hs]

/-! ### environment variables are expanded only when requested; the loader depends on the extension up to case -/

theorem env_only_when_requested (expand : Str → Str) (content : Str) :
    loadContent expand false content = content ∧ loadContent expand true content = expand content := ⟨rfl, rfl⟩

/-- the file-level API: `conf.Load` (hence `LoadConfig`, `MustLoad`: Tie `tie_cLoadConfig`, `tie_cMustLoad`) picks the
loader by the lower-cased extension only and hands it the content, expanded iff `UseEnv()`; an unknown extension is an
error whatever the content. -/
def confLoad (expand : Str → Str) (useEnv : Bool) (ext : Str) (run : Fmt → Str → R Val) (content : Str) : R Val :=
  match loaderOf ext with
  | none => .error .err
  | some f => run f (loadContent expand useEnv content)

theorem conf_load_dispatch (expand : Str → Str) (ext : Str) (run : Fmt → Str → R Val) (content : Str) :
    confLoad expand false ext run content = confLoad expand false (lower ext) run content ∧
    confLoad expand true ext run content = confLoad (fun s => s) false ext run (expand content) ∧
    (loaderOf ext = none → ∀ e, confLoad expand e ext run content = .error .err) := by
  refine ⟨?_, ?_, ?_⟩
  · unfold confLoad loaderOf; rw [lower_idem]
  · unfold confLoad loadContent; simp
  · intro h e; unfold confLoad; rw [h]

theorem loader_ignores_extension_case (ext : Str) : loaderOf (lower ext) = loaderOf ext := by
  unfold loaderOf
  rw [lower_idem]

example : loaderOf ".YmL".toList = some .yaml ∧ loaderOf ".JSON".toList = some .json ∧
    loaderOf ".toml".toList = some .toml ∧ loaderOf ".txt".toList = none := by decide

/-! ### agreement with encoding/json

The full statement is proven by mutual induction through structs, slices and maps in ProofsStd.lean
(`agrees_with_std_json`, general form `agrees_with_std_json_opts`); it is restated here.  Every hypothesis is shown
necessary by a witness: `std_differs_missing_map_nil_vs_empty` (normalisation of nil maps), `std_differs_inexact_key`
(`keysExact`), `std_differs_case_collision` (`noCaseCollision`), `std_differs_repeated_field_key` (`tyKeysDistinct`),
`std_differs_dotted_key` (`tyKeysPlain`), `float32_double_rounding` / `std_differs_float32_field_pinned` (the pinned
float32 conversion; gone with fixes/C17-float32-single-rounding.patch). -/

/-- **Agreement with encoding/json**: for every struct type with plain name tags only (`plainTy`: no options, no
embedding; nested structs, slices, maps, pointers, every primitive kind), whose field keys are distinct and contain
no '.', and every document without null in which no two keys of an object collide up to case and every key that
names a field up to case names it exactly: whenever `mapping.UnmarshalJsonBytes` and `encoding/json.Unmarshal` both
accept, the decoded values are equal up to nil-vs-empty maps. -/
theorem agrees_with_encoding_json (fs : Fields) (j : J) (a b : Val)
    (hp : plainTy (.struct fs) = true) (hty : tyKeysDistinct (.struct fs) = true)
    (hkp : tyKeysPlain (.struct fs) = true) (hd : plainDoc j = true)
    (hc : noCaseCollision j = true) (hk : keysExact (.struct fs) j = true)
    (hu : unmarshalJson fs j = .ok a) (hs : stdDecode fs j = .ok b) :
    a.normNil = b.normNil := agrees_with_std_json fs j a b hp hty hkp hd hc hk hu hs

/-- … and therefore for the YAML and TOML entry points of the mapping package against encoding/json on the JSON
rendering of the same document. -/
theorem yaml_toml_agree_with_encoding_json (fs : Fields) (d : J) (t : T) (a b : Val)
    (hp : plainTy (.struct fs) = true) (hty : tyKeysDistinct (.struct fs) = true)
    (hkp : tyKeysPlain (.struct fs) = true) (hd : plainDoc d = true) (ht : embT d = some t)
    (hc : noCaseCollision d = true) (hk : keysExact (.struct fs) d = true)
    (hs : stdDecode fs d = .ok b) :
    (unmarshalYaml {} fs (embY d) = .ok a → a.normNil = b.normNil) ∧
    (unmarshalToml {} fs t = .ok a → a.normNil = b.normNil) := by
  have m := mapping_formats_agree {} fs d t hd ht
  exact ⟨fun h => agrees_with_std_json fs d a b hp hty hkp hd hc hk (by unfold unmarshalJson; rw [← m.1]; exact h) hs,
         fun h => agrees_with_std_json fs d a b hp hty hkp hd hc hk (by unfold unmarshalJson; rw [← m.2]; exact h) hs⟩

/-- WITNESS SIDE (the conversion before 71c4c8c, `two = true`): there the scalar layer agrees for every kind BUT float32
(go-zero rounded to float64 first: `float32_double_rounding`).  The code that exists is the fixed conversion: its scalar
layer is `agrees_with_std_json_scalar_fixed` (every kind, float32 included), its full statement
`agrees_with_encoding_json` / `agrees_with_encoding_json_total`. -/
theorem scalar_agreement_pinned_conversion (two : Bool) (p : Prim) (v : J) (a b : Val) (hp : p ≠ .float 32)
    (hbits : ∀ n, p = .float n → n = 32 ∨ n = 64)
    (hu : fillPrim two p v = .ok a) (hs : stdPrim p v = .ok b) : a = b := by
  cases v with
  | num lit =>
    cases p with
    | float n =>
      have h64 : n = 64 := by
        cases hbits n rfl with
        | inl h => subst h; exact absurd rfl hp
        | inr h => exact h
      subst h64
      simp only [fillPrim, stdPrim, convFromString, parseFloat, if_true] at hu hs
      rw [hu] at hs
      injection hs
    | int n => simp only [fillPrim, stdPrim] at hu hs; rw [hu] at hs; injection hs
    | uint n => simp only [fillPrim, stdPrim] at hu hs; rw [hu] at hs; injection hs
    | bool => simp [fillPrim] at hu
    | string => simp [fillPrim] at hu
  | bool x => simp only [fillPrim, stdPrim] at hu hs; rw [hu] at hs; injection hs
  | str x => simp only [fillPrim, stdPrim] at hu hs; rw [hu] at hs; injection hs
  | null => simp [fillPrim] at hu
  | nilArr => simp [fillPrim] at hu
  | arr l => simp [fillPrim] at hu
  | obj m => simp [fillPrim] at hu

example : fillPrim false (.int 8) (.num "127".toList) = .ok (.int 127) ∧ stdPrim (.int 8) (.num "127".toList) = .ok (.int 127)
    ∧ fillPrim false (.int 8) (.num "128".toList) = .error .err := by decide

def mapTy : Fields := .cons { name := "M".toList, key := "m".toList, optional := false, embedded := false } (.map (.prim (.int 64))) .nil

/-- both accept `{}` for `struct{ M map[string]int `json:"m"` }`; go-zero yields an empty map, encoding/json a nil map
(equal only up to nil-vs-empty). -/
theorem std_differs_missing_map_nil_vs_empty :
    unmarshalJson mapTy (.obj .nil) = .ok (.struct (.cons "M".toList (.map .nil) .nil)) ∧
    stdDecode mapTy (.obj .nil) = .ok (.struct (.cons "M".toList .nilMap .nil)) := by
  refine ⟨?_, by decide⟩
  simp only [mapTy]; c17_eval

/-- `keysExact` is necessary: `{"M":{"a":1}}` — encoding/json folds the key onto field `m`, go-zero does not see it. -/
theorem std_differs_inexact_key :
    unmarshalJson mapTy (.obj (.cons "M".toList (.obj (.cons "a".toList (.num "1".toList) .nil)) .nil))
      = .ok (.struct (.cons "M".toList (.map .nil) .nil)) ∧
    stdDecode mapTy (.obj (.cons "M".toList (.obj (.cons "a".toList (.num "1".toList) .nil)) .nil))
      = .ok (.struct (.cons "M".toList (.map (.cons "a".toList (.int 1) .nil)) .nil)) := by
  refine ⟨?_, by decide⟩
  simp only [mapTy]; c17_eval

def nameTy : Fields := .cons { name := "Name".toList, key := "name".toList, optional := false, embedded := false } (.prim .string) .nil

/-- `noCaseCollision` is necessary: `{"name":"a","NAME":"b"}` — encoding/json lets the later key win. -/
theorem std_differs_case_collision :
    unmarshalJson nameTy (.obj (.cons "name".toList (.str "a".toList) (.cons "NAME".toList (.str "b".toList) .nil)))
      = .ok (.struct (.cons "Name".toList (.str "a".toList) .nil)) ∧
    stdDecode nameTy (.obj (.cons "name".toList (.str "a".toList) (.cons "NAME".toList (.str "b".toList) .nil)))
      = .ok (.struct (.cons "Name".toList (.str "b".toList) .nil)) := by
  refine ⟨?_, by decide⟩
  simp only [nameTy]; c17_eval

/-- float32: go-zero converts the literal to float64 and then to float32 (two roundings), `strconv.ParseFloat(s, 32)`
rounds once: `16777217.0000000005` gives 16777216 resp. 16777218. -/
theorem float32_double_rounding :
    fillPrim true (.float 32) (.num "16777217.0000000005".toList) = .ok (.flt 16777216 1) ∧
    stdPrim (.float 32) (.num "16777217.0000000005".toList) = .ok (.flt 16777218 1) ∧
    fillPrim false (.float 32) (.num "16777217.0000000005".toList) = .ok (.flt 16777218 1) := by decide


/-! ### round 4 — fresh cells per entry (no aliasing), options fresh per call, end-to-end composition -/

theorem entryCells_perEntry_addrs (next : Nat) (ks : List Str) :
    (entryCells .perEntry next ks).map (·.2) = List.range' next ks.length := by
  induction ks generalizing next with
  | nil => rfl
  | cons k ks ih => simp [entryCells, ih, List.range'_succ]

/-- **No two distinct entries of a decoded map / slice alias the same cell**: with the allocation discipline of the
code that exists (`genMapSite = fillSliceSite = .perEntry`, tied by `tie_genMapAlloc`, `tie_mFillSlice`,
`tie_mFillSliceValue`, `tie_mFillStructElement`) the cells handed to the entries of one container are pairwise
distinct, for every container and every allocator state. -/
theorem fresh_cells_no_alias (next : Nat) (ks : List Str) :
    ((entryCells genMapSite next ks).map (·.2)).Nodup ∧ ((entryCells fillSliceSite next ks).map (·.2)).Nodup := by
  simp only [genMapSite, fillSliceSite, entryCells_perEntry_addrs]
  exact ⟨List.nodup_range', List.nodup_range'⟩

example : (entryCells genMapSite 7 ["a".toList, "b".toList, "c".toList]).map (·.2) = [7, 8, 9] := by decide

/-- **Witness for seeded change C17-5**: a scratch cell hoisted out of the loop is shared by every entry. -/
theorem hoisted_cells_alias (next : Nat) (ks : List Str) : ∀ p ∈ entryCells .hoisted next ks, p.2 = next := by
  induction ks with
  | nil => intro p h; simp [entryCells] at h
  | cons k ks ih =>
    intro p h
    simp only [entryCells, List.mem_cons] at h
    cases h with
    | inl h => rw [h]
    | inr h => exact ih p h

example : (entryCells .hoisted 7 ["a".toList, "b".toList]).map (·.2) = [7, 7] := by decide

theorem genMap_null (o : Opts) (t : Ty) (k : Str) (rest : JM) : ∃ e, genMap o t (.cons k .null rest) = .error e := by
  rw [genMap.eq_def]
  cases t with
  | ptr t' => cases t' <;> exact ⟨_, rfl⟩
  | _ => exact ⟨_, rfl⟩

/-- **Every entry of a decoded map is the decoding of ITS OWN document value** (the value-level face of "a fresh
element per key"): whatever the other entries are, the value stored under `k` is `gzMapElem` of the document value
found under `k` (first match — faithful for documents without repeated keys). -/
theorem genMap_pointwise (o : Opts) (t : Ty) : ∀ (m : JM) (vm : VM), genMap o t m = .ok vm →
    ∀ k x, m.get? k = some x → ∃ v, gzMapElem o t x = .ok v ∧ vm.get? k = some v
  | .nil, _, _, k, x, hg => by simp [JM.get?] at hg
  | .cons k0 x0 r, vm, h, k, x, hg => by
    by_cases hn : x0 = .null
    · subst hn
      obtain ⟨e, he⟩ := genMap_null o t k0 r
      rw [he] at h; cases h
    · rw [genMap_cons o t k0 x0 r hn] at h
      simp only [R.bind_ok, R.pure_ok] at h
      obtain ⟨v0, hv0, vs, hvs, rfl⟩ := h
      by_cases hk : k0 = k
      · simp only [JM.get?, hk, if_true, Option.some.injEq] at hg
        subst hg
        exact ⟨v0, hv0, by simp [VM.get?, hk]⟩
      · simp only [JM.get?, hk, if_false] at hg
        obtain ⟨v, hv, hget⟩ := genMap_pointwise o t r vs hvs k x hg
        exact ⟨v, hv, by simp [VM.get?, hk, hget]⟩

/-- `map[string]*int` with `{"a":1,"b":2}`: two entries, two values (seeded C17-5 gave `&2,&2` or `&1,&1`). -/
example : genMap {} (.ptr (.prim (.int 64))) (.cons "a".toList (.num "1".toList) (.cons "b".toList (.num "2".toList) .nil))
    = .ok (.cons "a".toList (.ptr (.int 1)) (.cons "b".toList (.ptr (.int 2)) .nil)) := by
  c17_eval

theorem foldl_apply_env (opts : List ConfOption) : ∀ (st : ConfOptions), st.env = true →
    (opts.foldl (fun acc o => o.apply acc) st).env = true := by
  induction opts with
  | nil => intro st h; exact h
  | cons o os ih => intro st _; exact ih _ rfl

/-- **The options of a `conf.Load` call are the options of THIS call**: the record starts from the zero value. -/
theorem conf_options_fresh (opts : List ConfOption) : (buildOptions opts).env = !opts.isEmpty := by
  cases opts with
  | nil => rfl
  | cons o os => simp only [buildOptions, List.foldl_cons, List.isEmpty_cons, Bool.not_false]; exact foldl_apply_env os _ rfl

/-- **Environment variables are expanded only when requested, in every sequence of loads in one process**: what a
call hands to its loader depends on its own options only, whatever was loaded before with whatever options. -/
theorem load_sequence_independent (expand : Str → Str) (calls : List (List ConfOption × Str)) :
    loadSeq expand calls = calls.map fun c => loadContent expand (!c.1.isEmpty) c.2 := by
  induction calls with
  | nil => rfl
  | cons c rest ih =>
    obtain ⟨opts, content⟩ := c
    simp only [loadSeq, List.map_cons, ih, conf_options_fresh, loadContent]

/-- **Witness for seeded change C17-4**: with an option record that outlives the call, `UseEnv()` of the first load
expands the second load's content although it was loaded without `UseEnv()`. -/
theorem shared_options_sticky (expand : Str → Str) (c1 c2 : Str) :
    loadSeqShared expand {} [([.useEnv], c1), ([], c2)] = [expand c1, expand c2] ∧
    loadSeq expand [([.useEnv], c1), ([], c2)] = [expand c1, c2] := ⟨rfl, rfl⟩

example : loadSeq (fun _ => "X".toList) [([.useEnv], "$A".toList), ([], "$A".toList), ([.useEnv], "$B".toList)]
    = ["X".toList, "$A".toList, "X".toList] := by decide

/-- **End to end, file level** (`conf.Load` → loader of the extension → `LoadFromJsonBytes`): two files holding the
renderings of one document (no null) in the formats of their extensions load to the same verdict and value, for every
pair of recognised extensions (any case), every type of the family and every environment. -/
theorem file_load_format_independent (o : Opts) (fs : Fields) (d : J) (t : T) (hd : plainDoc d = true)
    (ht : embT d = some t) (e1 e2 : Str) (f1 f2 : Fmt) (h1 : loaderOf e1 = some f1) (h2 : loaderOf e2 = some f2)
    (expand : Str → Str) (run : Fmt → Str → R Val) (c1 c2 : Str)
    (hr1 : run f1 c1 = loadFmtO o fs d t f1) (hr2 : run f2 c2 = loadFmtO o fs d t f2) :
    confLoad expand false e1 run c1 = confLoad expand false e2 run c2 := by
  have a := formats_agree_env o fs d t hd ht
  have all : ∀ f, loadFmtO o fs d t f = loadJsonO o fs d := by
    intro f; cases f
    · rfl
    · exact a.1
    · exact a.2
  simp only [confLoad, h1, h2, loadContent, if_false, Bool.false_eq_true, hr1, hr2, all]

example : loaderOf ".YAML".toList = some .yaml ∧ loaderOf ".toml".toList = some .toml := by decide

/-- **End to end, mapping level, against encoding/json** for the pointer element types of round 4:
`struct{ M map[string]*int `json:"m"` }` — both decoders give two distinct cells with the two values. -/
def ptrMapTy : Fields := .cons { name := "M".toList, key := "m".toList, optional := false, embedded := false } (.map (.ptr (.prim (.int 64)))) .nil
def ptrMapDoc : J := .obj (.cons "m".toList (.obj (.cons "a".toList (.num "1".toList) (.cons "b".toList (.num "2".toList) .nil))) .nil)

example : plainTy (.struct ptrMapTy) = true ∧ tyKeysDistinct (.struct ptrMapTy) = true ∧ tyKeysPlain (.struct ptrMapTy) = true ∧
    plainDoc ptrMapDoc = true ∧ noCaseCollision ptrMapDoc = true := by decide

theorem ptr_map_agrees_with_std :
    stdDecode ptrMapTy ptrMapDoc = .ok (.struct (.cons "M".toList (.map (.cons "a".toList (.ptr (.int 1))
      (.cons "b".toList (.ptr (.int 2)) .nil))) .nil)) ∧
    unmarshalJson ptrMapTy ptrMapDoc = stdDecode ptrMapTy ptrMapDoc := by
  refine ⟨by decide, ?_⟩
  have h : stdDecode ptrMapTy ptrMapDoc = .ok (.struct (.cons "M".toList (.map (.cons "a".toList (.ptr (.int 1))
      (.cons "b".toList (.ptr (.int 2)) .nil))) .nil)) := by decide
  rw [h]
  simp only [ptrMapTy, ptrMapDoc]; c17_eval

/-- **End to end, file level, documents with keys colliding up to case** (regression: thorough seed 15840): with the
sorted walk of `toLowerCaseKeyMap` the file-level API is format independent on such documents too. -/
theorem file_load_format_independent_det (o : Opts) (fs : Fields) (d : J) (t : T) (hd : plainDoc d = true)
    (ht : embT d = some t) (e1 e2 : Str) (f1 f2 : Fmt) (h1 : loaderOf e1 = some f1) (h2 : loaderOf e2 = some f2)
    (expand : Str → Str) (run : Fmt → Str → R Val) (c1 c2 : Str)
    (hr1 : run f1 c1 = loadFmtDet o fs d t f1) (hr2 : run f2 c2 = loadFmtDet o fs d t f2) :
    confLoad expand false e1 run c1 = confLoad expand false e2 run c2 := by
  have a := formats_agree_det o fs d t hd ht
  have all : ∀ f, loadFmtDet o fs d t f = loadJsonDet o fs d := by
    intro f; cases f
    · rfl
    · exact a.1
    · exact a.2
  simp only [confLoad, h1, h2, loadContent, if_false, Bool.false_eq_true, hr1, hr2, all]

/-- on a document with colliding keys the association list in document order is NOT the model of the code: the walk in
ascending key order decides (`{"PORT":"x","port":1}`: document order rejects, the code — `port` is walked last —
accepts with Port = 1).  The driver therefore models `load`-type ops on such documents by `loadJsonDet`. -/
theorem sorted_walk_is_the_model_on_collisions :
    noCaseCollision portDocB = false ∧ loadJson portTy portDocB = .error .err ∧
    loadJsonDet confOpts portTy portDocB = loadJson portTy portDocA := by
  refine ⟨by decide, pinned_collision_order_dependent.2.1, ?_⟩
  have hs : sortDoc portDocB = portDocA := by decide
  simp only [loadJsonDet, hs]; rfl

/-! ### round 5: the bytes between a front end and its consumer (`encodeToJSON` -> `LoadFromJsonBytes` / `UnmarshalJsonBytes`)

`Buf.lean`: conversions and reads as events of ANY schedule.  With the buffer of the code that exists (a local
`bytes.Buffer` per call, Tie `tie_encodeBufSite`) every read sees the bytes of the reader's own latest conversion -
sequentially (convert A, convert B, read A) and under every interleaving of concurrent loads. -/

def BufInv (s : BufSt) (m : Nat → Option Bytes) : Prop :=
  (∀ who, (s.held who).bind (fun id => s.bufs[id]?) = m who) ∧ (∀ who id, s.held who = some id → id < s.bufs.length)

theorem bufInv_conv (s : BufSt) (m : Nat → Option Bytes) (who : Nat) (c : Bytes) (h : BufInv s m) :
    BufInv (bufStep .freshLocal s (.conv who c)).1 (updFn m who c) := by
  obtain ⟨h1, h2⟩ := h
  constructor
  · intro w
    simp only [bufStep, updFn]
    by_cases hw : w = who
    · simp [hw]
    · simp only [hw, if_false]
      rw [← h1 w]
      cases hh : s.held w with
      | none => simp
      | some id =>
        have := h2 w id hh
        simp [List.getElem?_append_left this]
  · intro w id hh
    simp only [bufStep, updFn] at hh ⊢
    by_cases hw : w = who
    · simp [hw] at hh; subst hh; simp
    · simp only [hw, if_false] at hh
      have := h2 w id hh
      simp; omega

theorem conversion_results_stable_from (evs : List BufEv) : ∀ (s : BufSt) (m : Nat → Option Bytes), BufInv s m →
    bufRun .freshLocal s evs = specRun m evs := by
  induction evs with
  | nil => intro s m _; rfl
  | cons e es ih =>
    intro s m h
    cases e with
    | conv who c =>
      have h' := bufInv_conv s m who c h
      simp only [bufRun, specRun]
      have : (bufStep .freshLocal s (.conv who c)).2 = none := rfl
      rw [this]
      exact ih _ _ h'
    | read who =>
      simp only [bufRun, specRun, bufStep]
      rw [h.1 who, ih s m h]

theorem conversion_results_stable (evs : List BufEv) :
    bufRun encodeSite {} evs = specRun (fun _ => none) evs :=
  conversion_results_stable_from evs {} _ ⟨fun _ => rfl, fun _ _ h => by simp at h⟩


/-- a later conversion by ANYONE does not reach a caller's read: `∃ pre` = whatever the earlier reads saw. -/
def lastConv (init : Option Bytes) (who : Nat) : List BufEv → Option Bytes
  | [] => init
  | .conv w c :: es => lastConv (if w = who then some c else init) who es
  | .read _ :: es => lastConv init who es

theorem specRun_then_read (who : Nat) (evs : List BufEv) : ∀ (m : Nat → Option Bytes),
    ∃ pre, specRun m (evs ++ [.read who]) = pre ++ [lastConv (m who) who evs] := by
  induction evs with
  | nil => intro m; exact ⟨[], rfl⟩
  | cons e es ih =>
    intro m
    cases e with
    | conv w c =>
      obtain ⟨pre, hp⟩ := ih (updFn m w c)
      refine ⟨pre, ?_⟩
      simp only [List.cons_append, specRun, lastConv]
      rw [hp]
      by_cases hw : w = who
      · subst hw; simp [updFn]
      · have : who ≠ w := fun h => hw h.symm
        simp [updFn, hw, this]
    | read w =>
      obtain ⟨pre, hp⟩ := ih m
      exact ⟨m w :: pre, by simp only [List.cons_append, specRun, lastConv]; rw [hp]⟩

theorem load_reads_own_document (who : Nat) (evs : List BufEv) :
    ∃ pre, bufRun encodeSite {} (evs ++ [.read who]) = pre ++ [lastConv none who evs] := by
  rw [conversion_results_stable]
  exact specRun_then_read who evs _

example : bufRun encodeSite {} [.conv 0 "A".toList, .conv 1 "B".toList, .read 0, .conv 0 "C".toList, .read 1, .read 0]
    = [some "A".toList, some "B".toList, some "C".toList] := by decide

theorem pooled_buffer_invalidates (a b : Bytes) :
    bufRun .pooled {} [.conv 0 a, .conv 1 b, .read 0] = [some b] := by
  simp [bufRun, bufStep, updFn]

theorem pooled_concurrent_loads_swap (a b : Bytes) :
    bufRun .pooled {} [.conv 0 a, .conv 1 b, .read 0, .read 1] = [some b, some b] ∧
    specRun (fun _ => none) [.conv 0 a, .conv 1 b, .read 0, .read 1] = [some a, some b] := by
  constructor
  · simp [bufRun, bufStep, updFn]
  · simp [specRun, updFn]

theorem loads_schedule_independent {β : Type} (decode : Bytes → β) (evs : List BufEv) :
    loadsUnder encodeSite decode evs = (specRun (fun _ => none) evs).map (Option.map decode) := by
  unfold loadsUnder; rw [conversion_results_stable]

/-! forwarding -/
theorem fwd_yaml_bytes_sem {α : Type} (sem : String → List α → α) (content v dflt : α) (opts : List α) :
    runFwd sem [content, v] opts dflt fwdYamlBytes = sem "UnmarshalJsonBytes" ([sem "encoding.YamlToJson" [content], v] ++ opts) := by
  simp [runFwd, runFwdAux, evalArgs, fwdYamlBytes]

theorem dropped_spread_loses_options {α : Type} (sem : String → List α → α) (content v dflt : α) (opts : List α) :
    runFwd sem [content, v] opts dflt [⟨"encoding.YamlToJson", [.param 0]⟩, ⟨"UnmarshalJsonBytes", [.result 0, .param 1]⟩]
      = sem "UnmarshalJsonBytes" [sem "encoding.YamlToJson" [content], v] := by
  simp [runFwd, runFwdAux, evalArgs]
/-! ### round 5: the delegating entry points through their DATA FLOW, for every option list -/

theorem optsOfEVs_map (l : List MOpt) : optsOfEVs (l.map .opt) = some l := by
  induction l with
  | nil => rfl
  | cons o r ih => simp [optsOfEVs, ih]

theorem fwd_toml_bytes_sem {α : Type} (sem : String → List α → α) (content v dflt : α) (opts : List α) :
    runFwd sem [content, v] opts dflt fwdTomlBytes = sem "UnmarshalJsonBytes" ([sem "encoding.TomlToJson" [content], v] ++ opts) := by
  simp [runFwd, runFwdAux, evalArgs, fwdTomlBytes]

theorem fwd_readers_sem {α : Type} (sem : String → List α → α) (reader v dflt : α) (opts : List α) :
    runFwd sem [reader, v] opts dflt fwdYamlReader = sem "UnmarshalYamlBytes" ([sem "io.ReadAll" [reader], v] ++ opts) ∧
    runFwd sem [reader, v] opts dflt fwdTomlReader = sem "UnmarshalTomlBytes" ([sem "io.ReadAll" [reader], v] ++ opts) := by
  constructor <;> simp [runFwd, runFwdAux, evalArgs, fwdYamlReader, fwdTomlReader]

theorem fwd_conf_loaders_sem {α : Type} (sem : String → List α → α) (content v dflt : α) (opts : List α) :
    runFwd sem [content, v] opts dflt fwdConfYaml = sem "LoadFromJsonBytes" [sem "encoding.YamlToJson" [content], v] ∧
    runFwd sem [content, v] opts dflt fwdConfToml = sem "LoadFromJsonBytes" [sem "encoding.TomlToJson" [content], v] := by
  constructor <;> simp [runFwd, runFwdAux, evalArgs, fwdConfYaml, fwdConfToml]

/-- **the whole configuration space of the mapping entry points**: for EVERY list of options the caller may pass (any
length, order, repetitions), every type, every document without null: the five delegating entry points, run THROUGH their
data flow (`fwd*`, equal to the extracted flow: Tie `tie_fwd*`), return what `UnmarshalJsonBytes` returns for the same
list. -/
theorem mapping_entry_points_all_option_lists (base oc : Opts) (opts : List MOpt) (fs : Fields) (d : J) (t : T)
    (hd : plainDoc d = true) (ht : embT d = some t) :
    semBase base oc fs "UnmarshalJsonBytes" (.jsonTree d :: .target :: opts.map .opt) = .res (unmarshalWith (applyMOpts base opts) fs d) ∧
    runFwd (semBase base oc fs) [.yamlText (embY d), .target] (opts.map .opt) .bad fwdYamlBytes = .res (unmarshalWith (applyMOpts base opts) fs d) ∧
    runFwd (semTop base oc fs) [.yamlText (embY d), .target] (opts.map .opt) .bad fwdYamlReader = .res (unmarshalWith (applyMOpts base opts) fs d) ∧
    runFwd (semBase base oc fs) [.tomlText t, .target] (opts.map .opt) .bad fwdTomlBytes = .res (unmarshalWith (applyMOpts base opts) fs d) ∧
    runFwd (semTop base oc fs) [.tomlText t, .target] (opts.map .opt) .bad fwdTomlReader = .res (unmarshalWith (applyMOpts base opts) fs d) := by
  have hm := mapping_formats_agree (applyMOpts base opts) fs d t hd ht
  unfold unmarshalYaml unmarshalToml at hm
  have hy : runFwd (semBase base oc fs) [.yamlText (embY d), .target] (opts.map .opt) .bad fwdYamlBytes = .res (unmarshalWith (applyMOpts base opts) fs d) := by
    rw [fwd_yaml_bytes_sem]; simp [semBase, optsOfEVs_map, hm.1]
  have ht' : runFwd (semBase base oc fs) [.tomlText t, .target] (opts.map .opt) .bad fwdTomlBytes = .res (unmarshalWith (applyMOpts base opts) fs d) := by
    rw [fwd_toml_bytes_sem]; simp [semBase, optsOfEVs_map, hm.2]
  refine ⟨by simp [semBase, optsOfEVs_map], hy, ?_, ht', ?_⟩
  · rw [(fwd_readers_sem _ _ _ _ _).1]; simp [semTop, hy]
  · rw [(fwd_readers_sem _ _ _ _ _).2]; simp [semTop, ht']

/-- the two converting loaders of package conf, through their data flow. -/
theorem conf_loaders_through_flow (base oc : Opts) (fs : Fields) (d : J) (t : T) (hd : plainDoc d = true) (ht : embT d = some t) :
    runFwd (semBase base oc fs) [.yamlText (embY d), .target] [] .bad fwdConfYaml = .res (loadJsonO oc fs d) ∧
    runFwd (semBase base oc fs) [.tomlText t, .target] [] .bad fwdConfToml = .res (loadJsonO oc fs d) := by
  have hm := formats_agree_env oc fs d t hd ht
  unfold loadYamlO loadTomlO loadJsonO at hm
  constructor
  · rw [(fwd_conf_loaders_sem _ _ _ _ _).1]; simp [semBase, loadJsonO, hm.1]
  · rw [(fwd_conf_loaders_sem _ _ _ _ _).2]; simp [semBase, loadJsonO, hm.2]

def nameTyU : Fields := .cons { name := "Name".toList, key := "Name".toList, optional := false, embedded := false } (.prim .string) .nil

/-- the options matter: `{"name":"b"}` into `struct{Name string `json:"Name"`}` is accepted with
`WithCanonicalKeyFunc(strings.ToLower)` and rejected without - an entry point that drops `opts...` (seeded C17-2, C17-7:
`dropped_spread_loses_options`) changes the verdict. -/
theorem dropped_options_change_verdict :
    unmarshalWith (applyMOpts {} [.canonLower]) nameTyU (.obj (.cons "name".toList (.str "b".toList) .nil))
      = .ok (.struct (.cons "Name".toList (.str "b".toList) .nil)) ∧
    unmarshalWith (applyMOpts {} []) nameTyU (.obj (.cons "name".toList (.str "b".toList) .nil)) = .error .err := by
  constructor <;> (simp only [nameTyU, applyMOpts, List.foldl, MOpt.apply]; c17_eval; try decide)

/-- repetitions and order of the options do not matter (each sets one flag). -/
theorem applyMOpts_flags (base : Opts) (l : List MOpt) :
    (applyMOpts base l).canon = (base.canon || l.contains .canonLower) ∧
    (applyMOpts base l).fromString = (base.fromString || l.contains .stringValues) ∧
    (applyMOpts base l).fromArray = (base.fromArray || l.contains .fromArray) ∧
    (applyMOpts base l).opaqueKeys = (base.opaqueKeys || l.contains .opaqueKeys) := by
  induction l generalizing base with
  | nil => simp [applyMOpts]
  | cons o r ih =>
    have := ih (MOpt.apply base o)
    simp only [applyMOpts, List.foldl] at this ⊢
    cases o <;> simp_all [MOpt.apply, Bool.or_comm]

example : (applyMOpts {} [.opaqueKeys, .canonLower, .opaqueKeys]).canon = true ∧ (applyMOpts {} [.opaqueKeys]).canon = false := by decide

/-! ### round 5: the scalar layer at full strength for the fixed conversion -/
/-- FULL scalar layer for the code with fixes/C17-float32-single-rounding.patch (`two = false`: the literal is rounded
once, to the width of the field): EVERY primitive kind, float32 included, no hypothesis on the width.  The
statement `scalar_agreement_pinned_conversion` above is what holds for the pinned conversion (`two = true`), where float32 is the counterexample
`float32_double_rounding`. -/
theorem agrees_with_std_json_scalar_fixed (p : Prim) (v : J) (a b : Val)
    (hu : fillPrim false p v = .ok a) (hs : stdPrim p v = .ok b) : a = b := by
  cases v with
  | num lit =>
    cases p with
    | float n => simp only [fillPrim, stdPrim, convFromString] at hu hs; rw [hu] at hs; injection hs
    | int n => simp only [fillPrim, stdPrim] at hu hs; rw [hu] at hs; injection hs
    | uint n => simp only [fillPrim, stdPrim] at hu hs; rw [hu] at hs; injection hs
    | bool => simp [fillPrim] at hu
    | string => simp [fillPrim] at hu
  | bool x => simp only [fillPrim, stdPrim] at hu hs; rw [hu] at hs; injection hs
  | str x => simp only [fillPrim, stdPrim] at hu hs; rw [hu] at hs; injection hs
  | null => simp [fillPrim] at hu
  | nilArr => simp [fillPrim] at hu
  | arr l => simp [fillPrim] at hu
  | obj m => simp [fillPrim] at hu

example : fillPrim false (.float 32) (.num "1.5".toList) = stdPrim (.float 32) (.num "1.5".toList) := by
  simp [fillPrim, stdPrim, convFromString]
/-- **the two-format scope** (documents that TOML cannot hold, e.g. integers in (MaxInt64, MaxUint64]): JSON and YAML agree
for every document without null, with NO hypothesis about a TOML rendering - conf loaders under every option set /
environment and the mapping entry points under every option LIST (monitor clause `format-dependent class=format-json-yaml`,
seeded C17-6). -/
theorem json_yaml_agree (o : Opts) (opts : List MOpt) (fs : Fields) (d : J) (hd : plainDoc d = true) :
    loadYamlO o fs (embY d) = loadJsonO o fs d ∧
    unmarshalYaml (applyMOpts o opts) fs (embY d) = unmarshalWith (applyMOpts o opts) fs d := by
  unfold loadYamlO loadJsonO unmarshalYaml
  rw [yaml_normal_form d hd]
  exact ⟨rfl, rfl⟩

example : plainDoc (.obj (.cons "id".toList (.num "18446744073709551615".toList) .nil)) = true := by decide
/-! ### round 5c: the agreement with encoding/json as ONE total statement, modulo exactly the documented differences -/

/-- **Agreement with encoding/json, total form** (second sentence of the property; the model is the code that exists:
the float32 conversion of 71c4c8c, one rounding).  For EVERY struct type with plain name tags (`plainTy`: numbers of every
width incl. float32, strings, booleans, nested structs, slices, maps, pointer fields and pointer elements) and EVERY
document: whenever `mapping.UnmarshalJsonBytes` and `encoding/json.Unmarshal` both accept, the values are equal up to
nil-vs-empty maps (known finding std-nil-vs-empty-map) - or the pair (type, document) lies in one of the decidable
classes `stdClass` of the other open known findings (std-null-elements, std-case-fold, std-dotted-key) or the type
repeats a key inside one struct.  Nothing else is excluded: no hypothesis on numbers, on float32, on the shape. -/
theorem agrees_with_encoding_json_total (fs : Fields) (j : J) (a b : Val)
    (hp : plainTy (.struct fs) = true)
    (hu : unmarshalJson fs j = .ok a) (hs : stdDecode fs j = .ok b) :
    a.normNil = b.normNil ∨ (stdClass fs j).isSome = true := by
  by_cases h1 : plainDoc j = true
  · by_cases h2 : noCaseCollision j = true
    · by_cases h3 : keysExact (.struct fs) j = true
      · by_cases h4 : tyKeysPlain (.struct fs) = true
        · by_cases h5 : tyKeysDistinct (.struct fs) = true
          · exact .inl (agrees_with_std_json fs j a b hp h5 h4 h1 h2 h3 hu hs)
          · right; simp [stdClass, h1, h2, h3, h4, h5]
        · right; simp [stdClass, h1, h2, h3, h4]
      · right; simp [stdClass, h1, h2, h3]
    · right; simp [stdClass, h1, h2]
  · right; simp [stdClass, h1]

/-- the same for the YAML and TOML entry points of the mapping package, on the renderings of the document. -/
theorem yaml_toml_agree_with_encoding_json_total (fs : Fields) (d : J) (t : T) (a b : Val)
    (hp : plainTy (.struct fs) = true) (ht : embT d = some t) (hs : stdDecode fs d = .ok b) :
    (unmarshalYaml {} fs (embY d) = .ok a → a.normNil = b.normNil ∨ (stdClass fs d).isSome = true) ∧
    (unmarshalToml {} fs t = .ok a → a.normNil = b.normNil ∨ (stdClass fs d).isSome = true) := by
  by_cases hd : plainDoc d = true
  · have m := mapping_formats_agree {} fs d t hd ht
    exact ⟨fun h => agrees_with_encoding_json_total fs d a b hp (by unfold unmarshalJson; rw [← m.1]; exact h) hs,
           fun h => agrees_with_encoding_json_total fs d a b hp (by unfold unmarshalJson; rw [← m.2]; exact h) hs⟩
  · exact ⟨fun _ => .inr (by simp [stdClass, hd]), fun _ => .inr (by simp [stdClass, hd])⟩

/-- non-vacuity, and the classes are what they say: the float32 tie literal lies in NO class and both decoders agree on it
(the repaired defect: `std_differs_float32_field_pinned` keeps the pinned value 16777216 as the witness). -/
theorem float32_tie_literal_agrees_now :
    stdClass f32Ty f32Doc = none ∧ unmarshalJson f32Ty f32Doc = stdDecode f32Ty f32Doc := by
  have h := std_differs_float32_field_pinned
  obtain ⟨p1, p2, p3, p4, p5, p6, _, _, hu, hs⟩ := h
  exact ⟨by simp [stdClass, p2, p3, p4, p5, p6], by rw [hu, hs]⟩

example : stdClass nameTy (.obj (.cons "name".toList .null .nil)) = some .null := by decide

/-! ### round 5c: the model FOLLOWS the decision functions that Tie proves equal to the Go conditions
(`processFieldNotFromString` -> `nfsRoute`, `processNamedField` -> `fieldRoute`, `WithFromArray` -> `fromArrayTakesFirst`) -/

theorem withValue_follows_dispatch (o : Opts) (ps : List JM) :
    (∀ fs m, nfsRoute (kindOfJ (.obj m)) (kindOfTy (.struct fs)) false false = .structFromMap ∧
        withValue o ps (.struct fs) (.obj m) = (unmarshalStruct o ps fs m).map .struct) ∧
    (∀ t l, nfsRoute (kindOfJ (.arr l)) (kindOfTy (.slice t)) false false = .fillSlice ∧
        withValue o ps (.slice t) (.arr l) = fillSlice o t l) ∧
    (∀ t m, nfsRoute (kindOfJ (.obj m)) (kindOfTy (.map t)) false false = .fillMap ∧
        withValue o ps (.map t) (.obj m) = (genMap o t m).map .map) ∧
    (∀ p v, withValue o ps (.prim p) v = primField o p v) ∧
    (∀ t m, nfsRoute (kindOfJ (.obj m)) (kindOfTy (.slice t)) false false = .primitive ∧
        withValue o ps (.slice t) (.obj m) = .error .err) ∧
    (∀ t l, nfsRoute (kindOfJ (.arr l)) (kindOfTy (.map t)) false false = .primitive ∧
        withValue o ps (.map t) (.arr l) = .error .err) ∧
    (∀ fs l, nfsRoute (kindOfJ (.arr l)) (kindOfTy (.struct fs)) false false = .primitive ∧
        withValue o ps (.struct fs) (.arr l) = .error .err) := by
  refine ⟨fun fs m => ⟨rfl, ?_⟩, fun t l => ⟨rfl, ?_⟩, fun t m => ⟨rfl, ?_⟩, fun p v => ?_, fun t m => ⟨rfl, ?_⟩,
    fun t l => ⟨rfl, ?_⟩, fun fs l => ⟨rfl, ?_⟩⟩ <;> simp [withValue]

theorem unmarshalStruct_env_route (o : Opts) (ps : List JM) (f : FMeta) (t : Ty) (m : JM) (hne : f.embedded = false)
   (h : modelFieldRoute o f (modelFound o ps f t m) = .env) :
   unmarshalStruct o ps (.cons f t .nil) m = (withEnv o f t (envLookup o.env f.envVar)).map (fun x => .cons f.name x .nil) := by
  have he : f.envVar ≠ [] ∧ envLookup o.env f.envVar ≠ [] := by
    simp only [modelFieldRoute, fieldRoute] at h
    by_cases h1 : f.envVar = [] <;> by_cases h2 : envLookup o.env f.envVar = [] <;>
      cases hm : modelFound o ps f t m <;> simp_all
  rw [unmarshalStruct.eq_def]
  simp only [hne, Bool.false_eq_true, if_false, he, and_self, if_true, ne_eq, not_false_eq_true]
  cases withEnv o f t (envLookup o.env f.envVar) <;> simp [unmarshalStruct, Except.map]

theorem unmarshalStruct_noValue_route (o : Opts) (ps : List JM) (f : FMeta) (t : Ty) (m : JM) (hne : f.embedded = false)
   (h : modelFieldRoute o f (modelFound o ps f t m) = .noValue) :
   unmarshalStruct o ps (.cons f t .nil) m =
     (if f.dflt ≠ [] then withDefault t f.dflt else withoutValue o t f.optional).map (fun x => .cons f.name x .nil) := by
  have hn : ¬ (f.envVar ≠ [] ∧ envLookup o.env f.envVar ≠ []) := by
    intro ⟨a, b⟩; simp [modelFieldRoute, fieldRoute, a, b] at h
  have hf : modelFound o ps f t m = none := by
    cases hh : modelFound o ps f t m with
    | none => rfl
    | some v =>
      simp only [modelFieldRoute, fieldRoute, hh] at h
      by_cases h1 : f.envVar = [] <;> by_cases h2 : envLookup o.env f.envVar = [] <;> simp_all
  rw [unmarshalStruct.eq_def]
  simp only [modelFound] at hf
  simp only [hne, Bool.false_eq_true, if_false, hn, hf]
  cases (if f.dflt ≠ [] then withDefault t f.dflt else withoutValue o t f.optional) <;> simp [unmarshalStruct, Except.map]

theorem modelFieldRoute_never_skip (o : Opts) (f : FMeta) (found : Option J) : modelFieldRoute o f found ≠ .skip := by
  simp only [modelFieldRoute, fieldRoute]
  by_cases h1 : f.envVar = [] <;> by_cases h2 : envLookup o.env f.envVar = [] <;> cases found <;> simp_all
theorem JL.lengthInt_nonneg : ∀ (l : JL), 0 ≤ l.lengthInt
  | .nil => by simp [JL.lengthInt]
  | .cons _ t => by have := JL.lengthInt_nonneg t; simp only [JL.lengthInt]; omega

/-- **the model follows `fromArrayTakesFirst`** (`WithFromArray`, Tie `tie_fromArrayTakesFirst`): a non-slice field takes
the first element of a non-empty array value, everything else stays. -/
theorem fromArrayAdj_follows (isSlice : Bool) (v : J) :
    fromArrayAdj isSlice v =
      match v with
      | .arr (.cons h t) => if fromArrayTakesFirst true false isSlice true (jSeqLen (.arr (.cons h t))) then h else v
      | _ => v := by
  cases v with
  | arr l =>
    cases l with
    | nil => cases isSlice <;> rfl
    | cons h t =>
      have := JL.lengthInt_nonneg t
      have hp : t.lengthInt + 1 > 0 := by omega
      cases isSlice <;> simp [fromArrayAdj, fromArrayTakesFirst, jSeqLen, JL.lengthInt, hp]
  | _ => cases isSlice <;> rfl
/-! ### round 5c: `buildStructFieldsInfo` with its merging -/
/-- **`buildStructFieldsInfo` with merging = `infoFields`** whenever no two (flattened) fields of the struct share a
lower-cased key: the theorems stated over `infoOf` (`key_case_insensitive*`) then speak about the info the code builds
through `addOrMergeFields` / `mergeFields`. -/
theorem infoFieldsM_eq_infoFields (fs : Fields) (h : hasDup (infoFields fs).keys = false) :
    infoFieldsM fs = some (infoFields fs) := by
  unfold infoFieldsM
  rw [addAll_fresh (infoFields fs) .nil (fun _ _ => rfl) h]
  rfl


/-- the case-insensitivity theorems RUN THROUGH the merging construction: when no two flattened fields share a
lower-cased key, the info the code builds (`infoFieldsM`) exists and lowers a document and each of its type-directed
re-casings to the same tree (hence `key_case_insensitive(_env / _all_formats)`). -/
theorem key_case_insensitive_through_merge (fs : Fields) (j j' : J) (h : recasedTy (.struct fs) j j' = true)
    (hd : hasDup (infoFields fs).keys = false) :
    ∃ im, infoFieldsM fs = some im ∧ lowerVal (.node im) j = lowerVal (.node im) j' :=
  ⟨infoFields fs, infoFieldsM_eq_infoFields fs hd, by simpa [infoOf] using lower_recased (.struct fs) j j' h⟩

def mergeTyA : Fields := .cons { name := "A".toList, key := "a".toList, optional := false, embedded := false } (.prim .string) .nil
def mergeTyB : Fields := .cons { name := "B".toList, key := "b".toList, optional := false, embedded := false } (.prim .string) .nil
/-- `struct{ X struct{A string `json:"a"`} `json:"in"`; Y struct{B string `json:"b"`} `json:"IN"` }` -/
def mergeTy : Fields :=
  .cons { name := "X".toList, key := "in".toList, optional := false, embedded := false } (.struct mergeTyA)
    (.cons { name := "Y".toList, key := "IN".toList, optional := false, embedded := false } (.struct mergeTyB) .nil)

/-- where the two differ: two struct-typed fields under one lower-cased key with DISJOINT children are MERGED by the
code (one child `in` with the children a and b), while `infoConflict` (the over-approximation the loader model uses)
calls it a conflict; the same key over a leaf is a conflict for both. -/
theorem merge_accepts_disjoint_struct_children :
    infoFieldsM mergeTy = some (.cons "in".toList (.node (.cons "a".toList (.node .nil) (.cons "b".toList (.node .nil) .nil))) .nil) ∧
    infoConflict (.struct mergeTy) = true ∧
    infoFieldsM (.cons { name := "X".toList, key := "in".toList, optional := false, embedded := false } (.struct mergeTyA)
      (.cons { name := "Y".toList, key := "IN".toList, optional := false, embedded := false } (.prim .string) .nil)) = none := by
  decide

/-! ### round 5d: a caller that selects the loader and hands it the bytes (core/configcenter) -/

/-- **the config center adds nothing**: for a recognised `Type` (any case) and a non-empty value, what
`NewConfigCenter(...).GetConfig()` yields for (Type, bytes) is the value of the Type's loader on EXACTLY those bytes; an
unknown Type and the empty value are errors whatever the rest. -/
theorem configcenter_value_is_loaders_value (run : Fmt → Str → R Val) (typ data : Str) :
    (∀ f, ccLoaderOf typ = some f → data ≠ [] → ccValue run typ data = run f data) ∧
    (ccLoaderOf typ = none → ccValue run typ data = .error .err) ∧
    (ccValue run typ [] = .error .err) ∧
    ccLoaderOf (lower typ) = ccLoaderOf typ := by
  refine ⟨?_, ?_, ?_, ?_⟩
  · intro f hf hd; simp [ccValue, ccValueWith, hf, hd]
  · intro hn; simp [ccValue, ccValueWith, hn]
  · simp only [ccValue, ccValueWith]; cases ccLoaderOf typ <;> simp
  · unfold ccLoaderOf; rw [lower_idem]

/-- **format independence through the config center** (from `formats_agree_env`): two subscribed values holding the
renderings of one document (no null) in the formats of their Types load to the same verdict and value, for every pair
of recognised Types, every type of the family, every environment. -/
theorem configcenter_format_independent (o : Opts) (fs : Fields) (d : J) (t : T) (hd : plainDoc d = true)
    (ht : embT d = some t) (t1 t2 : Str) (f1 f2 : Fmt) (h1 : ccLoaderOf t1 = some f1) (h2 : ccLoaderOf t2 = some f2)
    (run : Fmt → Str → R Val) (c1 c2 : Str) (n1 : c1 ≠ []) (n2 : c2 ≠ [])
    (hr1 : run f1 c1 = loadFmtO o fs d t f1) (hr2 : run f2 c2 = loadFmtO o fs d t f2) :
    ccValue run t1 c1 = ccValue run t2 c2 := by
  have a := formats_agree_env o fs d t hd ht
  have all : ∀ f, loadFmtO o fs d t f = loadJsonO o fs d := by
    intro f; cases f
    · rfl
    · exact a.1
    · exact a.2
  simp [ccValue, ccValueWith, h1, h2, n1, n2, hr1, hr2, all]

example : ccLoaderOf "YAML".toList = some .yaml ∧ ccLoaderOf "Json".toList = some .json ∧ ccLoaderOf "ini".toList = none := by decide

/-- WITNESS (seeded C17-9): a caller that trims the value first is a different function of the bytes - a loader that
sees the final line break (YAML block scalar) gives another value, and the value of blanks only becomes an error. -/
theorem trimmed_bytes_differ :
    ccValueWith trimWs (fun _ s => .ok (.str s)) "yaml".toList "k: |\n  v\n".toList = .ok (.str "k: |\n  v".toList) ∧
    ccValue (fun _ s => .ok (.str s)) "yaml".toList "k: |\n  v\n".toList = .ok (.str "k: |\n  v\n".toList) := by
  constructor <;> decide

/-! ### round 5e: the loader WITH the merging of `buildStructFieldsInfo`; a load is a function of (type, tree) -/

/-- on every type whose flattened fields do not repeat a lower-cased key the loader with the merging IS the loader all
other theorems speak about. -/
theorem loadTreeM_eq_loadTreeO (o : Opts) (fs : Fields) (j : J) (h : hasDup (infoFields fs).keys = false) :
    loadTreeM o fs j = loadTreeO o fs j := by
  simp only [loadTreeM, loadTreeO, loadTreeWithO, infoConflict, infoOf, h, Bool.false_or,
    show infoFieldsM fs = some (infoFields fs) from infoFieldsM_eq_infoFields fs h]

/-- format independence for EVERY struct type of the family, the merged ones included (two embedded structs that share a
struct-valued key): the three front ends hand the same tree to the same pure loader. -/
theorem formats_agree_merge (o : Opts) (fs : Fields) (d : J) (t : T) (hd : plainDoc d = true) (ht : embT d = some t) :
    loadTreeM o fs (yamlGlue (embY d)) = loadTreeM o fs d ∧ loadTreeM o fs (tomlGlue t) = loadTreeM o fs d := by
  rw [yaml_normal_form d hd, toml_normal_form d t hd ht]
  exact ⟨rfl, rfl⟩

/-- **a load is a function of (type, tree)**: in any sequence of loads in one process, two loads of the same (type, tree)
return the same - the second load equals the first, whatever was loaded in between (the info is rebuilt by every call:
Tie `tie_structInfoFresh`, `tie_cPkgVars`). -/
theorem load_is_function_of_type_and_tree (o : Opts) (calls : List (Fields × J)) (i k : Nat) (c : Fields × J)
    (hi : calls[i]? = some c) (hk : calls[k]? = some c) : (loadAllM o calls)[i]? = (loadAllM o calls)[k]? := by
  simp [loadAllM, List.getElem?_map, hi, hk]

/-- WITNESS (seeded C17-10): with the info of the first embedded struct KEPT between loads and merged into in place, the
first load builds the merged info and leaves `in ↦ {a, b}` behind; the second load then meets `b` twice: a conflict. -/
theorem shared_info_second_load_conflicts :
    infoFieldsShared (infoFields (.cons { name := "X".toList, key := "in".toList, optional := false, embedded := false } (.struct mergeTyA) .nil))
        (infoFields (.cons { name := "Y".toList, key := "IN".toList, optional := false, embedded := false } (.struct mergeTyB) .nil))
      = some (.cons "in".toList (.node (.cons "a".toList (.node .nil) (.cons "b".toList (.node .nil) .nil))) .nil) ∧
    infoFieldsShared (.cons "in".toList (.node (.cons "a".toList (.node .nil) (.cons "b".toList (.node .nil) .nil))) .nil)
        (infoFields (.cons { name := "Y".toList, key := "IN".toList, optional := false, embedded := false } (.struct mergeTyB) .nil))
      = none := by decide

example : (loadAllM {} [(mergeTy, .obj .nil), (nameTy, .obj .nil), (mergeTy, .obj .nil)]).length = 3 := by simp [loadAllM]

end GoZero.C17
