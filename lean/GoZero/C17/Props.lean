/-
C17 — property theorems (statements, short proofs from the lemmas in Proofs*.lean, non-vacuity examples).

Reading guide.  `loadJson / loadYaml / loadToml` model `conf.LoadFromJsonBytes / LoadFromYamlBytes / LoadFromTomlBytes`
on the value the respective third-party decoder produced (`J`, `Y`, `T`); `embY d` / `embT d` are what yaml.v2 / go-toml
produce for the rendering of document `d` (tested by the correspondence run, trusted); `unmarshalJson` models
`mapping.UnmarshalJsonBytes`, `stdDecode` models `encoding/json.Unmarshal` (validated by the correspondence run).
Go maps are modelled as association lists: faithful for documents without keys that collide up to case
(`noCaseCollision`, checked by the monitor on every generated document).
-/
import GoZero.C17.ProofsCase
namespace GoZero.C17

/-! ### format independence -/

/-- **The three loaders differ only in the front end that produces the generic tree.** -/
theorem load_is_function_of_tree (fs : Fields) (y : Y) (t : T) :
    loadYaml fs y = loadJson fs (yamlGlue y) ∧ loadToml fs t = loadJson fs (tomlGlue t) := ⟨rfl, rfl⟩

/-- **Generic-tree normal form.**  For every document without null (representable in all three formats) the
YAML glue (`toStringKeyMap`: `map[any]any` keys through `lang.Repr`, numbers to `json.Number`) and the TOML glue
(`encodeToJSON` + `UseNumber`) give back exactly the document's tree. -/
theorem front_ends_normal_form (d : J) (t : T) (hd : plainDoc d = true) (ht : embT d = some t) :
    yamlGlue (embY d) = d ∧ tomlGlue t = d :=
  ⟨yaml_normal_form d hd, toml_normal_form d t hd ht⟩

/-- **Format independence**: the same document loaded through the JSON, YAML and TOML loaders into the same type
gives the same verdict and, on success, the same value — for every type of the family and every document without null. -/
theorem formats_agree (fs : Fields) (d : J) (t : T) (hd : plainDoc d = true) (ht : embT d = some t) :
    loadYaml fs (embY d) = loadJson fs d ∧ loadToml fs t = loadJson fs d := by
  unfold loadYaml loadToml loadJson
  rw [yaml_normal_form d hd, toml_normal_form d t hd ht]
  exact ⟨rfl, rfl⟩

/-- YAML's null is *not* format independent: the glue turns it into the empty string (why null is outside "representable
in all three formats"). -/
theorem yaml_null_becomes_empty_string : yamlGlue (embY .null) = .str [] := rfl

/-! ### keys are matched case-insensitively -/

/-- **Key case-insensitivity**: for every type of the family (nested structs, embedded structs, pointers, slices, maps
of maps, maps in slices …) and every re-casing of the document's struct-field keys (`recasedTy`: map keys are data and
stay), `conf.LoadFromJsonBytes` gives the same verdict and value.  Holds for the code with
fixes/C17-map-keys-are-data.patch; for the pinned code see `pinned_info_not_case_insensitive`. -/
theorem key_case_insensitive (fs : Fields) (j j' : J) (h : recasedTy (.struct fs) j j' = true) :
    loadJson fs j = loadJson fs j' := by
  have hl := lower_recased (.struct fs) j j' h
  cases j with
  | obj m =>
    cases j' with
    | obj m' =>
      simp only [infoOf, lowerVal, J.obj.injEq] at hl
      simp only [loadJson, loadTree, loadTreeWith, infoOf, hl]
    | null => simp [recasedTy] at h
    | bool _ => simp [recasedTy] at h
    | num _ => simp [recasedTy] at h
    | str _ => simp [recasedTy] at h
    | nilArr => simp [recasedTy] at h
    | arr _ => simp [recasedTy] at h
  | null => have e : J.null = j' := by simpa [recasedTy] using h
            rw [← e]
  | bool x => have e : J.bool x = j' := by simpa [recasedTy] using h
              rw [← e]
  | num x => have e : J.num x = j' := by simpa [recasedTy] using h
             rw [← e]
  | str x => have e : J.str x = j' := by simpa [recasedTy] using h
             rw [← e]
  | nilArr => have e : J.nilArr = j' := by simpa [recasedTy] using h
              rw [← e]
  | arr x => have e : J.arr x = j' := by simpa [recasedTy] using h
             rw [← e]

/-- … and therefore through all three front ends. -/
theorem key_case_insensitive_all_formats (fs : Fields) (d d' : J) (t t' : T)
    (h : recasedTy (.struct fs) d d' = true)
    (hd : plainDoc d = true) (hd' : plainDoc d' = true) (ht : embT d = some t) (ht' : embT d' = some t') :
    loadYaml fs (embY d') = loadJson fs d ∧ loadToml fs t' = loadJson fs d ∧ loadJson fs d' = loadJson fs d := by
  have k := key_case_insensitive fs d d' h
  have a := formats_agree fs d' t' hd' ht'
  exact ⟨by rw [a.1, k], by rw [a.2, k], k.symm⟩

def exInner : Fields := .cons ⟨"ID".toList, "id".toList, false, false⟩ (.prim (.int 64)) .nil
/-- `struct { Items []map[string]struct{ ID int `json:"id"` } `json:"items"` }` -/
def exTy : Fields := .cons ⟨"Items".toList, "items".toList, false, false⟩ (.slice (.map (.struct exInner))) .nil
/-- `{"items":[{"id":{"ID":1}}]}` — the map key `id` spells a field name of the element struct. -/
def exDoc : J := .obj (.cons "items".toList (.arr (.cons (.obj (.cons "id".toList
  (.obj (.cons "ID".toList (.num "1".toList) .nil)) .nil)) .nil)) .nil)
/-- `{"ITEMS":[{"id":{"id":1}}]}` -/
def exDoc' : J := .obj (.cons "ITEMS".toList (.arr (.cons (.obj (.cons "id".toList
  (.obj (.cons "id".toList (.num "1".toList) .nil)) .nil)) .nil)) .nil)

example : recasedTy (.struct exTy) exDoc exDoc' = true := by decide

/-- what `toLowerCaseKeyMap` makes of the two documents, with the fixed and with the pinned `buildFieldsInfo`. -/
def exLowered : J := .obj (.cons "items".toList (.arr (.cons (.obj (.cons "id".toList
  (.obj (.cons "id".toList (.num "1".toList) .nil)) .nil)) .nil)) .nil)

example : lowerVal (infoOf (.struct exTy)) exDoc = exLowered ∧ lowerVal (infoOf (.struct exTy)) exDoc' = exLowered := by
  decide

/-- **Witness of the defect in the pinned code** (`buildFieldsInfo` looked through a map that is an element of a slice
or of a map, so the map key `id` was taken for the field `id` and the entry below it was not lower-cased): the two
documents are re-casings of each other, the second is lowered correctly, the first keeps its key `ID`, which the
unmarshaller (canonical key `id`) then does not find — `conf.LoadFromJsonBytes` accepts one and rejects the other
(replayed on the real code by the harness: MONITOR `class=case`). -/
theorem pinned_info_not_case_insensitive :
    recasedTy (.struct exTy) exDoc exDoc' = true ∧
    lowerVal (infoOfPinned (.struct exTy)) exDoc' = exLowered ∧
    lowerVal (infoOfPinned (.struct exTy)) exDoc = exDoc ∧
    lowerVal (infoOfPinned (.struct exTy)) exDoc ≠ lowerVal (infoOfPinned (.struct exTy)) exDoc' := by decide

/-- the loader on the pinned info: rejected / accepted. -/
theorem pinned_loader_verdicts_differ :
    loadTreeWith (infoOfPinned (.struct exTy)) exTy exDoc = .error .err ∧
    loadTreeWith (infoOfPinned (.struct exTy)) exTy exDoc'
      = .ok (.struct (.cons "Items".toList (.slice (.cons (.map (.cons "id".toList
          (.struct (.cons "ID".toList (.int 1) .nil)) .nil)) .nil)) .nil)) := by
  have h1 : lowerVal (infoOfPinned (.struct exTy)) exDoc = exDoc := by decide
  have h2 : lowerVal (infoOfPinned (.struct exTy)) exDoc' = exLowered := by decide
  have c : infoConflict (.struct exTy) = false := by decide
  simp only [exDoc, exDoc', exLowered, lowerVal, J.obj.injEq] at h1 h2
  constructor
  · simp only [loadTreeWith, c, exDoc, h1]
    simp [exTy, exInner, unmarshalStruct, withValue, fillSlice, sliceElems, genMap, withoutValue, JM.get?,
      FMeta.tagKey, Except.map, lower, lowerC]
  · simp only [loadTreeWith, c, exDoc', h2]
    simp [exTy, exInner, unmarshalStruct, withValue, fillSlice, sliceElems, genMap, withoutValue, JM.get?,
      FMeta.tagKey, Except.map, lower, lowerC, fillPrim, convFromString, parseInt?, parseNat?, digitsVal, digit?,
      intInRange]

/-! ### environment variables are expanded only when requested; the loader depends on the extension up to case -/

theorem env_only_when_requested (expand : Str → Str) (content : Str) :
    loadContent expand false content = content ∧ loadContent expand true content = expand content := ⟨rfl, rfl⟩

theorem loader_ignores_extension_case (ext : Str) : loaderOf (lower ext) = loaderOf ext := by
  unfold loaderOf
  rw [lower_idem]

example : loaderOf ".YmL".toList = some .yaml ∧ loaderOf ".JSON".toList = some .json ∧
    loaderOf ".toml".toList = some .toml ∧ loaderOf ".txt".toList = none := by decide

/-! ### agreement with encoding/json

Full statement (not proven; see `agrees_with_std_json_partial` and the witnesses):

  theorem agrees_with_std_json (fs : Fields) (j : J) (a b : Val)
      (hp : plainTy (.struct fs) = true) (hn : noNull j = true) (hc : noCaseCollision j = true)
      (hk : keysExact (.struct fs) j = true) (hnum : inScope j = true)
      (hu : unmarshalJson fs j = .ok a) (hs : stdDecode fs j = .ok b) : a.normNilMap = b.normNilMap

What is proven: the scalar layer (every primitive kind except float32 decodes identically in both decoders), and that
each hypothesis of the full statement is necessary (witnesses below).  What is missing: the induction through structs,
slices and maps (both models are executable and are compared on every generated (type, document) pair by the
correspondence run and the monitor, which is a test, not a proof). -/

/-- scalar layer: a JSON scalar accepted for a struct field of primitive kind `p` by both decoders decodes to the same
value, for every kind but float32 (go-zero rounds to float64 first: `float32_double_rounding`). -/
theorem agrees_with_std_json_partial (p : Prim) (v : J) (a b : Val) (hp : p ≠ .float 32)
    (hbits : ∀ n, p = .float n → n = 32 ∨ n = 64)
    (hu : fillPrim p v = .ok a) (hs : stdPrim p v = .ok b) : a = b := by
  cases v with
  | num lit =>
    cases p with
    | float n =>
      have h64 : n = 64 := by
        cases hbits n rfl with
        | inl h => subst h; exact absurd rfl hp
        | inr h => exact h
      subst h64
      simp only [fillPrim, stdPrim, convFromString, parseFloat, if_true] at hu hs
      rw [hu] at hs
      injection hs
    | int n => simp only [fillPrim, stdPrim] at hu hs; rw [hu] at hs; injection hs
    | uint n => simp only [fillPrim, stdPrim] at hu hs; rw [hu] at hs; injection hs
    | bool => simp [fillPrim] at hu
    | string => simp [fillPrim] at hu
  | bool x => simp only [fillPrim, stdPrim] at hu hs; rw [hu] at hs; injection hs
  | str x => simp only [fillPrim, stdPrim] at hu hs; rw [hu] at hs; injection hs
  | null => simp [fillPrim] at hu
  | nilArr => simp [fillPrim] at hu
  | arr l => simp [fillPrim] at hu
  | obj m => simp [fillPrim] at hu

example : fillPrim (.int 8) (.num "127".toList) = .ok (.int 127) ∧ stdPrim (.int 8) (.num "127".toList) = .ok (.int 127)
    ∧ fillPrim (.int 8) (.num "128".toList) = .error .err := by decide

def mapTy : Fields := .cons ⟨"M".toList, "m".toList, false, false⟩ (.map (.prim (.int 64))) .nil

/-- both accept `{}` for `struct{ M map[string]int `json:"m"` }`; go-zero yields an empty map, encoding/json a nil map
(equal only up to nil-vs-empty). -/
theorem std_differs_missing_map_nil_vs_empty :
    unmarshalJson mapTy (.obj .nil) = .ok (.struct (.cons "M".toList (.map .nil) .nil)) ∧
    stdDecode mapTy (.obj .nil) = .ok (.struct (.cons "M".toList .nilMap .nil)) := by
  refine ⟨?_, by decide⟩
  simp [unmarshalJson, unmarshalStruct, withoutValue, mapTy, JM.get?, Except.map]

/-- `keysExact` is necessary: `{"M":{"a":1}}` — encoding/json folds the key onto field `m`, go-zero does not see it. -/
theorem std_differs_inexact_key :
    unmarshalJson mapTy (.obj (.cons "M".toList (.obj (.cons "a".toList (.num "1".toList) .nil)) .nil))
      = .ok (.struct (.cons "M".toList (.map .nil) .nil)) ∧
    stdDecode mapTy (.obj (.cons "M".toList (.obj (.cons "a".toList (.num "1".toList) .nil)) .nil))
      = .ok (.struct (.cons "M".toList (.map (.cons "a".toList (.int 1) .nil)) .nil)) := by
  refine ⟨?_, by decide⟩
  simp [unmarshalJson, unmarshalStruct, withoutValue, mapTy, JM.get?, FMeta.tagKey, Except.map]

def nameTy : Fields := .cons ⟨"Name".toList, "name".toList, false, false⟩ (.prim .string) .nil

/-- `noCaseCollision` is necessary: `{"name":"a","NAME":"b"}` — encoding/json lets the later key win. -/
theorem std_differs_case_collision :
    unmarshalJson nameTy (.obj (.cons "name".toList (.str "a".toList) (.cons "NAME".toList (.str "b".toList) .nil)))
      = .ok (.struct (.cons "Name".toList (.str "a".toList) .nil)) ∧
    stdDecode nameTy (.obj (.cons "name".toList (.str "a".toList) (.cons "NAME".toList (.str "b".toList) .nil)))
      = .ok (.struct (.cons "Name".toList (.str "b".toList) .nil)) := by
  refine ⟨?_, by decide⟩
  simp [unmarshalJson, unmarshalStruct, withValue, fillPrim, nameTy, JM.get?, FMeta.tagKey, Except.map]

/-- float32: go-zero converts the literal to float64 and then to float32 (two roundings), `strconv.ParseFloat(s, 32)`
rounds once: `16777217.0000000005` gives 16777216 resp. 16777218. -/
theorem float32_double_rounding :
    fillPrim (.float 32) (.num "16777217.0000000005".toList) = .ok (.flt 16777216 1) ∧
    stdPrim (.float 32) (.num "16777217.0000000005".toList) = .ok (.flt 16777218 1) := by decide

end GoZero.C17
