/-
C17 — property theorems.
-/
import GoZero.C17.Spec
import GoZero.C17.Std
namespace GoZero.C17

/-- the three loaders differ only in the front end that produces the generic tree. -/
theorem load_is_function_of_tree (fs : Fields) (y : Y) (t : T) :
    loadYaml fs y = loadJson fs (yamlGlue y) ∧ loadToml fs t = loadJson fs (tomlGlue t) := ⟨rfl, rfl⟩

end GoZero.C17
