/-
C17 — specification side (core Lean only): what "the same document", "a re-casing of the keys" and
"a document both decoders are specified on" mean, as executable predicates used by the theorems (Props.lean)
and by the driver's monitor.
-/
import GoZero.C17.Model
import GoZero.C17.Buf
namespace GoZero.C17

/-! ### the same document in the three formats

A *document* is a `J` tree without `nilArr`; its rendering as YAML is decoded by yaml.v2 into `embY d`, its rendering as
TOML by go-toml into `embT d` (that the third-party decoders do this is the tested, not proven, part). -/

mutual
def embY : J → Y
  | .null => .null
  | .bool b => .bool b
  | .num lit => match parseInt? lit with
    | some i => if intRepr i = lit then .int i else .float lit
    | none => .float lit
  | .str s => .str s
  | .nilArr => .seq .nil
  | .arr l => .seq (embYList l)
  | .obj m => .map (embYMap m)
def embYList : JL → YL
  | .nil => .nil
  | .cons h t => .cons (embY h) (embYList t)
def embYMap : JM → YM
  | .nil => .nil
  | .cons k v t => .cons (.str k) (embY v) (embYMap t)
end

mutual
/-- TOML has no null: `none`. -/
def embT : J → Option T
  | .null => none
  | .bool b => some (.bool b)
  | .num lit => match parseInt? lit with
    | some i => if intRepr i = lit then some (.int i) else some (.float lit)
    | none => some (.float lit)
  | .str s => some (.str s)
  | .nilArr => some (.arr .nil)
  | .arr l => (embTList l).map .arr
  | .obj m => (embTMap m).map .tbl
def embTList : JL → Option TL
  | .nil => some .nil
  | .cons h t => match embT h, embTList t with
    | some a, some b => some (.cons a b)
    | _, _ => none
def embTMap : JM → Option TM
  | .nil => some .nil
  | .cons k v t => match embT v, embTMap t with
    | some a, some b => some (.cons k a b)
    | _, _ => none
end

mutual
/-- every integer literal fits int64 (go-toml rejects the others). -/
def tomlIntsOk : J → Bool
  | .num lit => match parseInt? lit with
    | some i => intInRange 64 i
    | none => true
  | .arr l => tomlIntsOkList l
  | .obj m => tomlIntsOkMap m
  | _ => true
def tomlIntsOkList : JL → Bool
  | .nil => true
  | .cons h t => tomlIntsOk h && tomlIntsOkList t
def tomlIntsOkMap : JM → Bool
  | .nil => true
  | .cons _ v t => tomlIntsOk v && tomlIntsOkMap t
end

/-! ### documents representable in all three formats -/

def stripZeros : List Char → List Char
  | [] => []
  | c :: cs => match stripZeros cs with
    | [] => if c = '0' then [] else [c]
    | r => c :: r

/-- canonical number literal: an integer `intRepr i` in the int64 range, or a plain decimal `[-]int.frac` without
exponent, without redundant zeros, with at most 15 significant digits (so every formatter prints it back unchanged). -/
def canonNum (lit : Str) : Bool :=
  match parseInt? lit with
  | some i => decide (intRepr i = lit) && intInRange 64 i
  | none =>
    let body := match lit with | '-' :: r => r | _ => lit
    let ip := splitAt (fun c => c = '.') body
    match ip.2 with
    | none => false
    | some frac =>
      allDigits ip.1 && allDigits frac && decide (ip.1 ≠ []) && decide (frac ≠ [])
        && decide (stripZeros frac = frac)
        && (decide (ip.1 = ['0']) || decide (ip.1.head? ≠ some '0'))
        && decide (ip.1.length + frac.length ≤ 15)
        && decide (ip.1.length ≤ 12) && decide (frac.length ≤ 5)

mutual
/-- no null, only canonical numbers: the document value is representable in JSON, YAML and TOML alike. -/
def inScope : J → Bool
  | .null => false
  | .nilArr => false
  | .num lit => canonNum lit
  | .arr l => inScopeList l
  | .obj m => inScopeMap m
  | _ => true
def inScopeList : JL → Bool
  | .nil => true
  | .cons h t => inScope h && inScopeList t
def inScopeMap : JM → Bool
  | .nil => true
  | .cons _ v t => inScope v && inScopeMap t
end

/-- canonical for JSON and YAML (TOML has no integers beyond int64): `canonNum`, or a canonical non-negative integer up
to MaxUint64 (yaml.v2 resolves it to uint64, `toStringKeyMap` prints it back with `lang.Repr`). -/
def canonNumJY (lit : Str) : Bool :=
  canonNum lit ||
    match parseInt? lit with
    | some i => decide (intRepr i = lit) && decide (0 ≤ i) && uintInRange 64 i.toNat
    | none => false

mutual
/-- representable in JSON and YAML alike (the two-format scope of the format clause). -/
def inScopeJY : J → Bool
  | .null => false
  | .nilArr => false
  | .num lit => canonNumJY lit
  | .arr l => inScopeJYList l
  | .obj m => inScopeJYMap m
  | _ => true
def inScopeJYList : JL → Bool
  | .nil => true
  | .cons h t => inScopeJY h && inScopeJYList t
def inScopeJYMap : JM → Bool
  | .nil => true
  | .cons _ v t => inScopeJY v && inScopeJYMap t
end

mutual
def noNull : J → Bool
  | .null => false
  | .arr l => noNullList l
  | .obj m => noNullMap m
  | _ => true
def noNullList : JL → Bool
  | .nil => true
  | .cons h t => noNull h && noNullList t
def noNullMap : JM → Bool
  | .nil => true
  | .cons _ v t => noNull v && noNullMap t
end

mutual
/-- no object has two keys that are equal up to case. -/
def noCaseCollision : J → Bool
  | .arr l => noCaseCollisionList l
  | .obj m => !(hasDup (m.keys.map lower)) && noCaseCollisionMap m
  | _ => true
def noCaseCollisionList : JL → Bool
  | .nil => true
  | .cons h t => noCaseCollision h && noCaseCollisionList t
def noCaseCollisionMap : JM → Bool
  | .nil => true
  | .cons _ v t => noCaseCollision v && noCaseCollisionMap t
end

mutual
/-- no number literal of the document is rounded differently by "decimal → float64 → float32" and "decimal → float32". -/
def f32StableDoc : J → Bool
  | .num lit => decide (parseFloat 32 true lit = parseFloat 32 false lit)
  | .arr l => f32StableList l
  | .obj m => f32StableMap m
  | _ => true
def f32StableList : JL → Bool
  | .nil => true
  | .cons h t => f32StableDoc h && f32StableList t
def f32StableMap : JM → Bool
  | .nil => true
  | .cons _ v t => f32StableDoc v && f32StableMap t
end

/-! ### re-casing of keys (type directed: the keys of a map are data, the keys of a struct are field names) -/

/-- the field (looked up through embedded structs, in declaration order) whose lower-cased key is `lk`. -/
def flatFind? : Fields → Str → Option Ty
  | .nil, _ => none
  | .cons f t rest, lk =>
    if f.embedded then
      match t with
      | .struct fs =>
        match flatFind? fs lk with
        | some x => some x
        | none => flatFind? rest lk
      | _ => flatFind? rest lk
    else if lower f.tagKey = lk then some t else flatFind? rest lk

mutual
/-- `recasedTy t a b`: document `b` is document `a` with the case of some struct-field keys changed.
At a struct position a key that names a field up to case may change its case; every other key and every map key
(data) stays; scalars stay. -/
def recasedTy : Ty → J → J → Bool
  | .struct fs, .obj m, .obj m' => recasedStruct fs m m'
  | .ptr (.struct fs), .obj m, .obj m' => recasedStruct fs m m'
  | .slice t, .arr l, .arr l' => recasedList t l l'
  | .map t, .obj m, .obj m' => recasedMapVals t m m'
  | _, a, b => decide (a = b)
termination_by structural _ a => a
def recasedList (t : Ty) : JL → JL → Bool
  | .nil, .nil => true
  | .cons h r, .cons h' r' => recasedTy t h h' && recasedList t r r'
  | _, _ => false
def recasedMapVals (t : Ty) : JM → JM → Bool
  | .nil, .nil => true
  | .cons k v r, .cons k' v' r' => decide (k' = k) && recasedTy t v v' && recasedMapVals t r r'
  | _, _ => false
def recasedStruct (fs : Fields) : JM → JM → Bool
  | .nil, .nil => true
  | .cons k v r, .cons k' v' r' =>
    (match flatFind? fs (lower k) with
     | some ft => decide (lower k' = lower k) && recasedTy ft v v'
     | none => decide (k' = k) && decide (v' = v))
    && recasedStruct fs r r'
  | _, _ => false
end

mutual
/-- all pointers removed (`buildFieldsInfo` and the re-casing of keys look through pointers of any depth). -/
def derefAll : Ty → Ty
  | .prim p => .prim p
  | .ptr t => derefAll t
  | .slice t => .slice (derefAll t)
  | .map t => .map (derefAll t)
  | .struct fs => .struct (derefAllFields fs)
def derefAllFields : Fields → Fields
  | .nil => .nil
  | .cons f t rest => .cons f (derefAll t) (derefAllFields rest)
end

/-- the three loaders by format, on the renderings of one document. -/
def loadFmtO (o : Opts) (fs : Fields) (d : J) (t : T) : Fmt → R Val
  | .json => loadJsonO o fs d
  | .yaml => loadYamlO o fs (embY d)
  | .toml => loadTomlO o fs t

/-- the same with the deterministic (sorted) walk of `toLowerCaseKeyMap`: the faithful model on documents whose keys
collide up to case. -/
def loadFmtDet (o : Opts) (fs : Fields) (d : J) (t : T) : Fmt → R Val
  | .json => loadJsonDet o fs d
  | .yaml => loadYamlDet o fs (embY d)
  | .toml => loadTomlDet o fs t

def VM.get? : VM → Str → Option Val
  | .nil, _ => none
  | .cons k v t, q => if k = q then some v else t.get? q

/-! ### the fragment on which `mapping.UnmarshalJsonBytes` and `encoding/json` are compared -/

mutual
/-- plain name tags only (no `,optional`, no embedding), and no struct that may be absent
(`structRequired`), so that both decoders are specified on the same inputs. -/
def plainTy : Ty → Bool
  | .prim _ => true
  | .ptr t => plainTy t
  | .slice t => plainTy t
  | .map t => plainTy t
  | .struct fs => plainFields fs && structRequired fs
def plainFields : Fields → Bool
  | .nil => true
  | .cons f t rest => !f.optional && !f.embedded && !f.hasExt && plainTy t && plainFields rest
end

def Fields.keys : Fields → List Str
  | .nil => []
  | .cons f _ rest => f.tagKey :: rest.keys

def Fields.find? : Fields → Str → Option Ty
  | .nil, _ => none
  | .cons f t rest, k => if f.tagKey = k then some t else rest.find? k

mutual
/-- every key of the document that matches a field name up to case matches it exactly
(`UnmarshalJsonBytes` is case sensitive, encoding/json is not). -/
def keysExact : Ty → J → Bool
  | .ptr t, v => keysExact t v
  | .slice t, .arr l => keysExactList t l
  | .map t, .obj m => keysExactMapVals t m
  | .struct fs, .obj m => keysExactStruct fs fs.keys m
  | _, _ => true
def keysExactList (t : Ty) : JL → Bool
  | .nil => true
  | .cons h r => keysExact t h && keysExactList t r
def keysExactMapVals (t : Ty) : JM → Bool
  | .nil => true
  | .cons _ v r => keysExact t v && keysExactMapVals t r
def keysExactStruct (fs : Fields) (ks : List Str) : JM → Bool
  | .nil => true
  | .cons k v r =>
    (if ks.contains k then
       match fs.find? k with
       | some t => keysExact t v
       | none => true
     else !((ks.map lower).contains (lower k)))
    && keysExactStruct fs ks r
end

/-! ### the predicates of the agreement with encoding/json (used by the theorems AND by the monitor) -/

mutual
/-- a document proper: no null (YAML turns it into "", TOML cannot write it) and no `nilArr` (not a document value). -/
def plainDoc : J → Bool
  | .null => false
  | .nilArr => false
  | .arr l => plainDocList l
  | .obj m => plainDocMap m
  | _ => true
def plainDocList : JL → Bool
  | .nil => true
  | .cons h t => plainDoc h && plainDocList t
def plainDocMap : JM → Bool
  | .nil => true
  | .cons _ v t => plainDoc v && plainDocMap t
end

mutual
/-- no struct of the type has two fields with the same key (`encoding/json` would drop both, go-zero fills both). -/
def tyKeysDistinct : Ty → Bool
  | .prim _ => true
  | .ptr t => tyKeysDistinct t
  | .slice t => tyKeysDistinct t
  | .map t => tyKeysDistinct t
  | .struct fs => !hasDup fs.keys && fieldsKeysDistinct fs
def fieldsKeysDistinct : Fields → Bool
  | .nil => true
  | .cons _ t rest => tyKeysDistinct t && fieldsKeysDistinct rest
end

/-- a key that go-zero looks up as it is spelled: not empty and without `.` (go-zero reads `a.b` as the path
`a` → `b`, encoding/json literally: `std_differs_dotted_key`). -/
def keyPlain (k : Str) : Bool := decide (k ≠ []) && !k.contains '.'

mutual
/-- every field key of the type is `keyPlain`. -/
def tyKeysPlain : Ty → Bool
  | .prim _ => true
  | .ptr t => tyKeysPlain t
  | .slice t => tyKeysPlain t
  | .map t => tyKeysPlain t
  | .struct fs => fieldsKeysPlain fs
def fieldsKeysPlain : Fields → Bool
  | .nil => true
  | .cons f t rest => keyPlain f.tagKey && tyKeysPlain t && fieldsKeysPlain rest
end

/-- **the documented differences with encoding/json** (the `open` entries std-* of known_findings.json) as ONE decidable
classification of a (type, document) pair; `none` = the pair lies in none of them.  `agrees_with_encoding_json_total`:
for a plain type, whenever both decoders accept, the values are equal up to nil-vs-empty maps (std-nil-vs-empty-map,
`Val.normNil`) OR the pair is classified here.  The monitor (`stdMonitor`) names the class with this very function. -/
inductive StdClass where
  /-- std-null-elements: the document contains null -/
  | null
  /-- std-case-fold: two keys of one object equal up to case, or a key that names a field only up to case -/
  | caseFold
  /-- std-dotted-key: a tag key that is empty or contains '.' (a path for go-zero, a literal for encoding/json) -/
  | dottedKey
  /-- two fields of one struct carry the same key (go vet `structtag` rejects such a type; encoding/json drops both) -/
  | dupKey
  deriving DecidableEq, Repr

def stdClass (fs : Fields) (j : J) : Option StdClass :=
  if plainDoc j = false then some .null
  else if noCaseCollision j = false ∨ keysExact (.struct fs) j = false then some .caseFold
  else if tyKeysPlain (.struct fs) = false then some .dottedKey
  else if tyKeysDistinct (.struct fs) = false then some .dupKey
  else none

def StdClass.name : StdClass → String
  | .null => "null" | .caseFold => "case-fold" | .dottedKey => "dotted-key" | .dupKey => "duplicate-key"

/-- a sequence of loads in one process through the loader with the merging: no state between them. -/
def loadAllM (o : Opts) (calls : List (Fields × J)) : List (R Val) := calls.map fun c => loadTreeM o c.1 c.2

/-! ### the config center (core/configcenter): a CALLER that selects the loader from a `Type` string (round 5d)

`NewConfigCenter[T](Config{Type}, subscriber)`: `Unmarshaler(strings.ToLower(Type))` (registry json / toml / yaml →
`conf.LoadFrom*Bytes`), `loadConfig` hands the subscribed value to `genValue`, which rejects the empty value and calls
the loader on `[]byte(data)` — the bytes as they came.  `prep` is what is done to the value on the way (`id` in the code
that exists; anything else - trimming, re-encoding - is a different function of the bytes). -/
def ccLoaderOf (typ : Str) : Option Fmt :=
  let t := lower typ
  if t = "json".toList then some .json
  else if t = "toml".toList then some .toml
  else if t = "yaml".toList then some .yaml
  else none

def ccValueWith (prep : Str → Str) (run : Fmt → Str → R Val) (typ data : Str) : R Val :=
  match ccLoaderOf typ with
  | none => .error .err
  | some f => if prep data = [] then .error .err else run f (prep data)

/-- the code that exists. -/
def ccValue (run : Fmt → Str → R Val) (typ data : Str) : R Val := ccValueWith (fun s => s) run typ data

/-- `strings.TrimSpace` on the generator's white space (blank, line break) - for the witness only. -/
def dropWs : Str → Str
  | [] => []
  | c :: cs => if c = ' ' ∨ c = '\n' then dropWs cs else c :: cs
def trimWs (s : Str) : Str := (dropWs (dropWs s).reverse).reverse

/-- what the extractor's flow of `genValue` says the loader receives: the call `c.unmarshaler(x, _)` with `x` the
conversion `[]byte(·)` of the function's OWN parameter and nothing in between. -/
def ccBytesUntouched (calls : List FCall) : Bool :=
  match calls.find? (fun c => c.callee = "c.unmarshaler") with
  | some ⟨_, .result k :: _⟩ =>
    (match calls[k]? with
     | some ⟨"[]byte", [.param 0]⟩ => true
     | _ => false)
  | _ => false

/-! ### the delegating entry points, through their data flow (`Buf.lean` part 2)

The values that travel through `mapping.Unmarshal{Yaml,Toml}{Bytes,Reader}` and `conf.LoadFrom{Yaml,Toml}Bytes`:
the document text, the target pointer, option values, the generic tree a front end renders, a result. -/
inductive EV where
  | yamlText (y : Y) | tomlText (t : T) | jsonTree (j : J) | target | opt (o : MOpt) | res (r : R Val) | bad

def optsOfEVs : List EV → Option (List MOpt)
  | [] => some []
  | .opt o :: r => (optsOfEVs r).map (o :: ·)
  | _ :: _ => none

/-- what the callees of the delegating functions do (`base` = what is not an option: the process environment;
`oc` = the option record `LoadFromJsonBytes` builds itself). -/
def semBase (base oc : Opts) (fs : Fields) (callee : String) (args : List EV) : EV :=
  if callee = "encoding.YamlToJson" then
    match args with
    | [.yamlText y] => .jsonTree (yamlGlue y)
    | _ => .bad
  else if callee = "encoding.TomlToJson" then
    match args with
    | [.tomlText t] => .jsonTree (tomlGlue t)
    | _ => .bad
  else if callee = "UnmarshalJsonBytes" then
    match args with
    | .jsonTree j :: .target :: os =>
      match optsOfEVs os with
      | some l => .res (unmarshalWith (applyMOpts base l) fs j)
      | none => .bad
    | _ => .bad
  else if callee = "LoadFromJsonBytes" then
    match args with
    | [.jsonTree j, .target] => .res (loadJsonO oc fs j)
    | _ => .bad
  else .bad

/-- the reader variants: `io.ReadAll` hands on what it read; the bytes variants are THEIR data flow over `semBase`. -/
def semTop (base oc : Opts) (fs : Fields) (callee : String) (args : List EV) : EV :=
  if callee = "io.ReadAll" then
    match args with
    | [x] => x
    | _ => .bad
  else if callee = "UnmarshalYamlBytes" then
    match args with
    | c :: v :: os => runFwd (semBase base oc fs) [c, v] os .bad fwdYamlBytes
    | _ => .bad
  else if callee = "UnmarshalTomlBytes" then
    match args with
    | c :: v :: os => runFwd (semBase base oc fs) [c, v] os .bad fwdTomlBytes
    | _ => .bad
  else semBase base oc fs callee args

end GoZero.C17
