/-
C17 — executable model of the code that exists (core Lean only).

What is modelled (anchors in /repo):
* the generic tree `J` produced by `jsonx.Unmarshal` (`UseNumber`): null / bool / json.Number literal / string / []any / map[string]any;
* `internal/encoding`: `toStringKeyMap` (the YAML glue) on the value space of yaml.v2 (`Y`), and the TOML value space (`T`)
  re-encoded by `encoding/json` (`encodeToJSON`);
* `core/conf/config.go`: `buildFieldsInfo` (`infoOf`) and `toLowerCaseKeyMap` / `toLowerCaseInterface` (`lowerMap` / `lowerVal`);
* the part of `core/mapping/unmarshaler.go` reached by the type family of the property (named fields with a plain name tag or no
  tag, `,optional`, embedded structs, bool / sized ints / floats / string, one-level pointers to primitives and structs, slices,
  `map[string]T`): `unmarshalStruct`, `withValue`, `withoutValue`, `fillSlice`, `genMap`, `convertTypeFromString`;
* `conf.LoadFromJsonBytes / LoadFromYamlBytes / LoadFromTomlBytes`, `mapping.UnmarshalJsonBytes`, the decision of `conf.Load`.

Strings are `List Char` (kernel-reducible, so that witnesses can be `decide`d).
-/
namespace GoZero.C17

abbrev Str := List Char

/-- ASCII lower-casing of one character (`strings.ToLower` on the ASCII keys of the family). -/
def lowerC (c : Char) : Char :=
  if h : 65 ≤ c.toNat ∧ c.toNat ≤ 90 then
    ⟨UInt32.ofNatLT (c.toNat + 32) (by simp [UInt32.size]; omega), by left; simp [UInt32.toNat_ofNatLT]; omega⟩
  else c

def lower (s : Str) : Str := s.map lowerC

/-! ### generic tree -/

mutual
inductive J where
  | null
  | bool (b : Bool)
  | num (lit : Str)          -- json.Number: the literal text
  | str (s : Str)
  | nilArr                   -- `[]any(nil)` inside an interface (made by `toLowerCaseInterface` from an empty array)
  | arr (l : JL)
  | obj (m : JM)
inductive JL where
  | nil
  | cons (h : J) (t : JL)
inductive JM where
  | nil
  | cons (k : Str) (v : J) (t : JM)
end
deriving instance DecidableEq for J, JL, JM

def JM.get? : JM → Str → Option J
  | .nil, _ => none
  | .cons k v t, q => if k = q then some v else t.get? q

def JM.keys : JM → List Str
  | .nil => []
  | .cons k _ t => k :: t.keys

def JL.isNil : JL → Bool
  | .nil => true
  | _ => false

def JL.length : JL → Nat
  | .nil => 0
  | .cons _ t => t.length + 1

/-- `getJsonUnmarshaler(opts...)`: any option ⇒ a NEW unmarshaller built from exactly these options (so the options
of one call cannot reach another), none ⇒ the package-level default one (which carries no option). -/
def freshUnmarshaler (nOpts : Nat) : Bool := nOpts != 0

/-! ### types of the family -/

inductive Prim where
  | bool
  | int (bits : Nat)
  | uint (bits : Nat)
  | float (bits : Nat)
  | string
  deriving DecidableEq, Repr

/-- `range=[l:r]`: bounds as decimal literals (`[]` = open end), inclusiveness of each side. -/
structure Range where
  leftInc : Bool
  left : Str
  right : Str
  rightInc : Bool
  deriving DecidableEq

structure FMeta where
  name : Str            -- Go field name (exported)
  key : Str             -- name part of the json tag, `[]` = no tag
  optional : Bool       -- `,optional`
  embedded : Bool       -- anonymous struct field (no tag)
  dflt : Str := []              -- `,default=…` (`[]` = none)
  options : List Str := []      -- `,options=a|b`
  range : Option Range := none  -- `,range=[1:5)`
  envVar : Str := []            -- `,env=NAME`
  inherit : Bool := false       -- `,inherit`
  fromString : Bool := false    -- `,string`
  deriving DecidableEq

/-- the tag has option segments beyond `,optional` (`parseKeyAndOptions` returns non-nil options either way). -/
def FMeta.hasExt (f : FMeta) : Bool :=
  f.dflt ≠ [] || f.options ≠ [] || f.range.isSome || f.envVar ≠ [] || f.inherit || f.fromString

def FMeta.hasOpts (f : FMeta) : Bool := f.optional || f.hasExt

def FMeta.tagKey (f : FMeta) : Str := if f.key = [] then f.name else f.key

mutual
inductive Ty where
  | prim (p : Prim)
  | ptr (t : Ty)
  | slice (t : Ty)
  | map (t : Ty)             -- map[string]T
  | struct (fs : Fields)
inductive Fields where
  | nil
  | cons (f : FMeta) (t : Ty) (rest : Fields)
end
deriving instance DecidableEq for Ty, Fields

/-! ### decoded values -/

mutual
inductive Val where
  | bool (b : Bool)
  | int (i : Int)
  | flt (num : Int) (den : Nat)     -- exact value of the float, reduced fraction
  | str (s : Str)
  | nil                              -- nil pointer
  | ptr (v : Val)
  | nilSlice
  | slice (l : VL)
  | nilMap
  | map (m : VM)                     -- entries in document order (Go: unordered)
  | struct (m : VM)                  -- fields in declaration order, embedded structs nested
inductive VL where
  | nil
  | cons (h : Val) (t : VL)
inductive VM where
  | nil
  | cons (k : Str) (v : Val) (t : VM)
end
deriving instance DecidableEq for Val, VL, VM

inductive Err where
  | err        -- the loader returned an error
  | panic      -- the loader panicked
  | unmodelled -- outside the modelled family (the driver reports it, never guesses)
  deriving DecidableEq, Repr

abbrev R := Except Err

deriving instance DecidableEq for Except

/-! ### numbers: `strconv.ParseInt/ParseUint/ParseFloat` on the literals that occur -/

def digit? (c : Char) : Option Nat :=
  if '0' ≤ c ∧ c ≤ '9' then some (c.toNat - 48) else none

def digitsVal : List Char → Nat → Option Nat
  | [], acc => some acc
  | c :: cs, acc => match digit? c with
    | some d => digitsVal cs (acc * 10 + d)
    | none => none

/-- non-empty string of decimal digits -/
def parseNat? (s : Str) : Option Nat :=
  match s with
  | [] => none
  | _ => digitsVal s 0

/-- `strconv.ParseInt(s, 10, _)` without the range check: optional sign, then digits. -/
def parseInt? (s : Str) : Option Int :=
  match s with
  | '-' :: r => (parseNat? r).map fun n => - (n : Int)
  | '+' :: r => (parseNat? r).map fun n => (n : Int)
  | _ => (parseNat? s).map fun n => (n : Int)

def intInRange (bits : Nat) (i : Int) : Bool :=
  decide (-(2 ^ (bits - 1) : Int) ≤ i) && decide (i < (2 ^ (bits - 1) : Int))

def uintInRange (bits : Nat) (n : Nat) : Bool := decide (n < 2 ^ bits)

/-- decimal literal `[+-]digits[.digits][(e|E)[+-]digits]` (at least one mantissa digit) as an exact fraction
`(sign, numerator, denominator)`; `none` = `ParseFloat` syntax error on the literals the generators use. -/
def splitAt (p : Char → Bool) : List Char → List Char × Option (List Char)
  | [] => ([], none)
  | c :: cs => if p c then ([], some cs) else
      let r := splitAt p cs
      (c :: r.1, r.2)

def allDigits (s : Str) : Bool := s.all fun c => (digit? c).isSome

def parseDec? (s : Str) : Option (Bool × Nat × Nat) :=
  let neg := match s with | '-' :: _ => true | _ => false
  let body := match s with | '-' :: r => r | '+' :: r => r | _ => s
  let me := splitAt (fun c => c = 'e' || c = 'E') body
  let mant := me.1
  let ip := splitAt (fun c => c = '.') mant
  let intPart := ip.1
  let fracPart := ip.2.getD []
  if !(allDigits intPart && allDigits fracPart) then none
  else if intPart.length + fracPart.length = 0 then none
  else
    match digitsVal (intPart ++ fracPart) 0 with
    | none => none
    | some m =>
      let k := fracPart.length
      match me.2 with
      | none => some (neg, m, 10 ^ k)
      | some ex =>
        match parseInt? ex with
        | none => none
        | some e =>
          if e ≥ 0 then some (neg, m * 10 ^ e.toNat, 10 ^ k)
          else some (neg, m, 10 ^ (k + (-e).toNat))

/-- round the positive rational `n/d` to `p` significant bits, ties to even: result `(m, e)` with value `m·2^e`
(`e` may be negative). Subnormals / overflow are not modelled (range is checked by the callers). -/
def roundPos (p n d : Nat) : Nat × Int :=
  if n = 0 ∨ d = 0 then (0, 0) else
  -- first guess of the exponent, then correct it by at most two steps
  let e0 : Int := (Nat.log2 n : Int) - (Nat.log2 d : Int) - (p : Int)
  let quot (e : Int) : Nat × Nat × Nat :=     -- (q, rem, denom) with n/(d·2^e) = q + rem/denom
    if e ≥ 0 then
      let dd := d * 2 ^ e.toNat
      (n / dd, n % dd, dd)
    else
      let nn := n * 2 ^ (-e).toNat
      (nn / d, nn % d, d)
  let fix (e : Int) : Int :=
    let q := (quot e).1
    if q ≥ 2 ^ p then e + 1 else if q < 2 ^ (p - 1) then e - 1 else e
  let e := fix (fix (fix e0))
  let r := quot e
  let q := r.1
  let up := decide (2 * r.2.1 > r.2.2) || (decide (2 * r.2.1 = r.2.2) && decide (q % 2 = 1))
  (if up then q + 1 else q, e)

/-- a fraction `±m·2^e` as a reduced `Val.flt`. -/
def mkFlt (neg : Bool) (m : Nat) (e : Int) : Val :=
  let n := if e ≥ 0 then m * 2 ^ e.toNat else m
  let d := if e ≥ 0 then 1 else 2 ^ (-e).toNat
  let g := Nat.gcd n d
  let n' := if g = 0 then 0 else n / g
  let d' := if g = 0 then 1 else d / g
  .flt (if neg then - (n' : Int) else (n' : Int)) d'

def maxFloat32Num : Nat := (2 ^ 24 - 1) * 2 ^ 104
def maxFloat64Num : Nat := (2 ^ 53 - 1) * 2 ^ 971

/-- `json.Number.Float64()` = `ParseFloat(lit, 64)`, then what `processFieldPrimitiveWithJSONNumber` /
`setValueFromString` do for the two float kinds.  `viaF64` : go-zero rounds to float64 first and then converts to
float32 (`SetFloat`); `strconv.ParseFloat(lit, 32)` (used by `convertTypeFromString` and by encoding/json) rounds once. -/
def parseFloat (bits : Nat) (viaF64 : Bool) (lit : Str) : R Val :=
  match parseDec? lit with
  | none => .error .err
  | some (neg, n, d) =>
    let r64 := roundPos 53 n d
    -- float64 overflow (literal rounds beyond MaxFloat64)
    let v64n := if r64.2 ≥ 0 then r64.1 * 2 ^ r64.2.toNat else r64.1
    if r64.2 ≥ 0 ∧ v64n > maxFloat64Num then .error .err else
    if bits = 64 then .ok (mkFlt neg r64.1 r64.2) else
    if viaF64 then
      -- OverflowFloat(f64) for float32: |f64| > MaxFloat32
      if r64.2 ≥ 0 ∧ v64n > maxFloat32Num then .error .err else
      let n2 := if r64.2 ≥ 0 then r64.1 * 2 ^ r64.2.toNat else r64.1
      let d2 := if r64.2 ≥ 0 then 1 else 2 ^ (-r64.2).toNat
      let r32 := roundPos 24 n2 d2
      .ok (mkFlt neg r32.1 r32.2)
    else
      let r32 := roundPos 24 n d
      let v32n := if r32.2 ≥ 0 then r32.1 * 2 ^ r32.2.toNat else r32.1
      if r32.2 ≥ 0 ∧ v32n > maxFloat32Num then .error .err else
      .ok (mkFlt neg r32.1 r32.2)

/-- `convertTypeFromString(kind, str)` + `setMatchedPrimitiveValue`. -/
def convFromString (p : Prim) (s : Str) : R Val :=
  match p with
  | .bool =>
    let l := lower s
    if l = ['1'] ∨ l = "true".toList then .ok (.bool true)
    else if l = ['0'] ∨ l = "false".toList then .ok (.bool false)
    else .error .err
  | .int bits => match parseInt? s with
    | some i => if intInRange bits i then .ok (.int i) else .error .err
    | none => .error .err
  | .uint bits => match parseNat? s with
    | some n => if uintInRange bits n then .ok (.int n) else .error .err
    | none => .error .err
  | .float bits => parseFloat bits false s
  | .string => .ok (.str s)

/-! ### zero values -/

mutual
def zeroOf : Ty → Val
  | .prim .bool => .bool false
  | .prim (.int _) => .int 0
  | .prim (.uint _) => .int 0
  | .prim (.float _) => .flt 0 1
  | .prim .string => .str []
  | .ptr _ => .nil
  | .slice _ => .nilSlice
  | .map _ => .nilMap
  | .struct fs => .struct (zeroFields fs)
def zeroFields : Fields → VM
  | .nil => .nil
  | .cons f t rest => .cons f.name (zeroOf t) (zeroFields rest)
end

/-- `Deref(t).Kind()` classes used by the unmarshaller. -/
inductive Kind where
  | prim (p : Prim) | slice | map | struct
  deriving DecidableEq

def Ty.deref : Ty → Ty
  | .ptr t => t.deref
  | t => t

def Ty.isPtr : Ty → Bool
  | .ptr _ => true
  | _ => false

/-- the family has one-level pointers to primitives and structs only. -/
def wrapPtr (t : Ty) (v : Val) : Val := if t.isPtr then .ptr v else v

/-- `implicitValueRequiredStruct`: a struct value must be present iff some field is required: without tag options a
non-struct field (recursively through non-pointer struct fields), with tag options one that is neither optional nor
has a default. -/
def structRequired : Fields → Bool
  | .nil => false
  | .cons f t rest =>
    (if f.hasOpts then !f.optional && f.dflt = [] else
      match t with
      | .struct fs => structRequired fs
      | _ => true) || structRequired rest

/-! ### unmarshaller options and key lookup -/

/-- `unmarshalOptions`: `WithCanonicalKeyFunc(strings.ToLower)`, `WithStringValues`, `WithFromArray`, `WithOpaqueKeys`. -/
structure Opts where
  canon : Bool := false
  fromString : Bool := false
  fromArray : Bool := false
  opaqueKeys : Bool := false
  /-- NOT an option of go-zero: selects the behaviour of the code before fixes/C17-float32-single-rounding.patch
  (a float32 struct field was converted decimal → float64 → float32). -/
  f32Pinned : Bool := false
  /-- the process environment as seen by `proc.Env` (fields with `,env=NAME`); not an option either. -/
  env : List (Str × Str) := []
  deriving DecidableEq

/-- `strings.FieldsFunc(key, c == '.')`: the non-empty segments. -/
def splitDotsAux : List Char → Str → List Str
  | [], cur => if cur = [] then [] else [cur.reverse]
  | c :: cs, cur =>
    if c = '.' then (if cur = [] then splitDotsAux cs [] else cur.reverse :: splitDotsAux cs [])
    else splitDotsAux cs (c :: cur)

def splitDots (s : Str) : List Str := splitDotsAux s []

def JM.hasKey : JM → Str → Bool
  | .nil, _ => false
  | .cons k _ t, q => k = q || t.hasKey q

def JM.append : JM → JM → JM
  | .nil, b => b
  | .cons k v t, b => .cons k v (t.append b)

def JM.without (vm : JM) : JM → JM
  | .nil => .nil
  | .cons k v t => if vm.hasKey k then JM.without vm t else .cons k v (JM.without vm t)

/-- `recursiveValuer.Value`: the nearest map that has the key wins; when it holds a map and an outer level holds a map
under the same key, the outer entries that the inner map lacks are added (`vm[k] = v`; the mutation of the source
map is not modelled). `cs`: the maps from the nearest outwards. -/
def chainLookup : List JM → Str → Option J
  | [], _ => none
  | c :: rest, k =>
    match c.get? k with
    | none => chainLookup rest k
    | some (.obj vm) =>
      match chainLookup rest k with
      | some (.obj pm) => some (.obj (vm.append (JM.without vm pm)))
      | _ => some (.obj vm)
    | some v => some v

/-- `getValueWithChainedKeys` for the segments after the first: each step descends into a map and searches it and
every enclosing level. -/
def chainKeys : List JM → List Str → Option J
  | _, [] => none
  | cs, [k] => chainLookup cs k
  | cs, k :: ks =>
    match chainLookup cs k with
    | some (.obj n) => chainKeys (n :: cs) ks
    | _ => none

/-- `getValue(createValuer(m, opts), key, opaque)`: `m` the map of the struct being filled, `ps` the maps of the
enclosing structs (nearest first), `inherit` the field's `,inherit` option. -/
def getValue (o : Opts) (inherit : Bool) (ps : List JM) (m : JM) (key : Str) : Option J :=
  let first : Str → Option J := fun k => if inherit then chainLookup (m :: ps) k else m.get? k
  if o.opaqueKeys then first key else
  match splitDots key with
  | [] => none
  | [k] => first k
  | k :: ks =>
    match first k with
    | some (.obj n) => chainKeys (n :: m :: ps) ks
    | _ => none

/-- `WithFromArray`: a field that is not a slice takes the first element of an array value (an empty array stays). -/
def fromArrayAdj (isSlice : Bool) (v : J) : J :=
  if isSlice then v else
  match v with
  | .arr (.cons h _) => h
  | _ => v

/-! ### the unmarshaller -/

/-- `processFieldPrimitive` for a primitive kind and a non-null value. `two`: the pinned float32 conversion
(through float64); the fixed code calls `strconv.ParseFloat(lit, 32)`. -/
def fillPrim (two : Bool) (p : Prim) (v : J) : R Val :=
  match v with
  | .num lit =>
    match p with
    | .int _ | .uint _ => convFromString p lit
    | .float bits => parseFloat bits two lit
    | _ => .error .err
  | .bool b => if p = .bool then .ok (.bool b) else .error .err
  | .str s => if p = .string then .ok (.str s) else .error .err
  | _ => .error .err

/-- `processNamedFieldWithValueFromString` + `fillPrimitive` (`WithStringValues`): the value must be a string or a
`json.Number`; both are converted from their text. -/
def fromStrPrim (p : Prim) (v : J) : R Val :=
  match v with
  | .num lit => convFromString p lit
  | .str s => convFromString p s
  | _ => .error .err

def primField (o : Opts) (p : Prim) (v : J) : R Val :=
  if o.fromString then fromStrPrim p v else fillPrim o.f32Pinned p v

def Ty.isSlice : Ty → Bool
  | .slice _ => true
  | _ => false

/-- element of a slice whose (dereferenced) element kind is primitive: `fillSliceValue`. -/
def sliceElemPrim (p : Prim) (x : J) : R Val :=
  match x with
  | .num lit => convFromString p lit
  | .str s => convFromString p s
  | .bool b => if p = .bool then .ok (.bool b) else .error .err
  | _ => .error .err

/-- element of a map whose (dereferenced) element kind is primitive: the `default` branch of `generateMap`. -/
def mapElemPrim (p : Prim) (x : J) : R Val :=
  match x with
  | .bool b => if p = .bool then .ok (.bool b) else .error .err
  | .str s => if p = .string then .ok (.str s) else .error .err
  | .num lit => convFromString p lit
  | _ => .error .err

/-! ### tag options of a field: `options=`, `range=`, `default=`, `env=`, `,string` -/

def envLookup (env : List (Str × Str)) (name : Str) : Str :=
  match env.find? (fun p => p.1 = name) with
  | some p => p.2
  | none => []

/-- compare two exact fractions `a ≤ b` / `a < b` (`Val.flt n d`, `d > 0`). -/
def fracLe (an : Int) (ad : Nat) (bn : Int) (bd : Nat) : Bool := decide (an * bd ≤ bn * ad)
def fracLt (an : Int) (ad : Nat) (bn : Int) (bd : Nat) : Bool := decide (an * bd < bn * ad)

/-- `validateNumberRange(fv, nr)` on the exact value `n/d` of the float64. -/
def inRange (rg : Range) (n : Int) (d : Nat) : R Unit :=
  let lo : R (Option (Int × Nat)) := if rg.left = [] then .ok none else
    match parseFloat 64 false rg.left with
    | .ok (.flt a b) => .ok (some (a, b))
    | _ => .error .unmodelled
  let hi : R (Option (Int × Nat)) := if rg.right = [] then .ok none else
    match parseFloat 64 false rg.right with
    | .ok (.flt a b) => .ok (some (a, b))
    | _ => .error .unmodelled
  match lo, hi with
  | .ok l, .ok h =>
    let okL := match l with
      | none => true
      | some (a, b) => if rg.leftInc then fracLe a b n d else fracLt a b n d
    let okH := match h with
      | none => true
      | some (a, b) => if rg.rightInc then fracLe n d a b else fracLt n d a b
    if okL && okH then .ok () else .error .err
  | .error e, _ => .error e
  | _, .error e => .error e

/-- `validateJsonNumberRange`: the literal must parse as float64 and lie in the range. -/
def litInRange (rg : Option Range) (lit : Str) : R Unit :=
  match rg with
  | none => .ok ()
  | some r => match parseFloat 64 false lit with
    | .ok (.flt n d) => inRange r n d
    | .ok _ => .error .unmodelled
    | .error e => .error e

/-- `validateValueRange` on a converted Go value: only numbers convert to float64 (`toFloat64`). Integers are compared
exactly (the float64 rounding of integers beyond 2^53 is not modelled; the generated bounds are small). -/
def valInRange (rg : Option Range) (v : Val) : R Unit :=
  match rg with
  | none => .ok ()
  | some r => match v with
    | .int i => inRange r i 1
    | .flt n d => inRange r n d
    | _ => .error .err

def inOptions (opts : List Str) (s : Str) : R Unit :=
  if opts = [] ∨ opts.contains s then .ok () else .error .err

def boolRepr (b : Bool) : Str := if b then "true".toList else "false".toList

/-- a present, non-null value for a field of primitive kind `p` whose tag has options (`f.hasExt`):
`processNamedFieldWithValue` → `processNamedFieldWithValueFromString` / `processFieldPrimitive…`. -/
def primFieldX (o : Opts) (f : FMeta) (p : Prim) (v : J) : R Val :=
  if o.fromString || f.fromString then
    match v with
    | .str s =>
      match inOptions f.options s with
      | .error e => .error e
      | .ok _ => match convFromString p s with
        | .error e => .error e
        | .ok x => match valInRange f.range x with
          | .error e => .error e
          | .ok _ => .ok x
    | .num lit =>
      match inOptions f.options lit with
      | .error e => .error e
      | .ok _ => match litInRange f.range lit with
        | .error e => .error e
        | .ok _ => convFromString p lit
    | _ => .error .err
  else
    match v with
    | .num lit =>
      match litInRange f.range lit with
      | .error e => .error e
      | .ok _ => match inOptions f.options lit with
        | .error e => .error e
        | .ok _ => fillPrim o.f32Pinned p (.num lit)
    | .str s =>
      if p = .string then
        match inOptions f.options s with
        | .error e => .error e
        | .ok _ => if f.range.isSome then .error .err else .ok (.str s)
      else .error .err
    | .bool b =>
      if p = .bool then
        match inOptions f.options (boolRepr b) with
        | .error e => .error e
        | .ok _ => if f.range.isSome then .error .err else .ok (.bool b)
      else .error .err
    | _ => .error .err

/-- `strconv.ParseBool`. -/
def parseBoolGo (s : Str) : R Val :=
  if s ∈ ["1".toList, "t".toList, "T".toList, "TRUE".toList, "true".toList, "True".toList] then .ok (.bool true)
  else if s ∈ ["0".toList, "f".toList, "F".toList, "FALSE".toList, "false".toList, "False".toList] then .ok (.bool false)
  else .error .err

/-- `processFieldWithEnvValue` (the switch is on the kind of the field type itself, pointers not dereferenced).
`int64` (the kind of `time.Duration`) is outside the family: the code sends every int64 field through
`time.ParseDuration`. -/
def withEnv (o : Opts) (f : FMeta) (t : Ty) (ev : Str) : R Val :=
  match inOptions f.options ev with
  | .error e => .error e
  | .ok _ =>
    match t with
    | .prim .bool => parseBoolGo ev
    | .prim .string => .ok (.str ev)
    | .prim p =>
      match litInRange f.range ev with
      | .error e => .error e
      | .ok _ => fillPrim o.f32Pinned p (.num ev)
    | .ptr (.prim p) =>
      match litInRange f.range ev with
      | .error e => .error e
      | .ok _ =>
        -- pinned code (before fixes/C17-float32-single-rounding.patch): the overflow check dereferences the
        -- still-nil pointer field: `reflect.Value.Type` on the zero Value panics
        if o.f32Pinned ∧ p = .float 32 ∧ (parseDec? ev).isSome then .error .panic
        else (fillPrim o.f32Pinned p (.num ev)).map .ptr
    | _ => .error .err

/-- `processNamedFieldWithoutValue` with a `default=`: converted from its text, neither `options` nor `range` apply. -/
def withDefault (t : Ty) (d : Str) : R Val :=
  match t with
  | .prim p => convFromString p d
  | .ptr (.prim p) => (convFromString p d).map .ptr
  | .slice _ => .error .unmodelled
  | .ptr (.slice _) => .error .unmodelled
  | _ => .error .err

/-- a primitive or pointer-to-primitive type: its kind and whether it is the pointer. -/
def Ty.prim? : Ty → Option (Prim × Bool)
  | .prim p => some (p, false)
  | .ptr (.prim p) => some (p, true)
  | _ => none

def VL.allZeroMarks : List Bool → Bool := fun l => l.all id

mutual
/-- `unmarshalWithFullName`: every field of the struct against the same map. -/
def unmarshalStruct (o : Opts) (ps : List JM) : Fields → JM → R VM
  | .nil, _ => .ok .nil
  | .cons f t rest, m =>
    if f.embedded then
      -- processAnonymousFieldRequired: the embedded struct's fields read the same map
      match t with
      | .struct fs =>
        match unmarshalStruct o ps fs m with
        | .error e => .error e
        | .ok inner =>
          match unmarshalStruct o ps rest m with
          | .error e => .error e
          | .ok r => .ok (.cons f.name (.struct inner) r)
      | _ => .error .unmodelled
    else
      let key := if o.canon then lower f.tagKey else f.tagKey
      let found := getValue o f.inherit ps m key
      let found := if o.fromArray then found.map (fromArrayAdj t.isSlice) else found
      let fv : R Val :=
        if f.envVar ≠ [] ∧ envLookup o.env f.envVar ≠ [] then withEnv o f t (envLookup o.env f.envVar) else
        match found with
        | none => if f.dflt ≠ [] then withDefault t f.dflt else withoutValue o t f.optional
        | some .null => if f.optional then .ok (zeroOf t) else .error .err
        | some v =>
          if f.hasExt then
            match t.prim? with
            | some (p, false) => primFieldX o f p v
            | some (p, true) => (primFieldX o f p v).map .ptr
            | none => withValue o (m :: ps) t v
          else withValue o (m :: ps) t v
      match fv with
      | .error e => .error e
      | .ok x =>
        match unmarshalStruct o ps rest m with
        | .error e => .error e
        | .ok r => .ok (.cons f.name x r)

termination_by fs _ => (sizeOf fs, 0, 0)

/-- `processNamedFieldWithoutValue` (no default, no env). -/
def withoutValue (o : Opts) : Ty → Bool → R Val
  | t, true => .ok (zeroOf t)
  | .prim _, false => .error .err
  | .ptr (.prim _), false => .error .err
  | .slice _, false => .error .err                 -- emptyMap into a slice: "type mismatch"
  | .map _, false => .ok (.map .nil)               -- emptyMap into a map: an empty, non-nil map
  | .struct fs, false =>
    if structRequired fs then .error .err
    else match unmarshalStruct o [] fs .nil with
      | .ok m => .ok (.struct m)
      | .error e => .error e
  | .ptr (.struct fs), false =>
    if structRequired fs then .error .err
    else match unmarshalStruct o [] fs .nil with
      | .ok m => .ok (.ptr (.struct m))
      | .error e => .error e
  | .ptr _, false => .error .unmodelled

termination_by t _ => (sizeOf t, 0, 0)

/-- `processNamedFieldWithValue` for a non-null value. -/
def withValue (o : Opts) (ps : List JM) : Ty → J → R Val
  | .prim p, v => primField o p v
  | .ptr (.prim p), v => (primField o p v).map .ptr
  | .struct fs, .obj m => (unmarshalStruct o ps fs m).map .struct
  | .struct _, _ => .error .err
  | .ptr (.struct fs), .obj m => (unmarshalStruct o ps fs m).map fun x => .ptr (.struct x)
  | .ptr (.struct _), _ => .error .err
  | .slice t, .arr l => fillSlice o t l
  | .slice _, .nilArr => .ok .nilSlice
  | .slice _, _ => .error .err                      -- a string would be parsed as JSON (not in the generators)
  | .map t, .obj m => (genMap o t m).map .map
  | .map _, _ => .error .err
  | .ptr _, _ => .error .unmodelled

termination_by t _ => (sizeOf t, 0, 0)

/-- `fillSlice` on a non-nil `[]any`: empty ⇒ empty slice; every element null ⇒ the field stays nil. -/
def fillSlice (o : Opts) (t : Ty) (l : JL) : R Val :=
  if l.isNil then .ok (.slice .nil) else
    match sliceElems o t l with
    | .error e => .error e
    | .ok (vs, anyValid) => if anyValid then .ok (.slice vs) else .ok .nilSlice

termination_by (sizeOf t, sizeOf l, 1)

/-- elements of `fillSlice`, and whether any element was non-null. -/
def sliceElems (o : Opts) (t : Ty) : JL → R (VL × Bool)
  | .nil => .ok (.nil, false)
  | .cons x rest =>
    let ev : R (Val × Bool) :=
      match x with
      | .null => .ok (zeroOf t, false)
      | _ =>
        match t with
        | .struct fs => match x with
          | .obj m => (unmarshalStruct o [] fs m).map fun s => (.struct s, true)
          | _ => .error .err
        | .ptr (.struct fs) => match x with
          | .obj m => (unmarshalStruct o [] fs m).map fun s => (.ptr (.struct s), true)
          | _ => .error .err
        | .slice t' => match x with
          | .arr l' => (fillSlice o t' l').map fun s => (s, true)
          | .nilArr => .ok (.nilSlice, true)
          | _ => .error .err
        | .prim p => (sliceElemPrim p x).map fun s => (s, true)
        | .ptr (.prim p) => (sliceElemPrim p x).map fun s => (.ptr s, true)
        | .map t' => match x with
          | .obj m => (genMap o t' m).map fun s => (.map s, true)
          | _ => .error .err
        | .ptr _ => .error .unmodelled
    match ev with
    | .error e => .error e
    | .ok (v, valid) =>
      match sliceElems o t rest with
      | .error e => .error e
      | .ok (vs, anyValid) => .ok (.cons v vs, valid || anyValid)

termination_by l => (sizeOf t, sizeOf l, 0)

/-- `generateMap` for `map[string]T` from a `map[string]any`. -/
def genMap (o : Opts) (t : Ty) : JM → R VM
  | .nil => .ok .nil
  | .cons k x rest =>
    let ev : R Val :=
      match t with
      | .slice t' => match x with
        | .arr l' => fillSlice o t' l'
        | .nilArr => .ok .nilSlice
        | .null => .error .err            -- fillSlice: `reflect.ValueOf(nil).Kind() != reflect.Slice`
        | _ => .error .err
      | .struct fs => match x with
        | .obj m => (unmarshalStruct o [] fs m).map .struct
        | _ => .error .err
      | .ptr (.struct fs) => match x with
        | .obj m => (unmarshalStruct o [] fs m).map fun s => .ptr (.struct s)
        | _ => .error .err
      | .map t' => match x with
        | .obj m => (genMap o t' m).map .map
        | _ => .error .err
      | .prim p => mapElemPrim p x
      -- `SetMapIndexValue(elemType, …, target.Elem())`: the entry points at the cell allocated for THIS key
      | .ptr (.prim p) => (mapElemPrim p x).map .ptr
      | .ptr _ => .error .unmodelled
    match ev with
    | .error e => .error e
    | .ok v =>
      match genMap o t rest with
      | .error e => .error e
      | .ok vs => .ok (.cons k v vs)
termination_by m => (sizeOf t, sizeOf m, 0)

end

/-! ### allocation discipline of `generateMap` / `fillSlice`

`Val` is a tree: two entries of a decoded map / slice never share a cell.  This is what the code does as long as the
cell an entry points at is allocated inside the loop over the keys / indices (`target := reflect.New(…)` in the loop
body of `generateMap`, `conv.Index(i)` / `reflect.New` per index in `fillSlice` / `fillSliceValue` /
`fillStructElement`); Tie `tie_genMapAlloc`, `tie_fillSliceAlloc` pin the allocation sites.  `entryCells` states the
discipline explicitly: the address handed to every entry of one container. -/

inductive AllocSite where
  | perEntry   -- allocated in the loop body: a fresh cell for every key / index (the code that exists)
  | hoisted    -- one scratch cell allocated before the loop (seeded change C17-5)
  deriving DecidableEq, Repr

/-- the cell of each entry; `next` = the allocator's next free address. -/
def entryCells (site : AllocSite) (next : Nat) : List Str → List (Str × Nat)
  | [] => []
  | k :: ks =>
    match site with
    | .perEntry => (k, next) :: entryCells site (next + 1) ks
    | .hoisted => (k, next) :: entryCells site next ks

/-- the discipline the model (a tree of values) stands for. -/
def genMapSite : AllocSite := .perEntry
def fillSliceSite : AllocSite := .perEntry

/-- `conf.Load`: the option record is a fresh zero value per call (`var opt options` inside `Load`), every option of
THIS call is applied to it.  `shared = some st`: the record lives outside the call (seeded change C17-4: a pointer to a
package-level default) and `st` is what earlier calls left in it. -/
structure ConfOptions where
  env : Bool := false
  deriving DecidableEq, Repr

inductive ConfOption where
  | useEnv
  deriving DecidableEq, Repr

def ConfOption.apply (_ : ConfOption) (_ : ConfOptions) : ConfOptions := { env := true }

/-- `var opt options; for _, o := range opts { o(&opt) }`. -/
def buildOptions (opts : List ConfOption) : ConfOptions := opts.foldl (fun acc o => o.apply acc) {}

/-- the same loop over a record that outlives the call (NOT the code that exists). -/
def buildOptionsShared (st : ConfOptions) (opts : List ConfOption) : ConfOptions := opts.foldl (fun acc o => o.apply acc) st

/-- a sequence of `conf.Load` calls in one process: (options of the call, content); what each call hands to its loader. -/
def loadSeq (expand : Str → Str) : List (List ConfOption × Str) → List Str
  | [] => []
  | (opts, c) :: rest => (if (buildOptions opts).env then expand c else c) :: loadSeq expand rest

/-- the sequence with a record shared between the calls. -/
def loadSeqShared (expand : Str → Str) (st : ConfOptions) : List (List ConfOption × Str) → List Str
  | [] => []
  | (opts, c) :: rest =>
    let o := buildOptionsShared st opts
    (if o.env then expand c else c) :: loadSeqShared expand o rest

/-! ### `buildFieldsInfo` and `toLowerCaseKeyMap` -/

mutual
/-- `fieldInfo`: `children` and `mapField` (never both filled). -/
inductive Info where
  | node (children : IM)
  | mapOf (elem : Info)         -- `{children: {}, mapField: elem}`
inductive IM where
  | nil
  | cons (k : Str) (i : Info) (rest : IM)
end
deriving instance DecidableEq for Info, IM

def IM.get? : IM → Str → Option Info
  | .nil, _ => none
  | .cons k i t, q => if k = q then some i else t.get? q

def IM.append : IM → IM → IM
  | .nil, b => b
  | .cons k i t, b => .cons k i (t.append b)

def IM.keys : IM → List Str
  | .nil => []
  | .cons k _ t => k :: t.keys

def Info.child? : Info → Str → Option Info
  | .node c, k => c.get? k
  | .mapOf _, _ => none

def Info.mapField? : Info → Option Info
  | .node _ => none
  | .mapOf e => some e

mutual
/-- `buildFieldsInfo(tp)`: pointers and slices are looked through, a map records its element info as `mapField`
(its keys are data), a struct gives its children. -/
def infoOf : Ty → Info
  | .prim _ => .node .nil
  | .ptr t => infoOf t
  | .slice t => infoOf t
  | .map t => .mapOf (infoOf t)
  | .struct fs => .node (infoFields fs)
/-- `buildStructFieldsInfo`: named fields by lower-cased key (a map-typed field records its element info as
`mapField`), embedded structs flattened. Key conflicts are detected separately (`infoConflict`). -/
def infoFields : Fields → IM
  | .nil => .nil
  | .cons f t rest =>
    if f.embedded then
      match t with
      | .struct fs => (infoFields fs).append (infoFields rest)
      | _ => infoFields rest
    else
      .cons (lower f.tagKey) (infoField t) (infoFields rest)
/-- `buildNamedFieldInfo` on `Deref(field.Type)`: a map-typed field records its element info as `mapField`. -/
def infoField : Ty → Info
  | .ptr t => infoField t
  | .map e => .mapOf (infoOf e)
  | .prim _ => .node .nil
  | .slice t => infoOf t
  | .struct fs => .node (infoFields fs)
end

mutual
/-- `buildFieldsInfo` as it was before fixes/C17-map-keys-are-data.patch: a map that is not itself a struct field
(element of a slice or of another map) was looked through like a slice, so its keys were matched against the
field names of its element type. Kept for the witness theorem `pinned_info_not_case_insensitive`. -/
def infoOfPinned : Ty → Info
  | .prim _ => .node .nil
  | .ptr t => infoOfPinned t
  | .slice t => infoOfPinned t
  | .map t => infoOfPinned t
  | .struct fs => .node (infoFieldsPinned fs)
def infoFieldsPinned : Fields → IM
  | .nil => .nil
  | .cons f t rest =>
    if f.embedded then
      match t with
      | .struct fs => (infoFieldsPinned fs).append (infoFieldsPinned rest)
      | _ => infoFieldsPinned rest
    else
      .cons (lower f.tagKey) (infoFieldPinned t) (infoFieldsPinned rest)
def infoFieldPinned : Ty → Info
  | .ptr t => infoFieldPinned t
  | .map e => .mapOf (infoOfPinned e)
  | .prim _ => .node .nil
  | .slice t => infoOfPinned t
  | .struct fs => .node (infoFieldsPinned fs)
end

def hasDup : List Str → Bool
  | [] => false
  | k :: ks => ks.contains k || hasDup ks

mutual
/-- `buildFieldsInfo` returns a conflict error (modelled for the family: any repeated lower-cased key among the
flattened fields of one struct; the generators never build two *struct* fields with the same key, which the code would merge). -/
def infoConflict : Ty → Bool
  | .prim _ => false
  | .ptr t => infoConflict t
  | .slice t => infoConflict t
  | .map t => infoConflict t
  | .struct fs => hasDup (infoFields fs).keys || fieldsConflict fs
def fieldsConflict : Fields → Bool
  | .nil => false
  | .cons _ t rest => infoConflict t || fieldsConflict rest
end

mutual
/-- `toLowerCaseInterface`. -/
def lowerVal (i : Info) : J → J
  | .obj m => .obj (lowerMap i m)
  | .arr .nil => .nilArr                  -- `var arr []any` stays nil when nothing is appended
  | .arr l => .arr (lowerList i l)
  | v => v
def lowerList (i : Info) : JL → JL
  | .nil => .nil
  | .cons h t => .cons (lowerVal i h) (lowerList i t)
/-- `toLowerCaseKeyMap`. -/
def lowerMap (i : Info) : JM → JM
  | .nil => .nil
  | .cons k v t =>
    match i.child? k with
    | some ti => .cons k (lowerVal ti v) (lowerMap i t)
    | none =>
      match i.child? (lower k) with
      | some ti => .cons (lower k) (lowerVal ti v) (lowerMap i t)
      | none =>
        match i.mapField? with
        | some mi => .cons k (lowerVal mi v) (lowerMap i t)
        | none => .cons k (lowerUnknown i v) (lowerMap i t)
/-- the value under a key that names no field: a nested map is walked with the same info, anything else is kept. -/
def lowerUnknown (i : Info) : J → J
  | .obj vv => .obj (lowerMap i vv)
  | v => v
end

/-! ### the loaders -/

/-- the options of `conf.LoadFromJsonBytes`: `WithCanonicalKeyFunc(toLowerCase)` only. -/
def confOpts : Opts := { canon := true }

/-- `conf.LoadFromJsonBytes` after `jsonx.Unmarshal(content, &m)` gave the tree `j` (`m map[string]any`).
`o` = `confOpts` plus what is not an option (the process environment read by `,env=` fields). -/
def loadTreeWithO (o : Opts) (info : Info) (fs : Fields) (j : J) : R Val :=
  if infoConflict (.struct fs) then .error .err else
  match j with
  | .obj m => (unmarshalStruct o [] fs (lowerMap info m)).map .struct
  | .null => (unmarshalStruct o [] fs .nil).map .struct
  | _ => .error .err

def loadTreeWith (info : Info) (fs : Fields) (j : J) : R Val := loadTreeWithO confOpts info fs j

def loadTreeO (o : Opts) (fs : Fields) (j : J) : R Val := loadTreeWithO o (infoOf (.struct fs)) fs j

def loadTree (fs : Fields) (j : J) : R Val := loadTreeO confOpts fs j

/-- `mapping.UnmarshalJsonBytes` (`var m any`, default unmarshaller: exact keys). -/
def unmarshalWith (o : Opts) (fs : Fields) (j : J) : R Val :=
  match j with
  | .obj m => (unmarshalStruct o [] fs m).map .struct
  | _ => .error .err

def unmarshalJson (fs : Fields) (j : J) : R Val := unmarshalWith {} fs j

/-! ### front ends: the value spaces of yaml.v2 and go-toml, and the glue to the generic tree -/

mutual
/-- what `yaml.Unmarshal(data, &val)` (yaml.v2, `val any`) can produce. -/
inductive Y where
  | null
  | bool (b : Bool)
  | int (i : Int)             -- int / int64 / uint64
  | float (repr : Str)        -- float64; `repr` = `strconv.FormatFloat(f, 'f', -1, 64)`
  | str (s : Str)
  | seq (l : YL)
  | map (m : YM)              -- map[any]any
inductive YL where
  | nil
  | cons (h : Y) (t : YL)
inductive YM where
  | nil
  | cons (k : Y) (v : Y) (t : YM)
end

def natDigits (n : Nat) : Str := (Nat.toDigits 10 n)

def intRepr (i : Int) : Str :=
  if i < 0 then '-' :: natDigits i.natAbs else natDigits i.natAbs

/-- `lang.Repr` on a scalar key / value. -/
def yRepr : Y → Str
  | .null => []
  | .bool b => if b then "true".toList else "false".toList
  | .int i => intRepr i
  | .float r => r
  | .str s => s
  | _ => "?".toList       -- composite keys: not in the family

mutual
/-- `toStringKeyMap`. -/
def yamlGlue : Y → J
  | .seq l => .arr (yamlGlueList l)
  | .map m => .obj (yamlGlueMap m)
  | .bool b => .bool b
  | .str s => .str s
  | .int i => .num (intRepr i)
  | .float r => .num r
  | .null => .str []          -- `default: lang.Repr(nil)` = ""
def yamlGlueList : YL → JL
  | .nil => .nil
  | .cons h t => .cons (yamlGlue h) (yamlGlueList t)
def yamlGlueMap : YM → JM
  | .nil => .nil
  | .cons k v t => .cons (yRepr k) (yamlGlue v) (yamlGlueMap t)
end

mutual
/-- what go-toml's `Decode(&val)` (`val any`) can produce (dates are outside the family). -/
inductive T where
  | bool (b : Bool)
  | int (i : Int)             -- int64
  | float (repr : Str)        -- float64; `repr` = how `encoding/json` prints it
  | str (s : Str)
  | arr (l : TL)
  | tbl (m : TM)              -- map[string]any
inductive TL where
  | nil
  | cons (h : T) (t : TL)
inductive TM where
  | nil
  | cons (k : Str) (v : T) (t : TM)
end

mutual
/-- `encodeToJSON` followed by `jsonx.Unmarshal` (numbers come back as literals). -/
def tomlGlue : T → J
  | .arr l => .arr (tomlGlueList l)
  | .tbl m => .obj (tomlGlueMap m)
  | .bool b => .bool b
  | .str s => .str s
  | .int i => .num (intRepr i)
  | .float r => .num r
def tomlGlueList : TL → JL
  | .nil => .nil
  | .cons h t => .cons (tomlGlue h) (tomlGlueList t)
def tomlGlueMap : TM → JM
  | .nil => .nil
  | .cons k v t => .cons k (tomlGlue v) (tomlGlueMap t)
end

def loadYaml (fs : Fields) (y : Y) : R Val := loadTree fs (yamlGlue y)
def loadToml (fs : Fields) (t : T) : R Val := loadTree fs (tomlGlue t)
def loadJson (fs : Fields) (j : J) : R Val := loadTree fs j
def loadYamlO (o : Opts) (fs : Fields) (y : Y) : R Val := loadTreeO o fs (yamlGlue y)
def loadTomlO (o : Opts) (fs : Fields) (t : T) : R Val := loadTreeO o fs (tomlGlue t)
def loadJsonO (o : Opts) (fs : Fields) (j : J) : R Val := loadTreeO o fs j

/-- `mapping.UnmarshalYamlBytes / UnmarshalYamlReader` and `mapping.UnmarshalTomlBytes / UnmarshalTomlReader`:
the front end, then `UnmarshalJsonBytes` with the SAME options. -/
def unmarshalYaml (o : Opts) (fs : Fields) (y : Y) : R Val := unmarshalWith o fs (yamlGlue y)
def unmarshalToml (o : Opts) (fs : Fields) (t : T) : R Val := unmarshalWith o fs (tomlGlue t)

/-! ### Go maps have no order: the loader on a document with keys that collide up to case

`toLowerCaseKeyMap` (with fixes/C17-case-collision-deterministic.patch) walks the keys of every map in ascending order
and a later key overwrites an earlier one with the same lower-cased name.  On association lists with first-match
lookup this is: sort the entries of every object in DEscending key order, then `lowerMap`. -/

def strLtM : Str → Str → Bool
  | [], [] => false
  | [], _ :: _ => true
  | _ :: _, [] => false
  | a :: as, b :: bs => if a.toNat < b.toNat then true else if a.toNat > b.toNat then false else strLtM as bs

def JM.insertDesc (k : Str) (v : J) : JM → JM
  | .nil => .cons k v .nil
  | .cons k' v' t => if strLtM k k' then .cons k' v' (JM.insertDesc k v t) else .cons k v (.cons k' v' t)

mutual
def sortDoc : J → J
  | .arr l => .arr (sortDocList l)
  | .obj m => .obj (sortDocMap m)
  | v => v
def sortDocList : JL → JL
  | .nil => .nil
  | .cons h t => .cons (sortDoc h) (sortDocList t)
def sortDocMap : JM → JM
  | .nil => .nil
  | .cons k v t => JM.insertDesc k (sortDoc v) (sortDocMap t)
end

def loadJsonDet (o : Opts) (fs : Fields) (j : J) : R Val := loadJsonO o fs (sortDoc j)
def loadYamlDet (o : Opts) (fs : Fields) (y : Y) : R Val := loadJsonO o fs (sortDoc (yamlGlue y))
def loadTomlDet (o : Opts) (fs : Fields) (t : T) : R Val := loadJsonO o fs (sortDoc (tomlGlue t))

/-- `conf.FillDefault`: `WithDefault()` on an empty map — every field takes its environment value, else its default,
else a non-pointer struct is filled recursively, anything else stays zero. -/
def fillDefaults (o : Opts) : Fields → R VM
  | .nil => .ok .nil
  | .cons f t rest =>
    let fv : R Val :=
      if f.embedded then
        match t with
        | .struct fs => (fillDefaults o fs).map .struct
        | _ => .error .unmodelled
      else if f.envVar ≠ [] ∧ envLookup o.env f.envVar ≠ [] then withEnv o f t (envLookup o.env f.envVar)
      else if f.dflt ≠ [] then withDefault t f.dflt
      else match t with
        | .struct fs => (fillDefaults o fs).map .struct
        | _ => .ok (zeroOf t)
    match fv with
    | .error e => .error e
    | .ok x => match fillDefaults o rest with
      | .error e => .error e
      | .ok r => .ok (.cons f.name x r)

/-! ### `conf.Load`: which loader, and whether the environment is expanded -/

inductive Fmt where | json | yaml | toml
  deriving DecidableEq, Repr

/-- `loaders[strings.ToLower(path.Ext(file))]`. -/
def loaderOf (ext : Str) : Option Fmt :=
  let e := lower ext
  if e = ".json".toList then some .json
  else if e = ".toml".toList then some .toml
  else if e = ".yaml".toList ∨ e = ".yml".toList then some .yaml
  else none

/-- the content handed to the loader by `conf.Load`: `os.ExpandEnv` is applied iff `UseEnv()` was given. -/
def loadContent (expand : Str → Str) (useEnv : Bool) (content : Str) : Str :=
  if useEnv then expand content else content

/-! ### `buildStructFieldsInfo` WITH its merging (`addOrMergeFields`, `mergeFields`), round 5c

`infoFields` lists the flattened fields; the code adds them one after the other into a map and, when a lower-cased key
is already there, MERGES (two struct-typed fields under one key whose children are disjoint) or reports a conflict
(a map child, a leaf on either side, a repeated grand-child).  `none` = `newConflictKeyError`.  Nested levels are built
by `infoField` / `infoOf` (their own conflicts: `fieldsConflict`). -/

def IM.isEmpty : IM → Bool
  | .nil => true
  | _ => false

def IM.set : IM → Str → Info → IM
  | .nil, _, _ => .nil
  | .cons k i t, q, n => if k = q then .cons k n t else .cons k i (t.set q n)

/-- the loop of `mergeFields`: every new child must be absent. -/
def mergeChildren (prev : IM) : IM → Option IM
  | .nil => some prev
  | .cons k i t => if (prev.get? k).isSome then none else mergeChildren (prev.append (.cons k i .nil)) t

/-- `mergeFields(prev, children)`; `none` = `newConflictKeyError`. -/
def mergeFieldsM (prev : Info) (children : IM) : Option Info :=
  match prev with
  | .node pc => if pc.isEmpty || children.isEmpty then none else (mergeChildren pc children).map .node
  | .mapOf _ => none

/-- `addOrMergeFields(info, key, child)`. -/
def addOrMerge (info : IM) (key : Str) (child : Info) : Option IM :=
  match info.get? key with
  | some prev =>
    match child with
    | .mapOf _ => none
    | .node cc => (mergeFieldsM prev cc).map (info.set key)
  | none => some (info.append (.cons key child .nil))

/-- `buildStructFieldsInfo`: the (flattened) fields added one after the other. -/
def addAll : IM → IM → Option IM
  | acc, .nil => some acc
  | acc, .cons k i t =>
    match addOrMerge acc k i with
    | none => none
    | some acc' => addAll acc' t

def infoFieldsM (fs : Fields) : Option IM := addAll .nil (infoFields fs)

/-- **the loader with the merging** (round 5e): `conf.LoadFromJsonBytes` on ANY struct type, also one whose flattened fields
repeat a lower-cased key: the info is what `buildStructFieldsInfo` builds through `addOrMergeFields` (`infoFieldsM`; `none`
= conflict error), a PURE function of the type.  Equal to `loadTreeO` when no key repeats (`loadTreeM_eq_loadTreeO`). -/
def loadTreeM (o : Opts) (fs : Fields) (j : J) : R Val :=
  if fieldsConflict fs then .error .err else
  match infoFieldsM fs with
  | none => .error .err
  | some im =>
    match j with
    | .obj m => (unmarshalStruct o [] fs (lowerMap (.node im) m)).map .struct
    | .null => (unmarshalStruct o [] fs .nil).map .struct
    | _ => .error .err

/-- NOT the code that exists (seeded C17-10): the info of a named struct type is kept between loads and `mergeFields`
writes into it.  `kept` = the children of the first embedded struct as the previous loads left them. -/
def infoFieldsShared (kept : IM) (others : IM) : Option IM := addAll .nil (kept.append others)

/-! ### the decisions of the unmarshaller's dispatch functions (round 5c)

The routing that `unmarshalStruct` / `withValue` / `withoutValue` implement, as first-order decision functions; `Tie.lean`
proves the Go conditions (translated by `c17CondsSw`, in source order) equal to them for ALL arguments, `Props.lean`
proves that the model follows them. -/

/-- the `reflect.Kind`s the dispatch looks at (a `json.Number` and a string both have kind String). -/
inductive RK where
  | map | slice | string | struct | other
  deriving DecidableEq, Repr

/-- `processFieldNotFromString`: which filler a (value kind, dereferenced field kind) pair reaches. -/
inductive NfsRoute where
  | structFromMap | fillSlice | fillMap | mapFromString | sliceFromString | duration | unmarshalerStruct | primitive
  deriving DecidableEq, Repr

def nfsRoute (vk tk : RK) (isDuration implUnm : Bool) : NfsRoute :=
  match vk, tk with
  | .map, .struct => .structFromMap
  | .slice, .slice => .fillSlice
  | .map, .map => .fillMap
  | .string, .map => .mapFromString
  | .string, .slice => .sliceFromString
  | .string, tk => if isDuration then .duration else if tk = .struct && implUnm then .unmarshalerStruct else .primitive
  | _, _ => .primitive

def kindOfJ : J → RK
  | .obj _ => .map
  | .arr _ => .slice
  | .nilArr => .slice
  | .str _ => .string
  | .num _ => .string
  | _ => .other

/-- the kind of the DEREFERENCED field type (`Deref(fieldType).Kind()`). -/
def kindOfTy : Ty → RK
  | .ptr t => kindOfTy t
  | .struct _ => .struct
  | .slice _ => .slice
  | .map _ => .map
  | .prim .string => .string
  | .prim _ => .other

/-- `processNamedField`: what happens to one named field. -/
inductive FieldRoute where
  | skip | env | noValue | value
  deriving DecidableEq, Repr

def fieldRoute (exported ignored hasEnvVar envSet fillDefault hasValue : Bool) : FieldRoute :=
  if !exported || ignored then .skip
  else if hasEnvVar && envSet then .env
  else if fillDefault || !hasValue then .noValue
  else .value

/-- the route the model's `unmarshalStruct` takes for a field (exported, never `-`, no fillDefault). -/
def modelFieldRoute (o : Opts) (f : FMeta) (found : Option J) : FieldRoute :=
  fieldRoute true false (decide (f.envVar ≠ [])) (decide (envLookup o.env f.envVar ≠ [])) false found.isSome

/-- what `unmarshalStruct` looks up for a field (canonical key, parent chain, `WithFromArray`). -/
def modelFound (o : Opts) (ps : List JM) (f : FMeta) (t : Ty) (m : JM) : Option J :=
  if o.fromArray then (getValue o f.inherit ps m (if o.canon then lower f.tagKey else f.tagKey)).map (fromArrayAdj t.isSlice)
  else getValue o f.inherit ps m (if o.canon then lower f.tagKey else f.tagKey)

/-- `WithFromArray` inside `processNamedField`: the first element is taken iff the field is no slice / array, the value
is one, and it is not empty. -/
def fromArrayTakesFirst (fromArray valueNil fieldIsSeq valueIsSeq : Bool) (len : Int) : Bool :=
  fromArray && !valueNil && !fieldIsSeq && valueIsSeq && decide (len > 0)

def JL.lengthInt : JL → Int
  | .nil => 0
  | .cons _ t => t.lengthInt + 1

def jSeqLen : J → Int
  | .arr l => l.lengthInt
  | _ => 0

/-- `processNamedFieldWithValue` on a nil value, and the from-string decision for primitive kinds. -/
def nilValueAccepted (optional : Bool) : Bool := optional
def primFromString (uFromString fFromString : Bool) : Bool := uFromString || fFromString

/-! ### the option LIST of the mapping entry points

`mapping.UnmarshalJsonBytes(content, v, opts...)`: `getJsonUnmarshaler` builds `NewUnmarshaler(jsonTagKey, opts...)`, which
applies every option in order to a zero `unmarshalOptions` record (Tie `tie_mNewUnmarshaler`, `tie_opt*`); each `With…`
sets one flag.  The caller may pass any list: any length, order, repetitions. -/
inductive MOpt where
  | canonLower | stringValues | fromArray | opaqueKeys
  deriving DecidableEq, Repr

def MOpt.apply (o : Opts) : MOpt → Opts
  | .canonLower => { o with canon := true }
  | .stringValues => { o with fromString := true }
  | .fromArray => { o with fromArray := true }
  | .opaqueKeys => { o with opaqueKeys := true }

def applyMOpts (base : Opts) (l : List MOpt) : Opts := l.foldl MOpt.apply base

end GoZero.C17
