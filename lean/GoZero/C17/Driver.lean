/-
C17 — driver: replays an implementation trace through the model (correspondence) and the monitor.

  type <T>                          => ok
  load <style> <doc> <doc2|->       => jy= jt= LJ= LY= LT= [RJ= RY= RT=] U= S=
  file <ext> <env> <pre> <var> <val> <post> => ok:"…" | err
-/
import GoZero.Base.Trace
import GoZero.C17.Spec
import GoZero.C17.Std
namespace GoZero.C17

open GoZero

/-! ### parsers for the op syntax -/

def takeUntil (stop : Char → Bool) : List Char → List Char × List Char
  | [] => ([], [])
  | c :: cs => if stop c then ([], c :: cs) else
    let r := takeUntil stop cs
    (c :: r.1, r.2)

def primOf (s : String) : Option Prim :=
  match s with
  | "b" => some .bool | "s" => some .string
  | "i8" => some (.int 8) | "i16" => some (.int 16) | "i32" => some (.int 32) | "i64" => some (.int 64) | "i" => some (.int 64)
  | "u8" => some (.uint 8) | "u16" => some (.uint 16) | "u32" => some (.uint 32) | "u64" => some (.uint 64) | "u" => some (.uint 64)
  | "f32" => some (.float 32) | "f64" => some (.float 64)
  | _ => none

mutual
partial def parseTy : List Char → Option (Ty × List Char)
  | '*' :: r => (parseTy r).map fun (t, r') => (.ptr t, r')
  | '@' :: r => (parseTy r).map fun (t, r') => (.slice t, r')
  | '%' :: r => (parseTy r).map fun (t, r') => (.map t, r')
  | '{' :: '}' :: r => some (.struct .nil, r)
  | '{' :: r => (parseFields r).map fun (fs, r') => (.struct fs, r')
  | cs =>
    let (w, r) := takeUntil (fun c => c = ';' || c = '}') cs
    (primOf (String.ofList w)).map fun p => (.prim p, r)
partial def parseFields (cs : List Char) : Option (Fields × List Char) :=
  let (name, r1) := takeUntil (· = ':') cs
  match r1 with
  | ':' :: r1 =>
    let (key, r2) := takeUntil (· = ':') r1
    match r2 with
    | ':' :: r2 =>
      let (fl, r3) := takeUntil (· = '=') r2
      match r3 with
      | '=' :: r3 =>
        match parseTy r3 with
        | none => none
        | some (t, r4) =>
          let f : FMeta := { name := name, key := key, optional := fl.contains 'o', embedded := fl.contains 'e' }
          match r4 with
          | ';' :: r5 => (parseFields r5).map fun (fs, r6) => (.cons f t fs, r6)
          | '}' :: r5 => some (.cons f t .nil, r5)
          | _ => none
      | _ => none
    | _ => none
  | _ => none
end

mutual
partial def parseDoc : List Char → Option (J × List Char)
  | '{' :: '}' :: r => some (.obj .nil, r)
  | '{' :: r => (parseMembers r).map fun (m, r') => (.obj m, r')
  | '[' :: ']' :: r => some (.arr .nil, r)
  | '[' :: r => (parseElems r).map fun (l, r') => (.arr l, r')
  | '"' :: r =>
    let (s, r') := takeUntil (· = '"') r
    match r' with
    | '"' :: r'' => some (.str s, r'')
    | _ => none
  | cs =>
    let (w, r) := takeUntil (fun c => c = ',' || c = ']' || c = '}') cs
    match String.ofList w with
    | "null" => some (.null, r)
    | "true" => some (.bool true, r)
    | "false" => some (.bool false, r)
    | "" => none
    | _ => some (.num w, r)
partial def parseMembers : List Char → Option (JM × List Char)
  | '"' :: r =>
    let (k, r') := takeUntil (· = '"') r
    match r' with
    | '"' :: ':' :: r'' =>
      match parseDoc r'' with
      | none => none
      | some (v, r3) =>
        match r3 with
        | ',' :: r4 => (parseMembers r4).map fun (m, r5) => (.cons k v m, r5)
        | '}' :: r4 => some (.cons k v .nil, r4)
        | _ => none
    | _ => none
  | _ => none
partial def parseElems (cs : List Char) : Option (JL × List Char) :=
  match parseDoc cs with
  | none => none
  | some (v, r) =>
    match r with
    | ',' :: r' => (parseElems r').map fun (l, r'') => (.cons v l, r'')
    | ']' :: r' => some (.cons v .nil, r')
    | _ => none
end

def parseTyTok (s : String) : Option Fields :=
  match parseTy s.toList with
  | some (.struct fs, []) => some fs
  | _ => none

def parseDocTok (s : String) : Option J :=
  match parseDoc s.toList with
  | some (j, []) => some j
  | _ => none

/-! ### canonical printers (the harness prints the same forms) -/

def strLt : Str → Str → Bool
  | [], [] => false
  | [], _ :: _ => true
  | _ :: _, [] => false
  | a :: as, b :: bs => if a.toNat < b.toNat then true else if a.toNat > b.toNat then false else strLt as bs

def insertKV {α : Type} (x : Str × α) : List (Str × α) → List (Str × α)
  | [] => [x]
  | y :: ys => if strLt y.1 x.1 then y :: insertKV x ys else x :: y :: ys

def sortKV {α : Type} (l : List (Str × α)) : List (Str × α) := l.foldr insertKV []

def JM.toList : JM → List (Str × J)
  | .nil => []
  | .cons k v t => (k, v) :: t.toList
def JL.toList : JL → List J
  | .nil => []
  | .cons h t => h :: t.toList
def VM.toList : VM → List (Str × Val)
  | .nil => []
  | .cons k v t => (k, v) :: t.toList
def VL.toList : VL → List Val
  | .nil => []
  | .cons h t => h :: t.toList

def q (s : Str) : String := "\"" ++ String.ofList s ++ "\""

partial def printTree : J → String
  | .null => "null"
  | .bool b => if b then "true" else "false"
  | .num l => String.ofList l
  | .str s => q s
  | .nilArr => "[]"
  | .arr l => "[" ++ ",".intercalate (l.toList.map printTree) ++ "]"
  | .obj m => "{" ++ ",".intercalate ((sortKV m.toList).map fun (k, v) => q k ++ ":" ++ printTree v) ++ "}"

partial def printVal : Val → String
  | .bool b => if b then "true" else "false"
  | .int i => toString i
  | .flt n d => s!"F{n}/{d}"
  | .str s => q s
  | .nil => "~p"
  | .ptr v => "&" ++ printVal v
  | .nilSlice => "~s"
  | .slice l => "[" ++ ",".intercalate (l.toList.map printVal) ++ "]"
  | .nilMap => "~m"
  | .map m => "{" ++ ",".intercalate ((sortKV m.toList).map fun (k, v) => q k ++ ":" ++ printVal v) ++ "}"
  | .struct m => "(" ++ ",".intercalate (m.toList.map fun (k, v) => String.ofList k ++ ":" ++ printVal v) ++ ")"

def printRes : R Val → String
  | .ok v => "ok:" ++ printVal v
  | .error .err => "err"
  | .error .panic => "panic"
  | .error .unmodelled => "UNMODELLED"

/-- value of `key=` in the observation tokens. -/
def obs? (toks : List String) (key : String) : Option String :=
  toks.findSome? fun t => if t.startsWith (key ++ "=") then some (t.drop (key.length + 1)).toString else none

/-- nil map ≡ empty map, used by the non-strict comparison with encoding/json. -/
def normNil (s : String) : String := s.replace "~m" "{}"

structure St where
  fs : Option Fields := none

/-- `loose`: the document contains a null; then which failing entry of a Go map is met first (an error or the
panic of `fillSlice` on a null map entry) depends on Go's map iteration order, so `panic` and `err` are both accepted. -/
def checkTok (r : Report) (s : Section) (l : Line) (key : String) (model : String) (loose : Bool := false) : Report :=
  match obs? l.obs key with
  | some impl =>
    if impl = model then r
    else if loose ∧ (impl = "panic" ∨ impl = "err") ∧ (model = "panic" ∨ model = "err") then r.addCover "panic-or-err-by-map-order"
    else r.mismatch s.idx l.idx s!"{key}={model}" s!"{key}={impl}"
  | none => r.mismatch s.idx l.idx s!"{key}={model}" s!"{key} missing"

def classOf (s : String) : String :=
  if s.startsWith "ok:" then "ok" else s

/-- the TOML front end: the harness renders TOML only for tables without null (`skip`); go-toml rejects integers
outside int64 (`err`). -/
def tomlFront (j : J) (k : T → String) : String :=
  match j with
  | .obj _ =>
    match embT j with
    | none => "skip"
    | some t => if tomlIntsOk j then k t else "err"
  | _ => "skip"

def runLoad (r : Report) (s : Section) (l : Line) (fs : Fields) (strict : Bool) (j : J) (j2 : Option J) : Report := Id.run do
  let mut r := r
  -- model: the generic trees behind the front ends, and every decoder
  let jy := yamlGlue (embY j)
  r := checkTok r s l "jy" (printTree jy)
  r := checkTok r s l "jt" (tomlFront j (fun t => printTree (tomlGlue t)))
  let mLJ := printRes (loadJson fs j)
  let mLY := printRes (loadYaml fs (embY j))
  let mLT := tomlFront j (fun t => printRes (loadToml fs t))
  let loose := !(noNull j)
  r := checkTok r s l "LJ" mLJ loose
  r := checkTok r s l "LY" mLY loose
  r := checkTok r s l "LT" mLT loose
  r := r.addCover ("load-" ++ classOf mLJ)
  match j2 with
  | some j2 =>
    r := checkTok r s l "RJ" (printRes (loadJson fs j2)) loose
    r := checkTok r s l "RY" (printRes (loadYaml fs (embY j2))) loose
    r := checkTok r s l "RT" (tomlFront j2 (fun t => printRes (loadToml fs t))) loose
  | none => pure ()
  let mU := printRes (unmarshalJson fs j)
  r := checkTok r s l "U" mU loose
  r := r.addCover ("unmarshal-" ++ classOf mU)
  if hasEmbeddedDeep (.struct fs) then r := r.addCover "std-embedded-not-modelled"
  else
    let mS := printRes (stdDecode fs j)
    r := checkTok r s l "S" mS
    r := r.addCover ("std-" ++ classOf mS)
  -- monitor, on the implementation's observations only
  let np (x : String) : String := if x = "panic" then "err" else x     -- a panic is a failure verdict
  let oLJ := np ((obs? l.obs "LJ").getD "?")
  let oLY := np ((obs? l.obs "LY").getD "?")
  let oLT := np ((obs? l.obs "LT").getD "?")
  if l.obs.any (fun t => t.endsWith "=panic") then
    if noNull j then
      r := r.violation s.idx l.idx s!"loader-panicked class=panic obs=[{joinSp (l.obs.filter fun t => t.endsWith "=panic")}] doc=[{printTree j}]"
    else r := r.addCover "panic-on-null-document"
  if inScope j then
    r := r.addCover "format-independence-checked"
    if oLJ ≠ oLY ∨ oLJ ≠ oLT then
      r := r.violation s.idx l.idx s!"format-dependent class=format LJ=[{oLJ}] LY=[{oLY}] LT=[{oLT}] doc=[{printTree j}]"
  else
    r := r.addCover (if noNull j then "excluded-noncanonical-number" else "excluded-null")
    -- JSON and YAML still agree on documents without null
    if noNull j ∧ oLJ ≠ oLY then r := r.addCover "json-yaml-differ-out-of-scope"
  match j2 with
  | some j2 =>
    if recasedTy (.struct fs) j j2 then
      if noCaseCollision j ∧ noCaseCollision j2 then
        r := r.addCover (if j = j2 then "recase-identical" else "recase-checked")
        let oRJ := np ((obs? l.obs "RJ").getD "?")
        let oRY := np ((obs? l.obs "RY").getD "?")
        let oRT := np ((obs? l.obs "RT").getD "?")
        if oRJ ≠ oLJ ∨ oRY ≠ oLY ∨ oRT ≠ oLT then
          r := r.violation s.idx l.idx s!"case-sensitive class=case LJ=[{oLJ}] RJ=[{oRJ}] LY=[{oLY}] RY=[{oRY}] LT=[{oLT}] RT=[{oRT}]"
      else r := r.addCover "recase-collision-excluded"
    else r := r.mismatch s.idx l.idx "recasing-of-doc" "doc2 is not a type-directed re-casing of doc"
  | none => pure ()
  let oU := (obs? l.obs "U").getD "?"
  let oS := (obs? l.obs "S").getD "?"
  if plainTy (.struct fs) then
    if oU.startsWith "ok:" ∧ oS.startsWith "ok:" then
      let scope := noNull j ∧ noCaseCollision j ∧ keysExact (.struct fs) j ∧ inScope j
      if oU = oS then r := r.addCover "std-agree"
      else if scope ∧ normNil oU = normNil oS then
        r := r.addCover "std-differ-nil-vs-empty-map"
        if strict then
          r := r.violation s.idx l.idx s!"std-disagree class=nil-vs-empty-map U=[{oU}] S=[{oS}] doc=[{printTree j}]"
      else if scope then
        r := r.violation s.idx l.idx s!"std-disagree class=value U=[{oU}] S=[{oS}] doc=[{printTree j}]"
      else
        r := r.addCover (if ¬ noNull j then "std-differ-null-excluded"
                         else if ¬ noCaseCollision j then "std-differ-case-collision-excluded"
                         else if ¬ keysExact (.struct fs) j then "std-differ-inexact-key-excluded"
                         else "std-differ-noncanonical-number-excluded")
        if strict ∧ noNull j then
          r := r.violation s.idx l.idx s!"std-disagree class=case-fold U=[{oU}] S=[{oS}] doc=[{printTree j}]"
    else r := r.addCover "std-not-both-accept"
  else r := r.addCover "std-not-plain-type"
  return r

def expandVar (name val : String) : String := if name = "C17unset" then "" else val

def runFile (r : Report) (s : Section) (l : Line) : Report :=
  match l.op with
  | ["file", ext, env, pre, name, val, post] =>
    let useEnv := env = "1"
    let raw := pre ++ "${" ++ name ++ "}" ++ post
    let expanded := pre ++ expandVar name val ++ post
    let content := String.ofList (loadContent (fun _ => expanded.toList) useEnv raw.toList)
    let model := match loaderOf ext.toList with
      | some _ => "ok:\"" ++ content ++ "\""
      | none => "err"
    let impl := joinSp l.obs
    let r := r.addCover (if model = "err" then "file-unknown-ext" else if useEnv then "file-env" else "file-noenv")
    let r := if impl ≠ model then r.mismatch s.idx l.idx model impl else r
    -- monitor: environment variables are expanded only when requested
    if impl.startsWith "ok:" ∧ ¬ useEnv ∧ impl ≠ "ok:\"" ++ raw ++ "\"" then
      r.violation s.idx l.idx s!"env-expanded-without-UseEnv class=env impl=[{impl}]"
    else if impl.startsWith "ok:" ∧ useEnv ∧ impl ≠ "ok:\"" ++ expanded ++ "\"" then
      r.violation s.idx l.idx s!"env-not-expanded-with-UseEnv class=env impl=[{impl}]"
    else r
  | _ => r.mismatch s.idx l.idx "bad-op" (joinSp l.op)

def runSection (r : Report) (s : Section) : Report := Id.run do
  let strict := kvNat s.cfg "strict" 0 = 1
  let mut st : St := {}
  let mut r := r
  for l in s.lines do
    r := { r with ops := r.ops + 1 }
    match l.op with
    | ["type", t] =>
      match parseTyTok t with
      | some fs =>
        st := { fs := some fs }
        r := r.addCover (if plainTy (.struct fs) then "type-plain" else "type-tagged")
        if joinSp l.obs ≠ "ok" then r := r.mismatch s.idx l.idx "ok" (joinSp l.obs)
      | none => r := r.mismatch s.idx l.idx "bad-type" t
    | ["load", _, d, d2] =>
      match st.fs with
      | none => if joinSp l.obs ≠ "no-type" then r := r.mismatch s.idx l.idx "no-type" (joinSp l.obs)
      | some fs =>
        match parseDocTok d, (if d2 = "-" then some none else (parseDocTok d2).map some) with
        | some j, some j2 => r := runLoad r s l fs strict j j2
        | _, _ => r := r.mismatch s.idx l.idx "bad-doc" d
    | "file" :: _ => r := runFile r s l
    | _ => r := r.mismatch s.idx l.idx "bad-op" (joinSp l.op)
  return r

def driver (secs : List Section) : Report := secs.foldl runSection {}

end GoZero.C17
