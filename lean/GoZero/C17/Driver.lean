/-
C17 — driver: replays an implementation trace through the model (correspondence) and the monitor.

  type <T>                          => ok
  load <style> <doc> <doc2|->       => jy= jt= LJ= LY= LT= [RJ= RY= RT=] U= S=
  munm <optbits> <style> <doc>      => MJB= MJR= MYB= MYR= MTB= MTR= [S=]
  file <ext> <env> <pre> <var> <val> <post> => ok:"…" | err
-/
import GoZero.Base.Trace
import GoZero.C17.Spec
import GoZero.C17.Std
namespace GoZero.C17

open GoZero

/-! ### parsers for the op syntax -/

def takeUntil (stop : Char → Bool) : List Char → List Char × List Char
  | [] => ([], [])
  | c :: cs => if stop c then ([], c :: cs) else
    let r := takeUntil stop cs
    (c :: r.1, r.2)

def primOf (s : String) : Option Prim :=
  match s with
  | "b" => some .bool | "s" => some .string
  | "i8" => some (.int 8) | "i16" => some (.int 16) | "i32" => some (.int 32) | "i64" => some (.int 64) | "i" => some (.int 64)
  | "u8" => some (.uint 8) | "u16" => some (.uint 16) | "u32" => some (.uint 32) | "u64" => some (.uint 64) | "u" => some (.uint 64)
  | "f32" => some (.float 32) | "f64" => some (.float 64)
  -- named number types of the harness (`type c17NI int` …): the same kinds
  | "ni" => some (.int 64) | "ni16" => some (.int 16) | "nu32" => some (.uint 32)
  | "nf" => some (.float 64) | "nf32" => some (.float 32)
  | _ => none

def splitOnC (c : Char) : List Char → List (List Char)
  | [] => [[]]
  | x :: xs =>
    match splitOnC c xs with
    | [] => [[]]
    | h :: t => if x = c then [] :: h :: t else (x :: h) :: t

/-- `[1:5)` -/
def parseRange (cs : List Char) : Option Range :=
  match cs with
  | [] => none
  | l :: rest =>
    match rest.reverse with
    | [] => none
    | rc :: midRev =>
      let mid := midRev.reverse
      if (l = '[' ∨ l = '(') ∧ (rc = ']' ∨ rc = ')') then
        match splitOnC ':' mid with
        | [a, b] => some { leftInc := l = '[', left := a, right := b, rightInc := rc = ']' }
        | _ => none
      else none

/-- the flags of a field: letters, then `!d<default>` `!v<env var>` `!r<range>` `!p<opt>/<opt>`. -/
def parseFlags (name key fl : List Char) : Option FMeta :=
  match splitOnC '!' fl with
  | [] => none
  | letters :: segs =>
    let base : FMeta := { name := name, key := key, optional := letters.contains 'o', embedded := letters.contains 'e',
                          inherit := letters.contains 'i', fromString := letters.contains 's' }
    segs.foldl (fun acc sg =>
      match acc, sg with
      | some f, 'd' :: v => some { f with dflt := v }
      | some f, 'v' :: v => some { f with envVar := v }
      | some f, 'r' :: v => (parseRange v).map fun rg => { f with range := some rg }
      | some f, 'p' :: v => some { f with options := splitOnC '/' v }
      | _, _ => none) (some base)

mutual
partial def parseTy : List Char → Option (Ty × List Char)
  | '*' :: r => (parseTy r).map fun (t, r') => (.ptr t, r')
  | '@' :: r => (parseTy r).map fun (t, r') => (.slice t, r')
  | '%' :: r => (parseTy r).map fun (t, r') => (.map t, r')
  | '{' :: '}' :: r => some (.struct .nil, r)
  | '{' :: r => (parseFields r).map fun (fs, r') => (.struct fs, r')
  | cs =>
    let (w, r) := takeUntil (fun c => c = ';' || c = '}') cs
    (primOf (String.ofList w)).map fun p => (.prim p, r)
partial def parseFields (cs : List Char) : Option (Fields × List Char) :=
  let (name, r1) := takeUntil (· = ':') cs
  match r1 with
  | ':' :: r1 =>
    let (key, r2) := takeUntil (· = ':') r1
    match r2 with
    | ':' :: r2 =>
      let (fl, r3) := takeUntil (· = '=') r2
      match r3 with
      | '=' :: r3 =>
        match parseTy r3, parseFlags name key fl with
        | some (t, r4), some f =>
          match r4 with
          | ';' :: r5 => (parseFields r5).map fun (fs, r6) => (.cons f t fs, r6)
          | '}' :: r5 => some (.cons f t .nil, r5)
          | _ => none
        | _, _ => none
      | _ => none
    | _ => none
  | _ => none
end

mutual
partial def parseDoc : List Char → Option (J × List Char)
  | '{' :: '}' :: r => some (.obj .nil, r)
  | '{' :: r => (parseMembers r).map fun (m, r') => (.obj m, r')
  | '[' :: ']' :: r => some (.arr .nil, r)
  | '[' :: r => (parseElems r).map fun (l, r') => (.arr l, r')
  | '"' :: r =>
    let (s, r') := takeUntil (· = '"') r
    match r' with
    | '"' :: r'' => some (.str s, r'')
    | _ => none
  | cs =>
    let (w, r) := takeUntil (fun c => c = ',' || c = ']' || c = '}') cs
    match String.ofList w with
    | "null" => some (.null, r)
    | "true" => some (.bool true, r)
    | "false" => some (.bool false, r)
    | "" => none
    | _ => some (.num w, r)
partial def parseMembers : List Char → Option (JM × List Char)
  | '"' :: r =>
    let (k, r') := takeUntil (· = '"') r
    match r' with
    | '"' :: ':' :: r'' =>
      match parseDoc r'' with
      | none => none
      | some (v, r3) =>
        match r3 with
        | ',' :: r4 => (parseMembers r4).map fun (m, r5) => (.cons k v m, r5)
        | '}' :: r4 => some (.cons k v .nil, r4)
        | _ => none
    | _ => none
  | _ => none
partial def parseElems (cs : List Char) : Option (JL × List Char) :=
  match parseDoc cs with
  | none => none
  | some (v, r) =>
    match r with
    | ',' :: r' => (parseElems r').map fun (l, r'') => (.cons v l, r'')
    | ']' :: r' => some (.cons v .nil, r')
    | _ => none
end

def parseTyTok (s : String) : Option Fields :=
  match parseTy s.toList with
  | some (.struct fs, []) => some fs
  | _ => none

def parseDocTok (s : String) : Option J :=
  match parseDoc s.toList with
  | some (j, []) => some j
  | _ => none

/-! ### canonical printers (the harness prints the same forms) -/

def strLt : Str → Str → Bool
  | [], [] => false
  | [], _ :: _ => true
  | _ :: _, [] => false
  | a :: as, b :: bs => if a.toNat < b.toNat then true else if a.toNat > b.toNat then false else strLt as bs

def insertKV {α : Type} (x : Str × α) : List (Str × α) → List (Str × α)
  | [] => [x]
  | y :: ys => if strLt y.1 x.1 then y :: insertKV x ys else x :: y :: ys

def sortKV {α : Type} (l : List (Str × α)) : List (Str × α) := l.foldr insertKV []

def JM.toList : JM → List (Str × J)
  | .nil => []
  | .cons k v t => (k, v) :: t.toList
def JL.toList : JL → List J
  | .nil => []
  | .cons h t => h :: t.toList
def VM.toList : VM → List (Str × Val)
  | .nil => []
  | .cons k v t => (k, v) :: t.toList
def VL.toList : VL → List Val
  | .nil => []
  | .cons h t => h :: t.toList

/-- strings as the harness prints them: a blank as \u0020, a line break as \n. -/
def qEsc : Str → Str
  | [] => []
  | c :: cs => if c = ' ' then "\\u0020".toList ++ qEsc cs else if c = '\n' then "\\n".toList ++ qEsc cs else c :: qEsc cs

def q (s : Str) : String := "\"" ++ String.ofList (qEsc s) ++ "\""

partial def printTree : J → String
  | .null => "null"
  | .bool b => if b then "true" else "false"
  | .num l => String.ofList l
  | .str s => q s
  | .nilArr => "[]"
  | .arr l => "[" ++ ",".intercalate (l.toList.map printTree) ++ "]"
  | .obj m => "{" ++ ",".intercalate ((sortKV m.toList).map fun (k, v) => q k ++ ":" ++ printTree v) ++ "}"

partial def printVal : Val → String
  | .bool b => if b then "true" else "false"
  | .int i => toString i
  | .flt n d => s!"F{n}/{d}"
  | .str s => q s
  | .nil => "~p"
  | .ptr v => "&" ++ printVal v
  | .nilSlice => "~s"
  | .slice l => "[" ++ ",".intercalate (l.toList.map printVal) ++ "]"
  | .nilMap => "~m"
  | .map m => "{" ++ ",".intercalate ((sortKV m.toList).map fun (k, v) => q k ++ ":" ++ printVal v) ++ "}"
  | .struct m => "(" ++ ",".intercalate (m.toList.map fun (k, v) => String.ofList k ++ ":" ++ printVal v) ++ ")"

def printRes : R Val → String
  | .ok v => "ok:" ++ printVal v
  | .error .err => "err"
  | .error .panic => "panic"
  | .error .unmodelled => "UNMODELLED"

/-- value of `key=` in the observation tokens. -/
def obs? (toks : List String) (key : String) : Option String :=
  toks.findSome? fun t => if t.startsWith (key ++ "=") then some (t.drop (key.length + 1)).toString else none

/-- nil map ≡ empty map: classifies a difference with encoding/json. -/
def normNil (s : String) : String :=
  -- a pointer (or pointer to pointer) to the empty map that go-zero stores for an absent map field ≡ nil pointer
  (((s.replace "~m" "{}").replace "&&{}" "~p").replace "&{}" "~p")

mutual
/-- the environment the harness sets for a type: a variable `C17E_<value>` holds `<value>`, every other is unset. -/
def envOfTy : Ty → List (Str × Str)
  | .prim _ => []
  | .ptr t => envOfTy t
  | .slice t => envOfTy t
  | .map t => envOfTy t
  | .struct fs => envOfFields fs
def envOfFields : Fields → List (Str × Str)
  | .nil => []
  | .cons f t rest =>
    (if f.envVar.take 5 = "C17E_".toList then [(f.envVar, f.envVar.drop 5)] else []) ++ envOfTy t ++ envOfFields rest
end

/-- the pinned float32 conversion is tried when the fixed model does not explain the observation (the unpatched tree). -/
def eitherF32 (f : Opts → String) (o : Opts) (impl : Option String) : String :=
  let a := f o
  if impl = some a then a else
    let b := f { o with f32Pinned := true }
    if impl = some b then b else a

/-- the conf loaders of the driver: a type whose flattened fields repeat a lower-cased key goes through the loader WITH the
merging (`loadTreeM`), every other type through the loaders the theorems are stated for (equal there:
`loadTreeM_eq_loadTreeO`). -/
def hasMergedKeys (fs : Fields) : Bool := hasDup (infoFields fs).keys
def ldJsonO (o : Opts) (fs : Fields) (j : J) : R Val := if hasMergedKeys fs then loadTreeM o fs j else loadJsonO o fs j
def ldYamlO (o : Opts) (fs : Fields) (y : Y) : R Val := if hasMergedKeys fs then loadTreeM o fs (yamlGlue y) else loadYamlO o fs y
def ldTomlO (o : Opts) (fs : Fields) (t : T) : R Val := if hasMergedKeys fs then loadTreeM o fs (tomlGlue t) else loadTomlO o fs t

structure St where
  fs : Option Fields := none
  /-- the file-level loads of the section so far (one process): UseEnv of the previous call -/
  prevEnv : Option Bool := none
  nFload : Nat := 0
  /-- every decoding op of the section so far with its observation: the same op later must observe the same -/
  seen : List (String × String) := []
  /-- the conversions whose RESULT the harness holds: slot ↦ (tree the conversion returned, `convs` at that time) -/
  slots : List (String × String × Nat) := []
  /-- conversions / loads of the section so far (every one of them renders JSON somewhere) -/
  convs : Nat := 0

mutual
/-- the type lies in the modelled family: every pointer is a one-level pointer to a primitive or to a struct.
Types outside (`**T`, `*[]T`, `*map[string]T`) are generated too: for them only the monitor clauses run (format
independence, reader = bytes, case-insensitivity, agreement with encoding/json, no aliasing), on the observations. -/
def tyInModel : Ty → Bool
  | .prim _ => true
  | .ptr (.prim _) => true
  | .ptr (.struct fs) => fieldsInModel fs
  | .ptr _ => false
  | .slice t => tyInModel t
  | .map t => tyInModel t
  | .struct fs => fieldsInModel fs
def fieldsInModel : Fields → Bool
  | .nil => true
  | .cons _ t rest => tyInModel t && fieldsInModel rest
end


mutual
def tyHasPtrElem : Ty → Bool
  | .prim _ => false
  | .ptr t => tyHasPtrElem t
  | .slice t => t.isPtr || tyHasPtrElem t
  | .map t => t.isPtr || tyHasPtrElem t
  | .struct fs => fieldsHavePtrElem fs
def fieldsHavePtrElem : Fields → Bool
  | .nil => false
  | .cons _ t rest => tyHasPtrElem t || fieldsHavePtrElem rest
end

def checkTok (r : Report) (s : Section) (l : Line) (key : String) (model : String) : Report :=
  match obs? l.obs key with
  | some impl =>
    if impl = model then r
    else r.mismatch s.idx l.idx s!"{key}={model}" s!"{key}={impl}"
  | none => r.mismatch s.idx l.idx s!"{key}={model}" s!"{key} missing"

def classOf (s : String) : String :=
  if s.startsWith "ok:" then "ok" else s

/-- correspondence with the model only for types of the modelled family. -/
def checkTokM (inModel : Bool) (r : Report) (s : Section) (l : Line) (key : String) (model : String) : Report :=
  if inModel then checkTok r s l key model else r.addCover "outside-model-monitored-only"

/-- **no two distinct entries of a decoded value alias the same cell**: the harness walks every decoded value and
reports the first pair of positions holding the same pointer / slice backing array / map (`AL=`).  The model is a tree
of values (`genMapSite = fillSliceSite = .perEntry`): it predicts `AL=-`. -/
def aliasMonitor (r : Report) (s : Section) (l : Line) : Report :=
  match obs? l.obs "AL" with
  | none => r.mismatch s.idx l.idx "AL=-" "AL missing"
  | some "-" => r.addCover "alias-checked"
  | some a =>
    (r.mismatch s.idx l.idx "AL=-" s!"AL={a}").violation s.idx l.idx
      s!"aliased-entries class=alias first=[{a}] two distinct entries of one decoded value hold the same pointer / backing array / map (decoder call #n of the op: path~path)"

def dropAL (toks : List String) : List String := toks.filter fun t => !t.startsWith "AL="

/-- the TOML front end: the harness renders TOML only for tables without null (`skip`); go-toml rejects integers
outside int64 (`err`). -/
def tomlFront (j : J) (k : T → String) : String :=
  match j with
  | .obj _ =>
    match embT j with
    | none => "skip"
    | some t => if tomlIntsOk j then k t else "err"
  | _ => "skip"

mutual
/-- some field carries `,string`, which encoding/json interprets too (not in `Std.lean`). -/
def tyHasStringOpt : Ty → Bool
  | .prim _ => false
  | .ptr t => tyHasStringOpt t
  | .slice t => tyHasStringOpt t
  | .map t => tyHasStringOpt t
  | .struct fs => fieldsHaveStringOpt fs
def fieldsHaveStringOpt : Fields → Bool
  | .nil => false
  | .cons f t rest => f.fromString || tyHasStringOpt t || fieldsHaveStringOpt rest
end

mutual
def tyHasDotKey : Ty → Bool
  | .prim _ => false
  | .ptr t => tyHasDotKey t
  | .slice t => tyHasDotKey t
  | .map t => tyHasDotKey t
  | .struct fs => fieldsHaveDotKey fs
def fieldsHaveDotKey : Fields → Bool
  | .nil => false
  | .cons f t rest => f.tagKey.contains '.' || tyHasDotKey t || fieldsHaveDotKey rest
end

/-- **agreement with encoding/json** (second sentence of the property): for a type with plain name tags, whenever
the go-zero entry point `key` and encoding/json (`S`) both accept, the values must be deeply equal.  Every difference
is reported; the message names the class of the difference (the classes that are known, inherent divergences are
listed in known_findings.json). -/
def stdMonitor (r : Report) (s : Section) (l : Line) (fs : Fields) (j : J) (key at_ : String) : Report :=
  let oU := (obs? l.obs key).getD "?"
  let oS := (obs? l.obs "S").getD "?"
  if ¬ plainTy (.struct fs) then r.addCover "std-not-plain-type"
  else if ¬ (oU.startsWith "ok:" ∧ oS.startsWith "ok:") then r.addCover "std-not-both-accept"
  else if oU = oS then r.addCover "std-agree"
  else
    -- the class of a difference is `stdClass` (Spec.lean), the very predicate of `agrees_with_encoding_json_total`:
    -- outside its classes only nil-vs-empty maps may differ; anything else is class=value (a violation of the theorem's
    -- conclusion on the real code; float32-double-rounding names the defect repaired by 71c4c8c should it come back)
    let cls :=
      match stdClass fs j with
      | some c => c.name
      | none =>
        if normNil oU = normNil oS then "nil-vs-empty-map"
        else if ¬ f32StableDoc j then "float32-double-rounding"
        else "value"
    (r.addCover ("std-differ-" ++ cls)).violation s.idx l.idx
      s!"std-disagree class={cls} at={at_} go-zero=[{oU}] encoding/json=[{oS}] doc=[{printTree j}]"

def runLoad (r : Report) (s : Section) (l : Line) (fs : Fields) (j : J) (j2 : Option J) : Report := Id.run do
  let mut r := r
  -- model: the generic trees behind the front ends, and every decoder
  let jy := yamlGlue (embY j)
  r := checkTok r s l "jy" (printTree jy)
  r := checkTok r s l "jt" (tomlFront j (fun t => printTree (tomlGlue t)))
  let oc : Opts := { confOpts with env := envOfTy (.struct fs) }
  let mLJ := eitherF32 (fun o => printRes (ldJsonO o fs j)) oc (obs? l.obs "LJ")
  let mLY := eitherF32 (fun o => printRes (ldYamlO o fs (embY j))) oc (obs? l.obs "LY")
  let mLT := eitherF32 (fun o => tomlFront j (fun t => printRes (ldTomlO o fs t))) oc (obs? l.obs "LT")
  -- keys colliding up to case: the pinned loader is nondeterministic there; such documents are checked by `cload`
  let coll := !(noCaseCollision j)
  if coll then r := r.addCover "load-collision-unchecked"
  let im := tyInModel (.struct fs)
  let ck (r : Report) (key model : String) : Report := if coll then r else checkTokM im r s l key model
  r := ck r "LJ" mLJ
  r := ck r "LY" mLY
  r := ck r "LT" mLT
  r := r.addCover ("load-" ++ classOf mLJ)
  match j2 with
  | some j2 =>
    r := ck r "RJ" (eitherF32 (fun o => printRes (ldJsonO o fs j2)) oc (obs? l.obs "RJ"))
    r := ck r "RY" (eitherF32 (fun o => printRes (ldYamlO o fs (embY j2))) oc (obs? l.obs "RY"))
    r := ck r "RT" (eitherF32 (fun o => tomlFront j2 (fun t => printRes (ldTomlO o fs t))) oc (obs? l.obs "RT"))
  | none => pure ()
  let ou : Opts := { env := envOfTy (.struct fs) }
  let mU := eitherF32 (fun o => printRes (unmarshalWith o fs j)) ou (obs? l.obs "U")
  if mU ≠ printRes (unmarshalWith ou fs j) then r := r.addCover "pinned-float32-double-rounding"
  r := checkTokM im r s l "U" mU
  r := r.addCover ("unmarshal-" ++ classOf mU)
  if hasEmbeddedDeep (.struct fs) ∨ tyHasStringOpt (.struct fs) then r := r.addCover "std-embedded-not-modelled"
  else
    let mS := printRes (stdDecode fs j)
    r := checkTokM im r s l "S" mS
    r := r.addCover ("std-" ++ classOf mS)
  r := aliasMonitor r s l
  -- monitor, on the implementation's observations only
  let np (x : String) : String := if x = "panic" then "err" else x     -- a panic is a failure verdict
  let oLJ := np ((obs? l.obs "LJ").getD "?")
  let oLY := np ((obs? l.obs "LY").getD "?")
  let oLT := np ((obs? l.obs "LT").getD "?")
  if l.obs.any (fun t => t.endsWith "=panic") then
    let cls := if printRes (ldJsonO { oc with f32Pinned := true } fs j) = "panic" then "env-float32-pointer" else "panic"
    r := r.violation s.idx l.idx s!"loader-panicked class={cls} obs=[{joinSp (l.obs.filter fun t => t.endsWith "=panic")}] doc=[{printTree j}]"
  if inScope j ∧ ¬ coll then
    r := r.addCover "format-independence-checked"
    if oLJ ≠ oLY ∨ oLJ ≠ oLT then
      r := r.violation s.idx l.idx s!"format-dependent class=format LJ=[{oLJ}] LY=[{oLY}] LT=[{oLT}] doc=[{printTree j}]"
  else
    r := r.addCover (if noNull j then "excluded-noncanonical-number" else "excluded-null")
    -- integers in (MaxInt64, MaxUint64] cannot be written in TOML, but JSON and YAML must still agree on them
    if inScopeJY j ∧ ¬ coll then
      r := r.addCover "format-independence-json-yaml-checked"
      if oLJ ≠ oLY then
        r := r.violation s.idx l.idx s!"format-dependent class=format-json-yaml LJ=[{oLJ}] LY=[{oLY}] doc=[{printTree j}]"
    else if noNull j ∧ oLJ ≠ oLY then r := r.addCover "json-yaml-differ-out-of-scope"
  match j2 with
  | some j2 =>
    if recasedTy (derefAll (.struct fs)) j j2 then
      if noCaseCollision j ∧ noCaseCollision j2 then
        r := r.addCover (if j = j2 then "recase-identical" else "recase-checked")
        let oRJ := np ((obs? l.obs "RJ").getD "?")
        let oRY := np ((obs? l.obs "RY").getD "?")
        let oRT := np ((obs? l.obs "RT").getD "?")
        if oRJ ≠ oLJ ∨ oRY ≠ oLY ∨ oRT ≠ oLT then
          r := r.violation s.idx l.idx s!"case-sensitive class=case LJ=[{oLJ}] RJ=[{oRJ}] LY=[{oLY}] RY=[{oRY}] LT=[{oLT}] RT=[{oRT}]"
      else r := r.addCover "recase-collision-excluded"
    else r := r.mismatch s.idx l.idx "recasing-of-doc" "doc2 is not a type-directed re-casing of doc"
  | none => pure ()
  r := stdMonitor r s l fs j "U" "json-bytes"
  return r

def optsOfBits (b : Nat) : Opts :=
  { canon := b % 2 = 1, fromString := (b / 2) % 2 = 1, fromArray := (b / 4) % 2 = 1, opaqueKeys := (b / 8) % 2 = 1 }

/-- the mapping-level entry points `mapping.Unmarshal{Json,Yaml,Toml}{Bytes,Reader}` with one option set. -/
def runMunm (r : Report) (s : Section) (l : Line) (fs : Fields) (bits : Nat) (j : J) : Report := Id.run do
  let mut r := r
  let o : Opts := { optsOfBits bits with env := envOfTy (.struct fs) }
  let mJ := eitherF32 (fun o => printRes (unmarshalWith o fs j)) o (obs? l.obs "MJB")
  let mY := eitherF32 (fun o => printRes (unmarshalYaml o fs (embY j))) o (obs? l.obs "MYB")
  let mT := eitherF32 (fun o => tomlFront j (fun t => printRes (unmarshalToml o fs t))) o (obs? l.obs "MTB")
  let im := tyInModel (.struct fs)
  r := checkTokM im r s l "MJB" mJ
  r := checkTokM im r s l "MJR" mJ
  r := checkTokM im r s l "MYB" mY
  r := checkTokM im r s l "MYR" mY
  r := checkTokM im r s l "MTB" mT
  r := checkTokM im r s l "MTR" mT
  r := checkTokM im r s l "MX" mJ
  r := aliasMonitor r s l
  r := r.addCover s!"munm-opts-{bits}"
  r := r.addCover ("munm-" ++ classOf mJ)
  if o.canon ∧ mJ.startsWith "ok:" ∧ printRes (unmarshalWith { o with canon := false } fs j) ≠ mJ then
    r := r.addCover "munm-canon-matters"
  if o.fromString ∧ mJ.startsWith "ok:" ∧ printRes (unmarshalWith { o with fromString := false } fs j) ≠ mJ then
    r := r.addCover "munm-stringvalues-matters"
  if o.fromArray ∧ mJ.startsWith "ok:" ∧ printRes (unmarshalWith { o with fromArray := false } fs j) ≠ mJ then
    r := r.addCover "munm-fromarray-matters"
  if printRes (unmarshalWith { o with opaqueKeys := !o.opaqueKeys } fs j) ≠ mJ then
    r := r.addCover "munm-opaquekeys-matters"
  -- monitor, on the implementation's observations only
  let g (k : String) : String := (obs? l.obs k).getD "?"
  if l.obs.any (fun t => t.endsWith "=panic") then
    let cls := if printRes (unmarshalWith { o with f32Pinned := true } fs j) = "panic" then "env-float32-pointer" else "panic"
    r := r.violation s.idx l.idx s!"loader-panicked class={cls} at=mapping opts={bits} obs=[{joinSp (l.obs.filter fun t => t.endsWith "=panic")}] doc=[{printTree j}]"
  -- **the options of a call are the options it was given**: the entry point equals the generic tree followed by an
  -- unmarshaller built from exactly these options (an unmarshaller kept from an earlier call shows here)
  if g "MJB" ≠ g "MX" then
    r := r.violation s.idx l.idx s!"options-not-applied class=options opts={bits} MJB=[{g "MJB"}] explicit=[{g "MX"}] doc=[{printTree j}]: mapping.UnmarshalJsonBytes(content, v, opts...) differs from NewUnmarshaler(jsonTagKey, opts...) on the same tree"
  if g "MJB" ≠ g "MJR" ∨ g "MYB" ≠ g "MYR" ∨ g "MTB" ≠ g "MTR" then
    r := r.violation s.idx l.idx s!"reader-differs-from-bytes class=reader opts={bits} MJB=[{g "MJB"}] MJR=[{g "MJR"}] MYB=[{g "MYB"}] MYR=[{g "MYR"}] MTB=[{g "MTB"}] MTR=[{g "MTR"}]"
  if inScope j then
    r := r.addCover "mapping-format-independence-checked"
    let t := g "MTB"
    if g "MJB" ≠ g "MYB" ∨ (t ≠ "skip" ∧ g "MJB" ≠ t) then
      r := r.violation s.idx l.idx s!"format-dependent class=mapping-format opts={bits} MJB=[{g "MJB"}] MYB=[{g "MYB"}] MTB=[{t}] doc=[{printTree j}]"
  else
    r := r.addCover (if noNull j then "mapping-excluded-noncanonical-number" else "mapping-excluded-null")
    if inScopeJY j then
      r := r.addCover "mapping-format-independence-json-yaml-checked"
      if g "MJB" ≠ g "MYB" then
        r := r.violation s.idx l.idx s!"format-dependent class=mapping-format-json-yaml opts={bits} MJB=[{g "MJB"}] MYB=[{g "MYB"}] doc=[{printTree j}]"
  if bits = 0 then
    if hasEmbeddedDeep (.struct fs) ∨ tyHasStringOpt (.struct fs) then r := r.addCover "std-embedded-not-modelled"
    else r := checkTokM im r s l "S" (printRes (stdDecode fs j))
    r := stdMonitor r s l fs j "MJB" "json-bytes"
    if inScope j then
      r := stdMonitor r s l fs j "MYB" "yaml-bytes"
      if g "MTB" ≠ "skip" then r := stdMonitor r s l fs j "MTB" "toml-bytes"
  return r

def JM.snoc : JM → Str → J → JM
  | .nil, k, v => .cons k v .nil
  | .cons a b t, k, v => .cons a b (t.snoc k v)

/-- the value of the last key `cert` of a `cc` op by block style. -/
def certOf (blk : String) : Option Str :=
  match blk with
  | "1" => some "l1\nl2\n".toList | "2" => some "l1\nl2".toList | "3" => some "l1\nl2\n".toList
  | "4" => some "l1 l2\n".toList | "5" => some "l1\nl2\n".toList
  | _ => none

/-- `cc`: the config center (`configCenter.genValue`, model `ccValue`) next to the loaders on THE SAME BYTES, over
renderings that differ in insignificant white space (`ws`) and in the YAML style of the last string (`blk`). -/
def runCc (r : Report) (s : Section) (l : Line) (fs : Fields) (ws blk : String) (j0 : J) : Report := Id.run do
  let mut r := r
  let oc : Opts := { confOpts with env := envOfTy (.struct fs) }
  let j : J := match j0, certOf blk with
    | .obj m, some c => .obj (m.snoc "cert".toList (.str c))
    | _, _ => j0
  let im := tyInModel (.struct fs)
  let g (k : String) : String := (obs? l.obs k).getD "?"
  r := r.addCover s!"cc-whitespace-{ws}"
  r := r.addCover s!"cc-block-scalar-{blk}"
  let run (f : Fmt) : String :=
    match f with
    | .json => eitherF32 (fun o => printRes (ldJsonO o fs j)) oc (obs? l.obs "LJ")
    | .yaml => eitherF32 (fun o => printRes (ldYamlO o fs (embY j))) oc (obs? l.obs "LY")
    | .toml => eitherF32 (fun o => tomlFront j (fun t => printRes (ldTomlO o fs t))) oc (obs? l.obs "LT")
  -- the loaders on an empty value: JSON and YAML reject it, TOML reads the empty table
  let lModel (f : Fmt) : String :=
    if ws = "5" then
      (match f with | .toml => eitherF32 (fun o => printRes (ldJsonO o fs (.obj .nil))) oc (obs? l.obs "LT") | _ => "err")
    else run f
  -- `ccValue`: unknown Type / empty value => error, else the loader of the Type on exactly these bytes
  let cModel (f : Fmt) : String :=
    if ws = "5" then "err" else let x := run f; if x = "skip" then x else x
  let coll := !(noCaseCollision j)
  let ck (r : Report) (key model : String) : Report := if coll then r.addCover "cc-collision-unchecked" else checkTokM im r s l key model
  r := ck r "LJ" (lModel .json)
  r := ck r "LY" (lModel .yaml)
  r := ck r "LT" (if ws = "5" ∧ tomlFront j (fun _ => "x") = "skip" then "skip" else lModel .toml)
  r := ck r "CJ" (cModel .json)
  r := ck r "CY" (cModel .yaml)
  r := ck r "CT" (if tomlFront j (fun _ => "x") = "skip" then "skip" else cModel .toml)
  r := checkTok r s l "CX" "err"
  r := aliasMonitor r s l
  r := r.addCover ("cc-" ++ classOf (g "CJ"))
  -- monitor, on the implementation's observations only
  if l.obs.any (fun t => t.endsWith "=panic") then
    r := r.violation s.idx l.idx s!"loader-panicked class=panic at=configcenter obs=[{joinSp (l.obs.filter fun t => t.endsWith "=panic")}]"
  if (g "CX").startsWith "ok:" then
    r := r.violation s.idx l.idx s!"unknown-type-accepted class=caller at=configcenter CX=[{g "CX"}]"
  if ws = "5" then
    if [g "CJ", g "CY", g "CT"].any (fun x => x.startsWith "ok:") then
      r := r.violation s.idx l.idx s!"empty-value-accepted class=caller at=configcenter CJ=[{g "CJ"}] CY=[{g "CY"}] CT=[{g "CT"}]"
  else
    -- the caller adds nothing: its value is the loader's value on the same bytes
    if g "CJ" ≠ g "LJ" ∨ g "CY" ≠ g "LY" ∨ g "CT" ≠ g "LT" then
      r := r.violation s.idx l.idx s!"configcenter-differs-from-loader class=caller ws={ws} blk={blk} LJ=[{g "LJ"}] CJ=[{g "CJ"}] LY=[{g "LY"}] CY=[{g "CY"}] LT=[{g "LT"}] CT=[{g "CT"}]: the config center's value for (Type, bytes) is not the value of the Type's loader on these bytes"
    if inScope j ∧ ¬ coll then
      r := r.addCover "cc-format-independence-checked"
      let t := g "LT"
      if g "LJ" ≠ g "LY" ∨ (t ≠ "skip" ∧ g "LJ" ≠ t) then
        r := r.violation s.idx l.idx s!"format-dependent class=format-whitespace ws={ws} blk={blk} LJ=[{g "LJ"}] LY=[{g "LY"}] LT=[{t}] doc=[{printTree j}]"
      let ct := g "CT"
      if g "CJ" ≠ g "CY" ∨ (ct ≠ "skip" ∧ g "CJ" ≠ ct) then
        r := r.violation s.idx l.idx s!"format-dependent class=configcenter ws={ws} blk={blk} CJ=[{g "CJ"}] CY=[{g "CY"}] CT=[{ct}] doc=[{printTree j}]"
  return r

def bitsOfTok (t : String) : Option Nat :=
  match (if t.endsWith "r" then String.ofList (t.toList.filter (· ≠ (Char.ofNat 114))) else t).toNat? with
  | some n => if n ≤ 15 then some n else none
  | none => none

/-- the reader entry points `mapping.Unmarshal{Json,Yaml,Toml}Reader` on a reader of the caller with behaviour `mode`
(every outcome kind of a user-supplied `io.Reader`), next to the bytes entry points on the same content.
  plain / onebyte / zero (a `(0, nil)` read between the chunks): the reader result IS the bytes result;
  cut (an error after half of the content) / errfirst: an error verdict - never a value;
  short (half of the content, then io.EOF): half a JSON object is never a document - an error verdict;
  tail (the whole content, then an error instead of io.EOF): YAML / TOML read everything first (`io.ReadAll`) and fail,
        the JSON decoder stops at the closing brace and never sees it;
  panic / panicstr (the reader panics with an error value / with a string): the panic reaches the caller;
  goexit (the reader calls runtime.Goexit, as t.FailNow would): the calling goroutine ends, nothing is returned. -/
def runMrd (r : Report) (s : Section) (l : Line) (fs : Fields) (mode : String) (bits : Nat) (j : J) : Report := Id.run do
  let mut r := r
  let o : Opts := { optsOfBits bits with env := envOfTy (.struct fs) }
  let mJ := eitherF32 (fun o => printRes (unmarshalWith o fs j)) o (obs? l.obs "JB")
  let mY := eitherF32 (fun o => printRes (unmarshalYaml o fs (embY j))) o (obs? l.obs "YB")
  let mT := eitherF32 (fun o => tomlFront j (fun t => printRes (unmarshalToml o fs t))) o (obs? l.obs "TB")
  let im := tyInModel (.struct fs)
  let viaReader (b : String) (isJson : Bool) : String :=
    if b = "skip" then b
    else if mode = "plain" ∨ mode = "onebyte" ∨ mode = "zero" then b
    else if mode = "cut" ∨ mode = "errfirst" then "err"
    else if mode = "tail" then (if isJson then b else "err")
    else if mode = "short" then "err"
    else if mode = "goexit" then "goexit"
    else "panic"
  r := checkTokM im r s l "JB" mJ
  r := checkTokM im r s l "YB" mY
  r := checkTokM im r s l "TB" mT
  r := checkTokM im r s l "JR" (viaReader mJ true)
  -- short: half of a YAML / TOML text may be a document of its own (fewer lines): not predicted, only the JSON verdict is
  if mode ≠ "short" then
    r := checkTokM im r s l "YR" (viaReader mY false)
    r := checkTokM im r s l "TR" (viaReader mT false)
  r := aliasMonitor r s l
  r := r.addCover s!"mrd-reader-{mode}"
  r := r.addCover s!"mrd-{mode}-{classOf mJ}"
  -- monitor, on the implementation's observations only
  let g (k : String) : String := (obs? l.obs k).getD "?"
  let pairs := [("JB", "JR"), ("YB", "YR"), ("TB", "TR")]
  if mode = "plain" ∨ mode = "onebyte" ∨ mode = "zero" then
    if pairs.any (fun p => g p.1 ≠ g p.2) then
      r := r.violation s.idx l.idx s!"reader-differs-from-bytes class=reader mode={mode} opts={bits} JB=[{g "JB"}] JR=[{g "JR"}] YB=[{g "YB"}] YR=[{g "YR"}] TB=[{g "TB"}] TR=[{g "TR"}]"
  else if mode = "cut" ∨ mode = "errfirst" then
    if pairs.any (fun p => (g p.2).startsWith "ok:") then
      r := r.violation s.idx l.idx s!"reader-error-swallowed class=reader mode={mode} opts={bits} JR=[{g "JR"}] YR=[{g "YR"}] TR=[{g "TR"}]: the caller's reader failed before the document was complete and the entry point returned a value"
  else if mode = "tail" then
    -- the bytes verdict or an error, never another value
    if pairs.any (fun p => g p.2 ≠ g p.1 ∧ g p.2 ≠ "err") then
      r := r.violation s.idx l.idx s!"reader-differs-from-bytes class=reader mode={mode} opts={bits} JB=[{g "JB"}] JR=[{g "JR"}] YB=[{g "YB"}] YR=[{g "YR"}] TB=[{g "TB"}] TR=[{g "TR"}]"
  else if mode = "short" then
    if (g "JR").startsWith "ok:" then
      r := r.violation s.idx l.idx s!"truncated-stream-accepted class=reader mode={mode} opts={bits} JR=[{g "JR"}]: half of a JSON document followed by io.EOF was decoded into a value"
  else if mode = "goexit" then
    -- runtime.Goexit inside the reader ends the calling goroutine: no entry point may turn it into a verdict or a value
    if pairs.any (fun p => g p.2 ≠ "goexit" ∧ g p.2 ≠ "skip") then
      r := r.violation s.idx l.idx s!"reader-goexit-swallowed class=reader mode={mode} opts={bits} JR=[{g "JR"}] YR=[{g "YR"}] TR=[{g "TR"}]: the caller's reader called runtime.Goexit and the entry point still returned"
  else if mode = "panic" ∨ mode = "panicstr" then
    if pairs.any (fun p => (g p.2).startsWith "ok:") then
      r := r.violation s.idx l.idx s!"reader-panic-swallowed class=reader mode={mode} opts={bits} JR=[{g "JR"}] YR=[{g "YR"}] TR=[{g "TR"}]"
  else r := r.mismatch s.idx l.idx "bad-op" (joinSp l.op)
  return r

/-- the error paths of `conf.Load` / `LoadConfig`: no file, a directory, an empty file. -/
def runFmiss (r : Report) (s : Section) (l : Line) (fs : Fields) (ext env api kind : String) : Report := Id.run do
  let mut r := r
  let oc : Opts := { confOpts with env := envOfTy (.struct fs) }
  let impl := l.obs.headD "?"
  let im := tyInModel (.struct fs)
  r := aliasMonitor r s l
  r := r.addCover s!"fmiss-{kind}"
  r := r.addCover s!"fmiss-{api}-UseEnv-{env}"
  let model : String :=
    if kind ≠ "empty" then "err"
    else match loaderOf ext.toList with
      | none => "err"
      | some .json => "err"                                   -- no JSON value at all
      | some .yaml => "err"                                   -- the empty YAML document is null, rendered as "" : not a table
      | some .toml => eitherF32 (fun o => printRes (ldJsonO o fs (.obj .nil))) oc (some impl)   -- the empty table
  r := r.addCover s!"fmiss-{kind}-{classOf model}"
  if (im ∨ model = "err") ∧ impl ≠ model then r := r.mismatch s.idx l.idx model impl
  if kind ≠ "empty" ∧ impl.startsWith "ok:" then
    r := r.violation s.idx l.idx s!"missing-file-accepted class=file-api api={api} ext={ext} kind={kind} file=[{impl}]"
  if loaderOf ext.toList = none ∧ impl.startsWith "ok:" then
    r := r.violation s.idx l.idx s!"unknown-extension-accepted class=file-api api={api} ext={ext} file=[{impl}]"
  if impl = "panic" then
    r := r.violation s.idx l.idx s!"loader-panicked class=panic at=conf.{api} ext={ext} kind={kind}"
  return r

/-- documents whose keys collide up to case: every loader is run many times by the harness. -/
def runCload (r : Report) (s : Section) (l : Line) (fs : Fields) (j : J) : Report := Id.run do
  let mut r := r
  let oc : Opts := { confOpts with env := envOfTy (.struct fs) }
  let g (k : String) : String := (obs? l.obs k).getD "?"
  r := r.addCover (if noCaseCollision j then "cload-no-collision" else "cload-collision")
  let im := tyInModel (.struct fs)
  r := aliasMonitor r s l
  -- monitor first: the load must be a function of the document
  let nd := ["CJ", "CY", "CT"].filter fun k => g k = "nondet"
  if l.obs.any (fun t => t.endsWith "panic") then
    let cls := if printRes (loadJsonDet { oc with f32Pinned := true } fs j) = "panic" then "env-float32-pointer" else "panic"
    r := r.violation s.idx l.idx s!"loader-panicked class={cls} obs=[{joinSp l.obs}] doc=[{printTree j}]"
  if nd ≠ [] then
    r := r.violation s.idx l.idx s!"nondeterministic-load class=case-collision loaders=[{joinSp nd}] the same document loaded repeatedly gives different results doc=[{printTree j}]"
  else
    r := checkTokM im r s l "CJ" ("det:" ++ eitherF32 (fun o => printRes (loadJsonDet o fs j)) oc ((obs? l.obs "CJ").map fun x => (x.drop 4).toString))
    r := checkTokM im r s l "CY" ("det:" ++ eitherF32 (fun o => printRes (loadYamlDet o fs (embY j))) oc ((obs? l.obs "CY").map fun x => (x.drop 4).toString))
    let mT := eitherF32 (fun o => let x := tomlFront j (fun t => printRes (loadTomlDet o fs t)); if x = "skip" then x else "det:" ++ x) oc (obs? l.obs "CT")
    r := checkTokM im r s l "CT" mT
    r := r.addCover ("cload-" ++ classOf ((g "CJ").drop 4).toString)
    if inScope j ∧ (g "CJ" ≠ g "CY" ∨ (g "CT" ≠ "skip" ∧ g "CJ" ≠ g "CT")) then
      r := r.violation s.idx l.idx s!"format-dependent class=format-collision CJ=[{g "CJ"}] CY=[{g "CY"}] CT=[{g "CT"}] doc=[{printTree j}]"
  return r

def f32DrvTy : Fields := .cons { name := "X".toList, key := "x".toList, optional := false, embedded := false } (.prim (.float 32)) .nil

/-- `{"x":<lit>}` into `struct{X float32}`: go-zero against encoding/json on literals that are close to a float32 tie. -/
def runF32 (r : Report) (s : Section) (l : Line) (lit : String) : Report := Id.run do
  let mut r := r
  let j : J := .obj (.cons "x".toList (.num lit.toList) .nil)
  let g (k : String) : String := (obs? l.obs k).getD "?"
  let mU := eitherF32 (fun o => printRes (unmarshalWith o f32DrvTy j)) {} (obs? l.obs "U")
  r := checkTok r s l "U" mU
  r := checkTok r s l "L" (eitherF32 (fun o => printRes (ldJsonO o f32DrvTy j)) confOpts (obs? l.obs "L"))
  r := checkTok r s l "S" (printRes (stdDecode f32DrvTy j))
  r := r.addCover (if f32StableDoc j then "f32-stable-literal" else "f32-double-rounding-literal")
  if mU ≠ printRes (unmarshalWith {} f32DrvTy j) then r := r.addCover "pinned-float32-double-rounding"
  if (g "U").startsWith "ok:" ∧ (g "S").startsWith "ok:" ∧ g "U" ≠ g "S" then
    r := r.violation s.idx l.idx s!"std-disagree class=float32-double-rounding at=json-bytes go-zero=[{g "U"}] encoding/json=[{g "S"}] doc=[{printTree j}]"
  if (g "L").startsWith "ok:" ∧ (g "S").startsWith "ok:" ∧ g "L" ≠ g "S" then
    r := r.violation s.idx l.idx s!"std-disagree class=float32-double-rounding at=conf-load go-zero=[{g "L"}] encoding/json=[{g "S"}] doc=[{printTree j}]"
  return r

/-- `os.ExpandEnv` on the references the generator writes (`C17V` = "xv", `C17UNSET` unset). -/
def expandStr (s : Str) : Str :=
  (((String.ofList s).replace "${C17V}" "xv").replace "${C17UNSET}" "" |>.replace "$C17V" "xv").toList

mutual
def expandDoc : J → J
  | .str s => .str (expandStr s)
  | .arr l => .arr (expandDocList l)
  | .obj m => .obj (expandDocMap m)
  | v => v
def expandDocList : JL → JL
  | .nil => .nil
  | .cons h t => .cons (expandDoc h) (expandDocList t)
def expandDocMap : JM → JM
  | .nil => .nil
  | .cons k v t => .cons k (expandDoc v) (expandDocMap t)
end

mutual
def docHasDollar : J → Bool
  | .str s => s.contains '$'
  | .arr l => docHasDollarList l
  | .obj m => docHasDollarMap m
  | _ => false
def docHasDollarList : JL → Bool
  | .nil => false
  | .cons h t => docHasDollar h || docHasDollarList t
def docHasDollarMap : JM → Bool
  | .nil => false
  | .cons _ v t => docHasDollar v || docHasDollarMap t
end

/-- `conf.Load / LoadConfig / MustLoad` on a file: loader by extension, content expanded iff `UseEnv`. -/
def runFload (r : Report) (s : Section) (l : Line) (fs : Fields) (ext : String) (useEnv : Bool) (api : String) (j : J) : Report := Id.run do
  let mut r := r
  let oc : Opts := { confOpts with env := envOfTy (.struct fs) }
  let j' := if useEnv then expandDoc j else j
  let impl := l.obs.headD "?"
  -- keys colliding up to case (expansion does not touch keys): toLowerCaseKeyMap walks the keys of every object in
  -- ascending order and the later one wins — the association-list model is faithful only on the sorted document
  -- (`loadJsonDet` = `ldJsonO ∘ sortDoc`, as in `cload`; regression: thorough seed 15840 section 1969)
  let coll := !(noCaseCollision j)
  let lj (o : Opts) (d : J) : R Val := if coll then loadJsonDet o fs d else ldJsonO o fs d
  let ly (o : Opts) (d : J) : R Val := if coll then loadYamlDet o fs (embY d) else ldYamlO o fs (embY d)
  let lt (o : Opts) (t : T) : R Val := if coll then loadTomlDet o fs t else ldTomlO o fs t
  if coll then r := r.addCover "fload-collision-sorted-walk"
  let model : String :=
    match loaderOf ext.toList with
    | none => "err"
    | some .json => eitherF32 (fun o => printRes (lj o j')) oc (some impl)
    | some .yaml => eitherF32 (fun o => printRes (ly o j')) oc (some impl)
    | some .toml => eitherF32 (fun o => tomlFront j' (fun t => printRes (lt o t))) oc (some impl)
  let im := tyInModel (.struct fs)
  r := aliasMonitor r s l
  if api = "Bytes" ∧ useEnv then r := r.mismatch s.idx l.idx "Bytes-has-no-options" (joinSp l.op)
  r := r.addCover s!"fload-{api}-{classOf model}"
  r := r.addCover (match loaderOf ext.toList with | none => "fload-unknown-ext" | some f => s!"fload-{repr f}")
  if docHasDollar j then r := r.addCover (if useEnv then "fload-env-expanded" else "fload-env-literal")
  if im ∧ impl ≠ model then r := r.mismatch s.idx l.idx model impl
  if ¬ im then r := r.addCover "outside-model-monitored-only"
  let want := if api = "MustLoad" ∧ (if im then model else impl).startsWith "ok:" then ["M=same"] else []
  if (dropAL (l.obs.drop 1)).filter (fun t => !t.startsWith "D=") ≠ want then
    r := r.mismatch s.idx l.idx (joinSp (model :: want)) (joinSp (dropAL l.obs))
  -- D: the loader of the format called directly on the same (expanded) content
  if impl ≠ "skip" then
    let d := (obs? l.obs "D").getD "?"
    match loaderOf ext.toList with
    | none =>
      if d ≠ "noloader" then r := r.mismatch s.idx l.idx "D=noloader" s!"D={d}"
      if impl.startsWith "ok:" then
        r := r.violation s.idx l.idx s!"unknown-extension-accepted class=file-api api={api} ext={ext} file=[{impl}]"
    | some _ =>
      if im ∧ d ≠ model then r := r.mismatch s.idx l.idx s!"D={model}" s!"D={d}"
      r := r.addCover "fload-vs-direct-loader-checked"
      if impl ≠ d then
        r := r.violation s.idx l.idx s!"file-api-differs-from-loader class=file-api api={api} ext={ext} useEnv={useEnv} file=[{impl}] loader=[{d}]: conf.{api} on a file does not give what the loader of the extension gives on the same content"
  -- monitor: the result on the file is the result of the format's loader on the (un)expanded document
  if impl = "panic" then
    let cls := if printRes (lj { oc with f32Pinned := true } j') = "panic" then "env-float32-pointer" else "panic"
    r := r.violation s.idx l.idx s!"loader-panicked class={cls} at=conf.{api} ext={ext}"
  if l.obs.contains "M=diff" then
    r := r.violation s.idx l.idx s!"MustLoad-differs-from-Load class=file-api ext={ext}"
  if docHasDollar j ∧ impl.startsWith "ok:" then
    let other := match loaderOf ext.toList with
      | some .json => printRes (lj oc (if useEnv then j else expandDoc j))
      | some .yaml => printRes (ly oc (if useEnv then j else expandDoc j))
      | some .toml => tomlFront (if useEnv then j else expandDoc j) (fun t => printRes (lt oc t))
      | none => "err"
    if impl = other ∧ impl ≠ model then
      r := r.violation s.idx l.idx
        (if useEnv then s!"env-not-expanded-with-UseEnv class=env impl=[{impl}]" else s!"env-expanded-without-UseEnv class=env impl=[{impl}]")
  return r

/-- **the bytes a front end hands out stay what they were**: `rd` re-reads the slice an earlier `cv` got from
`encoding.YamlToJson / TomlToJson`, after whatever conversions and loads came in between.  Model: `Buf.lean`
(`encodeSite = .freshLocal`): the held bytes are the caller's own, so `held = snap = the tree of that conversion`. -/
def runRd (r : Report) (s : Section) (l : Line) (st : St) (slot : String) : Report := Id.run do
  let mut r := r
  match st.slots.find? (fun p => p.1 = slot) with
  | none =>
    r := r.addCover "rd-empty-slot"
    if joinSp l.obs ≠ "empty" then r := r.mismatch s.idx l.idx "empty" (joinSp l.obs)
  | some (_, tree, seq) =>
    r := checkTok r s l "snap" tree
    r := checkTok r s l "held" tree
    r := checkTok r s l "raw" "same"
    let later := st.convs - seq
    r := r.addCover (if later = 0 then "rd-immediately" else if later = 1 then "rd-after-one-later-conversion" else "rd-after-several-later-conversions")
    let g (k : String) : String := (obs? l.obs k).getD "?"
    if g "held" ≠ g "snap" ∨ g "raw" ≠ "same" then
      r := r.violation s.idx l.idx s!"conversion-result-invalidated class=buffer-reuse slot={slot} later-conversions={later} now=[{g "held"}] handed-out=[{g "snap"}]: the bytes YamlToJson / TomlToJson returned were changed by a later conversion or load"
  return r

/-- `pload`: the documents loaded one after the other (reference, checked against the model) and then by several
goroutines at once. -/
def runPload (r : Report) (s : Section) (l : Line) (fs : Fields) (workers : String) (docs : List J) : Report := Id.run do
  let mut r := r
  let oc : Opts := { confOpts with env := envOfTy (.struct fs) }
  let ou : Opts := { env := envOfTy (.struct fs) }
  let im := tyInModel (.struct fs)
  let g (k : String) : String := (obs? l.obs k).getD "?"
  r := r.addCover s!"pload-workers-{workers}"
  r := r.addCover s!"pload-docs-{docs.length}"
  let mut i := 0
  for j in docs do
    let coll := !(noCaseCollision j)
    let ck (r : Report) (key model : String) : Report :=
      if coll then r.addCover "pload-collision-unchecked" else checkTokM im r s l key model
    let tomlOk := tomlFront j (fun _ => "x") ≠ "skip"
    r := ck r s!"J{i}" (eitherF32 (fun o => printRes (ldJsonO o fs j)) oc (obs? l.obs s!"J{i}"))
    r := ck r s!"Y{i}" (eitherF32 (fun o => printRes (ldYamlO o fs (embY j))) oc (obs? l.obs s!"Y{i}"))
    r := ck r s!"T{i}" (eitherF32 (fun o => tomlFront j (fun t => printRes (ldTomlO o fs t))) oc (obs? l.obs s!"T{i}"))
    r := ck r s!"MY{i}" (eitherF32 (fun o => printRes (unmarshalYaml o fs (embY j))) ou (obs? l.obs s!"MY{i}"))
    r := ck r s!"MT{i}" (eitherF32 (fun o => tomlFront j (fun t => printRes (unmarshalToml o fs t))) ou (obs? l.obs s!"MT{i}"))
    let useEnv := i % 2 = 1
    let j' := if useEnv then expandDoc j else j
    let fl : String :=
      if i % 3 = 0 then eitherF32 (fun o => printRes (ldJsonO o fs j')) oc (obs? l.obs s!"FL{i}")
      else if i % 3 = 1 ∨ ¬ tomlOk then eitherF32 (fun o => printRes (ldYamlO o fs (embY j'))) oc (obs? l.obs s!"FL{i}")
      else eitherF32 (fun o => tomlFront j' (fun t => printRes (ldTomlO o fs t))) oc (obs? l.obs s!"FL{i}")
    r := ck r s!"FL{i}" fl
    -- MO: mapping.UnmarshalJsonBytes with the option set (5 i + 1) mod 16 (different from document to document)
    let om : Opts := { optsOfBits ((i * 5 + 1) % 16) with env := envOfTy (.struct fs) }
    r := ck r s!"MO{i}" (eitherF32 (fun o => printRes (unmarshalWith o fs j)) om (obs? l.obs s!"MO{i}"))
    if docHasDollar j then r := r.addCover (if useEnv then "pload-file-env-expanded" else "pload-file-env-literal")
    r := r.addCover ("pload-doc-" ++ classOf (g s!"J{i}"))
    if l.obs.any (fun t => t.endsWith "=panic") then
      r := r.violation s.idx l.idx s!"loader-panicked class=panic at=pload obs=[{joinSp (l.obs.filter fun t => t.endsWith "=panic")}]"
    if inScope j ∧ ¬ coll then
      let a := g s!"J{i}"
      let t := g s!"T{i}"
      if a ≠ g s!"Y{i}" ∨ (t ≠ "skip" ∧ a ≠ t) then
        r := r.violation s.idx l.idx s!"format-dependent class=format at=pload LJ=[{a}] LY=[{g s!"Y{i}"}] LT=[{t}] doc=[{printTree j}]"
    i := i + 1
  -- monitor: a load is a function of its own arguments, whatever runs at the same time
  match obs? l.obs "CC" with
  | some "same" => r := r.addCover "pload-concurrent-same"
  | some d =>
    r := (r.mismatch s.idx l.idx "CC=same" s!"CC={d}").violation s.idx l.idx
      s!"concurrent-load-differs class=shared-state workers={workers} docs={docs.length} first=[{d}]: a load that runs at the same time as loads of OTHER documents returned something else than the same call alone (entry point + document index)"
  | none => r := r.mismatch s.idx l.idx "CC=same" "CC missing"
  match obs? l.obs "race" with
  | some "na" => r := r.addCover "pload-race-detector-off"
  | some "0" => r := r.addCover "pload-race-detector-clean"
  | some "1" =>
    r := (r.mismatch s.idx l.idx "race=0" "race=1").violation s.idx l.idx
      s!"data-race-between-loads class=shared-state workers={workers} docs={docs.length}: the race detector fired while different documents were loaded concurrently (state shared between loads)"
  | _ => r := r.mismatch s.idx l.idx "race=0|na" (joinSp l.obs)
  return r

def expandVar (name val : String) : String := if name = "C17unset" then "" else val

def runFile (r : Report) (s : Section) (l : Line) : Report :=
  match l.op with
  | ["file", ext, env, pre, name, val, post] =>
    let useEnv := env = "1"
    let raw := pre ++ "${" ++ name ++ "}" ++ post
    let expanded := pre ++ expandVar name val ++ post
    let content := String.ofList (loadContent (fun _ => expanded.toList) useEnv raw.toList)
    let model := match loaderOf ext.toList with
      | some _ => "ok:\"" ++ content ++ "\""
      | none => "err"
    let impl := joinSp l.obs
    let r := r.addCover (if model = "err" then "file-unknown-ext" else if useEnv then "file-env" else "file-noenv")
    let r := if impl ≠ model then r.mismatch s.idx l.idx model impl else r
    -- monitor: environment variables are expanded only when requested
    if impl.startsWith "ok:" ∧ ¬ useEnv ∧ impl ≠ "ok:\"" ++ raw ++ "\"" then
      r.violation s.idx l.idx s!"env-expanded-without-UseEnv class=env impl=[{impl}]"
    else if impl.startsWith "ok:" ∧ useEnv ∧ impl ≠ "ok:\"" ++ expanded ++ "\"" then
      r.violation s.idx l.idx s!"env-not-expanded-with-UseEnv class=env impl=[{impl}]"
    else r
  | _ => r.mismatch s.idx l.idx "bad-op" (joinSp l.op)

def runSection (r : Report) (s : Section) : Report := Id.run do
  let mut st : St := {}
  let mut r := r
  for l in s.lines do
    r := { r with ops := r.ops + 1 }
    -- **a load is a function of its own arguments**: the same op earlier in this process observed the same
    if l.op.head? = some "munm" ∨ l.op.head? = some "load" ∨ l.op.head? = some "fload" then
      let key := joinSp l.op
      let ob := joinSp (dropAL l.obs)
      match st.seen.find? (fun p => p.1 = key) with
      | some p =>
        r := r.addCover "repeat-same-call-checked"
        if p.2 ≠ ob ∧ ¬ (ob.splitOn "nondet").length > 1 then
          r := r.violation s.idx l.idx s!"load-depends-on-earlier-calls class=sequence op=[{key}] first=[{p.2}] now=[{ob}]"
      | none => st := { st with seen := (key, ob) :: st.seen }
    if (l.op.getLastD "").length > 4096 then r := r.addCover s!"document-over-4KB-{l.op.headD ""}"
    if ["cv", "load", "munm", "mrd", "cload", "fload", "pload"].contains (l.op.headD "") then
      st := { st with convs := st.convs + 1 }
    match l.op with
    | ["cv", slot, fmt, _, d] =>
      match parseDocTok d with
      | some j =>
        if fmt = "y" ∨ fmt = "t" then
          let model := if fmt = "y" then printTree (yamlGlue (embY j)) else tomlFront j (fun t => printTree (tomlGlue t))
          r := checkTok r s l "tree" model
          r := r.addCover (if fmt = "y" then "cv-yaml" else "cv-toml")
          if st.slots.any (fun p => p.1 = slot) then r := r.addCover "cv-slot-overwritten"
          if model = "skip" then pure ()
          else if model = "err" then st := { st with slots := st.slots.filter (fun p => p.1 ≠ slot) }
          else st := { st with slots := (slot, model, st.convs) :: st.slots.filter (fun p => p.1 ≠ slot) }
        else r := r.mismatch s.idx l.idx "bad-op" (joinSp l.op)
      | none => r := r.mismatch s.idx l.idx "bad-doc" d
    | ["rd", slot] => r := runRd r s l st slot
    | ["cc", _, ws, blk, _, d] =>
      match st.fs, parseDocTok d with
      | some fs, some j => r := runCc r s l fs ws blk j
      | _, _ => r := r.mismatch s.idx l.idx "bad-cc" d
    | "pload" :: workers :: _ :: _ :: ds =>
      match st.fs with
      | none => if joinSp l.obs ≠ "no-type" then r := r.mismatch s.idx l.idx "no-type" (joinSp l.obs)
      | some fs =>
        let docs := ds.filterMap parseDocTok
        if docs.length ≠ ds.length ∨ ds = [] then r := r.mismatch s.idx l.idx "bad-doc" (joinSp l.op)
        else r := runPload r s l fs workers docs
    | ["type", t] =>
      match parseTyTok t with
      | some fs =>
        st := { fs := some fs }
        r := r.addCover (if plainTy (.struct fs) then "type-plain" else "type-tagged")
        if hasMergedKeys fs then r := r.addCover "type-embedded-structs-share-a-key-merged"
        r := r.addCover (if tyInModel (.struct fs) then "type-in-model" else "type-deep-pointer-outside-model")
        if tyHasPtrElem (.struct fs) then r := r.addCover "type-pointer-elements"
        if tyHasDotKey (.struct fs) then r := r.addCover "type-dotted-key"
        if envOfTy (.struct fs) ≠ [] then r := r.addCover "type-env-tag"
        if joinSp l.obs ≠ "ok" then r := r.mismatch s.idx l.idx "ok" (joinSp l.obs)
      | none => r := r.mismatch s.idx l.idx "bad-type" t
    | ["load", _, d, d2] =>
      match st.fs with
      | none => if joinSp l.obs ≠ "no-type" then r := r.mismatch s.idx l.idx "no-type" (joinSp l.obs)
      | some fs =>
        match parseDocTok d, (if d2 = "-" then some none else (parseDocTok d2).map some) with
        | some j, some j2 => r := runLoad r s l fs j j2
        | _, _ => r := r.mismatch s.idx l.idx "bad-doc" d
    | ["munm", bits, _, d] =>
      match st.fs with
      | none => if joinSp l.obs ≠ "no-type" then r := r.mismatch s.idx l.idx "no-type" (joinSp l.obs)
      | some fs =>
        -- "<bits>r": the same options as a LIST in reverse order, each one twice (`applyMOpts_flags`: the same record)
        if bits.endsWith "r" then r := r.addCover "munm-option-list-reversed-doubled"
        match parseDocTok d, bitsOfTok bits with
        | some j, some b => r := runMunm r s l fs b j
        | _, _ => r := r.mismatch s.idx l.idx "bad-doc" d
    | ["mrd", mode, bits, _, d] =>
      match st.fs with
      | none => if joinSp l.obs ≠ "no-type" then r := r.mismatch s.idx l.idx "no-type" (joinSp l.obs)
      | some fs =>
        match parseDocTok d, bitsOfTok bits with
        | some j, some b => r := runMrd r s l fs mode b j
        | _, _ => r := r.mismatch s.idx l.idx "bad-doc" d
    | ["fmiss", ext, env, api, kind] =>
      match st.fs with
      | none => if joinSp l.obs ≠ "no-type" then r := r.mismatch s.idx l.idx "no-type" (joinSp l.obs)
      | some fs => r := runFmiss r s l fs ext env api kind
    | ["cload", _, d] =>
      match st.fs, parseDocTok d with
      | some fs, some j => r := runCload r s l fs j
      | _, _ => r := r.mismatch s.idx l.idx "bad-cload" d
    | ["f32", lit] => r := runF32 r s l lit
    | ["filldef"] =>
      match st.fs with
      | some fs =>
        let impl := joinSp (dropAL l.obs)
        let model := eitherF32 (fun o => printRes ((fillDefaults o fs).map .struct)) { env := envOfTy (.struct fs) } (some impl)
        r := r.addCover ("filldef-" ++ classOf model)
        r := aliasMonitor r s l
        if tyInModel (.struct fs) ∧ impl ≠ model then r := r.mismatch s.idx l.idx model impl
        if impl = "panic" then
          let cls := if printRes ((fillDefaults { env := envOfTy (.struct fs), f32Pinned := true } fs).map .struct) = "panic" then "env-float32-pointer" else "panic"
          r := r.violation s.idx l.idx s!"loader-panicked class={cls} at=FillDefault"
      | none => r := r.mismatch s.idx l.idx "no-type" (joinSp l.obs)
    | ["fload", ext, env, api, _, d] =>
      match st.fs, parseDocTok d with
      | some fs, some j =>
        r := runFload r s l fs ext (env ≠ "0") api j
        if env = "2" then r := r.addCover "fload-UseEnv-given-twice"
        -- the loads of a section are one sequence in one process: which option sets follow each other
        let e := env ≠ "0"
        if docHasDollar j then
          match st.prevEnv with
          | some true => r := r.addCover (if api = "Bytes" then "seq-bytes-after-UseEnv" else if e then "seq-env-on-after-on" else "seq-env-off-after-on")
          | some false => r := r.addCover (if e then "seq-env-on-after-off" else "seq-env-off-after-off")
          | none => pure ()
        if st.nFload + 1 ≥ 5 then r := r.addCover "seq-five-or-more-loads"
        st := { st with prevEnv := (if api = "Bytes" then st.prevEnv else some e), nFload := st.nFload + 1 }
      | _, _ => r := r.mismatch s.idx l.idx "bad-fload" d
    | "file" :: _ => r := runFile r s l
    | _ => r := r.mismatch s.idx l.idx "bad-op" (joinSp l.op)
  return r

def driver (secs : List Section) : Report := secs.foldl runSection {}


end GoZero.C17
