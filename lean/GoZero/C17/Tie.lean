/-
C17 — Tie: what the extractor read from the go-zero tree *now* equals what the model was written against.
A failing obligation means the code moved away from the model (Model.lean names the Go function behind each definition).
-/
import GoZero.Extracted.C17
import GoZero.C17.Model
namespace GoZero.C17.Tie
open GoZero.C17
open GoZero.Extracted.C17

theorem extraction_clean : extractionErrors = [] := by decide

theorem tie_jsonTagKey : jsonTagKey = "json" := by decide

/-- `loadYaml fs y = loadTree fs (yamlGlue y)`: the YAML loader is the front end followed by the JSON loader, nothing else. -/
theorem tie_loadYaml : loadYamlShape =
    ["call encoding.YamlToJson", "if err != nil {", "return", "}", "call LoadFromJsonBytes", "return"] := by decide

/-- `loadToml fs t = loadTree fs (tomlGlue t)`. -/
theorem tie_loadToml : loadTomlShape =
    ["call encoding.TomlToJson", "if err != nil {", "return", "}", "call LoadFromJsonBytes", "return"] := by decide

/-- `loadTree`: info of the type, generic tree (`jsonx.Unmarshal`), `toLowerCaseKeyMap`, the unmarshaller with the
canonical-key option, validation — in this order. -/
theorem tie_loadJson : loadJsonShape =
    ["call buildFieldsInfo", "if err != nil {", "return", "}", "call jsonx.Unmarshal", "if err != nil {", "return", "}",
     "call toLowerCaseKeyMap", "call mapping.WithCanonicalKeyFunc", "call mapping.UnmarshalJsonMap",
     "if err != nil {", "return", "}", "call validate", "return"] := by decide

/-- `loadContent`: `os.ExpandEnv` is applied inside `if opt.env` only; both paths call the loader of the extension. -/
theorem tie_load : loadShape =
    ["call os.ReadFile", "if err != nil {", "return", "}", "call path.Ext", "if !ok {", "return", "}",
     "range opts {", "call o", "}", "if opt.env {", "call os.ExpandEnv", "call ?", "call loader", "return", "}",
     "call loader", "if err != nil {", "return", "}", "call validate", "return"] := by decide

/-- `infoOf`: struct → children; array / slice → looked through; **map → `mapField` (keys are data)**;
everything else → no children.  (The pinned code had `Array, Slice, Map` in one case: `infoOfPinned`.) -/
theorem tie_buildFieldsInfo : buildFieldsInfoCases =
    ["reflect.Struct -> return buildStructFieldsInfo(tp, fullName)",
     "reflect.Array,reflect.Slice -> return buildFieldsInfo(mapping.Deref(tp.Elem()), fullName)",
     "reflect.Map -> elemInfo, err := buildFieldsInfo(mapping.Deref(tp.Elem()), fullName)",
     "reflect.Chan,reflect.Func -> return nil, fmt.Errorf(\"unsupported type: %s, fullName: %s\", tp.Kind(), fullName)",
     "default -> return &fieldInfo{ children: make(map[string]*fieldInfo), }, nil"] := by decide

/-- `infoField`. -/
theorem tie_buildNamedFieldInfo : buildNamedFieldInfoCases =
    ["reflect.Struct -> finfo, err = buildFieldsInfo(ft, fullName)",
     "reflect.Array,reflect.Slice -> finfo, err = buildFieldsInfo(ft.Elem(), fullName)",
     "reflect.Map -> elemInfo, err := buildFieldsInfo(mapping.Deref(ft.Elem()), fullName)",
     "default -> finfo, err = buildFieldsInfo(ft, fullName)"] := by decide

/-- `lowerMap`: exact child, else lower-cased child (stored under the lower-cased key), else `mapField` (key kept),
else nested map with the same info, else the value as is. -/
theorem tie_toLowerCaseKeyMap : lowerKeyMapShape =
    ["range m {", "if ok {", "call toLowerCaseInterface", "mapset res", "continue", "}", "call toLowerCase",
     "if ok {", "call toLowerCaseInterface", "mapset res", "}", "else{", "if info.mapField != nil {",
     "call toLowerCaseInterface", "mapset res", "}", "else{", "if ok {", "call toLowerCaseKeyMap", "mapset res", "}",
     "else{", "mapset res", "}", "}", "}", "}", "return"] := by decide

/-- `lowerVal`. -/
theorem tie_toLowerCaseInterface : lowerInterfaceCases =
    ["map[string]any -> return toLowerCaseKeyMap(vv, info)", "[]any -> var arr []any", "default -> return v"] := by decide

/-- `yamlGlue`: slices and `map[any]any` are walked, bool / string kept, every numeric kind becomes a `json.Number`,
anything else (nil) goes through `lang.Repr`. -/
theorem tie_toStringKeyMap : toStringKeyMapCases =
    ["[]any -> return convertSlice(v)", "map[any]any -> return convertKeyToString(v)", "bool,string -> return v",
     "int,uint,int8,uint8,int16,uint16,int32,uint32,int64,uint64,float32,float64 -> return convertNumberToJsonNumber(v)",
     "default -> return lang.Repr(v)"] := by decide

theorem tie_yamlToJson : yamlToJsonShape =
    ["call yaml.Unmarshal", "if err != nil {", "return", "}", "call toStringKeyMap", "call encodeToJSON", "return"] := by
  decide

theorem tie_tomlToJson : tomlToJsonShape =
    ["call bytes.NewReader", "call toml.NewDecoder", "call toml.NewDecoder(bytes.NewReader(data)).Decode",
     "if err != nil {", "return", "}", "call encodeToJSON", "return"] := by decide

/-- `convFromString`: bool from 1/true/0/false, `ParseInt` / `ParseUint` with the bit size of the kind, `ParseFloat`
with 32 / 64 (one rounding), strings as they are. -/
theorem tie_convertTypeFromString : convertTypeCases =
    ["reflect.Bool -> switch strings.ToLower(str) { case \"1\", \"true\": return true, nil case \"0\", \"false\": return",
     "reflect.Int -> return strconv.ParseInt(str, 10, intSize)",
     "reflect.Int8 -> return strconv.ParseInt(str, 10, 8)", "reflect.Int16 -> return strconv.ParseInt(str, 10, 16)",
     "reflect.Int32 -> return strconv.ParseInt(str, 10, 32)", "reflect.Int64 -> return strconv.ParseInt(str, 10, 64)",
     "reflect.Uint -> return strconv.ParseUint(str, 10, intSize)",
     "reflect.Uint8 -> return strconv.ParseUint(str, 10, 8)", "reflect.Uint16 -> return strconv.ParseUint(str, 10, 16)",
     "reflect.Uint32 -> return strconv.ParseUint(str, 10, 32)", "reflect.Uint64 -> return strconv.ParseUint(str, 10, 64)",
     "reflect.Float32 -> return strconv.ParseFloat(str, 32)", "reflect.Float64 -> return strconv.ParseFloat(str, 64)",
     "reflect.String -> return str, nil", "default -> return nil, errUnsupportedType"] := by decide

/-- numbers reach the unmarshaller as literals (`json.Number`). -/
theorem tie_useNumber : useNumberShape = ["call decoder.UseNumber", "call decoder.Decode", "return"] := by decide

/-- `unmarshalJson`. -/
theorem tie_unmarshalJsonBytes : unmarshalJsonBytesShape =
    ["call jsonx.Unmarshal", "if err != nil {", "return", "}", "call unmarshaler.Unmarshal", "return"] := by decide

end GoZero.C17.Tie
