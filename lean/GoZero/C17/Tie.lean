/-
C17 — Tie: what the extractor read from the go-zero tree *now* equals what the model was written against.
A failing obligation means the code moved away from the model (Model.lean names the Go function behind each definition).
-/
import GoZero.Extracted.C17
import GoZero.C17.Model
namespace GoZero.C17.Tie
open GoZero.C17
open GoZero.Extracted.C17

theorem extraction_clean : extractionErrors = [] := by decide

theorem tie_jsonTagKey : jsonTagKey = "json" := by decide

/-- `loadYaml fs y = loadTree fs (yamlGlue y)`: the YAML loader is the front end followed by the JSON loader, nothing else. -/
theorem tie_loadYaml : loadYamlShape =
    ["call encoding.YamlToJson", "if err != nil {", "return", "}", "call LoadFromJsonBytes", "return"] := by decide

/-- `loadToml fs t = loadTree fs (tomlGlue t)`. -/
theorem tie_loadToml : loadTomlShape =
    ["call encoding.TomlToJson", "if err != nil {", "return", "}", "call LoadFromJsonBytes", "return"] := by decide

/-- `loadTree`: info of the type, generic tree (`jsonx.Unmarshal`), `toLowerCaseKeyMap`, the unmarshaller with the
canonical-key option, validation — in this order. -/
theorem tie_loadJson : loadJsonShape =
    ["call buildFieldsInfo", "if err != nil {", "return", "}", "call jsonx.Unmarshal", "if err != nil {", "return", "}",
     "call toLowerCaseKeyMap", "call mapping.WithCanonicalKeyFunc", "call mapping.UnmarshalJsonMap",
     "if err != nil {", "return", "}", "call validate", "return"] := by decide

/-- `loadContent`: `os.ExpandEnv` is applied inside `if opt.env` only; both paths call the loader of the extension. -/
theorem tie_load : loadShape =
    ["call os.ReadFile", "if err != nil {", "return", "}", "call path.Ext", "if !ok {", "return", "}",
     "range opts {", "call o", "}", "if opt.env {", "call os.ExpandEnv", "call ?", "call loader", "return", "}",
     "call loader", "if err != nil {", "return", "}", "call validate", "return"] := by decide

/-- `infoOf`: struct → children; array / slice → looked through; **map → `mapField` (keys are data)**;
everything else → no children.  (The pinned code had `Array, Slice, Map` in one case: `infoOfPinned`.) -/
theorem tie_buildFieldsInfo : buildFieldsInfoCases =
    ["reflect.Struct -> return buildStructFieldsInfo(tp, fullName)",
     "reflect.Array,reflect.Slice -> return buildFieldsInfo(mapping.Deref(tp.Elem()), fullName)",
     "reflect.Map -> elemInfo, err := buildFieldsInfo(mapping.Deref(tp.Elem()), fullName)",
     "reflect.Chan,reflect.Func -> return nil, fmt.Errorf(\"unsupported type: %s, fullName: %s\", tp.Kind(), fullName)",
     "default -> return &fieldInfo{ children: make(map[string]*fieldInfo), }, nil"] := by decide

/-- `infoField`. -/
theorem tie_buildNamedFieldInfo : buildNamedFieldInfoCases =
    ["reflect.Struct -> finfo, err = buildFieldsInfo(ft, fullName)",
     "reflect.Array,reflect.Slice -> finfo, err = buildFieldsInfo(ft.Elem(), fullName)",
     "reflect.Map -> elemInfo, err := buildFieldsInfo(mapping.Deref(ft.Elem()), fullName)",
     "default -> finfo, err = buildFieldsInfo(ft, fullName)"] := by decide

/-- `lowerVal`. -/
theorem tie_toLowerCaseInterface : lowerInterfaceCases =
    ["map[string]any -> return toLowerCaseKeyMap(vv, info)", "[]any -> var arr []any", "default -> return v"] := by decide

/-- `yamlGlue`: slices and `map[any]any` are walked, bool / string kept, every numeric kind becomes a `json.Number`,
anything else (nil) goes through `lang.Repr`. -/
theorem tie_toStringKeyMap : toStringKeyMapCases =
    ["[]any -> return convertSlice(v)", "map[any]any -> return convertKeyToString(v)", "bool,string -> return v",
     "int,uint,int8,uint8,int16,uint16,int32,uint32,int64,uint64,float32,float64 -> return convertNumberToJsonNumber(v)",
     "default -> return lang.Repr(v)"] := by decide

theorem tie_yamlToJson : yamlToJsonShape =
    ["call yaml.Unmarshal", "if err != nil {", "return", "}", "call toStringKeyMap", "call encodeToJSON", "return"] := by
  decide

theorem tie_tomlToJson : tomlToJsonShape =
    ["call bytes.NewReader", "call toml.NewDecoder", "call toml.NewDecoder(bytes.NewReader(data)).Decode",
     "if err != nil {", "return", "}", "call encodeToJSON", "return"] := by decide

/-- `convFromString`: bool from 1/true/0/false, `ParseInt` / `ParseUint` with the bit size of the kind, `ParseFloat`
with 32 / 64 (one rounding), strings as they are. -/
theorem tie_convertTypeFromString : convertTypeCases =
    ["reflect.Bool -> switch strings.ToLower(str) { case \"1\", \"true\": return true, nil case \"0\", \"false\": return",
     "reflect.Int -> return strconv.ParseInt(str, 10, intSize)",
     "reflect.Int8 -> return strconv.ParseInt(str, 10, 8)", "reflect.Int16 -> return strconv.ParseInt(str, 10, 16)",
     "reflect.Int32 -> return strconv.ParseInt(str, 10, 32)", "reflect.Int64 -> return strconv.ParseInt(str, 10, 64)",
     "reflect.Uint -> return strconv.ParseUint(str, 10, intSize)",
     "reflect.Uint8 -> return strconv.ParseUint(str, 10, 8)", "reflect.Uint16 -> return strconv.ParseUint(str, 10, 16)",
     "reflect.Uint32 -> return strconv.ParseUint(str, 10, 32)", "reflect.Uint64 -> return strconv.ParseUint(str, 10, 64)",
     "reflect.Float32 -> return strconv.ParseFloat(str, 32)", "reflect.Float64 -> return strconv.ParseFloat(str, 64)",
     "reflect.String -> return str, nil", "default -> return nil, errUnsupportedType"] := by decide

/-- numbers reach the unmarshaller as literals (`json.Number`). -/
theorem tie_useNumber : useNumberShape = ["call decoder.UseNumber", "call decoder.Decode", "return"] := by decide

/-- `unmarshalJson`. -/
theorem tie_unmarshalJsonBytes : unmarshalJsonBytesShape =
    ["call jsonx.Unmarshal", "if err != nil {", "return", "}", "call unmarshaler.Unmarshal", "return"] := by decide

/-! ### round 2: the mapping-level entry points, option forwarding, decoder settings, the file-level API -/

/-- `unmarshalWith o`: the options reach `getJsonUnmarshaler`. -/
theorem tie_mJsonBytes : mJsonBytes =
    ["return unmarshalJsonBytes(content, v, getJsonUnmarshaler(opts...))",
  "call unmarshalJsonBytes(content, v, getJsonUnmarshaler(opts...))",
  "call getJsonUnmarshaler(opts...)"] := by decide

theorem tie_mJsonReader : mJsonReader =
    ["return unmarshalJsonReader(reader, v, getJsonUnmarshaler(opts...))",
  "call unmarshalJsonReader(reader, v, getJsonUnmarshaler(opts...))",
  "call getJsonUnmarshaler(opts...)"] := by decide

theorem tie_mJsonMap : mJsonMap =
    ["return getJsonUnmarshaler(opts...).Unmarshal(m, v)",
  "call getJsonUnmarshaler(opts...).Unmarshal(m, v)",
  "call getJsonUnmarshaler(opts...)"] := by decide

/-- any option ⇒ a fresh unmarshaller built from exactly these options, none ⇒ the default one. -/
theorem tie_mGetJsonUnmarshaler : mGetJsonUnmarshaler =
    ["if len(opts) > 0",
  "call len(opts)",
  "return NewUnmarshaler(jsonTagKey, opts...)",
  "call NewUnmarshaler(jsonTagKey, opts...)",
  "return jsonUnmarshaler"] := by decide

theorem tie_mUnmarshalJsonBytes : mUnmarshalJsonBytes =
    ["if err != nil",
  "call jsonx.Unmarshal(content, &m)",
  "return err",
  "return unmarshaler.Unmarshal(m, v)",
  "call unmarshaler.Unmarshal(m, v)"] := by decide

theorem tie_mUnmarshalJsonReader : mUnmarshalJsonReader =
    ["if err != nil",
  "call jsonx.UnmarshalFromReader(reader, &m)",
  "return err",
  "return unmarshaler.Unmarshal(m, v)",
  "call unmarshaler.Unmarshal(m, v)"] := by decide

/-- `unmarshalYaml o` = front end, then `UnmarshalJsonBytes(b, v, opts...)` — the options are forwarded. -/
theorem tie_mYamlBytes : mYamlBytes =
    ["call encoding.YamlToJson(content)",
  "if err != nil",
  "return err",
  "return UnmarshalJsonBytes(b, v, opts...)",
  "call UnmarshalJsonBytes(b, v, opts...)"] := by decide

/-- the reader variant reads everything and calls the bytes variant with the same options. -/
theorem tie_mYamlReader : mYamlReader =
    ["call io.ReadAll(reader)",
  "if err != nil",
  "return err",
  "return UnmarshalYamlBytes(b, v, opts...)",
  "call UnmarshalYamlBytes(b, v, opts...)"] := by decide

/-- `unmarshalToml o` = front end, then `UnmarshalJsonBytes(b, v, opts...)` — the options are forwarded (seeded C17-2 dropped them). -/
theorem tie_mTomlBytes : mTomlBytes =
    ["call encoding.TomlToJson(content)",
  "if err != nil",
  "return err",
  "return UnmarshalJsonBytes(b, v, opts...)",
  "call UnmarshalJsonBytes(b, v, opts...)"] := by decide

/-- the reader variant reads everything and calls the bytes variant with the same options. -/
theorem tie_mTomlReader : mTomlReader =
    ["call io.ReadAll(r)",
  "if err != nil",
  "return err",
  "return UnmarshalTomlBytes(b, v, opts...)",
  "call UnmarshalTomlBytes(b, v, opts...)"] := by decide

/-- every option is applied to the unmarshaller's option record. -/
theorem tie_mNewUnmarshaler : mNewUnmarshaler =
    ["range opts",
  "call opt(&unmarshaler.opts)",
  "return &unmarshaler"] := by decide

theorem tie_mUnmarshal : mUnmarshal =
    ["return u.unmarshal(i, v, \"\")",
  "call u.unmarshal(i, v, \"\")"] := by decide

/-- `Opts.fromString`. -/
theorem tie_optStringValues : optStringValues =
    ["return func(opt *unmarshalOptions) { opt.fromString = true }",
  "set opt.fromString = true"] := by decide

/-- `Opts.canon` (with `strings.ToLower`). -/
theorem tie_optCanonicalKey : optCanonicalKey =
    ["return func(opt *unmarshalOptions) { opt.canonicalKey = f }",
  "set opt.canonicalKey = f"] := by decide

/-- `Opts.fromArray`. -/
theorem tie_optFromArray : optFromArray =
    ["return func(opt *unmarshalOptions) { opt.fromArray = true }",
  "set opt.fromArray = true"] := by decide

/-- `Opts.opaqueKeys`. -/
theorem tie_optOpaqueKeys : optOpaqueKeys =
    ["return func(opt *unmarshalOptions) { opt.opaqueKeys = true }",
  "set opt.opaqueKeys = true"] := by decide

/-- `fillDefaults`. -/
theorem tie_optDefault : optDefault =
    ["return func(opt *unmarshalOptions) { opt.fillDefault = true }",
  "set opt.fillDefault = true"] := by decide

/-- `withEnv`: bool by `ParseBool`, the kind of `time.Duration` (int64) by `ParseDuration`, string as is, numbers as `json.Number`. -/
theorem tie_envValueCases : envValueCases =
    ["reflect.Bool -> val, err := strconv.ParseBool(envVal)",
  "durationType.Kind() -> if err := fillDurationValue(fieldType, value, envVal); err != nil { return fmt.Errorf(\"unm",
  "reflect.String -> value.SetString(envVal)",
  "default -> return u.processFieldPrimitiveWithJSONNumber(fieldType, value, json.Number(envVal), opts, "] := by decide

/-- `getValue`: opaque ⇒ the key as is, else `strings.FieldsFunc` on the delimiter (`splitDots`). -/
theorem tie_mReadKeys : mReadKeys =
    ["if opaque",
  "return []string{key}",
  "call cacheKeysLock.Lock()",
  "call cacheKeysLock.Unlock()",
  "if ok",
  "return keys",
  "call strings.FieldsFunc(key, func(c rune) bool { return c == delimiter })",
  "return c == delimiter",
  "call cacheKeysLock.Lock()",
  "call cacheKeysLock.Unlock()",
  "return keys"] := by decide

/-- `chainKeys`. -/
theorem tie_mChainedKeys : mChainedKeys =
    ["call len(keys)",
  "return nil, false",
  "call m.Value(keys[0])",
  "return v, ok",
  "if ok",
  "call m.Value(keys[0])",
  "if ok",
  "return getValueWithChainedKeys(recursiveValuer{ current: mapValuer(nextm), parent: m, }, keys[1:])",
  "call getValueWithChainedKeys(recursiveValuer{ current: mapValuer(nextm), parent: m, }, keys[1:])",
  "call mapValuer(nextm)",
  "return nil, false"] := by decide

/-- `jsonx.Unmarshal`: a decoder with `UseNumber`. -/
theorem tie_xUnmarshal : xUnmarshal =
    ["call json.NewDecoder(bytes.NewReader(data))",
  "call bytes.NewReader(data)",
  "if err != nil",
  "call unmarshalUseNumber(decoder, v)",
  "return formatError(string(data), err)",
  "call formatError(string(data), err)",
  "call string(data)",
  "return nil"] := by decide

theorem tie_xUnmarshalFromReader : xUnmarshalFromReader =
    ["call io.TeeReader(reader, &buf)",
  "call json.NewDecoder(teeReader)",
  "if err != nil",
  "call unmarshalUseNumber(decoder, v)",
  "return formatError(buf.String(), err)",
  "call formatError(buf.String(), err)",
  "call buf.String()",
  "return nil"] := by decide

theorem tie_xUnmarshalFromString : xUnmarshalFromString =
    ["call json.NewDecoder(strings.NewReader(str))",
  "call strings.NewReader(str)",
  "if err != nil",
  "call unmarshalUseNumber(decoder, v)",
  "return formatError(str, err)",
  "call formatError(str, err)",
  "return nil"] := by decide

/-- numbers reach the unmarshaller as literals (`json.Number`). -/
theorem tie_xUseNumber : xUseNumber =
    ["call decoder.UseNumber()",
  "return decoder.Decode(v)",
  "call decoder.Decode(v)"] := by decide

/-- `confLoad`: read, loader by `strings.ToLower(path.Ext(file))`, options applied, `os.ExpandEnv` inside `if opt.env` only. -/
theorem tie_cLoad : cLoad =
    ["call os.ReadFile(file)",
  "if err != nil",
  "return err",
  "call strings.ToLower(path.Ext(file))",
  "call path.Ext(file)",
  "if !ok",
  "return fmt.Errorf(\"unrecognized file type: %s\", file)",
  "call fmt.Errorf(\"unrecognized file type: %s\", file)",
  "range opts",
  "call o(&opt)",
  "if opt.env",
  "return loader([]byte(os.ExpandEnv(string(content))), v)",
  "call loader([]byte(os.ExpandEnv(string(content))), v)",
  "call []byte(os.ExpandEnv(string(content)))",
  "call os.ExpandEnv(string(content))",
  "call string(content)",
  "if err != nil",
  "call loader(content, v)",
  "return err",
  "return validate(v)",
  "call validate(v)"] := by decide

/-- `LoadConfig` = `Load`. -/
theorem tie_cLoadConfig : cLoadConfig =
    ["return Load(file, v, opts...)",
  "call Load(file, v, opts...)"] := by decide

/-- `MustLoad` = `Load`, fatal on error. -/
theorem tie_cMustLoad : cMustLoad =
    ["if err != nil",
  "call Load(path, v, opts...)",
  "call log.Fatalf(\"error: config file %s, %s\", path, err.Error())",
  "call err.Error()"] := by decide

/-- `fillDefaults`: the `WithDefault` unmarshaller on an empty map. -/
theorem tie_cFillDefault : cFillDefault =
    ["return fillDefaultUnmarshaler.Unmarshal(map[string]any{}, v)",
  "call fillDefaultUnmarshaler.Unmarshal(map[string]any{}, v)"] := by decide

/-- `loadTreeWithO`. -/
theorem tie_cLoadJson : cLoadJson =
    ["call buildFieldsInfo(reflect.TypeOf(v), \"\")",
  "call reflect.TypeOf(v)",
  "if err != nil",
  "return err",
  "if err != nil",
  "call jsonx.Unmarshal(content, &m)",
  "return err",
  "call toLowerCaseKeyMap(m, info)",
  "if err != nil",
  "call mapping.UnmarshalJsonMap(lowerCaseKeyMap, v, mapping.WithCanonicalKeyFunc(toLowerCase))",
  "call mapping.WithCanonicalKeyFunc(toLowerCase)",
  "return err",
  "return validate(v)",
  "call validate(v)"] := by decide

theorem tie_cLoadYaml : cLoadYaml =
    ["call encoding.YamlToJson(content)",
  "if err != nil",
  "return err",
  "return LoadFromJsonBytes(b, v)",
  "call LoadFromJsonBytes(b, v)"] := by decide

theorem tie_cLoadToml : cLoadToml =
    ["call encoding.TomlToJson(content)",
  "if err != nil",
  "return err",
  "return LoadFromJsonBytes(b, v)",
  "call LoadFromJsonBytes(b, v)"] := by decide

/-- `UseEnv` sets `env`. -/
theorem tie_cUseEnv : cUseEnv =
    ["return func(opt *options) { opt.env = true }",
  "set opt.env = true"] := by decide

/-- `loaderOf`. -/
theorem tie_cLoaders : cLoaders =
    ["\".json\" -> LoadFromJsonBytes",
  "\".toml\" -> LoadFromTomlBytes",
  "\".yaml\" -> LoadFromYamlBytes",
  "\".yml\" -> LoadFromYamlBytes"] := by decide

theorem tie_eConvertKey : eConvertKey =
    ["call make(map[string]any)",
  "range in",
  "call lang.Repr(k)",
  "call toStringKeyMap(v)",
  "return res"] := by decide

theorem tie_eConvertNumber : eConvertNumber =
    ["return json.Number(lang.Repr(in))",
  "call json.Number(lang.Repr(in))",
  "call lang.Repr(in)"] := by decide

theorem tie_eConvertSlice : eConvertSlice =
    ["call make([]any, len(in))",
  "call len(in)",
  "range in",
  "call toStringKeyMap(v)",
  "return res"] := by decide

theorem tie_eEncodeToJSON : eEncodeToJSON =
    ["if err != nil",
  "call json.NewEncoder(&buf).Encode(val)",
  "call json.NewEncoder(&buf)",
  "return nil, err",
  "return buf.Bytes(), nil",
  "call buf.Bytes()"] := by decide

/-- `lowerMap`: exact child, else lower-cased child (stored under the lower-cased key), else `mapField` (key kept),
else nested map with the same info, else the value as is.  Two accepted forms: the pinned one ranges over the Go map
(nondeterministic for keys that collide up to case: `pinned_collision_order_dependent`), the fixed one
(fixes/C17-case-collision-deterministic.patch) collects the keys, sorts them and walks them in ascending order
(`sortDoc` + `lowerMap`). -/
theorem tie_toLowerCaseKeyMap : lowerKeyMapShape =
    ["range m {",
  "if ok {",
  "call toLowerCaseInterface",
  "mapset res",
  "continue",
  "}",
  "call toLowerCase",
  "if ok {",
  "call toLowerCaseInterface",
  "mapset res",
  "}",
  "else{",
  "if info.mapField != nil {",
  "call toLowerCaseInterface",
  "mapset res",
  "}",
  "else{",
  "if ok {",
  "call toLowerCaseKeyMap",
  "mapset res",
  "}",
  "else{",
  "mapset res",
  "}",
  "}",
  "}",
  "}",
  "return"] ∨ lowerKeyMapShape =
    ["range m {",
  "}",
  "call sort.Strings",
  "range keys {",
  "if ok {",
  "call toLowerCaseInterface",
  "mapset res",
  "continue",
  "}",
  "call toLowerCase",
  "if ok {",
  "call toLowerCaseInterface",
  "mapset res",
  "}",
  "else{",
  "if info.mapField != nil {",
  "call toLowerCaseInterface",
  "mapset res",
  "}",
  "else{",
  "if ok {",
  "call toLowerCaseKeyMap",
  "mapset res",
  "}",
  "else{",
  "mapset res",
  "}",
  "}",
  "}",
  "}",
  "return"] := by
  first | exact Or.inl (by decide) | exact Or.inr (by decide)

/-- `fillPrim`: integers through `setValueFromString`, float64 through `json.Number.Float64`; float32 either through
`Float64` (pinned: two roundings, `Opts.f32Pinned`) or `strconv.ParseFloat(…, 32)` (fixes/C17-float32-single-rounding.patch). -/
theorem tie_jsonNumberCases : jsonNumberCases.drop 1 =
    ["reflect.Float32 -> fValue, err := v.Float64()",
     "reflect.Float64 -> fValue, err := v.Float64()",
     "default -> return newTypeMismatchErrorWithHint(fullName, typeKind.String(), numberTypeString)"] ∨
    jsonNumberCases.drop 1 =
    ["reflect.Float32 -> fValue, err := strconv.ParseFloat(v.String(), 32)",
     "reflect.Float64 -> fValue, err := v.Float64()",
     "default -> return newTypeMismatchErrorWithHint(fullName, typeKind.String(), numberTypeString)"] := by
  first | exact Or.inl (by decide) | exact Or.inr (by decide)

end GoZero.C17.Tie
