import GoZero.Extracted.C17
import GoZero.C17.Model
namespace GoZero.C17.Tie
open GoZero.Extracted.C17

theorem extraction_clean : extractionErrors = [] := by decide

end GoZero.C17.Tie
