/-
C17 — Tie: what the extractor read from the go-zero tree *now* equals what the model was written against.
A failing obligation means the code moved away from the model (Model.lean names the Go function behind each definition).
-/
import GoZero.Extracted.C17
import GoZero.C17.Model
import GoZero.C17.Buf
import GoZero.C17.Spec
namespace GoZero.C17.Tie
open GoZero.C17
open GoZero.Extracted.C17

theorem extraction_clean : extractionErrors = [] := by decide

theorem tie_jsonTagKey : jsonTagKey = "json" := by decide

/-- `loadYaml fs y = loadTree fs (yamlGlue y)`: the YAML loader is the front end followed by the JSON loader, nothing else. -/
theorem tie_loadYaml : loadYamlShape =
    ["call encoding.YamlToJson", "if err != nil {", "return", "}", "call LoadFromJsonBytes", "return"] := by decide

/-- `loadToml fs t = loadTree fs (tomlGlue t)`. -/
theorem tie_loadToml : loadTomlShape =
    ["call encoding.TomlToJson", "if err != nil {", "return", "}", "call LoadFromJsonBytes", "return"] := by decide

/-- `loadTree`: info of the type, generic tree (`jsonx.Unmarshal`), `toLowerCaseKeyMap`, the unmarshaller with the
canonical-key option, validation — in this order. -/
theorem tie_loadJson : loadJsonShape =
    ["call buildFieldsInfo", "if err != nil {", "return", "}", "call jsonx.Unmarshal", "if err != nil {", "return", "}",
     "call toLowerCaseKeyMap", "call mapping.WithCanonicalKeyFunc", "call mapping.UnmarshalJsonMap",
     "if err != nil {", "return", "}", "call validate", "return"] := by decide

/-- `loadContent`: `os.ExpandEnv` is applied inside `if opt.env` only; both paths call the loader of the extension. -/
theorem tie_load : loadShape =
    ["call os.ReadFile", "if err != nil {", "return", "}", "call path.Ext", "if !ok {", "return", "}",
     "range opts {", "call o", "}", "if opt.env {", "call os.ExpandEnv", "call ?", "call loader", "return", "}",
     "call loader", "if err != nil {", "return", "}", "call validate", "return"] := by decide

/-- `infoOf`: struct → children; array / slice → looked through; **map → `mapField` (keys are data)**;
everything else → no children.  (The pinned code had `Array, Slice, Map` in one case: `infoOfPinned`.) -/
theorem tie_buildFieldsInfo : buildFieldsInfoCases =
    ["reflect.Struct -> return buildStructFieldsInfo(tp, fullName)",
     "reflect.Array,reflect.Slice -> return buildFieldsInfo(mapping.Deref(tp.Elem()), fullName)",
     "reflect.Map -> elemInfo, err := buildFieldsInfo(mapping.Deref(tp.Elem()), fullName)",
     "reflect.Chan,reflect.Func -> return nil, fmt.Errorf(\"unsupported type: %s, fullName: %s\", tp.Kind(), fullName)",
     "default -> return &fieldInfo{ children: make(map[string]*fieldInfo), }, nil"] := by decide

/-- `infoField`. -/
theorem tie_buildNamedFieldInfo : buildNamedFieldInfoCases =
    ["reflect.Struct -> finfo, err = buildFieldsInfo(ft, fullName)",
     "reflect.Array,reflect.Slice -> finfo, err = buildFieldsInfo(ft.Elem(), fullName)",
     "reflect.Map -> elemInfo, err := buildFieldsInfo(mapping.Deref(ft.Elem()), fullName)",
     "default -> finfo, err = buildFieldsInfo(ft, fullName)"] := by decide

/-- `lowerVal`. -/
theorem tie_toLowerCaseInterface : lowerInterfaceCases =
    ["map[string]any -> return toLowerCaseKeyMap(vv, info)", "[]any -> var arr []any", "default -> return v"] := by decide

/-- `yamlGlue`: slices and `map[any]any` are walked, bool / string kept, every numeric kind becomes a `json.Number`,
anything else (nil) goes through `lang.Repr`. -/
theorem tie_toStringKeyMap : toStringKeyMapCases =
    ["[]any -> return convertSlice(v)", "map[any]any -> return convertKeyToString(v)", "bool,string -> return v",
     "int,uint,int8,uint8,int16,uint16,int32,uint32,int64,uint64,float32,float64 -> return convertNumberToJsonNumber(v)",
     "default -> return lang.Repr(v)"] := by decide

theorem tie_yamlToJson : yamlToJsonShape =
    ["call yaml.Unmarshal", "if err != nil {", "return", "}", "call toStringKeyMap", "call encodeToJSON", "return"] := by
  decide

theorem tie_tomlToJson : tomlToJsonShape =
    ["call bytes.NewReader", "call toml.NewDecoder", "call toml.NewDecoder(bytes.NewReader(data)).Decode",
     "if err != nil {", "return", "}", "call encodeToJSON", "return"] := by decide

/-- `convFromString`: bool from 1/true/0/false, `ParseInt` / `ParseUint` with the bit size of the kind, `ParseFloat`
with 32 / 64 (one rounding), strings as they are. -/
theorem tie_convertTypeFromString : convertTypeCases =
    ["reflect.Bool -> switch strings.ToLower(str) { case \"1\", \"true\": return true, nil case \"0\", \"false\": return",
     "reflect.Int -> return strconv.ParseInt(str, 10, intSize)",
     "reflect.Int8 -> return strconv.ParseInt(str, 10, 8)", "reflect.Int16 -> return strconv.ParseInt(str, 10, 16)",
     "reflect.Int32 -> return strconv.ParseInt(str, 10, 32)", "reflect.Int64 -> return strconv.ParseInt(str, 10, 64)",
     "reflect.Uint -> return strconv.ParseUint(str, 10, intSize)",
     "reflect.Uint8 -> return strconv.ParseUint(str, 10, 8)", "reflect.Uint16 -> return strconv.ParseUint(str, 10, 16)",
     "reflect.Uint32 -> return strconv.ParseUint(str, 10, 32)", "reflect.Uint64 -> return strconv.ParseUint(str, 10, 64)",
     "reflect.Float32 -> return strconv.ParseFloat(str, 32)", "reflect.Float64 -> return strconv.ParseFloat(str, 64)",
     "reflect.String -> return str, nil", "default -> return nil, errUnsupportedType"] := by decide

/-- numbers reach the unmarshaller as literals (`json.Number`). -/
theorem tie_useNumber : useNumberShape = ["call decoder.UseNumber", "call decoder.Decode", "return"] := by decide

/-- `unmarshalJson`. -/
theorem tie_unmarshalJsonBytes : unmarshalJsonBytesShape =
    ["call jsonx.Unmarshal", "if err != nil {", "return", "}", "call unmarshaler.Unmarshal", "return"] := by decide

/-! ### round 2: the mapping-level entry points, option forwarding, decoder settings, the file-level API -/

/-- `unmarshalWith o`: the options reach `getJsonUnmarshaler`. -/
theorem tie_mJsonBytes : mJsonBytes =
    ["return unmarshalJsonBytes(content, v, getJsonUnmarshaler(opts...))",
  "call unmarshalJsonBytes(content, v, getJsonUnmarshaler(opts...))",
  "call getJsonUnmarshaler(opts...)"] := by decide

theorem tie_mJsonReader : mJsonReader =
    ["return unmarshalJsonReader(reader, v, getJsonUnmarshaler(opts...))",
  "call unmarshalJsonReader(reader, v, getJsonUnmarshaler(opts...))",
  "call getJsonUnmarshaler(opts...)"] := by decide

theorem tie_mJsonMap : mJsonMap =
    ["return getJsonUnmarshaler(opts...).Unmarshal(m, v)",
  "call getJsonUnmarshaler(opts...).Unmarshal(m, v)",
  "call getJsonUnmarshaler(opts...)"] := by decide

/-- any option ⇒ a fresh unmarshaller built from exactly these options, none ⇒ the default one. -/
theorem tie_mGetJsonUnmarshaler : mGetJsonUnmarshaler =
    ["if len(opts) > 0",
  "call len(opts)",
  "return NewUnmarshaler(jsonTagKey, opts...)",
  "call NewUnmarshaler(jsonTagKey, opts...)",
  "return jsonUnmarshaler"] := by decide

theorem tie_mUnmarshalJsonBytes : mUnmarshalJsonBytes =
    ["if err != nil",
  "call jsonx.Unmarshal(content, &m)",
  "return err",
  "return unmarshaler.Unmarshal(m, v)",
  "call unmarshaler.Unmarshal(m, v)"] := by decide

theorem tie_mUnmarshalJsonReader : mUnmarshalJsonReader =
    ["if err != nil",
  "call jsonx.UnmarshalFromReader(reader, &m)",
  "return err",
  "return unmarshaler.Unmarshal(m, v)",
  "call unmarshaler.Unmarshal(m, v)"] := by decide

/-- `unmarshalYaml o` = front end, then `UnmarshalJsonBytes(b, v, opts...)` — the options are forwarded. -/
theorem tie_mYamlBytes : mYamlBytes =
    ["call encoding.YamlToJson(content)",
  "if err != nil",
  "return err",
  "return UnmarshalJsonBytes(b, v, opts...)",
  "call UnmarshalJsonBytes(b, v, opts...)"] := by decide

/-- the reader variant reads everything and calls the bytes variant with the same options. -/
theorem tie_mYamlReader : mYamlReader =
    ["call io.ReadAll(reader)",
  "if err != nil",
  "return err",
  "return UnmarshalYamlBytes(b, v, opts...)",
  "call UnmarshalYamlBytes(b, v, opts...)"] := by decide

/-- `unmarshalToml o` = front end, then `UnmarshalJsonBytes(b, v, opts...)` — the options are forwarded (seeded C17-2 dropped them). -/
theorem tie_mTomlBytes : mTomlBytes =
    ["call encoding.TomlToJson(content)",
  "if err != nil",
  "return err",
  "return UnmarshalJsonBytes(b, v, opts...)",
  "call UnmarshalJsonBytes(b, v, opts...)"] := by decide

/-- the reader variant reads everything and calls the bytes variant with the same options. -/
theorem tie_mTomlReader : mTomlReader =
    ["call io.ReadAll(r)",
  "if err != nil",
  "return err",
  "return UnmarshalTomlBytes(b, v, opts...)",
  "call UnmarshalTomlBytes(b, v, opts...)"] := by decide

/-- every option is applied to the unmarshaller's option record. -/
theorem tie_mNewUnmarshaler : mNewUnmarshaler =
    ["range opts",
  "call opt(&unmarshaler.opts)",
  "return &unmarshaler"] := by decide

theorem tie_mUnmarshal : mUnmarshal =
    ["return u.unmarshal(i, v, \"\")",
  "call u.unmarshal(i, v, \"\")"] := by decide

/-- `Opts.fromString`. -/
theorem tie_optStringValues : optStringValues =
    ["return func(opt *unmarshalOptions) { opt.fromString = true }",
  "set opt.fromString = true"] := by decide

/-- `Opts.canon` (with `strings.ToLower`). -/
theorem tie_optCanonicalKey : optCanonicalKey =
    ["return func(opt *unmarshalOptions) { opt.canonicalKey = f }",
  "set opt.canonicalKey = f"] := by decide

/-- `Opts.fromArray`. -/
theorem tie_optFromArray : optFromArray =
    ["return func(opt *unmarshalOptions) { opt.fromArray = true }",
  "set opt.fromArray = true"] := by decide

/-- `Opts.opaqueKeys`. -/
theorem tie_optOpaqueKeys : optOpaqueKeys =
    ["return func(opt *unmarshalOptions) { opt.opaqueKeys = true }",
  "set opt.opaqueKeys = true"] := by decide

/-- `fillDefaults`. -/
theorem tie_optDefault : optDefault =
    ["return func(opt *unmarshalOptions) { opt.fillDefault = true }",
  "set opt.fillDefault = true"] := by decide

/-- `withEnv`: bool by `ParseBool`, the kind of `time.Duration` (int64) by `ParseDuration`, string as is, numbers as `json.Number`. -/
theorem tie_envValueCases : envValueCases =
    ["reflect.Bool -> val, err := strconv.ParseBool(envVal)",
  "durationType.Kind() -> if err := fillDurationValue(fieldType, value, envVal); err != nil { return fmt.Errorf(\"unm",
  "reflect.String -> value.SetString(envVal)",
  "default -> return u.processFieldPrimitiveWithJSONNumber(fieldType, value, json.Number(envVal), opts, "] := by decide

/-- `getValue`: opaque ⇒ the key as is, else `strings.FieldsFunc` on the delimiter (`splitDots`). -/
theorem tie_mReadKeys : mReadKeys =
    ["if opaque",
  "return []string{key}",
  "call cacheKeysLock.Lock()",
  "call cacheKeysLock.Unlock()",
  "if ok",
  "return keys",
  "call strings.FieldsFunc(key, func(c rune) bool { return c == delimiter })",
  "return c == delimiter",
  "call cacheKeysLock.Lock()",
  "call cacheKeysLock.Unlock()",
  "return keys"] := by decide

/-- `chainKeys`. -/
theorem tie_mChainedKeys : mChainedKeys =
    ["call len(keys)",
  "return nil, false",
  "call m.Value(keys[0])",
  "return v, ok",
  "if ok",
  "call m.Value(keys[0])",
  "if ok",
  "return getValueWithChainedKeys(recursiveValuer{ current: mapValuer(nextm), parent: m, }, keys[1:])",
  "call getValueWithChainedKeys(recursiveValuer{ current: mapValuer(nextm), parent: m, }, keys[1:])",
  "call mapValuer(nextm)",
  "return nil, false"] := by decide

/-- `jsonx.Unmarshal`: a decoder with `UseNumber`. -/
theorem tie_xUnmarshal : xUnmarshal =
    ["call json.NewDecoder(bytes.NewReader(data))",
  "call bytes.NewReader(data)",
  "if err != nil",
  "call unmarshalUseNumber(decoder, v)",
  "return formatError(string(data), err)",
  "call formatError(string(data), err)",
  "call string(data)",
  "return nil"] := by decide

theorem tie_xUnmarshalFromReader : xUnmarshalFromReader =
    ["call io.TeeReader(reader, &buf)",
  "call json.NewDecoder(teeReader)",
  "if err != nil",
  "call unmarshalUseNumber(decoder, v)",
  "return formatError(buf.String(), err)",
  "call formatError(buf.String(), err)",
  "call buf.String()",
  "return nil"] := by decide

theorem tie_xUnmarshalFromString : xUnmarshalFromString =
    ["call json.NewDecoder(strings.NewReader(str))",
  "call strings.NewReader(str)",
  "if err != nil",
  "call unmarshalUseNumber(decoder, v)",
  "return formatError(str, err)",
  "call formatError(str, err)",
  "return nil"] := by decide

/-- numbers reach the unmarshaller as literals (`json.Number`). -/
theorem tie_xUseNumber : xUseNumber =
    ["call decoder.UseNumber()",
  "return decoder.Decode(v)",
  "call decoder.Decode(v)"] := by decide

/-- `confLoad`: read, loader by `strings.ToLower(path.Ext(file))`, options applied, `os.ExpandEnv` inside `if opt.env` only. -/
theorem tie_cLoad : cLoad =
    ["call os.ReadFile(file)",
  "if err != nil",
  "return err",
  "call strings.ToLower(path.Ext(file))",
  "call path.Ext(file)",
  "if !ok",
  "return fmt.Errorf(\"unrecognized file type: %s\", file)",
  "call fmt.Errorf(\"unrecognized file type: %s\", file)",
  "range opts",
  "call o(&opt)",
  "if opt.env",
  "return loader([]byte(os.ExpandEnv(string(content))), v)",
  "call loader([]byte(os.ExpandEnv(string(content))), v)",
  "call []byte(os.ExpandEnv(string(content)))",
  "call os.ExpandEnv(string(content))",
  "call string(content)",
  "if err != nil",
  "call loader(content, v)",
  "return err",
  "return validate(v)",
  "call validate(v)"] := by decide

/-- `LoadConfig` = `Load`. -/
theorem tie_cLoadConfig : cLoadConfig =
    ["return Load(file, v, opts...)",
  "call Load(file, v, opts...)"] := by decide

/-- `MustLoad` = `Load`, fatal on error. -/
theorem tie_cMustLoad : cMustLoad =
    ["if err != nil",
  "call Load(path, v, opts...)",
  "call log.Fatalf(\"error: config file %s, %s\", path, err.Error())",
  "call err.Error()"] := by decide

/-- `fillDefaults`: the `WithDefault` unmarshaller on an empty map. -/
theorem tie_cFillDefault : cFillDefault =
    ["return fillDefaultUnmarshaler.Unmarshal(map[string]any{}, v)",
  "call fillDefaultUnmarshaler.Unmarshal(map[string]any{}, v)"] := by decide

/-- `loadTreeWithO`. -/
theorem tie_cLoadJson : cLoadJson =
    ["call buildFieldsInfo(reflect.TypeOf(v), \"\")",
  "call reflect.TypeOf(v)",
  "if err != nil",
  "return err",
  "if err != nil",
  "call jsonx.Unmarshal(content, &m)",
  "return err",
  "call toLowerCaseKeyMap(m, info)",
  "if err != nil",
  "call mapping.UnmarshalJsonMap(lowerCaseKeyMap, v, mapping.WithCanonicalKeyFunc(toLowerCase))",
  "call mapping.WithCanonicalKeyFunc(toLowerCase)",
  "return err",
  "return validate(v)",
  "call validate(v)"] := by decide

theorem tie_cLoadYaml : cLoadYaml =
    ["call encoding.YamlToJson(content)",
  "if err != nil",
  "return err",
  "return LoadFromJsonBytes(b, v)",
  "call LoadFromJsonBytes(b, v)"] := by decide

theorem tie_cLoadToml : cLoadToml =
    ["call encoding.TomlToJson(content)",
  "if err != nil",
  "return err",
  "return LoadFromJsonBytes(b, v)",
  "call LoadFromJsonBytes(b, v)"] := by decide

/-- `UseEnv` sets `env`. -/
theorem tie_cUseEnv : cUseEnv =
    ["return func(opt *options) { opt.env = true }",
  "set opt.env = true"] := by decide

/-- `loaderOf`. -/
theorem tie_cLoaders : cLoaders =
    ["\".json\" -> LoadFromJsonBytes",
  "\".toml\" -> LoadFromTomlBytes",
  "\".yaml\" -> LoadFromYamlBytes",
  "\".yml\" -> LoadFromYamlBytes"] := by decide

theorem tie_eConvertKey : eConvertKey =
    ["call make(map[string]any)",
  "range in",
  "call lang.Repr(k)",
  "call toStringKeyMap(v)",
  "return res"] := by decide

theorem tie_eConvertNumber : eConvertNumber =
    ["return json.Number(lang.Repr(in))",
  "call json.Number(lang.Repr(in))",
  "call lang.Repr(in)"] := by decide

theorem tie_eConvertSlice : eConvertSlice =
    ["call make([]any, len(in))",
  "call len(in)",
  "range in",
  "call toStringKeyMap(v)",
  "return res"] := by decide

theorem tie_eEncodeToJSON : eEncodeToJSON =
    ["if err != nil",
  "call json.NewEncoder(&buf).Encode(val)",
  "call json.NewEncoder(&buf)",
  "return nil, err",
  "return buf.Bytes(), nil",
  "call buf.Bytes()"] := by decide

/-- `lowerMap`: exact child, else lower-cased child (stored under the lower-cased key), else `mapField` (key kept),
else nested map with the same info, else the value as is.  Two accepted forms: the pinned one ranges over the Go map
(nondeterministic for keys that collide up to case: `pinned_collision_order_dependent`), the fixed one
(fixes/C17-case-collision-deterministic.patch) collects the keys, sorts them and walks them in ascending order
(`sortDoc` + `lowerMap`). -/
theorem tie_toLowerCaseKeyMap : lowerKeyMapShape =
    ["range m {",
  "if ok {",
  "call toLowerCaseInterface",
  "mapset res",
  "continue",
  "}",
  "call toLowerCase",
  "if ok {",
  "call toLowerCaseInterface",
  "mapset res",
  "}",
  "else{",
  "if info.mapField != nil {",
  "call toLowerCaseInterface",
  "mapset res",
  "}",
  "else{",
  "if ok {",
  "call toLowerCaseKeyMap",
  "mapset res",
  "}",
  "else{",
  "mapset res",
  "}",
  "}",
  "}",
  "}",
  "return"] ∨ lowerKeyMapShape =
    ["range m {",
  "}",
  "call sort.Strings",
  "range keys {",
  "if ok {",
  "call toLowerCaseInterface",
  "mapset res",
  "continue",
  "}",
  "call toLowerCase",
  "if ok {",
  "call toLowerCaseInterface",
  "mapset res",
  "}",
  "else{",
  "if info.mapField != nil {",
  "call toLowerCaseInterface",
  "mapset res",
  "}",
  "else{",
  "if ok {",
  "call toLowerCaseKeyMap",
  "mapset res",
  "}",
  "else{",
  "mapset res",
  "}",
  "}",
  "}",
  "}",
  "return"] := by
  first | exact Or.inl (by decide) | exact Or.inr (by decide)

/-- `fillPrim`: integers through `setValueFromString`, float64 through `json.Number.Float64`; float32 either through
`Float64` (pinned: two roundings, `Opts.f32Pinned`) or `strconv.ParseFloat(…, 32)` (fixes/C17-float32-single-rounding.patch). -/
theorem tie_jsonNumberCases : jsonNumberCases.drop 1 =
    ["reflect.Float32 -> fValue, err := v.Float64()",
     "reflect.Float64 -> fValue, err := v.Float64()",
     "default -> return newTypeMismatchErrorWithHint(fullName, typeKind.String(), numberTypeString)"] ∨
    jsonNumberCases.drop 1 =
    ["reflect.Float32 -> fValue, err := strconv.ParseFloat(v.String(), 32)",
     "reflect.Float64 -> fValue, err := v.Float64()",
     "default -> return newTypeMismatchErrorWithHint(fullName, typeKind.String(), numberTypeString)"] := by
  first | exact Or.inl (by decide) | exact Or.inr (by decide)

/-! ### round 4: allocation sites, per-element functions, state between calls -/

/-- `genMapSite = .perEntry`: every cell stored under a key by `generateMap` is allocated in the loop body (a fresh `reflect.New` / a fresh inner map / a fresh `reflect.ValueOf` copy per key); nothing a pointer element can refer to lives outside the loop (seeded C17-5 hoisted the json.Number cell: "outer numTarget"). -/
theorem tie_genMapAlloc : genMapAlloc =
    ["SetMapIndexValue target.Elem() <- loop target := reflect.New(dereffedElemType)",
  "SetMapIndexValue target.Elem() <- loop target := reflect.New(dereffedElemType)",
  "SetMapIndexValue innerValue <- loop innerValue := u.generateMap(dereffedElemType.Key(), dereffedElemType.Elem(), keythMap, mapFullName)",
  "SetMapIndexValue reflect.ValueOf(v) <- outer reflect",
  "SetMapIndexValue val <- loop val := reflect.ValueOf(v)",
  "SetMapIndexValue target.Elem() <- loop target := reflect.New(dereffedElemType)",
  "targetValue.SetMapIndex keythValue <- loop keythValue := refValue.MapIndex(key)"] := by rfl

/-- `fillSlice` / `sliceElems` (`fillSliceSite = .perEntry`): one `MakeSlice` per slice value, element i is filled through `conv.Index(i)`; null elements are skipped; the field is set only when some element was non-null. -/
theorem tie_mFillSlice : mFillSlice =
    ["if !value.CanSet()",
  "call value.CanSet()",
  "return errValueNotSettable",
  "if fieldType.Kind() == reflect.Ptr",
  "call fieldType.Kind()",
  "call Deref(fieldType)",
  "call reflect.New(baseType).Elem()",
  "call reflect.New(baseType)",
  "if err != nil",
  "call u.fillSlice(baseType, target, mapValue, fullName)",
  "return err",
  "call SetValue(fieldType, value, target)",
  "return nil",
  "call reflect.ValueOf(mapValue)",
  "if refValue.Kind() != reflect.Slice",
  "call refValue.Kind()",
  "return newTypeMismatchErrorWithHint(fullName, reflect.Slice.String(), fmt.Sprintf(\"%T\", mapValue))",
  "call newTypeMismatchErrorWithHint(fullName, reflect.Slice.String(), fmt.Sprintf(\"%T\", mapValue))",
  "call reflect.Slice.String()",
  "call fmt.Sprintf(\"%T\", mapValue)",
  "if refValue.IsNil()",
  "call refValue.IsNil()",
  "return nil",
  "call fieldType.Elem()",
  "call Deref(baseType)",
  "call dereffedBaseType.Kind()",
  "if refValue.Len() == 0",
  "call refValue.Len()",
  "call value.Set(reflect.MakeSlice(reflect.SliceOf(baseType), 0, 0))",
  "call reflect.MakeSlice(reflect.SliceOf(baseType), 0, 0)",
  "call reflect.SliceOf(baseType)",
  "return nil",
  "call reflect.MakeSlice(reflect.SliceOf(baseType), refValue.Len(), refValue.Cap())",
  "call reflect.SliceOf(baseType)",
  "call refValue.Len()",
  "call refValue.Cap()",
  "call refValue.Len()",
  "call refValue.Index(i).Interface()",
  "call refValue.Index(i)",
  "if ithValue == nil",
  "call fmt.Sprintf(\"%s[%d]\", fullName, i)",
  "if err != nil",
  "call u.fillStructElement(baseType, conv.Index(i), ithValue, sliceFullName)",
  "call conv.Index(i)",
  "return err",
  "if err != nil",
  "call u.fillSlice(baseType, conv.Index(i), ithValue, sliceFullName)",
  "call conv.Index(i)",
  "return err",
  "if err != nil",
  "call u.fillSliceValue(conv, i, dereffedBaseKind, ithValue, sliceFullName)",
  "return err",
  "if valid",
  "call value.Set(conv)",
  "return nil"] := by rfl

/-- `sliceElemPrim` and the per-element allocation of pointer elements: `target := reflect.New(baseType).Elem()` for every element. -/
theorem tie_mFillSliceValue : mFillSliceValue =
    ["if value == nil",
  "return errNilSliceElement",
  "call slice.Index(index)",
  "call ithVal.Type()",
  "return setValueFromString(baseKind, ithVal, v.String())",
  "call setValueFromString(baseKind, ithVal, v.String())",
  "call v.String()",
  "return setValueFromString(baseKind, ithVal, v)",
  "call setValueFromString(baseKind, ithVal, v)",
  "call Deref(ithValType).Kind()",
  "call Deref(ithValType)",
  "return u.fillStructElement(ithValType, ithVal, v, fullName)",
  "call u.fillStructElement(ithValType, ithVal, v, fullName)",
  "return u.fillMap(ithValType, ithVal, value, fullName)",
  "call u.fillMap(ithValType, ithVal, value, fullName)",
  "return errTypeMismatch",
  "if ithVal.Kind() == reflect.Ptr",
  "call ithVal.Kind()",
  "call Deref(ithValType)",
  "if !reflect.TypeOf(value).AssignableTo(baseType)",
  "call reflect.TypeOf(value).AssignableTo(baseType)",
  "call reflect.TypeOf(value)",
  "return errTypeMismatch",
  "call reflect.New(baseType).Elem()",
  "call reflect.New(baseType)",
  "call target.Set(reflect.ValueOf(value))",
  "call reflect.ValueOf(value)",
  "call SetValue(ithValType, ithVal, target)",
  "return nil",
  "if !reflect.TypeOf(value).AssignableTo(ithValType)",
  "call reflect.TypeOf(value).AssignableTo(ithValType)",
  "call reflect.TypeOf(value)",
  "return errTypeMismatch",
  "call ithVal.Set(reflect.ValueOf(value))",
  "call reflect.ValueOf(value)",
  "return nil"] := by rfl

/-- struct elements: a fresh `reflect.New(Deref(baseType))` per element. -/
theorem tie_mFillStructElement : mFillStructElement =
    ["if !ok",
  "return errTypeMismatch",
  "call reflect.New(Deref(baseType))",
  "call Deref(baseType)",
  "if err != nil",
  "call u.unmarshal(val, ptr.Interface(), fullName)",
  "call ptr.Interface()",
  "return err",
  "call SetValue(baseType, target, ptr.Elem())",
  "call ptr.Elem()",
  "return nil"] := by rfl

/-- `wrapPtr`: an addressable cell is pointed at directly, anything else is copied into a fresh `reflect.New` per pointer level. -/
theorem tie_uConvertTypeOfPtr : uConvertTypeOfPtr =
    ["if tp.Kind() == reflect.Ptr && target.CanAddr()",
  "call tp.Kind()",
  "call target.CanAddr()",
  "call tp.Elem()",
  "call target.Addr()",
  "call tp.Kind()",
  "call reflect.New(target.Type())",
  "call target.Type()",
  "call p.Elem().Set(target)",
  "call p.Elem()",
  "call tp.Elem()",
  "return target"] := by rfl

/-- the map entry is the converted target. -/
theorem tie_uSetMapIndexValue : uSetMapIndexValue =
    ["call value.SetMapIndex(key, convertTypeOfPtr(tp, target))",
  "call convertTypeOfPtr(tp, target)"] := by rfl

/-- the field is the converted target. -/
theorem tie_uSetValue : uSetValue =
    ["call value.Set(convertTypeOfPtr(tp, target))",
  "call convertTypeOfPtr(tp, target)"] := by rfl

/-- `buildOptions`: the option record of `conf.Load` is a local zero value, fresh for every call (seeded C17-4 took a pointer to a package-level default). -/
theorem tie_cLoadDecls : cLoadDecls =
    ["var opt options"] := by rfl

/-- state of package conf that outlives a call: the default-filling unmarshaller and the loaders table, nothing else. -/
theorem tie_cPkgVars : cPkgVars =
    ["fillDefaultUnmarshaler = mapping.NewUnmarshaler(jsonTagKey, mapping.WithDefault())",
  "loaders = map[string]func([]byte, any) error{ \".json\": LoadFromJsonByt"] := by rfl

/-- options.go holds no package-level state. -/
theorem tie_cOptionsPkgVars : cOptionsPkgVars =
    [] := by rfl

/-- the default JSON unmarshaller (no options) is the only package-level state of jsonunmarshaler.go. -/
theorem tie_mJsonPkgVars : mJsonPkgVars =
    ["jsonUnmarshaler = NewUnmarshaler(jsonTagKey)"] := by rfl

/-- jsonx has no package-level state. -/
theorem tie_xPkgVars : xPkgVars =
    [] := by rfl

/-- internal/encoding has no package-level state. -/
theorem tie_ePkgVars : ePkgVars =
    [] := by rfl

/-! ### round 4: decisions TRANSLATED from the Go conditions (extract/c17.go `c17Conds`), proven equal to the model's
decisions for all arguments.  A changed comparison operator, a negation, a swapped operand or constant breaks them. -/

/-- no new condition entered the functions whose conditions are translated. -/
theorem tie_condCounts : rangeCondCount = 4 ∧ getUnmCondCount = 1 ∧ loadCondCount = 4 ∧ fillSliceCondCount = 11 ∧
    genMapCondCount = 12 ∧ lowerMapCondCount = 4 ∧ loadJsonCondCount = 3 := by decide

theorem dec_le_not_lt (x y : Int) : decide (x ≤ y) = !decide (y < x) := by
  by_cases h : x ≤ y
  · have h2 : ¬ y < x := by omega
    simp [h, h2]
  · have h2 : y < x := by omega
    simp [h, h2]

theorem dec_lt_not_le (x y : Int) : decide (x < y) = !decide (y ≤ x) := by
  by_cases h : x < y
  · have h2 : ¬ y ≤ x := by omega
    simp [h, h2]
  · have h2 : y ≤ x := by omega
    simp [h, h2]

/-- `inRange`, no range: `nr == nil` ⇒ valid. -/
theorem tie_rangeNone (b : Bool) : rangeCond0 b = b := rfl

/-- `inRange`, left bound: the value `n/d` violates the bound `a/b` iff NOT (`a/b ≤ n/d` when inclusive, `a/b < n/d`
when exclusive) — the model compares the exact fractions by cross-multiplication. -/
theorem tie_rangeLeft (inc : Bool) (a n : Int) (b d : Nat) :
    rangeCond2 inc (n * b) (a * d) = !(if inc then fracLe a b n d else fracLt a b n d) := by
  cases inc
  · simp only [rangeCond2, fracLe, fracLt, Bool.false_and, Bool.not_false, Bool.true_and, Bool.false_or, if_false, Bool.false_eq_true]
    exact dec_le_not_lt _ _
  · simp only [rangeCond2, fracLe, fracLt, Bool.true_and, Bool.not_true, Bool.false_and, Bool.or_false, if_true]
    exact dec_lt_not_le _ _

/-- `inRange`, right bound. -/
theorem tie_rangeRight (inc : Bool) (a n : Int) (b d : Nat) :
    rangeCond3 inc (n * b) (a * d) = !(if inc then fracLe n d a b else fracLt n d a b) := by
  cases inc
  · simp only [rangeCond3, fracLe, fracLt, Bool.false_and, Bool.not_false, Bool.true_and, Bool.false_or, if_false, Bool.false_eq_true, ge_iff_le, gt_iff_lt]
    exact dec_le_not_lt _ _
  · simp only [rangeCond3, fracLe, fracLt, Bool.true_and, Bool.not_true, Bool.false_and, Bool.or_false, if_true, ge_iff_le, gt_iff_lt]
    exact dec_lt_not_le _ _

/-- `freshUnmarshaler`: `len(opts) > 0`. -/
theorem tie_getUnmCond (n : Nat) : getUnmCond0 (n : Int) = freshUnmarshaler n := by
  cases n <;> simp [getUnmCond0, freshUnmarshaler] <;> omega

/-- `loadContent`: the content is expanded exactly under `if opt.env`. -/
theorem tie_loadEnvCond (expand : Str → Str) (e : Bool) (c : Str) :
    (if loadCond2 e then expand c else c) = loadContent expand e c := by
  cases e <;> rfl

/-- `confLoad`: `!ok` (no loader for the extension) ⇒ error; errors of ReadFile / of the loader are returned. -/
theorem tie_loadErrConds (b : Bool) : loadCond1 b = !b ∧ loadCond0 b = !b ∧ loadCond3 b = !b := ⟨rfl, rfl, rfl⟩

/-- `fillSlice`: `refValue.Len() == 0` ⇒ the empty, non-nil slice (`l.isNil`). -/
theorem tie_fillSliceEmpty (l : JL) : fillSliceCond5 (l.length : Int) = l.isNil := by
  cases l with
  | nil => rfl
  | cons h t =>
    simp only [fillSliceCond5, JL.isNil, JL.length]
    have hne : ¬ (((t.length + 1 : Nat) : Int) = 0) := by omega
    exact decide_eq_false hne

/-- `sliceElems`: a null element is skipped (`ithValue == nil` ⇒ continue), the slice is stored iff some element was
valid (`if valid`), a non-slice value is a type mismatch, a pointer type is dereferenced first. -/
theorem tie_fillSliceDecisions (b : Bool) (k c : Int) :
    fillSliceCond6 b = b ∧ fillSliceCond10 b = b ∧ fillSliceCond4 b = b ∧ fillSliceCond0 b = !b ∧
    fillSliceCond3 k c = !decide (k = c) ∧ fillSliceCond1 k c = decide (k = c) := ⟨rfl, rfl, rfl, rfl, rfl, rfl⟩

/-- `mapElemPrim`: a bool / string value into an element of another kind is a type mismatch (`if p = .bool`,
`if p = .string`), any other value must have the element's kind; an identical map type is taken as is. -/
theorem tie_genMapDecisions (k c : Int) (b : Bool) :
    genMapCond7 k c = !decide (k = c) ∧ genMapCond8 k c = !decide (k = c) ∧ genMapCond11 k c = !decide (k = c) ∧
    genMapCond0 k c = decide (k = c) ∧ genMapCond1 k c = !decide (k = c) ∧ genMapCond9 b = !b ∧
    genMapCond3 b = !b ∧ genMapCond5 b = !b := ⟨rfl, rfl, rfl, rfl, rfl, rfl, rfl, rfl⟩

/-- `lowerMap`: exact child / lower-cased child / `mapField != nil` / nested map — the polarity of each test. -/
theorem tie_lowerMapDecisions (b : Bool) :
    lowerMapCond0 b = b ∧ lowerMapCond1 b = b ∧ lowerMapCond2 b = !b ∧ lowerMapCond3 b = b := ⟨rfl, rfl, rfl, rfl⟩

/-- `loadTreeWithO`: every error (info, generic tree, unmarshal) is returned. -/
theorem tie_loadJsonDecisions (b : Bool) : loadJsonCond0 b = !b ∧ loadJsonCond1 b = !b ∧ loadJsonCond2 b = !b :=
  ⟨rfl, rfl, rfl⟩

/-- `FMeta.tagKey` as `conf` reads it (`getTagName`): the tag up to the first ',' (a ',' at position 0 included: the
name is then empty), trimmed; an empty name ⇒ the field's Go name. -/
theorem tie_cGetTagName : cGetTagName =
    ["if ok", "call field.Tag.Lookup(jsonTagKey)", "if pos >= 0", "call strings.IndexByte(tag, jsonTagSep)",
     "call strings.TrimSpace(tag)", "if len(tag) > 0", "call len(tag)", "return tag", "return field.Name"] := by rfl

/-- the tag is cut at EVERY separator position ≥ 0 (`strings.IndexByte` returns -1 for none), the cut name is used
iff it is non-empty. -/
theorem tie_tagNameDecisions (pos : Int) (n : Nat) (b : Bool) :
    tagNameCondCount = 3 ∧ tagNameCond0 b = b ∧ tagNameCond1 pos = decide (0 ≤ pos) ∧
    tagNameCond2 (n : Int) = decide (n ≠ 0) := by
  refine ⟨rfl, rfl, rfl, ?_⟩
  cases n with
  | zero => rfl
  | succ k =>
    simp [tagNameCond2]

/-- the deprecated wrappers are the loaders. -/
theorem tie_cLoadConfigJson : cLoadConfigJson =
    ["return LoadFromJsonBytes(content, v)", "call LoadFromJsonBytes(content, v)"] := by rfl

theorem tie_cLoadConfigYaml : cLoadConfigYaml =
    ["return LoadFromYamlBytes(content, v)", "call LoadFromYamlBytes(content, v)"] := by rfl

/-! ### round 5: where the bytes of a conversion live; the typed data flow of the delegating entry points -/

/-- `encodeToJSON` renders into `var buf bytes.Buffer`, a LOCAL of the call, with no defer: the returned bytes belong to
the caller (`encodeSite = .freshLocal`, theorems `conversion_results_stable`, `load_reads_own_document`).  A buffer taken
from package-level state (a pool: seeded C17-8) gives `some .pooled`, anything else `none`. -/
theorem tie_encodeBufSite : siteOfFlow encodeBufFlow = some encodeSite := by decide

/-- the record itself (the returned expression and the declaration it comes from). -/
theorem tie_encodeBufFlow : encodeBufFlow =
    [("return", "buf.Bytes()"), ("root", "buf"), ("root-scope", "local"), ("decl", "var"), ("type", "bytes.Buffer"),
     ("defers", "0"), ("other-returns", "0")] := by decide

/-- `YamlToJson` / `TomlToJson` return what `encodeToJSON` returned (no copy in between, nothing kept). -/
theorem tie_fwdEncoding :
    fcallsOf fwdEYamlToJson = [⟨"yaml.Unmarshal", [.param 0, .other]⟩, ⟨"toStringKeyMap", [.other]⟩, ⟨"encodeToJSON", [.result 1]⟩] ∧
    fcallsOf fwdETomlToJson = [⟨"toml.NewDecoder(bytes.NewReader(data)).Decode", [.other]⟩, ⟨"encodeToJSON", [.other]⟩] := by
  decide

/-- the data flow of the four delegating mapping entry points IS the flow the theorems
`mapping_entry_points_all_option_lists` / `fwd_*_sem` speak about: content through the front end, the target as it is,
the options SPREAD (`opts...`). -/
theorem tie_fwdYamlBytes : fcallsOf Extracted.C17.fwdYamlBytes = GoZero.C17.fwdYamlBytes := by decide
theorem tie_fwdTomlBytes : fcallsOf Extracted.C17.fwdTomlBytes = GoZero.C17.fwdTomlBytes := by decide
theorem tie_fwdYamlReader : fcallsOf Extracted.C17.fwdYamlReader = GoZero.C17.fwdYamlReader := by decide
theorem tie_fwdTomlReader : fcallsOf Extracted.C17.fwdTomlReader = GoZero.C17.fwdTomlReader := by decide
theorem tie_fwdConfYaml : fcallsOf Extracted.C17.fwdConfYaml = GoZero.C17.fwdConfYaml := by decide
theorem tie_fwdConfToml : fcallsOf Extracted.C17.fwdConfToml = GoZero.C17.fwdConfToml := by decide

/-- SEMANTIC form, for ALL arguments and ALL callee behaviours: what `UnmarshalYamlBytes(content, v, opts...)` computes
from the EXTRACTED flow is `UnmarshalJsonBytes(YamlToJson(content), v, opts...)`; likewise the other five. -/
theorem tie_fwdMapping_sem {α : Type} (sem : String → List α → α) (content v dflt : α) (opts : List α) :
    runFwd sem [content, v] opts dflt (fcallsOf Extracted.C17.fwdYamlBytes)
      = sem "UnmarshalJsonBytes" ([sem "encoding.YamlToJson" [content], v] ++ opts) ∧
    runFwd sem [content, v] opts dflt (fcallsOf Extracted.C17.fwdTomlBytes)
      = sem "UnmarshalJsonBytes" ([sem "encoding.TomlToJson" [content], v] ++ opts) ∧
    runFwd sem [content, v] opts dflt (fcallsOf Extracted.C17.fwdYamlReader)
      = sem "UnmarshalYamlBytes" ([sem "io.ReadAll" [content], v] ++ opts) ∧
    runFwd sem [content, v] opts dflt (fcallsOf Extracted.C17.fwdTomlReader)
      = sem "UnmarshalTomlBytes" ([sem "io.ReadAll" [content], v] ++ opts) ∧
    runFwd sem [content, v] opts dflt (fcallsOf Extracted.C17.fwdJsonBytes)
      = sem "unmarshalJsonBytes" [content, v, sem "getJsonUnmarshaler" opts] ∧
    runFwd sem [content, v] opts dflt (fcallsOf Extracted.C17.fwdJsonReader)
      = sem "unmarshalJsonReader" [content, v, sem "getJsonUnmarshaler" opts] := by
  refine ⟨?_, ?_, ?_, ?_, ?_, ?_⟩ <;>
    simp [runFwd, runFwdAux, evalArgs, fcallsOf, fargOf, Extracted.C17.fwdYamlBytes, Extracted.C17.fwdTomlBytes,
      Extracted.C17.fwdYamlReader, Extracted.C17.fwdTomlReader, Extracted.C17.fwdJsonBytes, Extracted.C17.fwdJsonReader]

/-- conf: the converting loaders, the deprecated wrappers, `LoadConfig` / `MustLoad` (path, target and `opts...` go to
`Load` unchanged). -/
theorem tie_fwdConf_sem {α : Type} (sem : String → List α → α) (a v dflt : α) (opts : List α) :
    runFwd sem [a, v] opts dflt (fcallsOf Extracted.C17.fwdConfYaml) = sem "LoadFromJsonBytes" [sem "encoding.YamlToJson" [a], v] ∧
    runFwd sem [a, v] opts dflt (fcallsOf Extracted.C17.fwdConfToml) = sem "LoadFromJsonBytes" [sem "encoding.TomlToJson" [a], v] ∧
    runFwd sem [a, v] opts dflt (fcallsOf Extracted.C17.fwdConfLoadConfig) = sem "Load" ([a, v] ++ opts) ∧
    runFwd sem [a, v] opts dflt (fcallsOf Extracted.C17.fwdConfLoadConfigJson) = sem "LoadFromJsonBytes" [a, v] ∧
    runFwd sem [a, v] opts dflt (fcallsOf Extracted.C17.fwdConfLoadConfigYaml) = sem "LoadFromYamlBytes" [a, v] := by
  refine ⟨?_, ?_, ?_, ?_, ?_⟩ <;>
    simp [runFwd, runFwdAux, evalArgs, fcallsOf, fargOf, Extracted.C17.fwdConfYaml, Extracted.C17.fwdConfToml,
      Extracted.C17.fwdConfLoadConfig, Extracted.C17.fwdConfLoadConfigJson, Extracted.C17.fwdConfLoadConfigYaml]

/-- `MustLoad` calls `Load(path, v, opts...)` first (then only the fatal log on an error). -/
theorem tie_fwdMustLoad : (fcallsOf fwdConfMustLoad).head? = some ⟨"Load", [.param 0, .param 1, .spread 2]⟩ := by decide

/-- `getJsonUnmarshaler` hands the caller's whole option list to `NewUnmarshaler`; the jsonx entry points hand their
decoder to `unmarshalUseNumber` together with the caller's target. -/
theorem tie_fwdJsonInternals :
    fcallsOf fwdGetJsonUnmarshaler = [⟨"len", [.other]⟩, ⟨"NewUnmarshaler", [.other, .spread 0]⟩] ∧
    fcallsOf fwdJsonMap = [⟨"getJsonUnmarshaler(opts...).Unmarshal", [.param 0, .param 1]⟩] ∧
    fcallsOf fwdUnmJsonBytes = [⟨"jsonx.Unmarshal", [.param 0, .other]⟩, ⟨"unmarshaler.Unmarshal", [.other, .param 1]⟩] ∧
    fcallsOf fwdUnmJsonReader = [⟨"jsonx.UnmarshalFromReader", [.param 0, .other]⟩, ⟨"unmarshaler.Unmarshal", [.other, .param 1]⟩] ∧
    fcallsOf fwdXUseNumber = [⟨"decoder.UseNumber", []⟩, ⟨"decoder.Decode", [.param 1]⟩] ∧
    (fcallsOf fwdXUnmarshal).take 3 = [⟨"bytes.NewReader", [.param 0]⟩, ⟨"json.NewDecoder", [.result 0]⟩, ⟨"unmarshalUseNumber", [.result 1, .param 1]⟩] ∧
    (fcallsOf fwdXUnmarshalFromString).take 3 = [⟨"strings.NewReader", [.param 0]⟩, ⟨"json.NewDecoder", [.result 0]⟩, ⟨"unmarshalUseNumber", [.result 1, .param 1]⟩] ∧
    (fcallsOf fwdXUnmarshalFromReader).take 3 = [⟨"io.TeeReader", [.param 0, .other]⟩, ⟨"json.NewDecoder", [.result 0]⟩, ⟨"unmarshalUseNumber", [.result 1, .param 1]⟩] := by
  decide

/-- the typed data flow of `conf.Load` (evaluation order; `o(&opt)` is the option loop): the file is read once; the
extension of the SAME path, lower-cased, selects the loader; under `opt.env` the loader gets
`[]byte(os.ExpandEnv(string(content)))`, otherwise `content` itself; the target `v` goes to the loader unchanged. -/
theorem tie_fwdLoad : fcallsOf fwdConfLoad =
    [⟨"os.ReadFile", [.param 0]⟩, ⟨"path.Ext", [.param 0]⟩, ⟨"strings.ToLower", [.result 1]⟩,
     ⟨"fmt.Errorf", [.other, .param 0]⟩, ⟨"o", [.other]⟩,
     ⟨"string", [.result 0]⟩, ⟨"os.ExpandEnv", [.result 5]⟩, ⟨"[]byte", [.result 6]⟩, ⟨"loader", [.result 7, .param 1]⟩,
     ⟨"loader", [.result 0, .param 1]⟩, ⟨"validate", [.param 1]⟩] := by decide

/-- SEMANTIC form (`loadContent`): for ALL arguments and callee behaviours, what the two `loader` calls receive. -/
theorem tie_fwdLoad_sem {α : Type} (sem : String → List α → α) (file v dflt : α) (opts : List α) :
    (runFwdAux sem [file, v] opts dflt [] (fcallsOf fwdConfLoad))[8]?
      = some (sem "loader" [sem "[]byte" [sem "os.ExpandEnv" [sem "string" [sem "os.ReadFile" [file]]]], v]) ∧
    (runFwdAux sem [file, v] opts dflt [] (fcallsOf fwdConfLoad))[9]?
      = some (sem "loader" [sem "os.ReadFile" [file], v]) ∧
    (runFwdAux sem [file, v] opts dflt [] (fcallsOf fwdConfLoad))[2]?
      = some (sem "strings.ToLower" [sem "path.Ext" [file]]) := by
  refine ⟨?_, ?_, ?_⟩ <;> simp [runFwdAux, evalArgs, fcallsOf, fargOf, fwdConfLoad]

/-- `LoadFromJsonBytes` (`loadTreeWithO`): the info of the TARGET's type, the generic tree of the CONTENT, the tree
lowered with that info, then `UnmarshalJsonMap(lowered, v, WithCanonicalKeyFunc(..))`, then `validate(v)`. -/
theorem tie_fwdLoadJson : fcallsOf fwdConfLoadJson =
    [⟨"reflect.TypeOf", [.param 1]⟩, ⟨"buildFieldsInfo", [.result 0, .other]⟩, ⟨"jsonx.Unmarshal", [.param 0, .other]⟩,
     ⟨"toLowerCaseKeyMap", [.other, .result 1]⟩, ⟨"mapping.WithCanonicalKeyFunc", [.other]⟩,
     ⟨"mapping.UnmarshalJsonMap", [.result 3, .param 1, .result 4]⟩, ⟨"validate", [.param 1]⟩] := by decide

theorem tie_fwdLoadJson_sem {α : Type} (sem : String → List α → α) (content v dflt : α) :
    (runFwdAux sem [content, v] [] dflt [] (fcallsOf fwdConfLoadJson))[5]?
      = some (sem "mapping.UnmarshalJsonMap"
          [sem "toLowerCaseKeyMap" [dflt, sem "buildFieldsInfo" [sem "reflect.TypeOf" [v], dflt]], v,
           sem "mapping.WithCanonicalKeyFunc" [dflt]]) ∧
    (runFwdAux sem [content, v] [] dflt [] (fcallsOf fwdConfLoadJson))[2]? = some (sem "jsonx.Unmarshal" [content, dflt]) := by
  refine ⟨?_, ?_⟩ <;> simp [runFwdAux, evalArgs, fcallsOf, fargOf, fwdConfLoadJson]

/-- `FillDefault(v)` = the package's default-filling unmarshaller on an EMPTY map literal and the caller's target. -/
theorem tie_fwdFillDefault : fcallsOf fwdConfFillDefault = [⟨"fillDefaultUnmarshaler.Unmarshal", [.other, .param 0]⟩] := by decide

/-! ### round 5c: the decisions of the unmarshaller's dispatch functions, TRANSLATED from the Go conditions
(`c17CondsSw`: every `if` and every case of a tagless switch, source order) and proven equal to the model's decision
functions (`Model.lean`: `nfsRoute`, `fieldRoute`, `fromArrayTakesFirst`, `nilValueAccepted`, `primFromString`) for all
arguments.  A swapped case, a changed operand, a negation, a reordered test breaks them. -/

theorem tie_dispatchCondCounts : nfsCondCount = 11 ∧ namedCondCount = 13 ∧ withValCondCount = 5 ∧ noValCondCount = 9 ∧
    primCondCount = 2 ∧ fillMapCondCount = 5 ∧ structInfoCondCount = 4 ∧ addMergeCondCount = 3 ∧ mergeCondCount = 2 ∧
    anonInfoCondCount = 5 := by decide

/-- `reflect.Kind` constants (reflect/type.go). -/
def encRK : RK → Int
  | .map => 21 | .slice => 23 | .string => 24 | .struct => 25 | .other => 2

/-- `processFieldNotFromString` as the Go switch evaluates it: the cases in source order, first match wins. -/
def goNfsRoute (vk tk kMap kStruct kSlice kString dft dur : Int) (impl : Bool) : NfsRoute :=
  if nfsCond0 vk kMap tk kStruct then .structFromMap
  else if nfsCond1 tk kSlice vk then .fillSlice
  else if nfsCond2 vk kMap tk then .fillMap
  else if nfsCond3 vk kString tk kMap then .mapFromString
  else if nfsCond4 vk kString tk kSlice then .sliceFromString
  else if nfsCond5 vk kString dft dur then .duration
  else if nfsCond6 vk kString tk kStruct impl then .unmarshalerStruct
  else .primitive

/-- the dispatch table of `processFieldNotFromString` IS `nfsRoute`, for every value kind, field kind, duration flag and
unmarshaler flag. -/
theorem tie_nfsRoute (vk tk : RK) (isDur impl : Bool) :
    goNfsRoute (encRK vk) (encRK tk) 21 25 23 24 (if isDur then 1 else 0) 1 impl = nfsRoute vk tk isDur impl := by
  cases vk <;> cases tk <;> cases isDur <;> cases impl <;> decide

/-- which filler each case calls. -/
theorem tie_nfsCases : nfsCases =
    ["valueKind == reflect.Map && typeKind == reflect.Struct -> mv, ok := mapValue.(map[string]any)",
  "typeKind == reflect.Slice && valueKind == reflect.Slice -> return u.fillSlice(fieldType, value, mapValue, fullName)",
  "valueKind == reflect.Map && typeKind == reflect.Map -> return u.fillMap(fieldType, value, mapValue, fullName)",
  "valueKind == reflect.String && typeKind == reflect.Map -> return u.fillMapFromString(value, mapValue)",
  "valueKind == reflect.String && typeKind == reflect.Slice -> if fieldType.Elem().Kind() == reflect.Uint8 { if strVal, ok := mapValue.(string); ok { if ",
  "valueKind == reflect.String && derefedFieldType == durationType -> return fillDurationValue(fieldType, value, mapValue.(string))",
  "valueKind == reflect.String && typeKind == reflect.Struct && u.implementsUnmarshaler(fieldType) -> return u.fillUnmarshalerStruct(fieldType, value, mapValue.(string))",
  "default -> return u.processFieldPrimitive(fieldType, value, mapValue, opts, fullName)"] := by rfl

/-- `processNamedField`: unexported / `-` ⇒ skipped; an env tag with a non-empty variable wins; `fillDefault` or no value
⇒ the no-value path; otherwise the value path. -/
def goFieldRoute (exported : Bool) (key ignoreKey : Int) (optsNil : Bool) (envVarLen envValLen : Int)
    (fillDefault hasValue : Bool) : FieldRoute :=
  if namedCond0 exported then .skip
  else if namedCond2 key ignoreKey then .skip
  else if namedCond3 optsNil envVarLen && namedCond4 envValLen then .env
  else if namedCond6 fillDefault then .noValue
  else if namedCond8 hasValue then .noValue
  else .value

theorem tie_fieldRoute (exported : Bool) (key ignoreKey : Int) (optsNil : Bool) (envVarLen envValLen : Int)
    (fillDefault hasValue : Bool) :
    goFieldRoute exported key ignoreKey optsNil envVarLen envValLen fillDefault hasValue =
      fieldRoute exported (decide (key = ignoreKey)) (!optsNil && decide (envVarLen > 0)) (decide (envValLen > 0))
        fillDefault hasValue := by
  cases exported <;> cases optsNil <;> cases fillDefault <;> cases hasValue <;>
    by_cases h1 : key = ignoreKey <;> by_cases h2 : envVarLen > 0 <;> by_cases h3 : envValLen > 0 <;>
    simp [goFieldRoute, fieldRoute, namedCond0, namedCond2, namedCond3, namedCond4, namedCond6, namedCond8, h1, h2, h3]

/-- `WithFromArray`: the nest of four tests is `fromArrayTakesFirst`. -/
theorem tie_fromArrayTakesFirst (fromArray valueNil : Bool) (fk vk kSlice kArray len : Int) :
    (namedCond9 fromArray valueNil && namedCond10 fk kSlice kArray && namedCond11 vk kSlice kArray && namedCond12 len) =
      fromArrayTakesFirst fromArray valueNil (decide (fk = kSlice) || decide (fk = kArray))
        (decide (vk = kSlice) || decide (vk = kArray)) len := by
  simp [namedCond9, namedCond10, namedCond11, namedCond12, fromArrayTakesFirst, Bool.and_assoc]

/-- `processNamedFieldWithValue`: nil value ⇒ accepted iff optional; primitive kinds go through the from-string path iff the
unmarshaller OR the field asks for it; containers and structs never do (switch table). -/
theorem tie_withValueDecisions (b c : Bool) :
    withValCond0 b = b ∧ withValCond1 b = nilValueAccepted b ∧ withValCond2 b = !b ∧ withValCond3 b = b ∧
    withValCond4 b c = primFromString b c := ⟨rfl, rfl, rfl, rfl, rfl⟩

theorem tie_withValKindCases : withValKindCases =
    ["reflect.Array,reflect.Map,reflect.Slice,reflect.Struct -> return u.processFieldNotFromString(fieldType, value, vp, opts, fullName)",
  "default -> if u.opts.fromString || opts.fromString() { return u.processNamedFieldWithValueFromString("] := by rfl

/-- `processNamedFieldWithoutValue` (`withoutValue`, `withDefault`): a default wins; under fillDefault only non-pointer
structs are descended; otherwise containers / structs / scalars act iff the field is NOT optional; a required struct
is an error. -/
theorem tie_noValueDecisions (b : Bool) (a k p s : Int) :
    noValCond0 b = b ∧ noValCond2 b = b ∧ noValCond4 b = !b ∧ noValCond5 b = !b ∧ noValCond8 b = !b ∧ noValCond7 b = b ∧
    noValCond6 b = !b ∧ noValCond3 a p k s = (!decide (a = p) && decide (k = s)) := ⟨rfl, rfl, rfl, rfl, rfl, rfl, rfl, rfl⟩

theorem tie_noValDefaultCases : noValDefaultCases =
    ["reflect.Array,reflect.Slice -> return u.fillSliceWithDefault(derefedType, value, defaultValue, fullName)",
  "default -> return setValueFromString(fieldKind, value, defaultValue)"] := by rfl

/-- `processFieldPrimitive`: a `json.Number` goes to the number path (type switch, `tie_jsonNumberCases`), anything else
must have the field's kind; `fillMap`: a pointer type is dereferenced, filled, then pointed to (`fillMapCond1`). -/
theorem tie_primAndFillMapDecisions (a c : Int) (b : Bool) :
    primCond0 a c = decide (a = c) ∧ primCond1 b = !b ∧ fillMapCond0 b = !b ∧ fillMapCond1 a c = decide (a = c) ∧
    fillMapCond2 b = !b ∧ fillMapCond3 b = !b ∧ fillMapCond4 b = !b := ⟨rfl, rfl, rfl, rfl, rfl, rfl, rfl⟩

/-! #### conf: `buildStructFieldsInfo` / `buildAnonymousFieldInfo` / `addOrMergeFields` / `mergeFields` (`infoFields`) -/

/-- unexported fields are skipped, anonymous fields go to `buildAnonymousFieldInfo`, every error is returned;
an existing child under the same lower-cased name is merged (`ok`), a map child conflicts, two leaf children or a leaf
and a struct conflict (`len(prev.children) == 0 || len(children) == 0`), a repeated grand-child conflicts. -/
theorem tie_structInfoDecisions (b : Bool) (m n : Int) :
    structInfoCond0 b = !b ∧ structInfoCond1 b = b ∧ structInfoCond2 b = !b ∧ structInfoCond3 b = !b ∧
    addMergeCond0 b = b ∧ addMergeCond1 b = !b ∧ addMergeCond2 b = !b ∧
    mergeCond0 m n = (decide (m = 0) || decide (n = 0)) ∧ mergeCond1 b = b ∧
    anonInfoCond0 b = !b ∧ anonInfoCond1 b = !b ∧ anonInfoCond2 b = !b ∧ anonInfoCond3 b = b ∧ anonInfoCond4 b = b :=
  ⟨rfl, rfl, rfl, rfl, rfl, rfl, rfl, rfl, rfl, rfl, rfl, rfl, rfl, rfl⟩

theorem tie_anonInfoCases : anonInfoCases =
    ["reflect.Struct -> fields, err := buildFieldsInfo(ft, fullName)",
  "reflect.Map -> elemField, err := buildFieldsInfo(mapping.Deref(ft.Elem()), fullName)",
  "default -> if _, ok := info.children[lowerCaseName]; ok { return newConflictKeyError(fullName) }"] := by rfl

/-! ### round 5d: core/configcenter - the Type -> loader table, the empty-value check, what happens to the bytes -/

/-- `ccLoaderOf`: the registry maps exactly json / toml / yaml to the three loaders of package conf. -/
theorem tie_ccRegistry : ccRegistry =
    ["\"json\" -> conf.LoadFromJsonBytes", "\"toml\" -> conf.LoadFromTomlBytes", "\"yaml\" -> conf.LoadFromYamlBytes"] := by
  decide

/-- `NewConfigCenter`: the Type is lower-cased, looked up, then the value is loaded and read back; `loadConfig` hands
the subscriber's value to `genValue` AS IT IS and stores the result. -/
theorem tie_fwdCcNewAndLoad :
    fcallsOf fwdCcNew = [⟨"strings.ToLower", [.other]⟩, ⟨"Unmarshaler", [.result 0]⟩, ⟨"fmt.Errorf", [.other, .other]⟩,
      ⟨"cc.loadConfig", []⟩, ⟨"cc.subscriber.AddListener", [.other]⟩, ⟨"cc.GetConfig", []⟩] ∧
    fcallsOf fwdCcLoadConfig = [⟨"c.subscriber.Value", []⟩, ⟨"logx.Errorf", [.other, .other]⟩,
      ⟨"logx.Infof", [.other, .result 0]⟩, ⟨"c.genValue", [.result 0]⟩, ⟨"c.snapshot.Store", [.result 3]⟩] := by decide

/-- **the bytes are not touched** (`ccValue = ccValueWith id`): in `genValue` the loader is called on `[]byte(data)` with
`data` the function's own parameter - no call result, no reassignment in between (seeded C17-9: `strings.TrimSpace`). -/
theorem tie_ccBytesUntouched : ccBytesUntouched (fcallsOf fwdCcGenValue) = true := by decide

theorem tie_fwdCcGenValue : fcallsOf fwdCcGenValue =
    [⟨"len", [.param 0]⟩, ⟨"reflect.TypeOf", [.other]⟩, ⟨"mapping.Deref", [.result 1]⟩, ⟨"t.Kind", []⟩,
     ⟨"[]byte", [.param 0]⟩, ⟨"c.unmarshaler", [.result 4, .other]⟩, ⟨"err.Error", []⟩,
     ⟨"logx.Errorf", [.other, .result 6, .param 0]⟩, ⟨"t.Kind", []⟩, ⟨"logx.Errorf", [.other, .result 8, .param 0]⟩] := by decide

/-- SEMANTIC form, for all arguments and callee behaviours: the loader receives `[]byte(data)` and the target. -/
theorem tie_fwdCcGenValue_sem {α : Type} (sem : String → List α → α) (data dflt : α) :
    (runFwdAux sem [data] [] dflt [] (fcallsOf fwdCcGenValue))[5]? = some (sem "c.unmarshaler" [sem "[]byte" [data], dflt]) := by
  simp [runFwdAux, evalArgs, fcallsOf, fargOf, fwdCcGenValue]

/-- the empty-value checks (`genValue`: `len(data) == 0` ⇒ nothing is loaded; `GetConfig`: no snapshot or empty data ⇒
`errEmptyConfig`) and the error of the loader is kept (`err != nil`). -/
theorem tie_ccDecisions (n : Int) (b : Bool) :
    ccGenCond0 n = decide (n = 0) ∧ ccGenCond1 b = b ∧ ccGenCond2 b = !b ∧ ccGetCond0 b n = (b || decide (n = 0)) ∧
    ccGenCondCount = 6 ∧ ccGetCondCount = 1 := ⟨rfl, rfl, rfl, rfl, rfl, rfl⟩

theorem tie_ccGetConfig : ccGetConfig =
    ["call c.value()", "if v == nil || len(v.data) == 0", "call len(v.data)", "return empty, errEmptyConfig",
     "return v.marshalData, v.err"] := by decide

/-! ### round 5e: the field info is built afresh by every call -/

/-- `buildStructFieldsInfo` returns the `&fieldInfo{…}` it built itself and nothing else (no early return of a kept object);
together with `tie_cPkgVars` (package conf keeps no info between calls) the merge of `addOrMergeFields` / `mergeFields`
writes only into objects of the same call: `loadTreeM` is a function of (type, tree).  Seeded C17-10 breaks both. -/
theorem tie_structInfoFresh : infoFreshOfFlow structInfoFlow = true := by decide

end GoZero.C17.Tie
