/-
C17 — key case-insensitivity of `toLowerCaseKeyMap` over `buildFieldsInfo` (helper lemmas).
-/
import GoZero.C17.Proofs
namespace GoZero.C17

theorem infoField_eq_infoOf : ∀ (t : Ty), infoField t = infoOf t
  | .prim _ => by simp [infoField, infoOf]
  | .ptr t => by simp only [infoField, infoOf, infoField_eq_infoOf t]
  | .slice _ => by simp [infoField, infoOf]
  | .map _ => by simp [infoField, infoOf]
  | .struct _ => by simp [infoField, infoOf]

theorem IM.keys_append : ∀ (a b : IM), (a.append b).keys = a.keys ++ b.keys
  | .nil, _ => rfl
  | .cons k i t, b => by simp only [IM.append, IM.keys, IM.keys_append t b, List.cons_append]

theorem IM.get?_append : ∀ (a b : IM) (q : Str),
    (a.append b).get? q = match a.get? q with | some x => some x | none => b.get? q
  | .nil, _, _ => rfl
  | .cons k i t, b, q => by
    simp only [IM.append, IM.get?]
    split
    · rfl
    · exact IM.get?_append t b q

theorem IM.get?_mem_keys : ∀ (c : IM) (q : Str) (i : Info), c.get? q = some i → q ∈ c.keys
  | .nil, _, _, h => by simp [IM.get?] at h
  | .cons k j t, q, i, h => by
    simp only [IM.get?] at h
    simp only [IM.keys, List.mem_cons]
    split at h
    · rename_i hk; exact Or.inl hk.symm
    · exact Or.inr (IM.get?_mem_keys t q i h)

/-- every key recorded by `buildStructFieldsInfo` is already lower case. -/
theorem infoFields_keys_lower : ∀ (fs : Fields) (k : Str), k ∈ (infoFields fs).keys → lower k = k
  | .nil, k, h => by simp [infoFields, IM.keys] at h
  | .cons f t rest, k, h => by
    unfold infoFields at h
    split at h
    · split at h
      · rename_i fs'
        rw [IM.keys_append, List.mem_append] at h
        cases h with
        | inl h => exact infoFields_keys_lower fs' k h
        | inr h => exact infoFields_keys_lower rest k h
      · exact infoFields_keys_lower rest k h
    · simp only [IM.keys, List.mem_cons] at h
      cases h with
      | inl h => rw [h]; exact lower_idem _
      | inr h => exact infoFields_keys_lower rest k h

/-- looking a lower-cased key up in the info of a struct finds the (flattened) field with that key. -/
theorem infoFields_get? : ∀ (fs : Fields) (lk : Str),
    (infoFields fs).get? lk = (flatFind? fs lk).map infoOf
  | .nil, lk => by simp [infoFields, IM.get?, flatFind?]
  | .cons f t rest, lk => by
    have named : f.embedded ≠ true → ∀ t : Ty, (infoFields (.cons f t rest)).get? lk
        = (flatFind? (.cons f t rest) lk).map infoOf := by
      intro he t
      have e1 : infoFields (.cons f t rest) = .cons (lower f.tagKey) (infoField t) (infoFields rest) := by
        cases t <;> simp [infoFields, he]
      have e2 : flatFind? (.cons f t rest) lk = if lower f.tagKey = lk then some t else flatFind? rest lk := by
        cases t <;> simp [flatFind?, he]
      rw [e1, e2]
      simp only [IM.get?]
      by_cases hk : lower f.tagKey = lk
      · simp [hk, infoField_eq_infoOf]
      · simp only [hk, if_false]
        exact infoFields_get? rest lk
    by_cases he : f.embedded = true
    · cases t with
      | struct fs' =>
        simp only [infoFields, flatFind?, he, if_true]
        rw [IM.get?_append, infoFields_get? fs' lk, infoFields_get? rest lk]
        cases flatFind? fs' lk <;> simp
      | prim p => simp only [infoFields, flatFind?, he, if_true]; exact infoFields_get? rest lk
      | ptr p => simp only [infoFields, flatFind?, he, if_true]; exact infoFields_get? rest lk
      | slice p => simp only [infoFields, flatFind?, he, if_true]; exact infoFields_get? rest lk
      | map p => simp only [infoFields, flatFind?, he, if_true]; exact infoFields_get? rest lk
    · exact named he t

/-- one step of `toLowerCaseKeyMap` at a struct position, key known (up to case). -/
theorem lowerMap_node_hit (c : IM) (hc : ∀ k ∈ c.keys, lower k = k) (k : Str) (v : J) (t : JM) (ti : Info)
    (h : c.get? (lower k) = some ti) :
    lowerMap (.node c) (.cons k v t) = .cons (lower k) (lowerVal ti v) (lowerMap (.node c) t) := by
  simp only [lowerMap, Info.child?]
  cases hk : c.get? k with
  | some ti' =>
    have hl : lower k = k := hc k (IM.get?_mem_keys c k ti' hk)
    rw [hl, hk] at h
    injection h with h
    subst h
    simp only [hl]
  | none => simp only [h]

theorem lowerMap_node_miss (c : IM) (hc : ∀ k ∈ c.keys, lower k = k) (k : Str) (v : J) (t : JM)
    (h : c.get? (lower k) = none) :
    lowerMap (.node c) (.cons k v t) = .cons k (lowerUnknown (.node c) v) (lowerMap (.node c) t) := by
  have hk : c.get? k = none := by
    cases hk : c.get? k with
    | none => rfl
    | some ti' =>
      have hl : lower k = k := hc k (IM.get?_mem_keys c k ti' hk)
      rw [hl, hk] at h
      cases h
  simp only [lowerMap, Info.child?, hk, h, Info.mapField?]

theorem lowerMap_mapOf (e : Info) (k : Str) (v : J) (t : JM) :
    lowerMap (.mapOf e) (.cons k v t) = .cons k (lowerVal e v) (lowerMap (.mapOf e) t) := by
  simp only [lowerMap, Info.child?, Info.mapField?]

theorem recasedList_nil_iff (t : Ty) (l l' : JL) (h : recasedList t l l' = true) : (l = .nil ↔ l' = .nil) := by
  cases l <;> cases l' <;> simp_all [recasedList]

mutual
theorem lower_recased : ∀ (t : Ty) (a b : J), recasedTy t a b = true →
    lowerVal (infoOf t) a = lowerVal (infoOf t) b
  | t, a, b, h => by
    unfold recasedTy at h
    split at h
    · rename_i fs m m'
      simp only [infoOf, lowerVal, lower_recased_struct fs m m' h]
    · rename_i fs m m'
      simp only [infoOf, lowerVal, lower_recased_struct fs m m' h]
    · rename_i t' l l'
      have hn := recasedList_nil_iff t' l l' h
      have hl := lower_recased_list t' l l' h
      simp only [infoOf]
      cases l with
      | nil => rw [hn.mp rfl]
      | cons x xs =>
        cases l' with
        | nil => exact absurd (hn.mpr rfl) (by simp)
        | cons y ys => simp only [lowerVal, hl]
    · rename_i t' m m'
      simp only [infoOf, lowerVal, lower_recased_mapvals t' m m' h]
    · have : a = b := by simpa using h
      rw [this]
theorem lower_recased_list : ∀ (t : Ty) (l l' : JL), recasedList t l l' = true →
    lowerList (infoOf t) l = lowerList (infoOf t) l'
  | _, .nil, .nil, _ => rfl
  | t, .cons x xs, .cons y ys, h => by
    simp only [recasedList, Bool.and_eq_true] at h
    simp only [lowerList, lower_recased t x y h.1, lower_recased_list t xs ys h.2]
  | _, .nil, .cons _ _, h => by simp [recasedList] at h
  | _, .cons _ _, .nil, h => by simp [recasedList] at h
theorem lower_recased_mapvals : ∀ (t : Ty) (m m' : JM), recasedMapVals t m m' = true →
    lowerMap (.mapOf (infoOf t)) m = lowerMap (.mapOf (infoOf t)) m'
  | _, .nil, .nil, _ => rfl
  | t, .cons k v r, .cons k' v' r', h => by
    simp only [recasedMapVals, Bool.and_eq_true, decide_eq_true_eq] at h
    rw [lowerMap_mapOf, lowerMap_mapOf, h.1.1, lower_recased t v v' h.1.2, lower_recased_mapvals t r r' h.2]
  | _, .nil, .cons _ _ _, h => by simp [recasedMapVals] at h
  | _, .cons _ _ _, .nil, h => by simp [recasedMapVals] at h
theorem lower_recased_struct : ∀ (fs : Fields) (m m' : JM), recasedStruct fs m m' = true →
    lowerMap (.node (infoFields fs)) m = lowerMap (.node (infoFields fs)) m'
  | _, .nil, .nil, _ => rfl
  | fs, .cons k v r, .cons k' v' r', h => by
    simp only [recasedStruct, Bool.and_eq_true] at h
    have hc := infoFields_keys_lower fs
    have ht := lower_recased_struct fs r r' h.2
    have h1 := h.1
    split at h1
    · rename_i ft hf
      simp only [Bool.and_eq_true, decide_eq_true_eq] at h1
      have hg : (infoFields fs).get? (lower k) = some (infoOf ft) := by rw [infoFields_get?, hf]; rfl
      have hg' : (infoFields fs).get? (lower k') = some (infoOf ft) := by rw [h1.1]; exact hg
      rw [lowerMap_node_hit _ hc k v r _ hg, lowerMap_node_hit _ hc k' v' r' _ hg', h1.1,
        lower_recased ft v v' h1.2, ht]
    · rename_i hf
      simp only [Bool.and_eq_true, decide_eq_true_eq] at h1
      rw [h1.1, h1.2]
      have hg : (infoFields fs).get? (lower k) = none := by rw [infoFields_get?, hf]; rfl
      rw [lowerMap_node_miss _ hc k v r hg, lowerMap_node_miss _ hc k v r' hg, ht]
  | _, .nil, .cons _ _ _, h => by simp [recasedStruct] at h
  | _, .cons _ _ _, .nil, h => by simp [recasedStruct] at h
end

/-! ### round 5c: adding fresh keys one after the other is appending -/
theorem IM.append_assoc : ∀ (a b c : IM), (a.append b).append c = a.append (b.append c)
  | .nil, _, _ => rfl
  | .cons k i t, b, c => by simp [IM.append, IM.append_assoc t b c]

theorem IM.append_nil : ∀ (a : IM), a.append .nil = a
  | .nil => rfl
  | .cons k i t => by simp [IM.append, IM.append_nil t]

theorem addAll_fresh : ∀ (im acc : IM), (∀ q, im.keys.contains q = true → acc.get? q = none) → hasDup im.keys = false →
    addAll acc im = some (acc.append im)
  | .nil, acc, _, _ => by simp [addAll, IM.append_nil]
  | .cons k i t, acc, H, hd => by
    simp only [IM.keys, hasDup, Bool.or_eq_false_iff] at hd
    have hk : acc.get? k = none := H k (by simp [IM.keys])
    have hmem : ∀ q, t.keys.contains q = true → (IM.cons k i t).keys.contains q = true := by
      intro q hq; simp only [IM.keys, List.contains_cons, hq, Bool.or_true]
    have ih := addAll_fresh t (acc.append (.cons k i .nil)) (by
      intro q hq
      have h1 : acc.get? q = none := H q (hmem q hq)
      have hne : k ≠ q := by
        intro e; subst e; rw [hd.1] at hq; cases hq
      simp [IM.get?_append, h1, IM.get?, hne]) hd.2
    simp only [addAll, addOrMerge, hk, ih, IM.append_assoc, IM.append]

end GoZero.C17
