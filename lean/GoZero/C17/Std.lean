/-
C17 — model of `encoding/json.Unmarshal` on the fragment of the property (core Lean only):
struct types with name tags (no embedded fields), bool / sized ints / floats / string, pointers, slices, map[string]T.

encoding/json is third-party (standard library) code: this model is validated by the correspondence run, not proven.
Modelled: case-insensitive field matching with preference for the exact name, null handling (nil for pointer / slice /
map, no-op otherwise), number conversion by `strconv` with range check, fresh map elements, type errors.
Not modelled: merging into an already decoded composite field when a document repeats a field name (up to case) —
reported as `unmodelled`, never guessed.
-/
import GoZero.C17.Model
namespace GoZero.C17

/-- a scalar JSON value into a primitive kind (`literalStore`). -/
def stdPrim (p : Prim) (v : J) : R Val :=
  match v with
  | .num lit =>
    match p with
    | .int _ | .uint _ | .float _ => convFromString p lit
    | _ => .error .err
  | .bool b => if p = .bool then .ok (.bool b) else .error .err
  | .str s => if p = .string then .ok (.str s) else .error .err
  | _ => .error .err

def Fields.findTy? : Fields → Str → Option Ty
  | .nil, _ => none
  | .cons f t rest, k => if f.tagKey = k then some t else rest.findTy? k

def Fields.foldKey? : Fields → Str → Option Str
  | .nil, _ => none
  | .cons f _ rest, k => if lower f.tagKey = lower k then some f.tagKey else rest.foldKey? k

/-- the field an object key is decoded into: the exact name, else the first field equal up to case. -/
def Fields.resolve? (fs : Fields) (k : Str) : Option Str :=
  match fs.findTy? k with
  | some _ => some k
  | none => fs.foldKey? k

def Fields.hasEmbedded : Fields → Bool
  | .nil => false
  | .cons f _ rest => f.embedded || rest.hasEmbedded

def stdAssembleFields : Fields → List (Str × Option Val) → R VM
  | .nil, _ => .ok .nil
  | .cons f t rest, as =>
    let mine := (as.filter fun a => a.1 = f.tagKey).map (·.2)
    let fv : R Val :=
      match mine with
      | [] => .ok (zeroOf t)
      | [none] => .ok (zeroOf t)
      | [some x] => .ok x
      | _ =>
        -- the document names this field more than once (up to case): later scalars overwrite, composites would merge
        match t with
        | .prim _ => .ok (mine.foldl (fun cur a => match a with | some x => x | none => cur) (zeroOf t))
        | .ptr (.prim _) => .ok (mine.foldl (fun _ a => match a with | some x => x | none => .nil) (zeroOf t))
        | _ => .error .unmodelled
    match fv with
    | .error e => .error e
    | .ok x => match stdAssembleFields rest as with
      | .error e => .error e
      | .ok xs => .ok (.cons f.name x xs)

/-- fields in declaration order, each holding the result of its assignments. -/
def stdAssemble (all : Fields) (as : List (Str × Option Val)) : R Val :=
  (stdAssembleFields all as).map .struct

mutual
def hasEmbeddedDeep : Ty → Bool
  | .prim _ => false
  | .ptr t => hasEmbeddedDeep t
  | .slice t => hasEmbeddedDeep t
  | .map t => hasEmbeddedDeep t
  | .struct fs => hasEmbeddedFields fs
def hasEmbeddedFields : Fields → Bool
  | .nil => false
  | .cons f t rest => f.embedded || hasEmbeddedDeep t || hasEmbeddedFields rest
end

def stdFinish (fs : Fields) (r : R (List (Str × Option Val))) : R Val :=
  if fs.hasEmbedded then .error .unmodelled else
  match r with
  | .error e => .error e
  | .ok as => stdAssemble fs as

mutual
/-- decode `v` into a fresh (zero) value of type `t`. -/
def stdVal : Ty → J → R Val
  | t, .null => .ok (zeroOf t)
  | .prim p, v => stdPrim p v
  | .ptr (.prim p), v => (stdPrim p v).map .ptr
  | .ptr (.struct fs), .obj m => (stdFinish fs (stdAssign fs m)).map .ptr
  | .ptr (.struct _), _ => .error .err
  | .ptr _, _ => .error .unmodelled               -- the family has pointers to primitives and structs only
  | .slice t, .arr l => (stdList t l).map .slice
  | .slice _, _ => .error .err
  | .map t, .obj m => (stdMapEntries t m).map .map
  | .map _, _ => .error .err
  | .struct fs, .obj m => stdFinish fs (stdAssign fs m)
  | .struct _, _ => .error .err
def stdList (t : Ty) : JL → R VL
  | .nil => .ok .nil
  | .cons h r =>
    match stdVal t h with
    | .error e => .error e
    | .ok x => match stdList t r with
      | .error e => .error e
      | .ok xs => .ok (.cons x xs)
def stdMapEntries (t : Ty) : JM → R VM
  | .nil => .ok .nil
  | .cons k v r =>
    match stdVal t v with
    | .error e => .error e
    | .ok x => match stdMapEntries t r with
      | .error e => .error e
      | .ok xs => .ok (.cons k x xs)
/-- the assignments made by the object's entries, in document order: (field, `none` for null / decoded value). -/
def stdAssign (fs : Fields) : JM → R (List (Str × Option Val))
  | .nil => .ok []
  | .cons k v r =>
    match fs.resolve? k with
    | none => stdAssign fs r                      -- unknown key: skipped
    | some fk =>
      match fs.findTy? fk with
      | none => stdAssign fs r
      | some ft =>
        let ev : R (Option Val) := match v with
          | .null => .ok none
          | _ => (stdVal ft v).map some
        match ev with
        | .error e => .error e
        | .ok x => match stdAssign fs r with
          | .error e => .error e
          | .ok xs => .ok ((fk, x) :: xs)
end

/-- `encoding/json.Unmarshal(data, &v)` for a struct type, `data` being the document `j`. -/
def stdDecode (fs : Fields) (j : J) : R Val :=
  match j with
  | .obj _ => stdVal (.struct fs) j
  | .null => .ok (zeroOf (.struct fs))
  | _ => .error .err

end GoZero.C17
