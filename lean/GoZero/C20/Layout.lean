/-
C20 — round 5: statement-level model of `ast.(*AST).Format` (tools/goctl/pkg/parser/api/ast/ast.go) and of
`format.File` (tools/goctl/pkg/parser/api/format/format.go).

`AST.Format` is an index loop over `a.Stmts`:

    for idx, e := range a.Stmts {
        if e.Format() == NilIndent { continue }                    -- statements that format to nothing are dropped
        fw.Write(withNode(e)); fw.NewLine()
        switch e.(type) {
        case *ImportLiteralStmt:
            next := idx + 1
            for next < len(a.Stmts) && a.Stmts[next].Format() == NilIndent { next++ }     -- loop guard
            if next < len(a.Stmts) {                                                      -- look guard
                if _, ok := a.Stmts[next].(*ImportLiteralStmt); !ok { fw.NewLine() } }
        case *CommentStmt:
        default: fw.NewLine() } }

The model keeps the INDEX ARITHMETIC: every `a.Stmts[i]` is a partial list access, an access outside the list is the
event `oob i` (the run-time panic of the real code).  The two guards are parameters (`Guards`), the real ones are
`real`; Tie.lean proves that the guards TRANSLATED from ast.go are `real` for all arguments.
Core Lean only.
-/
import GoZero.C20.Model
namespace GoZero.C20.Layout

inductive SK
  | syntaxS | info | importLit | importGroup | typeLit | typeGroup | service | comment
  deriving DecidableEq, Repr, Inhabited

/-- one element of `a.Stmts` as the loop sees it: its dynamic type and whether `Format()` is the empty string -/
structure St where
  k : SK
  empty : Bool
  deriving DecidableEq, Repr

inductive Ev
  | stmt (idx : Nat)   -- fw.Write(withNode(a.Stmts[idx]))
  | nl                 -- fw.NewLine()
  | oob (idx : Nat)    -- a.Stmts[idx] with idx outside the list: panic
  deriving DecidableEq, Repr

/-- the two bounds conditions of the look-ahead, as functions of (next, len(a.Stmts), idx) -/
structure Guards where
  loop : Nat → Nat → Nat → Bool
  look : Nat → Nat → Nat → Bool

/-- ast.go as it is: `next < len(a.Stmts)` twice -/
def real : Guards := ⟨fun next len _ => decide (next < len), fun next len _ => decide (next < len)⟩

/-- `for g.loop … && a.Stmts[next].Format() == NilIndent { next++ }`; result: (next, crashed) -/
def skip (g : Guards) (ss : List St) (idx : Nat) : Nat → Nat → Nat × Bool
  | 0, n => (n, false)
  | f + 1, n =>
    if g.loop n ss.length idx then
      match ss[n]? with
      | none => (n, true)
      | some t => if t.empty then skip g ss idx f (n + 1) else (n, false)
    else (n, false)

/-- the `switch e.(type)` behind the first NewLine -/
def after (g : Guards) (ss : List St) (idx : Nat) : SK → List Ev
  | .importLit =>
    let r := skip g ss idx (ss.length + 1) (idx + 1)
    if r.2 then [.oob r.1]
    else if g.look r.1 ss.length idx then
      match ss[r.1]? with
      | none => [.oob r.1]
      | some t => if t.k = .importLit then [] else [.nl]
    else []
  | .comment => []
  | _ => [.nl]

def loop (g : Guards) (ss : List St) : Nat → List St → List Ev
  | _, [] => []
  | idx, s :: r => (if s.empty then [] else .stmt idx :: .nl :: after g ss idx s.k) ++ loop g ss (idx + 1) r

def astFormatG (g : Guards) (ss : List St) : List Ev := loop g ss 0 ss

/-- `AST.Format` -/
def astFormat (ss : List St) : List Ev := astFormatG real ss

/-! ### what it must do: blank lines are decided on the statements that are WRITTEN -/

/-- kinds of the statements that are written -/
def visible (ss : List St) : List SK := (ss.filter fun s => !s.empty).map (·.k)

/-- number of line feeds behind every written statement: one blank line, except between two import literals, behind a
trailing import literal and behind a comment -/
def specSep : List SK → List Nat
  | [] => []
  | k :: r => (match k, r with
      | .comment, _ => 1
      | .importLit, [] => 1
      | .importLit, k' :: _ => if k' = .importLit then 1 else 2
      | _, _ => 2) :: specSep r

def countNl : List Ev → Nat
  | .nl :: r => countNl r + 1
  | _ => 0

/-- line feeds behind every written statement of an event list -/
def seps : List Ev → List Nat
  | [] => []
  | .stmt _ :: r => countNl r :: seps r
  | _ :: r => seps r

def crashes (es : List Ev) : Bool := es.any fun e => match e with | .oob _ => true | _ => false

/-- indices of the statements that are written, in order -/
def written : List Ev → List Nat
  | [] => []
  | .stmt i :: r => i :: written r
  | _ :: r => written r

/-! ### the link with the token-level model -/

def kindOf : Stmt → SK
  | .syntaxS _ => .syntaxS | .info _ => .info | .importLit _ => .importLit | .importGroup _ => .importGroup
  | .typeLit _ => .typeLit | .typeGroup _ => .typeGroup | .service .. => .service

/-- a statement of the model AST as `AST.Format` sees it (`normStmt s = none` iff `s.Format()` is empty) -/
def stOf (s : Stmt) : St := ⟨kindOf s, (normStmt s).isNone⟩

/-- line feeds behind every written statement of a program -/
def layoutOf (a : Api) : List Nat := seps (astFormat (a.map stOf))

/-- what the driver compares with the real output of a comment-free program: the line of the first token, the distance
(in lines) between the last token of a statement and the first token of the next one, the line feeds at the end -/
structure TextLayout where
  first : Nat
  gaps : List Nat
  trail : Nat
  deriving DecidableEq, Repr

def textLayout (a : Api) : TextLayout :=
  let l := layoutOf a
  ⟨1, l.dropLast, l.getLastD 0⟩

/-! ### format.File: read, Source, write — on an abstract file system -/

/-- outcome of `format.Source` on a text -/
inductive SrcRes
  | ok (out : String)
  | err
  deriving DecidableEq, Repr

structure FS where
  /-- content of a file, `none` = cannot be read -/
  read : String → Option String
  /-- does os.WriteFile succeed for this name -/
  writable : String → Bool

def FS.write (fs : FS) (name out : String) : FS :=
  { fs with read := fun n => if n = name then some out else fs.read n }

/-- effects of `format.File` in order -/
inductive FEv
  | read (name : String) | source (text : String) | write (name : String) (out : String)
  deriving DecidableEq, Repr

/-- `format.File(filename)`: (file system afterwards, error?, effects) -/
def fileFormat (source : String → SrcRes) (fs : FS) (name : String) : FS × Bool × List FEv :=
  match fs.read name with
  | none => (fs, true, [.read name])
  | some data =>
    match source data with
    | .err => (fs, true, [.read name, .source data])
    | .ok out =>
      if fs.writable name then (fs.write name out, false, [.read name, .source data, .write name out])
      else (fs, true, [.read name, .source data, .write name out])

end GoZero.C20.Layout
