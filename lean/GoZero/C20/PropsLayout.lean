/-
C20 — round 5 property theorems: the statement loop of `ast.(*AST).Format` (index arithmetic and look-ahead) and
`format.File`.

Clauses of the property:
  * "for every syntactically valid source formatting succeeds" / "… rather than crashing", on the path through
    AST.Format's look-ahead: `astFormat_never_crashes` — for EVERY statement list (every mix of written and dropped
    statements, at every position) no `a.Stmts[i]` is evaluated with `i` outside the list.
    `guard_needed_witness`: with the bounds condition `idx < len(a.Stmts)-1` (the pre-look-ahead form) the model
    reads behind the end of `[import "x", type ()]`.
  * "formatting the result again changes nothing", on the blank lines between top-level statements:
    `astFormat_blank_lines` (the line feeds behind every written statement are a function of the kinds of the WRITTEN
    statements only), `astFormat_ignores_dropped`, `layout_spec`, `layout_idempotent` (the second pass, which sees
    `norm a`, writes the same blank lines), `textLayout_idempotent`.
  * "the formatted text parses to the same API description": `astFormat_writes_visible` (exactly the statements with a
    non-empty text are written, once each, in order).
  * format.File: `file_error_keeps_fs`, `file_ok_writes_source`, `file_effect_order`, `file_twice` (File is idempotent
    on the file system whenever Source is idempotent on its own output).
-/
import GoZero.C20.ProofsLayout
import GoZero.C20.Props
namespace GoZero.C20.Layout

/-- no index outside `a.Stmts` is ever read, whatever the statement list -/
theorem astFormat_never_crashes (ss : List St) : crashes (astFormat ss) = false := by
  have := (loop_spec ss []).2.1
  simpa [astFormat, astFormatG] using this

example : crashes (astFormat [⟨.importLit, false⟩, ⟨.typeGroup, true⟩, ⟨.info, true⟩]) = false := by decide

/-- the seeded bounds condition `idx < len(a.Stmts)-1` reads `a.Stmts[2]` of a list of two -/
theorem guard_needed_witness :
    astFormatG ⟨real.loop, fun _ len idx => decide (idx + 1 < len)⟩ [⟨.importLit, false⟩, ⟨.typeGroup, true⟩]
      = [.stmt 0, .nl, .oob 2] := by decide

/-- a loop guard that is off by one (`next <= len`) reads behind the end as well -/
theorem loop_guard_needed_witness :
    crashes (astFormatG ⟨fun next len _ => decide (next ≤ len), real.look⟩ [⟨.importLit, false⟩, ⟨.typeGroup, true⟩]) = true := by
  decide

/-- the blank lines are decided by the kinds of the statements that are written, and by nothing else -/
theorem astFormat_blank_lines (ss : List St) : seps (astFormat ss) = specSep (visible ss) := by
  have := (loop_spec ss []).1
  simpa [astFormat, astFormatG] using this

example : seps (astFormat [⟨.syntaxS, false⟩, ⟨.importLit, false⟩, ⟨.importGroup, true⟩, ⟨.importLit, false⟩,
    ⟨.typeGroup, true⟩, ⟨.service, false⟩, ⟨.importLit, false⟩, ⟨.info, true⟩]) = [2, 1, 2, 2, 1] := by decide

/-- exactly the statements with a non-empty text are written, once each, in source order -/
theorem astFormat_writes_visible (ss : List St) :
    written (astFormat ss) = (List.range ss.length).filter fun i => !(ss[i]?.map (·.empty)).getD true := by
  have := (loop_spec ss []).2.2
  simpa [astFormat, astFormatG] using this

example : written (astFormat [⟨.info, true⟩, ⟨.importLit, false⟩, ⟨.typeGroup, true⟩, ⟨.typeLit, false⟩]) = [1, 3] := by decide

theorem visible_filter (ss : List St) : visible (ss.filter fun s => !s.empty) = visible ss := by
  simp [visible, List.filter_filter]

/-- dropped statements do not influence the layout: the loop writes the same blank lines for the list without them -/
theorem astFormat_ignores_dropped (ss : List St) :
    seps (astFormat ss) = seps (astFormat (ss.filter fun s => !s.empty)) := by
  rw [astFormat_blank_lines, astFormat_blank_lines, visible_filter]

example : seps (astFormat [⟨.importLit, false⟩, ⟨.typeGroup, true⟩, ⟨.importLit, false⟩]) =
    seps (astFormat [⟨.importLit, false⟩, ⟨.importLit, false⟩]) := by decide

/-- the blank lines of a program of the token-level model: decided on `norm a` -/
theorem layout_spec (a : Api) : layoutOf a = specSep ((norm a).map kindOf) := by
  rw [layoutOf, astFormat_blank_lines, visible_stOf]

/-- the second formatting pass (it sees `norm a`) writes the same blank lines -/
theorem layout_idempotent (a : Api) : layoutOf (norm a) = layoutOf a := by
  rw [layout_spec, layout_spec, norm_idem]

theorem textLayout_idempotent (a : Api) : textLayout (norm a) = textLayout a := by
  simp [textLayout, layout_idempotent]

example : textLayout [.syntaxS "\"v1\"", .importLit "\"a\"", .importGroup [], .importLit "\"b\"", .typeGroup [],
    .typeLit ⟨"T", false, .base "int"⟩, .info []] = ⟨1, [2, 1, 2], 2⟩ := by decide

/-- the AST.Format model never crashes on the statement list of ANY program of the token-level model -/
theorem format_layout_never_crashes (a : Api) : crashes (astFormat (a.map stOf)) = false :=
  astFormat_never_crashes _

/-- END TO END, tokens and blank lines: for every well-formed program, parse ∘ format is defined, keeps the API
description, a second formatting pass writes the same tokens AND the same blank-line layout, and neither pass of
AST.Format's statement loop reads outside `a.Stmts` -/
theorem format_correct_layout (a : Api) (h : WF a) :
    ∃ b, parse (format a) = some b ∧ sameDesc a b = true ∧ format b = format a ∧ WF b ∧
      textLayout b = textLayout a ∧
      crashes (astFormat (a.map stOf)) = false ∧ crashes (astFormat (b.map stOf)) = false := by
  obtain ⟨b, hb, hd, hf, hw⟩ := format_correct a h
  have hn : b = norm a := by
    have := parse_print (norm a) (norm_wf a h)
    unfold format at hb
    rw [this] at hb
    exact (Option.some.inj hb).symm
  refine ⟨b, hb, hd, hf, hw, ?_, astFormat_never_crashes _, astFormat_never_crashes _⟩
  rw [hn, textLayout_idempotent]

example : ∃ b, parse (format sampleApi) = some b ∧ textLayout b = textLayout sampleApi :=
  let ⟨b, hb, _, _, _, hl, _⟩ := format_correct_layout sampleApi sampleApi_wf
  ⟨b, hb, hl⟩

/-- END TO END WITHOUT PREMISE: for every token stream the parser accepts -/
theorem format_correct_layout_parsed (ts : List Tok) (a : Api) (h : parse ts = some a) :
    ∃ b, parse (format a) = some b ∧ sameDesc a b = true ∧ format b = format a ∧ WF b ∧
      textLayout b = textLayout a ∧
      crashes (astFormat (a.map stOf)) = false ∧ crashes (astFormat (b.map stOf)) = false :=
  format_correct_layout a (parse_wf ts a h)

example : ∃ b, parse (format sampleApi) = some b ∧ textLayout b = textLayout sampleApi :=
  let ⟨b, hb, _, _, _, hl, _⟩ := format_correct_layout_parsed _ sampleApi (parse_print sampleApi sampleApi_wf)
  ⟨b, hb, hl⟩

/-! ### format.File -/

/-- an error (unreadable file, Source error, failed write) leaves every file as it was -/
theorem file_error_keeps_fs (src : String → SrcRes) (fs : FS) (name : String)
    (h : (fileFormat src fs name).2.1 = true) : (fileFormat src fs name).1 = fs := by
  unfold fileFormat at h ⊢
  split <;> try rfl
  split <;> try rfl
  split <;> simp_all

/-- success: the file holds what Source wrote, every other file is untouched -/
theorem file_ok_writes_source (src : String → SrcRes) (fs : FS) (name data out : String)
    (hr : fs.read name = some data) (hs : src data = .ok out) (hw : fs.writable name = true) :
    (fileFormat src fs name).2.1 = false ∧ (fileFormat src fs name).1.read name = some out ∧
    ∀ n, n ≠ name → (fileFormat src fs name).1.read n = fs.read n := by
  simp [fileFormat, hr, hs, hw, FS.write]
  intro n hn; simp [hn]

/-- File reports an error exactly when one of its three steps fails -/
theorem file_error_iff (src : String → SrcRes) (fs : FS) (name : String) :
    (fileFormat src fs name).2.1 = false ↔
      ∃ data out, fs.read name = some data ∧ src data = .ok out ∧ fs.writable name = true := by
  unfold fileFormat
  split
  · simp_all
  · split
    · simp_all
    · split <;> simp_all

/-- order of effects: read, then Source on what was read, then (only after a successful Source) the write of its output -/
theorem file_effect_order (src : String → SrcRes) (fs : FS) (name : String) :
    (fileFormat src fs name).2.2 = [.read name] ∨
    (∃ d, fs.read name = some d ∧ src d = .err ∧ (fileFormat src fs name).2.2 = [.read name, .source d]) ∨
    (∃ d out, fs.read name = some d ∧ src d = .ok out ∧
      (fileFormat src fs name).2.2 = [.read name, .source d, .write name out]) := by
  unfold fileFormat
  split
  · left; rfl
  · rename_i d hd
    split
    · right; left; exact ⟨d, hd, by assumption, rfl⟩
    · rename_i out ho
      right; right; refine ⟨d, out, hd, ho, ?_⟩
      split <;> rfl

/-- format.File twice = format.File once, whenever Source is idempotent on its own output -/
theorem file_twice (src : String → SrcRes) (fs : FS) (name : String)
    (hidem : ∀ d out, src d = .ok out → src out = .ok out)
    (h1 : (fileFormat src fs name).2.1 = false) :
    (fileFormat src (fileFormat src fs name).1 name).2.1 = false ∧
    ∀ n, (fileFormat src (fileFormat src fs name).1 name).1.read n = (fileFormat src fs name).1.read n := by
  obtain ⟨d, out, hr, hs, hw⟩ := (file_error_iff src fs name).mp h1
  have e1 : (fileFormat src fs name).1 = fs.write name out := by simp [fileFormat, hr, hs, hw]
  rw [e1]
  have hr2 : (fs.write name out).read name = some out := by simp [FS.write]
  have hw2 : (fs.write name out).writable name = true := by simpa [FS.write] using hw
  have hs2 := hidem d out hs
  constructor
  · simp [fileFormat, hr2, hs2, hw2]
  · intro n
    simp only [fileFormat, hr2, hs2, hw2, if_true]
    by_cases hn : n = name <;> simp [FS.write, hn]

example : (fileFormat (fun s => if s = "bad" then .err else .ok (s ++ "\n")) ⟨fun _ => some "bad", fun _ => true⟩ "a.api").2
    = (true, [.read "a.api", .source "bad"]) := by decide

end GoZero.C20.Layout
