/-
C20 — round 5 Tie: `ast.(*AST).Format` and the delegating entry points `format.File` / `format.Source`.
  * the two bounds conditions of the look-ahead behind an import literal are TRANSLATED from ast.go to Lean functions
    over Int and proven equal to the guards of the model (`Layout.real`) for all arguments: a changed comparison
    operator, operand or constant (`idx < len(a.Stmts)-1`, `next <= len(a.Stmts)`) breaks the obligation;
  * `next := idx + 1`, translated;
  * the decision table of `switch e.(type)` (dynamic type -> number of NewLine calls) equals the model's `after` for
    every statement kind, for all guards, lists and indices;
  * the calls of format.File and format.Source, with their forwarded argument lists and the fate of each error, equal
    what `Layout.fileFormat` / the `fmt` pipeline of the model were written against.
-/
import GoZero.Extracted.C20
import GoZero.C20.Layout
namespace GoZero.C20.Tie
open GoZero.C20 GoZero.C20.Layout

/-- `for next < len(a.Stmts) && …`: the translated condition is the model's loop guard, for all arguments -/
theorem tie_af_loopGuard (next len idx : Nat) :
    Extracted.C20.af_loopGuard next len idx = real.loop next len idx := by
  simp only [Extracted.C20.af_loopGuard, real]
  apply decide_eq_decide.mpr; omega

/-- `if next < len(a.Stmts) { … a.Stmts[next] …`: the translated condition is the model's look guard, for all arguments -/
theorem tie_af_lookGuard (next len idx : Nat) :
    Extracted.C20.af_lookGuard next len idx = real.look next len idx := by
  simp only [Extracted.C20.af_lookGuard, real]
  apply decide_eq_decide.mpr; omega

/-- `next := idx + 1` -/
theorem tie_af_nextInit (idx : Nat) : Extracted.C20.af_nextInit idx = ((idx + 1 : Nat) : Int) := by
  simp [Extracted.C20.af_nextInit]

/-- the rest of the look-ahead: the loop skips statements whose Format() is empty, one at a time; the statement found
is tested for being an import literal, otherwise one more NewLine -/
theorem tie_af_look :
    (Extracted.C20.af_loopRest, Extracted.C20.af_lookTarget) =
      ("a.Stmts[next].Format() == NilIndent { { next++ } }",
       "{ _, ok := a.Stmts[next].(*ImportLiteralStmt) if !ok { fw.NewLine() } }") := by rfl

/-- the loop body around the switch: drop statements without text, write the statement, one NewLine -/
theorem tie_af_prologue :
    Extracted.C20.af_prologue = ["if e.Format() == NilIndent { continue }", "fw.Write(withNode(e))", "fw.NewLine()"] := by rfl

/-- Go type name of a statement kind -/
def goType : SK → String
  | .syntaxS => "SyntaxStmt" | .info => "InfoStmt" | .importLit => "ImportLiteralStmt"
  | .importGroup => "ImportGroupStmt" | .typeLit => "TypeLiteralStmt" | .typeGroup => "TypeGroupStmt"
  | .service => "ServiceStmt" | .comment => "CommentStmt"

/-- the decision table of `switch e.(type)` is the model's `after`: for every kind but the import literal the number
of NewLine calls of its case, for all guards / lists / indices; the import literal is the look-ahead case; every case
of the switch is a statement kind of the model -/
theorem tie_af_cases :
    (∀ (k : SK) (g : Guards) (ss : List St) (idx : Nat), k ≠ .importLit →
      Extracted.C20.af_cases.lookup (goType k) = some (toString (after g ss idx k).length) ∧
      ∀ e ∈ after g ss idx k, e = Ev.nl) ∧
    Extracted.C20.af_cases.lookup (goType .importLit) = some "look" ∧
    Extracted.C20.af_cases.map (·.1) = [SK.syntaxS, .importGroup, .importLit, .info, .service, .typeGroup, .typeLit, .comment].map goType := by
  refine ⟨?_, by decide, by decide⟩
  intro k g ss idx hk
  cases k <;> first | exact absurd rfl hk | (constructor <;> simp [after, goType, Extracted.C20.af_cases, List.lookup] <;> decide)

/-- format.File: read the file, format what was read into a fresh buffer, write the buffer's bytes to the SAME file;
the errors of ReadFile and Source end the function before the write, the error of WriteFile is returned -/
theorem tie_calls_File :
    Extracted.C20.calls_File =
      [("os.ReadFile", ["filename"], "return-err"),
       ("bytes.NewBuffer", ["nil"], "ignored"),
       ("Source", ["data", "buffer"], "return-err"),
       ("os.WriteFile", ["filename", "buffer.Bytes()", "0666"], "returned"),
       ("buffer.Bytes", [], "returned")] := by rfl

/-- the effects of the model's `fileFormat` are the effectful calls of File, in its order, with its arguments -/
theorem tie_calls_File_effects (src : String → SrcRes) (fs : FS) (name data out : String)
    (hr : fs.read name = some data) (hs : src data = .ok out) :
    ((fileFormat src fs name).2.2.map fun e => match e with
      | .read _ => "os.ReadFile" | .source _ => "Source" | .write _ _ => "os.WriteFile") =
    (Extracted.C20.calls_File.filter fun c => c.2.2 ≠ "ignored" ∧ c.1 ≠ "buffer.Bytes").map (·.1) := by
  have hc : (Extracted.C20.calls_File.filter fun c => c.2.2 ≠ "ignored" ∧ c.1 ≠ "buffer.Bytes").map (·.1) =
      ["os.ReadFile", "Source", "os.WriteFile"] := by decide
  rw [hc]
  unfold fileFormat
  simp only [hr, hs]
  split <;> rfl

/-- format.Source: scanner check, parser over the SAME source, Parse, CheckErrors ends the function before Format,
Format writes to the caller's writer -/
theorem tie_calls_Source :
    Extracted.C20.calls_Source =
      [("scanner.NewScanner", ["\"\"", "source"], "return-err"),
       ("parser.New", ["\"\"", "source"], "ignored"),
       ("p.Parse", [], "ignored"),
       ("p.CheckErrors", [], "return-err"),
       ("result.Format", ["w"], "ignored")] ∨
    Extracted.C20.calls_Source =
      [("parser.New", ["\"\"", "source"], "ignored"),
       ("p.Parse", [], "ignored"),
       ("p.CheckErrors", [], "return-err"),
       ("result.Format", ["w"], "ignored")] := by
  first | exact Or.inl rfl | exact Or.inr rfl

/-! ### round 5e: the package-level tables are constants (what the model's `httpMethods` / `keywords` assume) -/

/-- the only place where a package-level slice itself (not a copy) is handed to a callee: the route's http method -/
theorem tie_spreadSites :
    Extracted.C20.spreadSites = [("Parser.parseRouteStmt", "p.advanceIfPeekTokenIs(token.HttpMethods...)")] := by rfl

/-- NO function of parser / scanner / token / format / ast writes through a slice or variadic parameter (or a local alias
of one: `x := p[:0]; append(x, …)`, `p[i] = v`, copy, sort): whatever a spread site hands down stays as it was, so
token.HttpMethods is the same table for every call and every instance -/
theorem tie_no_param_writes : Extracted.C20.paramWrites = [] := by rfl

/-- with both: every table a callee can reach through a spread site is never written, i.e. `isMethod` of the model is
the same function before and after any number of calls -/
theorem tie_tables_constant :
    (∀ site ∈ Extracted.C20.spreadSites, ∀ w ∈ Extracted.C20.paramWrites, False) ∧
    Extracted.C20.httpMethods = GoZero.C20.httpMethods := by
  refine ⟨?_, by rfl⟩
  intro _ _ w hw
  rw [tie_no_param_writes] at hw
  cases hw

end GoZero.C20.Tie
