/-
C20 — reference skeletons: what the extractor read from tools/goctl/pkg/parser/api (with fixes/C20-*.patch applied)
when Model.lean (`parse*`, `norm`, `print*`) was written: the lookahead skeleton of every parser function
(peek / expect / advance calls with their expected-token arguments, the parse* calls, branch conditions) and the
write skeleton of every Format method. Tie.lean proves that the current source still yields exactly these.
Imported by Tie.lean only.
-/
set_option linter.unusedVariables false
namespace GoZero.C20.Ref

/-- `Syntax` in tools/goctl/pkg/parser/api/token/token.go -/
def tokSyntax : String := "syntax"

/-- `Info` in tools/goctl/pkg/parser/api/token/token.go -/
def tokInfo : String := "info"

/-- `Service` in tools/goctl/pkg/parser/api/token/token.go -/
def tokService : String := "service"

/-- `Returns` in tools/goctl/pkg/parser/api/token/token.go -/
def tokReturns : String := "returns"

/-- `Any` in tools/goctl/pkg/parser/api/token/token.go -/
def tokAny : String := "any"

/-- `TypeKeyword` in tools/goctl/pkg/parser/api/token/token.go -/
def tokTypeKeyword : String := "type"

/-- `MapKeyword` in tools/goctl/pkg/parser/api/token/token.go -/
def tokMapKeyword : String := "map"

/-- `ImportKeyword` in tools/goctl/pkg/parser/api/token/token.go -/
def tokImportKeyword : String := "import"

/-- `idAPI` in tools/goctl/pkg/parser/api/parser/parser.go -/
def idAPI : String := "api"

/-- `NilIndent` in tools/goctl/pkg/parser/api/ast/writer.go -/
def wNilIndent : String := ""

/-- `WhiteSpace` in tools/goctl/pkg/parser/api/ast/writer.go -/
def wWhiteSpace : String := " "

/-- `Indent` in tools/goctl/pkg/parser/api/ast/writer.go -/
def wIndent : String := "\t"

/-- `NewLine` in tools/goctl/pkg/parser/api/ast/writer.go -/
def wNewLine : String := "\n"

/-- keys of token.keywords (sorted) -/
def keywords : List String := [
  "break",
  "case",
  "chan",
  "const",
  "continue",
  "default",
  "defer",
  "else",
  "fallthrough",
  "for",
  "func",
  "go",
  "goto",
  "if",
  "import",
  "interface",
  "map",
  "package",
  "range",
  "return",
  "select",
  "struct",
  "switch",
  "type",
  "var"]

/-- token.HttpMethods -/
def httpMethods : List String := [
  "get",
  "head",
  "post",
  "put",
  "patch",
  "delete",
  "connect",
  "options",
  "trace"]

/-- switch of Scanner.NextToken -/
def scannerTable : List String := [
  "'/' => …",
  "'-' => return s.newToken(token.SUB), nil",
  "'*' => return s.newToken(token.MUL), nil",
  "'(' => return s.newToken(token.LPAREN), nil",
  "'[' => return s.newToken(token.LBRACK), nil",
  "'{' => return s.newToken(token.LBRACE), nil",
  "',' => return s.newToken(token.COMMA), nil",
  "'.' => …",
  "')' => return s.newToken(token.RPAREN), nil",
  "']' => return s.newToken(token.RBRACK), nil",
  "'}' => return s.newToken(token.RBRACE), nil",
  "';' => return s.newToken(token.SEMICOLON), nil",
  "':' => return s.newToken(token.COLON), nil",
  "'=' => return s.newToken(token.ASSIGN), nil",
  "'@' => return s.scanAt()",
  "'\"' => return s.scanString('\"', token.STRING)",
  "'`' => return s.scanString('`', token.RAW_STRING)",
  "0 => return token.EofToken, nil",
  "default => …"]

/-- skeleton of `Parser.Parse` in tools/goctl/pkg/parser/api/parser/parser.go -/
def p_Parse : List String := [
  "if !p.init() {",
  "return nil",
  "}",
  "for p.curTokenIsNotEof() {",
  "parseStmt()",
  "if isNil(stmt) {",
  "return nil",
  "}",
  "appendStmt(stmt)",
  "if !p.nextToken() {",
  "return nil",
  "}",
  "}"]

/-- skeleton of `Parser.parseStmt` in tools/goctl/pkg/parser/api/parser/parser.go -/
def p_parseStmt : List String := [
  "switch p.curTok.Type {",
  "case token.IDENT:",
  "switch  {",
  "case p.curTok.Is(token.Syntax):",
  "parseSyntaxStmt()",
  "case p.curTok.Is(token.Info):",
  "parseInfoStmt()",
  "case p.curTok.Is(token.Service):",
  "parseService()",
  "case p.curTok.Is(token.TypeKeyword):",
  "parseTypeStmt()",
  "case p.curTok.Is(token.ImportKeyword):",
  "parseImportStmt()",
  "default:",
  "expectIdentError(p.curTok, token.Syntax, token.Info, token.Service, token.TYPE)",
  "return nil",
  "}",
  "case token.AT_SERVER:",
  "parseService()",
  "default:",
  "return nil",
  "}"]

/-- skeleton of `Parser.parseService` in tools/goctl/pkg/parser/api/parser/parser.go -/
def p_parseService : List String := [
  "if p.curTokenIs(token.AT_SERVER) {",
  "parseAtServerStmt()",
  "if atServerStmt == nil {",
  "return nil",
  "}",
  "if !p.advanceIfPeekTokenIs(token.Service) {",
  "return nil",
  "}",
  "}",
  "if !p.advanceIfPeekTokenIs(token.IDENT) {",
  "return nil",
  "}",
  "parseServiceNameExpr()",
  "if nameExpr == nil {",
  "return nil",
  "}",
  "if !p.advanceIfPeekTokenIs(token.LBRACE) {",
  "return nil",
  "}",
  "parseServiceItemsStmt()",
  "if routes == nil {",
  "return nil",
  "}",
  "if !p.advanceIfPeekTokenIs(token.RBRACE) {",
  "return nil",
  "}"]

/-- skeleton of `Parser.parseServiceItemsStmt` in tools/goctl/pkg/parser/api/parser/parser.go -/
def p_parseServiceItemsStmt : List String := [
  "for p.curTokenIsNotEof() && p.peekTokenIsNot(token.RBRACE) {",
  "parseServiceItemStmt()",
  "if item == nil {",
  "return nil",
  "}",
  "if p.peekTokenIs(token.RBRACE) {",
  "break",
  "}",
  "if p.notExpectPeekToken(token.AT_DOC, token.AT_HANDLER, token.RBRACE) {",
  "return nil",
  "}",
  "}"]

/-- skeleton of `Parser.parseServiceItemStmt` in tools/goctl/pkg/parser/api/parser/parser.go -/
def p_parseServiceItemStmt : List String := [
  "if p.peekTokenIs(token.AT_DOC) {",
  "if !p.nextToken() {",
  "return nil",
  "}",
  "parseAtDocStmt()",
  "if atDocStmt == nil {",
  "return nil",
  "}",
  "}",
  "if !p.advanceIfPeekTokenIs(token.AT_HANDLER) {",
  "return nil",
  "}",
  "parseAtHandlerStmt()",
  "if atHandlerStmt == nil {",
  "return nil",
  "}",
  "parseRouteStmt()",
  "if route == nil {",
  "return nil",
  "}"]

/-- skeleton of `Parser.parseRouteStmt` in tools/goctl/pkg/parser/api/parser/parser.go -/
def p_parseRouteStmt : List String := [
  "if !p.advanceIfPeekTokenIs(token.HttpMethods...) {",
  "return nil",
  "}",
  "parsePathExpr()",
  "if pathExpr == nil {",
  "return nil",
  "}",
  "if p.peekTokenIs(token.AT_DOC, token.AT_HANDLER, token.RBRACE) {",
  "}",
  "if p.peekTokenIs(token.SEMICOLON) {",
  "nextToken()",
  "}",
  "if p.notExpectPeekToken(token.Returns, token.LPAREN) {",
  "return nil",
  "}",
  "if p.peekTokenIs(token.LPAREN) {",
  "parseBodyStmt()",
  "if requestBodyStmt == nil {",
  "return nil",
  "}",
  "}",
  "if p.notExpectPeekToken(token.Returns, token.AT_DOC, token.AT_HANDLER, token.RBRACE, token.SEMICOLON) {",
  "return nil",
  "}",
  "if p.peekTokenIs(token.Returns) {",
  "if !p.nextToken() {",
  "return nil",
  "}",
  "parseBodyStmt()",
  "if responseBodyStmt == nil {",
  "return nil",
  "}",
  "}",
  "if p.peekTokenIs(token.SEMICOLON) {",
  "nextToken()",
  "}"]

/-- skeleton of `Parser.parseBodyStmt` in tools/goctl/pkg/parser/api/parser/parser.go -/
def p_parseBodyStmt : List String := [
  "if !p.advanceIfPeekTokenIs(token.LPAREN) {",
  "return nil",
  "}",
  "if p.peekTokenIs(token.RPAREN) {",
  "if !p.nextToken() {",
  "return nil",
  "}",
  "}",
  "parseBodyExpr()",
  "if expr == nil {",
  "return nil",
  "}",
  "if !p.advanceIfPeekTokenIs(token.RPAREN) {",
  "return nil",
  "}"]

/-- skeleton of `Parser.parseBodyExpr` in tools/goctl/pkg/parser/api/parser/parser.go -/
def p_parseBodyExpr : List String := [
  "switch  {",
  "case p.peekTokenIs(token.LBRACK):",
  "if !p.nextToken() {",
  "return nil",
  "}",
  "if !p.advanceIfPeekTokenIs(token.RBRACK) {",
  "return nil",
  "}",
  "switch  {",
  "case p.peekTokenIs(token.MUL):",
  "if !p.nextToken() {",
  "return nil",
  "}",
  "if !p.advanceIfPeekTokenIs(token.IDENT) {",
  "return nil",
  "}",
  "case p.peekTokenIs(token.IDENT):",
  "if !p.nextToken() {",
  "return nil",
  "}",
  "default:",
  "expectPeekToken(token.MUL, token.IDENT)",
  "return nil",
  "}",
  "case p.peekTokenIs(token.MUL):",
  "if !p.nextToken() {",
  "return nil",
  "}",
  "if !p.advanceIfPeekTokenIs(token.IDENT) {",
  "return nil",
  "}",
  "case p.peekTokenIs(token.IDENT):",
  "if !p.nextToken() {",
  "return nil",
  "}",
  "default:",
  "expectPeekToken(token.LBRACK, token.MUL, token.IDENT)",
  "return nil",
  "}"]

/-- skeleton of `Parser.parsePathExpr` in tools/goctl/pkg/parser/api/parser/parser.go -/
def p_parsePathExpr : List String := [
  "for p.curTokenIsNotEof() && p.peekTokenIsNot(token.LPAREN, token.Returns, token.AT_DOC, token.AT_HANDLER, token.SEMICOLON, token.RBRACE) {",
  "if !p.advanceIfPeekTokenIs(token.QUO) {",
  "return nil",
  "}",
  "if p.peekTokenIs(token.LPAREN, token.Returns, token.AT_DOC, token.AT_HANDLER, token.SEMICOLON, token.RBRACE) {",
  "break",
  "}",
  "if p.notExpectPeekTokenGotComment(p.curTokenNode().PeekFirstLeadingComment(), token.COLON, token.IDENT, token.INT) {",
  "return nil",
  "}",
  "if p.notExpectPeekToken(token.COLON, token.IDENT, token.INT) {",
  "return nil",
  "}",
  "if p.notExpectPeekTokenGotComment(p.curTokenNode().PeekFirstLeadingComment(), token.COLON) {",
  "return nil",
  "}",
  "if p.peekTokenIs(token.COLON) {",
  "if !p.nextToken() {",
  "return nil",
  "}",
  "}",
  "parsePathItem()",
  "if pathTokens == nil {",
  "return nil",
  "}",
  "if p.notExpectPeekToken(token.QUO, token.LPAREN, token.Returns, token.AT_DOC, token.AT_HANDLER, token.SEMICOLON, token.RBRACE) {",
  "return nil",
  "}",
  "}",
  "if len(values) == 0 {",
  "expectPeekToken(token.QUO)",
  "return nil",
  "}",
  "range values {",
  "}"]

/-- skeleton of `Parser.parsePathItem` in tools/goctl/pkg/parser/api/parser/parser.go -/
def p_parsePathItem : List String := [
  "if !p.advanceIfPeekTokenIs(token.IDENT, token.INT) {",
  "return nil",
  "}",
  "for p.curTokenIsNotEof() && p.peekTokenIsNot(token.QUO, token.LPAREN, token.Returns, token.AT_DOC, token.AT_HANDLER, token.RBRACE, token.SEMICOLON, token.EOF) {",
  "if p.peekTokenIs(token.SUB) {",
  "if !p.nextToken() {",
  "return nil",
  "}",
  "if !p.advanceIfPeekTokenIs(token.IDENT) {",
  "return nil",
  "}",
  "} else {",
  "if p.peekTokenIs(token.LPAREN, token.Returns, token.AT_DOC, token.AT_HANDLER, token.SEMICOLON, token.RBRACE) {",
  "}",
  "if !p.advanceIfPeekTokenIs(token.IDENT) {",
  "return nil",
  "}",
  "}",
  "}"]

/-- skeleton of `Parser.parseServiceNameExpr` in tools/goctl/pkg/parser/api/parser/parser.go -/
def p_parseServiceNameExpr : List String := [
  "if p.peekTokenIs(token.SUB) {",
  "if !p.nextToken() {",
  "return nil",
  "}",
  "if !p.expectPeekToken(idAPI) {",
  "return nil",
  "}",
  "if !p.nextToken() {",
  "return nil",
  "}",
  "}"]

/-- skeleton of `Parser.parseAtDocStmt` in tools/goctl/pkg/parser/api/parser/parser.go -/
def p_parseAtDocStmt : List String := [
  "if p.notExpectPeekToken(token.LPAREN, token.STRING) {",
  "return nil",
  "}",
  "if p.peekTokenIs(token.LPAREN) {",
  "parseAtDocGroupStmt()",
  "}",
  "parseAtDocLiteralStmt()"]

/-- skeleton of `Parser.parseAtDocGroupStmt` in tools/goctl/pkg/parser/api/parser/parser.go -/
def p_parseAtDocGroupStmt : List String := [
  "if !p.advanceIfPeekTokenIs(token.LPAREN) {",
  "return nil",
  "}",
  "for p.curTokenIsNotEof() && p.peekTokenIsNot(token.RPAREN) {",
  "parseKVExpression()",
  "if expr == nil {",
  "return nil",
  "}",
  "if p.notExpectPeekToken(token.RPAREN, token.IDENT) {",
  "return nil",
  "}",
  "}",
  "if !p.advanceIfPeekTokenIs(token.RPAREN) {",
  "return nil",
  "}"]

/-- skeleton of `Parser.parseAtDocLiteralStmt` in tools/goctl/pkg/parser/api/parser/parser.go -/
def p_parseAtDocLiteralStmt : List String := [
  "if !p.advanceIfPeekTokenIs(token.STRING) {",
  "return nil",
  "}"]

/-- skeleton of `Parser.parseAtHandlerStmt` in tools/goctl/pkg/parser/api/parser/parser.go -/
def p_parseAtHandlerStmt : List String := [
  "if !p.advanceIfPeekTokenIs(token.IDENT) {",
  "return nil",
  "}"]

/-- skeleton of `Parser.parseAtServerStmt` in tools/goctl/pkg/parser/api/parser/parser.go -/
def p_parseAtServerStmt : List String := [
  "if !p.advanceIfPeekTokenIs(token.LPAREN) {",
  "return nil",
  "}",
  "for p.curTokenIsNotEof() && p.peekTokenIsNot(token.RPAREN) {",
  "parseAtServerKVExpression()",
  "if expr == nil {",
  "return nil",
  "}",
  "if p.notExpectPeekToken(token.RPAREN, token.IDENT) {",
  "return nil",
  "}",
  "}",
  "if !p.advanceIfPeekTokenIs(token.RPAREN) {",
  "return nil",
  "}"]

/-- skeleton of `Parser.parseTypeStmt` in tools/goctl/pkg/parser/api/parser/parser.go -/
def p_parseTypeStmt : List String := [
  "switch  {",
  "case p.peekTokenIs(token.LPAREN):",
  "parseTypeGroupStmt()",
  "case p.peekTokenIs(token.IDENT):",
  "parseTypeLiteralStmt()",
  "default:",
  "expectPeekToken(token.LPAREN, token.IDENT)",
  "return nil",
  "}"]

/-- skeleton of `Parser.parseTypeLiteralStmt` in tools/goctl/pkg/parser/api/parser/parser.go -/
def p_parseTypeLiteralStmt : List String := [
  "parseTypeExpr()",
  "if expr == nil {",
  "return nil",
  "}"]

/-- skeleton of `Parser.parseTypeGroupStmt` in tools/goctl/pkg/parser/api/parser/parser.go -/
def p_parseTypeGroupStmt : List String := [
  "if !p.nextToken() {",
  "return nil",
  "}",
  "parseTypeExprList()",
  "if exprList == nil {",
  "return nil",
  "}",
  "if !p.advanceIfPeekTokenIs(token.RPAREN) {",
  "return nil",
  "}"]

/-- skeleton of `Parser.parseTypeExprList` in tools/goctl/pkg/parser/api/parser/parser.go -/
def p_parseTypeExprList : List String := [
  "if !p.expectPeekToken(token.IDENT, token.RPAREN) {",
  "return nil",
  "}",
  "for p.curTokenIsNotEof() && p.peekTokenIsNot(token.RPAREN, token.EOF) {",
  "parseTypeExpr()",
  "if expr == nil {",
  "return nil",
  "}",
  "if !p.expectPeekToken(token.IDENT, token.RPAREN) {",
  "return nil",
  "}",
  "}"]

/-- skeleton of `Parser.parseTypeExpr` in tools/goctl/pkg/parser/api/parser/parser.go -/
def p_parseTypeExpr : List String := [
  "if !p.advanceIfPeekTokenIs(token.IDENT) {",
  "return nil",
  "}",
  "if p.curTokenIsKeyword() {",
  "return nil",
  "}",
  "if p.peekTokenIs(token.ASSIGN) {",
  "if !p.nextToken() {",
  "return nil",
  "}",
  "}",
  "parseDataType()",
  "if isNil(dt) {",
  "return nil",
  "}"]

/-- skeleton of `Parser.parseDataType` in tools/goctl/pkg/parser/api/parser/parser.go -/
def p_parseDataType : List String := [
  "switch  {",
  "case p.peekTokenIs(token.Any):",
  "parseAnyDataType()",
  "case p.peekTokenIs(token.LBRACE):",
  "parseStructDataType()",
  "case p.peekTokenIs(token.IDENT):",
  "if p.peekTokenIs(token.MapKeyword) {",
  "parseMapDataType()",
  "}",
  "if !p.nextToken() {",
  "return nil",
  "}",
  "if p.curTokenIsKeyword() {",
  "return nil",
  "}",
  "case p.peekTokenIs(token.LBRACK):",
  "if !p.nextToken() {",
  "return nil",
  "}",
  "switch  {",
  "case p.peekTokenIs(token.RBRACK):",
  "parseSliceDataType()",
  "case p.peekTokenIs(token.INT, token.ELLIPSIS):",
  "parseArrayDataType()",
  "default:",
  "expectPeekToken(token.RBRACK, token.INT, token.ELLIPSIS)",
  "return nil",
  "}",
  "case p.peekTokenIs(token.ANY):",
  "parseInterfaceDataType()",
  "case p.peekTokenIs(token.MUL):",
  "parsePointerDataType()",
  "default:",
  "expectPeekToken(token.IDENT, token.LBRACK, token.ANY, token.MUL, token.LBRACE)",
  "return nil",
  "}"]

/-- skeleton of `Parser.parseStructDataType` in tools/goctl/pkg/parser/api/parser/parser.go -/
def p_parseStructDataType : List String := [
  "if !p.nextToken() {",
  "return nil",
  "}",
  "if p.notExpectPeekToken(token.IDENT, token.MUL, token.RBRACE) {",
  "return nil",
  "}",
  "parseElemExprList()",
  "if elems == nil {",
  "return nil",
  "}",
  "if !p.advanceIfPeekTokenIs(token.RBRACE) {",
  "return nil",
  "}"]

/-- skeleton of `Parser.parseElemExprList` in tools/goctl/pkg/parser/api/parser/parser.go -/
def p_parseElemExprList : List String := [
  "for p.curTokenIsNotEof() && p.peekTokenIsNot(token.RBRACE, token.EOF) {",
  "if p.notExpectPeekToken(token.IDENT, token.MUL, token.RBRACE) {",
  "return nil",
  "}",
  "parseElemExpr()",
  "if expr == nil {",
  "return nil",
  "}",
  "if p.notExpectPeekToken(token.IDENT, token.MUL, token.RBRACE) {",
  "return nil",
  "}",
  "}"]

/-- skeleton of `Parser.parseElemExpr` in tools/goctl/pkg/parser/api/parser/parser.go -/
def p_parseElemExpr : List String := [
  "if !p.advanceIfPeekTokenIs(token.IDENT, token.MUL) {",
  "return nil",
  "}",
  "if p.curTokenIsKeyword() {",
  "return nil",
  "}",
  "if p.curTokenIs(token.MUL) {",
  "if !p.advanceIfPeekTokenIs(token.IDENT) {",
  "return nil",
  "}",
  "if p.curTokenIs(token.Any) {",
  "} else {",
  "}",
  "} else {",
  "if p.peekTok.Line() > identNode.Token.Line() || p.peekTokenIs(token.RAW_STRING) {",
  "if p.curTokenIs(token.Any) {",
  "} else {",
  "}",
  "} else {",
  "if p.notExpectPeekToken(token.COMMA, token.IDENT, token.LBRACK, token.ANY, token.MUL, token.LBRACE) {",
  "return nil",
  "}",
  "for p.peekTokenIs(token.COMMA) {",
  "if !p.nextToken() {",
  "return nil",
  "}",
  "if !p.advanceIfPeekTokenIs(token.IDENT) {",
  "return nil",
  "}",
  "if p.curTokenIsKeyword() {",
  "return nil",
  "}",
  "}",
  "parseDataType()",
  "if isNil(dt) {",
  "return nil",
  "}",
  "}",
  "}",
  "if p.notExpectPeekToken(token.RAW_STRING, token.MUL, token.IDENT, token.RBRACE) {",
  "return nil",
  "}",
  "if p.peekTokenIs(token.RAW_STRING) {",
  "if !p.nextToken() {",
  "return nil",
  "}",
  "}"]

/-- skeleton of `Parser.parseAnyDataType` in tools/goctl/pkg/parser/api/parser/parser.go -/
def p_parseAnyDataType : List String := [
  "if !p.nextToken() {",
  "return nil",
  "}"]

/-- skeleton of `Parser.parsePointerDataType` in tools/goctl/pkg/parser/api/parser/parser.go -/
def p_parsePointerDataType : List String := [
  "if !p.nextToken() {",
  "return nil",
  "}",
  "if p.notExpectPeekToken(token.IDENT, token.LBRACK, token.ANY, token.MUL) {",
  "return nil",
  "}",
  "parseDataType()",
  "if isNil(dt) {",
  "return nil",
  "}"]

/-- skeleton of `Parser.parseInterfaceDataType` in tools/goctl/pkg/parser/api/parser/parser.go -/
def p_parseInterfaceDataType : List String := [
  "if !p.nextToken() {",
  "return nil",
  "}"]

/-- skeleton of `Parser.parseMapDataType` in tools/goctl/pkg/parser/api/parser/parser.go -/
def p_parseMapDataType : List String := [
  "if !p.nextToken() {",
  "return nil",
  "}",
  "if !p.advanceIfPeekTokenIs(token.LBRACK) {",
  "return nil",
  "}",
  "parseDataType()",
  "if isNil(dt) {",
  "return nil",
  "}",
  "if !p.advanceIfPeekTokenIs(token.RBRACK) {",
  "return nil",
  "}",
  "parseDataType()",
  "if isNil(dt) {",
  "return nil",
  "}"]

/-- skeleton of `Parser.parseArrayDataType` in tools/goctl/pkg/parser/api/parser/parser.go -/
def p_parseArrayDataType : List String := [
  "if !p.nextToken() {",
  "return nil",
  "}",
  "if !p.advanceIfPeekTokenIs(token.RBRACK) {",
  "return nil",
  "}",
  "parseDataType()",
  "if isNil(dt) {",
  "return nil",
  "}"]

/-- skeleton of `Parser.parseSliceDataType` in tools/goctl/pkg/parser/api/parser/parser.go -/
def p_parseSliceDataType : List String := [
  "if !p.advanceIfPeekTokenIs(token.RBRACK) {",
  "return nil",
  "}",
  "parseDataType()",
  "if isNil(dt) {",
  "return nil",
  "}"]

/-- skeleton of `Parser.parseImportStmt` in tools/goctl/pkg/parser/api/parser/parser.go -/
def p_parseImportStmt : List String := [
  "if p.notExpectPeekToken(token.LPAREN, token.STRING) {",
  "return nil",
  "}",
  "if p.peekTokenIs(token.LPAREN) {",
  "parseImportGroupStmt()",
  "}",
  "parseImportLiteralStmt()"]

/-- skeleton of `Parser.parseImportLiteralStmt` in tools/goctl/pkg/parser/api/parser/parser.go -/
def p_parseImportLiteralStmt : List String := [
  "if !p.advanceIfPeekTokenIs(token.STRING) {",
  "return nil",
  "}"]

/-- skeleton of `Parser.parseImportGroupStmt` in tools/goctl/pkg/parser/api/parser/parser.go -/
def p_parseImportGroupStmt : List String := [
  "if !p.advanceIfPeekTokenIs(token.LPAREN) {",
  "return nil",
  "}",
  "for p.curTokenIsNotEof() && p.peekTokenIsNot(token.RPAREN) {",
  "if !p.advanceIfPeekTokenIs(token.STRING) {",
  "return nil",
  "}",
  "if p.notExpectPeekToken(token.RPAREN, token.STRING) {",
  "return nil",
  "}",
  "}",
  "if !p.advanceIfPeekTokenIs(token.RPAREN) {",
  "return nil",
  "}"]

/-- skeleton of `Parser.parseInfoStmt` in tools/goctl/pkg/parser/api/parser/parser.go -/
def p_parseInfoStmt : List String := [
  "if !p.advanceIfPeekTokenIs(token.LPAREN) {",
  "return nil",
  "}",
  "for p.curTokenIsNotEof() && p.peekTokenIsNot(token.RPAREN) {",
  "parseKVExpression()",
  "if expr == nil {",
  "return nil",
  "}",
  "if p.notExpectPeekToken(token.RPAREN, token.IDENT) {",
  "return nil",
  "}",
  "}",
  "if !p.advanceIfPeekTokenIs(token.RPAREN) {",
  "return nil",
  "}"]

/-- skeleton of `Parser.parseAtServerKVExpression` in tools/goctl/pkg/parser/api/parser/parser.go -/
def p_parseAtServerKVExpression : List String := [
  "if !p.advanceIfPeekTokenIs(token.IDENT, token.RPAREN) {",
  "return nil",
  "}",
  "if !p.advanceIfPeekTokenIs(token.COLON) {",
  "return nil",
  "}",
  "if p.notExpectPeekToken(token.QUO, token.DURATION, token.IDENT, token.INT, token.STRING) {",
  "return nil",
  "}",
  "if p.peekTokenIs(token.QUO) {",
  "if !p.nextToken() {",
  "return nil",
  "}",
  "if !p.advanceIfPeekTokenIs(token.IDENT) {",
  "return nil",
  "}",
  "if p.peekTokenIs(token.SUB) {",
  "if !p.nextToken() {",
  "return nil",
  "}",
  "if !p.advanceIfPeekTokenIs(token.IDENT) {",
  "return nil",
  "}",
  "}",
  "} else {",
  "if p.peekTokenIs(token.DURATION) {",
  "if !p.nextToken() {",
  "return nil",
  "}",
  "} else {",
  "if p.peekTokenIs(token.INT) {",
  "if !p.nextToken() {",
  "return nil",
  "}",
  "} else {",
  "if p.peekTokenIs(token.STRING) {",
  "if !p.nextToken() {",
  "return nil",
  "}",
  "} else {",
  "if !p.advanceIfPeekTokenIs(token.IDENT) {",
  "return nil",
  "}",
  "if p.peekTokenIs(token.COMMA) {",
  "for  {",
  "if p.peekTokenIs(token.COMMA) {",
  "if !p.nextToken() {",
  "return nil",
  "}",
  "if !p.advanceIfPeekTokenIs(token.IDENT) {",
  "return nil",
  "}",
  "} else {",
  "break",
  "}",
  "}",
  "} else {",
  "if p.peekTokenIs(token.SUB) {",
  "for  {",
  "if p.peekTokenIs(token.SUB) {",
  "if !p.nextToken() {",
  "return nil",
  "}",
  "if !p.advanceIfPeekTokenIs(token.IDENT) {",
  "return nil",
  "}",
  "} else {",
  "break",
  "}",
  "}",
  "}",
  "}",
  "}",
  "}",
  "}",
  "}",
  "for  {",
  "if p.peekTokenIs(token.QUO) {",
  "if !p.nextToken() {",
  "return nil",
  "}",
  "if !p.advanceIfPeekTokenIs(token.IDENT) {",
  "return nil",
  "}",
  "if p.peekTokenIs(token.SUB) {",
  "if !p.nextToken() {",
  "return nil",
  "}",
  "if !p.advanceIfPeekTokenIs(token.IDENT) {",
  "return nil",
  "}",
  "}",
  "} else {",
  "break",
  "}",
  "}"]

/-- skeleton of `Parser.parseKVExpression` in tools/goctl/pkg/parser/api/parser/parser.go -/
def p_parseKVExpression : List String := [
  "if !p.advanceIfPeekTokenIs(token.IDENT) {",
  "return nil",
  "}",
  "if !p.advanceIfPeekTokenIs(token.COLON) {",
  "return nil",
  "}",
  "if !p.advanceIfPeekTokenIs(token.STRING, token.RAW_STRING) {",
  "return nil",
  "}"]

/-- skeleton of `Parser.parseSyntaxStmt` in tools/goctl/pkg/parser/api/parser/parser.go -/
def p_parseSyntaxStmt : List String := [
  "if !p.advanceIfPeekTokenIs(token.ASSIGN) {",
  "return nil",
  "}",
  "if !p.advanceIfPeekTokenIs(token.STRING) {",
  "return nil",
  "}"]

/-- skeleton of `Parser.nextToken` in tools/goctl/pkg/parser/api/parser/parser.go -/
def p_nextToken : List String := [
  "if p.curTok.Valid() {",
  "if p.curTokenIs(token.EOF) {",
  "range p.headCommentGroup {",
  "appendStmt(v)",
  "}",
  "}",
  "if p.headCommentGroup.Valid() {",
  "}",
  "Line()",
  "}",
  "if err != nil {",
  "}",
  "for p.peekTok.Type == token.COMMENT || p.peekTok.Type == token.DOCUMENT {",
  "if p.peekTok.Line() == line && line > -1 {",
  "} else {",
  "}",
  "if err != nil {",
  "}",
  "}",
  "if len(leadingCommentGroup) > 0 {",
  "}"]

/-- skeleton of `AST.Format` in tools/goctl/pkg/parser/api/ast/ast.go -/
def f_AST : List String := [
  "range a.Stmts {",
  "if e.Format() == NilIndent {",
  "continue",
  "}",
  "Write(withNode(e))",
  "NewLine()",
  "typeswitch {",
  "case *SyntaxStmt:",
  "NewLine()",
  "case *ImportGroupStmt:",
  "NewLine()",
  "case *ImportLiteralStmt:",
  "for next < len(a.Stmts) && a.Stmts[next].Format() == NilIndent {",
  "}",
  "if next < len(a.Stmts) {",
  "if !ok {",
  "NewLine()",
  "}",
  "}",
  "case *InfoStmt:",
  "NewLine()",
  "case *ServiceStmt:",
  "NewLine()",
  "case *TypeGroupStmt:",
  "NewLine()",
  "case *TypeLiteralStmt:",
  "NewLine()",
  "case *CommentStmt:",
  "}",
  "}"]

/-- skeleton of `TokenNode.Format` in tools/goctl/pkg/parser/api/ast/ast.go -/
def f_TokenNode : List String := [
  "range t.HeadCommentGroup {",
  "Format(p)",
  "}",
  "range t.LeadingCommentGroup {",
  "if util.IsEmptyStringOrWhiteSpace(e.Comment.Text) {",
  "continue",
  "}",
  "}",
  "if len(validLeadingCommentGroup) > 0 {",
  "}"]

/-- skeleton of `SyntaxStmt.Format` in tools/goctl/pkg/parser/api/ast/syntaxstatement.go -/
def f_SyntaxStmt : List String := [
  "transferTokenNode(s.Syntax, withTokenNodePrefix(prefix...), ignoreLeadingComment())",
  "transferTokenNode(s.Assign, ignoreLeadingComment())",
  "Write(withNode(syntaxNode, assignNode, s.Value), withPrefix(prefix...), expectSameLine())"]

/-- skeleton of `InfoStmt.Format` in tools/goctl/pkg/parser/api/ast/infostatement.go -/
def f_InfoStmt : List String := [
  "if len(i.Values) == 0 {",
  "}",
  "range i.Values {",
  "if v.Value.IsZeroString() {",
  "continue",
  "}",
  "Format(Indent)",
  "}",
  "if len(textList) == 0 {",
  "}",
  "transferTokenNode(i.Info, withTokenNodePrefix(prefix...), ignoreLeadingComment())",
  "Write(withNode(infoNode, i.LParen))",
  "NewLine()",
  "range i.Values {",
  "transferNilInfixNode([]*TokenNode{v.Key, v.Colon})",
  "transferTokenNode(node, withTokenNodePrefix(peekOne(prefix) + Indent), ignoreLeadingComment())",
  "Write(withNode(node, v.Value), expectIndentInfix(), expectSameLine())",
  "NewLine()",
  "}",
  "Write(withNode(transferTokenNode(i.RParen, withTokenNodePrefix(prefix...))))"]

/-- skeleton of `ImportLiteralStmt.Format` in tools/goctl/pkg/parser/api/ast/importstatement.go -/
def f_ImportLiteralStmt : List String := [
  "if i.Value.IsZeroString() {",
  "}",
  "transferTokenNode(i.Import, ignoreLeadingComment(), withTokenNodePrefix(prefix...))",
  "Write(withNode(importNode, i.Value), withMode(ModeExpectInSameLine))"]

/-- skeleton of `ImportGroupStmt.Format` in tools/goctl/pkg/parser/api/ast/importstatement.go -/
def f_ImportGroupStmt : List String := [
  "range i.Values {",
  "if v.IsZeroString() {",
  "continue",
  "}",
  "Format(Indent)",
  "}",
  "if len(textList) == 0 {",
  "}",
  "transferTokenNode(i.Import, ignoreLeadingComment(), withTokenNodePrefix(prefix...))",
  "Write(withNode(importNode, i.LParen), expectSameLine())",
  "NewLine()",
  "range i.Values {",
  "transferTokenNode(v, withTokenNodePrefix(peekOne(prefix) + Indent))",
  "Write(withNode(node), expectSameLine())",
  "NewLine()",
  "}",
  "Write(withNode(transferTokenNode(i.RParen, withTokenNodePrefix(prefix...))))"]

/-- skeleton of `KVExpr.Format` in tools/goctl/pkg/parser/api/ast/kvexpression.go -/
def f_KVExpr : List String := [
  "transferNilInfixNode([]*TokenNode{i.Key, i.Colon})",
  "Write(withNode(node, i.Value), withPrefix(prefix...), withInfix(Indent), withRawText())"]

/-- skeleton of `TypeLiteralStmt.Format` in tools/goctl/pkg/parser/api/ast/typestatement.go -/
def f_TypeLiteralStmt : List String := [
  "Write(withNode(t.Type, t.Expr), withPrefix(prefix...), expectSameLine())"]

/-- skeleton of `TypeGroupStmt.Format` in tools/goctl/pkg/parser/api/ast/typestatement.go -/
def f_TypeGroupStmt : List String := [
  "if len(t.ExprList) == 0 {",
  "}",
  "transferTokenNode(t.Type, withTokenNodePrefix(prefix...))",
  "Write(withNode(typeNode, t.LParen), expectSameLine())",
  "NewLine()",
  "range t.ExprList {",
  "Write(withNode(e), withPrefix(peekOne(prefix) + Indent))",
  "NewLine()",
  "}",
  "WriteText(t.RParen.Format(prefix...))"]

/-- skeleton of `TypeExpr.Format` in tools/goctl/pkg/parser/api/ast/typestatement.go -/
def f_TypeExpr : List String := [
  "transferTokenNode(e.Name, withTokenNodePrefix(prefix...))",
  "transfer2TokenNode(e.DataType, false, withTokenNodePrefix(prefix...))",
  "if e.Assign != nil {",
  "Write(withNode(nameNode, e.Assign, dataTypeNode), expectSameLine())",
  "} else {",
  "Write(withNode(nameNode, dataTypeNode), expectSameLine())",
  "}"]

/-- skeleton of `ElemExpr.Format` in tools/goctl/pkg/parser/api/ast/typestatement.go -/
def f_ElemExpr : List String := [
  "range e.Name {",
  "if idx == 0 {",
  "transferTokenNode(n, ignoreLeadingComment())",
  "} else {",
  "if idx < len(e.Name)-1 {",
  "transferTokenNode(n, ignoreLeadingComment(), ignoreHeadComment())",
  "} else {",
  "transferTokenNode(n, ignoreHeadComment())",
  "}",
  "}",
  "}",
  "if e.DataType.ContainsStruct() {",
  "} else {",
  "}",
  "transfer2TokenNode(e.DataType, false, dataTypeOption)",
  "if len(nameNodeList) > 0 {",
  "transferNilInfixNode(nameNodeList, withTokenNodePrefix(prefix...), withTokenNodeInfix(\", \"))",
  "if e.Tag != nil {",
  "Write(withNode(nameNode, dataTypeNode, e.Tag), expectIndentInfix(), expectSameLine())",
  "} else {",
  "Write(withNode(nameNode, dataTypeNode), expectIndentInfix(), expectSameLine())",
  "}",
  "} else {",
  "if e.Tag != nil {",
  "Write(withNode(dataTypeNode, e.Tag), expectIndentInfix(), expectSameLine())",
  "} else {",
  "Write(withNode(dataTypeNode), expectIndentInfix(), expectSameLine())",
  "}",
  "}"]

/-- skeleton of `ArrayDataType.Format` in tools/goctl/pkg/parser/api/ast/typestatement.go -/
def f_ArrayDataType : List String := [
  "transferTokenNode(t.LBrack, ignoreLeadingComment())",
  "transferTokenNode(t.Length, ignoreLeadingComment())",
  "transferTokenNode(t.RBrack, ignoreHeadComment())",
  "if t.isChild {",
  "} else {",
  "}",
  "transfer2TokenNode(t.DataType, false, options)",
  "transferNilInfixNode([]*TokenNode{lbrack, lengthNode, rbrack, dataType})",
  "Write(withNode(node))"]

/-- skeleton of `MapDataType.Format` in tools/goctl/pkg/parser/api/ast/typestatement.go -/
def f_MapDataType : List String := [
  "transferTokenNode(t.Map, ignoreLeadingComment())",
  "transferTokenNode(t.LBrack, ignoreLeadingComment())",
  "transferTokenNode(t.RBrack, ignoreComment())",
  "if t.isChild {",
  "} else {",
  "}",
  "transfer2TokenNode(t.Key, true, keyOption)",
  "transfer2TokenNode(t.Value, false, valueOption)",
  "transferNilInfixNode([]*TokenNode{mapNode, lbrack, keyDataType, rbrack, valueDataType})",
  "Write(withNode(node))"]

/-- skeleton of `PointerDataType.Format` in tools/goctl/pkg/parser/api/ast/typestatement.go -/
def f_PointerDataType : List String := [
  "transferTokenNode(t.Star, ignoreLeadingComment(), withTokenNodePrefix(prefix...))",
  "transfer2TokenNode(t.DataType, false, dataTypeOption)",
  "transferNilInfixNode([]*TokenNode{star, dataType})",
  "Write(withNode(node))"]

/-- skeleton of `SliceDataType.Format` in tools/goctl/pkg/parser/api/ast/typestatement.go -/
def f_SliceDataType : List String := [
  "transferTokenNode(t.LBrack, ignoreLeadingComment())",
  "transferTokenNode(t.RBrack, ignoreHeadComment())",
  "transfer2TokenNode(t.DataType, false, withTokenNodePrefix(prefix...), ignoreHeadComment())",
  "transferNilInfixNode([]*TokenNode{lbrack, rbrack, dataType})",
  "Write(withNode(node))"]

/-- skeleton of `StructDataType.Format` in tools/goctl/pkg/parser/api/ast/typestatement.go -/
def f_StructDataType : List String := [
  "if len(t.Elements) == 0 {",
  "transferTokenNode(t.LBrace, withTokenNodePrefix(prefix...), ignoreLeadingComment())",
  "transferTokenNode(t.RBrace, ignoreHeadComment())",
  "transferNilInfixNode([]*TokenNode{lbrace, rbrace})",
  "Write(withNode(brace), expectSameLine())",
  "}",
  "WriteText(t.LBrace.Format(NilIndent))",
  "NewLine()",
  "range t.Elements {",
  "if len(e.Name) > 0 {",
  "range e.Name {",
  "if idx == 0 {",
  "transferTokenNode(n, withTokenNodePrefix(peekOne(prefix) + Indent), ignoreLeadingComment())",
  "} else {",
  "if idx < len(e.Name)-1 {",
  "transferTokenNode(n, ignoreLeadingComment(), ignoreHeadComment())",
  "} else {",
  "transferTokenNode(n, ignoreHeadComment())",
  "}",
  "}",
  "}",
  "}",
  "if e.DataType.ContainsStruct() || e.IsAnonymous() {",
  "} else {",
  "}",
  "transfer2TokenNode(e.DataType, false, dataTypeOption)",
  "if len(nameNodeList) > 0 {",
  "transferNilInfixNode(nameNodeList, withTokenNodeInfix(\", \"))",
  "if e.Tag != nil {",
  "if e.DataType.ContainsStruct() {",
  "Write(withNode(nameNode, dataTypeNode, e.Tag), expectSameLine())",
  "} else {",
  "Write(withNode(nameNode, e.DataType, e.Tag), expectIndentInfix(), expectSameLine())",
  "}",
  "} else {",
  "if e.DataType.ContainsStruct() {",
  "Write(withNode(nameNode, dataTypeNode), expectSameLine())",
  "} else {",
  "Write(withNode(nameNode, e.DataType), expectIndentInfix(), expectSameLine())",
  "}",
  "}",
  "} else {",
  "if e.Tag != nil {",
  "if e.DataType.ContainsStruct() {",
  "Write(withNode(dataTypeNode, e.Tag), expectSameLine())",
  "} else {",
  "Write(withNode(e.DataType, e.Tag), expectIndentInfix(), expectSameLine())",
  "}",
  "} else {",
  "if e.DataType.ContainsStruct() {",
  "Write(withNode(dataTypeNode), expectSameLine())",
  "} else {",
  "Write(withNode(dataTypeNode), expectIndentInfix(), expectSameLine())",
  "}",
  "}",
  "}",
  "NewLine()",
  "}",
  "WriteText(t.RBrace.Format(prefix...))"]

/-- skeleton of `AtServerStmt.Format` in tools/goctl/pkg/parser/api/ast/servicestatement.go -/
def f_AtServerStmt : List String := [
  "if len(a.Values) == 0 {",
  "}",
  "range a.Values {",
  "if v.Value.IsZeroString() {",
  "continue",
  "}",
  "Format()",
  "}",
  "if len(textList) == 0 {",
  "}",
  "transferTokenNode(a.AtServer, withTokenNodePrefix(prefix...), ignoreLeadingComment())",
  "Write(withNode(atServerNode, a.LParen), expectSameLine())",
  "NewLine()",
  "range a.Values {",
  "transferNilInfixNode([]*TokenNode{v.Key, v.Colon})",
  "transferTokenNode(node, withTokenNodePrefix(peekOne(prefix) + Indent), ignoreLeadingComment())",
  "Write(withNode(node, v.Value), expectIndentInfix(), expectSameLine())",
  "NewLine()",
  "}",
  "Write(withNode(transferTokenNode(a.RParen, withTokenNodePrefix(prefix...))))"]

/-- skeleton of `AtDocLiteralStmt.Format` in tools/goctl/pkg/parser/api/ast/servicestatement.go -/
def f_AtDocLiteralStmt : List String := [
  "if a.Value.IsZeroString() {",
  "}",
  "transferTokenNode(a.AtDoc, withTokenNodePrefix(prefix...), ignoreLeadingComment())",
  "transferTokenNode(a.Value, ignoreHeadComment())",
  "Write(withNode(atDocNode, valueNode), expectSameLine())"]

/-- skeleton of `AtDocGroupStmt.Format` in tools/goctl/pkg/parser/api/ast/servicestatement.go -/
def f_AtDocGroupStmt : List String := [
  "if len(a.Values) == 0 {",
  "}",
  "range a.Values {",
  "if v.Value.IsZeroString() {",
  "continue",
  "}",
  "Format(peekOne(prefix) + Indent)",
  "}",
  "if len(textList) == 0 {",
  "}",
  "transferTokenNode(a.AtDoc, withTokenNodePrefix(prefix...), ignoreLeadingComment())",
  "Write(withNode(atDocNode, a.LParen), expectSameLine())",
  "NewLine()",
  "range a.Values {",
  "transferNilInfixNode([]*TokenNode{v.Key, v.Colon})",
  "transferTokenNode(node, withTokenNodePrefix(peekOne(prefix) + Indent), ignoreLeadingComment())",
  "Write(withNode(node, v.Value), expectIndentInfix(), expectSameLine())",
  "NewLine()",
  "}",
  "Write(withNode(transferTokenNode(a.RParen, withTokenNodePrefix(prefix...))))"]

/-- skeleton of `ServiceStmt.Format` in tools/goctl/pkg/parser/api/ast/servicestatement.go -/
def f_ServiceStmt : List String := [
  "if s.AtServerStmt != nil {",
  "Format()",
  "if len(text) > 0 {",
  "WriteText(text)",
  "NewLine()",
  "}",
  "}",
  "transferTokenNode(s.Service, withTokenNodePrefix(prefix...))",
  "Write(withNode(serviceNode, s.Name, s.LBrace), expectSameLine())",
  "if len(s.Routes) == 0 {",
  "Write(withNode(transferTokenNode(s.RBrace, withTokenNodePrefix(prefix...))))",
  "}",
  "NewLine()",
  "range s.Routes {",
  "transfer2TokenNode(route, false, withTokenNodePrefix(peekOne(prefix) + Indent))",
  "Write(withNode(routeNode))",
  "if idx < len(s.Routes)-1 {",
  "NewLine()",
  "}",
  "}",
  "Write(withNode(transferTokenNode(s.RBrace, withTokenNodePrefix(prefix...))))"]

/-- skeleton of `ServiceNameExpr.Format` in tools/goctl/pkg/parser/api/ast/servicestatement.go -/
def f_ServiceNameExpr : List String := [
  "WriteText(s.Name.Format())"]

/-- skeleton of `AtHandlerStmt.Format` in tools/goctl/pkg/parser/api/ast/servicestatement.go -/
def f_AtHandlerStmt : List String := [
  "transferTokenNode(a.AtHandler, withTokenNodePrefix(prefix...), ignoreLeadingComment())",
  "transferTokenNode(a.Name, ignoreHeadComment())",
  "Write(withNode(atDocNode, nameNode), expectSameLine())"]

/-- skeleton of `ServiceItemStmt.Format` in tools/goctl/pkg/parser/api/ast/servicestatement.go -/
def f_ServiceItemStmt : List String := [
  "if s.AtDoc != nil {",
  "Format(prefix)",
  "if len(text) > 0 {",
  "WriteText(text)",
  "NewLine()",
  "}",
  "}",
  "WriteText(s.AtHandler.Format(prefix...))",
  "NewLine()",
  "transfer2TokenNode(s.Route, false, withTokenNodePrefix(prefix...))",
  "Write(withNode(routeNode))",
  "NewLine()"]

/-- skeleton of `RouteStmt.Format` in tools/goctl/pkg/parser/api/ast/servicestatement.go -/
def f_RouteStmt : List String := [
  "transferTokenNode(r.Method, withTokenNodePrefix(prefix...), ignoreLeadingComment())",
  "if r.Response != nil {",
  "if r.Response.Body == nil {",
  "transferTokenNode(r.Response.RParen, ignoreHeadComment())",
  "if r.Request != nil {",
  "Write(withNode(methodNode, r.Path, r.Request), expectSameLine())",
  "} else {",
  "Write(withNode(methodNode, r.Path), expectSameLine())",
  "}",
  "} else {",
  "transferTokenNode(r.Response.RParen, ignoreHeadComment())",
  "if r.Request != nil {",
  "Write(withNode(methodNode, r.Path, r.Request, r.Returns, r.Response), expectSameLine())",
  "} else {",
  "Write(withNode(methodNode, r.Path, r.Returns, r.Response), expectSameLine())",
  "}",
  "}",
  "} else {",
  "if r.Request != nil {",
  "transferTokenNode(r.Request.RParen, ignoreHeadComment())",
  "Write(withNode(methodNode, r.Path, r.Request), expectSameLine())",
  "} else {",
  "transferTokenNode(r.Path.Value, ignoreHeadComment())",
  "Write(withNode(methodNode, pathNode), expectSameLine())",
  "}",
  "}"]

/-- skeleton of `PathExpr.Format` in tools/goctl/pkg/parser/api/ast/servicestatement.go -/
def f_PathExpr : List String := [
  "transferTokenNode(p.Value, ignoreComment())",
  "Format(prefix)"]

/-- skeleton of `BodyStmt.Format` in tools/goctl/pkg/parser/api/ast/servicestatement.go -/
def f_BodyStmt : List String := [
  "if b.Body == nil {",
  "}",
  "Write(withNode(b.LParen, b.Body, b.RParen), withInfix(NilIndent), expectSameLine())"]

/-- skeleton of `BodyExpr.Format` in tools/goctl/pkg/parser/api/ast/servicestatement.go -/
def f_BodyExpr : List String := [
  "if e.LBrack != nil {",
  "transferTokenNode(e.LBrack, ignoreComment())",
  "transferTokenNode(e.RBrack, ignoreComment())",
  "if e.Star != nil {",
  "transferTokenNode(e.Star, ignoreComment())",
  "Write(withNode(lbrackNode, rbrackNode, starNode, e.Value), withInfix(NilIndent), expectSameLine())",
  "} else {",
  "Write(withNode(lbrackNode, rbrackNode, e.Value), withInfix(NilIndent), expectSameLine())",
  "}",
  "} else {",
  "if e.Star != nil {",
  "transferTokenNode(e.Star, ignoreComment())",
  "Write(withNode(starNode, e.Value), withInfix(NilIndent), expectSameLine())",
  "} else {",
  "Write(withNode(e.Value))",
  "}",
  "}"]

/-- skeleton of `Writer.write` in tools/goctl/pkg/parser/api/ast/writer.go -/
def w_write : List String := [
  "if len(opt.nodes) == 0 {",
  "}",
  "range opt.nodes {",
  "if preIdx > -1 && preIdx < len(opt.nodes) {",
  "}",
  "if node.HasHeadCommentGroup() || preNodeHasLeading {",
  "}",
  "if mode == ModeAuto && node.Pos().Line > line {",
  "}",
  "if util.TrimWhiteSpace(node.Format()) == \"\" {",
  "continue",
  "}",
  "Format(opt.prefix)",
  "}",
  "if opt.rawText {",
  "Fprint(w.writer, text)",
  "}",
  "Fprint(w.tw, text)"]

/-- skeleton of `Writer.WriteText` in tools/goctl/pkg/parser/api/ast/writer.go -/
def w_WriteText : List String := [
  "Fprint(w.tw, text)"]

/-- skeleton of `Source` in tools/goctl/pkg/parser/api/format/format.go -/
def fmt_Source : List String := [
  "New(\"\", source)",
  "Parse()",
  "CheckErrors()",
  "if err != nil {",
  "}",
  "Format(w)",
  "return nil"]

/-- problems met while extracting (must be empty) -/
def extractionErrors : List String := []

end GoZero.C20.Ref
