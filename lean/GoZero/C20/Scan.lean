/-
C20 (round 4) — character-level model of goctl's `.api` scanner (tools/goctl/pkg/parser/api/scanner/scanner.go),
function by function: `Scanner.NextToken`, `skipWhiteSpace` / `isWhiteSpace` (the only place where lines are counted),
`scanLineComment`, `scanDocument`, `scanString`, `scanAt` + `scanLetterSet`, `scanIdent`, `scanIntOrDuration` and the
duration family (`scanDuration`, `scanNanosecond`, `scanMicrosecond`, `scanMillisecondOrMinute`, `scanMillisecond`,
`scanSecond`, `scanMinute`, `scanHour`, `illegalToken`), and of token.go's `Token.IsKeyword` range / `LookupKeyword`.

The scanner state `(data, position, ch)` is the list of runes not yet read: head = `s.ch`, `[]` = `s.ch == 0` behind the
last rune (a NUL rune inside the data is treated by the real code exactly like the end: `cur`).
Texts are `List Char` (the driver converts). Core Lean only.
-/
import GoZero.C20.Model
namespace GoZero.C20.Scan

open GoZero.C20

/-- `s.ch` -/
def cur : List Char → Char
  | [] => Char.ofNat 0
  | c :: _ => c

/-- `s.peekRune()` -/
def peek : List Char → Char
  | _ :: c :: _ => c
  | _ => Char.ofNat 0

/-- `isDigit`: `b >= '0' && b <= '9'` -/
def isDigit (c : Char) : Bool := decide (48 ≤ c.toNat) && decide (c.toNat ≤ 57)

/-- `isLetter`: `(b >= 'a' && b <= 'z') || (b >= 'A' && b <= 'Z')` -/
def isLetter (c : Char) : Bool :=
  (decide (97 ≤ c.toNat) && decide (c.toNat ≤ 122)) || (decide (65 ≤ c.toNat) && decide (c.toNat ≤ 90))

/-- `isIdentifierLetter` -/
def isIdL (c : Char) : Bool := isLetter c || c.toNat == 95

/-- `isWhiteSpace`: blank, tab, CR, FF, VT, LF -/
def isWS (c : Char) : Bool :=
  c.toNat == 32 || c.toNat == 9 || c.toNat == 13 || c.toNat == 12 || c.toNat == 11 || c.toNat == 10

/-- the characters `scanIntOrDuration` hands to `scanDuration`: `'n', 'µ', 'm', 's', 'h'` -/
def isDurStart (c : Char) : Bool :=
  c.toNat == 110 || c.toNat == 181 || c.toNat == 109 || c.toNat == 115 || c.toNat == 104

def isNul (c : Char) : Bool := c.toNat == 0

/-- `skipWhiteSpace`: number of line feeds skipped (each is appended to `s.lines`), rest -/
def skipWS : List Char → Nat × List Char
  | [] => (0, [])
  | c :: r =>
    if isWS c then
      let p := skipWS r
      ((if c.toNat == 10 then 1 else 0) + p.1, p.2)
    else (0, c :: r)

/-- raw token kinds: the parser's kinds plus the two comment kinds -/
inductive RK
  | tok (k : K)
  | comment
  | document
  deriving DecidableEq, Repr

inductive Res
  | eof
  | err
  | tok (k : RK) (text : List Char) (rest : List Char)
  deriving DecidableEq, Repr

/-- what was consumed: `string(s.data[position:s.position])` -/
def consumed (orig rest : List Char) : List Char := orig.take (orig.length - rest.length)

/-- `strings.TrimRight(text, " \t\r\f\v")` -/
def trimRightBlank (cs : List Char) : List Char :=
  (cs.reverse.dropWhile fun c => c.toNat == 32 || c.toNat == 9 || c.toNat == 13 || c.toNat == 12 || c.toNat == 11).reverse

/-- `scanLineComment`: up to (not including) the line feed / the end -/
def lineComment (cs : List Char) : List Char × List Char :=
  (cs.takeWhile fun c => !(c.toNat == 10) && !isNul c, cs.dropWhile fun c => !(c.toNat == 10) && !isNul c)

/-- `scanDocument` behind `/*`: `star` = mode documentHalfClose. `none` = unterminated (error). Returns the rest
behind the closing `/`. -/
def docBody : Bool → List Char → Option (List Char)
  | _, [] => none
  | star, c :: r =>
    if isNul c then none
    else if c.toNat == 42 then docBody true r
    else if c.toNat == 47 && star then some r
    else docBody false r

/-- `scanString` behind the opening delimiter: rest behind the closing one; `none` = EOF inside the literal -/
def strBody (delim : Char) : List Char → Option (List Char)
  | [] => none
  | c :: r => if c = delim then some r else if isNul c then none else strBody delim r

/-- `illegalToken()`: ILLEGAL with the text `string(s.ch)`, one rune read. What was read before is in no token. -/
def illegal (cs : List Char) : Res := .tok (.tok .ILLEGAL) [cur cs] cs.tail

/-- result of the duration family: the rest behind a DURATION, or the place of an ILLEGAL rune -/
inductive DRes
  | dur (rest : List Char)
  | ill (at_ : List Char)
  deriving DecidableEq, Repr

def skipDigits (cs : List Char) : List Char := cs.dropWhile isDigit

/-- `scanNanosecond` (`s.ch == 'n'`) -/
def scanNano (cs : List Char) : DRes :=
  let r := cs.tail
  if (cur r).toNat == 115 then .dur r.tail else .ill r

/-- `scanMicrosecond` (`s.ch == 'µ'`) -/
def scanMicro (cs : List Char) : DRes :=
  let r := cs.tail
  if (cur r).toNat != 115 then .ill r
  else
    let r1 := r.tail
    if !isDigit (cur r1) then .dur r1
    else
      let r2 := skipDigits r1
      if (cur r2).toNat != 110 then .ill r2 else scanNano r2

/-- `scanMillisecond` (`s.ch == 's'` of `ms`) -/
def scanMilli (cs : List Char) : DRes :=
  let r := cs.tail
  if !isDigit (cur r) then .dur r
  else
    let r1 := skipDigits r
    if (cur r1).toNat == 110 then scanNano r1
    else if (cur r1).toNat == 181 then scanMicro r1
    else .ill r1

/-- the `case 'm'` of `scanSecond` / `scanMinute`: `readRune; if s.ch != 's' illegal; scanMillisecond` -/
def milliAfterM (cs : List Char) : DRes :=
  let r := cs.tail
  if (cur r).toNat != 115 then .ill r else scanMilli r

/-- `scanSecond` (`s.ch == 's'`) -/
def scanSecond (cs : List Char) : DRes :=
  let r := cs.tail
  if !isDigit (cur r) then .dur r
  else
    let r1 := skipDigits r
    if (cur r1).toNat == 110 then scanNano r1
    else if (cur r1).toNat == 181 then scanMicro r1
    else if (cur r1).toNat == 109 then milliAfterM r1
    else .ill r1

/-- `scanMinute` (`s.ch` = the first digit behind `m`) -/
def scanMinute (cs : List Char) : DRes :=
  if !isDigit (cur cs) then .dur cs
  else
    let r1 := skipDigits cs
    if (cur r1).toNat == 110 then scanNano r1
    else if (cur r1).toNat == 181 then scanMicro r1
    else if (cur r1).toNat == 109 then milliAfterM r1
    else if (cur r1).toNat == 115 then scanSecond r1
    else .ill r1

/-- `scanMillisecondOrMinute` (`s.ch == 'm'`) -/
def scanMilliOrMinute (cs : List Char) : DRes :=
  let r := cs.tail
  if (cur r).toNat != 115 then
    if isNul (cur r) || !isDigit (cur r) then .dur r else scanMinute r
  else scanMilli r

/-- `scanHour` (`s.ch == 'h'`) -/
def scanHour (cs : List Char) : DRes :=
  let r := cs.tail
  if !isDigit (cur r) then .dur r
  else
    let r1 := skipDigits r
    if (cur r1).toNat == 110 then scanNano r1
    else if (cur r1).toNat == 181 then scanMicro r1
    else if (cur r1).toNat == 109 then scanMilliOrMinute r1
    else if (cur r1).toNat == 115 then scanSecond r1
    else .ill r1

/-- `scanDuration` -/
def scanDuration (cs : List Char) : DRes :=
  if (cur cs).toNat == 110 then scanNano cs
  else if (cur cs).toNat == 181 then scanMicro cs
  else if (cur cs).toNat == 109 then scanMilliOrMinute cs
  else if (cur cs).toNat == 115 then scanSecond cs
  else if (cur cs).toNat == 104 then scanHour cs
  else .ill cs

/-- `scanIntOrDuration` (`s.ch` is a digit) -/
def scanNumber (cs : List Char) : Res :=
  let r := skipDigits cs
  if isDurStart (cur r) then
    match scanDuration r with
    | .dur rest => .tok (.tok .DURATION) (consumed cs rest) rest
    | .ill at_ => illegal at_
  else .tok (.tok .INT) (consumed cs r) r

def interfaceWord : List Char := "interface".toList

/-- `scanIdent` -/
def scanIdent (cs : List Char) : Res :=
  let p := fun c => isIdL c || isDigit c
  let id := cs.takeWhile p
  let r := cs.dropWhile p
  if id = interfaceWord ∧ (cur r).toNat = 123 ∧ (peek r).toNat = 125 then
    .tok (.tok .ANY) (id ++ ['{', '}']) (r.drop 2)
  else .tok (.tok .IDENT) id r

/-- `scanAt` (`s.ch == '@'`) -/
def scanAt (cs : List Char) : Res :=
  let p := peek cs
  if !isLetter p then
    if isNul p then .tok (.tok .ILLEGAL) [cur cs] cs      -- NOT advanced by the real code
    else .err
  else
    let r := cs.tail
    let letters := r.takeWhile isLetter
    let rest := r.dropWhile isLetter
    if letters = "handler".toList then .tok (.tok .AT_HANDLER) "@handler".toList rest
    else if letters = "server".toList then .tok (.tok .AT_SERVER) "@server".toList rest
    else if letters = "doc".toList then .tok (.tok .AT_DOC) "@doc".toList rest
    else .err

/-- single-rune tokens of `NextToken`'s switch (`newToken`) -/
def single (c : Char) : Option K :=
  match c.toNat with
  | 45 => some .SUB | 42 => some .MUL | 40 => some .LPAREN | 91 => some .LBRACK | 123 => some .LBRACE
  | 44 => some .COMMA | 41 => some .RPAREN | 93 => some .RBRACK | 125 => some .RBRACE | 59 => some .SEMICOLON
  | 58 => some .COLON | 61 => some .ASSIGN
  | _ => none

/-- `NextToken` behind `skipWhiteSpace` -/
def next (cs : List Char) : Res :=
  let c := cur cs
  if isNul c then
    -- behind the last rune: EOF. A NUL rune INSIDE the data: the pinned code returns EOF there too (everything behind it
    -- is dropped silently: `nextPinned`, defect witness `nul_truncates_witness`); the model follows the repaired code
    -- (fixes/C20-scanner-nul-rune.patch): ILLEGAL, so the parser reports an error.
    match cs with
    | [] => .eof
    | _ :: _ => illegal cs
  else if c.toNat == 47 then
    let p := peek cs
    if p.toNat == 47 then
      let lc := lineComment cs
      .tok .comment (trimRightBlank lc.1) lc.2
    else if p.toNat == 42 then
      match docBody false (cs.drop 2) with
      | some rest => .tok .document (consumed cs rest) rest
      | none => .err
    else .tok (.tok .QUO) [c] cs.tail
  else if c.toNat == 46 then
    if (peek cs).toNat != 46 then .tok (.tok .DOT) [c] cs.tail
    else
      -- one rune read; DOT of the SECOND dot unless a third follows
      let r := cs.tail
      if (peek r).toNat != 46 then .tok (.tok .DOT) [cur r] r.tail
      else .tok (.tok .ELLIPSIS) "...".toList (cs.drop 3)
  else if c.toNat == 64 then scanAt cs
  else if c.toNat == 34 || c.toNat == 96 then
    match strBody c cs.tail with
    | some rest => .tok (.tok (if c.toNat == 34 then .STRING else .RAW)) (consumed cs rest) rest
    | none => .err
  else match single c with
    | some k => .tok (.tok k) [c] cs.tail
    | none =>
      if isIdL c then scanIdent cs
      else if isDigit c then scanNumber cs
      else illegal cs

/-- `NextToken` of the PINNED code (before fixes/C20-scanner-nul-rune.patch): `case 0: return EofToken` wherever the NUL
rune stands -/
def nextPinned (cs : List Char) : Res := if isNul (cur cs) then .eof else next cs

/-- a raw token with the line the scanner gives it (number of line feeds skipped as white space so far + 1) -/
structure RTok where
  k    : RK
  text : List Char
  line : Nat
  deriving DecidableEq, Repr

inductive ScanAll
  | ok (ts : List RTok)
  | err
  | stuck                       -- a token that reads nothing (`@` as the last rune): the real loop never ends
  deriving DecidableEq, Repr

/-- the token loop (`for { tok := NextToken(); if EOF break }`), fuel = number of runes + 1 -/
def scanLoop : Nat → Nat → List Char → List RTok → ScanAll
  | 0, _, _, _ => .stuck
  | f + 1, line, cs, acc =>
    let p := skipWS cs
    let line' := line + p.1
    match next p.2 with
    | .eof => .ok acc.reverse
    | .err => .err
    | .tok k t rest =>
      if rest.length < p.2.length then scanLoop f line' rest ({ k := k, text := t, line := line' } :: acc)
      else .stuck

def scanAll (cs : List Char) : ScanAll := scanLoop (cs.length + 1) 1 cs []

/-- what the parser sees (harness `scanAll`): comments left out, `nl` = the token's line is greater than the line of
the previous non-comment token, `cm` = the next raw token is a comment on the token's line -/
def toToks : Nat → List RTok → List Tok
  | _, [] => []
  | prev, t :: r =>
    match t.k with
    | .tok k =>
      let cm : Bool := match r with
        | n :: _ => (n.k == .comment || n.k == .document) && n.line == t.line
        | [] => false
      { k := k, s := String.ofList t.text, nl := decide (t.line > prev), cm := cm } :: toToks t.line r
    | _ => toToks prev r

end GoZero.C20.Scan
