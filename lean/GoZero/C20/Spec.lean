/-
C20 — specification side: the canonical "API description" of an AST (`desc`), equality of descriptions,
and the executable monitor used by the driver on the implementation's observations.

The description of a program is the dump of its *normalised* AST: statements that carry no content
(`info()`, `import ""`, `type ()`, `@server()`, `@doc ""`, a `()` body) are not part of it — that is the
documented behaviour of the formatter (format_test.go) — everything else is, in order, with every token text.
Comments and layout are not part of the description.
Core Lean only.
-/
import GoZero.C20.Model
namespace GoZero.C20

def q (s : String) : String := "'" ++ s

def dumpKVs (kvs : List KV) : List String :=
  "(" :: (kvs.foldr (fun kv acc => "kv" :: q kv.key :: q kv.val :: acc) [")"])

def dumpSKVs (kvs : List SKV) : List String :=
  "(" :: (kvs.foldr (fun kv acc => "kv" :: q kv.key :: q (svalText kv.val) :: acc) [")"])

mutual
  def dumpDT : DT → List String
    | .base t => ["base", q t]
    | .any t => ["any", q t]
    | .iface t => ["iface", q t]
    | .ptr d => "ptr" :: dumpDT d
    | .slice d => "slice" :: dumpDT d
    | .arr (some n) d => "arr" :: q n :: dumpDT d
    | .arr none d => "arr" :: q "..." :: dumpDT d
    | .map k v => "map" :: (dumpDT k ++ dumpDT v)
    | .struct fs => "struct" :: "{" :: (dumpFields fs ++ ["}"])
  def dumpFields : Fields → List String
    | .nil => []
    | .cons names ty tag rest =>
      "field" :: "(" :: (names.map q ++ ")" :: (dumpDT ty ++
        (match tag with | some g => ["tag", q g] | none => ["notag"]) ++ dumpFields rest))
end

def dumpTExpr (e : TExpr) : List String :=
  "texpr" :: q e.name :: (if e.assign then "=" else "_") :: dumpDT e.ty

def segText (s : Seg) : String :=
  "/" ++ (if s.colon then ":" else "") ++ s.head ++
    String.join (s.tail.map fun (d, a) => (if d then "-" else "") ++ a)

def pathText (p : Path) : String :=
  String.join (p.segs.map segText) ++ (if p.trail then "/" else "")

def dumpBody : Body → List String
  | .absent => ["nobody"]
  | .empty => ["body", "(", ")"]
  | .expr arr star v => "body" :: "(" :: ((if arr then ["[]"] else []) ++ (if star then ["*"] else []) ++ [q v, ")"])

def dumpItem (i : Item) : List String :=
  "item" :: ((match i.doc with
    | .none => ["nodoc"]
    | .lit s => ["doc", q s]
    | .group kvs => "docg" :: dumpKVs kvs) ++
   ["handler", q "@handler", q i.handler, "route", q i.method, q (pathText i.path)] ++ dumpBody i.req ++ dumpBody i.resp)

def dumpStmt : Stmt → List String
  | .syntaxS v => ["syntax", q v]
  | .info kvs => "info" :: dumpKVs kvs
  | .importLit v => ["import", q v]
  | .importGroup vs => "imports" :: "(" :: (vs.map q ++ [")"])
  | .typeLit e => "type" :: dumpTExpr e
  | .typeGroup es => "types" :: "(" :: (es.flatMap dumpTExpr ++ [")"])
  | .service at_ n api its =>
    "service" :: ((match at_ with | some kvs => "atserver" :: dumpSKVs kvs | none => []) ++
      q (n ++ (if api then "-api" else "")) :: "{" :: (its.flatMap dumpItem ++ ["}"]))

def dump (a : Api) : List String := a.flatMap dumpStmt

/-- the API description of a program -/
def desc (a : Api) : List String := dump (norm a)

/-- "parses to the same API description" -/
def sameDesc (a b : Api) : Bool := desc a == desc b

/-- concatenated token texts (layout-free comparison of two token streams) -/
def squash (ts : List Tok) : String := String.join (ts.map (·.s))

def sameToks (a b : List Tok) : Bool :=
  a.length == b.length && (a.zip b).all fun (x, y) => x.k == y.k && x.s == y.s && x.nl == y.nl

end GoZero.C20
