/-
C20 — property theorems.

Round 2: the full round trip is proven.
    theorem parse_print (a : Api) (h : WF a) : parse (print a) = some a
  the parser reads back exactly the AST whose tokens the formatter wrote, for every statement kind
  (`statement_roundtrip`; components: `datatype_roundtrip`, `struct_fields_roundtrip`, `type_expr_roundtrip`,
  `path_roundtrip`, `service_items_roundtrip`, `atserver_value_roundtrip`), and with it
    theorem format_correct (a : Api) (h : WF a) :
      ∃ b, parse (format a) = some b ∧ sameDesc a b = true ∧ format b = format a ∧ WF b
  formatting a well-formed program gives tokens that parse, to the same API description, and formatting the result
  again writes the same tokens (`format_preserves_description_wf`, `format_fixpoint_wf`: the `RoundTrips` hypothesis of
  round 1 is discharged by `parse_print` and `norm_wf`).
  * `norm_idempotent`, `format_idempotent_tokens` — what the formatter drops is dropped once (every program).
  * `WF` (every statement is one the parser can produce) is decidable; `format_correct_checked` is the form the driver
    uses: it evaluates `wfApiB` on every AST the model parser builds.
  Round 5c: `parse_wf` (INVERSION of the parser model: `parse ts = some a → WF a`, by induction over every parser
  function, ProofsInv.lean) makes the round trip unconditional: `parse_print_parsed`, `format_correct_parsed`.
  Everything about layout (comments, alignment, textual idempotence) is tested by the driver, not proven.
-/
import GoZero.C20.WfDec
import GoZero.C20.ProofsInv
namespace GoZero.C20

/-- every data type: the parser reads back what the printer wrote, whatever follows -/
theorem datatype_roundtrip (d : DT) (f : Nat) (rest : List Tok) (hw : wfDT d) (hf : szDT d ≤ f) :
    parseDT f (printDT d ++ rest) = some (d, rest) :=
  parseDT_print d f rest hw hf

example : (parseDT 9 (printDT (.map (.base "string") (.slice (.ptr (.base "User")))) ++ [tk .RAW "`json:\"m\"`"])).map
      (fun x => (dumpDT x.1, x.2))
    = some (dumpDT (.map (.base "string") (.slice (.ptr (.base "User")))), [tk .RAW "`json:\"m\"`"]) := by decide

/-- every struct field list, in front of the closing brace on its own line -/
theorem struct_fields_roundtrip (fs : Fields) (f : Nat) (c : Tok) (rest : List Tok) (hw : wfFields fs)
    (hf : szFields fs ≤ f) (hc : c.k = .RBRACE ∧ c.nl = true) :
    parseFields f (printFields fs ++ c :: rest) = some (fs, c :: rest) :=
  parseFields_print fs f c rest hw hf hc

/-- named field, two names + tag, embedded field, embedded pointer, nested struct -/
def sampleFields : Fields :=
  .cons ["Id", "Uid"] (.base "int64") (some "`json:\"id\"`")
    (.cons [] (.base "Base") none
      (.cons [] (.ptr (.base "Meta")) none
        (.cons ["Inner"] (.struct (.cons ["A"] (.any "any") none .nil)) none .nil)))

example : (parseFields 20 (printFields sampleFields ++ [tk .RBRACE "}" true])).map (fun x => (dumpFields x.1, x.2))
    = some (dumpFields sampleFields, [tk .RBRACE "}" true]) := by
  decide

/-- the layout matters: the same tokens on one line are NOT an embedded field (the parser looks at line breaks) -/
example : (parseFields 20 [tk .IDENT "Base", tk .RBRACE "}"]).isNone = true := by decide

theorem type_expr_roundtrip (e : TExpr) (f : Nat) (rest : List Tok) (hn : isKw e.name = false) (hw : wfDT e.ty)
    (hf : szDT e.ty ≤ f) : parseTExpr f (printTExpr e ++ rest) = some (e, rest) := by
  obtain ⟨n, as, ty⟩ := e
  simp only at hn hw hf
  have ih := parseDT_print ty f rest hw hf
  cases as with
  | true => simp [parseTExpr, printTExpr, tk, hn, ih]
  | false =>
    obtain ⟨q, tl, hq, _, _, _, hk, _⟩ := printDT_head ty
    rw [hq] at ih
    simp only [List.cons_append] at ih
    obtain ⟨k, s, nl, cm⟩ := q
    simp only at hk
    rcases hk with h | h | h | h | h <;> subst h <;>
      simp [parseTExpr, printTExpr, tk, hn, hq, ih]

/-- `type Name [=] T` as a statement: `parseStmt` reads back the declaration that `printStmt` wrote. -/
theorem type_decl_roundtrip (e : TExpr) (f : Nat) (rest : List Tok) (hn : isKw e.name = false)
    (hw : wfDT e.ty) (hf : szDT e.ty ≤ f) :
    parseStmt f (printStmt (.typeLit e) ++ rest) = some (.typeLit e, rest) := by
  have h := type_expr_roundtrip e f rest hn hw hf
  obtain ⟨n, as, ty⟩ := e
  simp only [printTExpr, tk, List.cons_append, List.append_assoc] at h
  simp [parseStmt, printStmt, printTExpr, tk, h]

example : (parse (print [.typeLit { name := "User", assign := false, ty := .struct sampleFields }])).map dump
    = some (dump [.typeLit { name := "User", assign := false, ty := .struct sampleFields }]) := by decide

/-- what the formatter drops is dropped once -/
theorem norm_idempotent (a : Api) : norm (norm a) = norm a := norm_idem a

/-- formatting the formatted AST writes the same tokens (every program, every statement kind) -/
theorem format_idempotent_tokens (a : Api) : format (norm a) = format a := by
  unfold format; rw [norm_idem]

/-- the parser reads back the AST whose tokens were printed -/
def RoundTrips (a : Api) : Prop := parse (print a) = some a

/-- formatting preserves the API description: the formatted tokens parse, to an AST with the same description -/
theorem format_preserves_description (a : Api) (h : RoundTrips (norm a)) :
    ∃ b, parse (format a) = some b ∧ sameDesc a b = true := by
  refine ⟨norm a, h, ?_⟩
  simp [sameDesc, desc, norm_idem]

/-- and formatting the re-parsed result writes the same tokens again -/
theorem format_fixpoint (a b : Api) (h : RoundTrips (norm a)) (hb : parse (format a) = some b) :
    format b = format a := by
  have : b = norm a := by
    unfold RoundTrips at h; unfold format at hb; rw [h] at hb; exact (Option.some.inj hb).symm
  subst this
  exact format_idempotent_tokens a

/-- a whole program (all statement kinds) on which `RoundTrips (norm a)` is checked by evaluation -/
def sampleApi : Api :=
  [.syntaxS "\"v1\"", .info [{ key := "title", vk := .STRING, val := "\"demo\"" }], .importLit "\"\"",
   .importGroup ["\"a.api\"", "\"b.api\""], .typeGroup [{ name := "Req", assign := false, ty := .struct sampleFields }],
   .service (some [{ key := "prefix", val := .slashed "v1" none [("user", some "api")] }, { key := "timeout", val := .lit .DURATION "3s" }])
     "user" true
     [{ doc := .lit "\"get user\"", handler := "getUser", method := "get",
        path := { segs := [{ colon := false, hk := .IDENT, head := "user", tail := [] }, { colon := true, hk := .IDENT, head := "id", tail := [(true, "x")] }], trail := false },
        req := .expr false false "Req", resp := .expr true true "Resp" },
      { doc := .none, handler := "ping", method := "post", path := { segs := [], trail := true }, req := .empty, resp := .absent }]]

example : (parse (print (norm sampleApi))).map dump = some (dump (norm sampleApi)) := by decide
example : (norm sampleApi).length + 1 = sampleApi.length := by decide

/-! ### round 2: the whole statement language -/

/-- a well-formed program: every statement is something the parser can produce (`wfStmt`: identifiers that are not
Go keywords, `STRING`/`RAW` values, HTTP methods, path segments that are not the word `returns`, ...) -/
def WF (a : Api) : Prop := ∀ s ∈ a, wfStmt s

/-- every statement kind: `parseStmt` reads back the statement `printStmt` wrote, whatever follows
(syntax, info, import, import group, type, type group, service with @server / @doc / @handler / routes) -/
theorem statement_roundtrip (s : Stmt) (f : Nat) (rest : List Tok) (hw : wfStmt s) (hf : szStmt s ≤ f) :
    parseStmt f (printStmt s ++ rest) = some (s, rest) :=
  parseStmt_print s f rest hw hf

/-- route paths (`/a/:id-x/`), in front of any token that ends a path -/
theorem path_roundtrip (p : Path) (f : Nat) (c : Tok) (rest : List Tok) (hw : wfPath p) (hf : szSegs p.segs ≤ f)
    (hc : stopsPath c = true) : parsePath f (printPath p ++ c :: rest) = some (p, c :: rest) :=
  parsePath_print p f c rest hw hf hc

/-- service items: `[@doc] @handler h  METHOD path [(req)] [returns (resp)]`, in front of the closing brace -/
theorem service_items_roundtrip (its : List Item) (f : Nat) (c : Tok) (rest : List Tok) (hw : ∀ i ∈ its, wfItem i)
    (hf : szItems its ≤ f) (hc : c.k = .RBRACE ∧ c.s ≠ "returns") :
    parseItems f (printItems its ++ c :: rest) = some (its, c :: rest) :=
  parseItems_print its f c rest hw hf hc

/-- `@server` values: literals, `a,b`, `a-b`, `/a-b/c`, `a/b` -/
theorem atserver_value_roundtrip (v : SVal) (f : Nat) (c : Tok) (rest : List Tok) (hw : wfSVal v) (hf : szSVal v ≤ f)
    (hc : nextKV c) : parseSVal f (printSVal v ++ c :: rest) = some (v, c :: rest) :=
  parseSVal_print v f c rest hw hf hc

/-- THE ROUND TRIP, full statement language: the parser reads back exactly the AST whose tokens the formatter wrote -/
theorem parse_print (a : Api) (h : WF a) : parse (print a) = some a := by
  unfold parse
  exact parseStmts_print a _ h (by have := szApi_le_len a h; omega)

theorem wf_roundTrips (a : Api) (h : WF a) : RoundTrips a := parse_print a h

theorem normDoc_wf (d : Doc) (h : wfDoc d) : wfDoc (normDoc d) := by
  cases d with
  | none => trivial
  | lit s => by_cases e : isZero s = true <;> simp [normDoc, e, wfDoc]
  | group kvs =>
    by_cases e : kvsEmpty kvs = true
    · simp [normDoc, e, wfDoc]
    · simp only [normDoc, e]; exact h

theorem normStmt_wf (s t : Stmt) (h : normStmt s = some t) (hw : wfStmt s) : wfStmt t := by
  cases s with
  | syntaxS v => simp [normStmt] at h; subst h; exact hw
  | info kvs =>
    by_cases e : kvsEmpty kvs = true <;> simp [normStmt, e] at h
    subst h; exact hw
  | importLit v =>
    by_cases e : isZero v = true <;> simp [normStmt, e] at h
    subst h; exact hw
  | importGroup vs =>
    by_cases e : vs.all isZero = true
    · simp [normStmt, e] at h
    · have h' : normStmt (Stmt.importGroup vs) = some (Stmt.importGroup vs) := by
        simp only [normStmt]; rw [if_neg e]
      rw [h'] at h; cases h; exact hw
  | typeLit e => simp [normStmt] at h; subst h; exact hw
  | typeGroup es =>
    by_cases e : es.isEmpty = true <;> simp [normStmt, e] at h
    subst h; exact hw
  | service at_ n api its =>
    simp only [normStmt, Option.some.injEq] at h
    subst h
    obtain ⟨hwa, hwi⟩ := hw
    refine ⟨?_, ?_⟩
    · intro kvs hk kv hkv
      cases at_ with
      | none => simp at hk
      | some k0 =>
        by_cases e : skvsEmpty k0 = true
        · simp [e] at hk
        · simp [e] at hk; subst hk; exact hwa k0 rfl kv hkv
    · intro i hi
      obtain ⟨j, hj, rfl⟩ := List.mem_map.mp hi
      obtain ⟨h1, h2, h3⟩ := hwi j hj
      exact ⟨normDoc_wf j.doc h1, h2, h3⟩

/-- what the formatter keeps of a well-formed program is well-formed -/
theorem norm_wf (a : Api) (h : WF a) : WF (norm a) := by
  intro t ht
  obtain ⟨s, hs, hst⟩ := List.mem_filterMap.mp ht
  exact normStmt_wf s t hst (h s hs)

/-- FORMATTING PRESERVES THE DESCRIPTION, without the round-trip hypothesis: for every well-formed program the
formatted tokens parse, to an AST with the same API description -/
theorem format_preserves_description_wf (a : Api) (h : WF a) :
    ∃ b, parse (format a) = some b ∧ sameDesc a b = true :=
  format_preserves_description a (parse_print (norm a) (norm_wf a h))

/-- AND IS A FIXPOINT: whatever the formatted tokens parse to is formatted to the same tokens again -/
theorem format_fixpoint_wf (a b : Api) (h : WF a) (hb : parse (format a) = some b) : format b = format a :=
  format_fixpoint a b (parse_print (norm a) (norm_wf a h)) hb

/-- both together, as the property states it: parse ∘ format is defined, keeps the description, and a second
formatting pass writes the same tokens -/
theorem format_correct (a : Api) (h : WF a) :
    ∃ b, parse (format a) = some b ∧ sameDesc a b = true ∧ format b = format a ∧ WF b := by
  have hr := parse_print (norm a) (norm_wf a h)
  refine ⟨norm a, hr, ?_, format_idempotent_tokens a, norm_wf a h⟩
  simp [sameDesc, desc, norm_idem]

/-- the form the driver uses: `wfApiB` is evaluated on every AST the model parser builds from a generated program -/
theorem format_correct_checked (a : Api) (h : wfApiB a = true) :
    ∃ b, parse (format a) = some b ∧ sameDesc a b = true ∧ format b = format a ∧ WF b :=
  format_correct a (wfApiB_sound a h)

/-- the sample program (all statement kinds, @server with a slashed value, paths with `:` and `-`) is well-formed:
the hypotheses of the theorems above are satisfiable by a non-trivial program -/
theorem sampleApi_wf : WF sampleApi := by
  intro s hs
  simp only [sampleApi, List.mem_cons, List.not_mem_nil, or_false] at hs
  rcases hs with rfl | rfl | rfl | rfl | rfl | rfl
  · trivial
  · intro kv hkv; simp at hkv; subst hkv; exact Or.inl rfl
  · trivial
  · trivial
  · intro e he
    simp at he; subst he
    refine ⟨by decide, ?_⟩
    simp [wfDT, sampleFields, wfFields, anonOk, isKw, keywords]
  · refine ⟨?_, ?_⟩
    · intro kvs hk kv hkv
      simp at hk; subst hk
      simp at hkv
      rcases hkv with rfl | rfl <;> simp [wfSVal]
    · intro i hi
      simp at hi
      rcases hi with rfl | rfl
      · refine ⟨trivial, by decide, ?_, Or.inl (by simp)⟩
        intro sg hsg
        simp at hsg
        rcases hsg with rfl | rfl <;> simp [wfSeg]
      · exact ⟨trivial, by decide, by simp, Or.inr rfl⟩

example : ∃ b, parse (format sampleApi) = some b ∧ sameDesc sampleApi b = true ∧ format b = format sampleApi ∧ WF b :=
  format_correct sampleApi sampleApi_wf


/-! ### round 5c: no per-program premise -/

/-- INVERSION: every AST the parser model builds is well-formed -/
theorem parse_wf (ts : List Tok) (a : Api) (h : parse ts = some a) : WF a := parse_inv ts a h

/-- THE ROUND TRIP WITHOUT PREMISE: whatever the parser accepted is read back from the tokens the formatter writes -/
theorem parse_print_parsed (ts : List Tok) (a : Api) (h : parse ts = some a) : parse (print a) = some a :=
  parse_print a (parse_wf ts a h)

/-- the property, for every token stream the parser accepts: the formatted tokens parse, to the same API description,
and a second pass writes the same tokens -/
theorem format_correct_parsed (ts : List Tok) (a : Api) (h : parse ts = some a) :
    ∃ b, parse (format a) = some b ∧ sameDesc a b = true ∧ format b = format a ∧ WF b :=
  format_correct a (parse_wf ts a h)

/-- `wfApiB` (what the driver evaluates) can never fail on an AST of the parser model -/
theorem parse_wfApiB (ts : List Tok) (a : Api) (h : parse ts = some a) : wfApiB a = true :=
  decide_eq_true (parse_wf ts a h)

example : ∃ a, parse (print sampleApi) = some a ∧ WF a :=
  ⟨sampleApi, parse_print sampleApi sampleApi_wf, parse_wf _ _ (parse_print sampleApi sampleApi_wf)⟩

/-- the colon form of a path item may be any identifier, `returns` included (the parser does not test it there) -/
example : wfSeg { colon := true, hk := .IDENT, head := "returns", tail := [] } := by simp [wfSeg]

end GoZero.C20
