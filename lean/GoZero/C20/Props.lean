/-
C20 — property theorems.

Full statement aimed at (kept here; NOT proven in full):
    theorem parse_print (a : Api) (h : WF a) : parse (print a) = some a
  i.e. the parser reads back exactly the AST whose tokens the formatter wrote, for every statement kind.
What is proven (`_partial` = the same statement restricted to a sub-grammar, nothing else weakened):
  * `datatype_roundtrip`, `struct_fields_roundtrip` — full strength for every data type (base / any / interface{} /
    pointer / slice / array / map / struct, nested to any depth) and every struct field list (named, several names,
    embedded, embedded pointer, tags), at every sufficient fuel and in front of any continuation;
  * `type_expr_roundtrip`, `type_decl_roundtrip_partial` — a `type Name [=] T` declaration through `parseStmt`;
  * `norm_idempotent`, `format_idempotent_tokens` — what the formatter drops is dropped once: formatting the
    formatted AST writes the same tokens (for every program, all statement kinds);
  * `format_preserves_description`, `format_fixpoint` — for every program whose normal form round-trips
    (`RoundTrips`), the formatted tokens parse to an AST with the same API description, and formatting that
    again writes the same tokens.
  Missing for the full statement: the round trip of info / import / syntax / service statements and of the
  statement list (`RoundTrips (norm a)` for all well-formed `a`); these are checked on generated programs by the
  driver (model parser = real parser on source and formatted text, model formatter = real formatter's tokens).
-/
import GoZero.C20.Proofs
namespace GoZero.C20

/-- every data type: the parser reads back what the printer wrote, whatever follows -/
theorem datatype_roundtrip (d : DT) (f : Nat) (rest : List Tok) (hw : wfDT d) (hf : szDT d ≤ f) :
    parseDT f (printDT d ++ rest) = some (d, rest) :=
  parseDT_print d f rest hw hf

example : (parseDT 9 (printDT (.map (.base "string") (.slice (.ptr (.base "User")))) ++ [tk .RAW "`json:\"m\"`"])).map
      (fun x => (dumpDT x.1, x.2))
    = some (dumpDT (.map (.base "string") (.slice (.ptr (.base "User")))), [tk .RAW "`json:\"m\"`"]) := by decide

/-- every struct field list, in front of the closing brace on its own line -/
theorem struct_fields_roundtrip (fs : Fields) (f : Nat) (c : Tok) (rest : List Tok) (hw : wfFields fs)
    (hf : szFields fs ≤ f) (hc : c.k = .RBRACE ∧ c.nl = true) :
    parseFields f (printFields fs ++ c :: rest) = some (fs, c :: rest) :=
  parseFields_print fs f c rest hw hf hc

/-- named field, two names + tag, embedded field, embedded pointer, nested struct -/
def sampleFields : Fields :=
  .cons ["Id", "Uid"] (.base "int64") (some "`json:\"id\"`")
    (.cons [] (.base "Base") none
      (.cons [] (.ptr (.base "Meta")) none
        (.cons ["Inner"] (.struct (.cons ["A"] (.any "any") none .nil)) none .nil)))

example : (parseFields 20 (printFields sampleFields ++ [tk .RBRACE "}" true])).map (fun x => (dumpFields x.1, x.2))
    = some (dumpFields sampleFields, [tk .RBRACE "}" true]) := by
  decide

/-- the layout matters: the same tokens on one line are NOT an embedded field (the parser looks at line breaks) -/
example : (parseFields 20 [tk .IDENT "Base", tk .RBRACE "}"]).isNone = true := by decide

theorem type_expr_roundtrip (e : TExpr) (f : Nat) (rest : List Tok) (hn : isKw e.name = false) (hw : wfDT e.ty)
    (hf : szDT e.ty ≤ f) : parseTExpr f (printTExpr e ++ rest) = some (e, rest) := by
  obtain ⟨n, as, ty⟩ := e
  simp only at hn hw hf
  have ih := parseDT_print ty f rest hw hf
  cases as with
  | true => simp [parseTExpr, printTExpr, tk, hn, ih]
  | false =>
    obtain ⟨q, tl, hq, _, _, _, hk, _⟩ := printDT_head ty
    rw [hq] at ih
    simp only [List.cons_append] at ih
    obtain ⟨k, s, nl, cm⟩ := q
    simp only at hk
    rcases hk with h | h | h | h | h <;> subst h <;>
      simp [parseTExpr, printTExpr, tk, hn, hq, ih]

/-- `type Name [=] T` as a statement: `parseStmt` reads back the declaration that `printStmt` wrote. -/
theorem type_decl_roundtrip_partial (e : TExpr) (f : Nat) (rest : List Tok) (hn : isKw e.name = false)
    (hw : wfDT e.ty) (hf : szDT e.ty ≤ f) :
    parseStmt f (printStmt (.typeLit e) ++ rest) = some (.typeLit e, rest) := by
  have h := type_expr_roundtrip e f rest hn hw hf
  obtain ⟨n, as, ty⟩ := e
  simp only [printTExpr, tk, List.cons_append, List.append_assoc] at h
  simp [parseStmt, printStmt, printTExpr, tk, h]

example : (parse (print [.typeLit { name := "User", assign := false, ty := .struct sampleFields }])).map dump
    = some (dump [.typeLit { name := "User", assign := false, ty := .struct sampleFields }]) := by decide

/-- what the formatter drops is dropped once -/
theorem norm_idempotent (a : Api) : norm (norm a) = norm a := norm_idem a

/-- formatting the formatted AST writes the same tokens (every program, every statement kind) -/
theorem format_idempotent_tokens (a : Api) : format (norm a) = format a := by
  unfold format; rw [norm_idem]

/-- the parser reads back the AST whose tokens were printed -/
def RoundTrips (a : Api) : Prop := parse (print a) = some a

/-- formatting preserves the API description: the formatted tokens parse, to an AST with the same description -/
theorem format_preserves_description (a : Api) (h : RoundTrips (norm a)) :
    ∃ b, parse (format a) = some b ∧ sameDesc a b = true := by
  refine ⟨norm a, h, ?_⟩
  simp [sameDesc, desc, norm_idem]

/-- and formatting the re-parsed result writes the same tokens again -/
theorem format_fixpoint (a b : Api) (h : RoundTrips (norm a)) (hb : parse (format a) = some b) :
    format b = format a := by
  have : b = norm a := by
    unfold RoundTrips at h; unfold format at hb; rw [h] at hb; exact (Option.some.inj hb).symm
  subst this
  exact format_idempotent_tokens a

/-- a whole program (all statement kinds) on which `RoundTrips (norm a)` is checked by evaluation -/
def sampleApi : Api :=
  [.syntaxS "\"v1\"", .info [{ key := "title", vk := .STRING, val := "\"demo\"" }], .importLit "\"\"",
   .importGroup ["\"a.api\"", "\"b.api\""], .typeGroup [{ name := "Req", assign := false, ty := .struct sampleFields }],
   .service (some [{ key := "prefix", val := .slashed "v1" none [("user", some "api")] }, { key := "timeout", val := .lit .DURATION "3s" }])
     "user" true
     [{ doc := .lit "\"get user\"", handler := "getUser", method := "get",
        path := { segs := [{ colon := false, hk := .IDENT, head := "user", tail := [] }, { colon := true, hk := .IDENT, head := "id", tail := [(true, "x")] }], trail := false },
        req := .expr false false "Req", resp := .expr true true "Resp" },
      { doc := .none, handler := "ping", method := "post", path := { segs := [], trail := true }, req := .empty, resp := .absent }]]

example : (parse (print (norm sampleApi))).map dump = some (dump (norm sampleApi)) := by decide
example : (norm sampleApi).length + 1 = sampleApi.length := by decide

end GoZero.C20
