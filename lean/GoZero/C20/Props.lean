/-
C20 — property theorems (placeholder stage; extended below).
-/
import GoZero.C20.Model
import GoZero.C20.Spec
namespace GoZero.C20

theorem format_nil : format [] = [] := rfl

end GoZero.C20
