/-
C20 — lemmas, part 2 (round 2): round trip of the statement-level parser and printer
(syntax, import, import group, info, type group, then the statement list).
-/
import GoZero.C20.Proofs
namespace GoZero.C20

/-! ### key/value lists (info, @doc groups) -/

def wfKV (kv : KV) : Prop := kv.vk = .STRING ∨ kv.vk = .RAW

theorem printKVs_head (kvs : List KV) (c : Tok) (rest : List Tok) (hc : c.k = .RPAREN) :
    ∃ q tl, printKVs kvs ++ c :: rest = q :: tl ∧ (q.k = .RPAREN ∨ q.k = .IDENT) := by
  cases kvs with
  | nil => exact ⟨c, rest, by simp [printKVs], Or.inl hc⟩
  | cons kv r => exact ⟨_, _, by simp [printKVs]; exact ⟨rfl, rfl⟩, Or.inr (by simp [tk])⟩

theorem parseKVs_print (kvs : List KV) : ∀ (f : Nat) (c : Tok) (rest : List Tok),
    (∀ kv ∈ kvs, wfKV kv) → kvs.length + 1 ≤ f → c.k = .RPAREN →
    parseKVs f (printKVs kvs ++ c :: rest) = some (kvs, c :: rest) := by
  induction kvs with
  | nil =>
    intro f c rest _ hf hc
    obtain ⟨f, rfl⟩ : ∃ g, f = g + 1 := ⟨f - 1, by simp at hf; omega⟩
    simp [parseKVs, printKVs, hc]
  | cons kv r ih =>
    intro f c rest hw hf hc
    obtain ⟨f, rfl⟩ : ∃ g, f = g + 1 := ⟨f - 1, by simp at hf; omega⟩
    have hkv : wfKV kv := hw kv (by simp)
    have ih' := ih f c rest (fun x hx => hw x (by simp [hx])) (by simp at hf; omega) hc
    obtain ⟨q, tl, hq, hk⟩ := printKVs_head r c rest hc
    rw [hq] at ih'
    unfold wfKV at hkv
    simp [parseKVs, printKVs, tk, hq, hkv, hk, ih']

/-! ### import groups -/

theorem printImports_head (vs : List String) (c : Tok) (rest : List Tok) (hc : c.k = .RPAREN) :
    ∃ q tl, printImports vs ++ c :: rest = q :: tl ∧ (q.k = .RPAREN ∨ q.k = .STRING) := by
  cases vs with
  | nil => exact ⟨c, rest, by simp [printImports], Or.inl hc⟩
  | cons v r => exact ⟨_, _, by simp [printImports]; exact ⟨rfl, rfl⟩, Or.inr (by simp [tk])⟩

theorem parseImports_print (vs : List String) : ∀ (f : Nat) (c : Tok) (rest : List Tok),
    vs.length + 1 ≤ f → c.k = .RPAREN →
    parseImports f (printImports vs ++ c :: rest) = some (vs, c :: rest) := by
  induction vs with
  | nil =>
    intro f c rest hf hc
    obtain ⟨f, rfl⟩ : ∃ g, f = g + 1 := ⟨f - 1, by simp at hf; omega⟩
    simp [parseImports, printImports, hc]
  | cons v r ih =>
    intro f c rest hf hc
    obtain ⟨f, rfl⟩ : ∃ g, f = g + 1 := ⟨f - 1, by simp at hf; omega⟩
    have ih' := ih f c rest (by simp at hf; omega) hc
    obtain ⟨q, tl, hq, hk⟩ := printImports_head r c rest hc
    rw [hq] at ih'
    simp [parseImports, printImports, tk, hq, hk, ih']

/-! ### type groups -/

def wfTExpr (e : TExpr) : Prop := isKw e.name = false ∧ wfDT e.ty

def szTExprs : List TExpr → Nat
  | [] => 1
  | e :: r => szDT e.ty + szTExprs r + 1

theorem markNl_printTExpr (e : TExpr) :
    markNl (printTExpr e) = tk .IDENT e.name true :: ((if e.assign then [tk .ASSIGN "="] else []) ++ printDT e.ty) := by
  simp [printTExpr, markNl, tk]

/-- `parseTExpr` does not look at the line of the name: the round trip also holds for an expression that starts a line -/
theorem parseTExpr_markNl (e : TExpr) (f : Nat) (rest : List Tok) (hw : wfTExpr e) (hf : szDT e.ty ≤ f) :
    parseTExpr f (markNl (printTExpr e) ++ rest) = some (e, rest) := by
  obtain ⟨n, as, ty⟩ := e
  obtain ⟨hn, hty⟩ := hw
  simp only at hn hty hf
  have ih := parseDT_print ty f rest hty hf
  rw [markNl_printTExpr]
  cases as with
  | true => simp [parseTExpr, tk, hn, ih]
  | false =>
    obtain ⟨q, tl, hq, _, _, _, hk, _⟩ := printDT_head ty
    rw [hq] at ih
    simp only [List.cons_append] at ih
    obtain ⟨k, s, nl, cm⟩ := q
    simp only at hk
    rcases hk with h | h | h | h | h <;> subst h <;>
      simp [parseTExpr, tk, hn, hq, ih]

theorem printTExprs_head (es : List TExpr) (c : Tok) (rest : List Tok) (hc : c.k = .RPAREN) :
    ∃ q tl, printTExprs es ++ c :: rest = q :: tl ∧ (q.k = .RPAREN ∨ q.k = .IDENT) := by
  cases es with
  | nil => exact ⟨c, rest, by simp [printTExprs], Or.inl hc⟩
  | cons e r =>
    refine ⟨tk .IDENT e.name true,
      ((if e.assign then [tk .ASSIGN "="] else []) ++ printDT e.ty) ++ (printTExprs r ++ c :: rest), ?_, Or.inr (by simp [tk])⟩
    simp [printTExprs, markNl_printTExpr]

theorem parseTExprs_print (es : List TExpr) : ∀ (f : Nat) (c : Tok) (rest : List Tok),
    (∀ e ∈ es, wfTExpr e) → szTExprs es ≤ f → c.k = .RPAREN →
    parseTExprs f (printTExprs es ++ c :: rest) = some (es, c :: rest) := by
  induction es with
  | nil =>
    intro f c rest _ hf hc
    obtain ⟨f, rfl⟩ : ∃ g, f = g + 1 := ⟨f - 1, by simp [szTExprs] at hf; omega⟩
    simp [parseTExprs, printTExprs, hc]
  | cons e r ih =>
    intro f c rest hw hf hc
    obtain ⟨f, rfl⟩ : ∃ g, f = g + 1 := ⟨f - 1, by simp [szTExprs] at hf; omega⟩
    have he : wfTExpr e := hw e (by simp)
    have ih' := ih f c rest (fun x hx => hw x (by simp [hx])) (by simp [szTExprs] at hf; omega) hc
    have h1 := parseTExpr_markNl e (f + 1) (printTExprs r ++ c :: rest) he (by simp [szTExprs] at hf; omega)
    have hcons : printTExprs (e :: r) ++ c :: rest = markNl (printTExpr e) ++ (printTExprs r ++ c :: rest) := by
      simp [printTExprs]
    rw [hcons]
    -- the first token is the name
    have hhead : markNl (printTExpr e) ++ (printTExprs r ++ c :: rest)
        = tk .IDENT e.name true :: (((if e.assign then [tk .ASSIGN "="] else []) ++ printDT e.ty) ++ (printTExprs r ++ c :: rest)) := by
      rw [markNl_printTExpr]; simp
    rw [hhead] at h1 ⊢
    simp only [parseTExprs]
    simp [tk] at h1 ⊢
    simp [h1, ih']

/-! ### size bounds: the fuel `parse` starts with (twice the number of tokens) is enough -/

mutual
  theorem szDT_le_len : ∀ d : DT, szDT d + 1 ≤ 2 * (printDT d).length
    | .base _ => by simp [szDT, printDT]
    | .any _ => by simp [szDT, printDT]
    | .iface _ => by simp [szDT, printDT]
    | .ptr d => by have := szDT_le_len d; simp [szDT, printDT]; omega
    | .slice d => by have := szDT_le_len d; simp [szDT, printDT]; omega
    | .arr (some _) d => by have := szDT_le_len d; simp [szDT, printDT]; omega
    | .arr none d => by have := szDT_le_len d; simp [szDT, printDT]; omega
    | .map k v => by
      have := szDT_le_len k; have := szDT_le_len v
      simp [szDT, printDT]; omega
    | .struct .nil => by simp [szDT, szFields, printDT]
    | .struct (.cons ns ty tag r) => by
      have := szFields_le_len (.cons ns ty tag r)
      simp [szDT, printDT] at *; omega
  theorem szFields_le_len : ∀ fs : Fields, szFields fs ≤ 2 * (printFields fs).length + 2
    | .nil => by simp [szFields, printFields]
    | .cons [] ty tag r => by
      have := szDT_le_len ty; have := szFields_le_len r
      have hm : (markNl (printDT ty)).length = (printDT ty).length := by
        cases h : printDT ty <;> simp [markNl]
      rw [printFields_cons_nil]
      simp [szFields, hm]; omega
    | .cons (n :: ns) ty tag r => by
      have := szDT_le_len ty; have := szFields_le_len r
      have hn : (printNames ns).length = 2 * ns.length := by
        induction ns with
        | nil => rfl
        | cons m ms ih => simp [printNames, ih]; omega
      rw [printFields_cons_cons]
      simp [szFields, hn]; omega
end

end GoZero.C20
