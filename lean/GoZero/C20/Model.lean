/-
C20 — token-level model of goctl's `.api` parser and formatter
(tools/goctl/pkg/parser/api/{parser/parser.go, ast/*.go}).

* `Tok`     : what the parser sees of a scanner token: kind, text, whether it starts on a later line than the
              previous token (`nl`, the only use the parser makes of positions: `parseElemExpr`), and whether a
              comment follows it on its own line (`cm`, only used by `parsePathExpr`).
* `Api`     : the AST (token texts only; comments are layout).
* `parse`   : the recursive-descent parser, function by function as in parser.go (`none` = an error is reported).
* `norm`    : what the `Format` methods drop (statements without content, empty `()` bodies).
* `print`   : the token stream the `Format` methods write (one statement / field / route per line).
Core Lean only.
-/
namespace GoZero.C20

inductive K
  | ILLEGAL | IDENT | INT | DURATION | STRING | RAW | SUB | MUL | QUO | ASSIGN
  | LPAREN | LBRACK | LBRACE | COMMA | DOT | RPAREN | RBRACE | RBRACK | SEMICOLON | COLON | ELLIPSIS
  | AT_DOC | AT_HANDLER | AT_SERVER | ANY | OTHER
  deriving DecidableEq, Repr, Inhabited

structure Tok where
  k  : K
  s  : String
  nl : Bool := false
  cm : Bool := false
  deriving DecidableEq, Repr, Inhabited

/-- token.go `keywords` (the Go keywords; `LookupKeyword`). -/
def keywords : List String :=
  ["break", "case", "chan", "const", "continue", "default", "defer", "else", "fallthrough", "for",
   "func", "go", "goto", "if", "import", "interface", "map", "package", "range", "return",
   "select", "struct", "switch", "type", "var"]

def isKw (s : String) : Bool := keywords.contains s

/-- token.go `HttpMethods`. -/
def httpMethods : List String := ["get", "head", "post", "put", "patch", "delete", "connect", "options", "trace"]

def isMethod (s : String) : Bool := httpMethods.contains s

/-! ### AST -/

mutual
  inductive DT
    | base (t : String)
    | any (t : String)
    | iface (t : String)
    | ptr (d : DT)
    | slice (d : DT)
    | arr (len : Option String) (d : DT)      -- `none` = `[...]`
    | map (k v : DT)
    | struct (fs : Fields)
  inductive Fields
    | nil
    | cons (names : List String) (ty : DT) (tag : Option String) (rest : Fields)
end

structure KV where
  key : String
  vk  : K            -- STRING or RAW
  val : String
  deriving DecidableEq, Repr

/-- one `/`-segment of a route path: `[:]head(-ident | ident)*` -/
structure Seg where
  colon : Bool
  hk    : K          -- IDENT or INT
  head  : String
  tail  : List (Bool × String)     -- (preceded by `-`, ident)
  deriving DecidableEq, Repr

structure Path where
  segs  : List Seg
  trail : Bool       -- a final `/`
  deriving DecidableEq, Repr

inductive Body
  | absent
  | empty
  | expr (arr star : Bool) (v : String)
  deriving DecidableEq, Repr

/-- value of an `@server` key -/
inductive SVal
  | lit (k : K) (s : String)                                         -- DURATION / INT / STRING
  | commas (a : String) (rest : List String)                         -- a,b,c   (rest ≠ [])
  | dashes (a : String) (rest : List String)                         -- a-b-c   (rest ≠ [])
  | slashed (a : String) (b : Option String) (segs : List (String × Option String))   -- /a[-b](/c[-d])*
  | ident (a : String) (segs : List (String × Option String))        -- a(/c[-d])*
  deriving DecidableEq, Repr

structure SKV where
  key : String
  val : SVal
  deriving DecidableEq, Repr

inductive Doc
  | none
  | lit (s : String)
  | group (kvs : List KV)
  deriving DecidableEq, Repr

structure Item where
  doc     : Doc
  handler : String
  method  : String
  path    : Path
  req     : Body
  resp    : Body
  deriving DecidableEq, Repr

structure TExpr where
  name   : String
  assign : Bool
  ty     : DT

inductive Stmt
  | syntaxS (v : String)
  | info (kvs : List KV)
  | importLit (v : String)
  | importGroup (vs : List String)
  | typeLit (e : TExpr)
  | typeGroup (es : List TExpr)
  | service (atServer : Option (List SKV)) (name : String) (api : Bool) (items : List Item)

abbrev Api := List Stmt

/-! ### Parser (parser.go). Every function takes the not yet consumed tokens (head = `peekTok`). -/

def stopsPath (t : Tok) : Bool :=
  t.k == .LPAREN || t.s == "returns" || t.k == .AT_DOC || t.k == .AT_HANDLER || t.k == .SEMICOLON || t.k == .RBRACE

/-- end of `parseElemExpr`: `notExpectPeekToken(RAW_STRING, MUL, IDENT, RBRACE)` and the optional tag -/
def fieldTail : List Tok → Option (Option String × List Tok)
  | [] => none
  | q :: r =>
    if q.k = .RAW then some (some q.s, r)
    else if q.k = .MUL ∨ q.k = .IDENT ∨ q.k = .RBRACE then some (none, q :: r)
    else none

/-- `p.peekTok.Line() > identNode.Token.Line() || p.peekTokenIs(token.RAW_STRING)`: the identifier is an embedded field -/
def anonNext : List Tok → Bool
  | [] => false
  | p :: _ => p.nl || p.k == .RAW

/-- `notExpectPeekToken(COMMA, IDENT, LBRACK, ANY, MUL, LBRACE)` after a field name -/
def namedNext : List Tok → Bool
  | [] => false
  | p :: _ => p.k == .COMMA || p.k == .IDENT || p.k == .LBRACK || p.k == .ANY || p.k == .MUL || p.k == .LBRACE

mutual
  /-- `parseDataType` -/
  def parseDT : Nat → List Tok → Option (DT × List Tok)
    | 0, _ => none
    | _, [] => none
    | f + 1, t :: r =>
      if t.s = "any" then some (.any t.s, r)
      else match t.k with
        | .LBRACE =>
          match parseFields f r with
          | some (fs, { k := .RBRACE, .. } :: r') => some (.struct fs, r')
          | _ => none
        | .IDENT =>
          if t.s = "map" then
            match r with
            | { k := .LBRACK, .. } :: r1 =>
              match parseDT f r1 with
              | some (kd, { k := .RBRACK, .. } :: r2) =>
                match parseDT f r2 with
                | some (vd, r3) => some (.map kd vd, r3)
                | none => none
              | _ => none
            | _ => none
          else if isKw t.s then none
          else some (.base t.s, r)
        | .LBRACK =>
          match r with
          | { k := .RBRACK, .. } :: r1 =>
            match parseDT f r1 with
            | some (d, r2) => some (.slice d, r2)
            | none => none
          | { k := .INT, s := n, .. } :: { k := .RBRACK, .. } :: r1 =>
            match parseDT f r1 with
            | some (d, r2) => some (.arr (some n) d, r2)
            | none => none
          | { k := .ELLIPSIS, .. } :: { k := .RBRACK, .. } :: r1 =>
            match parseDT f r1 with
            | some (d, r2) => some (.arr none d, r2)
            | none => none
          | _ => none
        | .ANY => some (.iface t.s, r)
        | .MUL =>
          match r with
          | p :: _ =>
            if p.k = .IDENT ∨ p.k = .LBRACK ∨ p.k = .ANY ∨ p.k = .MUL then
              match parseDT f r with
              | some (d, r1) => some (.ptr d, r1)
              | none => none
            else none
          | [] => none
        | _ => none
  /-- `parseElemExprList` + `parseElemExpr`: stops in front of the closing `}`. -/
  def parseFields : Nat → List Tok → Option (Fields × List Tok)
    | 0, _ => none
    | _, [] => none
    | f + 1, t :: r =>
      if t.k = .RBRACE then some (.nil, t :: r)
      else if t.k = .MUL then
        -- anonymous pointer field
        match r with
        | { k := .IDENT, s := n, .. } :: r1 =>
          match fieldTail r1 with
          | some (tag, r2) =>
            match parseFields f r2 with
            | some (rest, r3) => some (.cons [] (.ptr (if n = "any" then .any n else .base n)) tag rest, r3)
            | none => none
          | none => none
        | _ => none
      else if t.k = .IDENT then
        if isKw t.s then none
        else if anonNext r then
          -- anonymous field
          match fieldTail r with
          | some (tag, r2) =>
            match parseFields f r2 with
            | some (rest, r3) => some (.cons [] (if t.s = "any" then .any t.s else .base t.s) tag rest, r3)
            | none => none
          | none => none
        else if namedNext r then
          match parseNames f r with
          | some (more, r1) =>
            match parseDT f r1 with
            | some (ty, r2) =>
              match fieldTail r2 with
              | some (tag, r3) =>
                match parseFields f r3 with
                | some (rest, r4) => some (.cons (t.s :: more) ty tag rest, r4)
                | none => none
              | none => none
            | none => none
          | none => none
        else none
      else none
  /-- the `for p.peekTokenIs(token.COMMA)` loop of `parseElemExpr` -/
  def parseNames : Nat → List Tok → Option (List String × List Tok)
    | 0, _ => none
    | f + 1, { k := .COMMA, .. } :: { k := .IDENT, s := n, .. } :: r =>
      if isKw n then none
      else match parseNames f r with
        | some (ns, r') => some (n :: ns, r')
        | none => none
    | _ + 1, { k := .COMMA, .. } :: _ => none
    | _ + 1, ts => some ([], ts)
end

/-- `parseTypeExpr` -/
def parseTExpr (f : Nat) : List Tok → Option (TExpr × List Tok)
  | { k := .IDENT, s := n, .. } :: r =>
    if isKw n then none
    else match r with
      | { k := .ASSIGN, .. } :: r1 =>
        match parseDT f r1 with
        | some (d, r2) => some ({ name := n, assign := true, ty := d }, r2)
        | none => none
      | _ =>
        match parseDT f r with
        | some (d, r2) => some ({ name := n, assign := false, ty := d }, r2)
        | none => none
  | _ => none

/-- `parseTypeExprList`: stops in front of `)`. -/
def parseTExprs : Nat → List Tok → Option (List TExpr × List Tok)
  | 0, _ => none
  | _, [] => none
  | f + 1, t :: r =>
    if t.k = .RPAREN then some ([], t :: r)
    else if t.k = .IDENT then
      match parseTExpr (f + 1) (t :: r) with
      | some (e, r1) =>
        match parseTExprs f r1 with
        | some (es, r2) => some (e :: es, r2)
        | none => none
      | none => none
    else none

/-- `parseKVExpression` loop of info / @doc groups: stops in front of `)`. -/
def parseKVs : Nat → List Tok → Option (List KV × List Tok)
  | 0, _ => none
  | _, [] => none
  | f + 1, t :: r =>
    if t.k = .RPAREN then some ([], t :: r)
    else match t :: r with
      | { k := .IDENT, s := key, .. } :: { k := .COLON, .. } :: v :: r1 =>
        if v.k = .STRING ∨ v.k = .RAW then
          match r1 with
          | q :: _ =>
            if q.k = .RPAREN ∨ q.k = .IDENT then
              match parseKVs f r1 with
              | some (kvs, r2) => some ({ key := key, vk := v.k, val := v.s } :: kvs, r2)
              | none => none
            else none
          | [] => none
        else none
      | _ => none

/-- import group values: stops in front of `)`. -/
def parseImports : Nat → List Tok → Option (List String × List Tok)
  | 0, _ => none
  | _, [] => none
  | f + 1, t :: r =>
    if t.k = .RPAREN then some ([], t :: r)
    else if t.k = .STRING then
      match r with
      | q :: _ =>
        if q.k = .RPAREN ∨ q.k = .STRING then
          match parseImports f r with
          | some (vs, r1) => some (t.s :: vs, r1)
          | none => none
        else none
      | [] => none
    else none

/-- `(/ IDENT [- IDENT])*` of `parseAtServerKVExpression` -/
def parseSlashSegs : Nat → List Tok → Option (List (String × Option String) × List Tok)
  | 0, _ => none
  | f + 1, { k := .QUO, .. } :: { k := .IDENT, s := a, .. } :: { k := .SUB, .. } :: { k := .IDENT, s := b, .. } :: r =>
    match parseSlashSegs f r with
    | some (ss, r') => some ((a, some b) :: ss, r')
    | none => none
  | _ + 1, { k := .QUO, .. } :: { k := .IDENT, .. } :: { k := .SUB, .. } :: _ => none
  | f + 1, { k := .QUO, .. } :: { k := .IDENT, s := a, .. } :: r =>
    match parseSlashSegs f r with
    | some (ss, r') => some ((a, none) :: ss, r')
    | none => none
  | _ + 1, { k := .QUO, .. } :: _ => none
  | _ + 1, ts => some ([], ts)

/-- `(sep IDENT)*` for sep = COMMA / SUB -/
def parseSepIdents (sep : K) : Nat → List Tok → Option (List String × List Tok)
  | 0, _ => none
  | f + 1, t :: r =>
    if t.k = sep then
      match r with
      | { k := .IDENT, s := a, .. } :: r1 =>
        match parseSepIdents sep f r1 with
        | some (xs, r2) => some (a :: xs, r2)
        | none => none
      | _ => none
    else some ([], t :: r)
  | _ + 1, [] => some ([], [])

/-- value part of `parseAtServerKVExpression` -/
def parseSVal (f : Nat) : List Tok → Option (SVal × List Tok)
  | [] => none
  | t :: r =>
    match t.k with
    | .QUO =>
      match r with
      | { k := .IDENT, s := a, .. } :: { k := .SUB, .. } :: { k := .IDENT, s := b, .. } :: r1 =>
        match parseSlashSegs f r1 with
        | some (ss, r2) => some (.slashed a (some b) ss, r2)
        | none => none
      | { k := .IDENT, .. } :: { k := .SUB, .. } :: _ => none
      | { k := .IDENT, s := a, .. } :: r1 =>
        match parseSlashSegs f r1 with
        | some (ss, r2) => some (.slashed a none ss, r2)
        | none => none
      | _ => none
    | .DURATION => some (.lit .DURATION t.s, r)
    | .INT => some (.lit .INT t.s, r)
    | .STRING => some (.lit .STRING t.s, r)
    | .IDENT =>
      match r with
      | { k := .COMMA, .. } :: _ =>
        match parseSepIdents .COMMA f r with
        | some (xs, r1) => some (.commas t.s xs, r1)
        | none => none
      | { k := .SUB, .. } :: _ =>
        match parseSepIdents .SUB f r with
        | some (xs, r1) => some (.dashes t.s xs, r1)
        | none => none
      | _ =>
        match parseSlashSegs f r with
        | some (ss, r1) => some (.ident t.s ss, r1)
        | none => none
    | _ => none

/-- key/value loop of `parseAtServerStmt`: stops in front of `)`. -/
def parseSKVs : Nat → List Tok → Option (List SKV × List Tok)
  | 0, _ => none
  | _, [] => none
  | f + 1, t :: r =>
    if t.k = .RPAREN then some ([], t :: r)
    else match t :: r with
      | { k := .IDENT, s := key, .. } :: { k := .COLON, .. } :: r1 =>
        match parseSVal f r1 with
        | some (v, r2) =>
          match r2 with
          | q :: _ =>
            if q.k = .RPAREN ∨ q.k = .IDENT then
              match parseSKVs f r2 with
              | some (kvs, r3) => some ({ key := key, val := v } :: kvs, r3)
              | none => none
            else none
          | [] => none
        | none => none
      | _ => none

/-- the loop of `parsePathItem` after the first IDENT/INT -/
def parseSegTail : Nat → List Tok → Option (List (Bool × String) × List Tok)
  | 0, _ => none
  | _ + 1, [] => some ([], [])
  | f + 1, t :: r =>
    if t.k = .QUO ∨ stopsPath t then some ([], t :: r)
    else if t.k = .SUB then
      match r with
      | { k := .IDENT, s := a, .. } :: r1 =>
        match parseSegTail f r1 with
        | some (xs, r2) => some ((true, a) :: xs, r2)
        | none => none
      | _ => none
    else if t.k = .IDENT then
      match parseSegTail f r with
      | some (xs, r2) => some ((false, t.s) :: xs, r2)
      | none => none
    else none

/-- `parsePathExpr` (with the empty-path check): segments until a token that ends the path. -/
def parseSegs : Nat → List Tok → Option (List Seg × Bool × List Tok)
  | 0, _ => none
  | _, [] => none
  | f + 1, t :: r =>
    if stopsPath t then some ([], false, t :: r)
    else if t.k = .QUO then
      match r with
      | [] => none
      | p :: r1 =>
        if stopsPath p then some ([], true, p :: r1)
        else if t.cm then none
        else
          let go (colon : Bool) (h : Tok) (rest : List Tok) : Option (List Seg × Bool × List Tok) :=
            if h.k = .IDENT ∨ h.k = .INT then
              match parseSegTail f rest with
              | some (tl, r2) =>
                match r2 with
                | q :: _ =>
                  if q.k = .QUO ∨ stopsPath q then
                    match parseSegs f r2 with
                    | some (ss, tr, r3) => some ({ colon := colon, hk := h.k, head := h.s, tail := tl } :: ss, tr, r3)
                    | none => none
                  else none
                | [] => none
              | none => none
            else none
          if p.k = .COLON then
            match r1 with
            | h :: r2 => go true h r2
            | [] => none
          else go false p r1
    else none

def parsePath (f : Nat) (ts : List Tok) : Option (Path × List Tok) :=
  match parseSegs f ts with
  | some (ss, tr, r) => if ss.isEmpty && !tr then none else some ({ segs := ss, trail := tr }, r)
  | none => none

/-- `parseBodyStmt` (peek is `(`) -/
def parseBody : List Tok → Option (Body × List Tok)
  | { k := .LPAREN, .. } :: { k := .RPAREN, .. } :: r => some (.empty, r)
  | { k := .LPAREN, .. } :: { k := .LBRACK, .. } :: { k := .RBRACK, .. } :: { k := .MUL, .. } :: { k := .IDENT, s := v, .. } :: { k := .RPAREN, .. } :: r =>
    some (.expr true true v, r)
  | { k := .LPAREN, .. } :: { k := .LBRACK, .. } :: { k := .RBRACK, .. } :: { k := .IDENT, s := v, .. } :: { k := .RPAREN, .. } :: r =>
    some (.expr true false v, r)
  | { k := .LPAREN, .. } :: { k := .MUL, .. } :: { k := .IDENT, s := v, .. } :: { k := .RPAREN, .. } :: r =>
    some (.expr false true v, r)
  | { k := .LPAREN, .. } :: { k := .IDENT, s := v, .. } :: { k := .RPAREN, .. } :: r =>
    some (.expr false false v, r)
  | _ => none

def endsRoute (t : Tok) : Bool := t.k == .AT_DOC || t.k == .AT_HANDLER || t.k == .RBRACE

/-- the part of `parseRouteStmt` after the path -/
def parseRouteTail : List Tok → Option (Body × Body × List Tok)
  | [] => none
  | t :: r =>
    if endsRoute t then some (.absent, .absent, t :: r)
    else if t.k = .SEMICOLON then some (.absent, .absent, r)
    else if t.s = "returns" ∨ t.k = .LPAREN then
      let reqR : Option (Body × List Tok) :=
        if t.k = .LPAREN then parseBody (t :: r) else some (.absent, t :: r)
      match reqR with
      | none => none
      | some (req, r1) =>
        match r1 with
        | [] => none
        | u :: r2 =>
          if u.s = "returns" then
            match parseBody r2 with
            | some (resp, r3) =>
              match r3 with
              | { k := .SEMICOLON, .. } :: r4 => some (req, resp, r4)
              | _ => some (req, resp, r3)
            | none => none
          else if endsRoute u then some (req, .absent, r1)
          else if u.k = .SEMICOLON then some (req, .absent, r2)
          else none
    else none

/-- optional `@doc` of `parseServiceItemStmt` -/
def parseDoc (f : Nat) : List Tok → Option (Doc × List Tok)
  | { k := .AT_DOC, .. } :: { k := .STRING, s := v, .. } :: r => some (.lit v, r)
  | { k := .AT_DOC, .. } :: { k := .LPAREN, .. } :: r =>
    match parseKVs f r with
    | some (kvs, { k := .RPAREN, .. } :: r1) => some (.group kvs, r1)
    | _ => none
  | { k := .AT_DOC, .. } :: _ => none
  | ts => some (.none, ts)

/-- `parseServiceItemsStmt`: stops in front of `}`. -/
def parseItems : Nat → List Tok → Option (List Item × List Tok)
  | 0, _ => none
  | _, [] => none
  | f + 1, t :: r =>
    if t.k = .RBRACE then some ([], t :: r)
    else match parseDoc f (t :: r) with
      | none => none
      | some (doc, r1) =>
        match r1 with
        | { k := .AT_HANDLER, .. } :: { k := .IDENT, s := h, .. } :: m :: r2 =>
          if isMethod m.s then
            match parsePath f r2 with
            | some (p, r3) =>
              match parseRouteTail r3 with
              | some (req, resp, r4) =>
                match r4 with
                | q :: _ =>
                  if endsRoute q then
                    match parseItems f r4 with
                    | some (its, r5) =>
                      some ({ doc := doc, handler := h, method := m.s, path := p, req := req, resp := resp } :: its, r5)
                    | none => none
                  else none
                | [] => none
              | none => none
            | none => none
          else none
        | _ => none

/-- `parseService` after the optional `@server (...)`: peek is `service`. -/
def parseServiceBody (f : Nat) (at_ : Option (List SKV)) : List Tok → Option (Stmt × List Tok)
  | sv :: { k := .IDENT, s := n, .. } :: r =>
    if sv.s = "service" then
      let nameR : Option (Bool × List Tok) :=
        match r with
        | { k := .SUB, .. } :: a :: r1 => if a.s = "api" then some (true, r1) else none
        | { k := .SUB, .. } :: [] => none
        | _ => some (false, r)
      match nameR with
      | some (api, { k := .LBRACE, .. } :: r1) =>
        match parseItems f r1 with
        | some (its, { k := .RBRACE, .. } :: r2) => some (.service at_ n api its, r2)
        | _ => none
      | _ => none
    else none
  | _ => none

/-- `parseStmt` -/
def parseStmt (f : Nat) : List Tok → Option (Stmt × List Tok)
  | [] => none
  | t :: r =>
    match t.k with
    | .IDENT =>
      if t.s = "syntax" then
        match r with
        | { k := .ASSIGN, .. } :: { k := .STRING, s := v, .. } :: r1 => some (.syntaxS v, r1)
        | _ => none
      else if t.s = "info" then
        match r with
        | { k := .LPAREN, .. } :: r1 =>
          match parseKVs f r1 with
          | some (kvs, { k := .RPAREN, .. } :: r2) => some (.info kvs, r2)
          | _ => none
        | _ => none
      else if t.s = "service" then parseServiceBody f none (t :: r)
      else if t.s = "type" then
        match r with
        | { k := .LPAREN, .. } :: r1 =>
          match parseTExprs f r1 with
          | some (es, { k := .RPAREN, .. } :: r2) => some (.typeGroup es, r2)
          | _ => none
        | { k := .IDENT, .. } :: _ =>
          match parseTExpr f r with
          | some (e, r1) => some (.typeLit e, r1)
          | none => none
        | _ => none
      else if t.s = "import" then
        match r with
        | { k := .LPAREN, .. } :: r1 =>
          match parseImports f r1 with
          | some (vs, { k := .RPAREN, .. } :: r2) => some (.importGroup vs, r2)
          | _ => none
        | { k := .STRING, s := v, .. } :: r1 => some (.importLit v, r1)
        | _ => none
      else none
    | .AT_SERVER =>
      match r with
      | { k := .LPAREN, .. } :: r1 =>
        match parseSKVs f r1 with
        | some (kvs, { k := .RPAREN, .. } :: r2) => parseServiceBody f (some kvs) r2
        | _ => none
      | _ => none
    | _ => none

def parseStmts : Nat → List Tok → Option Api
  | _, [] => some []
  | 0, _ => none
  | f + 1, ts =>
    match parseStmt (f + 1) ts with
    | some (s, r) =>
      match parseStmts f r with
      | some ss => some (s :: ss)
      | none => none
    | none => none

/-- `Parser.Parse` + `CheckErrors`: `none` iff an error is reported. The fuel only bounds the recursion depth of the
model functions (the real parser has none); twice the number of tokens is enough for every program the printer
writes (`szApi_le_len` / `parseStmts_print` in Proofs3) and is validated for all other inputs by the correspondence. -/
def parse (ts : List Tok) : Option Api := parseStmts (2 * ts.length + 2) ts

/-! ### What `Format` drops (`norm`) -/

def isZero (s : String) : Bool := s == "\"\"" || s == "``"

def kvsEmpty (kvs : List KV) : Bool := kvs.all fun kv => isZero kv.val

def svalText : SVal → String
  | .lit _ s => s
  | .commas a r => a ++ String.join (r.map ("," ++ ·))
  | .dashes a r => a ++ String.join (r.map ("-" ++ ·))
  | .slashed a b ss => "/" ++ a ++ (match b with | some b => "-" ++ b | none => "") ++
      String.join (ss.map fun (c, d) => "/" ++ c ++ (match d with | some d => "-" ++ d | none => ""))
  | .ident a ss => a ++ String.join (ss.map fun (c, d) => "/" ++ c ++ (match d with | some d => "-" ++ d | none => ""))

def skvsEmpty (kvs : List SKV) : Bool := kvs.all fun kv => isZero (svalText kv.val)

def normBody : Body → Body
  | .empty => .absent
  | b => b

def normDoc : Doc → Doc
  | .lit s => if isZero s then .none else .lit s
  | .group kvs => if kvsEmpty kvs then .none else .group kvs
  | .none => .none

def normItem (i : Item) : Item :=
  { i with doc := normDoc i.doc, req := normBody i.req, resp := normBody i.resp }

/-- `none` = the statement formats to the empty string and is skipped by `AST.Format`. -/
def normStmt : Stmt → Option Stmt
  | .syntaxS v => some (.syntaxS v)
  | .info kvs => if kvsEmpty kvs then none else some (.info kvs)
  | .importLit v => if isZero v then none else some (.importLit v)
  | .importGroup vs => if vs.all isZero then none else some (.importGroup vs)
  | .typeLit e => some (.typeLit e)
  | .typeGroup es => if es.isEmpty then none else some (.typeGroup es)
  | .service at_ n api its =>
    let at' := match at_ with
      | some kvs => if skvsEmpty kvs then none else some kvs
      | none => none
    some (.service at' n api (its.map normItem))

def norm (a : Api) : Api := a.filterMap normStmt

/-! ### Printer: the tokens written by the `Format` methods -/

def tk (k : K) (s : String) (nl : Bool := false) : Tok := { k := k, s := s, nl := nl }

def markNl : List Tok → List Tok
  | [] => []
  | t :: r => { t with nl := true } :: r

def printNames : List String → List Tok
  | [] => []
  | n :: ns => tk .COMMA "," :: tk .IDENT n :: printNames ns

mutual
  def printDT : DT → List Tok
    | .base t => [tk .IDENT t]
    | .any t => [tk .IDENT t]
    | .iface t => [tk .ANY t]
    | .ptr d => tk .MUL "*" :: printDT d
    | .slice d => tk .LBRACK "[" :: tk .RBRACK "]" :: printDT d
    | .arr (some n) d => tk .LBRACK "[" :: tk .INT n :: tk .RBRACK "]" :: printDT d
    | .arr none d => tk .LBRACK "[" :: tk .ELLIPSIS "..." :: tk .RBRACK "]" :: printDT d
    | .map k v => tk .IDENT "map" :: tk .LBRACK "[" :: (printDT k ++ tk .RBRACK "]" :: printDT v)
    | .struct .nil => [tk .LBRACE "{", tk .RBRACE "}"]
    | .struct fs => tk .LBRACE "{" :: (printFields fs ++ [tk .RBRACE "}" true])
  def printFields : Fields → List Tok
    | .nil => []
    | .cons [] ty tag rest =>
      markNl (printDT ty) ++ (match tag with | some g => [tk .RAW g] | none => []) ++ printFields rest
    | .cons (n :: ns) ty tag rest =>
      tk .IDENT n true :: (printNames ns ++ printDT ty ++ (match tag with | some g => [tk .RAW g] | none => []) ++ printFields rest)
end

def printTExpr (e : TExpr) : List Tok :=
  tk .IDENT e.name :: ((if e.assign then [tk .ASSIGN "="] else []) ++ printDT e.ty)

def printKVs : List KV → List Tok
  | [] => []
  | kv :: r => tk .IDENT kv.key true :: tk .COLON ":" :: tk kv.vk kv.val :: printKVs r

def printSlashSegs : List (String × Option String) → List Tok
  | [] => []
  | (a, none) :: r => tk .QUO "/" :: tk .IDENT a :: printSlashSegs r
  | (a, some b) :: r => tk .QUO "/" :: tk .IDENT a :: tk .SUB "-" :: tk .IDENT b :: printSlashSegs r

def printSepIdents (k : K) (s : String) : List String → List Tok
  | [] => []
  | a :: r => tk k s :: tk .IDENT a :: printSepIdents k s r

def printSVal : SVal → List Tok
  | .lit k s => [tk k s]
  | .commas a r => tk .IDENT a :: printSepIdents .COMMA "," r
  | .dashes a r => tk .IDENT a :: printSepIdents .SUB "-" r
  | .slashed a none ss => tk .QUO "/" :: tk .IDENT a :: printSlashSegs ss
  | .slashed a (some b) ss => tk .QUO "/" :: tk .IDENT a :: tk .SUB "-" :: tk .IDENT b :: printSlashSegs ss
  | .ident a ss => tk .IDENT a :: printSlashSegs ss

def printSKVs : List SKV → List Tok
  | [] => []
  | kv :: r => tk .IDENT kv.key true :: tk .COLON ":" :: (printSVal kv.val ++ printSKVs r)

def printSegTail : List (Bool × String) → List Tok
  | [] => []
  | (true, a) :: r => tk .SUB "-" :: tk .IDENT a :: printSegTail r
  | (false, a) :: r => tk .IDENT a :: printSegTail r

def printSegs : List Seg → List Tok
  | [] => []
  | s :: r => tk .QUO "/" :: ((if s.colon then [tk .COLON ":"] else []) ++ tk s.hk s.head :: (printSegTail s.tail ++ printSegs r))

def printPath (p : Path) : List Tok := printSegs p.segs ++ (if p.trail then [tk .QUO "/"] else [])

def printBodyExpr : Body → List Tok
  | .absent => []
  | .empty => [tk .LPAREN "(", tk .RPAREN ")"]
  | .expr arr star v =>
    tk .LPAREN "(" :: ((if arr then [tk .LBRACK "[", tk .RBRACK "]"] else []) ++ (if star then [tk .MUL "*"] else []) ++
      [tk .IDENT v, tk .RPAREN ")"])

def printDoc : Doc → List Tok
  | .none => []
  | .lit s => [tk .AT_DOC "@doc" true, tk .STRING s]
  | .group kvs => tk .AT_DOC "@doc" true :: tk .LPAREN "(" :: (printKVs kvs ++ [tk .RPAREN ")" true])

def printItem (i : Item) : List Tok :=
  printDoc i.doc ++ tk .AT_HANDLER "@handler" true :: tk .IDENT i.handler :: tk .IDENT i.method true ::
    (printPath i.path ++ printBodyExpr i.req ++
      (match i.resp with
       | .absent => []
       | b => tk .IDENT "returns" :: printBodyExpr b))

def printItems : List Item → List Tok
  | [] => []
  | i :: r => printItem i ++ printItems r

def printTExprs : List TExpr → List Tok
  | [] => []
  | e :: r => markNl (printTExpr e) ++ printTExprs r

def printImports : List String → List Tok
  | [] => []
  | v :: r => tk .STRING v true :: printImports r

def printStmt : Stmt → List Tok
  | .syntaxS v => [tk .IDENT "syntax" true, tk .ASSIGN "=", tk .STRING v]
  | .info kvs => tk .IDENT "info" true :: tk .LPAREN "(" :: (printKVs kvs ++ [tk .RPAREN ")" true])
  | .importLit v => [tk .IDENT "import" true, tk .STRING v]
  | .importGroup vs => tk .IDENT "import" true :: tk .LPAREN "(" :: (printImports vs ++ [tk .RPAREN ")" true])
  | .typeLit e => tk .IDENT "type" true :: printTExpr e
  | .typeGroup es => tk .IDENT "type" true :: tk .LPAREN "(" :: (printTExprs es ++ [tk .RPAREN ")" true])
  | .service at_ n api its =>
    (match at_ with
     | some kvs => tk .AT_SERVER "@server" true :: tk .LPAREN "(" :: (printSKVs kvs ++ [tk .RPAREN ")" true])
     | none => []) ++
    tk .IDENT "service" true :: tk .IDENT n :: ((if api then [tk .SUB "-", tk .IDENT "api"] else []) ++
      tk .LBRACE "{" :: (printItems its ++ [tk .RBRACE "}" (!its.isEmpty)]))

def print : Api → List Tok
  | [] => []
  | s :: r => printStmt s ++ print r

/-- the formatter at token level: `AST.Format` applied to the parse result -/
def format (a : Api) : List Tok := print (norm a)

end GoZero.C20
