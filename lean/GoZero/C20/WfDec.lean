/-
C20 — the well-formedness predicate of the round-trip theorems is decidable; `wfApiB` is evaluated by the driver on
every AST the model parser produces (the theorems of Props.lean then apply to that program).
Core Lean only.
-/
import GoZero.C20.Proofs3
namespace GoZero.C20

instance (d : DT) : Decidable (notStruct d) := by
  cases d <;> simp only [notStruct] <;> infer_instance

instance (d : DT) : Decidable (anonOk d) := by
  cases d with
  | ptr d => cases d <;> simp only [anonOk] <;> infer_instance
  | _ => simp only [anonOk] <;> infer_instance

mutual
  def decWfDT : (d : DT) → Decidable (wfDT d)
    | .base t => decidable_of_iff (t ≠ "any" ∧ t ≠ "map" ∧ isKw t = false) (by simp [wfDT])
    | .any t => decidable_of_iff (t = "any") (by simp [wfDT])
    | .iface t => decidable_of_iff (t ≠ "any") (by simp [wfDT])
    | .ptr d => have := decWfDT d; decidable_of_iff (wfDT d ∧ notStruct d) (by simp [wfDT])
    | .slice d => have := decWfDT d; decidable_of_iff (wfDT d) (by simp [wfDT])
    | .arr _ d => have := decWfDT d; decidable_of_iff (wfDT d) (by simp [wfDT])
    | .map k v => have := decWfDT k; have := decWfDT v; decidable_of_iff (wfDT k ∧ wfDT v) (by simp [wfDT])
    | .struct fs => have := decWfFields fs; decidable_of_iff (wfFields fs) (by simp [wfDT])
  def decWfFields : (fs : Fields) → Decidable (wfFields fs)
    | .nil => decidable_of_iff True (by simp [wfFields])
    | .cons [] ty _ rest => have := decWfFields rest; decidable_of_iff (anonOk ty ∧ wfFields rest) (by simp [wfFields])
    | .cons (n :: ns) ty _ rest =>
      have := decWfFields rest; have := decWfDT ty
      decidable_of_iff (isKw n = false ∧ (∀ m ∈ ns, isKw m = false) ∧ wfDT ty ∧ wfFields rest) (by simp [wfFields])
end

instance (d : DT) : Decidable (wfDT d) := decWfDT d
instance (e : TExpr) : Decidable (wfTExpr e) := by unfold wfTExpr; infer_instance
instance (kv : KV) : Decidable (wfKV kv) := by unfold wfKV; infer_instance
instance (s : Seg) : Decidable (wfSeg s) := by unfold wfSeg; infer_instance
instance (p : Path) : Decidable (wfPath p) := by unfold wfPath; infer_instance
instance (d : Doc) : Decidable (wfDoc d) := by cases d <;> simp only [wfDoc] <;> infer_instance
instance (i : Item) : Decidable (wfItem i) := by unfold wfItem; infer_instance
instance (v : SVal) : Decidable (wfSVal v) := by cases v <;> simp only [wfSVal] <;> infer_instance

instance (s : Stmt) : Decidable (wfStmt s) := by
  cases s with
  | service at_ n api its =>
    cases at_ with
    | none => exact decidable_of_iff (∀ i ∈ its, wfItem i) (by simp [wfStmt])
    | some kvs => exact decidable_of_iff ((∀ kv ∈ kvs, wfSVal kv.val) ∧ (∀ i ∈ its, wfItem i)) (by simp [wfStmt])
  | _ => simp only [wfStmt] <;> infer_instance

/-- executable well-formedness check -/
def wfApiB (a : Api) : Bool := decide (∀ s ∈ a, wfStmt s)

theorem wfApiB_sound (a : Api) (h : wfApiB a = true) : ∀ s ∈ a, wfStmt s := of_decide_eq_true h

end GoZero.C20
