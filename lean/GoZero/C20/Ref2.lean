/-
C20 — reference skeletons, part 2 (round 2): what the comment / position logic of the formatter was read from.
  * `acc_<Type>`  : the accessors HasHeadCommentGroup / HasLeadingCommentGroup / CommentGroup / End / Pos (and
                    ContainsStruct, IsAnonymous, IsZeroString, ...) of every ast node type — the methods Writer.write
                    consults to decide where a line break and a comment go;
  * `full_<func>` : complete statement lists of Writer.write, transfer*TokenNode, the leaf Format methods,
                    Parser.nextToken (which token owns which comment) and the scanner's comment functions;
  * `<name>_patched` : the same function after fixes/C20-comments-scanner-empty-source.patch (the Tie accepts
                    either version, so the check is valid before and after the patch is applied to /repo).
Generated from the extractor's output on the pinned tree; compared with the current tree by Tie.lean on every run.
-/
namespace GoZero.C20.Ref

/-- comment / position accessors of `CommentStmt` in tools/goctl/pkg/parser/api/ast/comment.go -/
def acc_CommentStmt : List String := [
  "HasHeadCommentGroup {",
  "return false",
  "}",
  "HasLeadingCommentGroup {",
  "return false",
  "}",
  "CommentGroup {",
  "return",
  "}",
  "End {",
  "return c.Comment.Position",
  "}",
  "Pos {",
  "return c.Comment.Position",
  "}"]

/-- comment / position accessors of `CommentGroup` in tools/goctl/pkg/parser/api/ast/comment.go -/
def acc_CommentGroup : List String := [
  "Valid {",
  "return len(cg) > 0",
  "}",
  "List {",
  "var list = make([]string, 0, len(cg))",
  "range _, v := cg {",
  "comment := v.Comment.Text",
  "if util.IsEmptyStringOrWhiteSpace(comment) {",
  "continue",
  "}",
  "list = append(list, comment)",
  "}",
  "return list",
  "}",
  "Join {",
  "if !cg.Valid() {",
  "return \"\"",
  "}",
  "list := cg.List()",
  "return strings.Join(list, sep)",
  "}"]

/-- comment / position accessors of `AnyDataType` in tools/goctl/pkg/parser/api/ast/typestatement.go -/
def acc_AnyDataType : List String := [
  "HasHeadCommentGroup {",
  "return t.Any.HasHeadCommentGroup()",
  "}",
  "HasLeadingCommentGroup {",
  "return t.Any.HasLeadingCommentGroup()",
  "}",
  "CommentGroup {",
  "return t.Any.HeadCommentGroup, t.Any.LeadingCommentGroup",
  "}",
  "End {",
  "return t.Any.End()",
  "}",
  "Pos {",
  "return t.Any.Pos()",
  "}",
  "ContainsStruct {",
  "return false",
  "}"]

/-- comment / position accessors of `BaseDataType` in tools/goctl/pkg/parser/api/ast/typestatement.go -/
def acc_BaseDataType : List String := [
  "HasHeadCommentGroup {",
  "return t.Base.HasHeadCommentGroup()",
  "}",
  "HasLeadingCommentGroup {",
  "return t.Base.HasLeadingCommentGroup()",
  "}",
  "CommentGroup {",
  "return t.Base.HeadCommentGroup, t.Base.LeadingCommentGroup",
  "}",
  "End {",
  "return t.Base.End()",
  "}",
  "Pos {",
  "return t.Base.Pos()",
  "}",
  "ContainsStruct {",
  "return false",
  "}"]

/-- comment / position accessors of `InterfaceDataType` in tools/goctl/pkg/parser/api/ast/typestatement.go -/
def acc_InterfaceDataType : List String := [
  "HasHeadCommentGroup {",
  "return t.Interface.HasHeadCommentGroup()",
  "}",
  "HasLeadingCommentGroup {",
  "return t.Interface.HasLeadingCommentGroup()",
  "}",
  "CommentGroup {",
  "return t.Interface.HeadCommentGroup, t.Interface.LeadingCommentGroup",
  "}",
  "End {",
  "return t.Interface.End()",
  "}",
  "Pos {",
  "return t.Interface.Pos()",
  "}",
  "ContainsStruct {",
  "return false",
  "}"]

/-- comment / position accessors of `TokenNode` in tools/goctl/pkg/parser/api/ast/ast.go -/
def acc_TokenNode : List String := [
  "HasHeadCommentGroup {",
  "return t.HeadCommentGroup.Valid() || t.headFlag",
  "}",
  "HasLeadingCommentGroup {",
  "return t.LeadingCommentGroup.Valid() || t.leadingFlag",
  "}",
  "CommentGroup {",
  "return t.HeadCommentGroup, t.LeadingCommentGroup",
  "}",
  "End {",
  "if len(t.LeadingCommentGroup) > 0 {",
  "return t.LeadingCommentGroup[len(t.LeadingCommentGroup)-1].End()",
  "}",
  "return t.Token.Position",
  "}",
  "Pos {",
  "if len(t.HeadCommentGroup) > 0 {",
  "return t.PeekFirstHeadComment().Pos()",
  "}",
  "return t.Token.Position",
  "}",
  "IsZeroString {",
  "return t.Equal(`\"\"`) || t.Equal(\"``\")",
  "}",
  "Equal {",
  "return t.Token.Text == s",
  "}"]

/-- comment / position accessors of `SyntaxStmt` in tools/goctl/pkg/parser/api/ast/syntaxstatement.go -/
def acc_SyntaxStmt : List String := [
  "HasHeadCommentGroup {",
  "return s.Syntax.HasHeadCommentGroup()",
  "}",
  "HasLeadingCommentGroup {",
  "return s.Value.HasLeadingCommentGroup()",
  "}",
  "CommentGroup {",
  "return s.Syntax.HeadCommentGroup, s.Syntax.LeadingCommentGroup",
  "}",
  "End {",
  "return s.Value.End()",
  "}",
  "Pos {",
  "return s.Syntax.Pos()",
  "}"]

/-- comment / position accessors of `InfoStmt` in tools/goctl/pkg/parser/api/ast/infostatement.go -/
def acc_InfoStmt : List String := [
  "HasHeadCommentGroup {",
  "return i.Info.HasHeadCommentGroup()",
  "}",
  "HasLeadingCommentGroup {",
  "return i.RParen.HasLeadingCommentGroup()",
  "}",
  "CommentGroup {",
  "return i.Info.HeadCommentGroup, i.RParen.LeadingCommentGroup",
  "}",
  "End {",
  "return i.RParen.End()",
  "}",
  "Pos {",
  "return i.Info.Pos()",
  "}"]

/-- comment / position accessors of `ImportLiteralStmt` in tools/goctl/pkg/parser/api/ast/importstatement.go -/
def acc_ImportLiteralStmt : List String := [
  "HasHeadCommentGroup {",
  "return i.Import.HasHeadCommentGroup()",
  "}",
  "HasLeadingCommentGroup {",
  "return i.Value.HasLeadingCommentGroup()",
  "}",
  "CommentGroup {",
  "return i.Import.HeadCommentGroup, i.Value.LeadingCommentGroup",
  "}",
  "End {",
  "return i.Value.End()",
  "}",
  "Pos {",
  "return i.Import.Pos()",
  "}"]

/-- comment / position accessors of `ImportGroupStmt` in tools/goctl/pkg/parser/api/ast/importstatement.go -/
def acc_ImportGroupStmt : List String := [
  "HasHeadCommentGroup {",
  "return i.Import.HasHeadCommentGroup()",
  "}",
  "HasLeadingCommentGroup {",
  "return i.RParen.HasLeadingCommentGroup()",
  "}",
  "CommentGroup {",
  "return i.Import.HeadCommentGroup, i.RParen.LeadingCommentGroup",
  "}",
  "End {",
  "return i.RParen.End()",
  "}",
  "Pos {",
  "return i.Import.Pos()",
  "}"]

/-- comment / position accessors of `KVExpr` in tools/goctl/pkg/parser/api/ast/kvexpression.go -/
def acc_KVExpr : List String := [
  "HasHeadCommentGroup {",
  "return i.Key.HasHeadCommentGroup()",
  "}",
  "HasLeadingCommentGroup {",
  "return i.Value.HasLeadingCommentGroup()",
  "}",
  "CommentGroup {",
  "return i.Key.HeadCommentGroup, i.Value.LeadingCommentGroup",
  "}",
  "End {",
  "return i.Value.End()",
  "}",
  "Pos {",
  "return i.Key.Pos()",
  "}"]

/-- comment / position accessors of `TypeLiteralStmt` in tools/goctl/pkg/parser/api/ast/typestatement.go -/
def acc_TypeLiteralStmt : List String := [
  "HasHeadCommentGroup {",
  "return t.Type.HasHeadCommentGroup()",
  "}",
  "HasLeadingCommentGroup {",
  "return t.Expr.HasLeadingCommentGroup()",
  "}",
  "CommentGroup {",
  "_, leading = t.Expr.CommentGroup()",
  "return t.Type.HeadCommentGroup, leading",
  "}",
  "End {",
  "return t.Expr.End()",
  "}",
  "Pos {",
  "return t.Type.Pos()",
  "}"]

/-- comment / position accessors of `TypeGroupStmt` in tools/goctl/pkg/parser/api/ast/typestatement.go -/
def acc_TypeGroupStmt : List String := [
  "HasHeadCommentGroup {",
  "return t.Type.HasHeadCommentGroup()",
  "}",
  "HasLeadingCommentGroup {",
  "return t.RParen.HasLeadingCommentGroup()",
  "}",
  "CommentGroup {",
  "return t.Type.HeadCommentGroup, t.RParen.LeadingCommentGroup",
  "}",
  "End {",
  "return t.RParen.End()",
  "}",
  "Pos {",
  "return t.Type.Pos()",
  "}"]

/-- comment / position accessors of `TypeExpr` in tools/goctl/pkg/parser/api/ast/typestatement.go -/
def acc_TypeExpr : List String := [
  "HasHeadCommentGroup {",
  "return e.Name.HasHeadCommentGroup()",
  "}",
  "HasLeadingCommentGroup {",
  "return e.DataType.HasLeadingCommentGroup()",
  "}",
  "CommentGroup {",
  "_, leading = e.DataType.CommentGroup()",
  "return e.Name.HeadCommentGroup, leading",
  "}",
  "End {",
  "return e.DataType.End()",
  "}",
  "Pos {",
  "return e.Name.Pos()",
  "}"]

/-- comment / position accessors of `ElemExpr` in tools/goctl/pkg/parser/api/ast/typestatement.go -/
def acc_ElemExpr : List String := [
  "HasHeadCommentGroup {",
  "if e.IsAnonymous() {",
  "return e.DataType.HasHeadCommentGroup()",
  "}",
  "return e.Name[0].HasHeadCommentGroup()",
  "}",
  "HasLeadingCommentGroup {",
  "if e.Tag != nil {",
  "return e.Tag.HasLeadingCommentGroup()",
  "}",
  "return e.DataType.HasLeadingCommentGroup()",
  "}",
  "CommentGroup {",
  "if e.Tag != nil {",
  "leading = e.Tag.LeadingCommentGroup",
  "} else {",
  "_, leading = e.DataType.CommentGroup()",
  "}",
  "if e.IsAnonymous() {",
  "head, _ := e.DataType.CommentGroup()",
  "return head, leading",
  "}",
  "return e.Name[0].HeadCommentGroup, leading",
  "}",
  "End {",
  "if e.Tag != nil {",
  "return e.Tag.End()",
  "}",
  "return e.DataType.End()",
  "}",
  "Pos {",
  "if len(e.Name) > 0 {",
  "return e.Name[0].Pos()",
  "}",
  "return token.IllegalPosition",
  "}",
  "IsAnonymous {",
  "return len(e.Name) == 0",
  "}"]

/-- comment / position accessors of `ArrayDataType` in tools/goctl/pkg/parser/api/ast/typestatement.go -/
def acc_ArrayDataType : List String := [
  "HasHeadCommentGroup {",
  "return t.LBrack.HasHeadCommentGroup()",
  "}",
  "HasLeadingCommentGroup {",
  "return t.DataType.HasLeadingCommentGroup()",
  "}",
  "CommentGroup {",
  "_, leading = t.DataType.CommentGroup()",
  "return t.LBrack.HeadCommentGroup, leading",
  "}",
  "End {",
  "return t.DataType.End()",
  "}",
  "Pos {",
  "return t.LBrack.Pos()",
  "}",
  "ContainsStruct {",
  "return t.DataType.ContainsStruct()",
  "}"]

/-- comment / position accessors of `MapDataType` in tools/goctl/pkg/parser/api/ast/typestatement.go -/
def acc_MapDataType : List String := [
  "HasHeadCommentGroup {",
  "return t.Map.HasHeadCommentGroup()",
  "}",
  "HasLeadingCommentGroup {",
  "return t.Value.HasLeadingCommentGroup()",
  "}",
  "CommentGroup {",
  "_, leading = t.Value.CommentGroup()",
  "return t.Map.HeadCommentGroup, leading",
  "}",
  "End {",
  "return t.Value.End()",
  "}",
  "Pos {",
  "return t.Map.Pos()",
  "}",
  "ContainsStruct {",
  "return t.Key.ContainsStruct() || t.Value.ContainsStruct()",
  "}"]

/-- comment / position accessors of `PointerDataType` in tools/goctl/pkg/parser/api/ast/typestatement.go -/
def acc_PointerDataType : List String := [
  "HasHeadCommentGroup {",
  "return t.Star.HasHeadCommentGroup()",
  "}",
  "HasLeadingCommentGroup {",
  "return t.DataType.HasLeadingCommentGroup()",
  "}",
  "CommentGroup {",
  "_, leading = t.DataType.CommentGroup()",
  "return t.Star.HeadCommentGroup, leading",
  "}",
  "End {",
  "return t.DataType.End()",
  "}",
  "Pos {",
  "return t.Star.Pos()",
  "}",
  "ContainsStruct {",
  "return t.DataType.ContainsStruct()",
  "}"]

/-- comment / position accessors of `SliceDataType` in tools/goctl/pkg/parser/api/ast/typestatement.go -/
def acc_SliceDataType : List String := [
  "HasHeadCommentGroup {",
  "return t.LBrack.HasHeadCommentGroup()",
  "}",
  "HasLeadingCommentGroup {",
  "return t.DataType.HasLeadingCommentGroup()",
  "}",
  "CommentGroup {",
  "_, leading = t.DataType.CommentGroup()",
  "return t.LBrack.HeadCommentGroup, leading",
  "}",
  "End {",
  "return t.DataType.End()",
  "}",
  "Pos {",
  "return t.LBrack.Pos()",
  "}",
  "ContainsStruct {",
  "return t.DataType.ContainsStruct()",
  "}"]

/-- comment / position accessors of `StructDataType` in tools/goctl/pkg/parser/api/ast/typestatement.go -/
def acc_StructDataType : List String := [
  "HasHeadCommentGroup {",
  "return t.LBrace.HasHeadCommentGroup()",
  "}",
  "HasLeadingCommentGroup {",
  "return t.RBrace.HasLeadingCommentGroup()",
  "}",
  "CommentGroup {",
  "return t.LBrace.HeadCommentGroup, t.RBrace.LeadingCommentGroup",
  "}",
  "End {",
  "return t.RBrace.End()",
  "}",
  "Pos {",
  "return t.LBrace.Pos()",
  "}",
  "ContainsStruct {",
  "return true",
  "}"]

/-- comment / position accessors of `AtServerStmt` in tools/goctl/pkg/parser/api/ast/servicestatement.go -/
def acc_AtServerStmt : List String := [
  "HasHeadCommentGroup {",
  "return a.AtServer.HasHeadCommentGroup()",
  "}",
  "HasLeadingCommentGroup {",
  "return a.RParen.HasLeadingCommentGroup()",
  "}",
  "CommentGroup {",
  "return a.AtServer.HeadCommentGroup, a.RParen.LeadingCommentGroup",
  "}",
  "End {",
  "return a.RParen.End()",
  "}",
  "Pos {",
  "return a.AtServer.Pos()",
  "}"]

/-- comment / position accessors of `AtDocLiteralStmt` in tools/goctl/pkg/parser/api/ast/servicestatement.go -/
def acc_AtDocLiteralStmt : List String := [
  "HasHeadCommentGroup {",
  "return a.AtDoc.HasHeadCommentGroup()",
  "}",
  "HasLeadingCommentGroup {",
  "return a.Value.HasLeadingCommentGroup()",
  "}",
  "CommentGroup {",
  "return a.AtDoc.HeadCommentGroup, a.Value.LeadingCommentGroup",
  "}",
  "End {",
  "return a.Value.End()",
  "}",
  "Pos {",
  "return a.AtDoc.Pos()",
  "}"]

/-- comment / position accessors of `AtDocGroupStmt` in tools/goctl/pkg/parser/api/ast/servicestatement.go -/
def acc_AtDocGroupStmt : List String := [
  "HasHeadCommentGroup {",
  "return a.AtDoc.HasHeadCommentGroup()",
  "}",
  "HasLeadingCommentGroup {",
  "return a.RParen.HasLeadingCommentGroup()",
  "}",
  "CommentGroup {",
  "return a.AtDoc.HeadCommentGroup, a.RParen.LeadingCommentGroup",
  "}",
  "End {",
  "return a.RParen.End()",
  "}",
  "Pos {",
  "return a.AtDoc.Pos()",
  "}"]

/-- comment / position accessors of `ServiceStmt` in tools/goctl/pkg/parser/api/ast/servicestatement.go -/
def acc_ServiceStmt : List String := [
  "HasHeadCommentGroup {",
  "if s.AtServerStmt != nil {",
  "return s.AtServerStmt.HasHeadCommentGroup()",
  "}",
  "return s.Service.HasHeadCommentGroup()",
  "}",
  "HasLeadingCommentGroup {",
  "return s.RBrace.HasLeadingCommentGroup()",
  "}",
  "CommentGroup {",
  "if s.AtServerStmt != nil {",
  "head, _ = s.AtServerStmt.CommentGroup()",
  "return head, s.RBrace.LeadingCommentGroup",
  "}",
  "return s.Service.HeadCommentGroup, s.RBrace.LeadingCommentGroup",
  "}",
  "End {",
  "return s.RBrace.End()",
  "}",
  "Pos {",
  "if s.AtServerStmt != nil {",
  "return s.AtServerStmt.Pos()",
  "}",
  "return s.Service.Pos()",
  "}"]

/-- comment / position accessors of `ServiceNameExpr` in tools/goctl/pkg/parser/api/ast/servicestatement.go -/
def acc_ServiceNameExpr : List String := [
  "HasHeadCommentGroup {",
  "return s.Name.HasHeadCommentGroup()",
  "}",
  "HasLeadingCommentGroup {",
  "return s.Name.HasLeadingCommentGroup()",
  "}",
  "CommentGroup {",
  "return s.Name.HeadCommentGroup, s.Name.LeadingCommentGroup",
  "}",
  "End {",
  "return s.Name.End()",
  "}",
  "Pos {",
  "return s.Name.Pos()",
  "}"]

/-- comment / position accessors of `AtHandlerStmt` in tools/goctl/pkg/parser/api/ast/servicestatement.go -/
def acc_AtHandlerStmt : List String := [
  "HasHeadCommentGroup {",
  "return a.AtHandler.HasHeadCommentGroup()",
  "}",
  "HasLeadingCommentGroup {",
  "return a.Name.HasLeadingCommentGroup()",
  "}",
  "CommentGroup {",
  "return a.AtHandler.HeadCommentGroup, a.Name.LeadingCommentGroup",
  "}",
  "End {",
  "return a.Name.End()",
  "}",
  "Pos {",
  "return a.AtHandler.Pos()",
  "}"]

/-- comment / position accessors of `ServiceItemStmt` in tools/goctl/pkg/parser/api/ast/servicestatement.go -/
def acc_ServiceItemStmt : List String := [
  "HasHeadCommentGroup {",
  "if s.AtDoc != nil {",
  "return s.AtDoc.HasHeadCommentGroup()",
  "}",
  "return s.AtHandler.HasHeadCommentGroup()",
  "}",
  "HasLeadingCommentGroup {",
  "return s.Route.HasLeadingCommentGroup()",
  "}",
  "CommentGroup {",
  "_, leading = s.Route.CommentGroup()",
  "if s.AtDoc != nil {",
  "head, _ = s.AtDoc.CommentGroup()",
  "return head, leading",
  "}",
  "head, _ = s.AtHandler.CommentGroup()",
  "return head, leading",
  "}",
  "End {",
  "return s.Route.End()",
  "}",
  "Pos {",
  "if s.AtDoc != nil {",
  "return s.AtDoc.Pos()",
  "}",
  "return s.AtHandler.Pos()",
  "}"]

/-- comment / position accessors of `RouteStmt` in tools/goctl/pkg/parser/api/ast/servicestatement.go -/
def acc_RouteStmt : List String := [
  "HasHeadCommentGroup {",
  "return r.Method.HasHeadCommentGroup()",
  "}",
  "HasLeadingCommentGroup {",
  "if r.Response != nil {",
  "return r.Response.HasLeadingCommentGroup()",
  "} else {",
  "if r.Returns != nil {",
  "return r.Returns.HasLeadingCommentGroup()",
  "} else {",
  "if r.Request != nil {",
  "return r.Request.HasLeadingCommentGroup()",
  "}",
  "}",
  "}",
  "return r.Path.HasLeadingCommentGroup()",
  "}",
  "CommentGroup {",
  "head, _ = r.Method.CommentGroup()",
  "if r.Response != nil {",
  "_, leading = r.Response.CommentGroup()",
  "} else {",
  "if r.Returns != nil {",
  "_, leading = r.Returns.CommentGroup()",
  "} else {",
  "if r.Request != nil {",
  "_, leading = r.Request.CommentGroup()",
  "}",
  "}",
  "}",
  "return head, leading",
  "}",
  "End {",
  "if r.Response != nil {",
  "return r.Response.End()",
  "}",
  "if r.Returns != nil {",
  "return r.Returns.Pos()",
  "}",
  "if r.Request != nil {",
  "return r.Request.End()",
  "}",
  "return r.Path.End()",
  "}",
  "Pos {",
  "return r.Method.Pos()",
  "}"]

/-- comment / position accessors of `PathExpr` in tools/goctl/pkg/parser/api/ast/servicestatement.go -/
def acc_PathExpr : List String := [
  "HasHeadCommentGroup {",
  "return p.Value.HasHeadCommentGroup()",
  "}",
  "HasLeadingCommentGroup {",
  "return p.Value.HasLeadingCommentGroup()",
  "}",
  "CommentGroup {",
  "return p.Value.CommentGroup()",
  "}",
  "End {",
  "return p.Value.End()",
  "}",
  "Pos {",
  "return p.Value.Pos()",
  "}"]

/-- comment / position accessors of `BodyStmt` in tools/goctl/pkg/parser/api/ast/servicestatement.go -/
def acc_BodyStmt : List String := [
  "HasHeadCommentGroup {",
  "return b.LParen.HasHeadCommentGroup()",
  "}",
  "HasLeadingCommentGroup {",
  "return b.RParen.HasLeadingCommentGroup()",
  "}",
  "CommentGroup {",
  "return b.LParen.HeadCommentGroup, b.RParen.LeadingCommentGroup",
  "}",
  "End {",
  "return b.RParen.End()",
  "}",
  "Pos {",
  "return b.LParen.Pos()",
  "}"]

/-- comment / position accessors of `BodyExpr` in tools/goctl/pkg/parser/api/ast/servicestatement.go -/
def acc_BodyExpr : List String := [
  "HasHeadCommentGroup {",
  "if e.LBrack != nil {",
  "return e.LBrack.HasHeadCommentGroup()",
  "} else {",
  "if e.Star != nil {",
  "return e.Star.HasHeadCommentGroup()",
  "} else {",
  "return e.Value.HasHeadCommentGroup()",
  "}",
  "}",
  "}",
  "HasLeadingCommentGroup {",
  "return e.Value.HasLeadingCommentGroup()",
  "}",
  "CommentGroup {",
  "if e.LBrack != nil {",
  "head = e.LBrack.HeadCommentGroup",
  "} else {",
  "if e.Star != nil {",
  "head = e.Star.HeadCommentGroup",
  "} else {",
  "head = e.Value.HeadCommentGroup",
  "}",
  "}",
  "return head, e.Value.LeadingCommentGroup",
  "}",
  "End {",
  "return e.Value.End()",
  "}",
  "Pos {",
  "if e.LBrack != nil {",
  "return e.LBrack.Pos()",
  "}",
  "if e.Star != nil {",
  "return e.Star.Pos()",
  "}",
  "return e.Value.Pos()",
  "}"]

/-- body of `AnyDataType.Format` in tools/goctl/pkg/parser/api/ast/typestatement.go -/
def full_AnyDataType_Format : List String := [
  "return t.Any.Format(prefix...)"]

/-- body of `BaseDataType.Format` in tools/goctl/pkg/parser/api/ast/typestatement.go -/
def full_BaseDataType_Format : List String := [
  "return t.Base.Format(prefix...)"]

/-- body of `InterfaceDataType.Format` in tools/goctl/pkg/parser/api/ast/typestatement.go -/
def full_InterfaceDataType_Format : List String := [
  "return t.Interface.Format(prefix...)"]

/-- body of `CommentStmt.Format` in tools/goctl/pkg/parser/api/ast/comment.go -/
def full_CommentStmt_Format : List String := [
  "return peekOne(prefix) + c.Comment.Text"]

/-- body of `TokenNode.Format` in tools/goctl/pkg/parser/api/ast/ast.go -/
def full_TokenNode_Format : List String := [
  "p := peekOne(prefix)",
  "var textList []string",
  "range _, v := t.HeadCommentGroup {",
  "textList = append(textList, v.Format(p))",
  "}",
  "var tokenText = p + t.Token.Text",
  "var validLeadingCommentGroup CommentGroup",
  "range _, e := t.LeadingCommentGroup {",
  "if util.IsEmptyStringOrWhiteSpace(e.Comment.Text) {",
  "continue",
  "}",
  "validLeadingCommentGroup = append(validLeadingCommentGroup, e)",
  "}",
  "if len(validLeadingCommentGroup) > 0 {",
  "tokenText = tokenText + WhiteSpace + t.LeadingCommentGroup.Join(WhiteSpace)",
  "}",
  "textList = append(textList, tokenText)",
  "return strings.Join(textList, NewLine)"]

/-- body of `transfer2TokenNode` in tools/goctl/pkg/parser/api/ast/writer.go -/
def full_transfer2TokenNode : List String := [
  "option := new(tokenNodeOpt)",
  "range _, o := opt {",
  "o(option)",
  "}",
  "var copyOpt = append([]tokenNodeOption(nil), opt...)",
  "var tn *TokenNode",
  "typeswitch val := node.(type) {",
  "case *AnyDataType:",
  "copyOpt = append(copyOpt, withTokenNodePrefix(NilIndent))",
  "tn = transferTokenNode(val.Any, copyOpt...)",
  "if option.ignoreHeadComment {",
  "tn.HeadCommentGroup = nil",
  "}",
  "if option.ignoreLeadingComment {",
  "tn.LeadingCommentGroup = nil",
  "}",
  "val.isChild = isChild",
  "val.Any = tn",
  "case *ArrayDataType:",
  "copyOpt = append(copyOpt, withTokenNodePrefix(NilIndent))",
  "tn = transferTokenNode(val.LBrack, copyOpt...)",
  "if option.ignoreHeadComment {",
  "tn.HeadCommentGroup = nil",
  "}",
  "if option.ignoreLeadingComment {",
  "tn.LeadingCommentGroup = nil",
  "}",
  "val.isChild = isChild",
  "val.LBrack = tn",
  "case *BaseDataType:",
  "copyOpt = append(copyOpt, withTokenNodePrefix(NilIndent))",
  "tn = transferTokenNode(val.Base, copyOpt...)",
  "if option.ignoreHeadComment {",
  "tn.HeadCommentGroup = nil",
  "}",
  "if option.ignoreLeadingComment {",
  "tn.LeadingCommentGroup = nil",
  "}",
  "val.isChild = isChild",
  "val.Base = tn",
  "case *InterfaceDataType:",
  "copyOpt = append(copyOpt, withTokenNodePrefix(NilIndent))",
  "tn = transferTokenNode(val.Interface, copyOpt...)",
  "if option.ignoreHeadComment {",
  "tn.HeadCommentGroup = nil",
  "}",
  "if option.ignoreLeadingComment {",
  "tn.LeadingCommentGroup = nil",
  "}",
  "val.isChild = isChild",
  "val.Interface = tn",
  "case *MapDataType:",
  "copyOpt = append(copyOpt, withTokenNodePrefix(NilIndent))",
  "tn = transferTokenNode(val.Map, copyOpt...)",
  "if option.ignoreHeadComment {",
  "tn.HeadCommentGroup = nil",
  "}",
  "if option.ignoreLeadingComment {",
  "tn.LeadingCommentGroup = nil",
  "}",
  "val.isChild = isChild",
  "val.Map = tn",
  "case *PointerDataType:",
  "copyOpt = append(copyOpt, withTokenNodePrefix(NilIndent))",
  "tn = transferTokenNode(val.Star, copyOpt...)",
  "if option.ignoreHeadComment {",
  "tn.HeadCommentGroup = nil",
  "}",
  "if option.ignoreLeadingComment {",
  "tn.LeadingCommentGroup = nil",
  "}",
  "val.isChild = isChild",
  "val.Star = tn",
  "case *SliceDataType:",
  "copyOpt = append(copyOpt, withTokenNodePrefix(NilIndent))",
  "tn = transferTokenNode(val.LBrack, copyOpt...)",
  "if option.ignoreHeadComment {",
  "tn.HeadCommentGroup = nil",
  "}",
  "if option.ignoreLeadingComment {",
  "tn.LeadingCommentGroup = nil",
  "}",
  "val.isChild = isChild",
  "val.LBrack = tn",
  "case *StructDataType:",
  "copyOpt = append(copyOpt, withTokenNodePrefix(NilIndent))",
  "tn = transferTokenNode(val.LBrace, copyOpt...)",
  "if option.ignoreHeadComment {",
  "tn.HeadCommentGroup = nil",
  "}",
  "if option.ignoreLeadingComment {",
  "tn.LeadingCommentGroup = nil",
  "}",
  "val.isChild = isChild",
  "val.LBrace = tn",
  "default:",
  "}",
  "return &TokenNode{ headFlag: node.HasHeadCommentGroup(), leadingFlag: node.HasLeadingCommentGroup(), Token: token.Token{ Text: node.Format(option.prefix), Position: node.Pos(), }, LeadingCommentGroup: CommentGroup{ { token.Token{Position: node.End()}, }, }, }"]

/-- body of `transferNilInfixNode` in tools/goctl/pkg/parser/api/ast/writer.go -/
def full_transferNilInfixNode : List String := [
  "result := &TokenNode{}",
  "var option = new(tokenNodeOpt)",
  "range _, o := opt {",
  "o(option)",
  "}",
  "var list []string",
  "range _, n := nodes {",
  "list = append(list, n.Token.Text)",
  "}",
  "result.Token = token.Token{ Text: option.prefix + strings.Join(list, option.infix), Position: nodes[0].Pos(), }",
  "if !option.ignoreHeadComment {",
  "result.HeadCommentGroup = nodes[0].HeadCommentGroup",
  "}",
  "if !option.ignoreLeadingComment {",
  "result.LeadingCommentGroup = nodes[len(nodes)-1].LeadingCommentGroup",
  "}",
  "return result"]

/-- body of `transferTokenNode` in tools/goctl/pkg/parser/api/ast/writer.go -/
def full_transferTokenNode : List String := [
  "result := &TokenNode{}",
  "var option = new(tokenNodeOpt)",
  "range _, o := opt {",
  "o(option)",
  "}",
  "result.Token = token.Token{ Type: node.Token.Type, Text: option.prefix + node.Token.Text, Position: node.Token.Position, }",
  "if !option.ignoreHeadComment {",
  "range _, v := node.HeadCommentGroup {",
  "result.HeadCommentGroup = append(result.HeadCommentGroup, &CommentStmt{Comment: token.Token{ Type: v.Comment.Type, Text: option.prefix + v.Comment.Text, Position: v.Comment.Position, }})",
  "}",
  "}",
  "if !option.ignoreLeadingComment {",
  "result.LeadingCommentGroup = append(result.LeadingCommentGroup, node.LeadingCommentGroup...)",
  "}",
  "return result"]

/-- body of `Writer.write` in tools/goctl/pkg/parser/api/ast/writer.go -/
def full_Writer_write : List String := [
  "if len(opt.nodes) == 0 {",
  "return",
  "}",
  "var textList []string",
  "line := opt.nodes[0].End().Line",
  "range idx, node := opt.nodes {",
  "mode := opt.mode",
  "preIdx := idx - 1",
  "var preNodeHasLeading bool",
  "if preIdx > -1 && preIdx < len(opt.nodes) {",
  "preNode := opt.nodes[preIdx]",
  "preNodeHasLeading = preNode.HasLeadingCommentGroup()",
  "}",
  "if node.HasHeadCommentGroup() || preNodeHasLeading {",
  "mode = ModeAuto",
  "}",
  "if mode == ModeAuto && node.Pos().Line > line {",
  "textList = append(textList, NewLine)",
  "}",
  "line = node.End().Line",
  "if util.TrimWhiteSpace(node.Format()) == \"\" {",
  "continue",
  "}",
  "textList = append(textList, node.Format(opt.prefix))",
  "}",
  "text := strings.Join(textList, opt.infix)",
  "text = strings.ReplaceAll(text, \" \\n\", \"\\n\")",
  "text = strings.ReplaceAll(text, \"\\n \", \"\\n\")",
  "if opt.rawText {",
  "_, _ = fmt.Fprint(w.writer, text)",
  "return",
  "}",
  "_, _ = fmt.Fprint(w.tw, text)"]

/-- body of `Writer.Write` in tools/goctl/pkg/parser/api/ast/writer.go -/
def full_Writer_Write : List String := [
  "if len(opts) == 0 {",
  "return",
  "}",
  "var opt = new(option)",
  "opt.mode = ModeAuto",
  "opt.prefix = NilIndent",
  "opt.infix = WhiteSpace",
  "range _, v := opts {",
  "v(opt)",
  "}",
  "w.write(opt)"]

/-- body of `Writer.NewLine` in tools/goctl/pkg/parser/api/ast/writer.go -/
def full_Writer_NewLine : List String := [
  "_, _ = fmt.Fprint(w.tw, NewLine)"]

/-- body of `ignoreHeadComment` in tools/goctl/pkg/parser/api/ast/writer.go -/
def full_ignoreHeadComment : List String := [
  "return func(o *tokenNodeOpt) { o.ignoreHeadComment = true }"]

/-- body of `ignoreLeadingComment` in tools/goctl/pkg/parser/api/ast/writer.go -/
def full_ignoreLeadingComment : List String := [
  "return func(o *tokenNodeOpt) { o.ignoreLeadingComment = true }"]

/-- body of `ignoreComment` in tools/goctl/pkg/parser/api/ast/writer.go -/
def full_ignoreComment : List String := [
  "return func(o *tokenNodeOpt) { o.ignoreHeadComment = true o.ignoreLeadingComment = true }"]

/-- body of `withTokenNodePrefix` in tools/goctl/pkg/parser/api/ast/writer.go -/
def full_withTokenNodePrefix : List String := [
  "return func(o *tokenNodeOpt) { for _, p := range prefix { o.prefix = p } }"]

/-- body of `expectSameLine` in tools/goctl/pkg/parser/api/ast/writer.go -/
def full_expectSameLine : List String := [
  "return func(o *option) { o.mode = ModeExpectInSameLine }"]

/-- body of `expectIndentInfix` in tools/goctl/pkg/parser/api/ast/writer.go -/
def full_expectIndentInfix : List String := [
  "return func(o *option) { o.infix = Indent }"]

/-- body of `NewWriter` in tools/goctl/pkg/parser/api/ast/writer.go -/
def full_NewWriter : List String := [
  "return &Writer{ tw: tabwriter.NewWriter(writer, 1, 8, 1, ' ', tabwriter.TabIndent), writer: writer, }"]

/-- body of `NewBufferWriter` in tools/goctl/pkg/parser/api/ast/writer.go -/
def full_NewBufferWriter : List String := [
  "writer := bytes.NewBuffer(nil)",
  "return &Writer{ tw: tabwriter.NewWriter(writer, 1, 8, 1, ' ', tabwriter.TabIndent), writer: writer, }"]

/-- body of `Parser.nextToken` in tools/goctl/pkg/parser/api/parser/parser.go -/
def full_Parser_nextToken : List String := [
  "var err error",
  "p.curTok = p.peekTok",
  "var line = -1",
  "if p.curTok.Valid() {",
  "if p.curTokenIs(token.EOF) {",
  "range _, v := p.headCommentGroup {",
  "p.appendStmt(v)",
  "}",
  "p.headCommentGroup = ast.CommentGroup{}",
  "return true",
  "}",
  "node := ast.NewTokenNode(p.curTok)",
  "if p.headCommentGroup.Valid() {",
  "node.HeadCommentGroup = append(node.HeadCommentGroup, p.headCommentGroup...)",
  "p.headCommentGroup = ast.CommentGroup{}",
  "}",
  "p.node[p.curTok] = node",
  "line = p.curTok.Line()",
  "}",
  "p.peekTok, err = p.s.NextToken()",
  "if err != nil {",
  "p.errors = append(p.errors, err)",
  "return false",
  "}",
  "var leadingCommentGroup ast.CommentGroup",
  "for p.peekTok.Type == token.COMMENT || p.peekTok.Type == token.DOCUMENT {",
  "commentStmt := &ast.CommentStmt{Comment: p.peekTok}",
  "if p.peekTok.Line() == line && line > -1 {",
  "leadingCommentGroup = append(leadingCommentGroup, commentStmt)",
  "} else {",
  "p.headCommentGroup = append(p.headCommentGroup, commentStmt)",
  "}",
  "p.peekTok, err = p.s.NextToken()",
  "if err != nil {",
  "p.errors = append(p.errors, err)",
  "return false",
  "}",
  "}",
  "if len(leadingCommentGroup) > 0 {",
  "p.curTokenNode().SetLeadingCommentGroup(leadingCommentGroup)",
  "}",
  "return true"]

/-- body of `Parser.curTokenNode` in tools/goctl/pkg/parser/api/parser/parser.go -/
def full_Parser_curTokenNode : List String := [
  "return p.getNode(p.curTok)"]

/-- body of `Parser.getNode` in tools/goctl/pkg/parser/api/parser/parser.go -/
def full_Parser_getNode : List String := [
  "return p.node[tok]"]

/-- body of `Parser.init` in tools/goctl/pkg/parser/api/parser/parser.go -/
def full_Parser_init : List String := [
  "if !p.nextToken() {",
  "return false",
  "}",
  "return p.nextToken()"]

/-- body of `Scanner.scanLineComment` in tools/goctl/pkg/parser/api/scanner/scanner.go -/
def full_Scanner_scanLineComment : List String := [
  "position := s.position",
  "for s.ch != '\\n' && s.ch != 0 {",
  "s.readRune()",
  "}",
  "return token.Token{ Type: token.COMMENT, Text: string(s.data[position:s.position]), Position: s.newPosition(position), }"]

/-- body of `Scanner.scanDocument` in tools/goctl/pkg/parser/api/scanner/scanner.go -/
def full_Scanner_scanDocument : List String := [
  "position := s.position",
  "var documentMode = initMode",
  "for  {",
  "switch s.ch {",
  "case '*':",
  "switch documentMode {",
  "case documentHalfOpen:",
  "documentMode = documentOpen",
  "case documentOpen, documentHalfClose:",
  "documentMode = documentHalfClose",
  "}",
  "case 0:",
  "switch documentMode {",
  "case initMode, documentHalfOpen:",
  "return token.ErrorToken, s.assertExpected(token.EOF, token.MUL)",
  "case documentOpen:",
  "return token.ErrorToken, s.assertExpected(token.EOF, token.MUL)",
  "case documentHalfClose:",
  "return token.ErrorToken, s.assertExpected(token.EOF, token.QUO)",
  "}",
  "case '/':",
  "switch documentMode {",
  "case initMode:",
  "documentMode = documentHalfOpen",
  "case documentHalfOpen:",
  "return token.ErrorToken, s.assertExpected(token.QUO, token.MUL)",
  "case documentHalfClose:",
  "documentMode = documentClose",
  "s.readRune()",
  "tok := token.Token{ Type: token.DOCUMENT, Text: string(s.data[position:s.position]), Position: s.newPosition(position), }",
  "return tok, nil",
  "}",
  "}",
  "s.readRune()",
  "}"]

/-- body of `Scanner.skipWhiteSpace` in tools/goctl/pkg/parser/api/scanner/scanner.go -/
def full_Scanner_skipWhiteSpace : List String := [
  "for s.isWhiteSpace(s.ch) {",
  "s.readRune()",
  "}"]

/-- body of `Scanner.isWhiteSpace` in tools/goctl/pkg/parser/api/scanner/scanner.go -/
def full_Scanner_isWhiteSpace : List String := [
  "if b == '\\n' {",
  "s.lines = append(s.lines, s.position)",
  "}",
  "return b == ' ' || b == '\\t' || b == '\\r' || b == '\\f' || b == '\\v' || b == '\\n'"]

/-- body of `Source` in tools/goctl/pkg/parser/api/format/format.go -/
def full_fmt_Source : List String := [
  "p := parser.New(\"\", source)",
  "result := p.Parse()",
  "if err := p.CheckErrors(); err != nil {",
  "return err",
  "}",
  "result.Format(w)",
  "return nil"]

/-- skeleton of `ServiceStmt.Format` in tools/goctl/pkg/parser/api/ast/servicestatement.go (after the patch) -/
def f_ServiceStmt_patched : List String := [
  "if s.AtServerStmt != nil {",
  "Format()",
  "if len(text) > 0 {",
  "WriteText(text)",
  "NewLine()",
  "}",
  "}",
  "transferTokenNode(s.Service, withTokenNodePrefix(prefix...))",
  "Write(withNode(serviceNode, s.Name, s.LBrace), expectSameLine())",
  "if len(s.Routes) == 0 {",
  "if s.LBrace.HasLeadingCommentGroup() || s.RBrace.HasHeadCommentGroup() {",
  "NewLine()",
  "}",
  "Write(withNode(transferTokenNode(s.RBrace, withTokenNodePrefix(prefix...))))",
  "}",
  "NewLine()",
  "range s.Routes {",
  "transfer2TokenNode(route, false, withTokenNodePrefix(peekOne(prefix) + Indent))",
  "Write(withNode(routeNode))",
  "if idx < len(s.Routes)-1 {",
  "NewLine()",
  "}",
  "}",
  "Write(withNode(transferTokenNode(s.RBrace, withTokenNodePrefix(prefix...))))"]

/-- skeleton of `PathExpr.Format` in tools/goctl/pkg/parser/api/ast/servicestatement.go (after the patch) -/
def f_PathExpr_patched : List String := [
  "transferTokenNode(p.Value, ignoreHeadComment())",
  "Format(prefix)"]

/-- body of `Writer.write` in tools/goctl/pkg/parser/api/ast/writer.go (after the patch) -/
def full_Writer_write_patched : List String := [
  "if len(opt.nodes) == 0 {",
  "return",
  "}",
  "var textList []string",
  "line := opt.nodes[0].End().Line",
  "var preNode Node",
  "range _, node := opt.nodes {",
  "if util.TrimWhiteSpace(node.Format()) == \"\" {",
  "continue",
  "}",
  "mode := opt.mode",
  "if node.HasHeadCommentGroup() || (preNode != nil && preNode.HasLeadingCommentGroup()) {",
  "mode = ModeAuto",
  "}",
  "if mode == ModeAuto && node.Pos().Line > line {",
  "textList = append(textList, NewLine)",
  "}",
  "line = node.End().Line",
  "textList = append(textList, node.Format(opt.prefix))",
  "preNode = node",
  "}",
  "text := strings.Join(textList, opt.infix)",
  "text = strings.ReplaceAll(text, \" \\n\", \"\\n\")",
  "text = strings.ReplaceAll(text, \"\\n \", \"\\n\")",
  "if opt.rawText {",
  "_, _ = fmt.Fprint(w.writer, text)",
  "return",
  "}",
  "_, _ = fmt.Fprint(w.tw, text)"]

/-- body of `Scanner.scanLineComment` in tools/goctl/pkg/parser/api/scanner/scanner.go (after the patch) -/
def full_Scanner_scanLineComment_patched : List String := [
  "position := s.position",
  "for s.ch != '\\n' && s.ch != 0 {",
  "s.readRune()",
  "}",
  "return token.Token{ Type: token.COMMENT, Text: strings.TrimRight(string(s.data[position:s.position]), \" \\t\\r\\f\\v\"), Position: s.newPosition(position), }"]

/-- body of `Scanner.scanDocument` in tools/goctl/pkg/parser/api/scanner/scanner.go (after the patch) -/
def full_Scanner_scanDocument_patched : List String := [
  "position := s.position",
  "var documentMode = initMode",
  "for  {",
  "switch s.ch {",
  "case '*':",
  "switch documentMode {",
  "case documentHalfOpen:",
  "documentMode = documentOpen",
  "case documentOpen, documentHalfClose:",
  "documentMode = documentHalfClose",
  "}",
  "case 0:",
  "switch documentMode {",
  "case initMode, documentHalfOpen:",
  "return token.ErrorToken, s.assertExpected(token.EOF, token.MUL)",
  "case documentOpen:",
  "return token.ErrorToken, s.assertExpected(token.EOF, token.MUL)",
  "case documentHalfClose:",
  "return token.ErrorToken, s.assertExpected(token.EOF, token.QUO)",
  "}",
  "case '/':",
  "switch documentMode {",
  "case initMode:",
  "documentMode = documentHalfOpen",
  "case documentHalfOpen:",
  "return token.ErrorToken, s.assertExpected(token.QUO, token.MUL)",
  "case documentHalfClose:",
  "documentMode = documentClose",
  "s.readRune()",
  "tok := token.Token{ Type: token.DOCUMENT, Text: string(s.data[position:s.position]), Position: s.newPosition(position), }",
  "return tok, nil",
  "}",
  "default:",
  "if documentMode == documentHalfClose {",
  "documentMode = documentOpen",
  "}",
  "}",
  "s.readRune()",
  "}"]

/-- body of `Source` in tools/goctl/pkg/parser/api/format/format.go (after the patch) -/
def full_fmt_Source_patched : List String := [
  "if _, err := scanner.NewScanner(\"\", source); err != nil {",
  "return err",
  "}",
  "p := parser.New(\"\", source)",
  "result := p.Parse()",
  "if err := p.CheckErrors(); err != nil {",
  "return err",
  "}",
  "result.Format(w)",
  "return nil"]

/-- skeleton of `Writer.write` in tools/goctl/pkg/parser/api/ast/writer.go (after the patch) -/
def w_write_patched : List String := [
  "if len(opt.nodes) == 0 {",
  "}",
  "range opt.nodes {",
  "if util.TrimWhiteSpace(node.Format()) == \"\" {",
  "continue",
  "}",
  "if node.HasHeadCommentGroup() || (preNode != nil && preNode.HasLeadingCommentGroup()) {",
  "}",
  "if mode == ModeAuto && node.Pos().Line > line {",
  "}",
  "Format(opt.prefix)",
  "}",
  "if opt.rawText {",
  "Fprint(w.writer, text)",
  "}",
  "Fprint(w.tw, text)"]

/-- skeleton of `Source` in tools/goctl/pkg/parser/api/format/format.go (after the patch) -/
def fmt_Source_patched : List String := [
  "if err != nil {",
  "}",
  "New(\"\", source)",
  "Parse()",
  "CheckErrors()",
  "if err != nil {",
  "}",
  "Format(w)",
  "return nil"]

end GoZero.C20.Ref
