/-
C20 — lemmas, part 3 (round 2): round trip of the service parser and printer
(request / response bodies, route paths, routes, @doc, @handler, service items).
-/
import GoZero.C20.Proofs2
namespace GoZero.C20

/-! ### bodies -/

theorem parseBody_print (arr star : Bool) (v : String) (rest : List Tok) :
    parseBody (printBodyExpr (.expr arr star v) ++ rest) = some (.expr arr star v, rest) := by
  cases arr <;> cases star <;> simp [parseBody, printBodyExpr, tk]

theorem parseBody_print_empty (rest : List Tok) :
    parseBody (printBodyExpr .empty ++ rest) = some (.empty, rest) := by
  simp [parseBody, printBodyExpr, tk]

/-! ### route paths -/

def wfSeg (s : Seg) : Prop :=
  (s.hk = .IDENT ∨ s.hk = .INT) ∧ (s.colon = false → s.head ≠ "returns") ∧ ∀ x ∈ s.tail, x.1 = false → x.2 ≠ "returns"

def szSegs : List Seg → Nat
  | [] => 1
  | s :: r => s.tail.length + szSegs r + 2

theorem stopsPath_sub : stopsPath (tk .SUB "-") = false := by decide
theorem stopsPath_quo : stopsPath (tk .QUO "/") = false := by decide
theorem stopsPath_colon : stopsPath (tk .COLON ":") = false := by decide

theorem stopsPath_ident (a : String) (h : a ≠ "returns") : stopsPath (tk .IDENT a) = false := by
  simp [stopsPath, tk, h]

theorem stopsPath_int (a : String) (h : a ≠ "returns") : stopsPath (tk .INT a) = false := by
  simp [stopsPath, tk, h]

theorem parseSegTail_print (tl : List (Bool × String)) : ∀ (f : Nat) (c : Tok) (rest : List Tok),
    (∀ x ∈ tl, x.1 = false → x.2 ≠ "returns") → tl.length + 1 ≤ f → (c.k = .QUO ∨ stopsPath c = true) →
    parseSegTail f (printSegTail tl ++ c :: rest) = some (tl, c :: rest) := by
  induction tl with
  | nil =>
    intro f c rest _ hf hc
    obtain ⟨f, rfl⟩ : ∃ g, f = g + 1 := ⟨f - 1, by simp at hf; omega⟩
    simp [parseSegTail, printSegTail, hc]
  | cons x r ih =>
    intro f c rest hw hf hc
    obtain ⟨f, rfl⟩ : ∃ g, f = g + 1 := ⟨f - 1, by simp at hf; omega⟩
    have ih' := ih f c rest (fun y hy => hw y (by simp [hy])) (by simp at hf; omega) hc
    obtain ⟨d, a⟩ := x
    cases d with
    | true =>
      have h1 := stopsPath_sub
      simp only [tk] at h1
      simp [parseSegTail, printSegTail, tk, h1, ih']
    | false =>
      have ha : a ≠ "returns" := hw (false, a) (by simp) rfl
      have h1 := stopsPath_ident a ha
      simp only [tk] at h1
      simp [parseSegTail, printSegTail, tk, h1, ih']

def trailToks (b : Bool) : List Tok := if b then [tk .QUO "/"] else []

theorem printSegs_head (ss : List Seg) (trail : Bool) (c : Tok) (rest : List Tok) (hc : stopsPath c = true) :
    ∃ q tl, printSegs ss ++ (trailToks trail ++ c :: rest) = q :: tl ∧ (q.k = .QUO ∨ stopsPath q = true) := by
  cases ss with
  | nil =>
    cases trail with
    | true => exact ⟨tk .QUO "/", c :: rest, by simp [printSegs, trailToks], Or.inl rfl⟩
    | false => exact ⟨c, rest, by simp [printSegs, trailToks], Or.inr hc⟩
  | cons s r => exact ⟨tk .QUO "/", _, by simp [printSegs]; rfl, Or.inl rfl⟩

theorem parseSegs_print (ss : List Seg) : ∀ (f : Nat) (trail : Bool) (c : Tok) (rest : List Tok),
    (∀ s ∈ ss, wfSeg s) → szSegs ss ≤ f → stopsPath c = true →
    parseSegs f (printSegs ss ++ (trailToks trail ++ c :: rest)) = some (ss, trail, c :: rest) := by
  induction ss with
  | nil =>
    intro f trail c rest _ hf hc
    obtain ⟨f, rfl⟩ : ∃ g, f = g + 1 := ⟨f - 1, by simp [szSegs] at hf; omega⟩
    cases trail with
    | false => simp [parseSegs, printSegs, trailToks, hc]
    | true =>
      have h1 := stopsPath_quo
      simp only [tk] at h1
      simp [parseSegs, printSegs, trailToks, tk, h1, hc]
  | cons s r ih =>
    intro f trail c rest hw hf hc
    obtain ⟨f, rfl⟩ : ∃ g, f = g + 1 := ⟨f - 1, by simp [szSegs] at hf; omega⟩
    obtain ⟨hk, hh, ht⟩ := hw s (by simp)
    have ih' := ih f trail c rest (fun y hy => hw y (by simp [hy])) (by simp [szSegs] at hf; omega) hc
    obtain ⟨q, tl, hq, hqk⟩ := printSegs_head r trail c rest hc
    have htail := parseSegTail_print s.tail f q tl ht (by simp [szSegs] at hf; omega) hqk
    rw [hq] at ih'
    have h1 := stopsPath_quo
    have h2 := stopsPath_colon
    simp only [tk] at h1 h2
    have hkc : s.hk ≠ .COLON := by rcases hk with h | h <;> simp [h]
    cases hcol : s.colon with
    | true =>
      simp [parseSegs, printSegs, hcol, tk, h1, h2, List.append_assoc, hq, hk, htail, hqk, ih']
      cases s; simp_all
    | false =>
      have hh := hh hcol
      have hhead : stopsPath { k := s.hk, s := s.head } = false := by
        rcases hk with h | h
        · rw [h]; have := stopsPath_ident s.head hh; simpa [tk] using this
        · rw [h]; have := stopsPath_int s.head hh; simpa [tk] using this
      simp [parseSegs, printSegs, hcol, tk, h1, hhead, hkc, List.append_assoc, hq, hk, htail, hqk, ih']
      cases s; simp_all

def wfPath (p : Path) : Prop := (∀ s ∈ p.segs, wfSeg s) ∧ (p.segs ≠ [] ∨ p.trail = true)

theorem printPath_eq (p : Path) (tl : List Tok) : printPath p ++ tl = printSegs p.segs ++ (trailToks p.trail ++ tl) := by
  simp [printPath, trailToks]

theorem parsePath_print (p : Path) (f : Nat) (c : Tok) (rest : List Tok) (hw : wfPath p) (hf : szSegs p.segs ≤ f)
    (hc : stopsPath c = true) : parsePath f (printPath p ++ c :: rest) = some (p, c :: rest) := by
  have h := parseSegs_print p.segs f p.trail c rest hw.1 hf hc
  rw [printPath_eq]
  obtain ⟨segs, trail⟩ := p
  simp only at h hw ⊢
  simp only [parsePath, h]
  rcases hw.2 with h2 | h2
  · cases segs with
    | nil => exact absurd rfl h2
    | cons a b => simp
  · simp only at h2
    simp [h2]

/-! ### the part of a route after the path -/

/-- a token that can follow a service item: `@doc`, `@handler` or the closing brace -/
def itemEnd (c : Tok) : Prop := endsRoute c = true ∧ c.s ≠ "returns"

def respToks : Body → List Tok
  | .absent => []
  | b => tk .IDENT "returns" :: printBodyExpr b

def wfBody : Body → Prop
  | _ => True

theorem itemEnd_facts (c : Tok) (h : itemEnd c) :
    c.k ≠ .SEMICOLON ∧ c.k ≠ .LPAREN ∧ stopsPath c = true ∧ c.k ≠ .RPAREN := by
  obtain ⟨h1, _⟩ := h
  obtain ⟨k, s, nl, cm⟩ := c
  cases k <;> simp [endsRoute, stopsPath] at h1 ⊢

theorem parseBody_printB (b : Body) (hb : b ≠ .absent) (rest : List Tok) :
    parseBody (printBodyExpr b ++ rest) = some (b, rest) := by
  cases b with
  | absent => exact absurd rfl hb
  | empty => exact parseBody_print_empty rest
  | expr a st v => exact parseBody_print a st v rest

theorem printBodyExpr_head (b : Body) (hb : b ≠ .absent) (rest : List Tok) :
    ∃ tl, printBodyExpr b ++ rest = tk .LPAREN "(" :: tl := by
  cases b with
  | absent => exact absurd rfl hb
  | empty => exact ⟨_, by simp [printBodyExpr]; rfl⟩
  | expr a st v => exact ⟨_, by simp [printBodyExpr]; rfl⟩

theorem routeTail_after (resp : Body) (c : Tok) (rest : List Tok) (req : Body) (hsemi : c.k ≠ .SEMICOLON) :
    (match c :: rest with
      | { k := .SEMICOLON, .. } :: r4 => some (req, resp, r4)
      | _ => some (req, resp, c :: rest)) = some (req, resp, c :: rest) := by
  obtain ⟨k, s, nl, cm⟩ := c
  cases k <;> simp at hsemi ⊢

theorem parseRouteTail_print (req resp : Body) (c : Tok) (rest : List Tok) (hc : itemEnd c) :
    parseRouteTail (printBodyExpr req ++ (respToks resp ++ c :: rest)) = some (req, resp, c :: rest) := by
  obtain ⟨hsemi, hlp, _, _⟩ := itemEnd_facts c hc
  obtain ⟨hend, hret⟩ := hc
  have habs : printBodyExpr Body.absent = [] := rfl
  by_cases hreq : req = .absent
  · subst hreq
    rw [habs]
    by_cases hresp : resp = .absent
    · subst hresp
      simp [parseRouteTail, respToks, hend]
    · have hb := parseBody_printB resp hresp (c :: rest)
      have hrt : respToks resp = tk .IDENT "returns" :: printBodyExpr resp := by
        cases resp <;> simp [respToks] at hresp ⊢
      rw [hrt]
      simp only [List.nil_append, List.cons_append]
      simp only [parseRouteTail, tk, endsRoute]
      simp [hb]
      exact routeTail_after resp c rest .absent hsemi
  · have hb := parseBody_printB req hreq (respToks resp ++ c :: rest)
    obtain ⟨tl, htl⟩ := printBodyExpr_head req hreq (respToks resp ++ c :: rest)
    rw [htl] at hb ⊢
    by_cases hresp : resp = .absent
    · subst hresp
      simp only [respToks, List.nil_append, tk] at hb
      simp only [endsRoute] at hend
      simp [parseRouteTail, tk, endsRoute, hb, hret, hend]
    · have hb2 := parseBody_printB resp hresp (c :: rest)
      have hrt : respToks resp = tk .IDENT "returns" :: printBodyExpr resp := by
        cases resp <;> simp [respToks] at hresp ⊢
      rw [hrt] at hb
      simp only [List.cons_append, tk] at hb
      simp [parseRouteTail, tk, endsRoute, hb, hb2]
      exact routeTail_after resp c rest req hsemi

/-! ### @doc, service items -/

def wfDoc : Doc → Prop
  | .group kvs => ∀ kv ∈ kvs, wfKV kv
  | _ => True

def szDoc : Doc → Nat
  | .group kvs => kvs.length + 1
  | _ => 0

theorem parseDoc_print (d : Doc) (f : Nat) (h : Tok) (rest : List Tok) (hw : wfDoc d) (hf : szDoc d ≤ f)
    (hh : h.k = .AT_HANDLER) : parseDoc f (printDoc d ++ h :: rest) = some (d, h :: rest) := by
  cases d with
  | none =>
    obtain ⟨k, s, nl, cm⟩ := h
    simp only at hh
    subst hh
    simp [parseDoc, printDoc]
  | lit s => simp [parseDoc, printDoc, tk]
  | group kvs =>
    simp only [wfDoc] at hw
    simp only [szDoc] at hf
    have hk := parseKVs_print kvs f (tk .RPAREN ")" true) (h :: rest) hw hf rfl
    simp [parseDoc, printDoc, tk] at hk ⊢
    simp [hk]

def wfItem (i : Item) : Prop := wfDoc i.doc ∧ isMethod i.method = true ∧ wfPath i.path

def szItems : List Item → Nat
  | [] => 1
  | i :: r => szDoc i.doc + szSegs i.path.segs + szItems r + 1

theorem printItem_eq (i : Item) (tl : List Tok) :
    printItem i ++ tl = printDoc i.doc ++ (tk .AT_HANDLER "@handler" true :: tk .IDENT i.handler :: tk .IDENT i.method true ::
      (printPath i.path ++ (printBodyExpr i.req ++ (respToks i.resp ++ tl)))) := by
  obtain ⟨doc, handler, method, path, req, resp⟩ := i
  cases resp <;> simp [printItem, respToks]

theorem printItems_head (its : List Item) (c : Tok) (rest : List Tok) (hc : itemEnd c) :
    ∃ q tl, printItems its ++ c :: rest = q :: tl ∧ itemEnd q ∧ (its ≠ [] → q.k ≠ .RBRACE) := by
  cases its with
  | nil => exact ⟨c, rest, by simp [printItems], hc, by simp⟩
  | cons i r =>
    have he : printItems (i :: r) ++ c :: rest = printItem i ++ (printItems r ++ c :: rest) := by simp [printItems]
    rw [he, printItem_eq]
    cases hd : i.doc with
    | none =>
      refine ⟨tk .AT_HANDLER "@handler" true, _, by simp [printDoc]; rfl, ⟨by decide, by decide⟩, by simp [tk]⟩
    | lit s =>
      refine ⟨tk .AT_DOC "@doc" true, _, by simp [printDoc]; rfl, ⟨by decide, by decide⟩, by simp [tk]⟩
    | group kvs =>
      refine ⟨tk .AT_DOC "@doc" true, _, by simp [printDoc]; rfl, ⟨by decide, by decide⟩, by simp [tk]⟩

theorem routeToks_head (req resp : Body) (q : Tok) (tl : List Tok) (hq : itemEnd q) :
    ∃ c' tl', printBodyExpr req ++ (respToks resp ++ q :: tl) = c' :: tl' ∧ stopsPath c' = true := by
  obtain ⟨_, _, hs, _⟩ := itemEnd_facts q hq
  cases req with
  | absent =>
    cases resp with
    | absent => exact ⟨q, tl, by simp [printBodyExpr, respToks], hs⟩
    | empty => exact ⟨tk .IDENT "returns", _, by simp [printBodyExpr, respToks]; rfl, by decide⟩
    | expr a st v => exact ⟨tk .IDENT "returns", _, by simp [printBodyExpr, respToks]; rfl, by decide⟩
  | empty => exact ⟨tk .LPAREN "(", _, by simp [printBodyExpr]; rfl, by decide⟩
  | expr a st v => exact ⟨tk .LPAREN "(", _, by simp [printBodyExpr]; rfl, by decide⟩

theorem parseItems_print (its : List Item) : ∀ (f : Nat) (c : Tok) (rest : List Tok),
    (∀ i ∈ its, wfItem i) → szItems its ≤ f → (c.k = .RBRACE ∧ c.s ≠ "returns") →
    parseItems f (printItems its ++ c :: rest) = some (its, c :: rest) := by
  induction its with
  | nil =>
    intro f c rest _ hf hc
    obtain ⟨f, rfl⟩ : ∃ g, f = g + 1 := ⟨f - 1, by simp [szItems] at hf; omega⟩
    simp [parseItems, printItems, hc.1]
  | cons i r ih =>
    intro f c rest hw hf hc
    obtain ⟨f, rfl⟩ : ∃ g, f = g + 1 := ⟨f - 1, by simp [szItems] at hf; omega⟩
    obtain ⟨hwd, hwm, hwp⟩ := hw i (by simp)
    have hce : itemEnd c := by
      obtain ⟨k, s, nl, cm⟩ := c
      obtain ⟨h1, h2⟩ := hc
      simp only at h1 h2
      subst h1
      exact ⟨by simp [endsRoute], h2⟩
    have ih' := ih f c rest (fun x hx => hw x (by simp [hx])) (by simp [szItems] at hf; omega) hc
    obtain ⟨q, tl, hq, hqe, _⟩ := printItems_head r c rest hce
    rw [hq] at ih'
    obtain ⟨c', tl', hc', hsp⟩ := routeToks_head i.req i.resp q tl hqe
    have hpath := parsePath_print i.path f c' tl' hwp (by simp [szItems] at hf; omega) hsp
    have hrt := parseRouteTail_print i.req i.resp q tl hqe
    rw [hc'] at hrt
    have hdoc := parseDoc_print i.doc f (tk .AT_HANDLER "@handler" true)
      (tk .IDENT i.handler :: tk .IDENT i.method true :: (printPath i.path ++ c' :: tl')) hwd
      (by simp [szItems] at hf; omega) rfl
    have he : printItems (i :: r) ++ c :: rest = printItem i ++ (printItems r ++ c :: rest) := by simp [printItems]
    rw [he, printItem_eq, hq, hc']
    -- the first token is `@doc` or `@handler`, never the closing brace
    obtain ⟨t, tt, ht, hne⟩ : ∃ t tt, printDoc i.doc ++ (tk .AT_HANDLER "@handler" true :: tk .IDENT i.handler ::
        tk .IDENT i.method true :: (printPath i.path ++ c' :: tl')) = t :: tt ∧ t.k ≠ .RBRACE := by
      cases i.doc with
      | none => exact ⟨_, _, by simp [printDoc]; exact ⟨rfl, rfl⟩, by simp [tk]⟩
      | lit s => exact ⟨_, _, by simp [printDoc]; exact ⟨rfl, rfl⟩, by simp [tk]⟩
      | group kvs => exact ⟨_, _, by simp [printDoc]; exact ⟨rfl, rfl⟩, by simp [tk]⟩
    rw [ht] at hdoc ⊢
    obtain ⟨hend, _⟩ := hqe
    simp only [parseItems, hne, if_false, hdoc]
    simp [tk, hwm] at hpath hrt ⊢
    simp [hpath, hrt, hend, ih']

/-! ### @server values -/

theorem parseSepIdents_print (sep : K) (txt : String) (xs : List String) : ∀ (f : Nat) (c : Tok) (rest : List Tok),
    xs.length + 1 ≤ f → c.k ≠ sep →
    parseSepIdents sep f (printSepIdents sep txt xs ++ c :: rest) = some (xs, c :: rest) := by
  induction xs with
  | nil =>
    intro f c rest hf hc
    obtain ⟨f, rfl⟩ : ∃ g, f = g + 1 := ⟨f - 1, by simp at hf; omega⟩
    simp [parseSepIdents, printSepIdents, hc]
  | cons a r ih =>
    intro f c rest hf hc
    obtain ⟨f, rfl⟩ : ∃ g, f = g + 1 := ⟨f - 1, by simp at hf; omega⟩
    have ih' := ih f c rest (by simp at hf; omega) hc
    simp [parseSepIdents, printSepIdents, tk, ih']

theorem printSlashSegs_head (ss : List (String × Option String)) (c : Tok) (rest : List Tok) :
    ∃ q tl, printSlashSegs ss ++ c :: rest = q :: tl ∧ (q = c ∨ q.k = .QUO) := by
  cases ss with
  | nil => exact ⟨c, rest, by simp [printSlashSegs], Or.inl rfl⟩
  | cons x r =>
    obtain ⟨a, b⟩ := x
    cases b with
    | none => exact ⟨tk .QUO "/", _, by simp [printSlashSegs]; rfl, Or.inr rfl⟩
    | some b => exact ⟨tk .QUO "/", _, by simp [printSlashSegs]; rfl, Or.inr rfl⟩

/-- what may follow an `@server` value: the next key or the closing parenthesis -/
def nextKV (c : Tok) : Prop := c.k = .RPAREN ∨ c.k = .IDENT

theorem parseSlashSegs_print (ss : List (String × Option String)) : ∀ (f : Nat) (c : Tok) (rest : List Tok),
    ss.length + 1 ≤ f → nextKV c →
    parseSlashSegs f (printSlashSegs ss ++ c :: rest) = some (ss, c :: rest) := by
  induction ss with
  | nil =>
    intro f c rest hf hc
    obtain ⟨f, rfl⟩ : ∃ g, f = g + 1 := ⟨f - 1, by simp at hf; omega⟩
    obtain ⟨k, s, nl, cm⟩ := c
    rcases hc with h | h <;> simp only at h <;> subst h <;> simp [parseSlashSegs, printSlashSegs]
  | cons x r ih =>
    intro f c rest hf hc
    obtain ⟨f, rfl⟩ : ∃ g, f = g + 1 := ⟨f - 1, by simp at hf; omega⟩
    have ih' := ih f c rest (by simp at hf; omega) hc
    obtain ⟨a, b⟩ := x
    cases b with
    | some b => simp [parseSlashSegs, printSlashSegs, tk, ih']
    | none =>
      obtain ⟨q, tl, hq, hqk⟩ := printSlashSegs_head r c rest
      rw [hq] at ih'
      have hsub : q.k ≠ .SUB := by
        rcases hqk with h | h
        · subst h; rcases hc with h | h <;> simp [h]
        · simp [h]
      obtain ⟨k, s, nl, cm⟩ := q
      simp only at hsub
      simp only [printSlashSegs, tk, List.cons_append, hq]
      cases k <;> simp at hsub <;> simp [parseSlashSegs, ih']

def wfSVal : SVal → Prop
  | .lit k _ => k = .DURATION ∨ k = .INT ∨ k = .STRING
  | .commas _ r => r ≠ []
  | .dashes _ r => r ≠ []
  | _ => True

def szSVal : SVal → Nat
  | .lit _ _ => 0
  | .commas _ r => r.length + 1
  | .dashes _ r => r.length + 1
  | .slashed _ _ ss => ss.length + 1
  | .ident _ ss => ss.length + 1

theorem nextKV_facts (c : Tok) (h : nextKV c) : c.k ≠ .COMMA ∧ c.k ≠ .SUB ∧ c.k ≠ .QUO := by
  rcases h with h | h <;> simp [h]

theorem parseSVal_print (v : SVal) (f : Nat) (c : Tok) (rest : List Tok) (hw : wfSVal v) (hf : szSVal v ≤ f)
    (hc : nextKV c) : parseSVal f (printSVal v ++ c :: rest) = some (v, c :: rest) := by
  obtain ⟨hcomma, hsub, hquo⟩ := nextKV_facts c hc
  cases v with
  | lit k s =>
    simp only [wfSVal] at hw
    rcases hw with h | h | h <;> subst h <;> simp [parseSVal, printSVal, tk]
  | commas a r =>
    simp only [wfSVal] at hw
    simp only [szSVal] at hf
    have h := parseSepIdents_print .COMMA "," r f c rest hf hcomma
    cases r with
    | nil => exact absurd rfl hw
    | cons x xs =>
      simp only [printSVal, printSepIdents, tk, List.cons_append] at h ⊢
      simp [parseSVal, h]
  | dashes a r =>
    simp only [wfSVal] at hw
    simp only [szSVal] at hf
    have h := parseSepIdents_print .SUB "-" r f c rest hf hsub
    cases r with
    | nil => exact absurd rfl hw
    | cons x xs =>
      simp only [printSVal, printSepIdents, tk, List.cons_append] at h ⊢
      simp [parseSVal, h]
  | slashed a b ss =>
    simp only [szSVal] at hf
    have h := parseSlashSegs_print ss f c rest hf hc
    cases b with
    | some b => simp [parseSVal, printSVal, tk, h]
    | none =>
      obtain ⟨q, tl, hq, hqk⟩ := printSlashSegs_head ss c rest
      rw [hq] at h
      have hs : q.k ≠ .SUB := by
        rcases hqk with h' | h'
        · subst h'; exact hsub
        · simp [h']
      obtain ⟨k, s, nl, cm⟩ := q
      simp only at hs
      simp only [printSVal, tk, List.cons_append, hq]
      cases k <;> simp at hs <;> simp [parseSVal, h]
  | ident a ss =>
    simp only [szSVal] at hf
    have h := parseSlashSegs_print ss f c rest hf hc
    obtain ⟨q, tl, hq, hqk⟩ := printSlashSegs_head ss c rest
    rw [hq] at h
    have hs : q.k ≠ .SUB ∧ q.k ≠ .COMMA := by
      rcases hqk with h' | h'
      · subst h'; exact ⟨hsub, hcomma⟩
      · simp [h']
    obtain ⟨k, s, nl, cm⟩ := q
    simp only at hs
    simp only [printSVal, tk, List.cons_append, hq]
    cases k <;> simp at hs <;> simp [parseSVal, h]
theorem printImports_length (vs : List String) : (printImports vs).length = vs.length := by
  induction vs with
  | nil => rfl
  | cons v r ih => simp [printImports, ih]

theorem printKVs_length (kvs : List KV) : (printKVs kvs).length = 3 * kvs.length := by
  induction kvs with
  | nil => rfl
  | cons kv r ih => simp [printKVs, ih]; omega


/-! ### @server key/value lists, the service statement -/

def szSKVs : List SKV → Nat
  | [] => 1
  | kv :: r => szSVal kv.val + szSKVs r + 1

theorem printSKVs_head (kvs : List SKV) (c : Tok) (rest : List Tok) (hc : c.k = .RPAREN) :
    ∃ q tl, printSKVs kvs ++ c :: rest = q :: tl ∧ nextKV q := by
  cases kvs with
  | nil => exact ⟨c, rest, by simp [printSKVs], Or.inl hc⟩
  | cons kv r => exact ⟨tk .IDENT kv.key true, _, by simp [printSKVs]; rfl, Or.inr rfl⟩

theorem parseSKVs_print (kvs : List SKV) : ∀ (f : Nat) (c : Tok) (rest : List Tok),
    (∀ kv ∈ kvs, wfSVal kv.val) → szSKVs kvs ≤ f → c.k = .RPAREN →
    parseSKVs f (printSKVs kvs ++ c :: rest) = some (kvs, c :: rest) := by
  induction kvs with
  | nil =>
    intro f c rest _ hf hc
    obtain ⟨f, rfl⟩ : ∃ g, f = g + 1 := ⟨f - 1, by simp [szSKVs] at hf; omega⟩
    simp [parseSKVs, printSKVs, hc]
  | cons kv r ih =>
    intro f c rest hw hf hc
    obtain ⟨f, rfl⟩ : ∃ g, f = g + 1 := ⟨f - 1, by simp [szSKVs] at hf; omega⟩
    have ih' := ih f c rest (fun x hx => hw x (by simp [hx])) (by simp [szSKVs] at hf; omega) hc
    obtain ⟨q, tl, hq, hqk⟩ := printSKVs_head r c rest hc
    have hv := parseSVal_print kv.val f q tl (hw kv (by simp)) (by simp [szSKVs] at hf; omega) hqk
    rw [hq] at ih'
    unfold nextKV at hqk
    simp [parseSKVs, printSKVs, tk, List.append_assoc, hq, hv, hqk, ih']

/-- the tokens of a service statement after the optional `@server (...)` -/
def serviceToks (n : String) (api : Bool) (its : List Item) : List Tok :=
  tk .IDENT "service" true :: tk .IDENT n :: ((if api then [tk .SUB "-", tk .IDENT "api"] else []) ++
    tk .LBRACE "{" :: (printItems its ++ [tk .RBRACE "}" (!its.isEmpty)]))

theorem parseServiceBody_print (at_ : Option (List SKV)) (n : String) (api : Bool) (its : List Item) (f : Nat)
    (rest : List Tok) (hw : ∀ i ∈ its, wfItem i) (hf : szItems its ≤ f) :
    parseServiceBody f at_ (serviceToks n api its ++ rest) = some (.service at_ n api its, rest) := by
  have hi := parseItems_print its f (tk .RBRACE "}" (!its.isEmpty)) rest hw hf ⟨rfl, by simp [tk]⟩
  simp only [tk] at hi
  cases api with
  | true => simp [parseServiceBody, serviceToks, tk, hi]
  | false => simp [parseServiceBody, serviceToks, tk, hi]

/-! ### size bounds for services -/

theorem printSegTail_length (tl : List (Bool × String)) : tl.length ≤ (printSegTail tl).length := by
  induction tl with
  | nil => simp [printSegTail]
  | cons x r ih => obtain ⟨d, a⟩ := x; cases d <;> simp [printSegTail] <;> omega

theorem szSegs_le_len (ss : List Seg) : szSegs ss ≤ 2 * (printSegs ss).length + 1 := by
  induction ss with
  | nil => simp [szSegs, printSegs]
  | cons s r ih =>
    have := printSegTail_length s.tail
    cases h : s.colon <;> simp [szSegs, printSegs, h] <;> omega

theorem printSlashSegs_length (ss : List (String × Option String)) : 2 * ss.length ≤ (printSlashSegs ss).length := by
  induction ss with
  | nil => simp [printSlashSegs]
  | cons x r ih => obtain ⟨a, b⟩ := x; cases b <;> simp [printSlashSegs] <;> omega

theorem printSepIdents_length (k : K) (t : String) (xs : List String) : (printSepIdents k t xs).length = 2 * xs.length := by
  induction xs with
  | nil => rfl
  | cons a r ih => simp [printSepIdents, ih]; omega

theorem szSVal_le_len (v : SVal) : szSVal v ≤ (printSVal v).length := by
  cases v with
  | lit k s => simp [szSVal]
  | commas a r => simp [szSVal, printSVal, printSepIdents_length]; omega
  | dashes a r => simp [szSVal, printSVal, printSepIdents_length]; omega
  | slashed a b ss => have := printSlashSegs_length ss; cases b <;> simp [szSVal, printSVal] <;> omega
  | ident a ss => have := printSlashSegs_length ss; simp [szSVal, printSVal]; omega

theorem szSKVs_le_len (kvs : List SKV) : szSKVs kvs ≤ 2 * (printSKVs kvs).length + 1 := by
  induction kvs with
  | nil => simp [szSKVs, printSKVs]
  | cons kv r ih => have := szSVal_le_len kv.val; simp [szSKVs, printSKVs]; omega

theorem szItems_le_len (its : List Item) : szItems its ≤ 2 * (printItems its).length + 1 := by
  induction its with
  | nil => simp [szItems, printItems]
  | cons i r ih =>
    have h1 := szSegs_le_len i.path.segs
    have h2 : (printSegs i.path.segs).length ≤ (printPath i.path).length := by simp [printPath]
    have h3 : szDoc i.doc ≤ (printDoc i.doc).length := by
      cases i.doc <;> simp [szDoc, printDoc, printKVs_length]; omega
    have h4 : (printDoc i.doc).length + 3 + (printPath i.path).length ≤ (printItem i).length := by
      simp [printItem]; omega
    simp [szItems, printItems]; omega

/-! ### statements -/

def szStmt : Stmt → Nat
  | .syntaxS _ => 1
  | .info kvs => kvs.length + 2
  | .importLit _ => 1
  | .importGroup vs => vs.length + 2
  | .typeLit e => szDT e.ty + 1
  | .typeGroup es => szTExprs es + 1
  | .service none _ _ its => szItems its + 1
  | .service (some kvs) _ _ its => szSKVs kvs + szItems its + 1

/-- well-formed statement: what the parser can produce -/
def wfStmt : Stmt → Prop
  | .syntaxS _ => True
  | .info kvs => ∀ kv ∈ kvs, wfKV kv
  | .importLit _ => True
  | .importGroup _ => True
  | .typeLit e => wfTExpr e
  | .typeGroup es => ∀ e ∈ es, wfTExpr e
  | .service at_ _ _ its => (∀ kvs, at_ = some kvs → ∀ kv ∈ kvs, wfSVal kv.val) ∧ (∀ i ∈ its, wfItem i)

theorem parseStmt_print (s : Stmt) (f : Nat) (rest : List Tok) (hw : wfStmt s) (hf : szStmt s ≤ f) :
    parseStmt f (printStmt s ++ rest) = some (s, rest) := by
  cases s with
  | syntaxS v => simp [parseStmt, printStmt, tk]
  | importLit v => simp [parseStmt, printStmt, tk]
  | info kvs =>
    simp only [wfStmt] at hw
    simp only [szStmt] at hf
    have h := parseKVs_print kvs f (tk .RPAREN ")" true) rest hw (by omega) rfl
    simp [parseStmt, printStmt, tk] at h ⊢
    simp [h]
  | importGroup vs =>
    simp only [szStmt] at hf
    have h := parseImports_print vs f (tk .RPAREN ")" true) rest (by omega) rfl
    simp [parseStmt, printStmt, tk] at h ⊢
    simp [h]
  | typeLit e =>
    simp only [wfStmt] at hw
    simp only [szStmt] at hf
    have h := parseTExpr_markNl e f rest hw (by omega)
    rw [markNl_printTExpr] at h
    simp only [tk, List.cons_append] at h
    have hnl : parseTExpr f ({ k := .IDENT, s := e.name } ::
          ((if e.assign = true then [{ k := K.ASSIGN, s := "=" }] else []) ++ printDT e.ty ++ rest))
        = parseTExpr f ({ k := .IDENT, s := e.name, nl := true } ::
          ((if e.assign = true then [{ k := K.ASSIGN, s := "=" }] else []) ++ printDT e.ty ++ rest)) := by
      simp [parseTExpr]
    simp [parseStmt, printStmt, printTExpr, tk]
    simp only [List.append_assoc] at hnl h
    rw [hnl, h]
  | typeGroup es =>
    simp only [wfStmt] at hw
    simp only [szStmt] at hf
    have h := parseTExprs_print es f (tk .RPAREN ")" true) rest hw (by omega) rfl
    simp [parseStmt, printStmt, tk] at h ⊢
    simp [h]
  | service a n api its =>
    obtain ⟨hwa, hwi⟩ := hw
    cases a with
    | none =>
      simp only [szStmt] at hf
      have h := parseServiceBody_print none n api its f rest hwi (by omega)
      simp only [serviceToks, tk, List.cons_append, List.append_assoc, List.nil_append] at h
      simp [parseStmt, printStmt, tk, h]
    | some kvs =>
      simp only [szStmt] at hf
      have h := parseServiceBody_print (some kvs) n api its f rest hwi (by omega)
      have hk := parseSKVs_print kvs f (tk .RPAREN ")" true) (serviceToks n api its ++ rest)
        (hwa kvs rfl) (by omega) rfl
      simp only [serviceToks, tk, List.cons_append, List.append_assoc, List.nil_append] at h hk
      simp [parseStmt, printStmt, tk] at hk ⊢
      simp [hk, h]

/-! ### the statement list -/

def szApi : Api → Nat
  | [] => 0
  | s :: r => szStmt s + szApi r + 1

theorem printStmt_ne_nil (s : Stmt) : ∃ t tl, printStmt s = t :: tl := by
  cases s with
  | service a n api its => cases a <;> simp [printStmt]
  | _ => simp [printStmt]

theorem parseStmts_print (a : Api) : ∀ (f : Nat), (∀ s ∈ a, wfStmt s) → szApi a ≤ f →
    parseStmts f (print a) = some a := by
  induction a with
  | nil => intro f _ _; cases f <;> simp [parseStmts, print]
  | cons s r ih =>
    intro f hw hf
    obtain ⟨f, rfl⟩ : ∃ g, f = g + 1 := ⟨f - 1, by simp [szApi] at hf; omega⟩
    have h1 := parseStmt_print s (f + 1) (print r) (hw s (by simp)) (by simp [szApi] at hf; omega)
    have h2 := ih f (fun x hx => hw x (by simp [hx])) (by simp [szApi] at hf; omega)
    obtain ⟨t, tl, ht⟩ := printStmt_ne_nil s
    simp only [print]
    rw [ht] at h1 ⊢
    simp only [List.cons_append] at h1 ⊢
    simp [parseStmts, h1, h2]

theorem szTExprs_le_len (es : List TExpr) : szTExprs es ≤ 2 * (printTExprs es).length + 1 := by
  induction es with
  | nil => simp [szTExprs, printTExprs]
  | cons e r ih =>
    have := szDT_le_len e.ty
    have hm : (markNl (printTExpr e)).length = (printTExpr e).length := by
      cases h : printTExpr e <;> simp [markNl]
    have hl : (printDT e.ty).length + 1 ≤ (printTExpr e).length := by
      simp [printTExpr]
    simp [szTExprs, printTExprs, hm]; omega

theorem szStmt_le_len (s : Stmt) (hw : wfStmt s) : szStmt s + 1 ≤ 2 * (printStmt s).length := by
  cases s with
  | syntaxS v => simp [szStmt, printStmt]
  | importLit v => simp [szStmt, printStmt]
  | info kvs => simp [szStmt, printStmt, printKVs_length]; omega
  | importGroup vs => simp [szStmt, printStmt, printImports_length]; omega
  | typeLit e =>
    have := szDT_le_len e.ty
    have hl : (printDT e.ty).length + 1 ≤ (printTExpr e).length := by simp [printTExpr]
    simp [szStmt, printStmt]; omega
  | typeGroup es =>
    have := szTExprs_le_len es
    simp [szStmt, printStmt]; omega
  | service a n api its =>
    have h1 := szItems_le_len its
    cases a with
    | none => simp [szStmt, printStmt]; omega
    | some kvs =>
      have h2 := szSKVs_le_len kvs
      simp [szStmt, printStmt]; omega

theorem szApi_le_len (a : Api) (hw : ∀ s ∈ a, wfStmt s) : szApi a ≤ 2 * (print a).length := by
  induction a with
  | nil => simp [szApi, print]
  | cons s r ih =>
    have h1 := szStmt_le_len s (hw s (by simp))
    have h2 := ih (fun x hx => hw x (by simp [hx]))
    simp [szApi, print]; omega

end GoZero.C20
