/-
C20 — driver. One section = one program.
Ops:  s <escaped chunk>  => ok
      fmt                => empty
                          | lex=<st> parse=<st> fmt=<st> oddlit=<0|1> oddcm=<0|1> T1 <tok>… A1 <dump>…
                            [ out=empty | lex2=<st> parse2=<st> fmt2=<st> idem=<0|1> ncomments=<n> comments=<c> T2 <tok>… A2 <dump>… [OUT1 … OUT2 …] ]
      <tok> = KIND|nl|cm|'text (real scanner, comments left out);  <dump> = canonical dump of the real parser's AST.
Correspondence (MISMATCH): the model parser accepts exactly what the real parser accepts and builds the same AST
(source and formatted text); the model formatter writes the same token texts as the real formatter; every AST the
model parser builds satisfies the decidable well-formedness predicate that the round-trip theorems assume.
Sections: `kind` valid | mut | sweep (one comment form at one position), `class` main or a known defect class of the
unchanged formatter (route-comment, empty-body-comment, inner-comment, comment-trailing-blank, star-slash,
ml-comment, ctl-literal, empty-source), `sure=1` = generated without keyword-like identifiers (valid by construction).
Monitor (MONITOR, the property on the implementation's own observations): no panic; a valid source is formatted;
an invalid one is rejected with an error; the formatted text scans, parses, has the same description, and
formatting it again changes nothing.
-/
import GoZero.Base.Trace
import GoZero.C20.Spec
import GoZero.C20.WfDec
import GoZero.C20.Scan
import GoZero.C20.Layout
namespace GoZero.C20

open GoZero

def kindOf : String → K
  | "ILLEGAL" => .ILLEGAL | "IDENT" => .IDENT | "INT" => .INT | "DURATION" => .DURATION | "STRING" => .STRING
  | "RAW" => .RAW | "SUB" => .SUB | "MUL" => .MUL | "QUO" => .QUO | "ASSIGN" => .ASSIGN | "LPAREN" => .LPAREN
  | "LBRACK" => .LBRACK | "LBRACE" => .LBRACE | "COMMA" => .COMMA | "DOT" => .DOT | "RPAREN" => .RPAREN
  | "RBRACE" => .RBRACE | "RBRACK" => .RBRACK | "SEMICOLON" => .SEMICOLON | "COLON" => .COLON
  | "ELLIPSIS" => .ELLIPSIS | "AT_DOC" => .AT_DOC | "AT_HANDLER" => .AT_HANDLER | "AT_SERVER" => .AT_SERVER
  | "ANY" => .ANY | _ => .OTHER

/-- `KIND|nl|cm|'text` -/
def parseTokWord (w : String) : Option Tok :=
  match w.splitOn "|" with
  | k :: nl :: cm :: rest =>
    let txt := "|".intercalate rest
    if txt.startsWith "'" && (nl == "0" || nl == "1") && (cm == "0" || cm == "1") then
      some { k := kindOf k, s := (txt.drop 1).toString, nl := nl == "1", cm := cm == "1" }
    else none
  | _ => none

def parseTokWords (ws : List String) : Option (List Tok) := ws.mapM parseTokWord

def isMarker (w : String) : Bool :=
  w == "T1" || w == "A1" || w == "T2" || w == "A2" || w == "OUT1" || w == "OUT2" || w == "LAY"

def isKvWord (w : String) : Bool :=
  w.startsWith "lex2=" || w.startsWith "out="

/-- words after marker `m` up to the next marker / header word -/
def sectionAfter (ws : List String) (m : String) : List String :=
  ((ws.dropWhile (· ≠ m)).drop 1).takeWhile fun w => !(isMarker w) && !(isKvWord w)


/-! ### round 4: the source text (from the `s` ops) and the scanner model -/

def hexVal (c : Char) : Nat :=
  if '0' ≤ c ∧ c ≤ '9' then c.toNat - 48 else if 'a' ≤ c ∧ c ≤ 'f' then c.toNat - 87
  else if 'A' ≤ c ∧ c ≤ 'F' then c.toNat - 55 else 0

/-- inverse of the harness' `esc` (same cases as its `unesc`) -/
def unescL : List Char → List Char
  | '\\' :: 's' :: r => ' ' :: unescL r
  | '\\' :: 'n' :: r => '\n' :: unescL r
  | '\\' :: 't' :: r => '\t' :: unescL r
  | '\\' :: 'r' :: r => '\r' :: unescL r
  | '\\' :: 'f' :: r => Char.ofNat 12 :: unescL r
  | '\\' :: 'v' :: r => Char.ofNat 11 :: unescL r
  | '\\' :: '\\' :: r => '\\' :: unescL r
  | '\\' :: 'u' :: a :: b :: c :: d :: r =>
    Char.ofNat (((hexVal a * 16 + hexVal b) * 16 + hexVal c) * 16 + hexVal d) :: unescL r
  | c :: r => c :: unescL r
  | [] => []

/-- the harness' `esc` -/
def escL : List Char → List Char
  | [] => []
  | c :: r =>
    (if c = ' ' then ['\\', 's'] else if c = '\n' then ['\\', 'n'] else if c = '\t' then ['\\', 't']
     else if c = '\r' then ['\\', 'r'] else if c.toNat = 12 then ['\\', 'f'] else if c.toNat = 11 then ['\\', 'v']
     else if c = '\\' then ['\\', '\\'] else if c.toNat = 0x85 then "\\u0085".toList
     else if c.toNat = 0xA0 then "\\u00a0".toList else if c.toNat = 0x2028 then "\\u2028".toList
     else if c.toNat = 0x2029 then "\\u2029".toList else [c]) ++ escL r

def kindName : K → String
  | .ILLEGAL => "ILLEGAL" | .IDENT => "IDENT" | .INT => "INT" | .DURATION => "DURATION" | .STRING => "STRING"
  | .RAW => "RAW" | .SUB => "SUB" | .MUL => "MUL" | .QUO => "QUO" | .ASSIGN => "ASSIGN" | .LPAREN => "LPAREN"
  | .LBRACK => "LBRACK" | .LBRACE => "LBRACE" | .COMMA => "COMMA" | .DOT => "DOT" | .RPAREN => "RPAREN"
  | .RBRACE => "RBRACE" | .RBRACK => "RBRACK" | .SEMICOLON => "SEMICOLON" | .COLON => "COLON"
  | .ELLIPSIS => "ELLIPSIS" | .AT_DOC => "AT_DOC" | .AT_HANDLER => "AT_HANDLER" | .AT_SERVER => "AT_SERVER"
  | .ANY => "ANY" | .OTHER => "OTHER"

def b01 (b : Bool) : String := if b then "1" else "0"

/-- the words the harness prints for a raw token list (comments as `COMMENT|0|0|'text` / `DOCUMENT|0|0|'text`) -/
def rtokWords : Nat → List Scan.RTok → List String
  | _, [] => []
  | prev, t :: r =>
    match t.k with
    | .tok k =>
      let cm : Bool := match r with
        | n :: _ => (n.k == .comment || n.k == .document) && n.line == t.line
        | [] => false
      s!"{kindName k}|{b01 (decide (t.line > prev))}|{b01 cm}|'{String.ofList (escL t.text)}" :: rtokWords t.line r
    | .comment => s!"COMMENT|0|0|'{String.ofList (escL t.text)}" :: rtokWords prev r
    | .document => s!"DOCUMENT|0|0|'{String.ofList (escL t.text)}" :: rtokWords prev r

def isCommentWord (w : String) : Bool := w.startsWith "COMMENT|" || w.startsWith "DOCUMENT|"

/-- text of a token word (escaped form) -/
def wordText (w : String) : List Char :=
  match w.splitOn "|" with
  | _ :: _ :: _ :: rest => (("|".intercalate rest).toList).drop 1
  | _ => []

def noWS (cs : List Char) : List Char := cs.filter fun c => !Scan.isWS c

/-- first position where two word lists differ -/
def firstDiff : Nat → List String → List String → String
  | i, a :: r, b :: q => if a == b then firstDiff (i + 1) r q else s!"token {i}: model {a} / real {b}"
  | i, a :: _, [] => s!"token {i}: model {a} / real <end>"
  | i, [], b :: _ => s!"token {i}: model <end> / real {b}"
  | _, [], [] => "equal"

/-- scanner: correspondence model = real (token kinds, texts, line-break and comment flags, comments), and the
model-free monitor: a scan without ILLEGAL token neither loses nor invents a character -/
def runScan (r : Report) (sec line : Nat) (src : List Char) (lex prs : String) (t1 : List String) (what cls : String) : Report := Id.run do
  let mut r := r
  match Scan.scanAll src with
  | .err =>
    r := r.addCover "scan-model-error"
    if lex != "err" then r := r.mismatch sec line s!"scanner model ({what}): error" s!"lex={lex}"
  | .stuck =>
    r := r.addCover "scan-model-stuck"
    if lex != "err" then r := r.mismatch sec line s!"scanner model ({what}): `@` as the last rune is returned for ever" s!"lex={lex}"
  | .ok ts =>
    if lex != "ok" then r := r.mismatch sec line s!"scanner model ({what}): {ts.length} tokens" s!"lex={lex}"
    else
      let mw := rtokWords 0 ts
      if mw != t1 then r := r.mismatch sec line s!"scanner model ({what})" (firstDiff 0 mw t1)
      else r := r.addCover "scan-model-equal"
      for t in ts do
        match t.k with
        | .tok .DURATION => r := r.addCover "scan-duration"
        | .tok .ANY => r := r.addCover "scan-interface{}"
        | .tok .ELLIPSIS => r := r.addCover "scan-ellipsis"
        | .tok .ILLEGAL => r := r.addCover "scan-illegal"
        | .tok .INT => r := r.addCover "scan-int"
        | .tok .RAW => r := r.addCover "scan-raw-string"
        | .comment => r := r.addCover "scan-line-comment"
        | .document => r := r.addCover "scan-block-comment"
        | _ => pure ()
  -- judged for every text the real parser ACCEPTS (those tokens are what the formatter writes back); an invalid text
  -- only has to be rejected (`..` is read as one DOT, the runes in front of an ILLEGAL rune of a duration are dropped)
  if lex == "ok" && prs == "ok" then
    let got := noWS (unescL (t1.flatMap wordText))
    if got != noWS src then
      let msg := s!"the scanner lost or invented characters ({what}): the token texts are not the source without white space: {String.ofList (escL (got.take 120))}"
      -- the reproduction stream of the NUL defect (C20_NUL=1; not part of the default streams)
      if cls == "nul-rune" then r := (r.violation sec line s!"[known-class nul-rune] {msg}").addCover "known-class-nul-rune"
      else r := r.violation sec line msg
    else r := r.addCover "scan-conserves-characters"
  return r

def stmtKind : Stmt → String
  | .syntaxS _ => "stmt-syntax" | .info _ => "stmt-info" | .importLit _ => "stmt-import"
  | .importGroup _ => "stmt-import-group" | .typeLit _ => "stmt-type" | .typeGroup _ => "stmt-type-group"
  | .service (some _) .. => "stmt-service-atserver" | .service none .. => "stmt-service"

def coverApi (r : Report) (a : Api) : Report := Id.run do
  let mut r := r
  for s in a do
    r := r.addCover (stmtKind s)
    match s with
    | .service _ _ _ its =>
      for i in its do
        r := r.addCover "route"
        match i.doc with
        | .lit _ => r := r.addCover "doc-literal"
        | .group _ => r := r.addCover "doc-group"
        | .none => pure ()
        match i.req with | .expr .. => r := r.addCover "request-body" | .empty => r := r.addCover "empty-body" | _ => pure ()
        match i.resp with | .expr .. => r := r.addCover "response-body" | .empty => r := r.addCover "empty-body" | _ => pure ()
    | _ => pure ()
  let d := dump a
  for (w, name) in [("struct", "dt-struct"), ("map", "dt-map"), ("arr", "dt-array"), ("slice", "dt-slice"),
                    ("ptr", "dt-pointer"), ("iface", "dt-interface"), ("any", "dt-any"), ("tag", "field-tag")] do
    let n := d.count w
    if n > 0 then r := r.addCover name n
  if d.contains "field" && (d.zip (d.drop 1) |>.zip (d.drop 2)).any (fun ((a, b), c) => a == "field" && b == "(" && c == ")") then
    r := r.addCover "field-anonymous"
  return r

/-- Known defect classes (each has an entry in known_findings.json): a monitor failure of one of the kinds the
class is known to produce is reported with the prefix `[known-class <id>]`; every other failure is reported plainly. -/
def classExpects (cls : String) (kind : String) : Bool :=
  match cls with
  | "route-comment" => kind == "idem"
  | "empty-body-comment" => kind == "idem" || kind == "reparse"
  | "inner-comment" => kind == "idem" || kind == "reparse"
  | "comment-trailing-blank" => kind == "idem"
  | "ml-comment" => kind == "idem"
  | "ctl-literal" => kind == "idem" || kind == "desc"
  | "star-slash" => kind == "rejected"
  | "nul-rune" => kind == "cons"
  | _ => false

def viol (r : Report) (sec line : Nat) (cls kind msg : String) : Report :=
  if classExpects cls kind then (r.violation sec line s!"[known-class {cls}] {msg}").addCover ("known-class-" ++ cls)
  else r.violation sec line msg

def coverSlots (r : Report) (cfg : List String) : Report := Id.run do
  let mut r := r
  let sl := kvStr cfg "slots" "-"
  if sl == "-" || sl == "" then return r
  for e in sl.splitOn "," do
    match e.splitOn "/" with
    | [slot, k] =>
      r := r.addCover ("cm-at:" ++ slot)
      r := r.addCover ("cm-kind:" ++ k)
    | _ => pure ()
  return r


/-! ### round 5: blank lines between top-level statements (statement-level model of AST.Format, Layout.lean) -/

/-- `idx:d,idx:d` -/
def parseBlank (w : String) : Option (List (Nat × Nat)) :=
  if w == "-" then some [] else
  (w.splitOn ",").mapM fun e =>
    match e.splitOn ":" with
    | [a, b] => match a.toNat?, b.toNat? with
      | some x, some y => some (x, y)
      | _, _ => none
    | _ => none

/-- index (among the non-comment tokens) of the first token of every statement -/
def stmtStarts : Nat → Api → List Nat
  | _, [] => []
  | n, s :: r => n :: stmtStarts (n + (printStmt s).length) r

def showNats (l : List Nat) : String := ",".intercalate (l.map toString)

/-- cover classes: dropped statements at the places the look-ahead of AST.Format walks over; and the model of the loop
never reads outside the statement list (theorem astFormat_never_crashes, evaluated) -/
def coverDrops (r : Report) (sec line : Nat) (m1 : Api) : Report := Id.run do
  let mut r := r
  if Layout.crashes (Layout.astFormat (m1.map Layout.stOf)) then
    r := r.mismatch sec line "AST.Format model: no index outside a.Stmts" "the model reads outside the statement list"
  -- dropped statements at the places the look-ahead of AST.Format walks over
  let sts := m1.map Layout.stOf
  let rec classes (l : List Layout.St) (r : Report) : Report :=
    match l with
    | [] => r
    | s :: q =>
      let r := if s.k == .importLit && !s.empty then
          (match q.dropWhile (·.empty) with
           | [] => if q.isEmpty then r.addCover "import-literal-is-last" else r.addCover "import-literal-then-only-dropped"
           | t :: _ => if q.head?.map (·.empty) == some true then
                 (if t.k == .importLit then r.addCover "import-literal-dropped-import-literal" else r.addCover "import-literal-dropped-other")
               else r)
        else r
      classes q r
  r := classes sts r
  if (sts.head?.map (·.empty)) == some true then r := r.addCover "dropped-statement-first"
  if (sts.getLast?.map (·.empty)) == some true then r := r.addCover "dropped-statement-last"
  if !sts.isEmpty && sts.all (·.empty) then r := r.addCover "all-statements-dropped"
  return r

/-- Correspondence C-lay: for a comment-free program the real output has the first token on line 1, in front of every
further top-level statement the distance that `Layout.textLayout` computes from the index loop of AST.Format, and its
number of line feeds at the end.  `m1` = the program that was formatted, `m2` = the model AST of the output. -/
def runLayout (r : Report) (sec line : Nat) (obs : List String) (m1 m2 : Api) (ncm : Nat) (oddLit : Bool) : Report := Id.run do
  let mut r := r
  let lay := sectionAfter obs "LAY"
  if lay.isEmpty then return r.mismatch sec line "layout observation (LAY)" "missing"
  if ncm > 0 || oddLit then return r.addCover "layout-not-judged-comments"
  match parseBlank (kvStr lay "blank" "?") with
  | none => return r.mismatch sec line "layout observation (blank=)" (joinSp lay)
  | some blank =>
  let exp := Layout.textLayout m1
  let starts := stmtStarts 0 m2
  let gaps := (starts.drop 1).map fun i => ((blank.lookup i).getD 1)
  let real : Layout.TextLayout := ⟨kvNat lay "first", gaps, kvNat lay "trail"⟩
  if real != exp then
    r := r.mismatch sec line s!"layout: first={exp.first} gaps={showNats exp.gaps} trail={exp.trail}"
      s!"layout: first={real.first} gaps={showNats real.gaps} trail={real.trail}"
  else
    r := r.addCover "layout-equal"
    if exp.gaps.contains 1 then r := r.addCover "layout-import-literals-adjacent"
    if exp.trail == 1 then r := r.addCover "layout-import-literal-last"
  return r

def runFmt (r : Report) (sec : Nat) (line : Nat) (cfg : List String) (src : List Char) (obs : List String) : Report := Id.run do
  let kind := kvStr cfg "kind" "valid"
  let cls0 := kvStr cfg "class" "main"
  let sure := kvStr cfg "sure" "0" == "1"
  let mut r := r
  match obs with
  | "empty" :: rest =>
    -- the empty source: format.Source is run in a child process (it may terminate the process)
    r := r.addCover "empty-source"
    -- only the dedicated section is judged (shrinking a failing program may pass through the empty source)
    if cls0 != "empty-source" then return r.addCover "empty-source-not-judged"
    let res := kvStr rest "result"
    if res == "err" then return r.addCover "empty-source-error"
    if res == "ok" then return r.addCover "empty-source-ok"
    return r.violation sec line s!"[known-class empty-source] format.Source on an empty source terminates the process instead of returning an error: {joinSp rest}"
  | _ => pure ()
  let lex := kvStr obs "lex"
  let prs := kvStr obs "parse"
  let fmt := kvStr obs "fmt"
  if lex == "" || prs == "" || fmt == "" then return r.mismatch sec line "well-formed observation" (joinSp (obs.take 6))
  let oddLit := kvStr obs "oddlit" == "1"
  let oddCm := kvStr obs "oddcm" == "1"
  -- the defect class of this program: from the generator, or visible in the observation
  let cls := if cls0 != "main" then cls0 else if oddLit then "ctl-literal" else if oddCm then "ml-comment" else "main"
  r := r.addCover ("class-" ++ cls)
  -- the scanner and parser report errors rather than crashing
  if lex == "panic" || prs == "panic" || fmt == "panic" || prs == "nil" then
    r := r.violation sec line s!"crash instead of an error: lex={lex} parse={prs} fmt={fmt} (kind={kind})"
    r := r.addCover "panic"
    return r
  let t1all := sectionAfter obs "T1"
  r := runScan r sec line src lex prs t1all "source" cls0
  if lex != "ok" then
    r := r.addCover "scanner-error"
    if prs == "ok" || fmt == "ok" then
      r := r.violation sec line s!"scanner reports an error but parse={prs} fmt={fmt}"
    if sure then r := viol r sec line cls "rejected" s!"a source that is valid by construction is rejected by the scanner: lex={lex}"
    return r
  -- round 4: the tokens the model parser judges are the MODEL scanner's (valid source = scanner model + grammar model
  -- accept the text); they are the real scanner's tokens unless a MISMATCH was reported above
  let t1judge := match Scan.scanAll src with
    | .ok ts => rtokWords 0 ts
    | _ => t1all
  match parseTokWords (t1judge.filter (!isCommentWord ·)) with
  | none => return r.mismatch sec line "token words" "unparsable T1"
  | some t1 =>
  let m1 := parse t1
  let a1 := sectionAfter obs "A1"
  -- correspondence: parser
  match m1 with
  | none =>
    r := r.addCover ("invalid-" ++ kind)
    if prs == "ok" then
      r := r.mismatch sec line "parse error" "parse=ok"
      r := r.violation sec line s!"invalid source (the grammar model rejects it) is accepted without an error: fmt={fmt}"
    else
      r := r.addCover "invalid-rejected"
      if fmt == "ok" then r := r.violation sec line "the parser reports errors but format.Source succeeds"
    -- generated without keyword identifiers: valid by construction, so the token stream the scanner delivered is wrong
    if sure then r := viol r sec line cls "rejected" s!"a source that is valid by construction is rejected (scanner tokens do not form a program): parse={prs}"
    return r
  | some m1 =>
  r := r.addCover ("valid-" ++ kind)
  -- the hypothesis of the round-trip theorems (Props.lean: parse_print, format_correct) holds for this program
  if wfApiB m1 then r := r.addCover "ast-well-formed"
  else r := r.mismatch sec line "an AST in WF (hypothesis of parse_print / format_correct)" ("the model parser built: " ++ joinSp (dump m1))
  r := coverApi r m1
  r := coverSlots r cfg
  if prs != "ok" then
    r := r.mismatch sec line "parse ok" s!"parse={prs}"
    r := r.violation sec line s!"valid source (the grammar model accepts it) is rejected: parse={prs} fmt={fmt}"
    return r
  if dump m1 != a1 then
    r := r.mismatch sec line (joinSp (dump m1)) (joinSp a1)
  -- formatting a valid source succeeds
  if fmt != "ok" then
    return r.violation sec line s!"valid source but formatting fails: fmt={fmt}"
  let nm1 := norm m1
  if oddLit then r := r.addCover "control-char-in-literal"
  if oddCm then r := r.addCover "control-char-in-comment"
  if nm1.length < m1.length then r := r.addCover "dropped-empty-statement"
  r := coverDrops r sec line m1
  if obs.contains "out=empty" then
    r := r.addCover "output-empty"
    if !nm1.isEmpty then r := r.violation sec line "formatter wrote nothing for a program with content"
    return r
  let lex2 := kvStr obs "lex2"
  let prs2 := kvStr obs "parse2"
  let fmt2 := kvStr obs "fmt2"
  let idem := kvStr obs "idem"
  r := r.addCover ("comments-" ++ kvStr obs "comments")
  let ncm := kvNat obs "ncomments"
  if ncm > 0 then r := r.addCover "with-comments"
  -- a mutation can move a comment into one of the positions of the known classes route-comment /
  -- empty-body-comment (the driver cannot see from the tokens where a head comment sits): for mutated
  -- programs with comments the re-parse and the idempotence are not judged; the description still is
  let lenient := kind == "mut" && ncm > 0
  if lenient then r := r.addCover "mutated-with-comments"
  if lex2 != "ok" || prs2 != "ok" then
    if lenient then return r.addCover "skip-mutated-with-comments-reparse"
    return viol r sec line cls "reparse" s!"formatted text is not a valid source: lex2={lex2} parse2={prs2}"
  match parseTokWords ((sectionAfter obs "T2").filter (!isCommentWord ·)) with
  | none => return r.mismatch sec line "token words" "unparsable T2"
  | some t2 =>
  -- correspondence: formatter (token texts) and parser on the formatted text
  let f1 := format m1
  if oddLit then pure ()
  else if squash f1 != squash t2 then
    r := r.mismatch sec line ("format: " ++ squash f1) ("format: " ++ squash t2)
  else if sameToks f1 t2 then r := r.addCover "format-tokens-exact"
  else r := r.addCover "format-tokens-text-only"
  match parse t2 with
  | none =>
    r := r.mismatch sec line "parse error on formatted text" "parse2=ok"
    return r
  | some m2 =>
  let a2 := sectionAfter obs "A2"
  if dump m2 != a2 then r := r.mismatch sec line (joinSp (dump m2)) (joinSp a2)
  -- the property: same description, and idempotent
  if !sameDesc m1 m2 then
    r := viol r sec line cls "desc" s!"description changed by formatting: before=[{joinSp (desc m1)}] after=[{joinSp (desc m2)}]"
  else r := r.addCover "same-description"
  if fmt2 != "ok" then r := viol r sec line cls "reparse" s!"formatting the formatted text fails: fmt2={fmt2}"
  else if lenient then r := r.addCover "skip-mutated-with-comments-idempotence"
  else if idem != "1" then r := viol r sec line cls "idem" "formatting the result again changes it (not idempotent)"
  else r := r.addCover "idempotent"
  if dump (norm m2) == dump m2 then r := r.addCover "output-normal"
  if !lenient then r := runLayout r sec line obs m1 m2 ncm oddLit
  return r

/-- round 4: the ops that call the real code several times / with several instances / through format.File.
Model-free monitors: the observations of one text must agree with each other. -/
def runExtra (r : Report) (sec line : Nat) (op : String) (obs : List String) : Report := Id.run do
  let mut r := r.addCover ("op-" ++ op)
  if obs == ["na"] then return r.addCover ("op-" ++ op ++ "-na")
  let fmt := kvStr obs "fmt"
  if fmt == "" then return r.mismatch sec line "well-formed observation" (joinSp obs)
  if obs.any (fun w => w.endsWith "=panic") then
    return r.violation sec line s!"crash instead of an error ({op}): {joinSp obs}"
  match op with
  | "again" =>
    if kvStr obs "parse" != "ok" then
      if fmt == "ok" then r := r.violation sec line s!"format.Source succeeds but parsing the same text again fails: {joinSp obs}"
      else r := r.addCover "again-invalid"
    else
      if fmt != "ok" then r := r.violation sec line s!"format.Source fails for a text that parser.Parse accepts without error: {joinSp obs}"
      else if kvStr obs "src" != "1" then
        r := r.violation sec line s!"format.Source does not write what AST.Format writes for the same text: {joinSp obs}"
      if kvStr obs "twice" != "1" then
        r := r.violation sec line s!"formatting the SAME AST again writes a different text (Format changes the AST it prints): {joinSp obs}"
      else r := r.addCover "again-same-ast-same-text"
  | "file" =>
    let file := kvStr obs "file"
    -- round 5: what format.File must do is computed by the model `Layout.fileFormat` (read, Source, write)
    let m := Layout.fileFormat (fun _ => if fmt == "ok" then .ok "OUT" else .err) ⟨fun _ => some "SRC", fun _ => true⟩ "f"
    let mFile := if m.2.1 then "err" else "ok"
    let mSame := b01 (m.1.read "f" == some "OUT")
    let mKept := b01 (m.1.read "f" == some "SRC")
    if mFile == file && (if m.2.1 then mKept == kvStr obs "kept" else mSame == kvStr obs "same") then r := r.addCover "file-model-equal"
    else r := r.mismatch sec line s!"format.File model: file={mFile} same={mSame} kept={mKept}" (joinSp obs)
    if fmt == "ok" then
      if file != "ok" then r := r.violation sec line s!"format.File fails for a text that format.Source formats: {joinSp obs}"
      else if kvStr obs "same" != "1" then
        r := r.violation sec line s!"format.File does not write what format.Source writes for the same text: {joinSp obs}"
      else r := r.addCover "file-same-as-source"
    else
      if file != "err" then r := r.violation sec line s!"format.Source reports an error but format.File does not: {joinSp obs}"
      else if kvStr obs "kept" != "1" then
        r := r.violation sec line s!"format.File changed a file it could not format: {joinSp obs}"
      else r := r.addCover "file-error-keeps-file"
  | "inter" =>
    let a := kvStr obs "a"
    if kvStr obs "b" != "ok" then r := r.violation sec line s!"the fixed second program is rejected next to another parser instance: {joinSp obs}"
    else if a != kvStr obs "c" then r := r.violation sec line s!"two parser instances disagree on the same text: {joinSp obs}"
    else if a != "ok" then
      if fmt == "ok" then r := r.violation sec line s!"format.Source succeeds but a parser instance next to others rejects the text: {joinSp obs}"
      else r := r.addCover "inter-invalid"
    else if fmt != "ok" then r := r.violation sec line s!"format.Source fails for a text that parser.Parse accepts without error: {joinSp obs}"
    else if kvStr obs "sameA" != "1" || kvStr obs "sameC" != "1" || kvStr obs "sameB" != "1" then
      r := r.violation sec line s!"parser / formatter instances that are alive at the same time influence each other: {joinSp obs}"
    else r := r.addCover "inter-instances-independent"
  | "seq" =>
    -- the model's tables (`httpMethods`, `keywords`) are constants: whatever was processed before, a valid source formats
    if kvStr obs "tables" != "same" then
      r := r.violation sec line s!"the package-level tables of the token package (HttpMethods / keywords) changed while a source was processed - every later call in the process reads another language: {joinSp obs}"
    if kvStr obs "other" != "ok" || kvStr obs "same" != "1" then
      r := r.violation sec line s!"a valid source is rejected or formatted differently after another source was processed in the same process (formatting a valid source must succeed whatever was processed before): {joinSp obs}"
    else r := r.addCover (if fmt == "ok" then "seq-after-valid" else "seq-after-invalid")
  | "wrerr" =>
    -- AST.Format ignores the error of the writer: format.Source behaves as on a good writer (model of the code that exists)
    if kvStr obs "wr" == fmt then r := r.addCover ("wrerr-" ++ fmt)
    else r := r.mismatch sec line s!"format.Source into a failing writer: {fmt}" (joinSp obs)
  | "par" =>
    if kvStr obs "same" != "1" then
      r := r.violation sec line s!"concurrent format.Source calls influence each other: {joinSp obs}"
    else r := r.addCover "par-same-as-sequential"
  | "filex" =>
    -- the model: the file cannot be read -> error, the file system is unchanged (Layout.file_error_keeps_fs)
    let m := Layout.fileFormat (fun _ => .ok "OUT") ⟨fun _ => none, fun _ => true⟩ "f"
    let mFile := if m.2.1 then "err" else "ok"
    let mCreated := if (m.1.read "f").isSome then "1" else "0"
    if kvStr obs "file" != mFile || kvStr obs "created" != mCreated then
      r := r.mismatch sec line s!"format.File model (unreadable name): file={mFile} created={mCreated}" (joinSp obs)
      r := r.violation sec line s!"format.File on a name that cannot be read must return an error and create nothing: {joinSp obs}"
    else r := r.addCover "filex-error-nothing-created"
  | _ => r := r.mismatch sec line "bad-op" op
  return r

def runSection (r : Report) (s : Section) : Report := Id.run do
  let mut r := r
  let mut src : List Char := []
  for l in s.lines do
    r := { r with ops := r.ops + 1 }
    match l.op with
    | ["s", c] =>
      src := src ++ unescL c.toList
      if l.obs != ["ok"] then r := r.mismatch s.idx l.idx "ok" (joinSp l.obs)
    | ["fmt"] => r := runFmt r s.idx l.idx s.cfg src l.obs
    | ["again"] => r := runExtra r s.idx l.idx "again" l.obs
    | ["file"] => r := runExtra r s.idx l.idx "file" l.obs
    | ["inter"] => r := runExtra r s.idx l.idx "inter" l.obs
    | ["wrerr"] => r := runExtra r s.idx l.idx "wrerr" l.obs
    | ["seq"] => r := runExtra r s.idx l.idx "seq" l.obs
    | ["par"] => r := runExtra r s.idx l.idx "par" l.obs
    | ["filex", k] => r := (runExtra r s.idx l.idx "filex" l.obs).addCover ("filex-" ++ k)
    | _ => r := r.mismatch s.idx l.idx "bad-op" (joinSp l.op)
  return r

def driver (secs : List Section) : Report := secs.foldl runSection {}

end GoZero.C20
