/-
C20 — round 5: lemmas about the statement-level model of `AST.Format` (Layout.lean).
-/
import GoZero.C20.Layout
import GoZero.C20.Proofs
namespace GoZero.C20.Layout

def emp (s : St) : Bool := s.empty

theorem skip_real (r : List St) : ∀ (pre : List St) (idx fuel : Nat), r.length + 1 ≤ fuel →
    skip real (pre ++ r) idx fuel pre.length = (pre.length + (r.takeWhile emp).length, false) := by
  induction r with
  | nil =>
    intro pre idx fuel _
    cases fuel with
    | zero => simp [skip]
    | succ f => simp [skip, real]
  | cons t r ih =>
    intro pre idx fuel hf
    cases fuel with
    | zero => simp at hf
    | succ f =>
      have hlt : pre.length < (pre ++ t :: r).length := by simp
      have hget : (pre ++ t :: r)[pre.length]? = some t := by simp
      rw [skip]
      simp only [real, hlt, decide_true, if_true, hget]
      cases he : t.empty with
      | true =>
        have := ih (pre ++ [t]) idx f (by simp only [List.length_cons] at hf; omega)
        simp only [real, List.append_assoc, List.singleton_append, List.length_append, List.length_singleton] at this
        simp only [if_true, this, List.takeWhile_cons, emp, he, List.length_cons]
        congr 1; omega
      | false => simp [List.takeWhile_cons, emp, he]

theorem get_drop (r : List St) (pre : List St) :
    (pre ++ r)[pre.length + (r.takeWhile emp).length]? = (r.dropWhile emp).head? := by
  induction r generalizing pre with
  | nil => simp
  | cons t r ih =>
    cases he : emp t with
    | true =>
      have := ih (pre ++ [t])
      simp only [List.append_assoc, List.singleton_append, List.length_append, List.length_singleton] at this
      simp only [List.takeWhile_cons, he, if_true, List.length_cons, List.dropWhile_cons]
      rw [← this]; congr 1; omega
    | false => simp [List.takeWhile_cons, List.dropWhile_cons, he]

theorem takeWhile_lt_or (r : List St) :
    (r.dropWhile emp = [] ∧ (r.takeWhile emp).length = r.length) ∨
    (∃ t q, r.dropWhile emp = t :: q ∧ t.empty = false ∧ (r.takeWhile emp).length < r.length) := by
  induction r with
  | nil => simp
  | cons t r ih =>
    cases he : emp t with
    | true =>
      simp only [List.dropWhile_cons, List.takeWhile_cons, he, if_true, List.length_cons]
      rcases ih with ⟨h1, h2⟩ | ⟨u, q, h1, h2, h3⟩
      · left; exact ⟨h1, by omega⟩
      · right; exact ⟨u, q, h1, h2, by omega⟩
    | false =>
      right; refine ⟨t, r, by simp [List.dropWhile_cons, he], by simpa [emp] using he, by simp [List.takeWhile_cons, he]⟩

/-- the look-ahead behind an import literal, on the list split at the literal -/
theorem after_importLit (pre : List St) (s : St) (r : List St) :
    after real (pre ++ s :: r) pre.length .importLit =
      match r.dropWhile emp with
      | [] => []
      | t :: _ => if t.k = .importLit then [] else [.nl] := by
  have hs := skip_real r (pre ++ [s]) pre.length ((pre ++ s :: r).length + 1) (by simp; omega)
  have hg := get_drop r (pre ++ [s])
  have e1 : (pre ++ [s]) ++ r = pre ++ s :: r := by simp
  have e2 : (pre ++ [s]).length = pre.length + 1 := by simp
  rw [e1, e2] at hs hg
  unfold after
  simp only [hs]
  rcases takeWhile_lt_or r with ⟨h1, h2⟩ | ⟨t, q, h1, _, h3⟩
  · have : ¬ (pre.length + 1 + (List.takeWhile emp r).length < pre.length + (r.length + 1)) := by omega
    simp [real, h1, this]
  · have this : pre.length + 1 + (List.takeWhile emp r).length < (pre ++ s :: r).length := by
      simp only [List.length_append, List.length_cons]; omega
    simp only [real, this, decide_true, if_true, hg, h1, List.head?_cons, Bool.false_eq_true, if_false]

theorem visible_cons (s : St) (r : List St) :
    visible (s :: r) = if s.empty then visible r else s.k :: visible r := by
  cases h : s.empty <;> simp [visible, List.filter_cons, h]

theorem visible_dropWhile (r : List St) : visible r = visible (r.dropWhile emp) := by
  induction r with
  | nil => rfl
  | cons t r ih =>
    cases he : emp t with
    | true => simp only [List.dropWhile_cons, he, if_true]; rw [visible_cons]; simp [emp] at he; simp [he, ih]
    | false => simp [List.dropWhile_cons, he]

theorem countNl_loop (g : Guards) (ss : List St) (r : List St) (idx : Nat) : countNl (loop g ss idx r) = 0 := by
  induction r generalizing idx with
  | nil => rfl
  | cons s r ih =>
    unfold loop
    cases h : s.empty
    · simp [countNl]
    · simpa using ih (idx + 1)

/-- the loop, on the list split at the current index -/
theorem loop_spec (r : List St) : ∀ (pre : List St),
    seps (loop real (pre ++ r) pre.length r) = specSep (visible r) ∧
    crashes (loop real (pre ++ r) pre.length r) = false ∧
    written (loop real (pre ++ r) pre.length r) =
      ((List.range r.length).filter fun i => !(r[i]?.map (·.empty)).getD true).map (· + pre.length) := by
  induction r with
  | nil => intro pre; simp [loop, seps, specSep, visible, crashes, written]
  | cons s r ih =>
    intro pre
    have ih' := ih (pre ++ [s])
    simp only [List.append_assoc, List.singleton_append, List.length_append, List.length_singleton] at ih'
    obtain ⟨ih1, ih2, ih3⟩ := ih'
    have hw : ((List.range (s :: r).length).filter fun i => !((s :: r)[i]?.map (·.empty)).getD true) =
        (if s.empty then [] else [0]) ++
          (((List.range r.length).filter fun i => !(r[i]?.map (·.empty)).getD true).map (· + 1)) := by
      rw [List.length_cons, List.range_succ_eq_map, List.filter_cons]
      cases h : s.empty <;> simp [h, List.filter_map, Function.comp_def]
    unfold loop
    rw [hw]
    cases he : s.empty with
    | true =>
      simp only [if_true, List.nil_append, visible_cons, he]
      refine ⟨ih1, ih2, ?_⟩
      rw [ih3]; simp [List.map_map, Function.comp_def, Nat.add_comm, Nat.add_left_comm, Nat.add_assoc]
    | false =>
      have hwr : ∀ (x : List Ev), (∀ e ∈ x, e = Ev.nl) →
          written (Ev.stmt pre.length :: Ev.nl :: x ++ loop real (pre ++ s :: r) (pre.length + 1) r) =
            pre.length :: written (loop real (pre ++ s :: r) (pre.length + 1) r) := by
        intro x hx
        induction x with
        | nil => simp [written]
        | cons e x ihx =>
          have := hx e (by simp); subst this
          have := ihx (fun e he => hx e (by simp [he]))
          simpa [written] using this
      have hcr : ∀ (x : List Ev), (∀ e ∈ x, e = Ev.nl) →
          crashes (Ev.stmt pre.length :: Ev.nl :: x ++ loop real (pre ++ s :: r) (pre.length + 1) r) = false := by
        intro x hx
        simp only [crashes, List.cons_append, List.any_cons, List.any_append, Bool.false_or]
        have h2 := ih2
        simp only [crashes] at h2
        rw [h2, Bool.or_false]
        apply List.any_eq_false.mpr
        intro e he; rw [hx e he]; simp
      have hafter : ∃ x : List Ev, after real (pre ++ s :: r) pre.length s.k = x ∧ (x = [] ∨ x = [Ev.nl]) ∧
          specSep (s.k :: visible r) = (1 + x.length) :: specSep (visible r) := by
        cases hk : s.k
        case importLit =>
          rw [after_importLit]
          rw [visible_dropWhile r]
          rcases takeWhile_lt_or r with ⟨h1, _⟩ | ⟨t, q, h1, h2, _⟩
          · simp [h1, visible, specSep]
          · rw [h1, visible_cons, h2]
            by_cases hk' : t.k = .importLit <;> simp [hk', specSep]
        all_goals simp [after, specSep]
      obtain ⟨x, hx, hx2, hx3⟩ := hafter
      simp only [Bool.false_eq_true, if_false, visible_cons, he, hx, List.cons_append, List.append_assoc]
      have hxnl : ∀ e ∈ x, e = Ev.nl := by
        rcases hx2 with h | h <;> subst h <;> simp
      refine ⟨?_, by simpa using hcr x hxnl, ?_⟩
      · have hc : countNl (Ev.nl :: (x ++ loop real (pre ++ s :: r) (pre.length + 1) r)) = 1 + x.length := by
          rcases hx2 with h | h <;> subst h <;> simp [countNl, countNl_loop]
        have hs : seps (Ev.nl :: (x ++ loop real (pre ++ s :: r) (pre.length + 1) r)) =
            seps (loop real (pre ++ s :: r) (pre.length + 1) r) := by
          rcases hx2 with h | h <;> subst h <;> simp [seps]
        have hs' : seps (x ++ loop real (pre ++ s :: r) (pre.length + 1) r) =
            seps (loop real (pre ++ s :: r) (pre.length + 1) r) := by simpa [seps] using hs
        rw [hx3]
        show countNl (Ev.nl :: (x ++ loop real (pre ++ s :: r) (pre.length + 1) r)) ::
          seps (Ev.nl :: (x ++ loop real (pre ++ s :: r) (pre.length + 1) r)) = _
        rw [hc, hs, ih1]
      · have := hwr x hxnl
        simp only [List.cons_append] at this
        rw [this, ih3]
        simp [List.map_map, Function.comp_def, Nat.add_comm, Nat.add_left_comm, Nat.add_assoc]

theorem kindOf_normStmt (s t : Stmt) (h : normStmt s = some t) : kindOf t = kindOf s := by
  cases s <;> simp only [normStmt] at h
  case syntaxS v => cases h; rfl
  case info kvs => split at h <;> simp at h; cases h; rfl
  case importLit v => split at h <;> simp at h; cases h; rfl
  case importGroup vs => split at h <;> simp at h; cases h; rfl
  case typeLit e => cases h; rfl
  case typeGroup es => split at h <;> simp at h; cases h; rfl
  case service a n api its => cases h; rfl

theorem visible_stOf (a : Api) : visible (a.map stOf) = (norm a).map kindOf := by
  induction a with
  | nil => rfl
  | cons s a ih =>
    rw [List.map_cons, visible_cons, ih]
    cases h : normStmt s with
    | none => simp [stOf, h, norm, List.filterMap_cons]
    | some t => simp [stOf, h, norm, List.filterMap_cons, kindOf_normStmt s t h]

end GoZero.C20.Layout
