/-
C20 — Tie: what the extractor reads from tools/goctl/pkg/parser/api *now* equals what the model was written against.
  * the literal texts and tables the model parser compares token texts with (keywords, HTTP methods, "syntax", …);
  * per parser function: its lookahead skeleton (a changed expected token, a dropped keyword check, a reordered
    branch breaks the obligation of that function);
  * per Format method: its write skeleton (a dropped node in a Write call, a changed zero-string test, a changed
    option breaks it); the scanner's character table; format.Source's pipeline;
  * (round 2) per ast node type: its comment / position accessors, which Writer.write consults for every line break;
    Writer.write, transfer*TokenNode, TokenNode.Format, Parser.nextToken and the scanner's comment functions in full.
-/
import GoZero.Extracted.C20
import GoZero.C20.Model
import GoZero.C20.Ref
import GoZero.C20.Ref2
import GoZero.C20.Ref3
import GoZero.C20.Scan
namespace GoZero.C20.Tie
open GoZero.C20

theorem extraction_clean : Extracted.C20.extractionErrors = [] := by decide

/-- token.keywords is the model's keyword table -/
theorem tie_keywords : Extracted.C20.keywords = GoZero.C20.keywords := by rfl

/-- token.HttpMethods is the model's method table -/
theorem tie_httpMethods : Extracted.C20.httpMethods = GoZero.C20.httpMethods := by rfl

/-- the texts the parser compares identifiers with are the literals used in `parseStmt`, `parseDT`, `stopsPath`, `parseServiceBody` -/
theorem tie_texts :
    (Extracted.C20.tokSyntax, Extracted.C20.tokInfo, Extracted.C20.tokService, Extracted.C20.tokReturns, Extracted.C20.tokAny,
     Extracted.C20.tokTypeKeyword, Extracted.C20.tokMapKeyword, Extracted.C20.tokImportKeyword, Extracted.C20.idAPI)
    = ("syntax", "info", "service", "returns", "any", "type", "map", "import", "api") := by rfl

theorem tie_writer_consts :
    (Extracted.C20.wNilIndent, Extracted.C20.wWhiteSpace, Extracted.C20.wIndent, Extracted.C20.wNewLine) = ("", " ", "\t", "\n") := by rfl

theorem tie_scannerTable : Extracted.C20.scannerTable = Ref.scannerTable ∨ Extracted.C20.scannerTable = Ref.scannerTable_nulpatched := by
  first | exact Or.inl rfl | exact Or.inr rfl
theorem tie_p_Parse : Extracted.C20.p_Parse = Ref.p_Parse := by rfl
theorem tie_p_parseStmt : Extracted.C20.p_parseStmt = Ref.p_parseStmt := by rfl
theorem tie_p_parseService : Extracted.C20.p_parseService = Ref.p_parseService := by rfl
theorem tie_p_parseServiceItemsStmt : Extracted.C20.p_parseServiceItemsStmt = Ref.p_parseServiceItemsStmt := by rfl
theorem tie_p_parseServiceItemStmt : Extracted.C20.p_parseServiceItemStmt = Ref.p_parseServiceItemStmt := by rfl
theorem tie_p_parseRouteStmt : Extracted.C20.p_parseRouteStmt = Ref.p_parseRouteStmt := by rfl
theorem tie_p_parseBodyStmt : Extracted.C20.p_parseBodyStmt = Ref.p_parseBodyStmt := by rfl
theorem tie_p_parseBodyExpr : Extracted.C20.p_parseBodyExpr = Ref.p_parseBodyExpr := by rfl
theorem tie_p_parsePathExpr : Extracted.C20.p_parsePathExpr = Ref.p_parsePathExpr := by rfl
theorem tie_p_parsePathItem : Extracted.C20.p_parsePathItem = Ref.p_parsePathItem := by rfl
theorem tie_p_parseServiceNameExpr : Extracted.C20.p_parseServiceNameExpr = Ref.p_parseServiceNameExpr := by rfl
theorem tie_p_parseAtDocStmt : Extracted.C20.p_parseAtDocStmt = Ref.p_parseAtDocStmt := by rfl
theorem tie_p_parseAtDocGroupStmt : Extracted.C20.p_parseAtDocGroupStmt = Ref.p_parseAtDocGroupStmt := by rfl
theorem tie_p_parseAtDocLiteralStmt : Extracted.C20.p_parseAtDocLiteralStmt = Ref.p_parseAtDocLiteralStmt := by rfl
theorem tie_p_parseAtHandlerStmt : Extracted.C20.p_parseAtHandlerStmt = Ref.p_parseAtHandlerStmt := by rfl
theorem tie_p_parseAtServerStmt : Extracted.C20.p_parseAtServerStmt = Ref.p_parseAtServerStmt := by rfl
theorem tie_p_parseTypeStmt : Extracted.C20.p_parseTypeStmt = Ref.p_parseTypeStmt := by rfl
theorem tie_p_parseTypeLiteralStmt : Extracted.C20.p_parseTypeLiteralStmt = Ref.p_parseTypeLiteralStmt := by rfl
theorem tie_p_parseTypeGroupStmt : Extracted.C20.p_parseTypeGroupStmt = Ref.p_parseTypeGroupStmt := by rfl
theorem tie_p_parseTypeExprList : Extracted.C20.p_parseTypeExprList = Ref.p_parseTypeExprList := by rfl
theorem tie_p_parseTypeExpr : Extracted.C20.p_parseTypeExpr = Ref.p_parseTypeExpr := by rfl
theorem tie_p_parseDataType : Extracted.C20.p_parseDataType = Ref.p_parseDataType := by rfl
theorem tie_p_parseStructDataType : Extracted.C20.p_parseStructDataType = Ref.p_parseStructDataType := by rfl
theorem tie_p_parseElemExprList : Extracted.C20.p_parseElemExprList = Ref.p_parseElemExprList := by rfl
theorem tie_p_parseElemExpr : Extracted.C20.p_parseElemExpr = Ref.p_parseElemExpr := by rfl
theorem tie_p_parseAnyDataType : Extracted.C20.p_parseAnyDataType = Ref.p_parseAnyDataType := by rfl
theorem tie_p_parsePointerDataType : Extracted.C20.p_parsePointerDataType = Ref.p_parsePointerDataType := by rfl
theorem tie_p_parseInterfaceDataType : Extracted.C20.p_parseInterfaceDataType = Ref.p_parseInterfaceDataType := by rfl
theorem tie_p_parseMapDataType : Extracted.C20.p_parseMapDataType = Ref.p_parseMapDataType := by rfl
theorem tie_p_parseArrayDataType : Extracted.C20.p_parseArrayDataType = Ref.p_parseArrayDataType := by rfl
theorem tie_p_parseSliceDataType : Extracted.C20.p_parseSliceDataType = Ref.p_parseSliceDataType := by rfl
theorem tie_p_parseImportStmt : Extracted.C20.p_parseImportStmt = Ref.p_parseImportStmt := by rfl
theorem tie_p_parseImportLiteralStmt : Extracted.C20.p_parseImportLiteralStmt = Ref.p_parseImportLiteralStmt := by rfl
theorem tie_p_parseImportGroupStmt : Extracted.C20.p_parseImportGroupStmt = Ref.p_parseImportGroupStmt := by rfl
theorem tie_p_parseInfoStmt : Extracted.C20.p_parseInfoStmt = Ref.p_parseInfoStmt := by rfl
theorem tie_p_parseAtServerKVExpression : Extracted.C20.p_parseAtServerKVExpression = Ref.p_parseAtServerKVExpression := by rfl
theorem tie_p_parseKVExpression : Extracted.C20.p_parseKVExpression = Ref.p_parseKVExpression := by rfl
theorem tie_p_parseSyntaxStmt : Extracted.C20.p_parseSyntaxStmt = Ref.p_parseSyntaxStmt := by rfl
theorem tie_p_nextToken : Extracted.C20.p_nextToken = Ref.p_nextToken := by rfl
theorem tie_f_AST : Extracted.C20.f_AST = Ref.f_AST := by rfl
theorem tie_f_TokenNode : Extracted.C20.f_TokenNode = Ref.f_TokenNode := by rfl
theorem tie_f_SyntaxStmt : Extracted.C20.f_SyntaxStmt = Ref.f_SyntaxStmt := by rfl
theorem tie_f_InfoStmt : Extracted.C20.f_InfoStmt = Ref.f_InfoStmt := by rfl
theorem tie_f_ImportLiteralStmt : Extracted.C20.f_ImportLiteralStmt = Ref.f_ImportLiteralStmt := by rfl
theorem tie_f_ImportGroupStmt : Extracted.C20.f_ImportGroupStmt = Ref.f_ImportGroupStmt := by rfl
theorem tie_f_KVExpr : Extracted.C20.f_KVExpr = Ref.f_KVExpr := by rfl
theorem tie_f_TypeLiteralStmt : Extracted.C20.f_TypeLiteralStmt = Ref.f_TypeLiteralStmt := by rfl
theorem tie_f_TypeGroupStmt : Extracted.C20.f_TypeGroupStmt = Ref.f_TypeGroupStmt := by rfl
theorem tie_f_TypeExpr : Extracted.C20.f_TypeExpr = Ref.f_TypeExpr := by rfl
theorem tie_f_ElemExpr : Extracted.C20.f_ElemExpr = Ref.f_ElemExpr := by rfl
theorem tie_f_ArrayDataType : Extracted.C20.f_ArrayDataType = Ref.f_ArrayDataType := by rfl
theorem tie_f_MapDataType : Extracted.C20.f_MapDataType = Ref.f_MapDataType := by rfl
theorem tie_f_PointerDataType : Extracted.C20.f_PointerDataType = Ref.f_PointerDataType := by rfl
theorem tie_f_SliceDataType : Extracted.C20.f_SliceDataType = Ref.f_SliceDataType := by rfl
theorem tie_f_StructDataType : Extracted.C20.f_StructDataType = Ref.f_StructDataType := by rfl
theorem tie_f_AtServerStmt : Extracted.C20.f_AtServerStmt = Ref.f_AtServerStmt := by rfl
theorem tie_f_AtDocLiteralStmt : Extracted.C20.f_AtDocLiteralStmt = Ref.f_AtDocLiteralStmt := by rfl
theorem tie_f_AtDocGroupStmt : Extracted.C20.f_AtDocGroupStmt = Ref.f_AtDocGroupStmt := by rfl
theorem tie_f_ServiceStmt : Extracted.C20.f_ServiceStmt = Ref.f_ServiceStmt ∨ Extracted.C20.f_ServiceStmt = Ref.f_ServiceStmt_patched := by
  first | exact Or.inl rfl | exact Or.inr rfl
theorem tie_f_ServiceNameExpr : Extracted.C20.f_ServiceNameExpr = Ref.f_ServiceNameExpr := by rfl
theorem tie_f_AtHandlerStmt : Extracted.C20.f_AtHandlerStmt = Ref.f_AtHandlerStmt := by rfl
theorem tie_f_ServiceItemStmt : Extracted.C20.f_ServiceItemStmt = Ref.f_ServiceItemStmt := by rfl
theorem tie_f_RouteStmt : Extracted.C20.f_RouteStmt = Ref.f_RouteStmt := by rfl
theorem tie_f_PathExpr : Extracted.C20.f_PathExpr = Ref.f_PathExpr ∨ Extracted.C20.f_PathExpr = Ref.f_PathExpr_patched := by
  first | exact Or.inl rfl | exact Or.inr rfl
theorem tie_f_BodyStmt : Extracted.C20.f_BodyStmt = Ref.f_BodyStmt := by rfl
theorem tie_f_BodyExpr : Extracted.C20.f_BodyExpr = Ref.f_BodyExpr := by rfl
theorem tie_w_write : Extracted.C20.w_write = Ref.w_write ∨ Extracted.C20.w_write = Ref.w_write_patched := by
  first | exact Or.inl rfl | exact Or.inr rfl
theorem tie_w_WriteText : Extracted.C20.w_WriteText = Ref.w_WriteText := by rfl
theorem tie_fmt_Source : Extracted.C20.fmt_Source = Ref.fmt_Source ∨ Extracted.C20.fmt_Source = Ref.fmt_Source_patched := by
  first | exact Or.inl rfl | exact Or.inr rfl

/-! ### round 2: every method Writer.write consults, and the comment ownership / comment scanning logic.
`acc_<Type>`: HasHeadCommentGroup / HasLeadingCommentGroup / CommentGroup / End / Pos (+ ContainsStruct, ...) of the node
type, statement by statement (a method that looks at the wrong field - Key instead of Value, Name instead of Tag -
breaks its obligation). `full_<func>`: whole statement list. Obligations stated as a disjunction accept the function
before and after fixes/C20-comments-scanner-empty-source.patch. -/

theorem tie_acc_CommentStmt : Extracted.C20.acc_CommentStmt = Ref.acc_CommentStmt := by rfl
theorem tie_acc_CommentGroup : Extracted.C20.acc_CommentGroup = Ref.acc_CommentGroup := by rfl
theorem tie_acc_AnyDataType : Extracted.C20.acc_AnyDataType = Ref.acc_AnyDataType := by rfl
theorem tie_acc_BaseDataType : Extracted.C20.acc_BaseDataType = Ref.acc_BaseDataType := by rfl
theorem tie_acc_InterfaceDataType : Extracted.C20.acc_InterfaceDataType = Ref.acc_InterfaceDataType := by rfl
theorem tie_acc_TokenNode : Extracted.C20.acc_TokenNode = Ref.acc_TokenNode := by rfl
theorem tie_acc_SyntaxStmt : Extracted.C20.acc_SyntaxStmt = Ref.acc_SyntaxStmt := by rfl
theorem tie_acc_InfoStmt : Extracted.C20.acc_InfoStmt = Ref.acc_InfoStmt := by rfl
theorem tie_acc_ImportLiteralStmt : Extracted.C20.acc_ImportLiteralStmt = Ref.acc_ImportLiteralStmt := by rfl
theorem tie_acc_ImportGroupStmt : Extracted.C20.acc_ImportGroupStmt = Ref.acc_ImportGroupStmt := by rfl
theorem tie_acc_KVExpr : Extracted.C20.acc_KVExpr = Ref.acc_KVExpr := by rfl
theorem tie_acc_TypeLiteralStmt : Extracted.C20.acc_TypeLiteralStmt = Ref.acc_TypeLiteralStmt := by rfl
theorem tie_acc_TypeGroupStmt : Extracted.C20.acc_TypeGroupStmt = Ref.acc_TypeGroupStmt := by rfl
theorem tie_acc_TypeExpr : Extracted.C20.acc_TypeExpr = Ref.acc_TypeExpr := by rfl
theorem tie_acc_ElemExpr : Extracted.C20.acc_ElemExpr = Ref.acc_ElemExpr := by rfl
theorem tie_acc_ArrayDataType : Extracted.C20.acc_ArrayDataType = Ref.acc_ArrayDataType := by rfl
theorem tie_acc_MapDataType : Extracted.C20.acc_MapDataType = Ref.acc_MapDataType := by rfl
theorem tie_acc_PointerDataType : Extracted.C20.acc_PointerDataType = Ref.acc_PointerDataType := by rfl
theorem tie_acc_SliceDataType : Extracted.C20.acc_SliceDataType = Ref.acc_SliceDataType := by rfl
theorem tie_acc_StructDataType : Extracted.C20.acc_StructDataType = Ref.acc_StructDataType := by rfl
theorem tie_acc_AtServerStmt : Extracted.C20.acc_AtServerStmt = Ref.acc_AtServerStmt := by rfl
theorem tie_acc_AtDocLiteralStmt : Extracted.C20.acc_AtDocLiteralStmt = Ref.acc_AtDocLiteralStmt := by rfl
theorem tie_acc_AtDocGroupStmt : Extracted.C20.acc_AtDocGroupStmt = Ref.acc_AtDocGroupStmt := by rfl
theorem tie_acc_ServiceStmt : Extracted.C20.acc_ServiceStmt = Ref.acc_ServiceStmt := by rfl
theorem tie_acc_ServiceNameExpr : Extracted.C20.acc_ServiceNameExpr = Ref.acc_ServiceNameExpr := by rfl
theorem tie_acc_AtHandlerStmt : Extracted.C20.acc_AtHandlerStmt = Ref.acc_AtHandlerStmt := by rfl
theorem tie_acc_ServiceItemStmt : Extracted.C20.acc_ServiceItemStmt = Ref.acc_ServiceItemStmt := by rfl
theorem tie_acc_RouteStmt : Extracted.C20.acc_RouteStmt = Ref.acc_RouteStmt := by rfl
theorem tie_acc_PathExpr : Extracted.C20.acc_PathExpr = Ref.acc_PathExpr := by rfl
theorem tie_acc_BodyStmt : Extracted.C20.acc_BodyStmt = Ref.acc_BodyStmt := by rfl
theorem tie_acc_BodyExpr : Extracted.C20.acc_BodyExpr = Ref.acc_BodyExpr := by rfl
theorem tie_full_AnyDataType_Format : Extracted.C20.full_AnyDataType_Format = Ref.full_AnyDataType_Format := by rfl
theorem tie_full_BaseDataType_Format : Extracted.C20.full_BaseDataType_Format = Ref.full_BaseDataType_Format := by rfl
theorem tie_full_InterfaceDataType_Format : Extracted.C20.full_InterfaceDataType_Format = Ref.full_InterfaceDataType_Format := by rfl
theorem tie_full_CommentStmt_Format : Extracted.C20.full_CommentStmt_Format = Ref.full_CommentStmt_Format := by rfl
theorem tie_full_TokenNode_Format : Extracted.C20.full_TokenNode_Format = Ref.full_TokenNode_Format := by rfl
theorem tie_full_transfer2TokenNode : Extracted.C20.full_transfer2TokenNode = Ref.full_transfer2TokenNode := by rfl
theorem tie_full_transferNilInfixNode : Extracted.C20.full_transferNilInfixNode = Ref.full_transferNilInfixNode := by rfl
theorem tie_full_transferTokenNode : Extracted.C20.full_transferTokenNode = Ref.full_transferTokenNode := by rfl
theorem tie_full_Writer_write : Extracted.C20.full_Writer_write = Ref.full_Writer_write ∨ Extracted.C20.full_Writer_write = Ref.full_Writer_write_patched := by
  first | exact Or.inl rfl | exact Or.inr rfl
theorem tie_full_Writer_Write : Extracted.C20.full_Writer_Write = Ref.full_Writer_Write := by rfl
theorem tie_full_Writer_NewLine : Extracted.C20.full_Writer_NewLine = Ref.full_Writer_NewLine := by rfl
theorem tie_full_ignoreHeadComment : Extracted.C20.full_ignoreHeadComment = Ref.full_ignoreHeadComment := by rfl
theorem tie_full_ignoreLeadingComment : Extracted.C20.full_ignoreLeadingComment = Ref.full_ignoreLeadingComment := by rfl
theorem tie_full_ignoreComment : Extracted.C20.full_ignoreComment = Ref.full_ignoreComment := by rfl
theorem tie_full_withTokenNodePrefix : Extracted.C20.full_withTokenNodePrefix = Ref.full_withTokenNodePrefix := by rfl
theorem tie_full_expectSameLine : Extracted.C20.full_expectSameLine = Ref.full_expectSameLine := by rfl
theorem tie_full_expectIndentInfix : Extracted.C20.full_expectIndentInfix = Ref.full_expectIndentInfix := by rfl
theorem tie_full_NewWriter : Extracted.C20.full_NewWriter = Ref.full_NewWriter := by rfl
theorem tie_full_NewBufferWriter : Extracted.C20.full_NewBufferWriter = Ref.full_NewBufferWriter := by rfl
theorem tie_full_Parser_nextToken : Extracted.C20.full_Parser_nextToken = Ref.full_Parser_nextToken := by rfl
theorem tie_full_Parser_curTokenNode : Extracted.C20.full_Parser_curTokenNode = Ref.full_Parser_curTokenNode := by rfl
theorem tie_full_Parser_getNode : Extracted.C20.full_Parser_getNode = Ref.full_Parser_getNode := by rfl
theorem tie_full_Parser_init : Extracted.C20.full_Parser_init = Ref.full_Parser_init := by rfl
theorem tie_full_Scanner_scanLineComment : Extracted.C20.full_Scanner_scanLineComment = Ref.full_Scanner_scanLineComment ∨ Extracted.C20.full_Scanner_scanLineComment = Ref.full_Scanner_scanLineComment_patched := by
  first | exact Or.inl rfl | exact Or.inr rfl
theorem tie_full_Scanner_scanDocument : Extracted.C20.full_Scanner_scanDocument = Ref.full_Scanner_scanDocument ∨ Extracted.C20.full_Scanner_scanDocument = Ref.full_Scanner_scanDocument_patched := by
  first | exact Or.inl rfl | exact Or.inr rfl
theorem tie_full_Scanner_skipWhiteSpace : Extracted.C20.full_Scanner_skipWhiteSpace = Ref.full_Scanner_skipWhiteSpace := by rfl
theorem tie_full_Scanner_isWhiteSpace : Extracted.C20.full_Scanner_isWhiteSpace = Ref.full_Scanner_isWhiteSpace := by rfl
theorem tie_full_fmt_Source : Extracted.C20.full_fmt_Source = Ref.full_fmt_Source ∨ Extracted.C20.full_fmt_Source = Ref.full_fmt_Source_patched := by
  first | exact Or.inl rfl | exact Or.inr rfl

/-! ### round 4: the scanner (model Scan.lean), token.go, format.File, AST.Format.
`x_<func>`: whole statement list, literals verbatim. `sc_<pred>`: the scanner's rune predicates TRANSLATED to Lean and
proven equal to the model's predicates for all runes. `sc_scan<Unit>`: every function of the duration family TRANSLATED
statement by statement (readRune -> tail, the `for isDigit` loop -> dropWhile, `switch s.ch` -> if-chain, the three kinds
of return) and proven equal to the model's function for all inputs. `sc_single`, `sc_durStart`: the rune tables of
NextToken / scanIntOrDuration, proven equal to the model's `single` / `isDurStart` for all runes. -/

theorem tie_x_Scanner_NextToken : Extracted.C20.x_Scanner_NextToken = Ref.x_Scanner_NextToken ∨ Extracted.C20.x_Scanner_NextToken = Ref.x_Scanner_NextToken_patched := by
  first | exact Or.inl rfl | exact Or.inr rfl
theorem tie_x_Scanner_newToken : Extracted.C20.x_Scanner_newToken = Ref.x_Scanner_newToken := by rfl
theorem tie_x_Scanner_readRune : Extracted.C20.x_Scanner_readRune = Ref.x_Scanner_readRune := by rfl
theorem tie_x_Scanner_peekRune : Extracted.C20.x_Scanner_peekRune = Ref.x_Scanner_peekRune := by rfl
theorem tie_x_Scanner_scanString : Extracted.C20.x_Scanner_scanString = Ref.x_Scanner_scanString := by rfl
theorem tie_x_Scanner_scanAt : Extracted.C20.x_Scanner_scanAt = Ref.x_Scanner_scanAt := by rfl
theorem tie_x_Scanner_scanIntOrDuration : Extracted.C20.x_Scanner_scanIntOrDuration = Ref.x_Scanner_scanIntOrDuration := by rfl
theorem tie_x_Scanner_illegalToken : Extracted.C20.x_Scanner_illegalToken = Ref.x_Scanner_illegalToken := by rfl
theorem tie_x_Scanner_scanIdent : Extracted.C20.x_Scanner_scanIdent = Ref.x_Scanner_scanIdent := by rfl
theorem tie_x_Scanner_scanLetterSet : Extracted.C20.x_Scanner_scanLetterSet = Ref.x_Scanner_scanLetterSet := by rfl
theorem tie_x_Scanner_newPosition : Extracted.C20.x_Scanner_newPosition = Ref.x_Scanner_newPosition := by rfl
theorem tie_x_Scanner_positionAt : Extracted.C20.x_Scanner_positionAt = Ref.x_Scanner_positionAt := by rfl
theorem tie_x_Scanner_lineCount : Extracted.C20.x_Scanner_lineCount = Ref.x_Scanner_lineCount := by rfl
theorem tie_x_NewScanner : Extracted.C20.x_NewScanner = Ref.x_NewScanner := by rfl
theorem tie_x_Token_Is : Extracted.C20.x_Token_Is = Ref.x_Token_Is := by rfl
theorem tie_x_Token_IsType : Extracted.C20.x_Token_IsType = Ref.x_Token_IsType := by rfl
theorem tie_x_Token_Line : Extracted.C20.x_Token_Line = Ref.x_Token_Line := by rfl
theorem tie_x_Token_Fork : Extracted.C20.x_Token_Fork = Ref.x_Token_Fork := by rfl
theorem tie_x_Token_Valid : Extracted.C20.x_Token_Valid = Ref.x_Token_Valid := by rfl
theorem tie_x_Token_IsComment : Extracted.C20.x_Token_IsComment = Ref.x_Token_IsComment := by rfl
theorem tie_x_Token_IsDocument : Extracted.C20.x_Token_IsDocument = Ref.x_Token_IsDocument := by rfl
theorem tie_x_LookupKeyword : Extracted.C20.x_LookupKeyword = Ref.x_LookupKeyword := by rfl
theorem tie_x_NewIllegalToken : Extracted.C20.x_NewIllegalToken = Ref.x_NewIllegalToken := by rfl
theorem tie_x_fmt_File : Extracted.C20.x_fmt_File = Ref.x_fmt_File := by rfl
theorem tie_x_AST_Format : Extracted.C20.x_AST_Format = Ref.x_AST_Format := by rfl
theorem tie_x_peekOne : Extracted.C20.x_peekOne = Ref.x_peekOne := by rfl
theorem tie_x_Writer_write : Extracted.C20.x_Writer_write = Ref.x_Writer_write := by rfl
theorem tie_x_Writer_WriteText : Extracted.C20.x_Writer_WriteText = Ref.x_Writer_WriteText := by rfl
theorem tie_x_Writer_Flush : Extracted.C20.x_Writer_Flush = Ref.x_Writer_Flush := by rfl
theorem tie_x_withNode : Extracted.C20.x_withNode = Ref.x_withNode := by rfl
theorem tie_x_Parser_Parse : Extracted.C20.x_Parser_Parse = Ref.x_Parser_Parse := by rfl
theorem tie_x_Parser_CheckErrors : Extracted.C20.x_Parser_CheckErrors = Ref.x_Parser_CheckErrors := by rfl
theorem tie_x_Parser_curTokenIsKeyword : Extracted.C20.x_Parser_curTokenIsKeyword = Ref.x_Parser_curTokenIsKeyword := by rfl
theorem tie_x_Parser_peekTokenIs : Extracted.C20.x_Parser_peekTokenIs = Ref.x_Parser_peekTokenIs := by rfl
theorem tie_x_Parser_expectPeekToken : Extracted.C20.x_Parser_expectPeekToken = Ref.x_Parser_expectPeekToken := by rfl
theorem tie_x_New : Extracted.C20.x_New = Ref.x_New := by rfl

theorem tie_x_Parser_curTokenIs : Extracted.C20.x_Parser_curTokenIs = Ref.x_Parser_curTokenIs := by rfl
theorem tie_x_Parser_curTokenIsNot : Extracted.C20.x_Parser_curTokenIsNot = Ref.x_Parser_curTokenIsNot := by rfl
theorem tie_x_Parser_curTokenIsNotEof : Extracted.C20.x_Parser_curTokenIsNotEof = Ref.x_Parser_curTokenIsNotEof := by rfl
theorem tie_x_Parser_peekTokenIsNot : Extracted.C20.x_Parser_peekTokenIsNot = Ref.x_Parser_peekTokenIsNot := by rfl
theorem tie_x_Parser_advanceIfPeekTokenIs : Extracted.C20.x_Parser_advanceIfPeekTokenIs = Ref.x_Parser_advanceIfPeekTokenIs := by rfl
theorem tie_x_Parser_notExpectPeekToken : Extracted.C20.x_Parser_notExpectPeekToken = Ref.x_Parser_notExpectPeekToken := by rfl
theorem tie_x_Parser_notExpectPeekTokenGotComment : Extracted.C20.x_Parser_notExpectPeekTokenGotComment = Ref.x_Parser_notExpectPeekTokenGotComment := by rfl
theorem tie_x_Parser_expectIdentError : Extracted.C20.x_Parser_expectIdentError = Ref.x_Parser_expectIdentError := by rfl
theorem tie_x_Parser_appendStmt : Extracted.C20.x_Parser_appendStmt = Ref.x_Parser_appendStmt := by rfl
theorem tie_x_Parser_hasNoErrors : Extracted.C20.x_Parser_hasNoErrors = Ref.x_Parser_hasNoErrors := by rfl

theorem tie_x_isNil : Extracted.C20.x_isNil = Ref.x_isNil := by rfl

theorem tie_sc_isDigit (c : Char) : Extracted.C20.sc_isDigit c.toNat = Scan.isDigit c := rfl
theorem tie_sc_isLetter (c : Char) : Extracted.C20.sc_isLetter c.toNat = Scan.isLetter c := rfl
theorem tie_sc_isIdentifierLetter (c : Char) : Extracted.C20.sc_isIdentifierLetter c.toNat = Scan.isIdL c := by
  rw [Bool.eq_iff_iff]; simp [Extracted.C20.sc_isIdentifierLetter, Scan.isIdL, tie_sc_isLetter]
theorem tie_sc_isWhiteSpace (c : Char) : Extracted.C20.sc_isWhiteSpace c.toNat = Scan.isWS c := by
  rw [Bool.eq_iff_iff]; simp [Extracted.C20.sc_isWhiteSpace, Scan.isWS]

/-- the runes `scanIntOrDuration` hands to `scanDuration` are the model's `isDurStart` -/
theorem tie_sc_durStart (c : Char) : (Extracted.C20.sc_durStart.map (·.1)).contains c.toNat = Scan.isDurStart c := by
  rw [Bool.eq_iff_iff]; simp [Extracted.C20.sc_durStart, Scan.isDurStart]; omega

def kname : K → String
  | .SUB => "SUB" | .MUL => "MUL" | .LPAREN => "LPAREN" | .LBRACK => "LBRACK" | .LBRACE => "LBRACE" | .COMMA => "COMMA"
  | .RPAREN => "RPAREN" | .RBRACK => "RBRACK" | .RBRACE => "RBRACE" | .SEMICOLON => "SEMICOLON" | .COLON => "COLON"
  | .ASSIGN => "ASSIGN" | _ => "?"

/-- the single-rune tokens of `NextToken` are the model's `single` -/
theorem tie_sc_single (c : Char) : Extracted.C20.sc_single.lookup c.toNat = (Scan.single c).map kname := by
  unfold Scan.single Extracted.C20.sc_single
  split <;> rename_i h <;> first
    | (simp [List.lookup, kname, h]; done)
    | (have e45 : (c.toNat == 45) = false := by simp; omega
       have e42 : (c.toNat == 42) = false := by simp; omega
       have e40 : (c.toNat == 40) = false := by simp; omega
       have e91 : (c.toNat == 91) = false := by simp; omega
       have e123 : (c.toNat == 123) = false := by simp; omega
       have e44 : (c.toNat == 44) = false := by simp; omega
       have e41 : (c.toNat == 41) = false := by simp; omega
       have e93 : (c.toNat == 93) = false := by simp; omega
       have e125 : (c.toNat == 125) = false := by simp; omega
       have e59 : (c.toNat == 59) = false := by simp; omega
       have e58 : (c.toNat == 58) = false := by simp; omega
       have e61 : (c.toNat == 61) = false := by simp; omega
       simp only [List.lookup, e45, e42, e40, e91, e123, e44, e41, e93, e125, e59, e58, e61, Option.map])

def enc : Scan.DRes → Bool × List Char
  | .dur r => (true, r)
  | .ill r => (false, r)

theorem cur_eq (cs : List Char) : Extracted.C20.sc_cur cs = Scan.cur cs := by cases cs <;> rfl
theorem dig_eq : (fun c : Char => Extracted.C20.sc_isDigit c.toNat) = Scan.isDigit := rfl

theorem tie_sc_scanNanosecond (cs : List Char) : Extracted.C20.sc_scanNanosecond cs = enc (Scan.scanNano cs) := by
  simp only [Extracted.C20.sc_scanNanosecond, Scan.scanNano, cur_eq]
  split <;> simp_all [enc]

theorem tie_sc_scanMicrosecond (cs : List Char) : Extracted.C20.sc_scanMicrosecond cs = enc (Scan.scanMicro cs) := by
  simp only [Extracted.C20.sc_scanMicrosecond, Scan.scanMicro, Scan.skipDigits, cur_eq, tie_sc_isDigit, tie_sc_scanNanosecond]
  (repeat' split) <;> simp_all [enc]

theorem tie_sc_scanMillisecond (cs : List Char) : Extracted.C20.sc_scanMillisecond cs = enc (Scan.scanMilli cs) := by
  simp only [Extracted.C20.sc_scanMillisecond, Scan.scanMilli, Scan.skipDigits, cur_eq, tie_sc_isDigit, tie_sc_scanNanosecond, tie_sc_scanMicrosecond]
  (repeat' split) <;> simp_all [enc]

theorem tie_sc_scanSecond (cs : List Char) : Extracted.C20.sc_scanSecond cs = enc (Scan.scanSecond cs) := by
  simp only [Extracted.C20.sc_scanSecond, Scan.scanSecond, Scan.milliAfterM, Scan.skipDigits, cur_eq, tie_sc_isDigit,
    tie_sc_scanNanosecond, tie_sc_scanMicrosecond, tie_sc_scanMillisecond]
  (repeat' split) <;> simp_all [enc]

theorem tie_sc_scanMinute (cs : List Char) : Extracted.C20.sc_scanMinute cs = enc (Scan.scanMinute cs) := by
  simp only [Extracted.C20.sc_scanMinute, Scan.scanMinute, Scan.milliAfterM, Scan.skipDigits, cur_eq, tie_sc_isDigit,
    tie_sc_scanNanosecond, tie_sc_scanMicrosecond, tie_sc_scanMillisecond, tie_sc_scanSecond]
  (repeat' split) <;> simp_all [enc]

theorem tie_sc_scanMillisecondOrMinute (cs : List Char) :
    Extracted.C20.sc_scanMillisecondOrMinute cs = enc (Scan.scanMilliOrMinute cs) := by
  simp only [Extracted.C20.sc_scanMillisecondOrMinute, Scan.scanMilliOrMinute, Scan.isNul, cur_eq, tie_sc_isDigit,
    tie_sc_scanMinute, tie_sc_scanMillisecond]
  (repeat' split) <;> simp_all [enc]

theorem tie_sc_scanHour (cs : List Char) : Extracted.C20.sc_scanHour cs = enc (Scan.scanHour cs) := by
  simp only [Extracted.C20.sc_scanHour, Scan.scanHour, Scan.skipDigits, cur_eq, tie_sc_isDigit,
    tie_sc_scanNanosecond, tie_sc_scanMicrosecond, tie_sc_scanMillisecondOrMinute, tie_sc_scanSecond]
  (repeat' split) <;> simp_all [enc]

/-- the whole duration family: the translated `scanDuration` is the model's, for every input -/
theorem tie_sc_scanDuration (cs : List Char) : Extracted.C20.sc_scanDuration cs = enc (Scan.scanDuration cs) := by
  simp only [Extracted.C20.sc_scanDuration, Scan.scanDuration, cur_eq,
    tie_sc_scanNanosecond, tie_sc_scanMicrosecond, tie_sc_scanMillisecondOrMinute, tie_sc_scanSecond, tie_sc_scanHour]
  (repeat' split) <;> simp_all [enc]

end GoZero.C20.Tie
