/-
C20 — Tie: what the extractor reads from tools/goctl/pkg/parser/api *now* equals what the model was written against.
  * the literal texts and tables the model parser compares token texts with (keywords, HTTP methods, "syntax", …);
  * per parser function: its lookahead skeleton (a changed expected token, a dropped keyword check, a reordered
    branch breaks the obligation of that function);
  * per Format method: its write skeleton (a dropped node in a Write call, a changed zero-string test, a changed
    option breaks it); the scanner's character table; format.Source's pipeline.
-/
import GoZero.Extracted.C20
import GoZero.C20.Model
import GoZero.C20.Ref
namespace GoZero.C20.Tie
open GoZero.C20

theorem extraction_clean : Extracted.C20.extractionErrors = [] := by decide

/-- token.keywords is the model's keyword table -/
theorem tie_keywords : Extracted.C20.keywords = GoZero.C20.keywords := by rfl

/-- token.HttpMethods is the model's method table -/
theorem tie_httpMethods : Extracted.C20.httpMethods = GoZero.C20.httpMethods := by rfl

/-- the texts the parser compares identifiers with are the literals used in `parseStmt`, `parseDT`, `stopsPath`, `parseServiceBody` -/
theorem tie_texts :
    (Extracted.C20.tokSyntax, Extracted.C20.tokInfo, Extracted.C20.tokService, Extracted.C20.tokReturns, Extracted.C20.tokAny,
     Extracted.C20.tokTypeKeyword, Extracted.C20.tokMapKeyword, Extracted.C20.tokImportKeyword, Extracted.C20.idAPI)
    = ("syntax", "info", "service", "returns", "any", "type", "map", "import", "api") := by rfl

theorem tie_writer_consts :
    (Extracted.C20.wNilIndent, Extracted.C20.wWhiteSpace, Extracted.C20.wIndent, Extracted.C20.wNewLine) = ("", " ", "\t", "\n") := by rfl

theorem tie_scannerTable : Extracted.C20.scannerTable = Ref.scannerTable := by rfl
theorem tie_p_Parse : Extracted.C20.p_Parse = Ref.p_Parse := by rfl
theorem tie_p_parseStmt : Extracted.C20.p_parseStmt = Ref.p_parseStmt := by rfl
theorem tie_p_parseService : Extracted.C20.p_parseService = Ref.p_parseService := by rfl
theorem tie_p_parseServiceItemsStmt : Extracted.C20.p_parseServiceItemsStmt = Ref.p_parseServiceItemsStmt := by rfl
theorem tie_p_parseServiceItemStmt : Extracted.C20.p_parseServiceItemStmt = Ref.p_parseServiceItemStmt := by rfl
theorem tie_p_parseRouteStmt : Extracted.C20.p_parseRouteStmt = Ref.p_parseRouteStmt := by rfl
theorem tie_p_parseBodyStmt : Extracted.C20.p_parseBodyStmt = Ref.p_parseBodyStmt := by rfl
theorem tie_p_parseBodyExpr : Extracted.C20.p_parseBodyExpr = Ref.p_parseBodyExpr := by rfl
theorem tie_p_parsePathExpr : Extracted.C20.p_parsePathExpr = Ref.p_parsePathExpr := by rfl
theorem tie_p_parsePathItem : Extracted.C20.p_parsePathItem = Ref.p_parsePathItem := by rfl
theorem tie_p_parseServiceNameExpr : Extracted.C20.p_parseServiceNameExpr = Ref.p_parseServiceNameExpr := by rfl
theorem tie_p_parseAtDocStmt : Extracted.C20.p_parseAtDocStmt = Ref.p_parseAtDocStmt := by rfl
theorem tie_p_parseAtDocGroupStmt : Extracted.C20.p_parseAtDocGroupStmt = Ref.p_parseAtDocGroupStmt := by rfl
theorem tie_p_parseAtDocLiteralStmt : Extracted.C20.p_parseAtDocLiteralStmt = Ref.p_parseAtDocLiteralStmt := by rfl
theorem tie_p_parseAtHandlerStmt : Extracted.C20.p_parseAtHandlerStmt = Ref.p_parseAtHandlerStmt := by rfl
theorem tie_p_parseAtServerStmt : Extracted.C20.p_parseAtServerStmt = Ref.p_parseAtServerStmt := by rfl
theorem tie_p_parseTypeStmt : Extracted.C20.p_parseTypeStmt = Ref.p_parseTypeStmt := by rfl
theorem tie_p_parseTypeLiteralStmt : Extracted.C20.p_parseTypeLiteralStmt = Ref.p_parseTypeLiteralStmt := by rfl
theorem tie_p_parseTypeGroupStmt : Extracted.C20.p_parseTypeGroupStmt = Ref.p_parseTypeGroupStmt := by rfl
theorem tie_p_parseTypeExprList : Extracted.C20.p_parseTypeExprList = Ref.p_parseTypeExprList := by rfl
theorem tie_p_parseTypeExpr : Extracted.C20.p_parseTypeExpr = Ref.p_parseTypeExpr := by rfl
theorem tie_p_parseDataType : Extracted.C20.p_parseDataType = Ref.p_parseDataType := by rfl
theorem tie_p_parseStructDataType : Extracted.C20.p_parseStructDataType = Ref.p_parseStructDataType := by rfl
theorem tie_p_parseElemExprList : Extracted.C20.p_parseElemExprList = Ref.p_parseElemExprList := by rfl
theorem tie_p_parseElemExpr : Extracted.C20.p_parseElemExpr = Ref.p_parseElemExpr := by rfl
theorem tie_p_parseAnyDataType : Extracted.C20.p_parseAnyDataType = Ref.p_parseAnyDataType := by rfl
theorem tie_p_parsePointerDataType : Extracted.C20.p_parsePointerDataType = Ref.p_parsePointerDataType := by rfl
theorem tie_p_parseInterfaceDataType : Extracted.C20.p_parseInterfaceDataType = Ref.p_parseInterfaceDataType := by rfl
theorem tie_p_parseMapDataType : Extracted.C20.p_parseMapDataType = Ref.p_parseMapDataType := by rfl
theorem tie_p_parseArrayDataType : Extracted.C20.p_parseArrayDataType = Ref.p_parseArrayDataType := by rfl
theorem tie_p_parseSliceDataType : Extracted.C20.p_parseSliceDataType = Ref.p_parseSliceDataType := by rfl
theorem tie_p_parseImportStmt : Extracted.C20.p_parseImportStmt = Ref.p_parseImportStmt := by rfl
theorem tie_p_parseImportLiteralStmt : Extracted.C20.p_parseImportLiteralStmt = Ref.p_parseImportLiteralStmt := by rfl
theorem tie_p_parseImportGroupStmt : Extracted.C20.p_parseImportGroupStmt = Ref.p_parseImportGroupStmt := by rfl
theorem tie_p_parseInfoStmt : Extracted.C20.p_parseInfoStmt = Ref.p_parseInfoStmt := by rfl
theorem tie_p_parseAtServerKVExpression : Extracted.C20.p_parseAtServerKVExpression = Ref.p_parseAtServerKVExpression := by rfl
theorem tie_p_parseKVExpression : Extracted.C20.p_parseKVExpression = Ref.p_parseKVExpression := by rfl
theorem tie_p_parseSyntaxStmt : Extracted.C20.p_parseSyntaxStmt = Ref.p_parseSyntaxStmt := by rfl
theorem tie_p_nextToken : Extracted.C20.p_nextToken = Ref.p_nextToken := by rfl
theorem tie_f_AST : Extracted.C20.f_AST = Ref.f_AST := by rfl
theorem tie_f_TokenNode : Extracted.C20.f_TokenNode = Ref.f_TokenNode := by rfl
theorem tie_f_SyntaxStmt : Extracted.C20.f_SyntaxStmt = Ref.f_SyntaxStmt := by rfl
theorem tie_f_InfoStmt : Extracted.C20.f_InfoStmt = Ref.f_InfoStmt := by rfl
theorem tie_f_ImportLiteralStmt : Extracted.C20.f_ImportLiteralStmt = Ref.f_ImportLiteralStmt := by rfl
theorem tie_f_ImportGroupStmt : Extracted.C20.f_ImportGroupStmt = Ref.f_ImportGroupStmt := by rfl
theorem tie_f_KVExpr : Extracted.C20.f_KVExpr = Ref.f_KVExpr := by rfl
theorem tie_f_TypeLiteralStmt : Extracted.C20.f_TypeLiteralStmt = Ref.f_TypeLiteralStmt := by rfl
theorem tie_f_TypeGroupStmt : Extracted.C20.f_TypeGroupStmt = Ref.f_TypeGroupStmt := by rfl
theorem tie_f_TypeExpr : Extracted.C20.f_TypeExpr = Ref.f_TypeExpr := by rfl
theorem tie_f_ElemExpr : Extracted.C20.f_ElemExpr = Ref.f_ElemExpr := by rfl
theorem tie_f_ArrayDataType : Extracted.C20.f_ArrayDataType = Ref.f_ArrayDataType := by rfl
theorem tie_f_MapDataType : Extracted.C20.f_MapDataType = Ref.f_MapDataType := by rfl
theorem tie_f_PointerDataType : Extracted.C20.f_PointerDataType = Ref.f_PointerDataType := by rfl
theorem tie_f_SliceDataType : Extracted.C20.f_SliceDataType = Ref.f_SliceDataType := by rfl
theorem tie_f_StructDataType : Extracted.C20.f_StructDataType = Ref.f_StructDataType := by rfl
theorem tie_f_AtServerStmt : Extracted.C20.f_AtServerStmt = Ref.f_AtServerStmt := by rfl
theorem tie_f_AtDocLiteralStmt : Extracted.C20.f_AtDocLiteralStmt = Ref.f_AtDocLiteralStmt := by rfl
theorem tie_f_AtDocGroupStmt : Extracted.C20.f_AtDocGroupStmt = Ref.f_AtDocGroupStmt := by rfl
theorem tie_f_ServiceStmt : Extracted.C20.f_ServiceStmt = Ref.f_ServiceStmt := by rfl
theorem tie_f_ServiceNameExpr : Extracted.C20.f_ServiceNameExpr = Ref.f_ServiceNameExpr := by rfl
theorem tie_f_AtHandlerStmt : Extracted.C20.f_AtHandlerStmt = Ref.f_AtHandlerStmt := by rfl
theorem tie_f_ServiceItemStmt : Extracted.C20.f_ServiceItemStmt = Ref.f_ServiceItemStmt := by rfl
theorem tie_f_RouteStmt : Extracted.C20.f_RouteStmt = Ref.f_RouteStmt := by rfl
theorem tie_f_PathExpr : Extracted.C20.f_PathExpr = Ref.f_PathExpr := by rfl
theorem tie_f_BodyStmt : Extracted.C20.f_BodyStmt = Ref.f_BodyStmt := by rfl
theorem tie_f_BodyExpr : Extracted.C20.f_BodyExpr = Ref.f_BodyExpr := by rfl
theorem tie_w_write : Extracted.C20.w_write = Ref.w_write := by rfl
theorem tie_w_WriteText : Extracted.C20.w_WriteText = Ref.w_WriteText := by rfl
theorem tie_fmt_Source : Extracted.C20.fmt_Source = Ref.fmt_Source := by rfl

end GoZero.C20.Tie
