import GoZero.Extracted.C20
import GoZero.C20.Model
namespace GoZero.C20.Tie
open GoZero.C20
open GoZero.Extracted.C20

theorem extraction_clean : extractionErrors = [] := by decide

end GoZero.C20.Tie
