/-
C20 (round 4) — lemmas about the scanner model (Scan.lean): every function of the duration family returns a suffix of
its input, `NextToken` makes progress, single tokens and whole token streams are read back as written.
The property-level statements are in PropsScan.lean.
-/
import GoZero.C20.Scan
namespace GoZero.C20.Scan

def DRes.len : DRes → Nat
  | .dur r => r.length
  | .ill r => r.length

theorem dropWhile_len {α} (p : α → Bool) (l : List α) : (l.dropWhile p).length ≤ l.length := by
  induction l with
  | nil => simp
  | cons a l ih => simp only [List.dropWhile_cons]; split <;> simp <;> omega

theorem skipDigits_len (cs : List Char) : (skipDigits cs).length ≤ cs.length := dropWhile_len _ _

theorem scanNano_len (cs : List Char) : (scanNano cs).len ≤ cs.length := by
  unfold scanNano; simp only; split <;> simp [DRes.len] <;> omega

theorem scanMicro_len (cs : List Char) : (scanMicro cs).len ≤ cs.length := by
  unfold scanMicro; simp only
  have h1 := skipDigits_len cs.tail.tail
  have h2 := scanNano_len (skipDigits cs.tail.tail)
  split
  · simp [DRes.len]
  · split
    · simp [DRes.len]; omega
    · split
      · simp [DRes.len] at *; omega
      · simp at *; omega

theorem scanMilli_len (cs : List Char) : (scanMilli cs).len ≤ cs.length := by
  unfold scanMilli; simp only
  have h1 := skipDigits_len cs.tail
  have h2 := scanNano_len (skipDigits cs.tail)
  have h3 := scanMicro_len (skipDigits cs.tail)
  (repeat' split) <;> simp [DRes.len] at * <;> omega

theorem milliAfterM_len (cs : List Char) : (milliAfterM cs).len ≤ cs.length := by
  unfold milliAfterM; simp only
  have h := scanMilli_len cs.tail
  split <;> simp [DRes.len] at * <;> omega

theorem scanSecond_len (cs : List Char) : (scanSecond cs).len ≤ cs.length := by
  unfold scanSecond; simp only
  have h1 := skipDigits_len cs.tail
  have h2 := scanNano_len (skipDigits cs.tail)
  have h3 := scanMicro_len (skipDigits cs.tail)
  have h4 := milliAfterM_len (skipDigits cs.tail)
  (repeat' split) <;> simp [DRes.len] at * <;> omega

theorem scanMinute_len (cs : List Char) : (scanMinute cs).len ≤ cs.length := by
  unfold scanMinute; simp only
  have h1 := skipDigits_len cs
  have h2 := scanNano_len (skipDigits cs)
  have h3 := scanMicro_len (skipDigits cs)
  have h4 := milliAfterM_len (skipDigits cs)
  have h5 := scanSecond_len (skipDigits cs)
  (repeat' split) <;> simp [DRes.len] at * <;> omega

theorem scanMilliOrMinute_len (cs : List Char) : (scanMilliOrMinute cs).len ≤ cs.length := by
  unfold scanMilliOrMinute; simp only
  have h1 := scanMinute_len cs.tail
  have h2 := scanMilli_len cs.tail
  (repeat' split) <;> simp [DRes.len] at * <;> omega

theorem scanHour_len (cs : List Char) : (scanHour cs).len ≤ cs.length := by
  unfold scanHour; simp only
  have h1 := skipDigits_len cs.tail
  have h2 := scanNano_len (skipDigits cs.tail)
  have h3 := scanMicro_len (skipDigits cs.tail)
  have h4 := scanMilliOrMinute_len (skipDigits cs.tail)
  have h5 := scanSecond_len (skipDigits cs.tail)
  (repeat' split) <;> simp [DRes.len] at * <;> omega

theorem scanDuration_len (cs : List Char) : (scanDuration cs).len ≤ cs.length := by
  unfold scanDuration
  have h2 := scanNano_len cs
  have h3 := scanMicro_len cs
  have h4 := scanMilliOrMinute_len cs
  have h5 := scanSecond_len cs
  have h6 := scanHour_len cs
  (repeat' split) <;> simp [DRes.len] at * <;> omega

theorem tail_len (cs : List Char) : cs.tail.length ≤ cs.length := by simp

/-- `scanIntOrDuration` reads at least the digit it is called on -/
theorem scanNumber_progress (c : Char) (cs : List Char) (hd : isDigit c = true) :
    ∀ k t rest, scanNumber (c :: cs) = .tok k t rest → rest.length < (c :: cs).length := by
  intro k t rest h
  unfold scanNumber at h
  have hs : skipDigits (c :: cs) = skipDigits cs := by simp [skipDigits, hd]
  have h1 := skipDigits_len cs
  have h2 := scanDuration_len (skipDigits cs)
  simp only [hs] at h
  split at h
  · split at h
    · rename_i r hr; rw [hr] at h2; simp [DRes.len] at h2; cases h; simp; omega
    · rename_i r hr; rw [hr] at h2; simp [DRes.len] at h2; unfold illegal at h; cases h; simp; omega
  · cases h; simp; omega

theorem docBody_len : ∀ (b : Bool) (cs rest : List Char), docBody b cs = some rest → rest.length < cs.length + 1
  | _, [], _, h => by simp [docBody] at h
  | b, c :: r, rest, h => by
    unfold docBody at h
    split at h
    · cases h
    · split at h
      · have := docBody_len true r rest h; simp; omega
      · split at h
        · cases h; simp; omega
        · have := docBody_len false r rest h; simp; omega

theorem strBody_len (d : Char) : ∀ (cs rest : List Char), strBody d cs = some rest → rest.length < cs.length + 1
  | [], _, h => by simp [strBody] at h
  | c :: r, rest, h => by
    unfold strBody at h
    split at h
    · cases h; simp; omega
    · split at h
      · cases h
      · have := strBody_len d r rest h; simp; omega

/-- PROGRESS: every token `NextToken` returns was read from the input - except the ILLEGAL `@` that `scanAt` returns
for an `@` that is the last rune (or stands in front of a NUL rune), which it does not read. Hence the token loop of
the parser ends on every input: with EOF, with an error, or at the first ILLEGAL token. -/
theorem next_progress (cs : List Char) (k : RK) (t rest : List Char) (h : next cs = .tok k t rest) :
    rest.length < cs.length ∨ (k = .tok .ILLEGAL ∧ rest = cs ∧ (cur cs).toNat = 64 ∧ isNul (peek cs) = true) := by
  cases cs with
  | nil => simp [next, cur, isNul] at h
  | cons c r =>
    unfold next at h
    simp only [show cur (c :: r) = c from rfl] at h
    split at h
    · simp only [illegal] at h; cases h; left; simp
    · split at h
      · -- '/'
        split at h
        · left
          cases h
          simp only [lineComment]
          have := dropWhile_len (fun c => !(c.toNat == 10) && !isNul c) (c :: r)
          rename_i hnn hc _
          have hc' : ((!(c.toNat == 10)) && !isNul c) = true := by
            simp at hc; simp [hnn, hc]
          simp only [List.dropWhile_cons, hc'] at *
          have := dropWhile_len (fun c => !(c.toNat == 10) && !isNul c) r
          simp; omega
        · split at h
          · split at h
            · rename_i rest' hd
              cases h
              have := docBody_len false _ _ hd
              left; simp at *; omega
            · cases h
          · cases h; left; simp
      · split at h
        · -- '.'
          split at h
          · cases h; left; simp
          · split at h
            · cases h; left; simp; omega
            · cases h; left; simp; omega
        · split at h
          · -- '@'
            unfold scanAt at h
            simp only at h
            split at h
            · split at h
              · rename_i h64 _ hn
                cases h; right
                simp at h64
                exact ⟨rfl, rfl, by simp [cur, h64], hn⟩
              · cases h
            · have hl := dropWhile_len isLetter r
              by_cases h1 : List.takeWhile isLetter (c :: r).tail = "handler".toList
              · rw [if_pos h1] at h; cases h; left; simp; omega
              · rw [if_neg h1] at h
                by_cases h2 : List.takeWhile isLetter (c :: r).tail = "server".toList
                · rw [if_pos h2] at h; cases h; left; simp; omega
                · rw [if_neg h2] at h
                  by_cases h3 : List.takeWhile isLetter (c :: r).tail = "doc".toList
                  · rw [if_pos h3] at h; cases h; left; simp; omega
                  · rw [if_neg h3] at h; cases h
          · split at h
            · split at h
              · rename_i rest' hs
                cases h
                have := strBody_len c _ _ hs
                left; simp at *; omega
              · cases h
            · split at h
              · cases h; left; simp
              · split at h
                · -- identifier
                  unfold scanIdent at h
                  rename_i hid
                  have hp : (isIdL c || isDigit c) = true := by simp [hid]
                  have := dropWhile_len (fun c => isIdL c || isDigit c) r
                  simp only [List.dropWhile_cons, hp, ite_true] at h
                  split at h
                  · cases h; left; simp; omega
                  · cases h; left; simp; omega
                · split at h
                  · rename_i hd
                    left; exact scanNumber_progress c r hd k t rest h
                  · unfold illegal at h; cases h; left; simp

/-! ### what the formatter writes is read back: one token -/

def stopsAt (p : Char → Bool) (r : List Char) : Prop := ∀ c r', r = c :: r' → p c = false

theorem takeWhile_app (p : Char → Bool) : ∀ (w r : List Char), (∀ c ∈ w, p c = true) → stopsAt p r →
    (w ++ r).takeWhile p = w ∧ (w ++ r).dropWhile p = r
  | [], r, _, hr => by
    cases r with
    | nil => simp
    | cons c r' => have := hr c r' rfl; simp [this]
  | a :: w, r, hw, hr => by
    have ha : p a = true := hw a (by simp)
    have ih := takeWhile_app p w r (fun c hc => hw c (by simp [hc])) hr
    simp [ha, ih.1, ih.2]

def identChar (c : Char) : Bool := isIdL c || isDigit c

theorem idL_facts (c : Char) (h : isIdL c = true) :
    isNul c = false ∧ (c.toNat == 47) = false ∧ (c.toNat == 46) = false ∧ (c.toNat == 64) = false ∧
    (c.toNat == 34 || c.toNat == 96) = false ∧ single c = none := by
  simp only [isIdL, isLetter, Bool.or_eq_true, Bool.and_eq_true, decide_eq_true_eq, beq_iff_eq] at h
  refine ⟨?_, ?_, ?_, ?_, ?_, ?_⟩
  · simp [isNul]; omega
  · simp; omega
  · simp; omega
  · simp; omega
  · simp; omega
  · unfold single; split <;> first | rfl | (exfalso; omega)

/-- an identifier is read back as the IDENT it was written as, whatever non-identifier rune follows -/
theorem ident_roundtrip (c : Char) (w r : List Char) (hc : isIdL c = true) (hw : ∀ x ∈ w, identChar x = true)
    (hr : stopsAt identChar r)
    (hi : ¬(c :: w = interfaceWord ∧ (cur r).toNat = 123 ∧ (peek r).toNat = 125)) :
    next (c :: w ++ r) = .tok (.tok .IDENT) (c :: w) r := by
  obtain ⟨f1, f2, f3, f4, f5, f6⟩ := idL_facts c hc
  have hcw : ∀ x ∈ c :: w, identChar x = true := by
    intro x hx; simp at hx; rcases hx with rfl | hx
    · simp [identChar, hc]
    · exact hw x hx
  have tw := takeWhile_app identChar (c :: w) r hcw hr
  have tw1 : List.takeWhile (fun c => isIdL c || isDigit c) (c :: (w ++ r)) = c :: w := tw.1
  have tw2 : List.dropWhile (fun c => isIdL c || isDigit c) (c :: (w ++ r)) = r := tw.2
  unfold next
  simp only [List.cons_append, show cur (c :: (w ++ r)) = c from rfl, f1, f2, f3, f4, f5, f6, hc]
  simp only [scanIdent, tw1, tw2]
  simp [hi]

theorem cur_cons (c : Char) (r : List Char) : cur (c :: r) = c := rfl

theorem consumed_app (w r : List Char) : consumed (w ++ r) r = w := by
  simp [consumed]

theorem digit_facts (c : Char) (h : isDigit c = true) :
    isNul c = false ∧ (c.toNat == 47) = false ∧ (c.toNat == 46) = false ∧ (c.toNat == 64) = false ∧
    (c.toNat == 34 || c.toNat == 96) = false ∧ single c = none ∧ isIdL c = false := by
  simp only [isDigit, Bool.and_eq_true, decide_eq_true_eq] at h
  refine ⟨?_, ?_, ?_, ?_, ?_, ?_, ?_⟩
  · simp [isNul]; omega
  · simp; omega
  · simp; omega
  · simp; omega
  · simp; omega
  · unfold single; split <;> first | rfl | (exfalso; omega)
  · simp [isIdL, isLetter]; omega

/-- an integer is read back as the INT it was written as, whatever follows that is neither a digit nor the first
rune of a duration unit -/
theorem int_roundtrip (d : Char) (ds r : List Char) (hd : isDigit d = true) (hds : ∀ x ∈ ds, isDigit x = true)
    (hr : stopsAt isDigit r) (hu : isDurStart (cur r) = false) :
    next (d :: ds ++ r) = .tok (.tok .INT) (d :: ds) r := by
  obtain ⟨f1, f2, f3, f4, f5, f6, f7⟩ := digit_facts d hd
  have hall : ∀ x ∈ d :: ds, isDigit x = true := by
    intro x hx; simp at hx; rcases hx with rfl | hx
    · exact hd
    · exact hds x hx
  have tw := (takeWhile_app isDigit (d :: ds) r hall hr).2
  have tw2 : skipDigits (d :: (ds ++ r)) = r := tw
  have hc := consumed_app (d :: ds) r
  unfold next
  simp only [List.cons_append, show cur (d :: (ds ++ r)) = d from rfl, f1, f2, f3, f4, f5, f6, f7, hd]
  simp only [scanNumber, tw2, hu]
  simpa using hc

/-- a duration `<digits><unit>` is read back as ONE DURATION token whatever rune follows - a blank, a line break,
`)`, `/` of a comment, the end - as long as it is not a digit (and not `s` behind `m`) -/
theorem duration_roundtrip (d : Char) (ds u r : List Char) (hd : isDigit d = true) (hds : ∀ x ∈ ds, isDigit x = true)
    (hu : u = ['s'] ∨ u = ['h'] ∨ u = ['m', 's'] ∨ u = ['n', 's'] ∨ u = [Char.ofNat 181, 's'] ∨
          (u = ['m'] ∧ (cur r).toNat ≠ 115))
    (hf : isDigit (cur r) = false) :
    next (d :: ds ++ u ++ r) = .tok (.tok .DURATION) (d :: ds ++ u) r := by
  obtain ⟨f1, f2, f3, f4, f5, f6, f7⟩ := digit_facts d hd
  have hall : ∀ x ∈ d :: ds, isDigit x = true := by
    intro x hx; simp at hx; rcases hx with rfl | hx
    · exact hd
    · exact hds x hx
  have hstop : stopsAt isDigit (u ++ r) := by
    intro c r' e
    rcases hu with rfl | rfl | rfl | rfl | rfl | ⟨rfl, _⟩ <;> (simp at e; obtain ⟨rfl, _⟩ := e; decide)
  have tw : skipDigits (d :: (ds ++ (u ++ r))) = u ++ r := (takeWhile_app isDigit (d :: ds) (u ++ r) hall hstop).2
  have hc : consumed (d :: (ds ++ (u ++ r))) r = d :: (ds ++ u) := by
    have := consumed_app (d :: ds ++ u) r
    simpa using this
  unfold next
  simp only [List.cons_append, List.append_assoc, show cur (d :: (ds ++ (u ++ r))) = d from rfl, f1, f2, f3, f4, f5, f6, f7, hd]
  simp only [scanNumber, tw]
  rcases hu with rfl | rfl | rfl | rfl | rfl | ⟨rfl, hm⟩
  · have e : scanDuration (['s'] ++ r) = .dur r := by
      simp [scanDuration, scanSecond, cur_cons, hf]
    have e2 : isDurStart (cur (['s'] ++ r)) = true := by simp only [List.cons_append, cur_cons]; decide
    simp only [e, e2, hc]; rfl
  · have e : scanDuration (['h'] ++ r) = .dur r := by
      simp [scanDuration, scanHour, cur_cons, hf]
    have e2 : isDurStart (cur (['h'] ++ r)) = true := by simp only [List.cons_append, cur_cons]; decide
    simp only [e, e2, hc]; rfl
  · have e : scanDuration (['m', 's'] ++ r) = .dur r := by
      simp [scanDuration, scanMilliOrMinute, scanMilli, cur_cons, hf]
    have e2 : isDurStart (cur (['m', 's'] ++ r)) = true := by simp only [List.cons_append, cur_cons]; decide
    simp only [e, e2, hc]; rfl
  · have e : scanDuration (['n', 's'] ++ r) = .dur r := by
      simp [scanDuration, scanNano, cur_cons]
    have e2 : isDurStart (cur (['n', 's'] ++ r)) = true := by simp only [List.cons_append, cur_cons]; decide
    simp only [e, e2, hc]; rfl
  · have e : scanDuration ([Char.ofNat 181, 's'] ++ r) = .dur r := by
      simp [scanDuration, scanMicro, cur_cons, hf]
    have e2 : isDurStart (cur ([Char.ofNat 181, 's'] ++ r)) = true := by simp only [List.cons_append, cur_cons]; decide
    simp only [e, e2, hc]; rfl
  · have e : scanDuration (['m'] ++ r) = .dur r := by
      simp [scanDuration, scanMilliOrMinute, cur_cons, hf, hm]
    have e2 : isDurStart (cur (['m'] ++ r)) = true := by simp only [List.cons_append, cur_cons]; decide
    simp only [e, e2, hc]; rfl

/-- a string / raw string literal without its delimiter (and without NUL) inside is read back as written -/
theorem strBody_app (d : Char) : ∀ (w r : List Char), (∀ x ∈ w, x ≠ d ∧ isNul x = false) → strBody d (w ++ d :: r) = some r
  | [], r, _ => by simp [strBody]
  | a :: w, r, h => by
    have ha := h a (by simp)
    have ih := strBody_app d w r (fun x hx => h x (by simp [hx]))
    simp [strBody, ha.1, ha.2, ih]

theorem string_roundtrip (d : Char) (w r : List Char) (hd : d.toNat = 34 ∨ d.toNat = 96)
    (hw : ∀ x ∈ w, x ≠ d ∧ isNul x = false) :
    next (d :: w ++ d :: r) = .tok (.tok (if d.toNat == 34 then .STRING else .RAW)) (d :: w ++ [d]) r := by
  have hb := strBody_app d w r hw
  have hc : consumed (d :: (w ++ d :: r)) r = d :: (w ++ [d]) := by
    have := consumed_app (d :: w ++ [d]) r
    simpa using this
  unfold next
  have f1 : isNul d = false := by rcases hd with h | h <;> simp [isNul, h]
  have f2 : (d.toNat == 47) = false := by rcases hd with h | h <;> simp [h]
  have f3 : (d.toNat == 46) = false := by rcases hd with h | h <;> simp [h]
  have f4 : (d.toNat == 64) = false := by rcases hd with h | h <;> simp [h]
  have f5 : (d.toNat == 34 || d.toNat == 96) = true := by rcases hd with h | h <;> simp [h]
  simp only [List.cons_append, cur_cons, f1, f2, f3, f4, f5, List.tail_cons, hb, hc]
  simp

/-! ### what the formatter writes is read back: a whole token stream -/

def sepOk (r : List Char) : Prop := r = [] ∨ ∃ r', r = ' ' :: r'

/-- `w` is read as the token `(k, w)` in front of a blank or the end -/
def Reads (k : RK) (w : List Char) : Prop :=
  (∃ c w', w = c :: w' ∧ isWS c = false) ∧ ∀ r, sepOk r → next (w ++ r) = .tok k w r

def render : List (RK × List Char) → List Char
  | [] => []
  | t :: ts => ' ' :: (t.2 ++ render ts)

theorem render_sepOk (ts : List (RK × List Char)) : sepOk (render ts) := by
  cases ts with
  | nil => exact Or.inl rfl
  | cons t ts => exact Or.inr ⟨_, rfl⟩

theorem scanLoop_render : ∀ (ts : List (RK × List Char)) (f : Nat) (acc : List RTok),
    (∀ t ∈ ts, Reads t.1 t.2) → (render ts).length + 1 ≤ f →
    scanLoop f 1 (render ts) acc = .ok (acc.reverse ++ ts.map fun t => { k := t.1, text := t.2, line := 1 })
  | [], f, acc, _, hf => by
    cases f with
    | zero => simp at hf
    | succ f => simp [render, scanLoop, skipWS, next, cur, isNul]
  | (k, w) :: ts, f, acc, h, hf => by
    cases f with
    | zero => simp at hf
    | succ f =>
      obtain ⟨⟨c, w', rfl, hc⟩, hr⟩ := h (k, w) (by simp)
      have hn := hr (render ts) (render_sepOk ts)
      have hsk : skipWS (' ' :: (c :: w' ++ render ts)) = (0, c :: w' ++ render ts) := by
        have h1 : isWS ' ' = true := by decide
        have h2 : (' '.toNat == 10) = false := by decide
        simp [skipWS, h1, hc]
      have ih := scanLoop_render ts f ({ k := k, text := c :: w', line := 1 } :: acc)
        (fun t ht => h t (by simp [ht])) (by simp [render] at hf ⊢; omega)
      simp only [render, scanLoop, hsk, Nat.add_zero, hn]
      have hl : (render ts).length < (c :: w' ++ render ts).length := by simp; omega
      simp only [hl, ite_true, ih]
      simp

/-- THE SCANNER READS BACK A WRITTEN TOKEN STREAM: tokens that are each read back in front of a blank or the end
(`ident_roundtrip`, `int_roundtrip`, `duration_roundtrip`, `string_roundtrip` give this for identifiers, integers,
durations and literals) are read back as a stream, in order, all on line 1, nothing lost, nothing invented -/
theorem scan_render (ts : List (RK × List Char)) (h : ∀ t ∈ ts, Reads t.1 t.2) :
    scanAll (render ts) = .ok (ts.map fun t => { k := t.1, text := t.2, line := 1 }) := by
  have := scanLoop_render ts ((render ts).length + 1) [] h (Nat.le_refl _)
  simpa [scanAll] using this

/-! ### a written token stream WITH line breaks is read back, flags included -/

/-- a raw token as the formatter writes it: starts a new line?, kind, text -/
structure WTok where
  nl : Bool
  k  : K
  w  : List Char

def sepOk2 (r : List Char) : Prop := r = [] ∨ (∃ r', r = ' ' :: r') ∨ (∃ r', r = '\n' :: r')

/-- `w` is read as the token `(k, w)` in front of a blank, a line feed or the end -/
def Reads2 (k : K) (w : List Char) : Prop :=
  (∃ c w', w = c :: w' ∧ isWS c = false) ∧ ∀ r, sepOk2 r → next (w ++ r) = .tok (.tok k) w r

/-- the text: every token behind a blank, or behind a line feed if it starts a line -/
def layout : List WTok → List Char
  | [] => []
  | t :: ts => (if t.nl then '\n' else ' ') :: (t.w ++ layout ts)

theorem layout_sepOk2 (ts : List WTok) : sepOk2 (layout ts) := by
  cases ts with
  | nil => exact Or.inl rfl
  | cons t ts =>
    cases h : t.nl
    · exact Or.inr (Or.inl ⟨t.w ++ layout ts, by simp [layout, h]⟩)
    · exact Or.inr (Or.inr ⟨t.w ++ layout ts, by simp [layout, h]⟩)

/-- the raw tokens with the lines the scanner gives them -/
def withLines : Nat → List WTok → List RTok
  | _, [] => []
  | l, t :: ts => { k := .tok t.k, text := t.w, line := l + (if t.nl then 1 else 0) } :: withLines (l + (if t.nl then 1 else 0)) ts

theorem scanLoop_layout : ∀ (ts : List WTok) (f l : Nat) (acc : List RTok),
    (∀ t ∈ ts, Reads2 t.k t.w) → (layout ts).length + 1 ≤ f →
    scanLoop f l (layout ts) acc = .ok (acc.reverse ++ withLines l ts)
  | [], f, l, acc, _, hf => by
    cases f with
    | zero => simp at hf
    | succ f => simp [layout, scanLoop, skipWS, next, cur, isNul, withLines]
  | t :: ts, f, l, acc, h, hf => by
    cases f with
    | zero => simp at hf
    | succ f =>
      obtain ⟨⟨c, w', hw, hc⟩, hr⟩ := h t (by simp)
      have hn := hr (layout ts) (layout_sepOk2 ts)
      have hsk : skipWS ((if t.nl then '\n' else ' ') :: (t.w ++ layout ts)) = ((if t.nl then 1 else 0), t.w ++ layout ts) := by
        rw [hw]
        cases t.nl
        · have h1 : isWS ' ' = true := by decide
          simp [skipWS, h1, hc]
        · have h1 : isWS '\n' = true := by decide
          simp [skipWS, h1, hc]
      have ih := scanLoop_layout ts f (l + (if t.nl then 1 else 0)) ({ k := .tok t.k, text := t.w, line := l + (if t.nl then 1 else 0) } :: acc)
        (fun t' ht => h t' (by simp [ht])) (by simp [layout] at hf ⊢; omega)
      have hl : (layout ts).length < (t.w ++ layout ts).length := by rw [hw]; simp; omega
      simp only [layout, scanLoop, hsk, hn, hl, ite_true, ih, withLines]
      simp

def toTok (t : WTok) : Tok := { k := t.k, s := String.ofList t.w, nl := t.nl, cm := false }

theorem noCm (l x : Nat) (ts : List WTok) :
    (match withLines l ts with
      | n :: _ => (n.k == RK.comment || n.k == RK.document) && n.line == x
      | [] => false) = false := by
  cases ts with
  | nil => simp [withLines]
  | cons u us => simp [withLines]

theorem toToks_withLines : ∀ (ts : List WTok) (l : Nat), toToks l (withLines l ts) = ts.map toTok
  | [], _ => by simp [withLines, toToks]
  | t :: ts, l => by
    cases hnl : t.nl
    · have ih := toToks_withLines ts l
      simp only [withLines, hnl, toToks, List.map_cons, toTok]
      simp [ih]; cases ts <;> simp [withLines]
    · have ih := toToks_withLines ts (l + 1)
      simp only [withLines, hnl, toToks, List.map_cons, toTok]
      simp [ih]; cases ts <;> simp [withLines]

/-- THE FORMATTED TEXT IS READ BACK AS THE TOKENS THAT WERE WRITTEN, line-break flags included: a token stream whose
first token starts a line and whose tokens are each read back in front of a blank / a line feed / the end, laid out with
one blank or one line feed in front of every token, scans to exactly that stream (kinds, texts, `nl` flags; no comment
flags, nothing lost, nothing invented). -/
theorem scan_layout (t : WTok) (ts : List WTok) (h : ∀ u ∈ t :: ts, Reads2 u.k u.w) (h1 : t.nl = true) :
    ∃ rs, scanAll (layout (t :: ts)) = .ok rs ∧ toToks 0 rs = (t :: ts).map toTok := by
  have hs := scanLoop_layout (t :: ts) ((layout (t :: ts)).length + 1) 1 [] h (Nat.le_refl _)
  refine ⟨withLines 1 (t :: ts), by simpa [scanAll] using hs, ?_⟩
  have ih := toToks_withLines ts 2
  simp only [withLines, h1, toToks, List.map_cons, toTok]
  simp [ih]; cases ts <;> simp [withLines]

/-- single-rune tokens are read back in front of anything -/
theorem reads2_single (c : Char) (k : K) (hs : single c = some k)
    (h1 : isNul c = false) (h2 : (c.toNat == 47) = false) (h3 : (c.toNat == 46) = false) (h4 : (c.toNat == 64) = false)
    (h5 : (c.toNat == 34 || c.toNat == 96) = false) (hw : isWS c = false) : Reads2 k [c] := by
  refine ⟨⟨c, [], rfl, hw⟩, ?_⟩
  intro r _
  simp [next, cur_cons, h1, h2, h3, h4, h5, hs]

theorem reads2_ident (c : Char) (w : List Char) (hc : isIdL c = true) (hw : ∀ x ∈ w, identChar x = true)
    (hi : c :: w ≠ interfaceWord) : Reads2 .IDENT (c :: w) := by
  refine ⟨⟨c, w, rfl, ?_⟩, ?_⟩
  · simp only [isIdL, isLetter, Bool.or_eq_true, Bool.and_eq_true, decide_eq_true_eq, beq_iff_eq] at hc
    simp [isWS]; omega
  · intro r hr
    apply ident_roundtrip c w r hc hw
    · intro x r' e
      rcases hr with rfl | ⟨r'', rfl⟩ | ⟨r'', rfl⟩
      · cases e
      · cases e; decide
      · cases e; decide
    · intro h; exact hi h.1


end GoZero.C20.Scan
