/-
C20 — reference statement lists, part 3 (round 4): the scanner functions that are modelled in Scan.lean (NextToken,
newToken, readRune, peekRune, scanString, scanAt, scanIntOrDuration, illegalToken, scanIdent, scanLetterSet, the
position functions, NewScanner), the token.go functions on the parser's path, format.File, AST.Format, Writer.write /
WriteText / Flush, Parser.Parse / CheckErrors / curTokenIsKeyword / peekTokenIs / expectPeekToken / New - literals
verbatim (white space inside string literals counts). Generated from the extractor's output on the pinned tree;
compared with the current tree by Tie.lean on every run.
-/
namespace GoZero.C20.Ref

/-- body of `Scanner.NextToken` in tools/goctl/pkg/parser/api/scanner/scanner.go (literals verbatim) -/
def x_Scanner_NextToken : List String := [
  "s.skipWhiteSpace()",
  "switch s.ch {",
  "case '/':",
  "peekOne := s.peekRune()",
  "switch peekOne {",
  "case '/':",
  "return s.scanLineComment(), nil",
  "case '*':",
  "return s.scanDocument()",
  "default:",
  "return s.newToken(token.QUO), nil",
  "}",
  "case '-':",
  "return s.newToken(token.SUB), nil",
  "case '*':",
  "return s.newToken(token.MUL), nil",
  "case '(':",
  "return s.newToken(token.LPAREN), nil",
  "case '[':",
  "return s.newToken(token.LBRACK), nil",
  "case '{':",
  "return s.newToken(token.LBRACE), nil",
  "case ',':",
  "return s.newToken(token.COMMA), nil",
  "case '.':",
  "position := s.position",
  "peekOne := s.peekRune()",
  "if peekOne != '.' {",
  "return s.newToken(token.DOT), nil",
  "}",
  "s.readRune()",
  "peekOne = s.peekRune()",
  "if peekOne != '.' {",
  "return s.newToken(token.DOT), nil",
  "}",
  "s.readRune()",
  "s.readRune()",
  "return token.Token{ Type: token.ELLIPSIS, Text: \"...\", Position: s.newPosition(position), }, nil",
  "case ')':",
  "return s.newToken(token.RPAREN), nil",
  "case ']':",
  "return s.newToken(token.RBRACK), nil",
  "case '}':",
  "return s.newToken(token.RBRACE), nil",
  "case ';':",
  "return s.newToken(token.SEMICOLON), nil",
  "case ':':",
  "return s.newToken(token.COLON), nil",
  "case '=':",
  "return s.newToken(token.ASSIGN), nil",
  "case '@':",
  "return s.scanAt()",
  "case '\"':",
  "return s.scanString('\"', token.STRING)",
  "case '`':",
  "return s.scanString('`', token.RAW_STRING)",
  "case 0:",
  "return token.EofToken, nil",
  "default:",
  "if s.isIdentifierLetter(s.ch) {",
  "return s.scanIdent(), nil",
  "}",
  "if s.isDigit(s.ch) {",
  "return s.scanIntOrDuration(), nil",
  "}",
  "tok := token.NewIllegalToken(s.ch, s.newPosition(s.position))",
  "s.readRune()",
  "return tok, nil",
  "}"]

/-- body of `Scanner.newToken` in tools/goctl/pkg/parser/api/scanner/scanner.go (literals verbatim) -/
def x_Scanner_newToken : List String := [
  "tok := token.Token{ Type: tp, Text: string(s.ch), Position: s.positionAt(), }",
  "s.readRune()",
  "return tok"]

/-- body of `Scanner.readRune` in tools/goctl/pkg/parser/api/scanner/scanner.go (literals verbatim) -/
def x_Scanner_readRune : List String := [
  "if s.readPosition >= s.size {",
  "s.ch = 0",
  "} else {",
  "s.ch = s.data[s.readPosition]",
  "}",
  "s.position = s.readPosition",
  "s.readPosition += 1"]

/-- body of `Scanner.peekRune` in tools/goctl/pkg/parser/api/scanner/scanner.go (literals verbatim) -/
def x_Scanner_peekRune : List String := [
  "if s.readPosition >= s.size {",
  "return 0",
  "}",
  "return s.data[s.readPosition]"]

/-- body of `Scanner.scanString` in tools/goctl/pkg/parser/api/scanner/scanner.go (literals verbatim) -/
def x_Scanner_scanString : List String := [
  "position := s.position",
  "var stringMode = initMode",
  "for  {",
  "switch s.ch {",
  "case delim:",
  "switch stringMode {",
  "case initMode:",
  "stringMode = stringOpen",
  "case stringOpen:",
  "stringMode = stringClose",
  "s.readRune()",
  "return token.Token{ Type: tp, Text: string(s.data[position:s.position]), Position: s.newPosition(position), }, nil",
  "}",
  "case 0:",
  "switch stringMode {",
  "case initMode:",
  "return token.ErrorToken, s.assertExpected(token.EOF, tp)",
  "case stringOpen:",
  "return token.ErrorToken, s.assertExpectedString(token.EOF.String(), string(delim))",
  "case stringClose:",
  "return token.Token{ Type: tp, Text: string(s.data[position:s.position]), Position: s.newPosition(position), }, nil",
  "}",
  "}",
  "s.readRune()",
  "}"]

/-- body of `Scanner.scanAt` in tools/goctl/pkg/parser/api/scanner/scanner.go (literals verbatim) -/
def x_Scanner_scanAt : List String := [
  "position := s.position",
  "peek := s.peekRune()",
  "if !s.isLetter(peek) {",
  "if peek == 0 {",
  "return token.NewIllegalToken(s.ch, s.positionAt()), nil",
  "}",
  "return token.ErrorToken, s.assertExpectedString(string(peek), token.IDENT.String())",
  "}",
  "s.readRune()",
  "letters := s.scanLetterSet()",
  "switch letters {",
  "case \"handler\":",
  "return token.Token{ Type: token.AT_HANDLER, Text: \"@handler\", Position: s.newPosition(position), }, nil",
  "case \"server\":",
  "return token.Token{ Type: token.AT_SERVER, Text: \"@server\", Position: s.newPosition(position), }, nil",
  "case \"doc\":",
  "return token.Token{ Type: token.AT_DOC, Text: \"@doc\", Position: s.newPosition(position), }, nil",
  "default:",
  "return token.ErrorToken, s.assertExpectedString( \"@\"+letters, token.AT_DOC.String(), token.AT_HANDLER.String(), token.AT_SERVER.String())",
  "}"]

/-- body of `Scanner.scanIntOrDuration` in tools/goctl/pkg/parser/api/scanner/scanner.go (literals verbatim) -/
def x_Scanner_scanIntOrDuration : List String := [
  "position := s.position",
  "for s.isDigit(s.ch) {",
  "s.readRune()",
  "}",
  "switch s.ch {",
  "case 'n', 'µ', 'm', 's', 'h':",
  "return s.scanDuration(position)",
  "default:",
  "return token.Token{ Type: token.INT, Text: string(s.data[position:s.position]), Position: s.newPosition(position), }",
  "}"]

/-- body of `Scanner.illegalToken` in tools/goctl/pkg/parser/api/scanner/scanner.go (literals verbatim) -/
def x_Scanner_illegalToken : List String := [
  "tok := token.NewIllegalToken(s.ch, s.newPosition(s.position))",
  "s.readRune()",
  "return tok"]

/-- body of `Scanner.scanIdent` in tools/goctl/pkg/parser/api/scanner/scanner.go (literals verbatim) -/
def x_Scanner_scanIdent : List String := [
  "position := s.position",
  "for s.isIdentifierLetter(s.ch) || s.isDigit(s.ch) {",
  "s.readRune()",
  "}",
  "ident := string(s.data[position:s.position])",
  "if ident == \"interface\" && s.ch == '{' && s.peekRune() == '}' {",
  "s.readRune()",
  "s.readRune()",
  "return token.Token{ Type: token.ANY, Text: string(s.data[position:s.position]), Position: s.newPosition(position), }",
  "}",
  "return token.Token{ Type: token.IDENT, Text: ident, Position: s.newPosition(position), }"]

/-- body of `Scanner.scanLetterSet` in tools/goctl/pkg/parser/api/scanner/scanner.go (literals verbatim) -/
def x_Scanner_scanLetterSet : List String := [
  "position := s.position",
  "for s.isLetter(s.ch) {",
  "s.readRune()",
  "}",
  "return string(s.data[position:s.position])"]

/-- body of `Scanner.newPosition` in tools/goctl/pkg/parser/api/scanner/scanner.go (literals verbatim) -/
def x_Scanner_newPosition : List String := [
  "line := s.lineCount()",
  "return token.Position{ Filename: s.filename, Line: line, Column: position - s.lines[line-1], }"]

/-- body of `Scanner.positionAt` in tools/goctl/pkg/parser/api/scanner/scanner.go (literals verbatim) -/
def x_Scanner_positionAt : List String := [
  "return s.newPosition(s.position)"]

/-- body of `Scanner.lineCount` in tools/goctl/pkg/parser/api/scanner/scanner.go (literals verbatim) -/
def x_Scanner_lineCount : List String := [
  "return len(s.lines)"]

/-- body of `NewScanner` in tools/goctl/pkg/parser/api/scanner/scanner.go (literals verbatim) -/
def x_NewScanner : List String := [
  "data, err := readData(filename, src)",
  "if err != nil {",
  "return nil, err",
  "}",
  "if len(data) == 0 {",
  "return nil, fmt.Errorf(\"filename: %s, missing input\", filename)",
  "}",
  "var runeList []rune",
  "range _, r := string(data) {",
  "runeList = append(runeList, r)",
  "}",
  "filename = filepath.Base(filename)",
  "s := &Scanner{ filename: filename, size: len(runeList), data: runeList, lines: []int{-1}, readPosition: 0, }",
  "s.readRune()",
  "return s, nil"]

/-- body of `Token.Is` in tools/goctl/pkg/parser/api/token/token.go (literals verbatim) -/
def x_Token_Is : List String := [
  "range _, v := text {",
  "if t.Text == v {",
  "return true",
  "}",
  "}",
  "return false"]

/-- body of `Token.IsType` in tools/goctl/pkg/parser/api/token/token.go (literals verbatim) -/
def x_Token_IsType : List String := [
  "return t.Type == tp"]

/-- body of `Token.Line` in tools/goctl/pkg/parser/api/token/token.go (literals verbatim) -/
def x_Token_Line : List String := [
  "return t.Position.Line"]

/-- body of `Token.Fork` in tools/goctl/pkg/parser/api/token/token.go (literals verbatim) -/
def x_Token_Fork : List String := [
  "return Token{ Type: tp, Text: t.Text, Position: t.Position, }"]

/-- body of `Token.Valid` in tools/goctl/pkg/parser/api/token/token.go (literals verbatim) -/
def x_Token_Valid : List String := [
  "return t.Type != token_bg"]

/-- body of `Token.IsComment` in tools/goctl/pkg/parser/api/token/token.go (literals verbatim) -/
def x_Token_IsComment : List String := [
  "return t.IsType(COMMENT)"]

/-- body of `Token.IsDocument` in tools/goctl/pkg/parser/api/token/token.go (literals verbatim) -/
def x_Token_IsDocument : List String := [
  "return t.IsType(DOCUMENT)"]

/-- body of `LookupKeyword` in tools/goctl/pkg/parser/api/token/token.go (literals verbatim) -/
def x_LookupKeyword : List String := [
  "tp, ok := keywords[ident]",
  "return tp, ok"]

/-- body of `NewIllegalToken` in tools/goctl/pkg/parser/api/token/token.go (literals verbatim) -/
def x_NewIllegalToken : List String := [
  "return Token{ Type: ILLEGAL, Text: string(b), Position: pos, }"]

/-- body of `File` in tools/goctl/pkg/parser/api/format/format.go (literals verbatim) -/
def x_fmt_File : List String := [
  "data, err := os.ReadFile(filename)",
  "if err != nil {",
  "return err",
  "}",
  "buffer := bytes.NewBuffer(nil)",
  "if err := Source(data, buffer); err != nil {",
  "return err",
  "}",
  "return os.WriteFile(filename, buffer.Bytes(), 0666)"]

/-- body of `AST.Format` in tools/goctl/pkg/parser/api/ast/ast.go (literals verbatim) -/
def x_AST_Format : List String := [
  "fw := NewWriter(w)",
  "defer fw.Flush()",
  "range idx, e := a.Stmts {",
  "if e.Format() == NilIndent {",
  "continue",
  "}",
  "fw.Write(withNode(e))",
  "fw.NewLine()",
  "typeswitch e.(type) {",
  "case *SyntaxStmt:",
  "fw.NewLine()",
  "case *ImportGroupStmt:",
  "fw.NewLine()",
  "case *ImportLiteralStmt:",
  "next := idx + 1",
  "for next < len(a.Stmts) && a.Stmts[next].Format() == NilIndent {",
  "next++",
  "}",
  "if next < len(a.Stmts) {",
  "_, ok := a.Stmts[next].(*ImportLiteralStmt)",
  "if !ok {",
  "fw.NewLine()",
  "}",
  "}",
  "case *InfoStmt:",
  "fw.NewLine()",
  "case *ServiceStmt:",
  "fw.NewLine()",
  "case *TypeGroupStmt:",
  "fw.NewLine()",
  "case *TypeLiteralStmt:",
  "fw.NewLine()",
  "case *CommentStmt:",
  "}",
  "}"]

/-- body of `peekOne` in tools/goctl/pkg/parser/api/ast/ast.go (literals verbatim) -/
def x_peekOne : List String := [
  "if len(list) == 0 {",
  "return \"\"",
  "}",
  "return list[0]"]

/-- body of `Writer.write` in tools/goctl/pkg/parser/api/ast/writer.go (literals verbatim) -/
def x_Writer_write : List String := [
  "if len(opt.nodes) == 0 {",
  "return",
  "}",
  "var textList []string",
  "line := opt.nodes[0].End().Line",
  "var preNode Node",
  "range _, node := opt.nodes {",
  "if util.TrimWhiteSpace(node.Format()) == \"\" {",
  "continue",
  "}",
  "mode := opt.mode",
  "if node.HasHeadCommentGroup() || (preNode != nil && preNode.HasLeadingCommentGroup()) {",
  "mode = ModeAuto",
  "}",
  "if mode == ModeAuto && node.Pos().Line > line {",
  "textList = append(textList, NewLine)",
  "}",
  "line = node.End().Line",
  "textList = append(textList, node.Format(opt.prefix))",
  "preNode = node",
  "}",
  "text := strings.Join(textList, opt.infix)",
  "text = strings.ReplaceAll(text, \" \\n\", \"\\n\")",
  "text = strings.ReplaceAll(text, \"\\n \", \"\\n\")",
  "if opt.rawText {",
  "_, _ = fmt.Fprint(w.writer, text)",
  "return",
  "}",
  "_, _ = fmt.Fprint(w.tw, text)"]

/-- body of `Writer.WriteText` in tools/goctl/pkg/parser/api/ast/writer.go (literals verbatim) -/
def x_Writer_WriteText : List String := [
  "_, _ = fmt.Fprint(w.tw, text)"]

/-- body of `Writer.Flush` in tools/goctl/pkg/parser/api/ast/writer.go (literals verbatim) -/
def x_Writer_Flush : List String := [
  "_ = w.tw.Flush()"]

/-- body of `withNode` in tools/goctl/pkg/parser/api/ast/writer.go (literals verbatim) -/
def x_withNode : List String := [
  "return func(o *option) { o.nodes = nodes }"]

/-- body of `Parser.Parse` in tools/goctl/pkg/parser/api/parser/parser.go (literals verbatim) -/
def x_Parser_Parse : List String := [
  "if !p.init() {",
  "return nil",
  "}",
  "for p.curTokenIsNotEof() {",
  "stmt := p.parseStmt()",
  "if isNil(stmt) {",
  "return nil",
  "}",
  "p.appendStmt(stmt)",
  "if !p.nextToken() {",
  "return nil",
  "}",
  "}",
  "return p.api"]

/-- body of `Parser.CheckErrors` in tools/goctl/pkg/parser/api/parser/parser.go (literals verbatim) -/
def x_Parser_CheckErrors : List String := [
  "if len(p.errors) == 0 {",
  "return nil",
  "}",
  "var errors []string",
  "range _, e := p.errors {",
  "errors = append(errors, e.Error())",
  "}",
  "return fmt.Errorf(strings.Join(errors, \"\\n\"))"]

/-- body of `Parser.curTokenIsKeyword` in tools/goctl/pkg/parser/api/parser/parser.go (literals verbatim) -/
def x_Parser_curTokenIsKeyword : List String := [
  "tp, ok := token.LookupKeyword(p.curTok.Text)",
  "if ok {",
  "p.curTokenIs()",
  "p.expectIdentError(p.curTok.Fork(tp), token.IDENT)",
  "return true",
  "}",
  "return false"]

/-- body of `Parser.peekTokenIs` in tools/goctl/pkg/parser/api/parser/parser.go (literals verbatim) -/
def x_Parser_peekTokenIs : List String := [
  "range _, v := expected {",
  "typeswitch val := v.(type) {",
  "case token.Type:",
  "if p.peekTok.Type == val {",
  "return true",
  "}",
  "case string:",
  "if p.peekTok.Text == val {",
  "return true",
  "}",
  "}",
  "}",
  "return false"]

/-- body of `Parser.expectPeekToken` in tools/goctl/pkg/parser/api/parser/parser.go (literals verbatim) -/
def x_Parser_expectPeekToken : List String := [
  "if p.peekTokenIs(expected...) {",
  "return true",
  "}",
  "var expectedString []string",
  "range _, v := expected {",
  "expectedString = append(expectedString, fmt.Sprintf(\"'%s'\", v))",
  "}",
  "var got string",
  "if p.peekTok.Type == token.ILLEGAL {",
  "got = p.peekTok.Text",
  "} else {",
  "got = p.peekTok.Type.String()",
  "}",
  "var err error",
  "if p.peekTok.Type == token.EOF {",
  "position := p.curTok.Position",
  "position.Column = position.Column + len(p.curTok.Text)",
  "err = fmt.Errorf( \"%s syntax error: expected %s, got '%s'\", position, strings.Join(expectedString, \" | \"), got)",
  "} else {",
  "err = fmt.Errorf( \"%s syntax error: expected %s, got '%s'\", p.peekTok.Position, strings.Join(expectedString, \" | \"), got)",
  "}",
  "p.errors = append(p.errors, err)",
  "return false"]

/-- body of `New` in tools/goctl/pkg/parser/api/parser/parser.go (literals verbatim) -/
def x_New : List String := [
  "abs, err := filepath.Abs(filename)",
  "if err != nil {",
  "log.Fatalln(err)",
  "}",
  "p := &Parser{ s: scanner.MustNewScanner(abs, src), api: &ast.AST{Filename: abs}, node: make(map[token.Token]*ast.TokenNode), }",
  "return p"]

/-- body of `Parser.curTokenIs` in tools/goctl/pkg/parser/api/parser/parser.go (literals verbatim) -/
def x_Parser_curTokenIs : List String := [
  "range _, v := expected {",
  "typeswitch val := v.(type) {",
  "case token.Type:",
  "if p.curTok.Type == val {",
  "return true",
  "}",
  "case string:",
  "if p.curTok.Text == val {",
  "return true",
  "}",
  "}",
  "}",
  "return false"]

/-- body of `Parser.curTokenIsNot` in tools/goctl/pkg/parser/api/parser/parser.go (literals verbatim) -/
def x_Parser_curTokenIsNot : List String := [
  "return p.curTok.Type != expected"]

/-- body of `Parser.curTokenIsNotEof` in tools/goctl/pkg/parser/api/parser/parser.go (literals verbatim) -/
def x_Parser_curTokenIsNotEof : List String := [
  "return p.curTokenIsNot(token.EOF)"]

/-- body of `Parser.peekTokenIsNot` in tools/goctl/pkg/parser/api/parser/parser.go (literals verbatim) -/
def x_Parser_peekTokenIsNot : List String := [
  "range _, v := expected {",
  "typeswitch val := v.(type) {",
  "case token.Type:",
  "if p.peekTok.Type == val {",
  "return false",
  "}",
  "case string:",
  "if p.peekTok.Text == val {",
  "return false",
  "}",
  "}",
  "}",
  "return true"]

/-- body of `Parser.advanceIfPeekTokenIs` in tools/goctl/pkg/parser/api/parser/parser.go (literals verbatim) -/
def x_Parser_advanceIfPeekTokenIs : List String := [
  "if p.expectPeekToken(expected...) {",
  "if !p.nextToken() {",
  "return false",
  "}",
  "return true",
  "}",
  "return false"]

/-- body of `Parser.notExpectPeekToken` in tools/goctl/pkg/parser/api/parser/parser.go (literals verbatim) -/
def x_Parser_notExpectPeekToken : List String := [
  "if !p.peekTokenIsNot(expected...) {",
  "return false",
  "}",
  "var expectedString []string",
  "range _, v := expected {",
  "expectedString = append(expectedString, fmt.Sprintf(\"'%s'\", v))",
  "}",
  "var got string",
  "if p.peekTok.Type == token.ILLEGAL {",
  "got = p.peekTok.Text",
  "} else {",
  "got = p.peekTok.Type.String()",
  "}",
  "var err error",
  "if p.peekTok.Type == token.EOF {",
  "position := p.curTok.Position",
  "position.Column = position.Column + len(p.curTok.Text)",
  "err = fmt.Errorf( \"%s syntax error: expected %s, got '%s'\", position, strings.Join(expectedString, \" | \"), got)",
  "} else {",
  "err = fmt.Errorf( \"%s syntax error: expected %s, got '%s'\", p.peekTok.Position, strings.Join(expectedString, \" | \"), got)",
  "}",
  "p.errors = append(p.errors, err)",
  "return true"]

/-- body of `Parser.notExpectPeekTokenGotComment` in tools/goctl/pkg/parser/api/parser/parser.go (literals verbatim) -/
def x_Parser_notExpectPeekTokenGotComment : List String := [
  "if actual == nil {",
  "return false",
  "}",
  "var expectedString []string",
  "range _, v := expected {",
  "typeswitch val := v.(type) {",
  "case token.Token:",
  "expectedString = append(expectedString, fmt.Sprintf(\"'%s'\", val.Text))",
  "default:",
  "expectedString = append(expectedString, fmt.Sprintf(\"'%s'\", v))",
  "}",
  "}",
  "got := actual.Comment.Type.String()",
  "p.errors = append(p.errors, fmt.Errorf( \"%s syntax error: expected %s, got '%s'\", p.peekTok.Position, strings.Join(expectedString, \" | \"), got))",
  "return true"]

/-- body of `Parser.expectIdentError` in tools/goctl/pkg/parser/api/parser/parser.go (literals verbatim) -/
def x_Parser_expectIdentError : List String := [
  "var expectedString []string",
  "range _, v := expected {",
  "expectedString = append(expectedString, fmt.Sprintf(\"'%s'\", v))",
  "}",
  "p.errors = append(p.errors, fmt.Errorf( \"%s syntax error: expected %s, got '%s'\", tok.Position, strings.Join(expectedString, \" | \"), tok.Type.String()))"]

/-- body of `isNil` in tools/goctl/pkg/parser/api/parser/parser.go (literals verbatim) -/
def x_isNil : List String := [
  "if v == nil {",
  "return true",
  "}",
  "vo := reflect.ValueOf(v)",
  "if vo.Kind() == reflect.Ptr {",
  "return vo.IsNil()",
  "}",
  "return false"]

/-- body of `Parser.appendStmt` in tools/goctl/pkg/parser/api/parser/parser.go (literals verbatim) -/
def x_Parser_appendStmt : List String := [
  "p.api.Stmts = append(p.api.Stmts, stmt...)"]

/-- body of `Parser.hasNoErrors` in tools/goctl/pkg/parser/api/parser/parser.go (literals verbatim) -/
def x_Parser_hasNoErrors : List String := [
  "return len(p.errors) == 0"]

/-- after fixes/C20-scanner-nul-rune.patch: body of `Scanner.NextToken` in tools/goctl/pkg/parser/api/scanner/scanner.go (literals verbatim) -/
def x_Scanner_NextToken_patched : List String := [
  "s.skipWhiteSpace()",
  "switch s.ch {",
  "case '/':",
  "peekOne := s.peekRune()",
  "switch peekOne {",
  "case '/':",
  "return s.scanLineComment(), nil",
  "case '*':",
  "return s.scanDocument()",
  "default:",
  "return s.newToken(token.QUO), nil",
  "}",
  "case '-':",
  "return s.newToken(token.SUB), nil",
  "case '*':",
  "return s.newToken(token.MUL), nil",
  "case '(':",
  "return s.newToken(token.LPAREN), nil",
  "case '[':",
  "return s.newToken(token.LBRACK), nil",
  "case '{':",
  "return s.newToken(token.LBRACE), nil",
  "case ',':",
  "return s.newToken(token.COMMA), nil",
  "case '.':",
  "position := s.position",
  "peekOne := s.peekRune()",
  "if peekOne != '.' {",
  "return s.newToken(token.DOT), nil",
  "}",
  "s.readRune()",
  "peekOne = s.peekRune()",
  "if peekOne != '.' {",
  "return s.newToken(token.DOT), nil",
  "}",
  "s.readRune()",
  "s.readRune()",
  "return token.Token{ Type: token.ELLIPSIS, Text: \"...\", Position: s.newPosition(position), }, nil",
  "case ')':",
  "return s.newToken(token.RPAREN), nil",
  "case ']':",
  "return s.newToken(token.RBRACK), nil",
  "case '}':",
  "return s.newToken(token.RBRACE), nil",
  "case ';':",
  "return s.newToken(token.SEMICOLON), nil",
  "case ':':",
  "return s.newToken(token.COLON), nil",
  "case '=':",
  "return s.newToken(token.ASSIGN), nil",
  "case '@':",
  "return s.scanAt()",
  "case '\"':",
  "return s.scanString('\"', token.STRING)",
  "case '`':",
  "return s.scanString('`', token.RAW_STRING)",
  "case 0:",
  "if s.position < s.size {",
  "return s.illegalToken(), nil",
  "}",
  "return token.EofToken, nil",
  "default:",
  "if s.isIdentifierLetter(s.ch) {",
  "return s.scanIdent(), nil",
  "}",
  "if s.isDigit(s.ch) {",
  "return s.scanIntOrDuration(), nil",
  "}",
  "tok := token.NewIllegalToken(s.ch, s.newPosition(s.position))",
  "s.readRune()",
  "return tok, nil",
  "}"]

/-- after fixes/C20-scanner-nul-rune.patch: switch of Scanner.NextToken -/
def scannerTable_nulpatched : List String := [
  "'/' => …",
  "'-' => return s.newToken(token.SUB), nil",
  "'*' => return s.newToken(token.MUL), nil",
  "'(' => return s.newToken(token.LPAREN), nil",
  "'[' => return s.newToken(token.LBRACK), nil",
  "'{' => return s.newToken(token.LBRACE), nil",
  "',' => return s.newToken(token.COMMA), nil",
  "'.' => …",
  "')' => return s.newToken(token.RPAREN), nil",
  "']' => return s.newToken(token.RBRACK), nil",
  "'}' => return s.newToken(token.RBRACE), nil",
  "';' => return s.newToken(token.SEMICOLON), nil",
  "':' => return s.newToken(token.COLON), nil",
  "'=' => return s.newToken(token.ASSIGN), nil",
  "'@' => return s.scanAt()",
  "'\"' => return s.scanString('\"', token.STRING)",
  "'`' => return s.scanString('`', token.RAW_STRING)",
  "0 => …",
  "default => …"]

end GoZero.C20.Ref
