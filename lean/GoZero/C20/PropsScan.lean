/-
C20 (round 4) — property theorems about the SCANNER (character-level model Scan.lean of scanner/scanner.go; the driver
compares the model with the real scanner on every generated source: kinds, texts, line-break and comment flags,
comments).

Clause "the scanner ... report[s] errors for invalid sources rather than crashing":
  * the model is a total function (every rune sequence gives tokens, `err` or - see `at_end_witness` - `stuck`);
  * `scanner_progress`: every token `NextToken` returns was read from the input, with ONE exception, the ILLEGAL `@`
    for an `@` that is the last rune; so the parser's token loop ends on every input (it stops at the first ILLEGAL).
Clause "the formatted text parses to the same description" - the link between the token-level theorems of Props.lean
(`parse (print a) = some a`) and TEXT:
  * `ident_reads_back`, `int_reads_back`, `duration_reads_back`, `string_reads_back`: a written token is read back as
    the same token, whatever delimiter follows (for durations: `)`, `/`, a blank, the end - anything but a digit);
  * `scanner_reads_back_stream`: tokens that are read back one by one are read back as a stream, in order, nothing
    lost, nothing invented.
  * `scanner_reads_back_layout`: the same with line breaks - a stream laid out with one blank or one LINE FEED in front
    of every token scans to exactly that stream, `nl` flags included, no comment flags;
  * END TO END (scanner -> parser -> formatter): `text_roundtrip` (the laid-out text of `print a` scans and parses back
    to `a`) and `text_format_correct` (the text of the formatted program scans and parses to a program with the same
    description whose formatting writes the same tokens), for every well-formed program whose printed tokens are
    lexically what their kind says (`Reads2`; `reads2_ident`, `reads2_single` and the single-token theorems give it).
  STILL PARTIAL: `Reads2` is a hypothesis about the token TEXTS in the AST (an AST may hold any string as an identifier);
  the layout is the canonical one, not the tabwriter's (alignment, comments: tested by the driver on every program).
Defect witnesses (real code, see props/C20.json): `nul_truncates_witness`, `at_end_witness`.
-/
import GoZero.C20.ProofsScan
import GoZero.C20.Props
namespace GoZero.C20.Scan

/-- PROGRESS. Every token was read from the input - except the ILLEGAL `@` of an `@` that is the last rune. -/
theorem scanner_progress (cs : List Char) (k : RK) (t rest : List Char) (h : next cs = .tok k t rest) :
    rest.length < cs.length ∨ (k = .tok .ILLEGAL ∧ rest = cs ∧ (cur cs).toNat = 64 ∧ isNul (peek cs) = true) :=
  next_progress cs k t rest h

example : next "@doc x".toList = .tok (.tok .AT_DOC) "@doc".toList " x".toList := by decide
example : next "/* a * / b */ c".toList = .tok .document "/* a * / b */".toList " c".toList := by decide
example : next "/* never closed".toList = .err := by decide
example : next "\"never closed".toList = .err := by decide
example : next "@docs".toList = .err := by decide
example : next "#x".toList = .tok (.tok .ILLEGAL) ['#'] ['x'] := by decide

/-- an identifier is read back as the IDENT it was written as, whatever non-identifier rune follows
(unless it is the word `interface` in front of `{}`, which is the ANY token) -/
theorem ident_reads_back (c : Char) (w r : List Char) (hc : isIdL c = true) (hw : ∀ x ∈ w, identChar x = true)
    (hr : stopsAt identChar r)
    (hi : ¬(c :: w = interfaceWord ∧ (cur r).toNat = 123 ∧ (peek r).toNat = 125)) :
    next (c :: w ++ r) = .tok (.tok .IDENT) (c :: w) r :=
  ident_roundtrip c w r hc hw hr hi

example : next "user_Id2-x".toList = .tok (.tok .IDENT) "user_Id2".toList "-x".toList := by decide
example : next "interface{} x".toList = .tok (.tok .ANY) "interface{}".toList " x".toList := by decide
example : next "interface {}".toList = .tok (.tok .IDENT) "interface".toList " {}".toList := by decide

/-- an integer is read back as the INT it was written as -/
theorem int_reads_back (d : Char) (ds r : List Char) (hd : isDigit d = true) (hds : ∀ x ∈ ds, isDigit x = true)
    (hr : stopsAt isDigit r) (hu : isDurStart (cur r) = false) :
    next (d :: ds ++ r) = .tok (.tok .INT) (d :: ds) r :=
  int_roundtrip d ds r hd hds hr hu

example : next "128]byte".toList = .tok (.tok .INT) "128".toList "]byte".toList := by decide

/-- A DURATION IS ONE TOKEN WHATEVER FOLLOWS IT: `<digits><unit>` with unit s, h, ms, ns, µs (or m not followed by `s`)
is read back as one DURATION in front of every rune that is not a digit - `)`, the `/` of a comment, a blank, a line
break, the end. (A scanner that wants a blank behind a duration - seeded change C20-3 - contradicts this theorem.) -/
theorem duration_reads_back (d : Char) (ds u r : List Char) (hd : isDigit d = true) (hds : ∀ x ∈ ds, isDigit x = true)
    (hu : u = ['s'] ∨ u = ['h'] ∨ u = ['m', 's'] ∨ u = ['n', 's'] ∨ u = [Char.ofNat 181, 's'] ∨
          (u = ['m'] ∧ (cur r).toNat ≠ 115))
    (hf : isDigit (cur r) = false) :
    next (d :: ds ++ u ++ r) = .tok (.tok .DURATION) (d :: ds ++ u) r :=
  duration_roundtrip d ds u r hd hds hu hf

example : next "3s)".toList = .tok (.tok .DURATION) "3s".toList [')'] := by decide
example : next "100ms// c".toList = .tok (.tok .DURATION) "100ms".toList "// c".toList := by decide
/-- compound durations in the scanner's order (evaluated, not covered by `duration_reads_back`) -/
example : next "1h2m3s4ms5µs6ns/* c */".toList = .tok (.tok .DURATION) "1h2m3s4ms5µs6ns".toList "/* c */".toList := by decide
/-- the runes in front of an ILLEGAL rune of a duration are in no token (invalid source: `3n4`) -/
example : next "3n4 x".toList = .tok (.tok .ILLEGAL) ['4'] " x".toList := by decide

/-- a string / raw string literal without its own delimiter inside is read back as written -/
theorem string_reads_back (d : Char) (w r : List Char) (hd : d.toNat = 34 ∨ d.toNat = 96)
    (hw : ∀ x ∈ w, x ≠ d ∧ isNul x = false) :
    next (d :: w ++ d :: r) = .tok (.tok (if d.toNat == 34 then .STRING else .RAW)) (d :: w ++ [d]) r :=
  string_roundtrip d w r hd hw

example : next "`json:\"id\"` // c".toList = .tok (.tok .RAW) "`json:\"id\"`".toList " // c".toList := by decide
example : next "\"a // b\"x".toList = .tok (.tok .STRING) "\"a // b\"".toList ['x'] := by decide

/-- THE SCANNER READS BACK A WRITTEN TOKEN STREAM (the special case of `scanner_reads_back_layout` with blanks as the only separators): tokens that are each read
back in front of a blank or the end are read back as a stream - in order, nothing lost, nothing invented -/
theorem scanner_reads_back_stream (ts : List (RK × List Char)) (h : ∀ t ∈ ts, Reads t.1 t.2) :
    scanAll (render ts) = .ok (ts.map fun t => { k := t.1, text := t.2, line := 1 }) :=
  scan_render ts h

/-- the hypothesis `Reads` is what the single-token theorems give: here for an identifier -/
theorem reads_ident (c : Char) (w : List Char) (hc : isIdL c = true) (hw : ∀ x ∈ w, identChar x = true)
    (hi : c :: w ≠ interfaceWord) : Reads (.tok .IDENT) (c :: w) := by
  refine ⟨⟨c, w, rfl, ?_⟩, ?_⟩
  · simp only [isIdL, isLetter, Bool.or_eq_true, Bool.and_eq_true, decide_eq_true_eq, beq_iff_eq] at hc
    simp [isWS]; omega
  · intro r hr
    apply ident_roundtrip c w r hc hw
    · intro x r' e
      rcases hr with rfl | ⟨r'', rfl⟩
      · cases e
      · cases e; decide
    · intro h; exact hi h.1

example : scanAll (render [(.tok .IDENT, "type".toList), (.tok .IDENT, "User".toList)])
    = .ok [⟨.tok .IDENT, "type".toList, 1⟩, ⟨.tok .IDENT, "User".toList, 1⟩] :=
  scanner_reads_back_stream _ (by
    intro t ht
    simp at ht
    rcases ht with rfl | rfl
    · exact reads_ident 't' "ype".toList (by decide) (by decide) (by decide)
    · exact reads_ident 'U' "ser".toList (by decide) (by decide) (by decide))

/-- lines are counted where white space is skipped, comments are tokens of their own -/
example : scanAll "a // c\n/* x */ b".toList
    = .ok [⟨.tok .IDENT, ['a'], 1⟩, ⟨.comment, "// c".toList, 1⟩, ⟨.document, "/* x */".toList, 2⟩, ⟨.tok .IDENT, ['b'], 2⟩] := by
  decide


/-! ### round 4: text level, line breaks included, and the end-to-end compositions -/

/-- THE FORMATTED TEXT IS READ BACK AS THE TOKENS THAT WERE WRITTEN, line-break flags included (`scan_layout`):
a token stream whose first token starts a line and whose tokens are each read back in front of a blank / a line feed /
the end (`Reads2`), laid out with one blank or one line feed in front of every token, scans to exactly that stream -/
theorem scanner_reads_back_layout (t : WTok) (ts : List WTok) (h : ∀ u ∈ t :: ts, Reads2 u.k u.w) (h1 : t.nl = true) :
    ∃ rs, scanAll (layout (t :: ts)) = .ok rs ∧ toToks 0 rs = (t :: ts).map toTok :=
  scan_layout t ts h h1

/-- END TO END, TEXT LEVEL (scanner -> parser): the text laid out from the tokens `print a` of a well-formed program -
one blank or one line feed in front of every token - scans and parses back to exactly `a`, provided every printed
token is lexically what its kind says (`Reads2`: `reads2_ident`, `reads2_single`, and the single-token theorems). -/
theorem text_roundtrip (a : Api) (hw : WF a) (t : WTok) (ts : List WTok) (hp : print a = (t :: ts).map toTok)
    (h : ∀ u ∈ t :: ts, Reads2 u.k u.w) (h1 : t.nl = true) :
    ∃ rs, scanAll (layout (t :: ts)) = .ok rs ∧ parse (toToks 0 rs) = some a := by
  obtain ⟨rs, h2, h3⟩ := scan_layout t ts h h1
  exact ⟨rs, h2, by rw [h3, ← hp]; exact parse_print a hw⟩

/-- END TO END, TEXT LEVEL (scanner -> parser -> formatter), the property's second and third clause: the text of the
formatted program scans and parses, to a program with the same API description, and formatting that writes the same
tokens again. -/
theorem text_format_correct (a : Api) (hw : WF a) (t : WTok) (ts : List WTok) (hp : format a = (t :: ts).map toTok)
    (h : ∀ u ∈ t :: ts, Reads2 u.k u.w) (h1 : t.nl = true) :
    ∃ rs b, scanAll (layout (t :: ts)) = .ok rs ∧ parse (toToks 0 rs) = some b ∧ sameDesc a b = true ∧
      format b = format a := by
  obtain ⟨rs, h2, h3⟩ := scan_layout t ts h h1
  obtain ⟨b, hb, hd, hf, _⟩ := format_correct a hw
  exact ⟨rs, b, h2, by rw [h3, ← hp]; exact hb, hd, hf⟩

def sampleText : List WTok :=
  [⟨true, .IDENT, "type".toList⟩, ⟨false, .IDENT, "Empty".toList⟩, ⟨false, .LBRACE, ['{']⟩, ⟨false, .RBRACE, ['}']⟩]

def sampleProg : Api := [.typeLit { name := "Empty", assign := false, ty := .struct .nil }]

theorem sampleText_reads : ∀ u ∈ sampleText, Reads2 u.k u.w := by
  intro u hu
  simp [sampleText] at hu
  rcases hu with rfl | rfl | rfl | rfl
  · exact reads2_ident 't' "ype".toList (by decide) (by decide) (by decide)
  · exact reads2_ident 'E' "mpty".toList (by decide) (by decide) (by decide)
  · exact reads2_single '{' .LBRACE (by decide) (by decide) (by decide) (by decide) (by decide) (by decide) (by decide)
  · exact reads2_single '}' .RBRACE (by decide) (by decide) (by decide) (by decide) (by decide) (by decide) (by decide)

example : ∃ rs, scanAll "\ntype Empty { }".toList = .ok rs ∧ parse (toToks 0 rs) = some sampleProg :=
  text_roundtrip sampleProg (by intro s hs; simp [sampleProg] at hs; subst hs; exact ⟨by decide, by simp [wfDT, wfFields]⟩)
    ⟨true, .IDENT, "type".toList⟩ sampleText.tail (by decide) sampleText_reads rfl

/-! ### defect witnesses (the model follows the real code; both are reproduced on the real scanner by the harness) -/

/-- DEFECT of the pinned code (repaired by fixes/C20-scanner-nul-rune.patch): `NextToken` returns EOF for `s.ch == 0`
wherever the NUL rune stands, so everything behind it is dropped WITHOUT an error (parse ok, format ok; format.File
writes the file back without it). The pinned function ends the token stream; the repaired one (the model) returns an
ILLEGAL token, on which the parser reports an error. -/
theorem nul_truncates_witness :
    nextPinned "\x00 service s { @handler h get /a }".toList = .eof ∧
    next "\x00 service s { @handler h get /a }".toList
      = .tok (.tok .ILLEGAL) [Char.ofNat 0] " service s { @handler h get /a }".toList ∧
    scanAll "type A {}\x00 x".toList
      = .ok [⟨.tok .IDENT, "type".toList, 1⟩, ⟨.tok .IDENT, "A".toList, 1⟩, ⟨.tok .LBRACE, ['{'], 1⟩, ⟨.tok .RBRACE, ['}'], 1⟩,
             ⟨.tok .ILLEGAL, [Char.ofNat 0], 1⟩, ⟨.tok .IDENT, ['x'], 1⟩] := by
  decide

/-- QUIRK: `scanAt` returns ILLEGAL for an `@` that is the last rune WITHOUT reading it: `NextToken` returns the same
token for ever. The parser stops at the first ILLEGAL token (an error is reported, no crash); a caller that loops to EOF
does not terminate. -/
theorem at_end_witness : next ['@'] = .tok (.tok .ILLEGAL) ['@'] ['@'] ∧ scanAll "a @".toList = .stuck := by
  decide

end GoZero.C20.Scan
