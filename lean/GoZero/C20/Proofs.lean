/-
C20 — lemmas: `norm` is idempotent; round trip of the data-type / struct-field parser and printer.
-/
import GoZero.C20.Model
import GoZero.C20.Spec
namespace GoZero.C20

/-! ### norm -/

theorem normBody_idem (b : Body) : normBody (normBody b) = normBody b := by
  cases b <;> rfl

theorem normDoc_idem (d : Doc) : normDoc (normDoc d) = normDoc d := by
  cases d with
  | none => rfl
  | lit s =>
    by_cases h : isZero s = true <;> simp [normDoc, h]
  | group kvs =>
    by_cases h : kvsEmpty kvs = true <;> simp [normDoc, h]

theorem normItem_idem (i : Item) : normItem (normItem i) = normItem i := by
  simp [normItem, normDoc_idem, normBody_idem]

theorem normStmt_idem (s t : Stmt) (h : normStmt s = some t) : normStmt t = some t := by
  cases s with
  | syntaxS v => simp [normStmt] at h; subst h; rfl
  | info kvs =>
    by_cases e : kvsEmpty kvs = true <;> simp [normStmt, e] at h
    subst h; simp [normStmt, e]
  | importLit v =>
    by_cases e : isZero v = true <;> simp [normStmt, e] at h
    subst h; simp [normStmt, e]
  | importGroup vs =>
    by_cases e : vs.all isZero = true
    · simp [normStmt, e] at h
    · have h' : normStmt (Stmt.importGroup vs) = some (Stmt.importGroup vs) := by
        simp only [normStmt]; rw [if_neg e]
      rw [h'] at h; cases h; exact h'
  | typeLit e => simp [normStmt] at h; subst h; rfl
  | typeGroup es =>
    by_cases e : es.isEmpty = true <;> simp [normStmt, e] at h
    subst h; simp [normStmt, e]
  | service at_ n api its =>
    simp only [normStmt, Option.some.injEq] at h
    subst h
    cases at_ with
    | none => simp [normStmt, normItem_idem]
    | some kvs =>
      by_cases e : skvsEmpty kvs = true <;> simp [normStmt, e, normItem_idem]

theorem norm_idem (a : Api) : norm (norm a) = norm a := by
  induction a with
  | nil => rfl
  | cons s r ih =>
    unfold norm at *
    cases hs : normStmt s with
    | none => simp [hs, ih]
    | some t => simp [hs, normStmt_idem s t hs, ih]

/-! ### well-formed ASTs (what the parser can produce) and sizes (fuel) -/

mutual
  def szDT : DT → Nat
    | .base _ => 1
    | .any _ => 1
    | .iface _ => 1
    | .ptr d => szDT d + 1
    | .slice d => szDT d + 1
    | .arr _ d => szDT d + 1
    | .map k v => szDT k + szDT v + 1
    | .struct fs => szFields fs + 1
  def szFields : Fields → Nat
    | .nil => 1
    | .cons ns ty _ rest => szDT ty + szFields rest + ns.length + 1
end

def notStruct : DT → Prop
  | .struct _ => False
  | _ => True

/-- type of an anonymous (embedded) field -/
def anonOk : DT → Prop
  | .base t => t ≠ "any" ∧ isKw t = false
  | .any t => t = "any"
  | .ptr (.base t) => t ≠ "any"
  | .ptr (.any t) => t = "any"
  | _ => False

mutual
  def wfDT : DT → Prop
    | .base t => t ≠ "any" ∧ t ≠ "map" ∧ isKw t = false
    | .any t => t = "any"
    | .iface t => t ≠ "any"
    | .ptr d => wfDT d ∧ notStruct d
    | .slice d => wfDT d
    | .arr _ d => wfDT d
    | .map k v => wfDT k ∧ wfDT v
    | .struct fs => wfFields fs
  def wfFields : Fields → Prop
    | .nil => True
    | .cons [] ty _ rest => anonOk ty ∧ wfFields rest
    | .cons (n :: ns) ty _ rest => isKw n = false ∧ (∀ m ∈ ns, isKw m = false) ∧ wfDT ty ∧ wfFields rest
end

theorem szDT_pos (d : DT) : 1 ≤ szDT d := by cases d <;> simp [szDT]
theorem szFields_pos (fs : Fields) : 1 ≤ szFields fs := by cases fs <;> simp [szFields]

/-- first token written for a data type: never on a new line, never a tag, one of the kinds `parseDataType` expects -/
theorem printDT_head (d : DT) : ∃ q tl, printDT d = q :: tl ∧ q.nl = false ∧ q.k ≠ .RAW ∧ q.k ≠ .COMMA ∧
    (q.k = .IDENT ∨ q.k = .LBRACK ∨ q.k = .ANY ∨ q.k = .MUL ∨ q.k = .LBRACE) ∧ (notStruct d → q.k ≠ .LBRACE) := by
  cases d with
  | arr n d => cases n <;> simp [printDT, tk, notStruct]
  | struct fs => cases fs <;> simp [printDT, tk, notStruct]
  | _ => simp [printDT, tk, notStruct]

/-- first token after a field: starts a line and is `*`, an identifier or the closing brace -/
theorem printFields_head (fs : Fields) (c : Tok) (rest : List Tok) (hw : wfFields fs)
    (hc : c.k = .RBRACE ∧ c.nl = true) :
    ∃ q tl, printFields fs ++ c :: rest = q :: tl ∧ q.nl = true ∧ (q.k = .MUL ∨ q.k = .IDENT ∨ q.k = .RBRACE) := by
  cases fs with
  | nil => exact ⟨c, rest, by simp [printFields], hc.2, Or.inr (Or.inr hc.1)⟩
  | cons ns ty tag r =>
    cases ns with
    | cons n ns => simp [printFields, tk]
    | nil =>
      simp only [wfFields] at hw
      cases ty with
      | base t => simp [printFields, printDT, markNl, tk]
      | any t => simp [printFields, printDT, markNl, tk]
      | ptr d => simp [printFields, printDT, markNl, tk]
      | _ => simp [anonOk] at hw

theorem parseNames_print (ns : List String) : ∀ (f : Nat) (q : Tok) (tl : List Tok),
    (∀ m ∈ ns, isKw m = false) → ns.length + 1 ≤ f → q.k ≠ .COMMA →
    parseNames f (printNames ns ++ q :: tl) = some (ns, q :: tl) := by
  induction ns with
  | nil =>
    intro f q tl _ hf hq
    obtain ⟨f, rfl⟩ : ∃ g, f = g + 1 := ⟨f - 1, by omega⟩
    obtain ⟨k, s, nl, cm⟩ := q
    cases k <;> simp_all [parseNames, printNames]
  | cons n ns ih =>
    intro f q tl hk hf hq
    obtain ⟨f, rfl⟩ : ∃ g, f = g + 1 := ⟨f - 1, by omega⟩
    have hn : isKw n = false := hk n (by simp)
    have ih' := ih f q tl (fun m hm => hk m (by simp [hm])) (by simp at hf; omega) hq
    simp [parseNames, printNames, tk, hn, ih']

def tagToks : Option String → List Tok
  | some g => [tk .RAW g]
  | none => []

theorem fieldTail_print (tag : Option String) (q : Tok) (tl : List Tok)
    (hq : q.k = .MUL ∨ q.k = .IDENT ∨ q.k = .RBRACE) :
    fieldTail (tagToks tag ++ q :: tl) = some (tag, q :: tl) := by
  cases tag with
  | some g => simp [tagToks, fieldTail, tk]
  | none =>
    have h : q.k ≠ .RAW := by rcases hq with h | h | h <;> simp [h]
    simp [tagToks, fieldTail, h, hq]

theorem printFields_cons_nil (ty : DT) (tag : Option String) (rest : Fields) :
    printFields (.cons [] ty tag rest) = markNl (printDT ty) ++ tagToks tag ++ printFields rest := by
  cases tag <;> simp [printFields, tagToks]

theorem printFields_cons_cons (n : String) (ns : List String) (ty : DT) (tag : Option String) (rest : Fields) :
    printFields (.cons (n :: ns) ty tag rest)
      = tk .IDENT n true :: (printNames ns ++ printDT ty ++ tagToks tag ++ printFields rest) := by
  cases tag <;> simp [printFields, tagToks]

mutual
  theorem parseDT_print : ∀ (d : DT) (f : Nat) (rest : List Tok), wfDT d → szDT d ≤ f →
      parseDT f (printDT d ++ rest) = some (d, rest)
    | .base t, f, rest, hw, hf => by
      obtain ⟨f, rfl⟩ : ∃ g, f = g + 1 := ⟨f - 1, by simp [szDT] at hf; omega⟩
      simp only [wfDT] at hw
      simp [parseDT, printDT, tk, hw.1, hw.2.1, hw.2.2]
    | .any t, f, rest, hw, hf => by
      obtain ⟨f, rfl⟩ : ∃ g, f = g + 1 := ⟨f - 1, by simp [szDT] at hf; omega⟩
      simp only [wfDT] at hw
      subst hw
      simp [parseDT, printDT, tk]
    | .iface t, f, rest, hw, hf => by
      obtain ⟨f, rfl⟩ : ∃ g, f = g + 1 := ⟨f - 1, by simp [szDT] at hf; omega⟩
      simp only [wfDT] at hw
      simp [parseDT, printDT, tk, hw]
    | .ptr d, f, rest, hw, hf => by
      obtain ⟨f, rfl⟩ : ∃ g, f = g + 1 := ⟨f - 1, by simp [szDT] at hf; omega⟩
      simp only [wfDT] at hw
      have ih := parseDT_print d f rest hw.1 (by simp [szDT] at hf; omega)
      obtain ⟨q, tl, hq, _, _, _, hk, hns⟩ := printDT_head d
      have hb := hns hw.2
      rw [hq] at ih
      simp only [List.cons_append] at ih
      have hk' : q.k = .IDENT ∨ q.k = .LBRACK ∨ q.k = .ANY ∨ q.k = .MUL := by
        rcases hk with h | h | h | h | h
        · exact Or.inl h
        · exact Or.inr (Or.inl h)
        · exact Or.inr (Or.inr (Or.inl h))
        · exact Or.inr (Or.inr (Or.inr h))
        · exact absurd h hb
      simp only [printDT, List.cons_append, hq]
      simp [parseDT, tk, hk', ih]
    | .slice d, f, rest, hw, hf => by
      obtain ⟨f, rfl⟩ : ∃ g, f = g + 1 := ⟨f - 1, by simp [szDT] at hf; omega⟩
      simp only [wfDT] at hw
      have ih := parseDT_print d f rest hw (by simp [szDT] at hf; omega)
      simp [parseDT, printDT, tk, ih]
    | .arr (some n) d, f, rest, hw, hf => by
      obtain ⟨f, rfl⟩ : ∃ g, f = g + 1 := ⟨f - 1, by simp [szDT] at hf; omega⟩
      simp only [wfDT] at hw
      have ih := parseDT_print d f rest hw (by simp [szDT] at hf; omega)
      simp [parseDT, printDT, tk, ih]
    | .arr none d, f, rest, hw, hf => by
      obtain ⟨f, rfl⟩ : ∃ g, f = g + 1 := ⟨f - 1, by simp [szDT] at hf; omega⟩
      simp only [wfDT] at hw
      have ih := parseDT_print d f rest hw (by simp [szDT] at hf; omega)
      simp [parseDT, printDT, tk, ih]
    | .map k v, f, rest, hw, hf => by
      obtain ⟨f, rfl⟩ : ∃ g, f = g + 1 := ⟨f - 1, by simp [szDT] at hf; omega⟩
      simp only [wfDT] at hw
      have ihk := parseDT_print k f (tk .RBRACK "]" :: (printDT v ++ rest)) hw.1 (by simp [szDT] at hf; omega)
      have ihv := parseDT_print v f rest hw.2 (by simp [szDT] at hf; omega)
      simp [parseDT, printDT, tk] at ihk ⊢
      simp [ihk, ihv]
    | .struct fs, f, rest, hw, hf => by
      obtain ⟨f, rfl⟩ : ∃ g, f = g + 1 := ⟨f - 1, by simp [szDT] at hf; omega⟩
      simp only [wfDT] at hw
      cases fs with
      | nil =>
        obtain ⟨f, rfl⟩ : ∃ g, f = g + 1 := ⟨f - 1, by simp [szDT, szFields] at hf; omega⟩
        simp [parseDT, printDT, tk, parseFields]
      | cons ns ty tag r =>
        have ih := parseFields_print (.cons ns ty tag r) f (tk .RBRACE "}" true) rest hw
          (by simp [szDT] at hf; omega) ⟨rfl, rfl⟩
        simp [parseDT, printDT, tk] at ih ⊢
        simp [ih]
  theorem parseFields_print : ∀ (fs : Fields) (f : Nat) (c : Tok) (rest : List Tok), wfFields fs → szFields fs ≤ f →
      (c.k = .RBRACE ∧ c.nl = true) →
      parseFields f (printFields fs ++ c :: rest) = some (fs, c :: rest)
    | .nil, f, c, rest, hw, hf, hc => by
      obtain ⟨f, rfl⟩ : ∃ g, f = g + 1 := ⟨f - 1, by simp [szFields] at hf; omega⟩
      simp [parseFields, printFields, hc.1]
    | .cons [] ty tag r, f, c, rest, hw, hf, hc => by
      obtain ⟨f, rfl⟩ : ∃ g, f = g + 1 := ⟨f - 1, by simp [szFields] at hf; omega⟩
      simp only [wfFields] at hw
      have ih := parseFields_print r f c rest hw.2 (by simp [szFields] at hf; omega) hc
      obtain ⟨q, tl, hq, hnl, hk⟩ := printFields_head r c rest hw.2 hc
      have ft := fieldTail_print tag q tl hk
      rw [hq] at ih
      rw [printFields_cons_nil]
      cases ty with
      | base t =>
        simp only [anonOk] at hw
        have hnext : anonNext (tagToks tag ++ q :: tl) = true := by
          cases tag <;> simp [tagToks, anonNext, tk, hnl]
        simp [printDT, markNl, tk, List.append_assoc, hq, parseFields, hw.1.1, hw.1.2, hnext, ft, ih]
      | any t =>
        simp only [anonOk] at hw
        have hnext : anonNext (tagToks tag ++ q :: tl) = true := by
          cases tag <;> simp [tagToks, anonNext, tk, hnl]
        have ht := hw.1
        subst ht
        simp [printDT, markNl, tk, List.append_assoc, hq, parseFields, isKw, keywords, hnext, ft, ih]
      | ptr d =>
        cases d with
        | base t =>
          simp only [anonOk] at hw
          simp [printDT, markNl, tk, List.append_assoc, hq, parseFields, hw.1, ft, ih]
        | any t =>
          simp only [anonOk] at hw
          have ht := hw.1
          subst ht
          simp [printDT, markNl, tk, List.append_assoc, hq, parseFields, ft, ih]
        | _ => simp [anonOk] at hw
      | _ => simp [anonOk] at hw
    | .cons (n :: ns) ty tag r, f, c, rest, hw, hf, hc => by
      obtain ⟨f, rfl⟩ : ∃ g, f = g + 1 := ⟨f - 1, by simp [szFields] at hf; omega⟩
      simp only [wfFields] at hw
      obtain ⟨hn, hns, hty, hr⟩ := hw
      have ih := parseFields_print r f c rest hr (by simp [szFields] at hf; omega) hc
      obtain ⟨q, tl, hq, hnl, hk⟩ := printFields_head r c rest hr hc
      have ft := fieldTail_print tag q tl hk
      rw [hq] at ih
      have ihd := parseDT_print ty f (tagToks tag ++ q :: tl) hty (by simp [szFields] at hf; omega)
      obtain ⟨p, ptl, hp, hpnl, hpraw, hpcomma, hpk, _⟩ := printDT_head ty
      rw [hp] at ihd
      simp only [List.cons_append] at ihd
      have hnames := parseNames_print ns f p (ptl ++ (tagToks tag ++ q :: tl)) hns
        (by simp [szFields] at hf; omega) hpcomma
      rw [printFields_cons_cons]
      simp only [List.cons_append, List.append_assoc, hq, hp]
      have hanon : anonNext (printNames ns ++ p :: (ptl ++ (tagToks tag ++ q :: tl))) = false := by
        cases ns with
        | nil => simp [printNames, anonNext, hpnl, hpraw]
        | cons m ms => simp [printNames, anonNext, tk]
      have hnamed : namedNext (printNames ns ++ p :: (ptl ++ (tagToks tag ++ q :: tl))) = true := by
        cases ns with
        | nil =>
          simp only [printNames, List.nil_append, namedNext]
          rcases hpk with h | h | h | h | h <;> simp [h]
        | cons m ms => simp [printNames, namedNext, tk]
      simp [parseFields, tk, hn, hanon, hnamed, hnames, ihd, ft, ih]
end

end GoZero.C20
