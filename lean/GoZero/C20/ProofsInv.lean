/-
C20 — round 5c: INVERSION of the parser model: every AST the model parser builds is well-formed
(`parse ts = some a → WF a`), by induction over the fuel of every parser function.
-/
import GoZero.C20.Proofs3
namespace GoZero.C20

macro "splits" h:ident : tactic => `(tactic| repeat' (split at $h:ident))

theorem parseDT_notStruct (f : Nat) (p : Tok) (r : List Tok) (d : DT) (r' : List Tok)
    (h : parseDT f (p :: r) = some (d, r')) (hp : p.k = .IDENT ∨ p.k = .LBRACK ∨ p.k = .ANY ∨ p.k = .MUL) :
    notStruct d := by
  cases f with
  | zero => simp [parseDT] at h
  | succ f =>
    simp only [parseDT] at h
    splits h <;> simp_all [notStruct] <;> (try (obtain ⟨rfl, _⟩ := h; simp [notStruct]))

theorem parseDT_inv : ∀ f : Nat,
    (∀ ts d r, parseDT f ts = some (d, r) → wfDT d) ∧
    (∀ ts fs r, parseFields f ts = some (fs, r) → wfFields fs) ∧
    (∀ ts ns r, parseNames f ts = some (ns, r) → ∀ m ∈ ns, isKw m = false) := by
  intro f
  induction f with
  | zero =>
    refine ⟨?_, ?_, ?_⟩ <;> intro ts a r h
    · simp [parseDT] at h
    · simp [parseFields] at h
    · simp [parseNames] at h
  | succ f ih =>
    obtain ⟨ihD, ihF, ihN⟩ := ih
    refine ⟨?_, ?_, ?_⟩
    · intro ts d r h
      cases ts with
      | nil => simp [parseDT] at h
      | cons t q =>
        simp only [parseDT] at h
        splits h <;> simp_all [wfDT] <;> (obtain ⟨rfl, _⟩ := h <;> simp only [wfDT] <;> first | grind | exact ⟨ihD _ _ _ (by assumption), parseDT_notStruct _ _ _ _ _ (by assumption) (by assumption)⟩)
    · intro ts fs r h
      cases ts with
      | nil => simp [parseFields] at h
      | cons t q =>
        simp only [parseFields] at h
        splits h <;> simp_all [wfFields] <;> (obtain ⟨rfl, _⟩ := h <;> simp only [wfFields, anonOk] <;> first | grind | skip)
    · intro ts ns r h
      unfold parseNames at h
      splits h <;> simp_all <;> (obtain ⟨rfl, _⟩ := h <;> first | grind | skip)

theorem parseTExpr_inv (f : Nat) (ts : List Tok) (e : TExpr) (r : List Tok) (h : parseTExpr f ts = some (e, r)) :
    wfTExpr e := by
  unfold parseTExpr at h
  splits h <;> simp_all <;> (obtain ⟨rfl, _⟩ := h <;> simp only [wfTExpr] <;>
    exact ⟨by assumption, (parseDT_inv f).1 _ _ _ (by assumption)⟩)

theorem parseTExprs_inv : ∀ (f : Nat) (ts : List Tok) (es : List TExpr) (r : List Tok),
    parseTExprs f ts = some (es, r) → ∀ e ∈ es, wfTExpr e := by
  intro f
  induction f with
  | zero => intro ts es r h; simp [parseTExprs] at h
  | succ f ih =>
    intro ts es r h
    cases ts with
    | nil => simp [parseTExprs] at h
    | cons t q =>
      simp only [parseTExprs] at h
      splits h <;> simp_all <;> (obtain ⟨rfl, _⟩ := h)
      intro e he
      rcases List.mem_cons.mp he with rfl | he
      · exact parseTExpr_inv _ _ _ _ (by assumption)
      · exact ih _ _ _ (by assumption) e he

theorem parseKVs_inv : ∀ (f : Nat) (ts : List Tok) (kvs : List KV) (r : List Tok),
    parseKVs f ts = some (kvs, r) → ∀ kv ∈ kvs, wfKV kv := by
  intro f
  induction f with
  | zero => intro ts es r h; simp [parseKVs] at h
  | succ f ih =>
    intro ts es r h
    cases ts with
    | nil => simp [parseKVs] at h
    | cons t q =>
      simp only [parseKVs] at h
      splits h <;> simp_all <;> (obtain ⟨rfl, _⟩ := h)
      intro e he
      rcases List.mem_cons.mp he with rfl | he
      · simp only [wfKV]; assumption
      · exact ih _ _ _ (by assumption) e he

theorem parseSepIdents_nonempty (sep : K) (f : Nat) (t : Tok) (r : List Tok) (xs : List String) (r' : List Tok)
    (h : parseSepIdents sep f (t :: r) = some (xs, r')) (ht : t.k = sep) : xs ≠ [] := by
  cases f with
  | zero => simp [parseSepIdents] at h
  | succ f =>
    simp only [parseSepIdents] at h
    splits h <;> simp_all <;> (obtain ⟨rfl, _⟩ := h <;> simp)

theorem parseSVal_inv (f : Nat) (ts : List Tok) (v : SVal) (r : List Tok) (h : parseSVal f ts = some (v, r)) :
    wfSVal v := by
  unfold parseSVal at h
  splits h <;> simp_all <;>
    first
    | (refine parseSepIdents_nonempty _ _ _ _ _ _ (by assumption) ?_ <;> rfl)
    | (obtain ⟨rfl, _⟩ := h <;> simp only [wfSVal] <;>
        first | trivial | (refine parseSepIdents_nonempty _ _ _ _ _ _ (by assumption) ?_ <;> rfl) | simp)

theorem parseSKVs_inv : ∀ (f : Nat) (ts : List Tok) (kvs : List SKV) (r : List Tok),
    parseSKVs f ts = some (kvs, r) → ∀ kv ∈ kvs, wfSVal kv.val := by
  intro f
  induction f with
  | zero => intro ts es r h; simp [parseSKVs] at h
  | succ f ih =>
    intro ts es r h
    cases ts with
    | nil => simp [parseSKVs] at h
    | cons t q =>
      simp only [parseSKVs] at h
      splits h <;> simp_all <;> (obtain ⟨rfl, _⟩ := h)
      intro e he
      rcases List.mem_cons.mp he with rfl | he
      · exact parseSVal_inv _ _ _ _ (by assumption)
      · exact ih _ _ _ (by assumption) e he

theorem parseSegTail_inv : ∀ (f : Nat) (ts : List Tok) (tl : List (Bool × String)) (r : List Tok),
    parseSegTail f ts = some (tl, r) → ∀ x ∈ tl, x.1 = false → x.2 ≠ "returns" := by
  intro f
  induction f with
  | zero => intro ts es r h; simp [parseSegTail] at h
  | succ f ih =>
    intro ts es r h
    cases ts with
    | nil => simp [parseSegTail] at h; obtain ⟨rfl, _⟩ := h; simp
    | cons t q =>
      simp only [parseSegTail] at h
      splits h <;> simp_all <;> (obtain ⟨rfl, _⟩ := h)
      · intro x hx
        rcases List.mem_cons.mp hx with h | hx
        · simp at h
        · exact ih _ _ _ (by assumption) x hx
      · intro x hx
        rcases List.mem_cons.mp hx with h | hx
        · simp_all [stopsPath]
        · exact ih _ _ _ (by assumption) x hx

theorem parseSegs_inv : ∀ (f : Nat) (ts : List Tok) (ss : List Seg) (tr : Bool) (r : List Tok),
    parseSegs f ts = some (ss, tr, r) → ∀ s ∈ ss, wfSeg s := by
  intro f
  induction f with
  | zero => intro ts ss tr r h; simp [parseSegs] at h
  | succ f ih =>
    intro ts ss tr r h
    cases ts with
    | nil => simp [parseSegs] at h
    | cons t q =>
      simp only [parseSegs] at h
      splits h <;> simp_all <;> (obtain ⟨rfl, _, _⟩ := h) <;>
        (intro s hs
         rcases List.mem_cons.mp hs with rfl | hs
         · refine ⟨by simp_all, ?_, ?_⟩
           · simp_all [stopsPath]
           · intro x hx hx1
             have := parseSegTail_inv _ _ _ _ (by assumption) x hx hx1
             simpa using this
         · cases tr <;> first | exact (ih _ _).1 _ (by assumption) s hs | exact (ih _ _).2 _ (by assumption) s hs)

theorem parsePath_inv (f : Nat) (ts : List Tok) (p : Path) (r : List Tok) (h : parsePath f ts = some (p, r)) :
    wfPath p := by
  unfold parsePath at h
  splits h <;> simp_all
  obtain ⟨rfl, _⟩ := h
  refine ⟨parseSegs_inv _ _ _ _ _ (by assumption), ?_⟩
  simp only
  rename_i hne
  by_cases hs : (‹List Seg›) = []
  · right; simp_all
  · left; exact hs

theorem parseDoc_inv (f : Nat) (ts : List Tok) (d : Doc) (r : List Tok) (h : parseDoc f ts = some (d, r)) :
    wfDoc d := by
  unfold parseDoc at h
  splits h <;> simp_all <;> (obtain ⟨rfl, _⟩ := h <;> simp only [wfDoc] <;>
    first | trivial | exact parseKVs_inv _ _ _ _ (by assumption))

theorem parseItems_inv : ∀ (f : Nat) (ts : List Tok) (its : List Item) (r : List Tok),
    parseItems f ts = some (its, r) → ∀ i ∈ its, wfItem i := by
  intro f
  induction f with
  | zero => intro ts es r h; simp [parseItems] at h
  | succ f ih =>
    intro ts es r h
    cases ts with
    | nil => simp [parseItems] at h
    | cons t q =>
      simp only [parseItems] at h
      splits h <;> simp_all <;> (obtain ⟨rfl, _⟩ := h)
      intro e he
      rcases List.mem_cons.mp he with rfl | he
      · exact ⟨parseDoc_inv _ _ _ _ (by assumption), by assumption, parsePath_inv _ _ _ _ (by assumption)⟩
      · exact ih _ _ _ (by assumption) e he

theorem parseServiceBody_inv (f : Nat) (at_ : Option (List SKV)) (ts : List Tok) (s : Stmt) (r : List Tok)
    (hat : ∀ kvs, at_ = some kvs → ∀ kv ∈ kvs, wfSVal kv.val)
    (h : parseServiceBody f at_ ts = some (s, r)) : wfStmt s := by
  have key : ∀ n api its, s = .service at_ n api its → (∀ i ∈ its, wfItem i) → wfStmt s := by
    intro n api its hs hi; subst hs; exact ⟨by simpa using hat, hi⟩
  rcases ts with _ | ⟨sv, _ | ⟨⟨k0, n, nl0, cm0⟩, r0⟩⟩
  · simp [parseServiceBody] at h
  · simp [parseServiceBody] at h
  · cases k0 <;> simp [parseServiceBody] at h
    obtain ⟨_, h⟩ := h
    rcases r0 with _ | ⟨⟨k1, s1, nl1, cm1⟩, r1⟩
    · simp at h
    · cases k1 <;> (try simp at h) <;> (try (rcases r1 with _ | ⟨a, r2⟩ <;> (try simp at h))) <;>
        (splits h <;> (try simp at h) <;>
          (obtain ⟨rfl, _⟩ := h; exact key _ _ _ rfl (parseItems_inv _ _ _ _ (by assumption))))

theorem parseStmt_inv (f : Nat) (ts : List Tok) (s : Stmt) (r : List Tok) (h : parseStmt f ts = some (s, r)) :
    wfStmt s := by
  unfold parseStmt at h
  generalize hg : parseServiceBody f = g at h
  splits h <;> (try simp_all) <;> (try subst hg) <;>
    first
    | exact parseServiceBody_inv _ _ _ _ _ (by
        intro kvs hk; cases hk; exact parseSKVs_inv _ _ _ _ (by assumption)) h
    | exact parseServiceBody_inv _ _ _ _ _ (by simp) h
    | (obtain ⟨rfl, _⟩ := h <;> simp only [wfStmt] <;>
        first
        | trivial
        | exact parseKVs_inv _ _ _ _ (by assumption)
        | exact parseTExprs_inv _ _ _ _ (by assumption)
        | exact parseTExpr_inv _ _ _ _ (by assumption))

theorem parseStmts_inv : ∀ (f : Nat) (ts : List Tok) (a : Api), parseStmts f ts = some a → ∀ s ∈ a, wfStmt s := by
  intro f
  induction f with
  | zero =>
    intro ts a h
    cases ts with
    | nil => simp [parseStmts] at h; subst h; simp
    | cons t q => simp [parseStmts] at h
  | succ f ih =>
    intro ts a h
    cases ts with
    | nil => simp [parseStmts] at h; subst h; simp
    | cons t q =>
      simp only [parseStmts] at h
      splits h <;> simp_all
      subst h
      intro s hs
      rcases List.mem_cons.mp hs with rfl | hs
      · exact parseStmt_inv _ _ _ _ (by assumption)
      · exact ih _ _ (by assumption) s hs

/-- INVERSION: every AST the model parser builds is well-formed -/
theorem parse_inv (ts : List Tok) (a : Api) (h : parse ts = some a) : ∀ s ∈ a, wfStmt s :=
  parseStmts_inv _ _ _ h

end GoZero.C20
