import GoZero.C01.Spec
namespace GoZero.C01

theorem accounting_rejected (e : Entry) (o : Outcome) :
    rejectedOk e (CallObs.ofEvents (doReqEvents .reject e o)) = true := by
  cases e with | mk f c => cases f <;> cases c <;> cases o <;> decide

end GoZero.C01
