/-
C01 — property theorems (statements, short proofs from the lemmas, non-vacuity examples).
Helper lemmas: Proofs.lean (arithmetic, decision), Run.lean (histories + ghosts), Window.lean (rolling window).
-/
import GoZero.C01.Conc
import GoZero.C01.Sites
namespace GoZero.C01

/-! ## 1. admission law -/

/-- **A call is rejected only when, among the calls in the window the breaker looks at, the non-accepted ones
exceed 5 plus 10 % of the accepted ones** — for every breaker state whatsoever (hence every reachable one, after
any history and any interleaving of atomic window operations), every time and every draw.
`overThreshold h` is `10·(total − accepts) > 50 + accepts`. -/
theorem reject_only_if_over_threshold (b : Breaker) (now : Nat) (u : Rat)
    (h : (b.accept now u).1 = .reject) : overThreshold (b.history now) := by
  rw [accept_fst] at h
  unfold Breaker.pathOf at h
  have := (acceptPath_reject _ _ _ _ h).1
  simp only [decide_eq_true_eq] at this
  exact dropNum_pos_over _ ((dropRatio0_pos_iff _).mp this)

/-- the threshold is sharp at the protection margin: 5 failures are never enough, whatever the draw -/
example (u : Rat) : ((((List.replicate 5 Mark.fail).foldl (fun b m => b.mark 7 m) (Breaker.init 7)).accept 7 u).1 = .pass) := by
  have h : (((List.replicate 5 Mark.fail).foldl (fun b m => b.mark 7 m) (Breaker.init 7)).history 7) = ⟨0, 5, 1, 0⟩ := by decide
  rw [accept_fst]; unfold Breaker.pathOf; rw [h]
  have : ¬ (0 < dropRatio0 ⟨0, 5, 1, 0⟩) := by
    rw [dropRatio0_pos_iff, dropNum_no_accepts _ rfl]; simp
  simp [acceptPath, this, Path.verdict]

/-- "non-accepted = failures plus rejections": in every bucket the breaker writes, `Sum = Success + Failure + Drop`,
so `total − accepts` of the law above is the number of failed plus dropped calls. -/
theorem bucket_add_balanced (b : Bucket) (m : Mark) (h : b.sum = b.succ + b.fail + b.drop) :
    (b.add m).sum = (b.add m).succ + (b.add m).fail + (b.add m).drop := by
  cases m <;> simp [Bucket.add, Bucket.addCode, Mark.code] <;> omega

/-! ## 2. exact accounting (decision table over entry points × outcomes × verdicts) -/

/-- rejected: the request does not run, the fallback (if any) runs exactly once and its result is returned,
otherwise ErrServiceUnavailable is returned; exactly one drop is recorded. -/
theorem accounting_rejected (e : Entry) (o : Outcome) :
    rejectedOk e (CallObs.ofEvents (doReqEvents .reject e o)) = true := by
  cases e with | mk f c => cases f <;> cases c <;> cases o <;> decide

/-- admitted: the request runs exactly once, no fallback, its error is returned unchanged, exactly one mark:
success iff the acceptability predicate holds; a panic is a failure and is re-raised. -/
theorem accounting_admitted (e : Entry) (o : Outcome) :
    admittedOk e o (CallObs.ofEvents (doReqEvents .pass e o)) = true := by
  cases e with | mk f c => cases f <;> cases c <;> cases o <;> decide

/-- program order of an admitted call: request, then the (deferred) mark, then the return / the re-raised panic. -/
theorem accounting_order (e : Entry) (o : Outcome) :
    doReqEvents .pass e o =
      if o = .panic then [.ranReq, .mark .fail, .repanicked]
      else [.ranReq, .mark (if acceptable e.custom o then .succ else .fail), .returned o.ret] := by
  cases o <;> simp [doReqEvents]

/-- `…Ctx` with a done context: context error, nothing runs, nothing is recorded. -/
theorem accounting_ctx_done : ctxDoneOk (CallObs.ofEvents ctxDoneEvents) = true := by decide

/-- `Allow`: a rejection records exactly one drop, an admission records nothing until the promise is resolved. -/
theorem accounting_allow :
    marksOf (allowEvents .reject) = [.drop] ∧ marksOf (allowEvents .pass) = [] := by decide

/-- the window after a `Do*` call is the window before it plus exactly the marks of the event list, added at `now`;
`lastPass` moves only on a throttled admission. -/
theorem doReq_state (b : Breaker) (now : Nat) (u : Rat) (e : Entry) (o : Outcome) :
    (b.doReq now u e o).2.rw = (marksOf (b.doReq now u e o).1).foldl (fun w m => w.add now m) b.rw
    ∧ (b.doReq now u e o).2.lastPass = if (b.pathOf now u).setsLastPass then now else b.lastPass := by
  refine ⟨?_, doReq_lastPass b now u e o⟩
  unfold Breaker.doReq
  simp only []
  have key : ∀ (ms : List Mark) (b1 : Breaker), (b1.applyMarks now ms).rw = ms.foldl (fun w m => w.add now m) b1.rw := by
    intro ms
    induction ms with
    | nil => intro b1; rfl
    | cons m ms ih => intro b1; simp only [Breaker.applyMarks, List.foldl_cons] at ih ⊢; rw [ih]; rfl
  rw [key]
  have hrw : (b.accept now u).2.rw = b.rw := by
    unfold Breaker.accept Breaker.applyPath
    simp only []
    split <;> rfl
  rw [hrw]

/-! ## 3. guaranteed probing -/

/-- state form: whatever the window and the draw, a call arriving more than 1 s after `lastPass` is admitted. -/
theorem probe_after_one_second_state (b : Breaker) (now : Nat) (u : Rat)
    (hp : 0 < b.lastPass) (hgap : b.lastPass + 1000000000 < now) : (b.accept now u).1 = .pass := by
  rw [accept_fst]
  exact acceptPath_forced _ _ _ _ hp (by unfold forcePassNs; omega)

/-- **history form.** After any finite history of calls and time gaps on a breaker created at `t0 > 0`
(`timex.Now()` is positive), if the last admission made while throttling happened at `t` and the next call
arrives more than 1 s later, it is admitted, whatever the draw and the window. -/
theorem probe_after_one_second (t0 : Nat) (ht0 : 0 < t0) (ops : List Op) (t dt : Nat) (u : Rat)
    (hlast : ((Sys.init t0).run ops).lastThrottled = some t)
    (hgap : t + 1000000000 < ((Sys.init t0).run ops).now + dt) :
    ((((Sys.init t0).run ops).b).accept (((Sys.init t0).run ops).now + dt) u).1 = .pass := by
  obtain ⟨_, h2, h3, _⟩ := Sys.good_run t0 ops
  have := h3 t hlast
  apply probe_after_one_second_state
  · rw [h2, hlast]; simp; omega
  · rw [h2, hlast]; simpa using hgap

/-- `lastPass` is exactly the time of the last throttled admission (0 = none yet), in every reachable state. -/
theorem lastPass_is_last_throttled_admission (t0 : Nat) (ops : List Op) :
    ((Sys.init t0).run ops).b.lastPass = (((Sys.init t0).run ops).lastThrottled).getD 0 :=
  (Sys.good_run t0 ops).2.1

/-- non-vacuity: six failures recorded at t0 = 5, then a failing call with draw 1/2 ≥ 1/7: it is admitted on the
throttled path, so the ghost (and `lastPass`) become 5, and the hypothesis of `probe_after_one_second` is met. -/
example : ((Sys.init 5).run (List.replicate 6 (Op.resolve .fail) ++ [Op.call (1/2) ⟨false, false⟩ .errU])).lastThrottled = some 5 := by
  have hh : ((Sys.init 5).run (List.replicate 6 (Op.resolve .fail))).b.history
      ((Sys.init 5).run (List.replicate 6 (Op.resolve .fail))).now = ⟨0, 6, 1, 0⟩ := by decide
  have hn : ((Sys.init 5).run (List.replicate 6 (Op.resolve .fail))).now = 5 := by decide
  have h0 : 0 < dropRatio0 ⟨0, 6, 1, 0⟩ := by
    rw [dropRatio0_pos_iff, dropNum_no_accepts _ rfl]; simp; grind
  have h1 : ¬ ((1 : Rat) / 2 < dropRatio1 ⟨0, 6, 1, 0⟩) := by
    rw [dropRatio1_total_failure _ rfl rfl, totalFailureRatio_eq]
    have : ((6 + 1 : Nat) : Rat) = 7 := by simp
    simp only [this]; grind
  rw [Sys.run_append]
  have := Sys.step_call_throttled ((Sys.init 5).run (List.replicate 6 (Op.resolve .fail))) (1/2) ⟨false, false⟩ .errU
    (by rw [hh]; exact h0) (by rw [hh]; exact h1)
  rw [hn] at this
  exact this

/-! ## 4. sustained total failure -/

/-- If the window shows total failure (nothing accepted, more than 5 calls) then every call that is not the
forced probe and whose draw is below `(n-5)/(n+1) = 1 − 6/(n+1)` is rejected. -/
theorem total_failure_rejects (b : Breaker) (now : Nat) (u : Rat)
    (ha : (b.history now).accepts = 0) (hn : 5 < (b.history now).total)
    (hprobe : ¬ (b.lastPass > 0 ∧ now - b.lastPass > forcePassNs))
    (hu : u < totalFailureRatio (b.history now).total) :
    (b.accept now u).1 = .reject := by
  have hwb : (b.history now).workingBuckets = 0 := summarize_wb _ ha
  have hpos : 0 < dropRatio0 (b.history now) := by
    rw [dropRatio0_pos_iff, dropNum_no_accepts _ ha]
    have : (0 : Int) < (((b.history now).total : Nat) : Int) - 5 := by omega
    exact_mod_cast this
  have hless : u < dropRatio1 (b.history now) := by rw [dropRatio1_total_failure _ ha hwb]; exact hu
  rw [accept_fst]
  unfold Breaker.pathOf acceptPath
  simp [hpos, hless, hprobe, Path.verdict]

theorem total_failure_ratio (n : Nat) : totalFailureRatio n = 1 - 6 / ((n + 1 : Nat) : Rat) := totalFailureRatio_eq n

/-- non-vacuity: after 12 failing calls recorded within one instant the window shows accepts = 0, total = 12,
and a call with draw 1/2 < 7/13 is rejected -/
example : (((List.replicate 12 Mark.fail).foldl (fun b m => b.mark 9 m) (Breaker.init 9)).accept 9 (1/2)).1 = .reject := by
  have hh : (((List.replicate 12 Mark.fail).foldl (fun b m => b.mark 9 m) (Breaker.init 9)).history 9) = ⟨0, 12, 1, 0⟩ := by decide
  have hl : ((List.replicate 12 Mark.fail).foldl (fun b m => b.mark 9 m) (Breaker.init 9)).lastPass = 0 := by decide
  apply total_failure_rejects
  · rw [hh]
  · rw [hh]; decide
  · rw [hl]; simp
  · rw [hh, totalFailureRatio_eq]
    have : ((12 + 1 : Nat) : Rat) = 13 := by simp
    simp only [this]; grind

/-! ## 5. "the calls recorded in the preceding 10 s window" -/

/-- **Any rolling window is a view of its log** — for EVERY size `n ≥ 1` and interval `d ≥ 1` (the code of
core/collection/rollingwindow.go is generic; nothing here uses the breaker's 40 × 250 ms).  After any finite
history of `Add`s and time gaps on `NewRollingWindow(…, n, d)` created at `t0`, at any time `now` not before the
last event, the buckets `Reduce` visits are, oldest first, exactly the aggregates of all values ever added whose
time falls into the aligned bucket number `idx(now) − (n−1) + i` (`idx(t) = ⌊(t − t0)/d⌋`): nothing older is
counted, nothing inside is missing, and the `span` youngest (still empty) buckets are skipped. -/
theorem rolling_window_is_log (n d : Nat) (hn : 1 ≤ n) (hd : 1 ≤ d) (t0 : Nat) (ops : List WOp) (now : Nat)
    (hnow : ((WSys.init n d t0).run ops).now ≤ now) :
    ((WSys.init n d t0).run ops).w.visible now =
      (List.range (n - ((WSys.init n d t0).run ops).w.span now)).map fun i =>
        Lget (logBucketD d t0 ((WSys.init n d t0).run ops).log) (bucketIdxD d t0 now) (n - 1 - i) :=
  visible_of_inv n d t0 _ _ _ (WSys.inv_run n d hn hd t0 ops) now hnow

/-- non-vacuity on an extreme geometry: a window of ONE bucket of 7 ns; a value added at t0+6 is visible until
t0+6 (same bucket) and gone at t0+7 -/
example : (((WSys.init 1 7 3).run [.tick 6, .add .fail]).w.visible 9).map (·.sum) = [1]
    ∧ (((WSys.init 1 7 3).run [.tick 6, .add .fail]).w.visible 10) = [] := by decide

/-- non-vacuity: 3 buckets of 5 ns, adds at t0, t0+5, t0+14; at t0+14 all three buckets are visible, oldest first -/
example : (((WSys.init 3 5 100).run [.add .succ, .tick 5, .add .fail, .add .fail, .tick 9, .add .drop]).w.visible 114).map
    (fun b => (b.sum, b.succ, b.fail, b.drop)) = [(1, 1, 0, 0), (2, 0, 2, 0), (1, 0, 0, 1)] := by decide

/-- **The window the breaker decides on is the log of the calls of the preceding 40 aligned 250 ms buckets**
(corollary of the generic refinement, instantiated at n = 40, d = 250 ms).
After any finite history (any entry points, outcomes, draws, gaps from 0 to several windows), at any time
`now` not before the last event, the buckets `history()` reduces over are, oldest first, exactly the aggregates
of all marks ever recorded whose time falls into the aligned bucket number `idx(now) − 39 + i`
(`idx(t) = ⌊(t − t0)/250ms⌋`); older calls are not counted, none inside is missing.  (`Lget L c a` is the
log bucket number `c − a`, empty before the creation of the breaker; the `span` youngest buckets are empty
because nothing was recorded since `lastTime`, and are skipped.) -/
theorem window_is_log (t0 : Nat) (ops : List Op) (now : Nat) (hnow : ((Sys.init t0).run ops).now ≤ now) :
    ((Sys.init t0).run ops).b.rw.visible now =
      (List.range (40 - ((Sys.init t0).run ops).b.rw.span now)).map fun i =>
        Lget (logBucket t0 ((Sys.init t0).run ops).log) (bucketIdx t0 now) (39 - i) :=
  visible_of_inv nBuckets intervalNs t0 _ _ _ (Sys.winInv_run t0 ops) now hnow

/-- the totals the admission law is stated on are sums over those log buckets -/
theorem history_totals (b : Breaker) (now : Nat) :
    (b.history now).total = (sumBuckets (b.rw.visible now)).sum ∧
    (b.history now).accepts = (sumBuckets (b.rw.visible now)).succ := by
  have := foldl_reduce_sums (b.rw.visible now) {}
  simpa [Breaker.history, summarize] using this

/-- every log bucket satisfies `Sum = Success + Failure + Drop`: "non-accepted" is failures plus rejections -/
theorem logBucket_balanced (t0 : Nat) (log : List (Nat × Mark)) (j : Nat) :
    (logBucket t0 log j).sum = (logBucket t0 log j).succ + (logBucket t0 log j).fail + (logBucket t0 log j).drop := by
  unfold logBucket at *
  induction log with
  | nil => rfl
  | cons e rest ih =>
    simp only [logBucketD]
    split
    · exact bucket_add_balanced _ _ ih
    · exact ih

/-- non-vacuity: three failures at t0 = 5, 10 s − 1 ns later they are still visible, 1 ns later they are gone -/
example : ((((Sys.init 5).run (List.replicate 3 (Op.resolve .fail))).b.history (5 + 9999999999)).total = 3
    ∧ (((Sys.init 5).run (List.replicate 3 (Op.resolve .fail))).b.history (5 + 10000000000)).total = 0) := by decide

/-! ## 6. every concurrent interleaving (any number of goroutines, any schedule, clock ticks anywhere) -/

/-- a call that ends in a rejection took a snapshot of the window on which the non-accepted calls exceed
5 + 10 % of the accepted ones, and it was not due for the forced probe when it read `lastPass` and the clock. -/
theorem conc_reject_only_if_over_threshold (env : Env) (t0 : Nat) (c : Cfg) (h : Reach env t0 c) (t : Nat)
    (hv : c.verdict t = some .reject) :
    overThreshold (c.snap t) ∧ ¬ (c.lp t > 0 ∧ c.tnow t - c.lp t > forcePassNs) :=
  (tinv_reach env t0 c h t).2.1 hv

/-- under any schedule a finished call has recorded exactly one mark: a drop iff it was rejected, otherwise
success / failure by the acceptability predicate (panic = failure); an unfinished one has recorded nothing. -/
theorem conc_accounting (env : Env) (t0 : Nat) (c : Cfg) (h : Reach env t0 c) (t : Nat) :
    (c.pc t = 8 → (c.verdict t = some .reject ∧ c.marks t = [.drop]) ∨
                  (c.verdict t = some .pass ∧ c.marks t = [admitMark (env.entry t) (env.outcome t)]))
    ∧ (c.pc t < 8 → c.marks t = []) := by
  have hi := tinv_reach env t0 c h t
  refine ⟨hi.2.2.2.2.2.2.2.2, ?_⟩
  intro hlt
  have h6 := hi.2.2.2.2.2.1
  have h7 := hi.2.2.2.2.2.2.1
  have h8 := hi.2.2.2.2.2.2.2.1
  by_cases a : c.pc t < 6
  · exact (h6 a).1
  · by_cases b : c.pc t = 6
    · exact (h7 b).1
    · exact (h8 (by omega)).1

/-- `admitMark` is the mark of the sequential decision table -/
theorem admitMark_table (e : Entry) (o : Outcome) : marksOf (doReqEvents .pass e o) = [admitMark e o] := by
  cases e with | mk f c => cases f <;> cases c <;> cases o <;> decide

/-- under any schedule the window still is the log of the preceding 40 aligned buckets -/
theorem conc_window_is_log (env : Env) (t0 : Nat) (c : Cfg) (h : Reach env t0 c) (now : Nat) (hnow : c.clock ≤ now) :
    c.rw.visible now =
      (List.range (40 - c.rw.span now)).map fun i => Lget (logBucket t0 c.log) (bucketIdx t0 now) (39 - i) :=
  visible_of_inv nBuckets intervalNs t0 _ _ _ (wininv_reach env t0 c h) now hnow

/-- non-vacuity: two goroutines interleave — thread 0 takes its snapshot, 7 ns pass, thread 1 takes its own -/
example : ∃ c, Reach ⟨fun _ => 0, fun _ => ⟨false, false⟩, fun _ => .errU⟩ 3 c ∧ c.pc 0 = 1 ∧ c.pc 1 = 1 ∧ c.clock = 10 :=
  ⟨_, Reach.step _ _ 1 (Reach.tick _ 7 (Reach.step _ _ 0 Reach.init rfl)) rfl, rfl, rfl, rfl⟩

/-! ## 7. the call sites that wrap the breaker -/

/-- zrpc/internal/codes/accept.go as a table: exactly DeadlineExceeded(4), ResourceExhausted(8), Unimplemented(12),
Internal(13), Unavailable(14), DataLoss(15) count against the callee; every other code (in particular OK, Canceled,
Unknown, InvalidArgument, NotFound, AlreadyExists, PermissionDenied, Unauthenticated …) is acceptable. -/
theorem codeAcceptable_table (c : Nat) :
    codeAcceptable c = false ↔ c = 4 ∨ c = 8 ∨ c = 12 ∨ c = 13 ∨ c = 14 ∨ c = 15 := by
  simp only [codeAcceptable, cDeadlineExceeded, cInternal, cUnavailable, cDataLoss, cUnimplemented, cResourceExhausted]
  by_cases h : c = 4 ∨ c = 13 ∨ c = 14 ∨ c = 15 ∨ c = 12 ∨ c = 8
  · simp only [h, decide_true, Bool.not_true, true_iff]; omega
  · simp only [h, decide_false, Bool.not_false, Bool.true_eq_false, false_iff]; omega

/-- **Every site, every request: exactly one of Accept / Reject per admitted request, chosen by the site's predicate;
exactly one drop and no execution per rejected request.**  `rest`: Accept iff the recorded status is < 500 (whether or
not the handler panics: the deferred function resolves the promise exactly once and the panic propagates); the
`doReq` sites: Accept iff the site's predicate holds of the request's error, a panic is a Reject and is re-raised. -/
theorem site_exactly_one (s : Site) (q : SiteReq) :
    (smarksOf (siteEvents s .reject q) = [.drop] ∧ (siteEvents s .reject q).count .ranReq = 0
      ∧ (siteEvents s .reject q).getLast? = some (.returned s.rejectRet))
    ∧ (smarksOf (siteEvents s .pass q) = [if s ≠ .rest ∧ q.panics then .fail else if s.pred q then .succ else .fail]
      ∧ (siteEvents s .pass q).count .ranReq = 1
      ∧ (siteEvents s .pass q).getLast? = some (if q.panics then .repanicked else .returned (s.admitRet q))) := by
  refine ⟨⟨rfl, rfl, rfl⟩, ?_⟩
  cases s <;> by_cases hp : q.panics = true <;> simp [siteEvents, smarksOf, hp, Site.admitRet] <;>
    (try split) <;> simp_all

/-- a nil result satisfies the predicate of every `doReq` site -/
theorem pred_nil (s : Site) (hs : s ≠ .rest) (q : SiteReq) (h : q.err = .none) : s.pred q = true := by
  cases s <;> first
    | exact absurd rfl hs
    | simp [Site.pred, h, ErrClass.grpcCode, codeAcceptable, sqlAcceptable, dbAcceptable, cDeadlineExceeded, cInternal,
        cUnavailable, cDataLoss, cUnimplemented, cResourceExhausted]

theorem site_marks_pass (s : Site) (hs : s ≠ .rest) (q : SiteReq) :
    smarksOf (siteEvents s .pass q) = [if q.panics then .fail else if s.pred q then .succ else .fail] := by
  cases s <;> first
    | exact absurd rfl hs
    | (by_cases hp : q.panics = true <;> simp [siteEvents, smarksOf, hp])

theorem doReq_marks_pass (o : Outcome) :
    marksOf (doReqEvents .pass ⟨false, true⟩ o) = [if o = .panic then .fail else if acceptable true o then .succ else .fail] := by
  cases o <;> decide

/-- the `doReq` sites are instances of the generic decision table (`accounting_admitted` / `accounting_rejected`):
what they record is what `DoWithAcceptable` records for the outcome `ok / acceptable error / other error / panic`
the site's predicate assigns to the request. -/
theorem site_refines_doReq (s : Site) (hs : s ≠ .rest) (v : Verdict) (q : SiteReq) :
    smarksOf (siteEvents s v q) = marksOf (doReqEvents v ⟨false, true⟩ (s.outcome q)) := by
  cases v
  · rw [site_marks_pass s hs q, doReq_marks_pass]
    unfold Site.outcome
    by_cases hp : q.panics = true
    · simp [hp]
    · by_cases hn : q.err = .none
      · simp [hp, hn, pred_nil s hs q hn, acceptable]
      · by_cases hq : s.pred q = true <;> simp [hp, hn, hq, acceptable]
  · cases s <;> simp [siteEvents, smarksOf, doReqEvents, marksOf]

/-- the server side never blames the client's own deadline on the callee … it does: `context.DeadlineExceeded` and a
nested open breaker are failures on the server side even though their gRPC code (Unknown) is acceptable -/
theorem server_rejects_deadline_and_open_breaker (q : SiteReq) (h : q.err = .ctxDeadline ∨ q.err = .brkOpen) :
    Site.zrpcServerUnary.pred q = false ∧ Site.zrpcServerStream.pred q = false ∧ Site.zrpcClient.pred q = true := by
  rcases h with h | h <;> simp [Site.pred, h, ErrClass.grpcCode, codeAcceptable, cUnknown, cDeadlineExceeded, cInternal,
    cUnavailable, cDataLoss, cUnimplemented, cResourceExhausted]

/-- non-vacuity: a 499 is an Accept, a 500 a Reject, and a rejected request writes 503 without running the handler -/
example : siteEvents .rest .pass { code := 499 } = [.ranReq, .mark .succ, .returned .same]
    ∧ siteEvents .rest .pass { code := 500 } = [.ranReq, .mark .fail, .returned .same]
    ∧ siteEvents .rest .reject { code := 200 } = [.mark .drop, .returned .http503] := by decide

/-! ## 8. one breaker per name (breakers.go) -/

theorem Registry.find_set_self (r : Registry) (name : String) (b : Breaker) : (r.set name b).find name = some b := by
  induction r with
  | nil => simp [Registry.set, Registry.find]
  | cons p rest ih =>
    obtain ⟨n, b0⟩ := p
    by_cases h : n = name <;> simp [Registry.set, Registry.find, h, ih]

theorem Registry.find_set_other (r : Registry) (name other : String) (b : Breaker) (h : other ≠ name) :
    (r.set name b).find other = r.find other := by
  induction r with
  | nil => simp [Registry.set, Registry.find, h.symm]
  | cons p rest ih =>
    obtain ⟨n, b0⟩ := p
    by_cases h1 : n = name
    · subst h1
      have : ¬ n = other := fun e => h e.symm
      simp [Registry.set, Registry.find, this]
    · by_cases h2 : n = other
      · subst h2; simp [Registry.set, Registry.find, h1]
      · simp [Registry.set, Registry.find, h1, h2, ih]

/-- **calls under one name never touch the breaker of another name**, and they act on the breaker that
`GetBreaker(name)` hands out (created at first use, the same one ever after). -/
theorem named_isolation (r : Registry) (name other : String) (now : Nat) (f : Breaker → Breaker) (h : other ≠ name) :
    (r.with name now f).find other = r.find other
    ∧ (r.with name now f).find name = some (f (r.get name now).1)
    ∧ (∀ b, r.find name = some b → (r.get name now).1 = b) := by
  refine ⟨?_, Registry.find_set_self _ _ _, ?_⟩
  · unfold Registry.with
    rw [Registry.find_set_other _ _ _ _ h]
    unfold Registry.get
    cases hf : r.find name with
    | some b => rfl
    | none => exact Registry.find_set_other _ _ _ _ h
  · intro b hb
    simp [Registry.get, hb]

/-! ## 9. decision tables of the sites' predicates over the error classes -/

/-- orm.go `isScanFailed`: exactly nil and (anything that `errors.Is`) `context.DeadlineExceeded` are not scan failures -/
theorem isScanFailed_table (e : ErrClass) : isScanFailed e = false ↔ e = .none ∨ e = .ctxDeadline := by
  cases e <;> simp [isScanFailed]

theorem foldl_withAcceptable (ps : List (ErrClass → Bool)) (acc : Option (ErrClass → Bool)) (e : ErrClass) :
    optEval (ps.foldl withAcceptable acc) e = (optEval acc e || ps.any (· e)) := by
  induction ps generalizing acc with
  | nil => simp
  | cons p ps ih =>
    rw [List.foldl_cons, ih]
    cases acc <;> simp [withAcceptable, optEval, Bool.or_assoc]

/-- **any number of `WithAcceptable` options**, installed in any order by the constructor loop: the connection accepts
what at least one of them accepts (each closure chains onto the connection's own previous predicate, nothing is lost or
shared) -/
theorem installOptions_any (ps : List (ErrClass → Bool)) (e : ErrClass) :
    optEval (installOptions ps) e = ps.any (· e) := by
  unfold installOptions
  rw [foldl_withAcceptable]
  simp [optEval]

/-- `db.acceptable` as a table: nil, sql.ErrNoRows, sql.ErrTxDone, context.Canceled, an acceptableError, or an error one
of the installed options accepts — nothing else (in particular not context.DeadlineExceeded, not a nested open breaker) -/
theorem sqlAcceptable_table (q : SiteReq) :
    sqlAcceptable q = true ↔
      q.err = .none ∨ q.err = .sqlNoRows ∨ q.err = .sqlTxDone ∨ q.err = .ctxCanceled ∨ q.err = .sqlAcceptable
      ∨ ∃ i, i < q.userAccepts ∧ q.err = .custom i := by
  unfold sqlAcceptable dbAcceptable
  rw [installOptions_any]
  have hany : ((userOptions q.userAccepts).any (· q.err)) = true ↔ ∃ i, i < q.userAccepts ∧ q.err = .custom i := by
    simp [userOptions, customOption, List.any_map, List.any_eq_true, List.mem_range]
  cases he : q.err <;> simp [he] at hany ⊢ <;> exact hany

/-- **decision table of `queryRows` (connection and prepared statement)** over where the error comes from × its class:
an admitted query is recorded as a FAILURE exactly when (a) the query went through and the scanner hit the context
deadline — `isScanFailed` excludes it, and `db.acceptable` does not accept it — or (b) the query itself (connection
provider / driver) failed with an error `db.acceptable` rejects.  Every other scan error (no rows, a conversion error, a
cancelled context, anything else) is the caller's problem and counts as success. -/
theorem sqlx_query_table (q : SiteReq) :
    Site.sqlxQuery.pred q = false ↔
      (q.fromScan = true ∧ q.err = .ctxDeadline) ∨ (q.fromScan = false ∧ sqlAcceptable q = false) := by
  have hdl : q.err = .ctxDeadline → sqlAcceptable q = false := by
    intro h
    cases hs : sqlAcceptable q
    · rfl
    · have := (sqlAcceptable_table q).mp hs
      simp [h] at this
  have hnil : q.err = .none → sqlAcceptable q = true := fun h => (sqlAcceptable_table q).mpr (Or.inl h)
  simp only [Site.pred, scanFailedVar, scanFailedAfter]
  cases hf : q.fromScan
  · simp
  · by_cases h1 : q.err = .ctxDeadline
    · simp [h1, isScanFailed, hdl h1]
    · by_cases h2 : q.err = .none
      · simp [h2, isScanFailed, hnil h2]
      · have : isScanFailed q.err = true := by
          cases hi : isScanFailed q.err
          · rcases (isScanFailed_table _).mp hi with h | h <;> contradiction
          · rfl
        simp [this, h1]

/-- non-vacuity: the scan-stage deadline is a failure, the scan-stage "no rows" / other error a success, the
query-stage other error a failure -/
example : Site.sqlxQuery.pred { err := .ctxDeadline, fromScan := true } = false
    ∧ Site.sqlxQuery.pred { err := .other, fromScan := true } = true
    ∧ Site.sqlxQuery.pred { err := .sqlNoRows, fromScan := true } = true
    ∧ Site.sqlxQuery.pred { err := .other, fromScan := false } = false
    ∧ Site.sqlx.pred { err := .custom 1, userAccepts := 2 } = true
    ∧ Site.sqlx.pred { err := .custom 1, userAccepts := 1 } = false := by decide

/-- redis hooks: exactly nil, redis.Nil and context.Canceled are successes -/
theorem redis_table (q : SiteReq) :
    Site.redisProcess.pred q = true ↔ q.err = .none ∨ q.err = .redisNil ∨ q.err = .ctxCanceled := by
  simp [Site.pred]

/-- zrpc server (unary and stream): a failure exactly for context.DeadlineExceeded, a nested open breaker, or a status
error with one of the six codes; zrpc client: exactly the six codes -/
theorem zrpc_table (q : SiteReq) :
    (Site.zrpcServerUnary.pred q = false ↔
      q.err = .ctxDeadline ∨ q.err = .brkOpen ∨ ∃ c, q.err = .grpc c ∧ (c = 4 ∨ c = 8 ∨ c = 12 ∨ c = 13 ∨ c = 14 ∨ c = 15))
    ∧ Site.zrpcServerStream.pred q = Site.zrpcServerUnary.pred q
    ∧ (Site.zrpcClient.pred q = false ↔ ∃ c, q.err = .grpc c ∧ (c = 4 ∨ c = 8 ∨ c = 12 ∨ c = 13 ∨ c = 14 ∨ c = 15)) := by
  have hU : codeAcceptable cUnknown = true := by decide
  have h0 : codeAcceptable 0 = true := by decide
  refine ⟨?_, rfl, ?_⟩
  · cases he : q.err <;> simp [Site.pred, he, ErrClass.grpcCode, hU, h0, codeAcceptable_table]
  · cases he : q.err <;> simp [Site.pred, he, ErrClass.grpcCode, hU, h0, codeAcceptable_table]

/-! ## 10. end to end: call site → wrapper → `accept()` → window -/

theorem applyMarks_single (b : Breaker) (now : Nat) (m : Mark) : (b.applyMarks now [m]).rw = b.rw.add now m := rfl

/-- **one request at any site, end to end**, for every breaker state, time, draw, site and request:
rejected ⇒ the window the breaker looked at was over the threshold, the wrapped request did not run, the site answered
with its rejection value, and exactly one drop went into the window at `now`;
admitted ⇒ the wrapped request ran exactly once and exactly one mark went into the window at `now`: success iff the
site's predicate holds (a panic is a failure at the `doReq` sites and is re-raised). -/
theorem site_end_to_end (b : Breaker) (now : Nat) (u : Rat) (s : Site) (q : SiteReq) :
    ((b.accept now u).1 = .reject →
        overThreshold (b.history now) ∧ (b.site now u s q).1 = [.mark .drop, .returned s.rejectRet]
        ∧ (b.site now u s q).2.rw = b.rw.add now .drop)
    ∧ ((b.accept now u).1 = .pass →
        (b.site now u s q).1.count .ranReq = 1
        ∧ (b.site now u s q).1.getLast? = some (if q.panics then .repanicked else .returned (s.admitRet q))
        ∧ (b.site now u s q).2.rw =
            b.rw.add now (if s ≠ .rest ∧ q.panics then .fail else if s.pred q then .succ else .fail)) := by
  constructor
  · intro h
    refine ⟨reject_only_if_over_threshold b now u h, ?_, ?_⟩
    · simp [Breaker.site, h, siteEvents]
    · simp only [Breaker.site, h, siteEvents, smarksOf, List.filterMap_cons, List.filterMap_nil]
      rw [applyMarks_single, accept_rw]
  · intro h
    have h1 := (site_exactly_one s q).2
    refine ⟨?_, ?_, ?_⟩
    · simp only [Breaker.site, h]; exact h1.2.1
    · simp only [Breaker.site, h]; exact h1.2.2
    · simp only [Breaker.site, h]
      rw [h1.1, applyMarks_single, accept_rw]

/-- non-vacuity: a fresh breaker admits (draw irrelevant) a sqlx query whose scanner hits the deadline and records
a failure -/
example : (((Breaker.init 7).site 7 (1/2) .sqlxQuery { err := .ctxDeadline, fromScan := true }).2.rw
    = (Breaker.init 7).rw.add 7 .fail) := by
  have hp : ((Breaker.init 7).accept 7 (1/2)).1 = .pass := by
    have h : ((Breaker.init 7).history 7) = ⟨0, 0, 0, 0⟩ := by decide
    rw [accept_fst]; unfold Breaker.pathOf; rw [h]
    have : ¬ (0 < dropRatio0 ⟨0, 0, 0, 0⟩) := by
      rw [dropRatio0_pos_iff, dropNum_no_accepts _ rfl]; simp; grind
    simp [acceptPath, this, Path.verdict]
  have := ((site_end_to_end (Breaker.init 7) 7 (1/2) .sqlxQuery { err := .ctxDeadline, fromScan := true }).2 hp).2.2
  simpa [Site.pred, scanFailedVar, scanFailedAfter, isScanFailed, sqlAcceptable, dbAcceptable, installOptions, userOptions,
    optEval] using this

/-- **admission law on the log itself**: after any finite history of calls and gaps, a call (at any later time, with
any draw) is rejected only if, among the calls RECORDED IN THE LOG for the 40 aligned 250 ms buckets ending now, the
non-accepted ones exceed 5 + 10 % of the accepted ones.  (Composition of `reject_only_if_over_threshold`,
`history_totals` and `window_is_log`.) -/
theorem admission_law_on_log (t0 : Nat) (ops : List Op) (dt : Nat) (u : Rat)
    (h : (((Sys.init t0).run ops).b.accept (((Sys.init t0).run ops).now + dt) u).1 = .reject) :
    let now := ((Sys.init t0).run ops).now + dt
    let L := (List.range (40 - ((Sys.init t0).run ops).b.rw.span now)).map fun i =>
      Lget (logBucket t0 ((Sys.init t0).run ops).log) (bucketIdx t0 now) (39 - i)
    10 * (((sumBuckets L).sum : Int) - ((sumBuckets L).succ : Int)) > 50 + ((sumBuckets L).succ : Int) := by
  intro now L
  have h1 := reject_only_if_over_threshold _ _ _ h
  unfold overThreshold at h1
  rw [(history_totals _ _).1, (history_totals _ _).2, window_is_log t0 ops now (by omega)] at h1
  exact h1


/-! ## 9. histories of requests through the call sites (the whole configuration space of the wrappers)

The history theorems above (`admission_law_on_log`, `probe_after_one_second`, `window_is_log`) are stated over `Op`
— direct calls of the breaker.  A request through ANY call site (rest handler, zrpc client / server interceptors, redis
hooks, every sqlx operation with any number of `WithAcceptable` options, from the connection or the row scanner,
returning or unwinding) drives the breaker exactly like one direct call whose outcome is chosen by the site's predicate:
`site_state_as_call`.  Hence every history that mixes site requests, direct calls, promises and time gaps is simulated
step by step by an `Op` history (`site_history_simulates`) and inherits the admission law on the log and guaranteed
probing (`site_admission_law_on_log`, `site_probe_after_one_second`) — quantified over all sites, all requests, all
option sets, all draws and all gaps. -/

/-- the direct call a site request amounts to for the breaker: a success iff the request is resolved as Accept -/
def Site.asOutcome (s : Site) (q : SiteReq) : Outcome :=
  if (if s ≠ .rest ∧ q.panics then Mark.fail else if s.pred q then .succ else .fail) = .succ then .ok else .errU

theorem site_marks_as_call (s : Site) (v : Verdict) (q : SiteReq) :
    smarksOf (siteEvents s v q) = marksOf (doReqEvents v ⟨false, false⟩ (s.asOutcome q)) := by
  cases v
  · rw [(site_exactly_one s q).2.1]
    unfold Site.asOutcome
    by_cases h : (if s ≠ .rest ∧ q.panics then Mark.fail else if s.pred q then .succ else .fail) = .succ
    · simp [h, doReqEvents, marksOf, acceptable]
    · have h' : (if s ≠ .rest ∧ q.panics then Mark.fail else if s.pred q then .succ else .fail) = .fail := by
        revert h; split <;> (try split) <;> simp
      simp [h', doReqEvents, marksOf, acceptable]
  · rw [(site_exactly_one s q).1.1]
    simp [doReqEvents, marksOf]

/-- **one site request = one direct call, for the breaker's state** (window and lastPass), at every state, time and draw -/
theorem site_state_as_call (b : Breaker) (now : Nat) (u : Rat) (s : Site) (q : SiteReq) :
    (b.site now u s q).2 = (b.doReq now u ⟨false, false⟩ (s.asOutcome q)).2 := by
  unfold Breaker.site Breaker.doReq
  simp only [site_marks_as_call]

/-- histories over the call sites: time gaps, requests through any site, and anything an `Op` history can do -/
inductive SOp
  | tick (dt : Nat)
  | site (u : Rat) (s : Site) (q : SiteReq)
  | direct (op : Op)

/-- the `Op` that simulates a step -/
def SOp.toOp : SOp → Op
  | .tick dt => .tick dt
  | .site u s q => .call u ⟨false, false⟩ (s.asOutcome q)
  | .direct op => op

/-- the real semantics of a step: a site request goes through `Breaker.site` (wrapper, `accept()`, the site's table) -/
def siteStep (st : Breaker × Nat) : SOp → Breaker × Nat
  | .tick dt => (st.1, st.2 + dt)
  | .site u s q => ((st.1.site st.2 u s q).2, st.2)
  | .direct op => (((⟨st.1, st.2, none, []⟩ : Sys).step op).b, ((⟨st.1, st.2, none, []⟩ : Sys).step op).now)

def siteRun (t0 : Nat) (ops : List SOp) : Breaker × Nat := ops.foldl siteStep (Breaker.init t0, t0)

theorem Sys.step_b_now (s : Sys) (op : Op) :
    ((s.step op).b, (s.step op).now) = (((⟨s.b, s.now, none, []⟩ : Sys).step op).b, ((⟨s.b, s.now, none, []⟩ : Sys).step op).now) := by
  cases op <;> simp [Sys.step, Sys.afterAccept]

/-- **every history over the call sites is simulated, step by step, by a history of direct calls** -/
theorem site_history_simulates (t0 : Nat) (ops : List SOp) :
    siteRun t0 ops = (((Sys.init t0).run (ops.map SOp.toOp)).b, ((Sys.init t0).run (ops.map SOp.toOp)).now) := by
  have key : ∀ (ops : List SOp) (st : Breaker × Nat) (sy : Sys), st = (sy.b, sy.now) →
      ops.foldl siteStep st = ((sy.run (ops.map SOp.toOp)).b, (sy.run (ops.map SOp.toOp)).now) := by
    intro ops
    induction ops with
    | nil => intro st sy h; simpa [Sys.run] using h
    | cons op ops ih =>
      intro st sy h
      simp only [List.foldl_cons, List.map_cons, Sys.run]
      apply ih
      subst h
      cases op with
      | tick dt => simp [siteStep, SOp.toOp, Sys.step]
      | site u s q => simp [siteStep, SOp.toOp, Sys.step, Sys.afterAccept, site_state_as_call]
      | direct op => simpa [siteStep, SOp.toOp] using (Sys.step_b_now sy op).symm
  exact key ops _ _ rfl

/-- **admission law on the log, for histories through the call sites**: after ANY finite history of requests through
any mix of sites (every request class, returning or unwinding, any option set), direct calls, promises and time gaps,
a request arriving `dt` later is rejected only if, among the calls recorded in the log for the 40 aligned 250 ms
buckets ending now, the non-accepted ones exceed 5 + 10 % of the accepted ones. -/
theorem site_admission_law_on_log (t0 : Nat) (ops : List SOp) (dt : Nat) (u : Rat)
    (h : ((siteRun t0 ops).1.accept ((siteRun t0 ops).2 + dt) u).1 = .reject) :
    let sy := (Sys.init t0).run (ops.map SOp.toOp)
    let now := sy.now + dt
    let L := (List.range (40 - sy.b.rw.span now)).map fun i => Lget (logBucket t0 sy.log) (bucketIdx t0 now) (39 - i)
    10 * (((sumBuckets L).sum : Int) - ((sumBuckets L).succ : Int)) > 50 + ((sumBuckets L).succ : Int) := by
  rw [site_history_simulates] at h
  exact admission_law_on_log t0 (ops.map SOp.toOp) dt u h

/-- **guaranteed probing, for histories through the call sites** -/
theorem site_probe_after_one_second (t0 : Nat) (ht0 : 0 < t0) (ops : List SOp) (t dt : Nat) (u : Rat)
    (hlast : ((Sys.init t0).run (ops.map SOp.toOp)).lastThrottled = some t)
    (hgap : t + 1000000000 < (siteRun t0 ops).2 + dt) :
    ((siteRun t0 ops).1.accept ((siteRun t0 ops).2 + dt) u).1 = .pass := by
  rw [site_history_simulates] at hgap ⊢
  exact probe_after_one_second t0 ht0 (ops.map SOp.toOp) t dt u hlast hgap

/-- non-vacuity: what some site requests amount to — a 500 at rest is a failing call, a panicking handler that had
written 499 a successful one, gRPC Unavailable at the zrpc client a failing one, a scan-stage deadline in sqlx a failing
one, a scan-stage conversion error a successful one -/
example : Site.asOutcome .rest { code := 500 } = .errU ∧ Site.asOutcome .rest { code := 499, panics := true } = .ok
    ∧ Site.asOutcome .zrpcClient { err := .grpc 14 } = .errU
    ∧ Site.asOutcome .sqlxQuery { err := .ctxDeadline, fromScan := true } = .errU
    ∧ Site.asOutcome .sqlxQuery { err := .other, fromScan := true } = .ok := by decide

/-- non-vacuity of the rejection hypothesis: twelve rejected promises within one instant, then a request through any
site with draw 1/2 < 7/13 is rejected (the simulating history is the same twelve marks) -/
example : ((siteRun 9 (List.replicate 12 (SOp.direct (.resolve .fail)))).1.accept 9 (1/2)).1 = .reject := by
  have hb : (siteRun 9 (List.replicate 12 (SOp.direct (.resolve .fail)))).1
      = (List.replicate 12 Mark.fail).foldl (fun b m => b.mark 9 m) (Breaker.init 9) := by decide
  rw [hb]
  have hh : (((List.replicate 12 Mark.fail).foldl (fun b m => b.mark 9 m) (Breaker.init 9)).history 9) = ⟨0, 12, 1, 0⟩ := by decide
  have hl : ((List.replicate 12 Mark.fail).foldl (fun b m => b.mark 9 m) (Breaker.init 9)).lastPass = 0 := by decide
  apply total_failure_rejects
  · rw [hh]
  · rw [hh]; decide
  · rw [hl]; simp
  · rw [hh, totalFailureRatio_eq]
    have : ((12 + 1 : Nat) : Rat) = 13 := by simp
    simp only [this]; grind

/-! ## 10. float policy: where a float64 evaluation of `accept()` can differ from the exact one -/

/-- **the numerator of the drop ratio lies on the grid of hundredths**: `100 · dropNum` is the integer
`100·(total − 5) − (150 − failingBuckets)·accepts` (at most 40 failing buckets: the window has 40) -/
theorem dropNum_grid (h : WinRes) (hfb : h.failingBuckets ≤ 40) :
    dropNum h = (((100 * ((h.total : Int) - 5) - (150 - (h.failingBuckets : Int)) * (h.accepts : Int)) : Int) : Rat) / 100 := by
  unfold dropNum
  rw [weight_eq_of_le _ hfb]
  push_cast
  grind

/-- **float policy, as a theorem about the decision**: the numerator is either exactly 0 or at least 1/100 away from 0,
so ANY evaluation of it whose absolute error is below 1/100 — float64 in particular, whose error after four operations is
below 2^-50·(total + 1.5·accepts), i.e. below 1/100 for every window with fewer than 2^40 calls — takes the same
`dropRatio <= 0` decision as the exact one, except when the exact numerator is 0 (the documented boundary, which needs
accepts > 0 and where the driver accepts either outcome). -/
theorem free_decision_robust (h : WinRes) (hfb : h.failingBuckets ≤ 40) (x : Rat)
    (hne : dropNum h ≠ 0) (hclose : x - dropNum h < 1 / 100 ∧ dropNum h - x < 1 / 100) :
    (x ≤ 0 ↔ dropNum h ≤ 0) := by
  rw [dropNum_grid h hfb] at hne hclose ⊢
  generalize (100 * ((h.total : Int) - 5) - (150 - (h.failingBuckets : Int)) * (h.accepts : Int)) = k at *
  have hk : k ≠ 0 := by
    intro h0; subst h0; apply hne; show ((0 : Int) : Rat) / 100 = 0; grind
  rcases Int.lt_or_gt_of_ne hk with hneg | hpos
  · have : k ≤ -1 := by omega
    have hc : ((k : Int) : Rat) ≤ ((-1 : Int) : Rat) := by exact_mod_cast this
    constructor <;> intro _ <;> grind
  · have : 1 ≤ k := by omega
    have hc : ((1 : Int) : Rat) ≤ ((k : Int) : Rat) := by exact_mod_cast this
    constructor <;> intro _ <;> grind

/-- non-vacuity: one success and seven calls: the numerator is exactly 1/2 (50 hundredths), far from the boundary -/
example : dropNum ⟨1, 7, 0, 0⟩ = (((50 : Int) : Int) : Rat) / 100 := by
  rw [dropNum_grid _ (by decide)]; rfl

end GoZero.C01
