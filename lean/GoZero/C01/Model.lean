/-
C01 — executable model of the circuit breaker that exists in core/breaker (googleBreaker behind
loggedThrottle / circuitBreaker) and of the rolling window it counts in (core/collection/rollingwindow.go).
Core Lean only (linked into gzdriver).  Time is the value of timex.Now() in ns, as `Nat`.

Float policy (DESIGN section 2): the Go code computes the drop ratio in float64; the model computes the
same expressions in exact `Rat`.  The two *comparisons* of `accept` are parameters of `acceptPath`, so the
driver can follow the implementation exactly on a float boundary; `accept` instantiates them exactly.
-/
namespace GoZero.C01

/-! ## constants (tied to the source by Tie.lean) -/

def windowNs : Nat := 10000000000          -- window = 10 s
def nBuckets : Nat := 40                   -- buckets
def intervalNs : Nat := 250000000          -- bucketDuration = window / buckets
def forcePassNs : Nat := 1000000000        -- forcePassDuration = 1 s
def kMax : Rat := 3 / 2                    -- k
def kMin : Rat := 11 / 10                  -- minK
def protection : Nat := 5

/-! ## bucket (core/breaker/bucket.go) -/

structure Bucket where
  sum  : Nat := 0
  succ : Nat := 0
  fail : Nat := 0
  drop : Nat := 0
  deriving Repr, DecidableEq, Inhabited

inductive Mark | succ | fail | drop
  deriving Repr, DecidableEq, Inhabited

/-- the codes `success = iota; fail; drop` -/
def Mark.code : Mark → Int
  | .succ => 0
  | .fail => 1
  | .drop => 2

/-- `bucket.Add`: `switch v { case fail: … case drop: … default: succeed }` -/
def Bucket.addCode (b : Bucket) (v : Int) : Bucket :=
  if v = 1 then { b with sum := b.sum + 1, fail := b.fail + 1 }
  else if v = 2 then { b with sum := b.sum + 1, drop := b.drop + 1 }
  else { b with sum := b.sum + 1, succ := b.succ + 1 }

def Bucket.add (b : Bucket) (m : Mark) : Bucket := b.addCode m.code

/-! ## rolling window (own copy; RollingWindow[int64,*bucket] without IgnoreCurrentBucket) -/

structure RW where
  size     : Nat
  interval : Nat
  offset   : Nat
  lastTime : Nat
  buckets  : List Bucket
  deriving Repr, DecidableEq

def RW.init (size interval now : Nat) : RW :=
  { size := size, interval := interval, offset := 0, lastTime := now, buckets := List.replicate size {} }

/-- `span()`: `offset := int(Since(lastTime)/interval); if 0 <= offset && offset < size {offset} else {size}`
(clock monotone: `now ≥ lastTime`). -/
def RW.span (w : RW) (now : Nat) : Nat :=
  let o := (now - w.lastTime) / w.interval
  if o < w.size then o else w.size

/-- the reset loop of `updateOffset`: `for i < span { resetBucket((offset+i+1) % size) }`, `start = offset+1`. -/
def resetFrom (size : Nat) (bs : List Bucket) (start : Nat) : Nat → List Bucket
  | 0 => bs
  | n + 1 => resetFrom size (bs.set (start % size) {}) (start + 1) n

/-- `updateOffset` past its early return (`span > 0`): reset the expired buckets, move `offset`, realign `lastTime`. -/
def RW.updateOffset' (w : RW) (now : Nat) : RW :=
  { w with
    buckets := resetFrom w.size w.buckets (w.offset + 1) (w.span now)
    offset := (w.offset + w.span now) % w.size
    lastTime := now - (now - w.lastTime) % w.interval }

def RW.updateOffset (w : RW) (now : Nat) : RW :=
  if w.span now = 0 then w else w.updateOffset' now

/-- `Add(v)`: updateOffset, then `buckets[offset % size].Add(v)`. -/
def RW.add (w : RW) (now : Nat) (m : Mark) : RW :=
  let w' := w.updateOffset now
  { w' with buckets := w'.buckets.modify (w'.offset % w'.size) (·.add m) }

/-- the buckets `Reduce` hands to its callback, in order (oldest first, current bucket last). -/
def RW.visible (w : RW) (now : Nat) : List Bucket :=
  let s := w.span now
  (List.range (w.size - s)).map fun i => w.buckets.getD ((w.offset + s + 1 + i) % w.size) {}

/-! ## googleBreaker -/

structure WinRes where
  accepts : Nat := 0
  total   : Nat := 0
  failingBuckets : Nat := 0
  workingBuckets : Nat := 0
  deriving Repr, DecidableEq, Inhabited

/-- the callback of `history()` -/
def reduceStep (r : WinRes) (b : Bucket) : WinRes :=
  { accepts := r.accepts + b.succ
    total := r.total + b.sum
    workingBuckets := if b.fail > 0 then 0 else if b.succ > 0 then r.workingBuckets + 1 else r.workingBuckets
    failingBuckets := if b.succ > 0 then 0 else if b.fail > 0 then r.failingBuckets + 1 else r.failingBuckets }

def summarize (bs : List Bucket) : WinRes := bs.foldl reduceStep {}

structure Breaker where
  rw : RW
  lastPass : Nat
  deriving Repr, DecidableEq

def Breaker.init (now : Nat) : Breaker := { rw := RW.init nBuckets intervalNs now, lastPass := 0 }

def Breaker.history (b : Breaker) (now : Nat) : WinRes := summarize (b.rw.visible now)

/-- `w = k - (k-minK)*float64(failingBuckets)/buckets`, then `mathx.AtLeast(w, minK)`
(integers enter the float arithmetic through `float64(int64)`, hence the `Int → Rat` casts) -/
def rawWeight (fb : Nat) : Rat :=
  kMax - (kMax - kMin) * (((fb : Nat) : Int) : Rat) / ((40 : Int) : Rat)

def weight (fb : Nat) : Rat :=
  if rawWeight fb < kMin then kMin else rawWeight fb

/-- numerator of the first drop ratio: `float64(total-protection) - weightedAccepts` -/
def dropNum (h : WinRes) : Rat :=
  ((((h.total : Nat) : Int) - 5 : Int) : Rat) - weight h.failingBuckets * (((h.accepts : Nat) : Int) : Rat)

/-- `dropRatio := (float64(total-protection) - weightedAccepts) / float64(total+1)` -/
def dropRatio0 (h : WinRes) : Rat := dropNum h / ((((h.total : Nat) : Int) + 1 : Int) : Rat)

/-- `dropRatio *= float64(buckets-workingBuckets) / buckets` -/
def dropRatio1 (h : WinRes) : Rat :=
  dropRatio0 h * ((((40 : Int) - ((h.workingBuckets : Nat) : Int) : Int) : Rat) / ((40 : Int) : Rat))

inductive Verdict | pass | reject
  deriving Repr, DecidableEq, Inhabited

/-- the four ways through `accept()` -/
inductive Path
  | free        -- dropRatio <= 0
  | forced      -- lastPass > 0 && Since(lastPass) > forcePassDuration
  | drawnPass   -- TrueOnProba false
  | drawnDrop   -- TrueOnProba true
  deriving Repr, DecidableEq, Inhabited

/-- control flow of `accept()` given the outcome of its two float comparisons
(`throttled` = `dropRatio > 0`, `drawLess` = `r.Float64() < dropRatio`). -/
def acceptPath (lastPass now : Nat) (throttled drawLess : Bool) : Path :=
  if !throttled then .free
  else if lastPass > 0 ∧ now - lastPass > forcePassNs then .forced
  else if drawLess then .drawnDrop
  else .drawnPass

def Path.verdict : Path → Verdict
  | .drawnDrop => .reject
  | _ => .pass

/-- `b.lastPass.Set(timex.Now())` on the two throttled admissions -/
def Path.setsLastPass : Path → Bool
  | .forced => true
  | .drawnPass => true
  | _ => false

/-- does the path consume a draw of `proba` -/
def Path.draws : Path → Bool
  | .drawnPass => true
  | .drawnDrop => true
  | _ => false

def Breaker.applyPath (b : Breaker) (now : Nat) (p : Path) : Breaker :=
  if p.setsLastPass then { b with lastPass := now } else b

def Breaker.pathOf (b : Breaker) (now : Nat) (u : Rat) : Path :=
  let h := b.history now
  acceptPath b.lastPass now (decide (0 < dropRatio0 h)) (decide (u < dropRatio1 h))

/-- `accept()` with exact arithmetic; `u` is the draw `proba` would produce. -/
def Breaker.accept (b : Breaker) (now : Nat) (u : Rat) : Verdict × Breaker :=
  let p := b.pathOf now u
  (p.verdict, b.applyPath now p)

def Breaker.mark (b : Breaker) (now : Nat) (m : Mark) : Breaker := { b with rw := b.rw.add now m }

/-! ## entry points as an event-list decision table -/

/-- what the request does: returns nil / an error the custom predicate accepts / another error /
`ErrServiceUnavailable` itself (a nested, open breaker downstream) / an error wrapping it with `%w` / panics.
The last two are ordinary unacceptable errors for the breaker: the call was ADMITTED, so the fallback must not
run and the error must come back unchanged — although it `errors.Is` the breaker's own rejection error. -/
inductive Outcome | ok | errA | errU | brk | wbrk | panic
  /-- a typed-nil error: an `error` interface holding a nil pointer.  `err == nil` is FALSE for it, so
  `defaultAcceptable` (and the harness's custom predicate) count it as a failure and it comes back unchanged. -/
  | tnil
  deriving Repr, DecidableEq, Inhabited

/-- How a request that does not return leaves `doReq` / the deferred function of a call site.  The decision tables
below do not depend on it (`Outcome.panic` / `SiteReq.panics` stand for all three): the deferred marker runs in
every case — Go runs deferred functions when a goroutine panics and when it calls `runtime.Goexit` — and nobody
on the breaker's path calls `recover`, so a panic value (string or error, e.g. `http.ErrAbortHandler`) reaches the
caller unchanged and a `Goexit` keeps terminating the goroutine.  The harness observes which of the three came out. -/
inductive Unwind | panicValue | panicError | goexit
  deriving Repr, DecidableEq, Inhabited

/-- what the caller of the entry point observes of an unwinding request (`panic=` of the trace) -/
def Unwind.obs : Unwind → String
  | .panicValue => "1"
  | .panicError => "err"
  | .goexit => "exit"

structure Entry where
  hasFallback : Bool     -- DoWithFallback / DoWithFallbackAcceptable
  custom      : Bool     -- DoWithAcceptable / DoWithFallbackAcceptable (else defaultAcceptable: err == nil)
  deriving Repr, DecidableEq, Inhabited

/-- what the caller gets back: the request's own result (by identity: `brk` is the request's own
`ErrServiceUnavailable`, as opposed to `unavailable`, the breaker's rejection), the rejection error, the
fallback's result, or the context's error -/
inductive Ret | nil | errA | errU | brk | wbrk | unavailable | fallbackResult | ctxErr | tnil
  deriving Repr, DecidableEq, Inhabited

inductive Ev
  | ranReq
  | ranFallback
  | mark (m : Mark)
  | returned (r : Ret)
  | repanicked
  deriving Repr, DecidableEq, Inhabited

/-- the acceptability predicate applied to the request's result (custom predicate of the harness accepts nil and errA) -/
def acceptable (custom : Bool) : Outcome → Bool
  | .ok => true
  | .errA => custom
  | .errU => false
  | .brk => false
  | .wbrk => false
  | .panic => false
  | .tnil => false

def Outcome.ret : Outcome → Ret
  | .ok => .nil
  | .errA => .errA
  | .errU => .errU
  | .brk => .brk
  | .wbrk => .wbrk
  | .panic => .nil
  | .tnil => .tnil

/-- `doReq` (through loggedThrottle.doReq and circuitBreaker.Do*): events in program order. -/
def doReqEvents (v : Verdict) (e : Entry) (o : Outcome) : List Ev :=
  match v with
  | .reject =>
    if e.hasFallback then [.mark .drop, .ranFallback, .returned .fallbackResult]
    else [.mark .drop, .returned .unavailable]
  | .pass =>
    match o with
    | .panic => [.ranReq, .mark .fail, .repanicked]
    | o => [.ranReq, .mark (if acceptable e.custom o then .succ else .fail), .returned o.ret]

/-- `allow()`: a rejected Allow marks a drop; an admitted one marks nothing until the promise is resolved. -/
def allowEvents : Verdict → List Ev
  | .reject => [.mark .drop, .returned .unavailable]
  | .pass => [.returned .nil]

/-- every `…Ctx` variant with a context that is already done -/
def ctxDoneEvents : List Ev := [.returned .ctxErr]

def marksOf (evs : List Ev) : List Mark :=
  evs.filterMap fun | .mark m => some m | _ => none

def Breaker.applyMarks (b : Breaker) (now : Nat) (ms : List Mark) : Breaker := ms.foldl (fun b m => b.mark now m) b

/-- one `Do*` call at time `now` with draw `u`. -/
def Breaker.doReq (b : Breaker) (now : Nat) (u : Rat) (e : Entry) (o : Outcome) : List Ev × Breaker :=
  let r := b.accept now u
  let evs := doReqEvents r.1 e o
  (evs, r.2.applyMarks now (marksOf evs))

def Breaker.allow (b : Breaker) (now : Nat) (u : Rat) : List Ev × Breaker :=
  let r := b.accept now u
  let evs := allowEvents r.1
  (evs, r.2.applyMarks now (marksOf evs))

/-! ## window totals printed by the harness -/

def sumBuckets (bs : List Bucket) : Bucket :=
  bs.foldl (fun a b => { sum := a.sum + b.sum, succ := a.succ + b.succ, fail := a.fail + b.fail, drop := a.drop + b.drop }) {}

end GoZero.C01
