/-
C01 — in every reachable state the rolling window represents the ghost call log.
-/
import GoZero.C01.Run
import GoZero.C01.Window
namespace GoZero.C01

/-- what the calls logged so far put into the aligned bucket number `j` (bucket `j` covers
`[t0 + j·250ms, t0 + (j+1)·250ms)`, `t0` = creation time of the breaker) -/
def logBucket (t0 : Nat) : List (Nat × Mark) → Nat → Bucket
  | [], _ => {}
  | e :: rest, j => if bucketIdx t0 e.1 = j then (logBucket t0 rest j).add e.2 else logBucket t0 rest j

theorem logBucket_cons (t0 : Nat) (t : Nat) (m : Mark) (log : List (Nat × Mark)) :
    logBucket t0 ((t, m) :: log) = recordAt (logBucket t0 log) (bucketIdx t0 t) m := by
  funext j
  simp only [logBucket, recordAt]
  by_cases h : bucketIdx t0 t = j
  · simp [h]
  · have : ¬ j = bucketIdx t0 t := fun e => h e.symm
    simp [h, this]

def WinInv (t0 : Nat) (b : Breaker) (now : Nat) (log : List (Nat × Mark)) : Prop :=
  ∃ cur, Rep b.rw t0 cur (logBucket t0 log) ∧ b.rw.lastTime ≤ now ∧ t0 ≤ now

theorem mark_inv (t0 : Nat) (b : Breaker) (now : Nat) (log : List (Nat × Mark)) (m : Mark)
    (h : WinInv t0 b now log) : WinInv t0 (b.mark now m) now ((now, m) :: log) := by
  obtain ⟨cur, hr, hl, ht⟩ := h
  have hr' := add_rep b.rw t0 cur _ hr now m hl
  have hlt := hr.lt
  have hidx : bucketIdx t0 now = cur + (now - b.rw.lastTime) / 250000000 := by
    unfold bucketIdx intervalNs; omega
  refine ⟨cur + (now - b.rw.lastTime) / 250000000, ?_, ?_, ht⟩
  · rw [logBucket_cons, hidx]; exact hr'
  · have := hr'.lt
    simp only [Breaker.mark]
    omega

theorem applyMarks_inv (t0 : Nat) (now : Nat) (ms : List Mark) (b : Breaker) (log : List (Nat × Mark))
    (h : WinInv t0 b now log) :
    WinInv t0 (b.applyMarks now ms) now ((ms.map fun m => (now, m)).reverse ++ log) := by
  induction ms generalizing b log with
  | nil => simpa [Breaker.applyMarks] using h
  | cons m ms ih =>
    have := ih (b.mark now m) ((now, m) :: log) (mark_inv t0 b now log m h)
    simpa [Breaker.applyMarks, List.map_cons, List.reverse_cons, List.append_assoc] using this

theorem accept_rw (b : Breaker) (now : Nat) (u : Rat) : (b.accept now u).2.rw = b.rw := by
  unfold Breaker.accept Breaker.applyPath
  simp only []
  split <;> rfl

theorem Sys.winInv_step (t0 : Nat) (s : Sys) (h : WinInv t0 s.b s.now s.log) (op : Op) :
    WinInv t0 (s.step op).b (s.step op).now (s.step op).log := by
  cases op with
  | tick dt =>
    obtain ⟨cur, hr, hl, ht⟩ := h
    exact ⟨cur, hr, by simp [Sys.step]; omega, by simp [Sys.step]; omega⟩
  | call u e o =>
    simp only [Sys.step, Sys.afterAccept, Breaker.doReq]
    apply applyMarks_inv
    obtain ⟨cur, hr, hl, ht⟩ := h
    exact ⟨cur, by rw [accept_rw]; exact hr, by rw [accept_rw]; exact hl, ht⟩
  | allow u =>
    simp only [Sys.step, Sys.afterAccept, Breaker.allow]
    apply applyMarks_inv
    obtain ⟨cur, hr, hl, ht⟩ := h
    exact ⟨cur, by rw [accept_rw]; exact hr, by rw [accept_rw]; exact hl, ht⟩
  | resolve m => exact mark_inv t0 s.b s.now s.log m h
  | ctxDone => exact h

theorem Sys.winInv_run (t0 : Nat) (ops : List Op) :
    WinInv t0 ((Sys.init t0).run ops).b ((Sys.init t0).run ops).now ((Sys.init t0).run ops).log := by
  have : ∀ s : Sys, WinInv t0 s.b s.now s.log → WinInv t0 (s.run ops).b (s.run ops).now (s.run ops).log := by
    induction ops with
    | nil => intro s h; exact h
    | cons op ops ih => intro s h; exact ih _ (Sys.winInv_step t0 s h op)
  apply this
  exact ⟨0, by simpa [Sys.init, Breaker.init, logBucket] using rep_init t0, by simp [Sys.init, Breaker.init, RW.init], by simp [Sys.init]⟩

end GoZero.C01
