/-
C01 — in every reachable state the rolling window represents the ghost call log.
First for a bare `RollingWindow` of ANY size `n ≥ 1` and interval `d ≥ 1` under arbitrary histories of `Add`s and
time gaps (`WSys`), then for the breaker's instance (n = 40, d = 250 ms) under the breaker's own histories.
-/
import GoZero.C01.Run
import GoZero.C01.Window
namespace GoZero.C01

/-- what the calls logged so far put into the aligned bucket number `j` (bucket `j` covers
`[t0 + j·d, t0 + (j+1)·d)`, `t0` = creation time of the window) -/
def logBucketD (d t0 : Nat) : List (Nat × Mark) → Nat → Bucket
  | [], _ => {}
  | e :: rest, j => if bucketIdxD d t0 e.1 = j then (logBucketD d t0 rest j).add e.2 else logBucketD d t0 rest j

/-- the breaker's instance: 250 ms buckets -/
def logBucket (t0 : Nat) : List (Nat × Mark) → Nat → Bucket := logBucketD intervalNs t0

theorem logBucketD_cons (d t0 : Nat) (t : Nat) (m : Mark) (log : List (Nat × Mark)) :
    logBucketD d t0 ((t, m) :: log) = recordAt (logBucketD d t0 log) (bucketIdxD d t0 t) m := by
  funext j
  simp only [logBucketD, recordAt]
  by_cases h : bucketIdxD d t0 t = j
  · simp [h]
  · have : ¬ j = bucketIdxD d t0 t := fun e => h e.symm
    simp [h, this]

/-- the index of the bucket that contains `now`, from the aligned `lastTime` -/
theorem idx_eq (d t0 cur lt now : Nat) (hd : 0 < d) (hlt : lt = t0 + cur * d) (hle : lt ≤ now) :
    bucketIdxD d t0 now = cur + (now - lt) / d := by
  unfold bucketIdxD
  have e : now - t0 = (now - lt) + cur * d := by omega
  rw [e, Nat.add_mul_div_right _ _ hd, Nat.add_comm]

/-- window invariant, any geometry -/
def WinInvG (n d t0 : Nat) (w : RW) (now : Nat) (log : List (Nat × Mark)) : Prop :=
  ∃ cur, Rep n d w t0 cur (logBucketD d t0 log) ∧ w.lastTime ≤ now ∧ t0 ≤ now

theorem winInvG_init (n d : Nat) (hn : 0 < n) (hd : 0 < d) (t0 : Nat) : WinInvG n d t0 (RW.init n d t0) t0 [] :=
  ⟨0, by simpa [logBucketD] using rep_init n d hn hd t0, by simp [RW.init], Nat.le_refl _⟩

theorem add_inv (n d t0 : Nat) (w : RW) (now : Nat) (log : List (Nat × Mark)) (m : Mark)
    (h : WinInvG n d t0 w now log) : WinInvG n d t0 (w.add now m) now ((now, m) :: log) := by
  obtain ⟨cur, hr, hl, ht⟩ := h
  have hr' := add_rep n d w t0 cur _ hr now m hl
  have hidx := idx_eq d t0 cur w.lastTime now hr.dpos hr.lt hl
  refine ⟨cur + (now - w.lastTime) / d, ?_, ?_, ht⟩
  · rw [logBucketD_cons, hidx]; exact hr'
  · have h1 := hr'.lt
    have h2 := hr.lt
    have hdm : d * ((now - w.lastTime) / d) + (now - w.lastTime) % d = now - w.lastTime := Nat.div_add_mod _ _
    have e1 : (cur + (now - w.lastTime) / d) * d = cur * d + d * ((now - w.lastTime) / d) := by
      rw [Nat.add_mul, Nat.mul_comm ((now - w.lastTime) / d) d]
    omega

theorem visible_of_inv (n d t0 : Nat) (w : RW) (tnow : Nat) (log : List (Nat × Mark))
    (h : WinInvG n d t0 w tnow log) (now : Nat) (hnow : tnow ≤ now) :
    w.visible now =
      (List.range (n - w.span now)).map fun i => Lget (logBucketD d t0 log) (bucketIdxD d t0 now) (n - 1 - i) := by
  obtain ⟨cur, hr, hl, ht⟩ := h
  have hv := visible_spec n d w t0 cur _ hr now (Nat.le_trans hl hnow)
  rw [hv, idx_eq d t0 cur w.lastTime now hr.dpos hr.lt (Nat.le_trans hl hnow)]

/-! ### histories of a bare rolling window -/

inductive WOp
  | tick (dt : Nat)       -- time passes
  | add (m : Mark)        -- `Add(v)` at the current time

structure WSys where
  w : RW
  now : Nat
  log : List (Nat × Mark)   -- ghost: every `Add` with its time, newest first

def WSys.init (n d t0 : Nat) : WSys := { w := RW.init n d t0, now := t0, log := [] }

def WSys.step (s : WSys) : WOp → WSys
  | .tick dt => { s with now := s.now + dt }
  | .add m => { s with w := s.w.add s.now m, log := (s.now, m) :: s.log }

def WSys.run (s : WSys) (ops : List WOp) : WSys := ops.foldl WSys.step s

theorem WSys.inv_run (n d : Nat) (hn : 0 < n) (hd : 0 < d) (t0 : Nat) (ops : List WOp) :
    WinInvG n d t0 ((WSys.init n d t0).run ops).w ((WSys.init n d t0).run ops).now ((WSys.init n d t0).run ops).log := by
  have : ∀ s : WSys, WinInvG n d t0 s.w s.now s.log → WinInvG n d t0 (s.run ops).w (s.run ops).now (s.run ops).log := by
    induction ops with
    | nil => intro s h; exact h
    | cons op ops ih =>
      intro s h
      apply ih
      cases op with
      | tick dt =>
        obtain ⟨cur, hr, hl, ht⟩ := h
        exact ⟨cur, hr, by simp [WSys.step]; omega, by simp [WSys.step]; omega⟩
      | add m => exact add_inv n d t0 s.w s.now s.log m h
  exact this _ (winInvG_init n d hn hd t0)

/-! ### the breaker's window -/

def WinInv (t0 : Nat) (b : Breaker) (now : Nat) (log : List (Nat × Mark)) : Prop :=
  WinInvG nBuckets intervalNs t0 b.rw now log

theorem mark_inv (t0 : Nat) (b : Breaker) (now : Nat) (log : List (Nat × Mark)) (m : Mark)
    (h : WinInv t0 b now log) : WinInv t0 (b.mark now m) now ((now, m) :: log) :=
  add_inv nBuckets intervalNs t0 b.rw now log m h

theorem applyMarks_inv (t0 : Nat) (now : Nat) (ms : List Mark) (b : Breaker) (log : List (Nat × Mark))
    (h : WinInv t0 b now log) :
    WinInv t0 (b.applyMarks now ms) now ((ms.map fun m => (now, m)).reverse ++ log) := by
  induction ms generalizing b log with
  | nil => simpa [Breaker.applyMarks] using h
  | cons m ms ih =>
    have := ih (b.mark now m) ((now, m) :: log) (mark_inv t0 b now log m h)
    simpa [Breaker.applyMarks, List.map_cons, List.reverse_cons, List.append_assoc] using this

theorem accept_rw (b : Breaker) (now : Nat) (u : Rat) : (b.accept now u).2.rw = b.rw := by
  unfold Breaker.accept Breaker.applyPath
  simp only []
  split <;> rfl

theorem Sys.winInv_step (t0 : Nat) (s : Sys) (h : WinInv t0 s.b s.now s.log) (op : Op) :
    WinInv t0 (s.step op).b (s.step op).now (s.step op).log := by
  cases op with
  | tick dt =>
    obtain ⟨cur, hr, hl, ht⟩ := h
    exact ⟨cur, hr, by simp [Sys.step]; omega, by simp [Sys.step]; omega⟩
  | call u e o =>
    simp only [Sys.step, Sys.afterAccept, Breaker.doReq]
    apply applyMarks_inv
    obtain ⟨cur, hr, hl, ht⟩ := h
    exact ⟨cur, by rw [accept_rw]; exact hr, by rw [accept_rw]; exact hl, ht⟩
  | allow u =>
    simp only [Sys.step, Sys.afterAccept, Breaker.allow]
    apply applyMarks_inv
    obtain ⟨cur, hr, hl, ht⟩ := h
    exact ⟨cur, by rw [accept_rw]; exact hr, by rw [accept_rw]; exact hl, ht⟩
  | resolve m => exact mark_inv t0 s.b s.now s.log m h
  | ctxDone => exact h

theorem Sys.winInv_run (t0 : Nat) (ops : List Op) :
    WinInv t0 ((Sys.init t0).run ops).b ((Sys.init t0).run ops).now ((Sys.init t0).run ops).log := by
  have : ∀ s : Sys, WinInv t0 s.b s.now s.log → WinInv t0 (s.run ops).b (s.run ops).now (s.run ops).log := by
    induction ops with
    | nil => intro s h; exact h
    | cons op ops ih => intro s h; exact ih _ (Sys.winInv_step t0 s h op)
  apply this
  exact winInvG_init nBuckets intervalNs (by decide) (by decide) t0

end GoZero.C01
