/-
C01 — histories: arbitrary finite sequences of calls (any entry point, any outcome, any draw) interleaved with
arbitrary time gaps, with two ghost components the property talks about: the time of the last admission made
while throttling, and the log of everything recorded.
-/
import GoZero.C01.Proofs
namespace GoZero.C01

inductive Op
  | tick (dt : Nat)                                   -- time passes (0 … several windows)
  | call (u : Rat) (e : Entry) (o : Outcome)          -- Do / DoWithAcceptable / DoWithFallback / DoWithFallbackAcceptable (+Ctx, live)
  | allow (u : Rat)                                   -- Allow / AllowCtx (live)
  | resolve (m : Mark)                                -- a promise handed out earlier is resolved now (Accept = succ, Reject = fail)
  | ctxDone                                           -- any …Ctx entry point with a context that is already done

structure Sys where
  b : Breaker
  now : Nat
  lastThrottled : Option Nat      -- ghost: time of the last admission made on the throttled path
  log : List (Nat × Mark)         -- ghost: every mark recorded so far with the time of recording (newest first)
  deriving Repr

def Sys.init (t0 : Nat) : Sys := { b := Breaker.init t0, now := t0, lastThrottled := none, log := [] }

def Sys.afterAccept (s : Sys) (u : Rat) (evs : List Ev) (b' : Breaker) : Sys :=
  { s with b := b'
           lastThrottled := if (s.b.pathOf s.now u).setsLastPass then some s.now else s.lastThrottled
           log := ((marksOf evs).map fun m => (s.now, m)).reverse ++ s.log }

def Sys.step (s : Sys) : Op → Sys
  | .tick dt => { s with now := s.now + dt }
  | .call u e o => s.afterAccept u (s.b.doReq s.now u e o).1 (s.b.doReq s.now u e o).2
  | .allow u => s.afterAccept u (s.b.allow s.now u).1 (s.b.allow s.now u).2
  | .resolve m => { s with b := s.b.mark s.now m, log := (s.now, m) :: s.log }
  | .ctxDone => s

def Sys.run (s : Sys) (ops : List Op) : Sys := ops.foldl Sys.step s

theorem applyMarks_lastPass (b : Breaker) (now : Nat) (ms : List Mark) : (b.applyMarks now ms).lastPass = b.lastPass := by
  unfold Breaker.applyMarks
  induction ms generalizing b with
  | nil => rfl
  | cons m ms ih => simp only [List.foldl_cons]; rw [ih]; rfl

theorem applyPath_lastPass (b : Breaker) (now : Nat) (p : Path) :
    (b.applyPath now p).lastPass = if p.setsLastPass then now else b.lastPass := by
  unfold Breaker.applyPath; split <;> simp_all

theorem doReq_lastPass (b : Breaker) (now : Nat) (u : Rat) (e : Entry) (o : Outcome) :
    (b.doReq now u e o).2.lastPass = if (b.pathOf now u).setsLastPass then now else b.lastPass := by
  unfold Breaker.doReq Breaker.accept
  simp only [applyMarks_lastPass, applyPath_lastPass]

theorem allow_lastPass (b : Breaker) (now : Nat) (u : Rat) :
    (b.allow now u).2.lastPass = if (b.pathOf now u).setsLastPass then now else b.lastPass := by
  unfold Breaker.allow Breaker.accept
  simp only [applyMarks_lastPass, applyPath_lastPass]

/-- the invariant tying `lastPass` to the ghost -/
def Sys.Good (t0 : Nat) (s : Sys) : Prop :=
  t0 ≤ s.now ∧ s.b.lastPass = s.lastThrottled.getD 0 ∧ (∀ t, s.lastThrottled = some t → t0 ≤ t ∧ t ≤ s.now)
  ∧ (∀ e ∈ s.log, t0 ≤ e.1 ∧ e.1 ≤ s.now)

theorem Sys.good_init (t0 : Nat) : (Sys.init t0).Good t0 := by
  simp [Sys.Good, Sys.init, Breaker.init]

theorem Sys.good_afterAccept (t0 : Nat) (s : Sys) (h : s.Good t0) (u : Rat) (evs : List Ev) (b' : Breaker)
    (hb : b'.lastPass = if (s.b.pathOf s.now u).setsLastPass then s.now else s.b.lastPass) :
    (s.afterAccept u evs b').Good t0 := by
  obtain ⟨h1, h2, h3, h4⟩ := h
  refine ⟨h1, ?_, ?_, ?_⟩
  · simp only [Sys.afterAccept, hb]
    split <;> simp_all
  · intro t ht
    simp only [Sys.afterAccept] at ht
    split at ht
    · simp only [Option.some.injEq] at ht; subst ht; exact ⟨h1, Nat.le_refl _⟩
    · exact h3 t ht
  · intro e he
    simp only [Sys.afterAccept, List.mem_append, List.mem_reverse, List.mem_map] at he
    rcases he with ⟨m, _, rfl⟩ | he
    · exact ⟨h1, Nat.le_refl _⟩
    · exact h4 e he

theorem Sys.good_step (t0 : Nat) (s : Sys) (h : s.Good t0) (op : Op) : (s.step op).Good t0 := by
  cases op with
  | tick dt =>
    obtain ⟨h1, h2, h3, h4⟩ := h
    refine ⟨by simp [Sys.step]; omega, h2, ?_, ?_⟩
    · intro t ht; have := h3 t ht; simp [Sys.step]; omega
    · intro e he; have := h4 e he; simp [Sys.step]; omega
  | call u e o => exact Sys.good_afterAccept t0 s h u _ _ (doReq_lastPass _ _ _ _ _)
  | allow u => exact Sys.good_afterAccept t0 s h u _ _ (allow_lastPass _ _ _)
  | resolve m =>
    obtain ⟨h1, h2, h3, h4⟩ := h
    refine ⟨h1, h2, h3, ?_⟩
    intro e he
    simp only [Sys.step, List.mem_cons] at he
    rcases he with rfl | he
    · exact ⟨h1, Nat.le_refl _⟩
    · exact h4 e he
  | ctxDone => exact h

theorem Sys.good_run (t0 : Nat) (ops : List Op) : ((Sys.init t0).run ops).Good t0 := by
  have : ∀ s : Sys, s.Good t0 → (s.run ops).Good t0 := by
    induction ops with
    | nil => intro s h; exact h
    | cons op ops ih => intro s h; exact ih _ (Sys.good_step t0 s h op)
  exact this _ (Sys.good_init t0)

theorem Sys.run_append (s : Sys) (a b : List Op) : s.run (a ++ b) = (s.run a).run b := by
  simp [Sys.run, List.foldl_append]

/-- a call made while throttling whose draw is not below the ratio is a throttled admission -/
theorem Sys.step_call_throttled (s : Sys) (u : Rat) (e : Entry) (o : Outcome)
    (h0 : 0 < dropRatio0 (s.b.history s.now)) (h1 : ¬ u < dropRatio1 (s.b.history s.now)) :
    (s.step (.call u e o)).lastThrottled = some s.now := by
  simp only [Sys.step, Sys.afterAccept, Breaker.pathOf, acceptPath, h0, h1]
  by_cases hf : s.b.lastPass > 0 ∧ s.now - s.b.lastPass > forcePassNs <;> simp [hf, Path.setsLastPass]

end GoZero.C01
