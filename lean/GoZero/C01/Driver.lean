/-
C01 — driver: replays an implementation trace through the model (correspondence) and evaluates the
property monitor on what the implementation printed.

cfg:  t0=<ns>                      virtual time at which NewBreaker() ran
ops:  t+ <ns>                                               => <state>
      do <do|doacc|dofb|dofbacc> <ok|erra|erru|panic> ctx=<none|live|done> u=<m>
                                                            => req=<n> fb=<n> ret=<r> panic=<0|1> fbarg=<a> drew=<0|1> <state>
      allow ctx=<none|live|done> u=<m>                      => v=<pass|reject|ctx> drew=<0|1> <state>
      accept <i> | reject <i>     (i-th allow of the section) => ok <state> | nopromise <state>
      dump                                                  => n=<visited buckets> <i:sum/succ/fail/drop of the non-empty ones>
<state> = h=<accepts>/<total>/<failingBuckets>/<workingBuckets> w=<Σsum>/<Σsucc>/<Σfail>/<Σdrop> lp=<lastPass ns>
The draw is u = m / 2^53 (the harness scripts proba's source with Int63() = m·2^10, so Float64() is exactly u).
-/
import GoZero.Base.Trace
import GoZero.C01.Spec
namespace GoZero.C01
open GoZero

def twoPow53 : Nat := 9007199254740992

def parseEntry : String → Option Entry
  | "do" => some ⟨false, false⟩
  | "doacc" => some ⟨false, true⟩
  | "dofb" => some ⟨true, false⟩
  | "dofbacc" => some ⟨true, true⟩
  | _ => none

def parseOutcome : String → Option Outcome
  | "ok" => some .ok
  | "erra" => some .errA
  | "erru" => some .errU
  | "panic" => some .panic
  | _ => none

def retStr : Ret → String
  | .nil => "nil" | .errA => "erra" | .errU => "erru" | .unavailable => "unavail"
  | .fallbackResult => "fbres" | .ctxErr => "ctx"

def parseRet : String → Option Ret
  | "nil" => some .nil | "erra" => some .errA | "erru" => some .errU | "unavail" => some .unavailable
  | "fbres" => some .fallbackResult | "ctx" => some .ctxErr | _ => none

inductive Ctx | none | live | done deriving DecidableEq

def parseCtx : String → Option Ctx
  | "none" => some .none | "live" => some .live | "done" => some .done | _ => Option.none

def winStr (h : WinRes) : String := s!"{h.accepts}/{h.total}/{h.failingBuckets}/{h.workingBuckets}"
def bucketStr (w : Bucket) : String := s!"{w.sum}/{w.succ}/{w.fail}/{w.drop}"

def stateStr (b : Breaker) (now : Nat) : String :=
  s!"h={winStr (b.history now)} w={bucketStr (sumBuckets (b.rw.visible now))} lp={b.lastPass}"

def parse4 (s : String) : Option (Nat × Nat × Nat × Nat) :=
  match s.splitOn "/" with
  | [a, b, c, d] => do pure (← a.toNat?, ← b.toNat?, ← c.toNat?, ← d.toNat?)
  | _ => none

structure ImplState where
  h : WinRes
  w : Bucket
  lp : Nat

def parseState (obs : List String) : Option ImplState := do
  let (a, t, f, wk) ← parse4 (← kv? obs "h")
  let (s, su, fl, d) ← parse4 (← kv? obs "w")
  let lp ← (← kv? obs "lp").toNat?
  pure { h := ⟨a, t, f, wk⟩, w := ⟨s, su, fl, d⟩, lp := lp }

def b01 (b : Bool) : String := if b then "1" else "0"

def callStr (evs : List Ev) (drew : Bool) : String :=
  let c := CallObs.ofEvents evs
  let ret := if c.panicked then "none" else retStr c.ret
  let fbarg := if c.fbRuns > 0 then "unavail" else "-"
  s!"req={c.reqRuns} fb={c.fbRuns} ret={ret} panic={b01 c.panicked} fbarg={fbarg} drew={b01 drew}"

/-- window-total increase between two printed states; `none` if a total went down -/
def bucketDelta (after before : Bucket) : Option Bucket :=
  if after.sum ≥ before.sum ∧ after.succ ≥ before.succ ∧ after.fail ≥ before.fail ∧ after.drop ≥ before.drop then
    some ⟨after.sum - before.sum, after.succ - before.succ, after.fail - before.fail, after.drop - before.drop⟩
  else none

def ratAbs (x : Rat) : Rat := if x < 0 then -x else x

structure DState where
  b : Breaker
  now : Nat
  allows : Array Bool := #[]      -- per `allow` op of the section: is there an unresolved-able promise
  -- monitor side: what the implementation printed last, and the ghost "last throttled admission"
  mh : WinRes := {}
  mw : Bucket := {}
  ghost : Option Nat := none
  t0 : Nat := 0
  log : List (Nat × Mark) := []   -- what each call should have recorded, with its aligned bucket index

def DState.record (st : DState) (m : Mark) : DState :=
  let cur := bucketIdx st.t0 st.now
  { st with log := (cur, m) :: st.log.filter fun e => inWindow cur e.1 }

/-- the implementation printed a state: remember it; window totals used by the admission law come from the
monitor's own log (`fb`/`wb` are only needed for the weight between 1.1 and 1.5 and are taken as printed). -/
def DState.observe (st : DState) (ist : ImplState) : DState :=
  let t := logTotals st.log (bucketIdx st.t0 st.now)
  { st with mh := { ist.h with total := t.sum, accepts := t.succ }, mw := ist.w }

/-- the window the implementation shows must be the calls of the preceding 10 s -/
def checkWindow (r : Report) (sec line : Nat) (st : DState) (ist : ImplState) : Report :=
  let t := logTotals st.log (bucketIdx st.t0 st.now)
  if t = ist.w ∧ ist.h.total = t.sum ∧ ist.h.accepts = t.succ then r
  else r.violation sec line s!"window shows sum/succ/fail/drop={bucketStr ist.w} history accepts/total={ist.h.accepts}/{ist.h.total} but the calls of the preceding 10s window are {bucketStr t}"

/-- The decisions the implementation may legitimately take on this call: the exact one first, then the
float-boundary alternatives (DESIGN section 2). -/
def candidates (b : Breaker) (now : Nat) (u : Rat) : List (Bool × Bool) × Bool × Bool :=
  let h := b.history now
  let thr := decide (0 < dropRatio0 h)
  let c1b := h.accepts > 0 ∧ dropNum h = 0
  let dr1 := dropRatio1 h
  let less := decide (u < dr1)
  let c3b := decide (ratAbs (u - dr1) * 1000000000 ≤ ratAbs dr1)
  let thrs := if c1b then [thr, !thr] else [thr]
  let lesses := if c3b then [less, !less] else [less]
  (thrs.flatMap fun t => lesses.map fun l => (t, l), decide c1b, c3b)

def gapClass (dt : Nat) : String :=
  if dt = 0 then "gap=0" else if dt = 1 then "gap=1ns"
  else if dt + 1 = intervalNs then "gap=bucket-1" else if dt = intervalNs then "gap=bucket"
  else if dt = intervalNs + 1 then "gap=bucket+1"
  else if dt < intervalNs then "gap<bucket"
  else if dt + 1 = forcePassNs then "gap=1s-1" else if dt = forcePassNs then "gap=1s" else if dt = forcePassNs + 1 then "gap=1s+1"
  else if dt + 1 = windowNs then "gap=10s-1" else if dt = windowNs then "gap=10s" else if dt = windowNs + 1 then "gap=10s+1"
  else if dt < windowNs then "gap<10s" else "gap>10s"

/-- monitor clauses shared by `do` and `allow` once the implementation's verdict is known -/
def monitorVerdict (r : Report) (sec line : Nat) (st : DState) (u : Rat) (rejected : Bool) (implLp : Nat) : Report × Option Nat := Id.run do
  let mut r := r
  let mut ghost := st.ghost
  if rejected then
    if ¬ overThreshold st.mh then
      r := r.violation sec line s!"rejected although non-accepted <= 5 + 10% of accepted: total={st.mh.total} accepts={st.mh.accepts}"
    if probeDue st.ghost st.now then
      r := r.violation sec line s!"rejected more than 1s after the previous throttled admission (at {st.ghost.getD 0}, now {st.now})"
  else
    if totalFailure st.mh ∧ ¬ probeDue st.ghost st.now ∧ u * 1000000001 < totalFailureRatio st.mh.total * 1000000000 then
      r := r.violation sec line s!"admitted under total failure with a draw below (n-5)/(n+1): total={st.mh.total}"
    let dn := dropNum st.mh
    if 0 < dn then ghost := some st.now
    else if dn = 0 ∧ st.mh.accepts > 0 ∧ implLp = st.now then ghost := some st.now
  return (r, ghost)

def runLine (sec : Nat) (acc : Report × DState) (l : Line) : Report × DState := Id.run do
  let (r0, st) := acc
  let mut r := { r0 with ops := r0.ops + 1 }
  let impl := joinSp l.obs
  let bad (r : Report) : Report × DState := (r.mismatch sec l.idx "bad-op" (joinSp l.op), st)
  match l.op with
  | ["t+", dts] =>
    match dts.toNat? with
    | none => return bad r
    | some dt =>
      let now := st.now + dt
      r := r.addCover (gapClass dt)
      if st.b.lastPass > 0 then
        if now - st.b.lastPass = forcePassNs then r := r.addCover "since-lastpass=1s"
        if now - st.b.lastPass = forcePassNs + 1 then r := r.addCover "since-lastpass=1s+1"
      let model := stateStr st.b now
      if model ≠ impl then r := r.mismatch sec l.idx model impl
      let st' := match parseState l.obs with
        | some is => { st with now := now }.observe is
        | none => { st with now := now }
      match parseState l.obs with
      | none => r := r.mismatch sec l.idx "unparsable-state" impl
      | some is => r := checkWindow r sec l.idx st' is
      return (r, st')
  | ["dump"] =>
    let vis := st.b.rw.visible st.now
    let items := (List.range vis.length).filterMap fun i =>
      let bk := vis.getD i {}
      if bk = {} then none else some s!"{i}:{bucketStr bk}"
    let model := joinSp (s!"n={vis.length}" :: items)
    r := r.addCover "dump"
    if model ≠ impl then r := r.mismatch sec l.idx model impl
    return (r, st)
  | [kind, is] =>
    if kind ≠ "accept" ∧ kind ≠ "reject" then return bad r
    match is.toNat? with
    | none => return bad r
    | some i =>
      let has := st.allows.getD i false
      let m : Mark := if kind = "accept" then .succ else .fail
      let b' := if has then st.b.mark st.now m else st.b
      let model := (if has then "ok " else "nopromise ") ++ stateStr b' st.now
      r := r.addCover (if has then s!"promise-{kind}" else "promise-absent")
      if model ≠ impl then r := r.mismatch sec l.idx model impl
      match parseState l.obs with
      | none => return (r.mismatch sec l.idx "unparsable-state" impl, { st with b := b' })
      | some ist =>
        -- monitor: a resolved promise is recorded exactly once, as success (Accept) or failure (Reject)
        if l.obs.head? = some "ok" then
          let want : Bucket := if kind = "accept" then { sum := 1, succ := 1 } else { sum := 1, fail := 1 }
          if bucketDelta ist.w st.mw ≠ some want then
            r := r.violation sec l.idx s!"promise {kind} recorded as {bucketStr ((bucketDelta ist.w st.mw).getD {})} instead of {bucketStr want}"
        let st1 := if l.obs.head? = some "ok" then st.record m else st
        r := checkWindow r sec l.idx st1 ist
        return (r, { st1 with b := b' }.observe ist)
  | ["do", es, os, cs, us] =>
    match parseEntry es, parseOutcome os, parseCtx (kvStr [cs] "ctx"), (kvStr [us] "u").toNat? with
    | some e, some o, some ctx, some m =>
      let u : Rat := (m : Rat) / (twoPow53 : Rat)
      r := r.addCover s!"do-{es}-{os}"
      if ctx = .done then
        let model := callStr ctxDoneEvents false ++ " " ++ stateStr st.b st.now
        r := r.addCover "ctx-done"
        if model ≠ impl then r := r.mismatch sec l.idx model impl
        match parseState l.obs with
        | none => return (r.mismatch sec l.idx "unparsable-state" impl, st)
        | some ist =>
          let c : CallObs := { reqRuns := kvNat l.obs "req" 99, fbRuns := kvNat l.obs "fb" 99,
                               ret := (parseRet (kvStr l.obs "ret")).getD .nil, panicked := kvStr l.obs "panic" ≠ "0",
                               marks := (bucketDelta ist.w st.mw).getD ⟨99, 0, 0, 0⟩ }
          if ¬ ctxDoneOk c then r := r.violation sec l.idx s!"call with a done context: [{impl}]"
          r := checkWindow r sec l.idx st ist
          return (r, st.observe ist)
      else
        if ctx = .live then r := r.addCover "ctx-live"
        let (cands, c1b, c3b) := candidates st.b st.now u
        let run (d : Bool × Bool) : String × Breaker × Path :=
          let p := acceptPath st.b.lastPass st.now d.1 d.2
          let evs := doReqEvents p.verdict e o
          let b2 := (st.b.applyPath st.now p).applyMarks st.now (marksOf evs)
          (callStr evs p.draws ++ " " ++ stateStr b2 st.now, b2, p)
        let results := cands.map run
        let chosen := match results.find? (·.1 = impl) with
          | some x => x
          | none => results.headD ("", st.b, .free)
        if chosen.1 ≠ impl then r := r.mismatch sec l.idx chosen.1 impl
        let p := chosen.2.2
        r := r.addCover s!"path-{repr p}"
        if c1b then r := r.addCover "boundary-dropRatio=0"
        if c3b ∧ p.draws then r := r.addCover "boundary-draw=ratio"
        if totalFailure (st.b.history st.now) then r := r.addCover "state-total-failure"
        match parseState l.obs with
        | none => return (r.mismatch sec l.idx "unparsable-state" impl, { st with b := chosen.2.1 })
        | some ist =>
          let c : CallObs := { reqRuns := kvNat l.obs "req" 99, fbRuns := kvNat l.obs "fb" 99,
                               ret := (parseRet (kvStr l.obs "ret")).getD .nil, panicked := kvStr l.obs "panic" ≠ "0",
                               marks := (bucketDelta ist.w st.mw).getD ⟨99, 0, 0, 0⟩ }
          let rejected := c.reqRuns = 0
          if rejected then
            if ¬ rejectedOk e c then r := r.violation sec l.idx s!"rejected call not accounted exactly: [{impl}]"
            if e.hasFallback ∧ kvStr l.obs "fbarg" ≠ "unavail" then
              r := r.violation sec l.idx s!"fallback did not receive ErrServiceUnavailable: [{impl}]"
          else
            if ¬ admittedOk e o c ∨ (o ≠ .panic ∧ (parseRet (kvStr l.obs "ret")).isNone) then
              r := r.violation sec l.idx s!"admitted call not accounted exactly ({es} {os}): [{impl}]"
          let (r', ghost) := monitorVerdict r sec l.idx st u rejected ist.lp
          let st1 := st.record (if rejected then .drop else if acceptable e.custom o then .succ else .fail)
          return (checkWindow r' sec l.idx st1 ist, { st1 with b := chosen.2.1, ghost := ghost }.observe ist)
    | _, _, _, _ => return bad r
  | ["allow", cs, us] =>
    match parseCtx (kvStr [cs] "ctx"), (kvStr [us] "u").toNat? with
    | some ctx, some m =>
      let u : Rat := (m : Rat) / (twoPow53 : Rat)
      if ctx = .done then
        let model := "v=ctx drew=0 " ++ stateStr st.b st.now
        r := r.addCover "allow-ctx-done"
        if model ≠ impl then r := r.mismatch sec l.idx model impl
        match parseState l.obs with
        | none => return (r.mismatch sec l.idx "unparsable-state" impl, { st with allows := st.allows.push false })
        | some ist =>
          if bucketDelta ist.w st.mw ≠ some {} ∨ kvStr l.obs "v" ≠ "ctx" then
            r := r.violation sec l.idx s!"AllowCtx with a done context: [{impl}]"
          r := checkWindow r sec l.idx st ist
          return (r, { st with allows := st.allows.push false }.observe ist)
      else
        let (cands, c1b, c3b) := candidates st.b st.now u
        let run (d : Bool × Bool) : String × Breaker × Path :=
          let p := acceptPath st.b.lastPass st.now d.1 d.2
          let evs := allowEvents p.verdict
          let b2 := (st.b.applyPath st.now p).applyMarks st.now (marksOf evs)
          (s!"v={if p.verdict = .pass then "pass" else "reject"} drew={b01 p.draws} " ++ stateStr b2 st.now, b2, p)
        let results := cands.map run
        let chosen := match results.find? (·.1 = impl) with
          | some x => x
          | none => results.headD ("", st.b, .free)
        if chosen.1 ≠ impl then r := r.mismatch sec l.idx chosen.1 impl
        let p := chosen.2.2
        r := r.addCover s!"allow-{repr p}"
        if c1b then r := r.addCover "boundary-dropRatio=0"
        if c3b ∧ p.draws then r := r.addCover "boundary-draw=ratio"
        match parseState l.obs with
        | none => return (r.mismatch sec l.idx "unparsable-state" impl, { st with b := chosen.2.1, allows := st.allows.push false })
        | some ist =>
          let v := kvStr l.obs "v"
          let rejected := v ≠ "pass"
          let want : Bucket := if rejected then { sum := 1, drop := 1 } else {}
          if bucketDelta ist.w st.mw ≠ some want ∨ (v ≠ "pass" ∧ v ≠ "reject") then
            r := r.violation sec l.idx s!"Allow not accounted exactly: [{impl}]"
          let (r', ghost) := monitorVerdict r sec l.idx st u rejected ist.lp
          let st1 := if rejected then st.record .drop else st
          return (checkWindow r' sec l.idx st1 ist,
            { st1 with b := chosen.2.1, allows := st.allows.push (decide (p.verdict = Verdict.pass)), ghost := ghost }.observe ist)
    | _, _ => return bad r
  | _ => return bad r

def runSection (r : Report) (s : Section) : Report :=
  let t0 := kvNat s.cfg "t0" 1
  (s.lines.foldl (runLine s.idx) (r, { b := Breaker.init t0, now := t0, t0 := t0 })).1

def driver (secs : List Section) : Report := secs.foldl runSection {}

end GoZero.C01
