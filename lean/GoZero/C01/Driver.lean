/-
C01 — driver: replays an implementation trace through the model (correspondence) and evaluates the
property monitor on what the implementation printed.

cfg:  t0=<ns>                      virtual time at which NewBreaker() ran
ops:  t+ <ns>                                               => <state>
      do <do|doacc|dofb|dofbacc> <ok|erra|erru|tnil|brk|wbrk|panic|panicerr|goexit> ctx=<none|live|deadline|cancelmid|done|expired> u=<m>
                                                            => req=<n> fb=<n> ret=<r> panic=<0|1|err|exit> fbarg=<a> drew=<0|1> <state>
      allow ctx=<none|live|deadline|cancelmid|done|expired> u=<m>  => v=<pass|reject|ctx> drew=<0|1> <state>
          (panic / panicerr / goexit: the request panics with a string, panics with an error value, calls runtime.Goexit —
           one row of the decision table (`Outcome.panic`), observed as panic=1 / err / exit: the very value must come out;
           tnil: a typed-nil error, not nil for the breaker; ctx deadline / cancelmid: a live context with a deadline far
           ahead / cancelled by the request itself while it runs — the call counts like any other; expired: a deadline in the
           past — like done, `ret=ctx` is the context's own error by identity)
      accept <i> | reject <i>     (i-th allow of the section) => ok <state> | nopromise <state>
      dump                                                  => n=<visited buckets> <i:sum/succ/fail/drop of the non-empty ones>
<state> = h=<accepts>/<total>/<failingBuckets>/<workingBuckets> w=<Σsum>/<Σsucc>/<Σfail>/<Σdrop> lp=<lastPass ns>
The draw is u = m / 2^53 (the harness scripts proba's source with Int63() = m·2^10, so Float64() is exactly u).
Request outcomes: ok | erra | erru | brk (the request's own ErrServiceUnavailable) | wbrk (an error wrapping it) | panic;
`ret=` names the request's error when it came back by identity (nil/erra/erru/brk/wbrk), else unavail/fbres/ctx/other.

      par g=<G> k=<K> fp=<fail%> mix=<seed> u=<m>            => calls=<n> succ=<a> fail=<b> rej=<c> bad=<anomalies> <state>
          (G goroutines x K calls on the one breaker, clock frozen; split taken from the observation, verdict schedule-free)
      site <site>[~variant] <class> p=<0|1|2|3> sf=<0|1> ua=<0|1> ig=<0|1> ctx=<none|live|deadline|cancelmid|done|expired> u=<m>
                                                            => req=<n> ret=<same|unavail|stunavail|http503|ctx|other|none> panic=<0|1|err|exit> drew=<0|1> <state>
          (~variant: another public entry point that delegates to the same breaker call — sqlx: nc = without context
           parameter, p = Partial scanner, rows = QueryRows on a statement; the model is the base site's)
          (one request through the real rest handler / zrpc interceptor / redis hook / sqlx connection; Sites.lean)
cfg kind=named: one breaker per name (breakers.go); every op but `t+` ends with name=<x> and its observation with
      oth=<Σ sum of the other names' windows>; `t+` prints `<name> <state> | …` for the names created so far.
      parfirst g=<G> k=<K> r=<R>  (named sections only)      => calls=<G*K> maxdistinct=<d> minrecorded=<m>
          (R rounds: G goroutines, released together, make the FIRST use of one fresh name — GetBreaker(name), then K
           successful Do(name, …) each; d = most different breakers handed out for one name in a round, m = fewest calls
           the breaker of the name had recorded at the end of a round.  `Registry.get`: whoever comes first creates the
           breaker, everybody else finds it — d = 1 and m = G*K under every schedule.)
cfg kind=rw size=<n> iv=<d>: a bare RollingWindow; ops t+ <ns> | add <succ|fail|drop> => n=<visited> w=<Σ>; dump.
cfg kind=race: `races => total=<n> known-errorwindow=<k> unknown=<u> [first=<frames>]`, the race detector's verdict.
-/
import GoZero.Base.Trace
import GoZero.C01.Spec
import GoZero.C01.Sites
namespace GoZero.C01
open GoZero

def twoPow53 : Nat := 9007199254740992

def parseEntry : String → Option Entry
  | "do" => some ⟨false, false⟩
  | "doacc" => some ⟨false, true⟩
  | "dofb" => some ⟨true, false⟩
  | "dofbacc" => some ⟨true, true⟩
  | _ => none

def parseOutcome : String → Option Outcome
  | "ok" => some .ok
  | "erra" => some .errA
  | "erru" => some .errU
  | "brk" => some .brk
  | "wbrk" => some .wbrk
  | "panic" => some .panic
  | "panicerr" => some .panic
  | "goexit" => some .panic
  | "tnil" => some .tnil
  | _ => none

/-- how the request of a `do` op unwinds (for the three outcome tokens that map to `Outcome.panic`) -/
def parseUnwind : String → Unwind
  | "panicerr" => .panicError
  | "goexit" => .goexit
  | _ => .panicValue

/-- `p=` of a site op: 0 returns, 1 / 2 / 3 = the three `Unwind` kinds -/
def parseP : String → Option (Option Unwind)
  | "0" => some none
  | "1" => some (some .panicValue)
  | "2" => some (some .panicError)
  | "3" => some (some .goexit)
  | _ => none

def retStr : Ret → String
  | .nil => "nil" | .errA => "erra" | .errU => "erru" | .brk => "brk" | .wbrk => "wbrk" | .unavailable => "unavail"
  | .fallbackResult => "fbres" | .ctxErr => "ctx" | .tnil => "tnil"

def parseRet : String → Option Ret
  | "nil" => some .nil | "erra" => some .errA | "erru" => some .errU | "brk" => some .brk | "wbrk" => some .wbrk
  | "unavail" => some .unavailable | "tnil" => some .tnil
  | "fbres" => some .fallbackResult | "ctx" => some .ctxErr | _ => none

inductive Ctx | none | live | done deriving DecidableEq

/-- `deadline` (far ahead) and `cancelmid` (cancelled by the request while it runs) are live when the entry point
looks at the context; `expired` (deadline in the past) is done -/
def parseCtx : String → Option Ctx
  | "none" => some .none | "live" => some .live | "deadline" => some .live | "cancelmid" => some .live
  | "done" => some .done | "expired" => some .done | _ => Option.none

def winStr (h : WinRes) : String := s!"{h.accepts}/{h.total}/{h.failingBuckets}/{h.workingBuckets}"
def bucketStr (w : Bucket) : String := s!"{w.sum}/{w.succ}/{w.fail}/{w.drop}"

def stateStr (b : Breaker) (now : Nat) : String :=
  s!"h={winStr (b.history now)} w={bucketStr (sumBuckets (b.rw.visible now))} lp={b.lastPass}"

def parse4 (s : String) : Option (Nat × Nat × Nat × Nat) :=
  match s.splitOn "/" with
  | [a, b, c, d] => do pure (← a.toNat?, ← b.toNat?, ← c.toNat?, ← d.toNat?)
  | _ => none

structure ImplState where
  h : WinRes
  w : Bucket
  lp : Nat

def parseState (obs : List String) : Option ImplState := do
  let (a, t, f, wk) ← parse4 (← kv? obs "h")
  let (s, su, fl, d) ← parse4 (← kv? obs "w")
  let lp ← (← kv? obs "lp").toNat?
  pure { h := ⟨a, t, f, wk⟩, w := ⟨s, su, fl, d⟩, lp := lp }

def b01 (b : Bool) : String := if b then "1" else "0"

def callStr (evs : List Ev) (drew : Bool) (uw : Unwind := .panicValue) : String :=
  let c := CallObs.ofEvents evs
  let ret := if c.panicked then "none" else retStr c.ret
  let fbarg := if c.fbRuns > 0 then "unavail" else "-"
  s!"req={c.reqRuns} fb={c.fbRuns} ret={ret} panic={if c.panicked then uw.obs else "0"} fbarg={fbarg} drew={b01 drew}"

/-- window-total increase between two printed states; `none` if a total went down -/
def bucketDelta (after before : Bucket) : Option Bucket :=
  if after.sum ≥ before.sum ∧ after.succ ≥ before.succ ∧ after.fail ≥ before.fail ∧ after.drop ≥ before.drop then
    some ⟨after.sum - before.sum, after.succ - before.succ, after.fail - before.fail, after.drop - before.drop⟩
  else none

def ratAbs (x : Rat) : Rat := if x < 0 then -x else x

structure DState where
  b : Breaker
  now : Nat
  allows : Array Bool := #[]      -- per `allow` op of the section: is there an unresolved-able promise
  -- monitor side: what the implementation printed last, and the ghost "last throttled admission"
  mh : WinRes := {}
  mw : Bucket := {}
  ghost : Option Nat := none
  t0 : Nat := 0
  log : List (Nat × Mark) := []   -- what each call should have recorded, with its aligned bucket index

def DState.record (st : DState) (m : Mark) : DState :=
  let cur := bucketIdx st.t0 st.now
  { st with log := (cur, m) :: st.log.filter fun e => inWindow cur e.1 }

/-- the implementation printed a state: remember it; window totals used by the admission law come from the
monitor's own log (`fb`/`wb` are only needed for the weight between 1.1 and 1.5 and are taken as printed). -/
def DState.observe (st : DState) (ist : ImplState) : DState :=
  let t := logTotals st.log (bucketIdx st.t0 st.now)
  { st with mh := { ist.h with total := t.sum, accepts := t.succ }, mw := ist.w }

/-- the window the implementation shows must be the calls of the preceding 10 s -/
def checkWindow (r : Report) (sec line : Nat) (st : DState) (ist : ImplState) : Report :=
  let t := logTotals st.log (bucketIdx st.t0 st.now)
  if t = ist.w ∧ ist.h.total = t.sum ∧ ist.h.accepts = t.succ then r
  else r.violation sec line s!"window shows sum/succ/fail/drop={bucketStr ist.w} history accepts/total={ist.h.accepts}/{ist.h.total} but the calls of the preceding 10s window are {bucketStr t}"

/-- The decisions the implementation may legitimately take on this call: the exact one first, then the
float-boundary alternatives (DESIGN section 2). -/
def candidates (b : Breaker) (now : Nat) (u : Rat) : List (Bool × Bool) × Bool × Bool :=
  let h := b.history now
  let thr := decide (0 < dropRatio0 h)
  let c1b := h.accepts > 0 ∧ dropNum h = 0
  let dr1 := dropRatio1 h
  let less := decide (u < dr1)
  let c3b := decide (ratAbs (u - dr1) * 1000000000 ≤ ratAbs dr1)
  let thrs := if c1b then [thr, !thr] else [thr]
  let lesses := if c3b then [less, !less] else [less]
  (thrs.flatMap fun t => lesses.map fun l => (t, l), decide c1b, c3b)

def gapClass (dt : Nat) : String :=
  if dt = 0 then "gap=0" else if dt = 1 then "gap=1ns"
  else if dt + 1 = intervalNs then "gap=bucket-1" else if dt = intervalNs then "gap=bucket"
  else if dt = intervalNs + 1 then "gap=bucket+1"
  else if dt < intervalNs then "gap<bucket"
  else if dt + 1 = forcePassNs then "gap=1s-1" else if dt = forcePassNs then "gap=1s" else if dt = forcePassNs + 1 then "gap=1s+1"
  else if dt + 1 = windowNs then "gap=10s-1" else if dt = windowNs then "gap=10s" else if dt = windowNs + 1 then "gap=10s+1"
  else if dt < windowNs then "gap<10s" else "gap>10s"

/-- monitor clauses shared by `do` and `allow` once the implementation's verdict is known -/
def monitorVerdict (r : Report) (sec line : Nat) (st : DState) (u : Rat) (rejected : Bool) (implLp : Nat) : Report × Option Nat := Id.run do
  let mut r := r
  let mut ghost := st.ghost
  if rejected then
    if ¬ overThreshold st.mh then
      r := r.violation sec line s!"rejected although non-accepted <= 5 + 10% of accepted: total={st.mh.total} accepts={st.mh.accepts}"
    if probeDue st.ghost st.now then
      r := r.violation sec line s!"rejected more than 1s after the previous throttled admission (at {st.ghost.getD 0}, now {st.now})"
  else
    if totalFailure st.mh ∧ ¬ probeDue st.ghost st.now ∧ u * 1000000001 < totalFailureRatio st.mh.total * 1000000000 then
      r := r.violation sec line s!"admitted under total failure with a draw below (n-5)/(n+1): total={st.mh.total}"
    let dn := dropNum st.mh
    if 0 < dn then ghost := some st.now
    else if dn = 0 ∧ st.mh.accepts > 0 ∧ implLp = st.now then ghost := some st.now
  return (r, ghost)

/-! ## call sites: parsing -/

def parseSite : String → Option Site
  | "rest" => some .rest | "zclient" => some .zrpcClient | "zsunary" => some .zrpcServerUnary
  | "zsstream" => some .zrpcServerStream | "rproc" => some .redisProcess | "rpipe" => some .redisPipeline
  | "sqlexec" => some .sqlx | "sqlprep" => some .sqlx | "sqltx" => some .sqlx | "sqlquery" => some .sqlxQuery
  | "sqlstexec" => some .sqlx | "sqlstquery" => some .sqlxQuery | "sqlqueryrows" => some .sqlxQuery
  | _ => none

/-- `site~variant`: a delegating entry point of the same site (the non-Ctx forwards, the Partial scanners) -/
def siteBase (ss : String) : String := (ss.splitOn "~").headD ss

/-- classes of the harness; a `w…`/`gw…` class is the same error wrapped with `%w` -/
def parseErrClass (c : String) : Option ErrClass :=
  match c with
  | "nil" => some .none
  | "deadline" | "wdeadline" => some .ctxDeadline
  | "canceled" | "wcanceled" => some .ctxCanceled
  | "brkopen" | "wbrkopen" => some .brkOpen
  | "rnil" | "wrnil" => some .redisNil
  | "norows" | "wnorows" => some .sqlNoRows
  | "txdone" | "wtxdone" => some .sqlTxDone
  | "accerr" | "waccerr" => some .sqlAcceptable
  | "custom" => some (.custom 0)
  | "custom2" => some (.custom 1)
  | "other" | "wother" | "conv" => some .other
  | _ =>
    if c.startsWith "gw" then (c.drop 2).toNat?.map .grpc
    else if c.startsWith "g" then (c.drop 1).toNat?.map .grpc
    else none

def parseSiteReq (s : Site) (cls p sf ua : String) : Option SiteReq :=
  match parseP p with
  | none => none
  | some uw =>
    if s = .rest then
      if cls.startsWith "h" then
        (cls.drop 1).toNat?.map fun n => { code := if n = 0 then 200 else n, panics := uw.isSome }
      else none
    else
      match parseErrClass cls, ua.toNat? with
      | some e, some n => some { err := e, panics := uw.isSome, fromScan := decide (s = .sqlxQuery) && sf = "1", userAccepts := n }
      | _, _ => none

def siteRetStr : SiteRet → String
  | .same => "same" | .unavailable => "unavail" | .statusUnavailable => "stunavail" | .http503 => "http503" | .ctxErr => "ctx"

def siteCallStr (evs : List SEv) (drew : Bool) (uw : Unwind := .panicValue) : String :=
  let panicked := evs.contains .repanicked
  let ret := if panicked then "none" else
    (evs.findSome? fun | .returned r => some (siteRetStr r) | _ => none).getD "none"
  s!"req={evs.count .ranReq} ret={ret} panic={if panicked then uw.obs else "0"} drew={b01 drew}"

/-! ## one call through `accept()` (shared by `do`, `allow` and `site` ops) -/

structure CallSpec where
  /-- the model's observation of the call itself (without the state), given the path through `accept()` -/
  modelStr : Path → String
  /-- what the model records -/
  marks : Path → List Mark
  /-- is the implementation's observation a rejection -/
  implRejected : List String → Bool
  /-- exact-accounting clause of the property on the implementation's observation: a message if violated -/
  check : (rejected : Bool) → (obs : List String) → (delta : Option Bucket) → Option String
  /-- what the call should have recorded (for the monitor's own log); `none` = nothing (admitted `Allow`) -/
  expected : (rejected : Bool) → Option Mark
  cover : Path → String

def runCall (sec : Nat) (r : Report) (l : Line) (st : DState) (u : Rat) (cs : CallSpec) : Report × DState × Path := Id.run do
  let mut r := r
  let impl := joinSp l.obs
  let (cands, c1b, c3b) := candidates st.b st.now u
  let run (d : Bool × Bool) : String × Breaker × Path :=
    let p := acceptPath st.b.lastPass st.now d.1 d.2
    let b2 := (st.b.applyPath st.now p).applyMarks st.now (cs.marks p)
    (cs.modelStr p ++ " " ++ stateStr b2 st.now, b2, p)
  let results := cands.map run
  let chosen := match results.find? (·.1 = impl) with
    | some x => x
    | none => results.headD ("", st.b, .free)
  if chosen.1 ≠ impl then r := r.mismatch sec l.idx chosen.1 impl
  let p := chosen.2.2
  r := r.addCover (cs.cover p)
  if c1b then r := r.addCover "boundary-dropRatio=0"
  if c3b ∧ p.draws then r := r.addCover "boundary-draw=ratio"
  if totalFailure (st.b.history st.now) then r := r.addCover "state-total-failure"
  match parseState l.obs with
  | none => return (r.mismatch sec l.idx "unparsable-state" impl, { st with b := chosen.2.1 }, p)
  | some ist =>
    let rejected := cs.implRejected l.obs
    match cs.check rejected l.obs (bucketDelta ist.w st.mw) with
    | some msg => r := r.violation sec l.idx msg
    | none => pure ()
    let (r', ghost) := monitorVerdict r sec l.idx st u rejected ist.lp
    let st1 := match cs.expected rejected with
      | some m => st.record m
      | none => st
    return (checkWindow r' sec l.idx st1 ist, { st1 with b := chosen.2.1, ghost := ghost }.observe ist, p)

def obsCallObs (obs : List String) (delta : Option Bucket) : CallObs :=
  { reqRuns := kvNat obs "req" 99, fbRuns := kvNat obs "fb" 99,
    ret := (parseRet (kvStr obs "ret")).getD .nil, panicked := kvStr obs "panic" ≠ "0",
    marks := delta.getD ⟨99, 0, 0, 0⟩ }

def doSpec (e : Entry) (o : Outcome) (es os : String) : CallSpec :=
  let uw := parseUnwind os
  { modelStr := fun p => callStr (doReqEvents p.verdict e o) p.draws uw
    marks := fun p => marksOf (doReqEvents p.verdict e o)
    implRejected := fun obs => kvNat obs "req" 99 = 0
    check := fun rejected obs delta =>
      let c := obsCallObs obs delta
      let impl := joinSp obs
      if rejected then
        if ¬ rejectedOk e c then some s!"rejected call not accounted exactly: [{impl}]"
        else if e.hasFallback ∧ kvStr obs "fbarg" ≠ "unavail" then some s!"fallback did not receive ErrServiceUnavailable: [{impl}]"
        else none
      else
        if ¬ admittedOk e o c ∨ (o ≠ .panic ∧ (parseRet (kvStr obs "ret")).isNone) then
          some s!"admitted call not accounted exactly ({es} {os}): [{impl}]"
        else if o = .panic ∧ kvStr obs "panic" ≠ uw.obs then
          some s!"admitted call ({es} {os}): the request's {if uw = .goexit then "Goexit" else "panic value"} did not come out unchanged (panic={uw.obs} expected): [{impl}]"
        else none
    expected := fun rejected => some (if rejected then .drop else if acceptable e.custom o then .succ else .fail)
    cover := fun p => s!"path-{repr p}" }

def allowSpec : CallSpec :=
  { modelStr := fun p => s!"v={if p.verdict = .pass then "pass" else "reject"} drew={b01 p.draws}"
    marks := fun p => marksOf (allowEvents p.verdict)
    implRejected := fun obs => kvStr obs "v" ≠ "pass"
    check := fun rejected obs delta =>
      let v := kvStr obs "v"
      let want : Bucket := if rejected then { sum := 1, drop := 1 } else {}
      if delta ≠ some want ∨ (v ≠ "pass" ∧ v ≠ "reject") then some s!"Allow not accounted exactly: [{joinSp obs}]" else none
    expected := fun rejected => if rejected then some .drop else none
    cover := fun p => s!"allow-{repr p}" }

/-- the mark an admitted request must leave at a site: by the site's predicate; a panic is a failure except at
`rest`, where the deferred function looks only at the recorded status code -/
def siteAdmitMark (s : Site) (q : SiteReq) : Mark :=
  if s ≠ .rest ∧ q.panics then .fail else if s.pred q then .succ else .fail

def siteSpec (s : Site) (q : SiteReq) (ss cls : String) (uw : Unwind := .panicValue) : CallSpec :=
  { modelStr := fun p => siteCallStr (siteEvents s p.verdict q) p.draws uw
    marks := fun p => smarksOf (siteEvents s p.verdict q)
    implRejected := fun obs => kvNat obs "req" 99 = 0
    check := fun rejected obs delta =>
      let impl := joinSp obs
      let ret := kvStr obs "ret"
      let pn := kvStr obs "panic"
      if rejected then
        if delta ≠ some { sum := 1, drop := 1 } ∨ ret ≠ siteRetStr s.rejectRet ∨ pn ≠ "0" then
          some s!"site {ss}: rejected request not accounted exactly (one drop, request not run, {siteRetStr s.rejectRet}): [{impl}]"
        else none
      else
        let m := siteAdmitMark s q
        let want : Bucket := if m = .succ then { sum := 1, succ := 1 } else { sum := 1, fail := 1 }
        let wantRet := if q.panics then "none" else siteRetStr (s.admitRet q)
        if kvNat obs "req" 99 ≠ 1 ∨ delta ≠ some want ∨ ret ≠ wantRet ∨ pn ≠ (if q.panics then uw.obs else "0") then
          some s!"site {ss} {cls}: admitted request not resolved exactly once as {if m = .succ then "Accept" else "Reject"} by the site's predicate: [{impl}]"
        else none
    expected := fun rejected => some (if rejected then .drop else siteAdmitMark s q)
    cover := fun p => s!"site-{ss}-{if p.verdict = .reject then "rejected" else if siteAdmitMark s q = .succ then "accept" else "reject-mark"}" }

/-- a call that never reaches `accept()`: done context, or a command the site passes around the breaker -/
def runUntouched (sec : Nat) (r : Report) (l : Line) (st : DState) (model : String) (what : String)
    (ok : List String → Bool) : Report × DState := Id.run do
  let mut r := r
  let impl := joinSp l.obs
  let model := model ++ " " ++ stateStr st.b st.now
  if model ≠ impl then r := r.mismatch sec l.idx model impl
  match parseState l.obs with
  | none => return (r.mismatch sec l.idx "unparsable-state" impl, st)
  | some ist =>
    if bucketDelta ist.w st.mw ≠ some {} ∨ ¬ ok l.obs then
      r := r.violation sec l.idx s!"{what}: [{impl}]"
    r := checkWindow r sec l.idx st ist
    return (r, st.observe ist)

/-! ## concurrent phase -/

/-- `par g=<G> k=<K> mix=<seed> u=<m>`: G goroutines make K calls each on the one breaker while the clock stands
still.  The split admitted/rejected depends on the schedule and is taken from the observation; everything the
property says is checked on it: every call accounted exactly once, no lost update, rejections only over threshold. -/
def runPar (sec : Nat) (r : Report) (l : Line) (st : DState) : Report × DState := Id.run do
  let mut r := r
  let impl := joinSp l.obs
  let g := kvNat l.op "g" 0
  let k := kvNat l.op "k" 0
  let calls := kvNat l.obs "calls" 0
  let ns := kvNat l.obs "succ" 0
  let nf := kvNat l.obs "fail" 0
  let nr := kvNat l.obs "rej" 0
  let bad := kvNat l.obs "bad" 1
  r := r.addCover "par"
  if nr > 0 then r := r.addCover "par-with-rejections"
  if nr > 0 ∧ ns + nf > 0 then r := r.addCover "par-mixed-verdicts"
  let ms := List.replicate ns Mark.succ ++ List.replicate nf Mark.fail ++ List.replicate nr Mark.drop
  match parseState l.obs with
  | none => return (r.mismatch sec l.idx "unparsable-state" impl, st)
  | some ist =>
    let b1 := st.b.applyMarks st.now ms
    let b2 : Breaker := if ist.lp = st.now then { b1 with lastPass := st.now } else b1
    let model := s!"calls={g * k} succ={ns} fail={nf} rej={nr} bad=0 " ++ stateStr b2 st.now
    if model ≠ impl then r := r.mismatch sec l.idx model impl
    if bad ≠ 0 ∨ calls ≠ g * k ∨ ns + nf + nr ≠ calls then
      r := r.violation sec l.idx s!"concurrent phase: calls not accounted exactly once by their callers: [{impl}]"
    if bucketDelta ist.w st.mw ≠ some ⟨calls, ns, nf, nr⟩ then
      r := r.violation sec l.idx s!"concurrent phase: window grew by {bucketStr ((bucketDelta ist.w st.mw).getD {})} but the {calls} calls made were {ns} successes, {nf} failures, {nr} rejections (lost or duplicated update)"
    -- a rejection needs a snapshot over the threshold: non-accepted never exceeds its final value, accepted never
    -- goes below its initial value while the clock stands still
    let hi : WinRes := { st.mh with total := st.mh.total + calls - ns }
    if nr > 0 ∧ ¬ overThreshold hi then
      r := r.violation sec l.idx s!"concurrent phase: {nr} rejections although non-accepted <= 5 + 10% of accepted throughout: start total={st.mh.total} accepts={st.mh.accepts} calls={calls}"
    if nr > 0 ∧ probeDue st.ghost st.now ∧ ns + nf = 0 then
      r := r.violation sec l.idx s!"concurrent phase: every call rejected more than 1s after the previous throttled admission (at {st.ghost.getD 0}, now {st.now})"
    if ist.lp ≠ st.b.lastPass ∧ ist.lp ≠ st.now then
      r := r.violation sec l.idx s!"concurrent phase: lastPass moved to {ist.lp}, not to the time of the phase {st.now}"
    let st1 := ms.foldl (fun s m => s.record m) st
    let ghost := if ist.lp = st.now then some st.now else st.ghost
    return (checkWindow r sec l.idx st1 ist, { st1 with b := b2, ghost := ghost }.observe ist)

/-! ## one line of a breaker section -/

def runLine (sec : Nat) (acc : Report × DState) (l : Line) : Report × DState := Id.run do
  let (r0, st) := acc
  let mut r := { r0 with ops := r0.ops + 1 }
  let impl := joinSp l.obs
  let bad (r : Report) : Report × DState := (r.mismatch sec l.idx "bad-op" (joinSp l.op), st)
  match l.op with
  | ["t+", dts] =>
    match dts.toNat? with
    | none => return bad r
    | some dt =>
      let now := st.now + dt
      r := r.addCover (gapClass dt)
      if st.b.lastPass > 0 then
        if now - st.b.lastPass = forcePassNs then r := r.addCover "since-lastpass=1s"
        if now - st.b.lastPass = forcePassNs + 1 then r := r.addCover "since-lastpass=1s+1"
      let model := stateStr st.b now
      if model ≠ impl then r := r.mismatch sec l.idx model impl
      let st' := match parseState l.obs with
        | some is => { st with now := now }.observe is
        | none => { st with now := now }
      match parseState l.obs with
      | none => r := r.mismatch sec l.idx "unparsable-state" impl
      | some is => r := checkWindow r sec l.idx st' is
      return (r, st')
  | ["dump"] =>
    let vis := st.b.rw.visible st.now
    let items := (List.range vis.length).filterMap fun i =>
      let bk := vis.getD i {}
      if bk = {} then none else some s!"{i}:{bucketStr bk}"
    let model := joinSp (s!"n={vis.length}" :: items)
    r := r.addCover "dump"
    if model ≠ impl then r := r.mismatch sec l.idx model impl
    return (r, st)
  | [kind, is] =>
    if kind ≠ "accept" ∧ kind ≠ "reject" then return bad r
    match is.toNat? with
    | none => return bad r
    | some i =>
      let has := st.allows.getD i false
      let m : Mark := if kind = "accept" then .succ else .fail
      let b' := if has then st.b.mark st.now m else st.b
      let model := (if has then "ok " else "nopromise ") ++ stateStr b' st.now
      r := r.addCover (if has then s!"promise-{kind}" else "promise-absent")
      if model ≠ impl then r := r.mismatch sec l.idx model impl
      match parseState l.obs with
      | none => return (r.mismatch sec l.idx "unparsable-state" impl, { st with b := b' })
      | some ist =>
        -- monitor: a resolved promise is recorded exactly once, as success (Accept) or failure (Reject)
        if l.obs.head? = some "ok" then
          let want : Bucket := if kind = "accept" then { sum := 1, succ := 1 } else { sum := 1, fail := 1 }
          if bucketDelta ist.w st.mw ≠ some want then
            r := r.violation sec l.idx s!"promise {kind} recorded as {bucketStr ((bucketDelta ist.w st.mw).getD {})} instead of {bucketStr want}"
        let st1 := if l.obs.head? = some "ok" then st.record m else st
        r := checkWindow r sec l.idx st1 ist
        return (r, { st1 with b := b' }.observe ist)
  | ["do", es, os, cs, us] =>
    match parseEntry es, parseOutcome os, parseCtx (kvStr [cs] "ctx"), (kvStr [us] "u").toNat? with
    | some e, some o, some ctx, some m =>
      let u : Rat := (m : Rat) / (twoPow53 : Rat)
      r := r.addCover s!"do-{es}-{os}"
      r := r.addCover s!"do-ctx-{kvStr [cs] "ctx"}"
      if ctx = .done then
        r := r.addCover "ctx-done"
        return runUntouched sec r l st (callStr ctxDoneEvents false) "call with a done context"
          (fun obs => ctxDoneOk (obsCallObs obs (some {})))
      else
        if ctx = .live then r := r.addCover "ctx-live"
        let (r', st', _) := runCall sec r l st u (doSpec e o es os)
        return (r', st')
    | _, _, _, _ => return bad r
  | ["allow", cs, us] =>
    match parseCtx (kvStr [cs] "ctx"), (kvStr [us] "u").toNat? with
    | some ctx, some m =>
      let u : Rat := (m : Rat) / (twoPow53 : Rat)
      r := r.addCover s!"allow-ctx-{kvStr [cs] "ctx"}"
      if ctx = .done then
        r := r.addCover "allow-ctx-done"
        let (r', st') := runUntouched sec r l st "v=ctx drew=0" "AllowCtx with a done context" (fun obs => kvStr obs "v" = "ctx")
        return (r', { st' with allows := st'.allows.push false })
      else
        let (r', st', p) := runCall sec r l st u allowSpec
        return (r', { st' with allows := st'.allows.push (decide (p.verdict = Verdict.pass)) })
    | _, _ => return bad r
  | "site" :: ss :: cls :: ps :: sfs :: uas :: igs :: cs :: us :: _ =>
    match parseSite (siteBase ss), parseCtx (kvStr [cs] "ctx"), (kvStr [us] "u").toNat? with
    | some s, some ctx, some m =>
      match parseSiteReq s cls (kvStr [ps] "p") (kvStr [sfs] "sf") (kvStr [uas] "ua") with
      | none => return bad r
      | some q =>
        let u : Rat := (m : Rat) / (twoPow53 : Rat)
        let uw : Unwind := ((parseP (kvStr [ps] "p")).getD none).getD .panicValue
        let ss0 := siteBase ss
        r := r.addCover s!"site-{ss}"
        r := r.addCover s!"site-{ss0}-class-{cls}"
        r := r.addCover s!"site-{ss0}-ctx-{kvStr [cs] "ctx"}"
        if q.panics then r := r.addCover s!"site-{ss0}-unwind-{uw.obs}"
        if s = .rest then
          if kvStr [igs] "ig" = "1" then r := r.addCover "site-rest-writer-already-wrapped"
          if kvStr [sfs] "sf" = "1" then r := r.addCover "site-rest-body-written"
        if s = .redisProcess ∧ kvStr [igs] "ig" = "1" then
          -- ProcessHook passes `blpop` around the breaker: the request runs, nothing is consulted or recorded
          r := r.addCover "site-rproc-ignored-cmd"
          let model := if q.panics then s!"req=1 ret=none panic={uw.obs} drew=0" else "req=1 ret=same panic=0 drew=0"
          return runUntouched sec r l st model "command that bypasses the breaker" (fun obs => kvNat obs "req" 99 = 1)
        else if ctx = .done ∧ s.usesCtx then
          r := r.addCover s!"site-{ss}-ctx-done"
          return runUntouched sec r l st "req=0 ret=ctx panic=0 drew=0" s!"site {ss} with a done context"
            (fun obs => kvNat obs "req" 99 = 0 ∧ kvStr obs "ret" = "ctx" ∧ kvStr obs "panic" = "0")
        else
          let (r', st', _) := runCall sec r l st u (siteSpec s q ss cls uw)
          return (r', st')
    | _, _, _ => return bad r
  | "par" :: _ => return runPar sec r l st
  | _ => return bad r

/-! ## sections with one breaker per name (core/breaker/breakers.go) -/

structure NState where
  now : Nat
  names : List (String × DState) := []

def NState.find (ns : NState) (name : String) : Option DState := (ns.names.find? (·.1 = name)).map (·.2)

def NState.set (ns : NState) (name : String) (st : DState) : NState :=
  if ns.names.any (·.1 = name) then { ns with names := ns.names.map fun p => if p.1 = name then (name, st) else p }
  else { ns with names := ns.names ++ [(name, st)] }

/-- split `a <state> | b <state>` -/
def splitBar (toks : List String) : List (List String) :=
  let rec go (cur : List String) (acc : List (List String)) : List String → List (List String)
    | [] => (cur.reverse :: acc).reverse
    | "|" :: rest => go [] (cur.reverse :: acc) rest
    | t :: rest => go (t :: cur) acc rest
  go [] [] toks

def runNamedLine (sec : Nat) (acc : Report × NState) (l : Line) : Report × NState := Id.run do
  let (r0, ns) := acc
  let mut r := r0
  match l.op with
  | ["parfirst", gs, ks, rs] =>
    -- concurrent first use of a fresh name: one breaker per name (`Registry.get` creates once, then finds)
    r := { r with ops := r.ops + 1 }.addCover "named-concurrent-first-use"
    let calls := kvNat [gs] "g" 0 * kvNat [ks] "k" 0
    let model := s!"calls={calls} maxdistinct=1 minrecorded={calls}"
    let impl := joinSp l.obs
    if kvNat [rs] "r" 0 = 0 ∨ calls = 0 then return (r.mismatch sec l.idx "bad-op" (joinSp l.op), ns)
    if (kv? l.obs "maxdistinct").isNone ∨ (kv? l.obs "minrecorded").isNone ∨ kvNat l.obs "calls" 0 ≠ calls then
      return (r.mismatch sec l.idx model impl, ns)
    let d := kvNat l.obs "maxdistinct" 0
    let m := kvNat l.obs "minrecorded" 0
    if d ≠ 1 then
      r := r.violation sec l.idx s!"concurrent first use of one name: the goroutines were handed {d} different breakers for the same name (calls under one name must act on one breaker): [{impl}]"
    else if m ≠ calls then
      r := r.violation sec l.idx s!"concurrent first use of one name: the breaker of the name recorded {m} of the {calls} calls made under that name: [{impl}]"
    return (r, ns)
  | ["t+", dts] =>
    match dts.toNat? with
    | none => return ({ r with ops := r.ops + 1 }.mismatch sec l.idx "bad-op" (joinSp l.op), ns)
    | some dt =>
      let now := ns.now + dt
      if ns.names.isEmpty then
        r := { r with ops := r.ops + 1 }
        if l.obs ≠ ["ok"] then r := r.mismatch sec l.idx "ok" (joinSp l.obs)
        return (r, { ns with now := now })
      let parts := splitBar l.obs
      if parts.length ≠ ns.names.length then
        return ({ r with ops := r.ops + 1 }.mismatch sec l.idx s!"{ns.names.length} breakers" (joinSp l.obs), { ns with now := now })
      let mut ns' : NState := { ns with now := now }
      for (p, (name, st)) in parts.zip ns.names do
        if p.head? ≠ some name then r := r.mismatch sec l.idx name (joinSp p)
        let (r', st') := runLine sec (r, st) { l with obs := p.drop 1 }
        r := r'
        ns' := ns'.set name st'
      return (r, ns')
  | _ =>
    match l.op.getLast? with
    | none => return ({ r with ops := r.ops + 1 }.mismatch sec l.idx "bad-op" "", ns)
    | some last =>
      if ¬ last.startsWith "name=" then
        return ({ r with ops := r.ops + 1 }.mismatch sec l.idx "bad-op (name= missing)" (joinSp l.op), ns)
      let name := (last.drop 5).toString
      -- `GetBreaker(name)` creates the breaker on first use, at the current clock value
      let st : DState := match ns.find name with
        | some st => st
        | none => { b := Breaker.init ns.now, now := ns.now, t0 := ns.now }
      if (ns.find name).isNone then r := r.addCover "named-breaker-created"
      let others := ns.names.filter (·.1 ≠ name)
      let modelOth := others.foldl (fun a p => a + (sumBuckets (p.2.b.rw.visible ns.now)).sum) 0
      let monOth := others.foldl (fun a p => a + p.2.mw.sum) 0
      let obs := l.obs.filter fun t => ¬ t.startsWith "oth="
      let (r', st') := runLine sec (r, st) { l with op := l.op.dropLast, obs := obs }
      r := r'
      let implOth := kvNat l.obs "oth" 999999999
      if implOth ≠ modelOth then r := r.mismatch sec l.idx s!"oth={modelOth}" s!"oth={implOth}"
      -- an observation without `oth=` is unparsable (already a mismatch above), not a verdict on isolation
      if (kv? l.obs "oth").isSome ∧ implOth ≠ monOth then
        r := r.violation sec l.idx s!"a call on the breaker named {name} changed the window of a breaker with another name: others recorded {monOth} before, {implOth} after"
      if ¬ others.isEmpty then r := r.addCover "named-call-with-other-breakers"
      return (r, ns.set name st')

/-! ## sections on a bare RollingWindow of any size / interval -/

structure WState where
  w : RW
  now : Nat
  t0 : Nat
  log : List (Nat × Mark) := []

def logTotalsG (n : Nat) (log : List (Nat × Mark)) (cur : Nat) : Bucket :=
  (log.filter fun e => e.1 ≤ cur ∧ cur < e.1 + n).foldl (fun b e => b.add e.2) {}

def wStateStr (w : RW) (now : Nat) : String :=
  s!"n={(w.visible now).length} w={bucketStr (sumBuckets (w.visible now))}"

def parseMark : String → Option Mark
  | "succ" => some .succ | "fail" => some .fail | "drop" => some .drop | _ => none

def runWLine (sec : Nat) (acc : Report × WState) (l : Line) : Report × WState := Id.run do
  let (r0, st) := acc
  let mut r := { r0 with ops := r0.ops + 1 }
  let impl := joinSp l.obs
  let finish (r : Report) (st : WState) (model : String) : Report × WState := Id.run do
    let mut r := r
    if model ≠ impl then r := r.mismatch sec l.idx model impl
    -- monitor: what Reduce shows is what was added in the preceding `size` aligned buckets
    let cur := bucketIdxD st.w.interval st.t0 st.now
    let t := logTotalsG st.w.size st.log cur
    match parse4 (kvStr l.obs "w") with
    | some (a, b, c, d) =>
      if (⟨a, b, c, d⟩ : Bucket) ≠ t then
        r := r.violation sec l.idx s!"rolling window size={st.w.size} interval={st.w.interval} shows {a}/{b}/{c}/{d} but the values added in the preceding {st.w.size} buckets are {bucketStr t}"
    | none => r := r.mismatch sec l.idx "unparsable-window" impl
    return (r, st)
  match l.op with
  | ["t+", dts] =>
    match dts.toNat? with
    | none => return (r.mismatch sec l.idx "bad-op" (joinSp l.op), st)
    | some dt =>
      let st' := { st with now := st.now + dt }
      let q := dt / st.w.interval
      r := r.addCover (if dt = 0 then "rw-gap=0" else if q = 0 then "rw-gap<interval" else if q < st.w.size then "rw-gap<window"
        else if q = st.w.size then "rw-gap=window" else "rw-gap>window")
      return finish r st' (wStateStr st'.w st'.now)
  | ["add", ms] =>
    match parseMark ms with
    | none => return (r.mismatch sec l.idx "bad-op" (joinSp l.op), st)
    | some m =>
      let cur := bucketIdxD st.w.interval st.t0 st.now
      let st' := { st with w := st.w.add st.now m, log := (cur, m) :: st.log.filter fun e => e.1 ≤ cur ∧ cur < e.1 + st.w.size }
      r := r.addCover "rw-add"
      return finish r st' (wStateStr st'.w st'.now)
  | ["dump"] =>
    let vis := st.w.visible st.now
    let items := (List.range vis.length).filterMap fun i =>
      let bk := vis.getD i {}
      if bk = {} then none else some s!"{i}:{bucketStr bk}"
    let model := joinSp (s!"n={vis.length}" :: items)
    if model ≠ impl then r := r.mismatch sec l.idx model impl
    return (r, st)
  | _ => return (r.mismatch sec l.idx "bad-op" (joinSp l.op), st)

def runSection (r : Report) (s : Section) : Report :=
  let t0 := kvNat s.cfg "t0" 1
  match kvStr s.cfg "kind" with
  | "race" =>
    -- verdict of the Go race detector over the whole concurrent run (TestVerifC01Conc, built with -race)
    s.lines.foldl (fun r l =>
      let r := { r with ops := r.ops + 1 }.addCover "race-detector-verdict"
      let r := if kvNat l.obs "known-errorwindow" 0 > 0 then r.addCover "race-known-errorWindow.String" else r
      if l.op ≠ ["races"] then r.mismatch s.idx l.idx "races" (joinSp l.op)
      else if kvNat l.obs "unknown" 1 ≠ 0 then
        r.violation s.idx l.idx s!"data race between concurrent calls on one breaker: {kvStr l.obs "first"} ({joinSp l.obs})"
      else r) r
  | "named" => (s.lines.foldl (runNamedLine s.idx) (r.addCover "section-named", { now := t0 })).1
  | "rw" =>
    let size := kvNat s.cfg "size" 0
    let iv := kvNat s.cfg "iv" 0
    if size = 0 ∨ iv = 0 then r.mismatch s.idx 0 "rw section needs size>=1 iv>=1" (joinSp s.cfg)
    else
      let r := r.addCover (if size = 1 then "rw-size=1" else if size = 2 then "rw-size=2" else if size = 40 then "rw-size=40" else "rw-size-other")
      let r := r.addCover (if iv = 1 then "rw-interval=1ns" else "rw-interval>1ns")
      (s.lines.foldl (runWLine s.idx) (r, { w := RW.init size iv t0, now := t0, t0 := t0 })).1
  | _ => (s.lines.foldl (runLine s.idx) (r, { b := Breaker.init t0, now := t0, t0 := t0 })).1

def driver (secs : List Section) : Report := secs.foldl runSection {}

end GoZero.C01
