/-
C01 — the call sites that wrap the breaker (core Lean only):
  rest/handler/breakerhandler.go                          Allow + Promise, status < 500 is a success
  zrpc/internal/clientinterceptors/breakerinterceptor.go  breaker.DoWithAcceptableCtx(name, …, codes.Acceptable)
  zrpc/internal/serverinterceptors/breakerinterceptor.go  DoWithAcceptable(Ctx)(FullMethod, …, serverSideAcceptable) + convertError
  zrpc/internal/codes/accept.go                           the table of unacceptable gRPC codes
  core/stores/redis/breakerhook.go (+ redis.go acceptable) DoWithAcceptableCtx(…, nil | redis.Nil | context.Canceled)
  core/stores/sqlx/sqlconn.go                             DoWithAcceptableCtx(…, db.acceptable) and queryRows' scanFailed
  core/breaker/breakers.go                                one breaker per name
Each site is: which entry point it uses, which predicate over the request's result it hands to the breaker, and
how it maps the breaker's answer to its own caller.
-/
import GoZero.C01.Spec
namespace GoZero.C01

/-! ## what a wrapped request can produce -/

/-- classes of errors (an error wrapped with `%w` is in the class of what it wraps: all predicates below use
`errors.Is` / `errors.As` / `status.Code`, which unwrap) -/
inductive ErrClass
  | none                      -- nil
  | grpc (code : Nat)         -- carries a gRPC status with this code
  | ctxDeadline               -- context.DeadlineExceeded
  | ctxCanceled               -- context.Canceled
  | brkOpen                   -- breaker.ErrServiceUnavailable produced by the request itself (nested breaker)
  | redisNil                  -- redis.Nil
  | sqlNoRows | sqlTxDone     -- sql.ErrNoRows, sql.ErrTxDone
  | sqlAcceptable             -- sqlx.acceptableError (e.g. a scan error on unmarshalling)
  | custom (i : Nat)          -- the error that the i-th user-supplied sqlx `WithAcceptable` option accepts (and no other)
  | other                     -- anything else
  deriving Repr, DecidableEq, Inhabited

/-- gRPC code numbers (google.golang.org/grpc/codes) -/
def cDeadlineExceeded : Nat := 4
def cResourceExhausted : Nat := 8
def cUnimplemented : Nat := 12
def cInternal : Nat := 13
def cUnavailable : Nat := 14
def cDataLoss : Nat := 15
def cUnknown : Nat := 2

/-- `status.Code(err)`: OK for nil, the carried code for a status error, Unknown for everything else -/
def ErrClass.grpcCode : ErrClass → Nat
  | .none => 0
  | .grpc c => c
  | _ => cUnknown

/-- zrpc/internal/codes/accept.go: `switch status.Code(err) { case DeadlineExceeded, Internal, Unavailable,
DataLoss, Unimplemented, ResourceExhausted: false; default: true }` -/
def codeAcceptable (c : Nat) : Bool :=
  !(c = cDeadlineExceeded ∨ c = cInternal ∨ c = cUnavailable ∨ c = cDataLoss ∨ c = cUnimplemented ∨ c = cResourceExhausted)

/-- `errors.Is(err, <sentinel>)` for an error of this class; sentinels by their Go source names.  A gRPC status
error is none of them (`status.Error` does not unwrap to a context error). -/
def ErrClass.is (e : ErrClass) (sentinel : String) : Bool :=
  if sentinel = "context.DeadlineExceeded" then e = .ctxDeadline
  else if sentinel = "context.Canceled" then e = .ctxCanceled
  else if sentinel = "breaker.ErrServiceUnavailable" then e = .brkOpen
  else if sentinel = "red.Nil" then e = .redisNil
  else if sentinel = "sql.ErrNoRows" then e = .sqlNoRows
  else if sentinel = "sql.ErrTxDone" then e = .sqlTxDone
  else false

/-- `errors.As(err, &e)` with `e` of the named type -/
def ErrClass.as (e : ErrClass) (ty : String) : Bool := ty = "acceptableError" && e = .sqlAcceptable

/-- grpc code numbers by their names in google.golang.org/grpc/codes (outside /repo; the harness drives every
number 0..17 through the real `status.Code`) -/
def codeOfName (n : String) : Option Nat :=
  if n = "codes.OK" then some 0 else if n = "codes.Canceled" then some 1 else if n = "codes.Unknown" then some 2
  else if n = "codes.InvalidArgument" then some 3 else if n = "codes.DeadlineExceeded" then some 4
  else if n = "codes.NotFound" then some 5 else if n = "codes.AlreadyExists" then some 6
  else if n = "codes.PermissionDenied" then some 7 else if n = "codes.ResourceExhausted" then some 8
  else if n = "codes.FailedPrecondition" then some 9 else if n = "codes.Aborted" then some 10
  else if n = "codes.OutOfRange" then some 11 else if n = "codes.Unimplemented" then some 12
  else if n = "codes.Internal" then some 13 else if n = "codes.Unavailable" then some 14
  else if n = "codes.DataLoss" then some 15 else if n = "codes.Unauthenticated" then some 16 else none

inductive Site
  | rest                -- BreakerHandler
  | zrpcClient          -- clientinterceptors.BreakerInterceptor
  | zrpcServerUnary     -- serverinterceptors.UnaryBreakerInterceptor
  | zrpcServerStream    -- serverinterceptors.StreamBreakerInterceptor
  | redisProcess        -- breakerHook.ProcessHook
  | redisPipeline       -- breakerHook.ProcessPipelineHook
  | sqlx                -- commonSqlConn.ExecCtx / PrepareCtx / TransactCtx, statement.ExecCtx (predicate db.acceptable)
  | sqlxQuery           -- commonSqlConn.queryRows, statement.queryRows (predicate scanFailed || db.acceptable)
  deriving Repr, DecidableEq, Inhabited

/-- one request arriving at a site -/
structure SiteReq where
  err : ErrClass := .none     -- what the wrapped request returns (rest: ignored)
  code : Nat := 200           -- rest: the status code the next handler has written when it returns / panics
  panics : Bool := false      -- the wrapped request panics (after having written `code`)
  fromScan : Bool := false    -- sqlxQuery: `err` is what the row scanner returned (the query itself went through)
  userAccepts : Nat := 0      -- sqlx: number of `WithAcceptable` options installed (option i accepts exactly `.custom i`)
  deriving Repr, DecidableEq, Inhabited

/-! ### sqlx: `WithAcceptable` options, `db.acceptable`, `isScanFailed`, the local `scanFailed` -/

/-- `WithAcceptable(p)` applied to a connection whose `accept` field is `acc`: the first option is stored as is,
every further one is chained `pre(err) || p(err)` with the closure's OWN previous predicate -/
def withAcceptable (acc : Option (ErrClass → Bool)) (p : ErrClass → Bool) : Option (ErrClass → Bool) :=
  match acc with
  | none => some p
  | some pre => some fun e => pre e || p e

/-- the constructor's `for _, opt := range opts { opt(conn) }` on a connection created with `accept: nil` -/
def installOptions (ps : List (ErrClass → Bool)) : Option (ErrClass → Bool) := ps.foldl withAcceptable none

/-- the options of the harness: option `i` accepts exactly `.custom i` -/
def customOption (i : Nat) : ErrClass → Bool := fun e => e = .custom i

def userOptions (n : Nat) : List (ErrClass → Bool) := (List.range n).map customOption

/-- a possibly-nil predicate field applied to an error (`nil` is never called: the code tests it first) -/
def optEval (a : Option (ErrClass → Bool)) (e : ErrClass) : Bool :=
  match a with
  | some f => f e
  | none => false

/-- `commonSqlConn.acceptable` with the field `accept` -/
def dbAcceptable (accept : Option (ErrClass → Bool)) (e : ErrClass) : Bool :=
  if e = .none ∨ e = .sqlNoRows ∨ e = .sqlTxDone ∨ e = .ctxCanceled then true
  else if e = .sqlAcceptable then true
  else optEval accept e

/-- `db.acceptable` of a connection built by `NewSqlConn…(…, opts...)` with `q.userAccepts` options -/
def sqlAcceptable (q : SiteReq) : Bool := dbAcceptable (installOptions (userOptions q.userAccepts)) q.err

/-- orm.go `isScanFailed`: `err != nil && !errors.Is(err, context.DeadlineExceeded)` -/
def isScanFailed (e : ErrClass) : Bool := e ≠ .none && e ≠ .ctxDeadline

/-- the scanner wrapper of `queryRows` (sqlconn.go and stmt.go): `if isScanFailed(e) { scanFailed = true }` -/
def scanFailedAfter (prev : Bool) (e : ErrClass) : Bool := if isScanFailed e then true else prev

/-- value of the local `scanFailed` (declared `var scanFailed bool`) when the predicate runs: the wrapper ran iff the
query itself went through, and then saw the request's error -/
def scanFailedVar (q : SiteReq) : Bool := if q.fromScan then scanFailedAfter false q.err else false

/-- **the predicate each site hands to the breaker** -/
def Site.pred (s : Site) (q : SiteReq) : Bool :=
  match s with
  | .rest => decide (q.code < 500)
  | .zrpcClient => codeAcceptable q.err.grpcCode
  | .zrpcServerUnary | .zrpcServerStream =>
    if q.err = .ctxDeadline ∨ q.err = .brkOpen then false else codeAcceptable q.err.grpcCode
  | .redisProcess | .redisPipeline => q.err = .none ∨ q.err = .redisNil ∨ q.err = .ctxCanceled
  | .sqlx => sqlAcceptable q
  | .sqlxQuery => scanFailedVar q || sqlAcceptable q

/-- what the site gives back to its own caller -/
inductive SiteRet
  | same              -- the request's own result, unchanged (nil stays nil)
  | unavailable       -- breaker.ErrServiceUnavailable
  | statusUnavailable -- gRPC status error with code Unavailable (serverinterceptors.convertError)
  | http503           -- rest: WriteHeader(503), next not called
  | ctxErr            -- ctx.Err() of a context that was already done
  deriving Repr, DecidableEq, Inhabited

inductive SEv
  | ranReq
  | mark (m : Mark)
  | returned (r : SiteRet)
  | repanicked
  deriving Repr, DecidableEq, Inhabited

def Site.rejectRet : Site → SiteRet
  | .rest => .http503
  | .zrpcServerUnary | .zrpcServerStream => .statusUnavailable
  | _ => .unavailable

/-- `convertError` turns a breaker error coming out of the handler itself into a status error as well -/
def Site.admitRet (s : Site) (q : SiteReq) : SiteRet :=
  match s with
  | .zrpcServerUnary | .zrpcServerStream => if q.err = .brkOpen then .statusUnavailable else .same
  | _ => .same

/-- **decision table of a call site.**
`rest`: `Allow`; rejected → 503; admitted → `next` runs, the deferred function resolves the promise once: Accept iff
the recorded code is < 500 — also when `next` panics (the code written so far decides; the panic propagates).
All other sites: `doReq` with the site's predicate (a panic is a failure and is re-raised). -/
def siteEvents (s : Site) (v : Verdict) (q : SiteReq) : List SEv :=
  match v with
  | .reject => [.mark .drop, .returned s.rejectRet]
  | .pass =>
    match s with
    | .rest =>
      [.ranReq, .mark (if s.pred q then .succ else .fail), if q.panics then .repanicked else .returned .same]
    | _ =>
      if q.panics then [.ranReq, .mark .fail, .repanicked]
      else [.ranReq, .mark (if s.pred q then .succ else .fail), .returned (s.admitRet q)]

def smarksOf (evs : List SEv) : List Mark := evs.filterMap fun | .mark m => some m | _ => none

/-- does this site use the `…Ctx` entry point (a done context short-circuits before the breaker)? -/
def Site.usesCtx : Site → Bool
  | .rest | .zrpcServerStream => false
  | _ => true

/-- the `Outcome` of the generic decision table (`doReqEvents`) that the site's request corresponds to, with the
site's predicate playing the role of the custom `acceptable` -/
def Site.outcome (s : Site) (q : SiteReq) : Outcome :=
  if q.panics then .panic else if q.err = .none then .ok else if s.pred q then .errA else .errU

/-- **one request through a site's wrapper and the breaker behind it** at time `now` with draw `u`:
`accept()` decides, the site's decision table says what runs and what is recorded, the marks go into the window -/
def Breaker.site (b : Breaker) (now : Nat) (u : Rat) (s : Site) (q : SiteReq) : List SEv × Breaker :=
  let r := b.accept now u
  let evs := siteEvents s r.1 q
  (evs, r.2.applyMarks now (smarksOf evs))

/-! ## one breaker per name (core/breaker/breakers.go) -/

/-- the `breakers` map: `GetBreaker` creates on first use (with the clock value of that moment) -/
def Registry := List (String × Breaker)

def Registry.find (r : Registry) (name : String) : Option Breaker :=
  match r with
  | [] => none
  | (n, b) :: rest => if n = name then some b else Registry.find rest name

def Registry.set (r : Registry) (name : String) (b : Breaker) : Registry :=
  match r with
  | [] => [(name, b)]
  | (n, b0) :: rest => if n = name then (n, b) :: rest else (n, b0) :: Registry.set rest name b

/-- `GetBreaker(name)` at time `now` -/
def Registry.get (r : Registry) (name : String) (now : Nat) : Breaker × Registry :=
  match r.find name with
  | some b => (b, r)
  | none => (Breaker.init now, r.set name (Breaker.init now))

/-- `breaker.Do*(name, …)`: run `f` on the breaker of that name and store the result -/
def Registry.with (r : Registry) (name : String) (now : Nat) (f : Breaker → Breaker) : Registry :=
  (r.get name now).2.set name (f (r.get name now).1)

end GoZero.C01
