/-
C01 — schedules: any number of goroutines execute `Do*` calls concurrently on one breaker.
Small-step model at the granularity of the synchronised operations of `accept()` / `doReq()`:
  pc 0  history():   Reduce under the window's RLock — one atomic snapshot at the current clock
  pc 1  `dropRatio <= 0` on the snapshot (thread-local), else `lastPass.Load()` (atomic)
  pc 2  `timex.Since(lastPass)` — reads the clock
  pc 3  forced pass: `lastPass.Set(timex.Now())`
  pc 4  `proba.TrueOnProba(dropRatio)` (mutex-protected draw)
  pc 5  drawn pass: `lastPass.Set(timex.Now())`
  pc 6  admitted: request runs (no shared state), deferred mark: `stat.Add` under the window's Lock — atomic
  pc 7  rejected: `markDrop` — atomic
  pc 8  done
The clock only moves forward (`tick`). Thread ids are natural numbers: the number of goroutines is unbounded,
and `Reach` closes over every choice of the next thread, i.e. every schedule.
-/
import GoZero.C01.RunWindow
namespace GoZero.C01

structure Env where
  u : Nat → Rat                -- the draw each call would get
  entry : Nat → Entry
  outcome : Nat → Outcome

def admitMark (e : Entry) (o : Outcome) : Mark :=
  if o = .panic then .fail else if acceptable e.custom o then .succ else .fail

structure Cfg where
  rw : RW
  lastPass : Nat
  clock : Nat
  log : List (Nat × Mark)          -- ghost: everything recorded, with its time
  pc : Nat → Nat
  snap : Nat → WinRes
  lp : Nat → Nat
  tnow : Nat → Nat
  verdict : Nat → Option Verdict
  marks : Nat → List Mark          -- ghost: what each call recorded

def upd {α : Type} (f : Nat → α) (t : Nat) (v : α) : Nat → α := fun i => if i = t then v else f i

def Cfg.init (t0 : Nat) : Cfg :=
  { rw := RW.init nBuckets intervalNs t0, lastPass := 0, clock := t0, log := [],
    pc := fun _ => 0, snap := fun _ => {}, lp := fun _ => 0, tnow := fun _ => 0, verdict := fun _ => none,
    marks := fun _ => [] }

def forcedBy (lp tnow : Nat) : Prop := lp > 0 ∧ tnow - lp > forcePassNs

instance (lp tnow : Nat) : Decidable (forcedBy lp tnow) := by unfold forcedBy; exact inferInstance

def stepT (env : Env) (c : Cfg) (t : Nat) : Option Cfg :=
  match c.pc t with
  | 0 => some { c with snap := upd c.snap t (summarize (c.rw.visible c.clock)), pc := upd c.pc t 1 }
  | 1 =>
    if 0 < dropRatio0 (c.snap t) then some { c with lp := upd c.lp t c.lastPass, pc := upd c.pc t 2 }
    else some { c with verdict := upd c.verdict t (some .pass), pc := upd c.pc t 6 }
  | 2 => some { c with tnow := upd c.tnow t c.clock, pc := upd c.pc t (if forcedBy (c.lp t) c.clock then 3 else 4) }
  | 3 => some { c with lastPass := c.clock, verdict := upd c.verdict t (some .pass), pc := upd c.pc t 6 }
  | 4 =>
    if env.u t < dropRatio1 (c.snap t) then some { c with verdict := upd c.verdict t (some .reject), pc := upd c.pc t 7 }
    else some { c with pc := upd c.pc t 5 }
  | 5 => some { c with lastPass := c.clock, verdict := upd c.verdict t (some .pass), pc := upd c.pc t 6 }
  | 6 => some { c with rw := c.rw.add c.clock (admitMark (env.entry t) (env.outcome t))
                       log := (c.clock, admitMark (env.entry t) (env.outcome t)) :: c.log
                       marks := upd c.marks t [admitMark (env.entry t) (env.outcome t)], pc := upd c.pc t 8 }
  | 7 => some { c with rw := c.rw.add c.clock .drop, log := (c.clock, .drop) :: c.log
                       marks := upd c.marks t [.drop], pc := upd c.pc t 8 }
  | _ => none

inductive Reach (env : Env) (t0 : Nat) : Cfg → Prop
  | init : Reach env t0 (Cfg.init t0)
  | tick (c : Cfg) (dt : Nat) : Reach env t0 c → Reach env t0 { c with clock := c.clock + dt }
  | step (c c' : Cfg) (t : Nat) : Reach env t0 c → stepT env c t = some c' → Reach env t0 c'

/-- per-thread invariant -/
def TInv (env : Env) (c : Cfg) (t : Nat) : Prop :=
  (c.pc t ≤ 8) ∧
  (c.verdict t = some .reject → overThreshold (c.snap t) ∧ ¬ forcedBy (c.lp t) (c.tnow t)) ∧
  ((c.pc t = 2 ∨ c.pc t = 3 ∨ c.pc t = 4 ∨ c.pc t = 5) → 0 < dropRatio0 (c.snap t)) ∧
  (c.pc t = 4 → ¬ forcedBy (c.lp t) (c.tnow t)) ∧
  (c.pc t = 3 → forcedBy (c.lp t) (c.tnow t)) ∧
  (c.pc t < 6 → c.marks t = [] ∧ c.verdict t = none) ∧
  (c.pc t = 6 → c.marks t = [] ∧ c.verdict t = some .pass) ∧
  (c.pc t = 7 → c.marks t = [] ∧ c.verdict t = some .reject) ∧
  (c.pc t = 8 → (c.verdict t = some .reject ∧ c.marks t = [.drop]) ∨
                (c.verdict t = some .pass ∧ c.marks t = [admitMark (env.entry t) (env.outcome t)]))

theorem tinv_init (env : Env) (t0 t : Nat) : TInv env (Cfg.init t0) t := by
  simp [TInv, Cfg.init]

theorem tinv_step (env : Env) (c c' : Cfg) (t : Nat) (h : ∀ u, TInv env c u) (hs : stepT env c t = some c') :
    ∀ u, TInv env c' u := by
  intro u
  have hu := h u
  have ht := h t
  unfold TInv at hu ht ⊢
  unfold stepT at hs
  by_cases hut : u = t
  · subst hut
    split at hs <;> (try split at hs) <;> simp at hs <;> subst hs <;> simp_all [upd]
    all_goals first | exact dropNum_pos_over _ ((dropRatio0_pos_iff _).mp (by simp_all)) | skip
    all_goals (try split) <;> simp_all
  · split at hs <;> (try split at hs) <;> simp at hs <;> subst hs <;> simp_all [upd]

theorem tinv_reach (env : Env) (t0 : Nat) (c : Cfg) (h : Reach env t0 c) : ∀ u, TInv env c u := by
  induction h with
  | init => exact tinv_init env t0
  | tick c dt _ ih => exact ih
  | step c c' t _ hs ih => exact tinv_step env c c' t ih hs

/-- the window invariant survives every interleaving: only the two atomic `Add` steps touch the window -/
theorem wininv_reach (env : Env) (t0 : Nat) (c : Cfg) (h : Reach env t0 c) :
    WinInv t0 ⟨c.rw, c.lastPass⟩ c.clock c.log := by
  induction h with
  | init =>
    exact winInvG_init nBuckets intervalNs (by decide) (by decide) t0
  | tick c dt _ ih =>
    obtain ⟨cur, hr, hl, ht⟩ := ih
    exact ⟨cur, hr, by simp at hl ⊢; omega, by simp; omega⟩
  | step c c' t _ hs ih =>
    unfold stepT at hs
    split at hs <;> (try split at hs) <;> simp at hs <;> subst hs
    all_goals first
      | exact ih
      | exact mark_inv t0 ⟨c.rw, c.lastPass⟩ c.clock c.log _ ih
      | (obtain ⟨cur, hr, hl, ht⟩ := ih; exact ⟨cur, hr, hl, ht⟩)

end GoZero.C01
