/-
C01 — the property as an executable monitor over what the *implementation* printed (core Lean only).
Each clause is one sentence of the property; `Props.lean` proves that the model can never trigger them.
-/
import GoZero.C01.Model
namespace GoZero.C01

/-- "the non-accepted ones (failures plus rejections) exceed 5 plus 10% of the accepted ones",
on the totals of the preceding window: `total - accepts > 5 + accepts/10`. -/
def overThreshold (h : WinRes) : Prop := 10 * ((h.total : Int) - (h.accepts : Int)) > 50 + (h.accepts : Int)

instance (h : WinRes) : Decidable (overThreshold h) := by unfold overThreshold; exact inferInstance

/-- a call is due for a forced probe: a throttled admission exists and lies more than 1 s back -/
def probeDue (lastThrottled : Option Nat) (now : Nat) : Bool :=
  match lastThrottled with
  | some t => decide (now - t > forcePassNs)
  | none => false

/-- threshold of the draw under total failure: `(n-5)/(n+1)` -/
def totalFailureRatio (n : Nat) : Rat := (((n : Int) - 5 : Int) : Rat) / ((n + 1 : Nat) : Rat)

/-- the window shows total failure: nothing accepted, more than 5 calls.  (Then no bucket can be a "working"
bucket — `summarize_wb` — so the monitor does not need, and does not trust, the implementation's bucket classes.) -/
def totalFailure (h : WinRes) : Prop := h.accepts = 0 ∧ h.total > 5

instance (h : WinRes) : Decidable (totalFailure h) := by unfold totalFailure; exact inferInstance

/-! ### the window of the property, from the calls themselves

The monitor keeps its own log of what every call *should* have recorded (rejected: drop; admitted: success or
failure by the acceptability predicate) stamped with the aligned 250 ms bucket index of the call time, and
counts "the calls recorded in the preceding 10 s window" from that log: the current bucket and the 39 before. -/

/-- aligned bucket number of time `t` in a window of `d`-ns buckets created at `t0` (any geometry) -/
def bucketIdxD (d t0 t : Nat) : Nat := (t - t0) / d

def bucketIdx (t0 t : Nat) : Nat := bucketIdxD intervalNs t0 t

def inWindow (cur idx : Nat) : Bool := idx ≤ cur ∧ cur < idx + nBuckets

def logTotals (log : List (Nat × Mark)) (cur : Nat) : Bucket :=
  (log.filter fun e => inWindow cur e.1).foldl (fun b e => b.add e.2) {}

/-- what one call did, as far as the property talks about it -/
structure CallObs where
  reqRuns  : Nat
  fbRuns   : Nat
  ret      : Ret
  panicked : Bool
  marks    : Bucket        -- increase of the window totals caused by the call
  deriving Repr, DecidableEq

def CallObs.ofEvents (evs : List Ev) : CallObs :=
  { reqRuns := evs.count .ranReq
    fbRuns := evs.count .ranFallback
    ret := (evs.findSome? fun | .returned r => some r | _ => none).getD .nil
    panicked := evs.contains .repanicked
    marks := (marksOf evs).foldl Bucket.add {} }

/-- exact accounting of a rejected `Do*` call -/
def rejectedOk (e : Entry) (c : CallObs) : Bool :=
  c.reqRuns = 0 ∧ c.fbRuns = (if e.hasFallback then 1 else 0) ∧
  c.ret = (if e.hasFallback then Ret.fallbackResult else Ret.unavailable) ∧ c.panicked = false ∧
  c.marks = { sum := 1, drop := 1 }

/-- exact accounting of an admitted `Do*` call -/
def admittedOk (e : Entry) (o : Outcome) (c : CallObs) : Bool :=
  c.reqRuns = 1 ∧ c.fbRuns = 0 ∧ c.panicked = (o == .panic) ∧ (o ≠ .panic → c.ret = o.ret) ∧
  c.marks = (if acceptable e.custom o then { sum := 1, succ := 1 } else { sum := 1, fail := 1 })

/-- a `…Ctx` call with a done context: context error, nothing ran, window untouched -/
def ctxDoneOk (c : CallObs) : Bool :=
  c.reqRuns = 0 ∧ c.fbRuns = 0 ∧ c.ret = .ctxErr ∧ c.panicked = false ∧ c.marks = {}

end GoZero.C01
