/-
C01 — the rolling window is a view of the call log, for EVERY window geometry.

`Rep n d w t0 cur L`: the ring buffer `w` of `n ≥ 1` buckets of `d ≥ 1` ns each (any `NewRollingWindow(…, n, d)`
without `IgnoreCurrentBucket`; `newGoogleBreaker` builds the instance n = 40, d = 250 ms) represents the
abstract log `L : absolute bucket index → contents`, where index `j` covers the times
`[t0 + j·d, t0 + (j+1)·d)`, `cur` is the index of the bucket `lastTime` starts, and the ring cell
`(offset + n − a) % n` holds the bucket of *age* `a` (index `cur − a`).
Nothing below depends on the numbers 40 / 250 ms: `n` and `d` are universally quantified.
-/
import GoZero.C01.Proofs
namespace GoZero.C01

def Lget (L : Nat → Bucket) (cur a : Nat) : Bucket := if a ≤ cur then L (cur - a) else {}

structure Rep (n d : Nat) (w : RW) (t0 cur : Nat) (L : Nat → Bucket) : Prop where
  npos : 0 < n
  dpos : 0 < d
  size : w.size = n
  iv : w.interval = d
  len : w.buckets.length = n
  off : w.offset < n
  lt : w.lastTime = t0 + cur * d
  cells : ∀ a, a < n → w.buckets.getD ((w.offset + n - a) % n) {} = Lget L cur a
  future : ∀ j, cur < j → L j = {}

/-- the only fact about `%` with a symbolic modulus that the proofs need: below `2n` it is one subtraction -/
theorem mod2 (x n : Nat) (h : x < 2 * n) : (x < n ∧ x % n = x) ∨ (n ≤ x ∧ x % n = x - n) := by
  by_cases hx : x < n
  · exact Or.inl ⟨hx, Nat.mod_eq_of_lt hx⟩
  · refine Or.inr ⟨by omega, ?_⟩
    rw [Nat.mod_eq_sub_mod (by omega)]
    exact Nat.mod_eq_of_lt (by omega)

theorem rep_init (n d : Nat) (hn : 0 < n) (hd : 0 < d) (t0 : Nat) : Rep n d (RW.init n d t0) t0 0 (fun _ => {}) := by
  refine ⟨hn, hd, rfl, rfl, by simp [RW.init], by simpa [RW.init] using hn, by simp [RW.init], ?_, fun _ _ => rfl⟩
  intro a ha
  simp only [RW.init, List.getD_eq_getElem?_getD, List.getElem?_replicate, Lget]
  have : (n - a) % n < n := Nat.mod_lt _ hn
  simp [this]

/-! ### the reset loop -/

theorem resetFrom_length (n : Nat) (bs : List Bucket) (start k : Nat) : (resetFrom n bs start k).length = bs.length := by
  induction k generalizing bs start with
  | zero => rfl
  | succ k ih => simp only [resetFrom]; rw [ih]; simp

/-- after the loop, cell `p` is empty iff its cyclic distance from `start` is below the number of iterations -/
theorem resetFrom_getD (n : Nat) (hn : 0 < n) (bs : List Bucket) (hl : bs.length = n) (start k p : Nat) (hp : p < n) :
    (resetFrom n bs start k).getD p {} = if (p + n - start % n) % n < k then {} else bs.getD p {} := by
  induction k generalizing bs start with
  | zero => simp [resetFrom]
  | succ k ih =>
    simp only [resetFrom]
    rw [ih _ (by simp [hl])]
    simp only [List.getD_eq_getElem?_getD, List.getElem?_set, hl]
    have hs : start % n < n := Nat.mod_lt _ hn
    have e0 : (start + 1) % n = (start % n + 1) % n := (Nat.mod_add_mod start n 1).symm
    rw [e0]
    generalize start % n = s at *
    have m1 := mod2 (s + 1) n (by omega)
    generalize (s + 1) % n = s1 at *
    have m2 := mod2 (p + n - s1) n (by omega)
    have m3 := mod2 (p + n - s) n (by omega)
    generalize (p + n - s1) % n = x1 at *
    generalize (p + n - s) % n = x0 at *
    by_cases h1 : x1 < k
    · have : x0 < k + 1 := by omega
      simp [h1, this]
    · by_cases h2 : s = p
      · have : x0 < k + 1 := by omega
        simp [h1, h2, hp, this]
      · have : ¬ x0 < k + 1 := by omega
        simp [h1, h2, this]

/-! ### `updateOffset` moves the representation forward in time without changing the log -/

theorem span_eq (n d : Nat) (w : RW) (hsz : w.size = n) (hiv : w.interval = d) (now : Nat) :
    w.span now = if (now - w.lastTime) / d < n then (now - w.lastTime) / d else n := by
  simp [RW.span, hsz, hiv]

theorem updateOffset_rep (n d : Nat) (w : RW) (t0 cur : Nat) (L : Nat → Bucket) (h : Rep n d w t0 cur L) (now : Nat)
    (hm : w.lastTime ≤ now) : Rep n d (w.updateOffset now) t0 (cur + (now - w.lastTime) / d) L := by
  obtain ⟨hn, hd, hsz, hiv, hlen, hoff, hlt, hcells, hfut⟩ := h
  have hspan := span_eq n d w hsz hiv now
  have hdm : d * ((now - w.lastTime) / d) + (now - w.lastTime) % d = now - w.lastTime := Nat.div_add_mod _ _
  generalize ho : (now - w.lastTime) / d = o at *
  unfold RW.updateOffset
  by_cases hz : w.span now = 0
  · have : o = 0 := by rw [hspan] at hz; split at hz <;> omega
    subst this
    simp only [hz, if_true, Nat.add_zero]
    exact ⟨hn, hd, hsz, hiv, hlen, hoff, hlt, hcells, hfut⟩
  · simp only [hz, if_false]
    have hs40 : w.span now ≤ n := by rw [hspan]; split <;> omega
    have hso : w.span now ≤ o := by rw [hspan]; split <;> omega
    refine ⟨hn, hd, hsz, hiv, ?_, ?_, ?_, ?_, ?_⟩
    · simp [RW.updateOffset', resetFrom_length, hlen]
    · simp only [RW.updateOffset', hsz]; exact Nat.mod_lt _ hn
    · simp only [RW.updateOffset', hiv]
      have e1 : (cur + o) * d = cur * d + d * o := by rw [Nat.add_mul, Nat.mul_comm o d]
      have hle : (now - w.lastTime) % d ≤ now - w.lastTime := Nat.mod_le _ _
      omega
    · intro a ha
      simp only [RW.updateOffset', hsz]
      rw [resetFrom_getD n hn _ hlen _ _ _ (Nat.mod_lt _ hn)]
      by_cases hlo : o < n
      · have hsp : w.span now = o := by rw [hspan]; simp [hlo]
        rw [hsp]
        have m1 := mod2 (w.offset + o) n (by omega)
        generalize (w.offset + o) % n = q at *
        have m2 := mod2 (q + n - a) n (by omega)
        generalize hq : (q + n - a) % n = p at *
        have m3 := mod2 (w.offset + 1) n (by omega)
        generalize (w.offset + 1) % n = s at *
        have m4 := mod2 (p + n - s) n (by omega)
        generalize (p + n - s) % n = x at *
        by_cases hao : a < o
        · have : x < o := by clear hdm hlt hm hso hs40 hspan hz; omega
          simp only [this, if_true, Lget]
          split
          · rw [hfut _ (by omega)]
          · rfl
        · have : ¬ x < o := by clear hdm hlt hm hso hs40 hspan hz; omega
          simp only [this, if_false]
          have m5 := mod2 (w.offset + n - (a - o)) n (by omega)
          have hpos : p = (w.offset + n - (a - o)) % n := by clear hdm hlt hm hso hs40 hspan hz m3 m4; omega
          rw [hpos, hcells (a - o) (by omega)]
          simp only [Lget]
          by_cases hc : a - o ≤ cur
          · have : a ≤ cur + o := by omega
            simp only [hc, this, if_true]
            congr 1; omega
          · have : ¬ a ≤ cur + o := by omega
            simp [hc, this]
      · have hsp : w.span now = n := by rw [hspan]; simp [hlo]
        rw [hsp]
        have : (((w.offset + n) % n + n - a) % n + n - (w.offset + 1) % n) % n < n := Nat.mod_lt _ hn
        simp only [this, if_true, Lget]
        split
        · rw [hfut _ (by omega)]
        · rfl
    · intro j hj; exact hfut j (by omega)

/-! ### `Add` records the mark in the bucket of the current time -/

def recordAt (L : Nat → Bucket) (j : Nat) (m : Mark) : Nat → Bucket := fun i => if i = j then (L i).add m else L i

theorem add_rep (n d : Nat) (w : RW) (t0 cur : Nat) (L : Nat → Bucket) (h : Rep n d w t0 cur L) (now : Nat) (m : Mark)
    (hm : w.lastTime ≤ now) :
    Rep n d (w.add now m) t0 (cur + (now - w.lastTime) / d)
      (recordAt L (cur + (now - w.lastTime) / d) m) := by
  have h' := updateOffset_rep n d w t0 cur L h now hm
  generalize cur + (now - w.lastTime) / d = c at *
  unfold RW.add
  simp only []
  generalize w.updateOffset now = w' at *
  obtain ⟨hn, hd, hsz, hiv, hlen, hoff, hlt, hcells, hfut⟩ := h'
  refine ⟨hn, hd, hsz, hiv, by simp [hlen], hoff, hlt, ?_, ?_⟩
  · intro a ha
    simp only [hsz, List.getD_eq_getElem?_getD, List.getElem?_modify]
    have hp : (w'.offset + n - a) % n < n := Nat.mod_lt _ hn
    have hget := hcells a ha
    simp only [List.getD_eq_getElem?_getD] at hget
    have hsome : ∃ x, w'.buckets[(w'.offset + n - a) % n]? = some x := by
      have : (w'.offset + n - a) % n < w'.buckets.length := by omega
      exact ⟨_, List.getElem?_eq_getElem this⟩
    obtain ⟨x, hx⟩ := hsome
    rw [hx] at hget ⊢
    simp only [Option.getD_some, Option.map_eq_map, Option.map_some] at hget ⊢
    have m0 : w'.offset % n = w'.offset := Nat.mod_eq_of_lt hoff
    have m1 := mod2 (w'.offset + n - a) n (by omega)
    by_cases ha0 : a = 0
    · subst ha0
      have : w'.offset % n = (w'.offset + n - 0) % n := by omega
      simp only [this, if_true, hget, Lget, recordAt, Nat.zero_le, Nat.sub_zero]
    · have : ¬ w'.offset % n = (w'.offset + n - a) % n := by omega
      simp only [this, if_false, hget, Lget, recordAt]
      split
      · have : ¬ c - a = c := by omega
        simp [this]
      · rfl
  · intro j hj
    simp only [recordAt]
    have : ¬ j = c := by omega
    simp [this, hfut j hj]

/-! ### what `Reduce` visits -/

/-- **The visible window is the log of the preceding `n` aligned buckets.**  At any time `now ≥ lastTime`, with
`c = cur + ⌊(now − lastTime)/d⌋` the index of the current bucket, `Reduce` visits, oldest first, the log
contents of the indices `c−(n−1), …, cur` (the indices `cur+1 … c` are still empty and are skipped; if `n·d` or
more has passed nothing is visited). -/
theorem visible_spec (n d : Nat) (w : RW) (t0 cur : Nat) (L : Nat → Bucket) (h : Rep n d w t0 cur L) (now : Nat)
    (hm : w.lastTime ≤ now) :
    w.visible now =
      (List.range (n - w.span now)).map fun i => Lget L (cur + (now - w.lastTime) / d) (n - 1 - i) := by
  obtain ⟨hn, hd, hsz, hiv, hlen, hoff, hlt, hcells, hfut⟩ := h
  have hspan := span_eq n d w hsz hiv now
  generalize ho : (now - w.lastTime) / d = o at *
  unfold RW.visible
  simp only [hsz]
  apply List.map_congr_left
  intro i hi
  simp only [List.mem_range] at hi
  by_cases hlo : o < n
  · have hsp : w.span now = o := by rw [hspan]; simp [hlo]
    rw [hsp] at hi ⊢
    have hpos : (w.offset + o + 1 + i) % n = (w.offset + n - (n - 1 - o - i)) % n := by
      have e : w.offset + o + 1 + i = w.offset + n - (n - 1 - o - i) := by omega
      rw [e]
    rw [hpos, hcells (n - 1 - o - i) (by omega)]
    simp only [Lget]
    by_cases hc : n - 1 - o - i ≤ cur
    · have : n - 1 - i ≤ cur + o := by omega
      simp only [hc, this, if_true]
      congr 1; omega
    · have : ¬ n - 1 - i ≤ cur + o := by omega
      simp [hc, this]
  · have hsp : w.span now = n := by rw [hspan]; simp [hlo]
    rw [hsp] at hi; omega

end GoZero.C01
