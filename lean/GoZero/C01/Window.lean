/-
C01 — the rolling window is a view of the call log.

`Rep w t0 cur L`: the ring buffer `w` (40 buckets of 250 ms, as `newGoogleBreaker` builds it) represents the
abstract log `L : absolute bucket index → contents`, where index `j` covers the times
`[t0 + j·250ms, t0 + (j+1)·250ms)`, `cur` is the index of the bucket `lastTime` starts, and the ring cell
`(offset + 40 − a) % 40` holds the bucket of *age* `a` (index `cur − a`).
-/
import GoZero.C01.Proofs
namespace GoZero.C01

def Lget (L : Nat → Bucket) (cur a : Nat) : Bucket := if a ≤ cur then L (cur - a) else {}

structure Rep (w : RW) (t0 cur : Nat) (L : Nat → Bucket) : Prop where
  size : w.size = 40
  iv : w.interval = 250000000
  len : w.buckets.length = 40
  off : w.offset < 40
  lt : w.lastTime = t0 + cur * 250000000
  cells : ∀ a, a < 40 → w.buckets.getD ((w.offset + 40 - a) % 40) {} = Lget L cur a
  future : ∀ j, cur < j → L j = {}

theorem rep_init (t0 : Nat) : Rep (RW.init nBuckets intervalNs t0) t0 0 (fun _ => {}) := by
  refine ⟨rfl, rfl, by simp [RW.init, nBuckets], by simp [RW.init], by simp [RW.init], ?_, fun _ _ => rfl⟩
  intro a ha
  simp only [RW.init, nBuckets, List.getD_eq_getElem?_getD, List.getElem?_replicate, Lget]
  have : (0 + 40 - a) % 40 < 40 := Nat.mod_lt _ (by decide)
  simp [this]

/-! ### the reset loop -/

theorem resetFrom_length (bs : List Bucket) (start k : Nat) : (resetFrom 40 bs start k).length = bs.length := by
  induction k generalizing bs start with
  | zero => rfl
  | succ k ih => simp only [resetFrom]; rw [ih]; simp

/-- after the loop, cell `p` is empty iff its cyclic distance from `start` is below the number of iterations -/
theorem resetFrom_getD (bs : List Bucket) (hl : bs.length = 40) (start k p : Nat) (hp : p < 40) :
    (resetFrom 40 bs start k).getD p {} = if (p + 40 - start % 40) % 40 < k then {} else bs.getD p {} := by
  induction k generalizing bs start with
  | zero => simp [resetFrom]
  | succ k ih =>
    simp only [resetFrom]
    rw [ih _ (by simp [hl])]
    simp only [List.getD_eq_getElem?_getD, List.getElem?_set, hl]
    have hs : start % 40 < 40 := Nat.mod_lt _ (by decide)
    by_cases h1 : (p + 40 - (start + 1) % 40) % 40 < k
    · have : (p + 40 - start % 40) % 40 < k + 1 := by omega
      simp [h1, this]
    · by_cases h2 : start % 40 = p
      · have : (p + 40 - start % 40) % 40 < k + 1 := by omega
        simp [h1, h2, hp]
      · have : ¬ (p + 40 - start % 40) % 40 < k + 1 := by omega
        simp [h1, h2, this]

/-! ### `updateOffset` moves the representation forward in time without changing the log -/

theorem updateOffset_rep (w : RW) (t0 cur : Nat) (L : Nat → Bucket) (h : Rep w t0 cur L) (now : Nat)
    (hm : w.lastTime ≤ now) : Rep (w.updateOffset now) t0 (cur + (now - w.lastTime) / 250000000) L := by
  obtain ⟨hsz, hiv, hlen, hoff, hlt, hcells, hfut⟩ := h
  have hspan : w.span now = if (now - w.lastTime) / 250000000 < 40 then (now - w.lastTime) / 250000000 else 40 := by
    simp [RW.span, hsz, hiv]
  generalize ho : (now - w.lastTime) / 250000000 = o at *
  unfold RW.updateOffset
  by_cases hz : w.span now = 0
  · have : o = 0 := by rw [hspan] at hz; split at hz <;> omega
    subst this
    simp only [hz, if_true, Nat.add_zero]
    exact ⟨hsz, hiv, hlen, hoff, hlt, hcells, hfut⟩
  · simp only [hz, if_false]
    have hs40 : w.span now ≤ 40 := by rw [hspan]; split <;> omega
    have hso : w.span now ≤ o := by rw [hspan]; split <;> omega
    refine ⟨hsz, hiv, ?_, ?_, ?_, ?_, ?_⟩
    · simp [RW.updateOffset', resetFrom_length, hsz, hlen]
    · simp only [RW.updateOffset', hsz]; exact Nat.mod_lt _ (by decide)
    · simp only [RW.updateOffset', hiv]; omega
    · intro a ha
      simp only [RW.updateOffset', hsz]
      rw [resetFrom_getD _ hlen _ _ _ (Nat.mod_lt _ (by decide))]
      by_cases hlo : o < 40
      · have hsp : w.span now = o := by rw [hspan]; simp [hlo]
        rw [hsp]
        by_cases hao : a < o
        · have : (((w.offset + o) % 40 + 40 - a) % 40 + 40 - (w.offset + 1) % 40) % 40 < o := by omega
          simp only [this, if_true, Lget]
          split
          · rw [hfut _ (by omega)]
          · rfl
        · have : ¬ (((w.offset + o) % 40 + 40 - a) % 40 + 40 - (w.offset + 1) % 40) % 40 < o := by omega
          simp only [this, if_false]
          have hpos : ((w.offset + o) % 40 + 40 - a) % 40 = (w.offset + 40 - (a - o)) % 40 := by omega
          rw [hpos, hcells (a - o) (by omega)]
          simp only [Lget]
          by_cases hc : a - o ≤ cur
          · have : a ≤ cur + o := by omega
            simp only [hc, this, if_true]
            congr 1; omega
          · have : ¬ a ≤ cur + o := by omega
            simp [hc, this]
      · have hsp : w.span now = 40 := by rw [hspan]; simp [hlo]
        rw [hsp]
        have : (((w.offset + 40) % 40 + 40 - a) % 40 + 40 - (w.offset + 1) % 40) % 40 < 40 := Nat.mod_lt _ (by decide)
        simp only [this, if_true, Lget]
        split
        · rw [hfut _ (by omega)]
        · rfl
    · intro j hj; exact hfut j (by omega)

/-! ### `Add` records the mark in the bucket of the current time -/

def recordAt (L : Nat → Bucket) (j : Nat) (m : Mark) : Nat → Bucket := fun i => if i = j then (L i).add m else L i

theorem add_rep (w : RW) (t0 cur : Nat) (L : Nat → Bucket) (h : Rep w t0 cur L) (now : Nat) (m : Mark)
    (hm : w.lastTime ≤ now) :
    Rep (w.add now m) t0 (cur + (now - w.lastTime) / 250000000)
      (recordAt L (cur + (now - w.lastTime) / 250000000) m) := by
  have h' := updateOffset_rep w t0 cur L h now hm
  generalize cur + (now - w.lastTime) / 250000000 = c at *
  unfold RW.add
  simp only []
  generalize w.updateOffset now = w' at *
  obtain ⟨hsz, hiv, hlen, hoff, hlt, hcells, hfut⟩ := h'
  refine ⟨hsz, hiv, by simp [hlen], hoff, hlt, ?_, ?_⟩
  · intro a ha
    simp only [hsz, List.getD_eq_getElem?_getD, List.getElem?_modify]
    have hp : (w'.offset + 40 - a) % 40 < 40 := Nat.mod_lt _ (by decide)
    have hget := hcells a ha
    simp only [List.getD_eq_getElem?_getD] at hget
    have hsome : ∃ x, w'.buckets[(w'.offset + 40 - a) % 40]? = some x := by
      have : (w'.offset + 40 - a) % 40 < w'.buckets.length := by omega
      exact ⟨_, List.getElem?_eq_getElem this⟩
    obtain ⟨x, hx⟩ := hsome
    rw [hx] at hget ⊢
    simp only [Option.getD_some, Option.map_eq_map, Option.map_some] at hget ⊢
    by_cases ha0 : a = 0
    · subst ha0
      have : w'.offset % 40 = (w'.offset + 40 - 0) % 40 := by omega
      simp only [this, if_true, hget, Lget, recordAt, Nat.zero_le, Nat.sub_zero]
    · have : ¬ w'.offset % 40 = (w'.offset + 40 - a) % 40 := by omega
      simp only [this, if_false, hget, Lget, recordAt]
      split
      · have : ¬ c - a = c := by omega
        simp [this]
      · rfl
  · intro j hj
    simp only [recordAt]
    have : ¬ j = c := by omega
    simp [this, hfut j hj]

/-! ### what `Reduce` visits -/

/-- **The visible window is the log of the preceding 40 aligned buckets.**  At any time `now ≥ lastTime`, with
`c = cur + ⌊(now − lastTime)/250ms⌋` the index of the current bucket, `Reduce` visits, oldest first, the log
contents of the indices `c−39, …, cur` (the indices `cur+1 … c` are still empty and are skipped; if more than
10 s have passed nothing is visited). -/
theorem visible_spec (w : RW) (t0 cur : Nat) (L : Nat → Bucket) (h : Rep w t0 cur L) (now : Nat)
    (hm : w.lastTime ≤ now) :
    w.visible now =
      (List.range (40 - w.span now)).map fun i => Lget L (cur + (now - w.lastTime) / 250000000) (39 - i) := by
  obtain ⟨hsz, hiv, hlen, hoff, hlt, hcells, hfut⟩ := h
  have hspan : w.span now = if (now - w.lastTime) / 250000000 < 40 then (now - w.lastTime) / 250000000 else 40 := by
    simp [RW.span, hsz, hiv]
  generalize ho : (now - w.lastTime) / 250000000 = o at *
  unfold RW.visible
  simp only [hsz]
  apply List.map_congr_left
  intro i hi
  simp only [List.mem_range] at hi
  by_cases hlo : o < 40
  · have hsp : w.span now = o := by rw [hspan]; simp [hlo]
    rw [hsp] at hi ⊢
    have hpos : (w.offset + o + 1 + i) % 40 = (w.offset + 40 - (39 - o - i)) % 40 := by omega
    rw [hpos, hcells (39 - o - i) (by omega)]
    simp only [Lget]
    by_cases hc : 39 - o - i ≤ cur
    · have : 39 - i ≤ cur + o := by omega
      simp only [hc, this, if_true]
      congr 1; omega
    · have : ¬ 39 - i ≤ cur + o := by omega
      simp [hc, this]
  · have hsp : w.span now = 40 := by rw [hspan]; simp [hlo]
    rw [hsp] at hi; omega

end GoZero.C01
