/-
C01 — helper lemmas: rational arithmetic of the drop ratio, the decision of `accept`, the history reducer.
-/
import GoZero.C01.Spec
namespace GoZero.C01

/-! ### small facts about `Rat` (core only) -/

theorem rat_mul_pos_iff_left (a c : Rat) (hc : 0 < c) : 0 < a * c ↔ 0 < a := by
  constructor
  · intro h
    by_cases ha : 0 < a
    · exact ha
    · have : 0 ≤ (-a) * c := Rat.mul_nonneg (by grind) (Rat.le_of_lt hc)
      grind
  · intro h; exact Rat.mul_pos h hc

theorem rat_div_pos_iff (a b : Rat) (hb : 0 < b) : 0 < a / b ↔ 0 < a := by
  rw [Rat.div_def]; exact rat_mul_pos_iff_left a _ (Rat.inv_pos.mpr hb)

theorem rat_div_mul_cancel (a b : Rat) (hb : b ≠ 0) : a / b * b = a := by
  rw [Rat.div_def, Rat.mul_assoc, Rat.inv_mul_cancel _ hb, Rat.mul_one]

theorem rat_lt_div_iff (x a b : Rat) (hb : 0 < b) : x < a / b ↔ x * b < a := by
  have hb' : b ≠ 0 := by grind
  have hc : b * b⁻¹ = 1 := Rat.mul_inv_cancel _ hb'
  have e : a / b - x = (a - x * b) / b := by
    rw [Rat.div_def, Rat.div_def]
    have : x * b * b⁻¹ = x := by rw [Rat.mul_assoc, hc, Rat.mul_one]
    grind
  constructor
  · intro h
    have : 0 < (a - x * b) / b := by rw [← e]; grind
    have := (rat_div_pos_iff _ _ hb).mp this
    grind
  · intro h
    have : 0 < (a - x * b) / b := (rat_div_pos_iff _ _ hb).mpr (by grind)
    rw [← e] at this
    grind

/-! ### the weight and the drop ratio -/

theorem weight_ge (fb : Nat) : (11 : Rat) / 10 ≤ weight fb := by
  unfold weight kMin
  split
  · exact Rat.le_refl
  · next h => exact Rat.not_lt.mp h

theorem total_succ_pos (h : WinRes) : (0 : Rat) < ((((h.total : Nat) : Int) + 1 : Int) : Rat) := by
  have : (0 : Int) < ((h.total : Nat) : Int) + 1 := by omega
  exact_mod_cast this

theorem dropRatio0_pos_iff (h : WinRes) : 0 < dropRatio0 h ↔ 0 < dropNum h := by
  unfold dropRatio0
  exact rat_div_pos_iff _ _ (total_succ_pos h)

/-- the admission law: a positive drop numerator means the non-accepted calls exceed 5 + 10 % of the accepted. -/
theorem dropNum_pos_over (h : WinRes) (hp : 0 < dropNum h) : overThreshold h := by
  unfold dropNum at hp
  have hw := weight_ge h.failingBuckets
  have ha : (0 : Rat) ≤ (((h.accepts : Nat) : Int) : Rat) := by
    have : (0 : Int) ≤ ((h.accepts : Nat) : Int) := by omega
    exact_mod_cast this
  have hm : (11 : Rat) / 10 * (((h.accepts : Nat) : Int) : Rat) ≤ weight h.failingBuckets * (((h.accepts : Nat) : Int) : Rat) :=
    Rat.mul_le_mul_of_nonneg_right hw ha
  have e1 : ((((h.total : Nat) : Int) - 5 : Int) : Rat) = (((h.total : Nat) : Int) : Rat) - 5 := by simp [Rat.intCast_sub]
  rw [e1] at hp
  have h3 : (11 : Rat) * (((h.accepts : Nat) : Int) : Rat) < 10 * ((((h.total : Nat) : Int) : Rat) - 5) := by grind
  have e2 : (11 : Rat) * (((h.accepts : Nat) : Int) : Rat) = ((11 * ((h.accepts : Nat) : Int) : Int) : Rat) := by
    simp [Rat.intCast_mul]
  have e3 : (10 : Rat) * ((((h.total : Nat) : Int) : Rat) - 5) = ((10 * (((h.total : Nat) : Int) - 5) : Int) : Rat) := by
    simp [Rat.intCast_mul, Rat.intCast_sub]
  rw [e2, e3] at h3
  have := Rat.intCast_lt_intCast.mp h3
  unfold overThreshold
  omega

/-- with nothing accepted the numerator is `total - 5` -/
theorem dropNum_no_accepts (h : WinRes) (ha : h.accepts = 0) : dropNum h = ((((h.total : Nat) : Int) - 5 : Int) : Rat) := by
  unfold dropNum
  rw [ha]
  simp [Rat.mul_zero]
  grind

theorem dropRatio1_total_failure (h : WinRes) (ha : h.accepts = 0) (hw : h.workingBuckets = 0) :
    dropRatio1 h = totalFailureRatio h.total := by
  unfold dropRatio1 dropRatio0 totalFailureRatio
  rw [dropNum_no_accepts h ha, hw]
  have e : ((((40 : Int) - ((0 : Nat) : Int) : Int) : Rat) / ((40 : Int) : Rat)) = 1 := by
    rw [Rat.div_def]; exact Rat.mul_inv_cancel _ (by decide)
  rw [e, Rat.mul_one]
  congr 1

/-- `(n-5)/(n+1) = 1 - 6/(n+1)`: under total failure all but a `6/(n+1)` fraction of the draws reject -/
theorem totalFailureRatio_eq (n : Nat) : totalFailureRatio n = 1 - 6 / ((n + 1 : Nat) : Rat) := by
  unfold totalFailureRatio
  have hpos : (0 : Rat) < ((n + 1 : Nat) : Rat) := by exact_mod_cast Nat.succ_pos n
  have hne : ((n + 1 : Nat) : Rat) ≠ 0 := by grind
  have e : ((((n : Nat) : Int) - 5 : Int) : Rat) = ((n + 1 : Nat) : Rat) - 6 := by
    rw [← Rat.intCast_natCast (n + 1)]
    have e' : ((n : Nat) : Int) - 5 = ((n + 1 : Nat) : Int) - 6 := by omega
    rw [e']
    simp [Rat.intCast_sub]
  have hc := Rat.mul_inv_cancel _ hne
  rw [e, Rat.div_def, Rat.div_def]
  grind

/-! ### the history reducer -/

/-- no accepted call in the window ⇒ no working bucket -/
theorem foldl_reduce_wb (bs : List Bucket) (r : WinRes) (hr : r.accepts = 0 → r.workingBuckets = 0) :
    (bs.foldl reduceStep r).accepts = 0 → (bs.foldl reduceStep r).workingBuckets = 0 := by
  induction bs generalizing r with
  | nil => simpa using hr
  | cons b bs ih =>
    simp only [List.foldl_cons]
    apply ih
    intro h
    simp only [reduceStep] at h ⊢
    have h1 : r.accepts = 0 := by omega
    have h2 : b.succ = 0 := by omega
    have := hr h1
    split <;> simp_all

theorem summarize_wb (bs : List Bucket) (h : (summarize bs).accepts = 0) : (summarize bs).workingBuckets = 0 :=
  foldl_reduce_wb bs {} (fun _ => rfl) h

/-- `total` and `accepts` of the history are the sums over the visited buckets -/
theorem foldl_reduce_sums (bs : List Bucket) (r : WinRes) :
    (bs.foldl reduceStep r).total = r.total + (sumBuckets bs).sum ∧
    (bs.foldl reduceStep r).accepts = r.accepts + (sumBuckets bs).succ := by
  have gen : ∀ (bs : List Bucket) (a : Bucket),
      (bs.foldl (fun a b => ({ sum := a.sum + b.sum, succ := a.succ + b.succ, fail := a.fail + b.fail, drop := a.drop + b.drop } : Bucket)) a).sum
        = a.sum + (sumBuckets bs).sum ∧
      (bs.foldl (fun a b => ({ sum := a.sum + b.sum, succ := a.succ + b.succ, fail := a.fail + b.fail, drop := a.drop + b.drop } : Bucket)) a).succ
        = a.succ + (sumBuckets bs).succ := by
    intro bs
    induction bs with
    | nil => intro a; simp [sumBuckets]
    | cons b bs ih =>
      intro a
      simp only [List.foldl_cons, sumBuckets]
      have h1 := ih { sum := a.sum + b.sum, succ := a.succ + b.succ, fail := a.fail + b.fail, drop := a.drop + b.drop }
      have h2 := ih { sum := (0:Nat) + b.sum, succ := (0:Nat) + b.succ, fail := (0:Nat) + b.fail, drop := (0:Nat) + b.drop }
      simp only [sumBuckets] at h1 h2
      constructor
      · rw [h1.1, h2.1]; simp; omega
      · rw [h1.2, h2.2]; simp; omega
  induction bs generalizing r with
  | nil => simp [sumBuckets]
  | cons b bs ih =>
    simp only [List.foldl_cons]
    have h1 := ih (reduceStep r b)
    have h2 := gen bs { sum := (0:Nat) + b.sum, succ := (0:Nat) + b.succ, fail := (0:Nat) + b.fail, drop := (0:Nat) + b.drop }
    simp only [sumBuckets, List.foldl_cons] at h2 ⊢
    simp only [sumBuckets] at h1
    constructor
    · rw [h1.1, h2.1]; simp [reduceStep]; omega
    · rw [h1.2, h2.2]; simp [reduceStep]; omega

/-! ### the decision of `accept` -/

theorem acceptPath_reject (lp now : Nat) (thr less : Bool) (h : (acceptPath lp now thr less).verdict = .reject) :
    thr = true ∧ less = true ∧ ¬ (lp > 0 ∧ now - lp > forcePassNs) := by
  unfold acceptPath at h
  by_cases hf : lp > 0 ∧ now - lp > forcePassNs <;> cases thr <;> cases less <;> simp [Path.verdict, hf] at h ⊢
  all_goals simp_all

theorem acceptPath_forced (lp now : Nat) (thr less : Bool) (h1 : 0 < lp) (h2 : now - lp > forcePassNs) :
    (acceptPath lp now thr less).verdict = .pass := by
  unfold acceptPath
  cases thr <;> simp [Path.verdict, h1, h2]

theorem accept_fst (b : Breaker) (now : Nat) (u : Rat) : (b.accept now u).1 = (b.pathOf now u).verdict := rfl

/-! ### the weight and the numerator in hundredths (float policy) -/

theorem rawWeight_eq (fb : Nat) : rawWeight fb = (((150 - (fb : Int)) : Int) : Rat) / 100 := by
  unfold rawWeight kMax kMin
  push_cast
  grind

theorem weight_eq_of_le (fb : Nat) (h : fb ≤ 40) : weight fb = (((150 - (fb : Int)) : Int) : Rat) / 100 := by
  unfold weight
  rw [rawWeight_eq]
  have : ¬ ((((150 - (fb : Int)) : Int) : Rat) / 100 < kMin) := by
    unfold kMin
    have h2 : (110 : Int) ≤ 150 - (fb : Int) := by omega
    have h3 : ((110 : Int) : Rat) ≤ (((150 - (fb : Int)) : Int) : Rat) := by exact_mod_cast h2
    grind
  rw [if_neg this]

end GoZero.C01
